SPECIFICATION TSpec
CONSTANTS BASE = 32768  Slack = 0  Unlimited = 2147483647  SlackMt = 16384  SlackIndex = 16384
 Variant = {}
POSTCONDITION TraceAccepted
CHECK_DEADLOCK FALSE
