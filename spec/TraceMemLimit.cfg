SPECIFICATION TSpec
CONSTANTS BASE = 32768  Slack = 0  Unlimited = 2147483647  SlackMt = 65536
 Variant = {}
POSTCONDITION TraceAccepted
CHECK_DEADLOCK FALSE
