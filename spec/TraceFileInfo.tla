---------------------------- MODULE TraceFileInfo ---------------------------
(* Trace validation for C13: every lzma_code() call made while decoding a    *)
(* real multi-Stream .xz file with lzma_file_info_decoder is one event       *)
(*   [e |-> "Call", pos, n, ret, used, seek]                                 *)
(* (file offset of the first input byte, bytes offered, return value, bytes  *)
(* consumed, lzma_stream.seek_pos) and must be exactly the step FileInfo!Call*)
(* takes on the file's layout, which a "Reset" event gives as                *)
(*   file |-> <<blocks, isize, pad, claimB, claimT>> per Stream.             *)
(* A final "Result" event carries the Stream Paddings of the decoded index.  *)
(* For calls that return an error the number of consumed bytes is not        *)
(* compared (how far the Index decoder reads into garbage is not modelled).  *)
EXTENDS FileInfo, TLC, Json, IOUtils

TraceLog == ndJsonDeserialize(IOEnv.TRACE)

VARIABLES l, file, c, ret, appPos
vars == <<l, file, c, ret, appPos>>

IsEvent(e) == l <= Len(TraceLog) /\ TraceLog[l].e = e /\ l' = l + 1
Errors == {"DATA_ERROR", "FORMAT_ERROR"}

TInit == l = 1 /\ file = <<>> /\ c = C0 /\ ret = "none" /\ appPos = 0

TReset == /\ IsEvent("Reset")
          /\ LET t == TraceLog[l] IN
             file' = [k \in 1..Len(t.file) |-> [blocks |-> t.file[k][1], isize |-> t.file[k][2], pad |-> t.file[k][3],
                                                claimB |-> t.file[k][4], claimT |-> t.file[k][5]]]
          /\ c' = C0 /\ ret' = "none" /\ appPos' = 0

TCall == /\ IsEvent("Call")
         /\ ret \in {"none", "OK", "SEEK_NEEDED"}
         /\ LET t == TraceLog[l]
                r == Call(file, c, t.n)
            IN  /\ t.pos = appPos                         \* the application honours seeks and reads sequentially
                /\ t.n > 0 /\ t.pos + t.n <= FSize(file)
                /\ r.ret = t.ret
                /\ t.ret \in Errors \/ r.c.inPos = t.used
                /\ t.ret = "SEEK_NEEDED" => r.c.seek = t.seek /\ t.seek <= FSize(file)
                /\ c' = r.c /\ ret' = r.ret
                /\ appPos' = IF r.ret = "SEEK_NEEDED" THEN r.c.seek ELSE appPos + r.c.inPos
         /\ UNCHANGED file

TResult == /\ IsEvent("Result")
           /\ ret = "STREAM_END"
           /\ LET t == TraceLog[l] IN
              /\ Len(t.pads) = Len(file)
              /\ c.comb = [k \in 1..Len(file) |-> [k |-> k, pad |-> t.pads[k]]]
           /\ UNCHANGED <<file, c, ret, appPos>>

TNext == TReset \/ TCall \/ TResult
TSpec == TInit /\ [][TNext]_vars
TraceAccepted == TLCGet("stats").diameter - 1 = Len(TraceLog)
=============================================================================
