SPECIFICATION TSpec
CONSTANTS LenMin = 2 LenMax = 273 RepeatMax = 288 ChunkUncompMax = 2097152 ChunkCompMax = 65536
POSTCONDITION TraceAccepted
CHECK_DEADLOCK FALSE
