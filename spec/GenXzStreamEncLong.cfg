SPECIFICATION GSpec
CONSTANTS MaxIn = 2  MaxOps = 60  MidRunChunks = FALSE  TinyInput = FALSE  Bugs = {}  Profile = "stream"
 Encs = {"stream", "raw", "block"}  Grants = {"big"}  Checks = {"crc"}  BSizes = {0}
ACTION_CONSTRAINT Emit
CHECK_DEADLOCK FALSE
