-------------------------------- MODULE XzFault --------------------------------
(* C05: a valid .xz file is damaged by ONE fault and decoded by the operational  *)
(* model XzStreamDec.  The fault is chosen in Init:                              *)
(*                                                                               *)
(*   None | Flip(field, class) | Overwrite(field, class)  (the CRC32 that        *)
(*   protects the field is recomputed: a consistent foreign header / Index /     *)
(*   footer) | Insert(field) | Delete(field) | Truncate(field, where)            *)
(*                                                                               *)
(* A fault either changes abstract VALUES and keeps the framing (then the        *)
(* decoder model derives the verdict from the comparisons the code makes, in     *)
(* the order it makes them - this is what checks the design), or it destroys     *)
(* the FRAMING from a field on (size bytes, VLI continuation bits, the Index     *)
(* Indicator, inserted / deleted bytes, a payload that ends elsewhere); then     *)
(* the verdict is any member of FrameRets: every byte string parsed from there   *)
(* on is covered by a CRC32 / Check / size comparison or the input ends          *)
(* (assumption FrameLossDetected - validated against the real decoder on every   *)
(* bit and byte offset by the replay).                                           *)
(*                                                                               *)
(* Assumption CrcDetects: a stored CRC32 / Check over changed bytes never        *)
(* matches (hcrc / icrc / fcrc / chk become FALSE unless recomputed).            *)
EXTENDS XzStreamDec, XzFormat, Json, IOUtils

CONSTANTS Variant, BaseSet

VARIABLES orig,    \* the valid file before the damage
          fault    \* [kind, s, b, f, cls, frame]
fvars == <<dvars, orig, fault>>

DataCat == ndJsonDeserialize(IOEnv.C03CAT)
CatChunks(d) == DataCat[d].chunks

(* ---- base files: Checks x {1 Block | 2 Blocks, then a second Stream after Stream Padding} ---- *)
Blk(d, hc, hu, xp) == MkBlock(d, CatChunks(d), hc, hu, <<F("lzma2", 1)>>, xp)
BlkF(d) == MkBlock(d, CatChunks(d), TRUE, TRUE, <<F("delta", 1), F("x86", 0), F("lzma2", 1)>>, 4)
OneBlock(c) == [streams |-> <<MkStream(c, <<Blk(1, FALSE, FALSE, 0)>>, 0)>>]
TwoTwo(c) == [streams |-> <<MkStream(c, <<BlkF(4), Blk(3, FALSE, TRUE, 0)>>, 4), MkStream(c, <<Blk(1, TRUE, FALSE, 0)>>, 0)>>]
Empty(c) == [streams |-> <<MkStream(c, <<>>, 0)>>]
Rich(c) == [streams |-> <<MkStream(c, <<Blk(5, TRUE, TRUE, 4), Blk(7, FALSE, FALSE, 0)>>, 8), MkStream(c, <<>>, 4), MkStream(c, <<Blk(6, TRUE, TRUE, 0)>>, 0)>>]
BaseChecks == CASE BaseSet = "supported" -> {1, 4, 10} [] BaseSet = "tiny" -> {1} [] OTHER -> {1, 4, 10, 0, 2}
(* empty Blocks (no output at all) are valid and carry a Check like any other Block: first and second position *)
EmptyFirst(c) == [streams |-> <<MkStream(c, <<Blk(2, FALSE, FALSE, 0), Blk(1, FALSE, FALSE, 0)>>, 0)>>]
EmptySecond(c) == [streams |-> <<MkStream(c, <<Blk(3, FALSE, FALSE, 0), MkBlock(2, CatChunks(2), TRUE, TRUE, <<F("x86", 0), F("lzma2", 1)>>, 0)>>, 0)>>]
BaseFiles == {OneBlock(c) : c \in BaseChecks} \cup {TwoTwo(c) : c \in BaseChecks} \cup {Empty(c) : c \in {1}}
             \cup {EmptyFirst(c) : c \in BaseChecks} \cup {EmptySecond(c) : c \in BaseChecks}
             \cup (IF BaseSet = "thorough" THEN {Rich(c) : c \in {1, 4, 10, 0}} ELSE {})

(* ---- effects of a fault ---- *)
US(f, s, T) == [f EXCEPT !.streams[s] = T]
UB(f, s, b, T) == [f EXCEPT !.streams[s].blocks[b] = T]
Eff(cls, frame, f) == [cls |-> cls, frame |-> frame, file |-> f]
SameSizeChecks(c) == {x \in 0..15 : x # c /\ CheckSize(x) = CheckSize(c)}
OtherSizeChecks(c) == {x \in {0, 1, 4, 10} : CheckSize(x) # CheckSize(c)}
(* a power-of-two size byte can become 0x00 (the Index Indicator) by one bit flip: 8, 12, 20, 36... bytes *)
SizeByte(T) == T.hsz \div 4 - 1
PowerOfTwo(n) == n \in {1, 2, 4, 8, 16, 32, 64, 128}
(* other data in the place of the first data chunk of a Block *)
OtherData(T) == [T EXCEPT !.did = 0, !.chk = FALSE]
LongerData(T) == LET k == CHOOSE k \in 1..Len(T.chunks) : T.chunks[k].k # "end"
                 IN [T EXCEPT !.did = 0, !.chk = FALSE, !.chunks[k].n = T.chunks[k].n + 1]
BrokenData(T) == LET k == CHOOSE k \in 1..Len(T.chunks) : TRUE
                 IN [T EXCEPT !.did = 0, !.chunks[k] = [T.chunks[k] EXCEPT !.k = "lzma", !.reset = "all", !.props = "ok", !.pl = "err"]]
HasData(T) == \E k \in 1..Len(T.chunks) : T.chunks[k].k # "end"

(* single-bit flips (and any overwrite that does not repair the CRC32): classes by what the bit means *)
FlipEffects(f, s, b, fld) ==
    LET T == f.streams[s]
        K == IF b > 0 THEN T.blocks[b] ELSE T.blocks      \* only used when b > 0
    IN CASE fld = "h.magic" -> {Eff("magic", FALSE, US(f, s, [T EXCEPT !.hmagic = FALSE]))}
         [] fld = "h.flags" -> {Eff("reserved", FALSE, US(f, s, [T EXCEPT !.hvers = FALSE, !.hcrc = FALSE])),
                                Eff("check", FALSE, US(f, s, [T EXCEPT !.hcrc = FALSE]))}
         [] fld = "h.crc32" -> {Eff("crc", FALSE, US(f, s, [T EXCEPT !.hcrc = FALSE]))}
         [] fld = "bh.size" -> {Eff("bigger", FALSE, UB(f, s, b, [K EXCEPT !.hsz = K.hsz + 4]))}
                               \cup (IF K.hsz > 8 THEN {Eff("smaller", FALSE, UB(f, s, b, [K EXCEPT !.hsz = K.hsz - 4]))} ELSE {})
                               \cup (IF PowerOfTwo(SizeByte(K)) THEN {Eff("zero", TRUE, f)} ELSE {})
                               \cup {Eff("beyond", FALSE, UB(f, s, b, [K EXCEPT !.hsz = FileReal(f) + 4]))}     \* header "longer than the file"
         [] fld \in {"bh.flags", "bh.cs", "bh.us", "bh.filters", "bh.padding", "bh.crc32"} ->
                {Eff("crc", FALSE, UB(f, s, b, [K EXCEPT !.hcrc = FALSE]))}
                \cup (IF fld = "bh.flags" THEN {Eff("reserved", FALSE, UB(f, s, b, [K EXCEPT !.hcrc = FALSE, !.resv = TRUE]))} ELSE {})
                \cup (IF fld = "bh.padding" THEN {Eff("nonzero", FALSE, UB(f, s, b, [K EXCEPT !.hcrc = FALSE, !.hpadz = FALSE]))} ELSE {})
         [] fld = "b.data" -> {Eff("same", FALSE, f), Eff("frame", TRUE, f), Eff("error", FALSE, UB(f, s, b, BrokenData(K)))}
                              \cup (IF HasData(K) THEN {Eff("other", FALSE, UB(f, s, b, OtherData(K))),
                                                        Eff("length", FALSE, UB(f, s, b, LongerData(K)))} ELSE {})
         [] fld = "b.padding" -> {Eff("nonzero", FALSE, UB(f, s, b, [K EXCEPT !.bpadz = FALSE]))}
         [] fld = "b.check" -> {Eff("check", FALSE, UB(f, s, b, [K EXCEPT !.chk = FALSE]))}
         [] fld = "i.indicator" -> {Eff("nonzero", TRUE, f)}
         [] fld = "i.count" -> {Eff("value", FALSE, US(f, s, [T EXCEPT !.icount = T.icount + 1, !.icrc = FALSE,
                                                                      !.irecs = Append(T.irecs, Rec(24, 0))])),
                                Eff("vli", TRUE, f)}
         [] fld = "i.records" -> {Eff("value", FALSE, US(f, s, [T EXCEPT !.irecs[1].u = T.irecs[1].u + 1, !.icrc = FALSE])),
                                  Eff("value", FALSE, US(f, s, [T EXCEPT !.irecs[Len(T.irecs)].n = T.irecs[Len(T.irecs)].n + 1, !.icrc = FALSE])),
                                  Eff("vli", TRUE, f)}
         [] fld = "i.padding" -> {Eff("nonzero", FALSE, US(f, s, [T EXCEPT !.ipadz = FALSE, !.icrc = FALSE]))}
         [] fld = "i.crc32" -> {Eff("crc", FALSE, US(f, s, [T EXCEPT !.icrc = FALSE]))}
         [] fld = "f.crc32" -> {Eff("crc", FALSE, US(f, s, [T EXCEPT !.fcrc = FALSE]))}
         [] fld = "f.backward_size" -> {Eff("value", FALSE, US(f, s, [T EXCEPT !.fbs = T.fbs + 4, !.fcrc = FALSE]))}
         [] fld = "f.flags" -> {Eff("reserved", FALSE, US(f, s, [T EXCEPT !.fvers = FALSE, !.fcrc = FALSE])),
                                Eff("check", FALSE, US(f, s, [T EXCEPT !.fcheck = (T.fcheck + 1) % 16, !.fcrc = FALSE]))}
         [] fld = "f.magic" -> {Eff("magic", FALSE, US(f, s, [T EXCEPT !.fmagic = FALSE]))}
         [] OTHER -> {Eff("nonzero", TRUE, f)}                      \* s.padding: a non-zero byte looks like the next Stream
(* a field replaced by another well-formed value, the protecting CRC32 recomputed *)
OverEffects(f, s, b, fld) ==
    LET T == f.streams[s]
        K == IF b > 0 THEN T.blocks[b] ELSE T.blocks
    IN CASE fld = "h.flags" ->
              {Eff("reserved", FALSE, US(f, s, [T EXCEPT !.hvers = FALSE]))}
              \cup {Eff("check_same_size", FALSE,
                        US(f, s, [T EXCEPT !.check = c,          \* the stored Check fields are of the old type: they cannot match a supported new type
                                           !.blocks = [k \in 1..Len(T.blocks) |-> [T.blocks[k] EXCEPT !.chk = FALSE]]])) : c \in SameSizeChecks(T.check)}
              \cup {IF Len(T.blocks) = 0 THEN Eff("check_other_size", FALSE, US(f, s, [T EXCEPT !.check = c]))
                                         ELSE Eff("check_other_size", TRUE, f) : c \in OtherSizeChecks(T.check)}
         [] fld = "bh.flags" -> {Eff("reserved", FALSE, UB(f, s, b, [K EXCEPT !.resv = TRUE]))}
         \* "nonmin": the SAME value in a longer (malformed) encoding; the extra byte is taken from the Header Padding
         [] fld = "bh.cs" -> {Eff("value", FALSE, UB(f, s, b, [K EXCEPT !.cs.v = K.cs.v + 1]))}
                             \cup (IF K.hpad >= 1 THEN {Eff("nonmin", FALSE, UB(f, s, b, [K EXCEPT !.cs.vli = FALSE, !.cs.vc = "nonmin", !.hpad = K.hpad - 1]))} ELSE {})
         [] fld = "bh.us" -> {Eff("value", FALSE, UB(f, s, b, [K EXCEPT !.us.v = K.us.v + 1]))}
                             \cup (IF K.hpad >= 1 THEN {Eff("nonmin", FALSE, UB(f, s, b, [K EXCEPT !.us.vli = FALSE, !.us.vc = "nonmin", !.hpad = K.hpad - 1]))} ELSE {})
         [] fld = "bh.filters" -> {Eff("unknown_id", FALSE, UB(f, s, b, [K EXCEPT !.filters[1] = FX("unknown", K.filters[1].plen, TRUE)])),
                                   Eff("benign", FALSE, f)}       \* e.g. another valid LZMA2 dictionary size: still the same data
         [] fld = "bh.padding" -> {Eff("nonzero", FALSE, UB(f, s, b, [K EXCEPT !.hpadz = FALSE]))}
         \* Index VLIs: "nonmin" keeps the value, the padding and the Backward Size of the minimal Index (one byte more in the file)
         [] fld = "i.count" -> {Eff("value", FALSE, US(f, s, [T EXCEPT !.icount = T.icount + 1, !.irecs = Append(T.irecs, Rec(24, 0))])),
                                Eff("nonmin", FALSE, US(f, s, [T EXCEPT !.ivli = FALSE, !.ivpos = 1, !.ivcls = "nonmin"]))}
         [] fld = "i.records" -> {Eff("nonmin", FALSE, US(f, s, [T EXCEPT !.ivli = FALSE, !.ivpos = 2, !.ivcls = "nonmin"])),
                                  Eff("nonmin", FALSE, US(f, s, [T EXCEPT !.ivli = FALSE, !.ivpos = 2 * Len(T.irecs) + 1, !.ivcls = "nonmin"])),
                                  Eff("value", FALSE, US(f, s, [T EXCEPT !.irecs[1].u = T.irecs[1].u + 4])),
                                  Eff("value", FALSE, US(f, s, [T EXCEPT !.irecs[Len(T.irecs)].n = T.irecs[Len(T.irecs)].n + 1]))}
                                 \cup (IF Len(T.irecs) >= 2 /\ T.irecs[1] # T.irecs[2]
                                       THEN {Eff("swap", FALSE, US(f, s, [T EXCEPT !.irecs[1] = T.irecs[2], !.irecs[2] = T.irecs[1]]))} ELSE {})
         [] fld = "i.padding" -> {Eff("nonzero", FALSE, US(f, s, [T EXCEPT !.ipadz = FALSE]))}
         \* "wrap": stored Backward Size + k * 2^30 - equal to the true size in 32-bit arithmetic on (stored + 1) * 4
         [] fld = "f.backward_size" -> {Eff("value", FALSE, US(f, s, [T EXCEPT !.fbs = T.fbs + 4]))}
                                       \cup {Eff("wrap", FALSE, US(f, s, [T EXCEPT !.fbs = T.fbs + BigStandIn, !.fbb = k])) : k \in {"k1", "k2", "k3"}}
         [] fld = "f.flags" -> {Eff("reserved", FALSE, US(f, s, [T EXCEPT !.fvers = FALSE]))}
                               \cup {Eff("check", FALSE, US(f, s, [T EXCEPT !.fcheck = c])) : c \in {x \in {0, 1, 2, 4, 10, 15} : x # T.fcheck}}
         [] OTHER -> {}
CrcProtected == {"h.flags", "bh.flags", "bh.cs", "bh.us", "bh.filters", "bh.padding", "i.count", "i.records", "i.padding",
                 "f.backward_size", "f.flags"}

(* where the framing is lost for check_other_size: the first Check field is read with the wrong size *)
FrameField(fl) == IF fl.kind = "over" /\ fl.cls = "check_other_size" THEN [s |-> fl.s, b |-> 1, f |-> "b.check"]
                  ELSE [s |-> fl.s, b |-> fl.b, f |-> fl.f]

Faults(f) ==
    LET Fs == Fields(f) IN
    {[kind |-> "none", s |-> 0, b |-> 0, f |-> "", cls |-> "", frame |-> FALSE, file |-> f, limit |-> FileReal(f)]}
    \cup UNION {{[kind |-> "flip", s |-> Fs[k].s, b |-> Fs[k].b, f |-> Fs[k].f, cls |-> e.cls, frame |-> e.frame, file |-> e.file, limit |-> FileReal(f)]
                   : e \in FlipEffects(f, Fs[k].s, Fs[k].b, Fs[k].f)} : k \in 1..Len(Fs)}
    \cup UNION {{[kind |-> "over", s |-> Fs[k].s, b |-> Fs[k].b, f |-> Fs[k].f, cls |-> e.cls, frame |-> e.frame, file |-> e.file, limit |-> FileReal(e.file)]
                   : e \in OverEffects(f, Fs[k].s, Fs[k].b, Fs[k].f)} : k \in {j \in 1..Len(Fs) : Fs[j].f \in CrcProtected}}
    \* one byte inserted / deleted: the framing is lost from that field on; in Stream Padding a zero byte more or less
    \cup UNION {{[kind |-> kd, s |-> Fs[k].s, b |-> Fs[k].b, f |-> Fs[k].f, cls |-> "shift", frame |-> TRUE, file |-> f, limit |-> FileReal(f)]
                   : kd \in {"ins", "del"}} : k \in {j \in 1..Len(Fs) : Fs[j].f # "s.padding"}}
    \cup UNION {{[kind |-> "ins", s |-> Fs[k].s, b |-> 0, f |-> "s.padding", cls |-> "zero", frame |-> FALSE,
                  file |-> US(f, Fs[k].s, [f.streams[Fs[k].s] EXCEPT !.pad = f.streams[Fs[k].s].pad + 1]), limit |-> FileReal(f) + 1],
                 [kind |-> "del", s |-> Fs[k].s, b |-> 0, f |-> "s.padding", cls |-> "zero", frame |-> FALSE,
                  file |-> US(f, Fs[k].s, [f.streams[Fs[k].s] EXCEPT !.pad = f.streams[Fs[k].s].pad - 1]), limit |-> FileReal(f) - 1]}
                   : k \in {j \in 1..Len(Fs) : Fs[j].f = "s.padding"}}
    \* the file ends before / inside a field
    \cup UNION {{[kind |-> "trunc", s |-> Fs[k].s, b |-> Fs[k].b, f |-> Fs[k].f, cls |-> w, frame |-> FALSE, file |-> f,
                  limit |-> FieldOffset(f, k) + (IF w = "before" THEN 0 ELSE IF w = "inside" THEN 1 ELSE IF w = "aligned" THEN 4 ELSE Fs[k].len - 1)]
                   : w \in {"before"} \cup (IF Fs[k].len > 1 THEN {"inside", "last"} ELSE {})
                                      \cup (IF Fs[k].f = "s.padding" /\ Fs[k].len > 4 THEN {"aligned"} ELSE {})} : k \in 1..Len(Fs)}

(* the flag lattice of the decoders: LZMA_CONCATENATED x LZMA_IGNORE_CHECK *)
FlagSets == {[concat |-> c, tellNo |-> FALSE, tellUnsup |-> FALSE, tellAny |-> FALSE, ignoreCheck |-> i] : c, i \in BOOLEAN}
Init == \E f \in BaseFiles : \E fl \in Faults(f) : \E Flags \in FlagSets :
           /\ orig = f
           /\ fault = [kind |-> fl.kind, s |-> fl.s, b |-> fl.b, f |-> fl.f, cls |-> fl.cls, frame |-> fl.frame]
           /\ DecInit(fl.file, Flags, fl.limit)

FrameHit == LET ff == FrameField(fault) IN
            /\ fault.frame /\ ret = "run" /\ si = ff.s /\ ff.f \in Touches
            /\ (ff.b = 0 \/ ff.b = TouchBlock)
            /\ ~(seq = "BLOCK_HEADER" /\ AtIndex)
FrameRets == {"DATA_ERROR", "BUF_ERROR"} \cup (IF fault.f = "h.magic" /\ first THEN {"FORMAT_ERROR"} ELSE {})

(* deliberately broken decoders: each drops one comparison of the real code (non-vacuity: the invariants must notice) *)
Skip(nextSeq, n) == /\ seq' = nextSeq /\ pos' = pos + n /\ UNCHANGED <<file, flags, limit, si, bi, first, ret, tells, out, partial, ih>>
VNext ==
    CASE Variant = "no_flags_compare" /\ seq = "STREAM_FOOTER" /\ ret = "run" /\ Have(12)
           /\ FooterRet(S, ih) = "DATA_ERROR" /\ FooterRet([S EXCEPT !.fcheck = S.check], ih) = "OK" -> Skip("STREAM_PADDING", 12)
      [] Variant = "no_backward_size" /\ seq = "STREAM_FOOTER" /\ ret = "run" /\ Have(12)
           /\ FooterRet(S, ih) = "DATA_ERROR" /\ FooterRet([S EXCEPT !.fbs = IndexSizeOf(ih.cnt, ih.lsize)], ih) = "OK" -> Skip("STREAM_PADDING", 12)
      [] Variant = "no_block_padding" /\ seq = "BLOCK_PADDING" /\ ret = "run" /\ ~B.bpadz /\ Have(BlockPadLen(B)) -> Skip("BLOCK_CHECK", BlockPadLen(B))
      [] Variant = "no_index_padding" /\ seq = "INDEX" /\ ret = "run" /\ Have(IndexReal(S))
           /\ IndexRet(S, ih) = "DATA_ERROR" /\ IndexRet([S EXCEPT !.ipadz = TRUE], ih) = "OK" -> Skip("STREAM_FOOTER", IndexReal(S))
      [] Variant = "no_check_compare" /\ seq = "BLOCK_CHECK" /\ ret = "run" /\ Have(CheckSize(S.check)) /\ ~B.chk ->
           /\ pos' = pos + CheckSize(S.check) /\ bi' = bi + 1 /\ seq' = "BLOCK_HEADER"
           /\ ih' = IhAppend(ih, B.hsz + DataReal(B) + CheckSize(S.check), DataOut(B))
           /\ UNCHANGED <<file, flags, limit, si, first, ret, tells, out, partial>>
      [] OTHER -> DecNext
Next == /\ IF FrameHit THEN ret' \in FrameRets /\ UNCHANGED <<file, flags, limit, seq, si, bi, pos, first, tells, out, partial, ih>>
                       ELSE VNext
        /\ UNCHANGED <<orig, fault>>
Spec == Init /\ [][Next]_fvars

(* ------------------------------------------------------------------------ *)
(* The property (C05)                                                        *)
(* ------------------------------------------------------------------------ *)
Done == ret # "run"
Success == ret = "STREAM_END"
OrigMeaning == Meaning(orig, flags.concat)          \* without LZMA_CONCATENATED the decoder is asked for the first Stream only
(* ... and never looks at what follows the first Stream Footer *)
Unseen == ~flags.concat /\ fault.kind # "none" /\ (fault.s > 1 \/ fault.f = "s.padding")
HasIntegrityCheck == \A k \in 1..Len(orig.streams) : orig.streams[k].check \in {1, 4, 10}
(* 1. with an integrity check, a damaged file is never reported complete with other data *)
(*    (a file cut exactly between two Streams is a shorter VALID file: CutAtStreamBoundary below, outside the clause) *)
(*    LZMA_IGNORE_CHECK renounces the integrity check.                                                              *)
NeverWrongSuccess == (Done /\ fault.kind # "none" /\ HasIntegrityCheck /\ ~flags.ignoreCheck /\ ~(fault.kind = "trunc" /\ (fault.f = "s.padding" \/ (fault.f = "h.magic" /\ fault.cls = "before" /\ fault.s > 1))))
                        => ~(Success /\ (out # OrigMeaning \/ partial))
(* 2. damage outside the compressed payload is always an error.  Named exclusions:                            *)
(*    UnverifiableCheck - the Check field of a type this build cannot compute;                               *)
(*    Overwrite(.., "benign") - a re-written, CRC-consistent header that means the same;                    *)
(*    whole zero words added to / removed from Stream Padding are not damage to its length modulo four.     *)
UnverifiableCheck == fault.f = "b.check" /\ (~CheckSupported(orig.streams[fault.s].check) \/ flags.ignoreCheck)
OutsidePayload == fault.kind \in {"flip", "over", "ins", "del"} /\ fault.f # "b.data" /\ fault.cls # "benign" /\ ~UnverifiableCheck /\ ~Unseen
DamageOutsidePayloadDetected == (Done /\ OutsidePayload) => ~Success
(* 3. a file that ends inside a Stream is never complete (through lzma_code: LZMA_BUF_ERROR).               *)
(*    CutAtStreamBoundary: cutting exactly between Streams / inside Stream Padding leaves a shorter valid   *)
(*    file (multiple of four) or is a padding error - not "inside a Stream".                                *)
CutAtStreamBoundary == fault.kind = "trunc" /\ (fault.f = "s.padding" \/ (fault.f = "h.magic" /\ fault.cls = "before" /\ fault.s > 1))
TruncatedNeverComplete == (Done /\ fault.kind = "trunc" /\ ~CutAtStreamBoundary /\ ~Unseen) => ret = "BUF_ERROR"
UnseenIsHarmless == (Done /\ Unseen) => (Success /\ out = OrigMeaning /\ ~partial)
BoundaryCutIsPrefix == (Done /\ CutAtStreamBoundary /\ ~Unseen) => (ret \in {"STREAM_END", "DATA_ERROR"} /\ ~partial
                                                           /\ Len(out) <= Len(OrigMeaning) /\ \A k \in 1..Len(out) : out[k] = OrigMeaning[k])
(* 4. sanity: no fault, no error *)
NoFaultNoError == (Done /\ fault.kind = "none") => (Success /\ out = OrigMeaning)
RetDocumented == ret \in {"run", "STREAM_END", "FORMAT_ERROR", "OPTIONS_ERROR", "DATA_ERROR", "BUF_ERROR"}

(* (G) one line per (file, fault) terminal state: the admissible return codes are collected by the replay *)
Emit == (ret' # "run") =>
          PrintT(<<"PLAN", ToJson([base |-> [check |-> orig.streams[1].check,      \* identifies the base file within BaseFiles
                                             dids |-> [k \in 1..Len(orig.streams) |-> StreamMeaning(orig.streams[k])]],
                                   flags |-> [concat |-> flags.concat, ignoreCheck |-> flags.ignoreCheck],
                                   fault |-> fault, ret |-> ret', same |-> (out' = OrigMeaning /\ ~partial'),
                                   file |-> IF fault.kind = "none" THEN orig ELSE [streams |-> <<>>],
                                   fields |-> IF fault.kind = "none" THEN Fields(orig) ELSE <<>>])>>)
=============================================================================
