SPECIFICATION Spec
INVARIANT ReferenceDecodesFile
CHECK_DEADLOCK FALSE
