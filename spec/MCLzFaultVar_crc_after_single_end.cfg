SPECIFICATION Spec
CONSTANTS Variant = "crc_after_single_end"
INVARIANTS LzNeverWrongSuccess LzFooterDamageDetected TruncatedNeverComplete NoFaultNoError
CHECK_DEADLOCK FALSE
