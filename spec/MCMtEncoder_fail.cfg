SPECIFICATION Spec
CONSTANTS
 MaxUpdates = 0
 MaxReinit = 0 BSChoices = {} FixBlockSize = TRUE  FixLostWorker = TRUE
 CountCalls = TRUE
 NW = 2  NW0 = 2  NWChoices = {2}  BS = 2  Total = 3  Chunk = 1  HdrSz = 1  TailSz = 2
 Timeout = FALSE  Spurious = FALSE  MayFail = TRUE MayFailMain = FALSE
 Gives = {0, 1, 100}  Spaces = {0, 1, 100}
 FlushActs = {}
 MaxCalls = 7
CONSTRAINT CallBound
VIEW MCView
INVARIANTS OrderedOutput BlocksPartitionInput BoundariesOnlyWhereRequested FlushCompletes BarrierCompletes FinishCompletes ProgressTruthful BufErrorOnlyWhenStarved DocumentedCodes QueueBound EndJoinsAll InBufFits
