SPECIFICATION Spec
CONSTANTS B = 8  MaxN = 20  NoProbe = FALSE
INVARIANT VerdictIndependentOfBuffer
CONSTRAINT EmitPlan
CHECK_DEADLOCK FALSE
