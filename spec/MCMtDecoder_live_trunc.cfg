SPECIFICATION FairSpec
CONSTANTS
 Copies = 1  Pad = 0  Concat = FALSE
 OutOvh = 1
 EarlyTailError = FALSE
 MaxReinit = 0 MemStop = 1000000 MaxRaise = 0 MayFailMain = FALSE Tell = "none"
 CountCalls = FALSE
 NW = 2  HdrSz = 1  TailSz = 1  TailOk = TRUE  Chunk = 1
 Blocks <- B_ok3
 FileLen = 7
 Timeout = FALSE  FailFast = FALSE  Spurious = FALSE  MemT = 100
 Gives = {100}  Spaces = {100}
 MaxCalls = 0
PROPERTY EventuallyDone
INVARIANTS OutputIsPrefix TerminalEquivalence NoUseAfterFree MemlimitEquivalence TellOncePerStream
