------------------------------ MODULE AloneEnc -------------------------------
(* The header that alone_encoder_init() (src/liblzma/common/alone_encoder.c)  *)
(* writes: the Dictionary Size field is the requested size rounded up to the  *)
(* next 2^n or 2^n + 2^(n-1) (or UINT32_MAX) "to keep the decoder of liblzma   *)
(* accepting the resulting files", the Uncompressed Size is always unknown.    *)
(* Evaluated by TLC on the sizes of EncSizes: the contract is checked (ASSUME) *)
(* and one PLAN line per size is printed for the replay into                   *)
(* lzma_alone_encoder().                                                       *)
EXTENDS Alone, TLC, Json

\* transcription of the rounding
EncDictField(dict) ==
    LET d0 == DecW(dict)
        d1 == OrW(d0, ShrW(d0, 2))
        d2 == OrW(d1, ShrW(d1, 3))
        d3 == OrW(d2, ShrW(d2, 4))
        d4 == OrW(d3, ShrW(d3, 8))
        d5 == OrW(d4, ShrW(d4, 16))
    IN IF d5 # MaxW THEN IncW(d5) ELSE d5
\* lzma_lzma_lclppb_encode()
EncProps(lc, lp, pb) == (pb * 5 + lp) * 9 + lc
EncHeader(lc, lp, pb, dict) ==
    <<EncProps(lc, lp, pb)>> \o BytesOfW(EncDictField(dict)) \o <<255, 255, 255, 255, 255, 255, 255, 255>>

\* contract: the least plausible size that is not smaller than the requested one
LeW(a, b) == a[2] < b[2] \/ (a[2] = b[2] /\ a[1] <= b[1])
Plausibles == {Pow2W(n) : n \in 0..31} \cup {AddW(Pow2W(n), Pow2W(n - 1)) : n \in 1..31} \cup {MaxW}
LeastPlausible(dict) == CHOOSE p \in Plausibles : LeW(dict, p) /\ \A q \in Plausibles : LeW(dict, q) => LeW(p, q)

EncSizes ==
    UNION {{Pow2W(n), IncW(Pow2W(n)), DecW(Pow2W(n)), AddW(Pow2W(n), Pow2W(n - 1)), IncW(AddW(Pow2W(n), Pow2W(n - 1))),
            DecW(AddW(Pow2W(n), Pow2W(n - 1))), AddW(Pow2W(n), Pow2W(n - 2)), AddW(Pow2W(n), <<4660 % (2 ^ (n % 16)), 0>>)}
           : n \in 12..31}
    \cup {MaxW, DecW(MaxW), <<5000, 0>>, <<34464, 1>>}

ASSUME \A d \in EncSizes : /\ EncDictField(d) = LeastPlausible(d)
                           /\ DictPlausible(EncDictField(d))
                           /\ ~PickyDictBad(EncDictField(d))            \* the auto decoder accepts it
ASSUME \A lc \in 0..4, lp \in 0..4, pb \in 0..4 :
          lc + lp <= 4 => /\ ~PropsBad(EncProps(lc, lp, pb))
                          /\ PropsLc(EncProps(lc, lp, pb)) = lc /\ PropsLp(EncProps(lc, lp, pb)) = lp
                          /\ PropsPb(EncProps(lc, lp, pb)) = pb
ASSUME \A d \in EncSizes :
          PrintT(<<"PLAN", ToJson([dict |-> d, field |-> EncDictField(d),
                                   header |-> EncHeader(3, 0, 2, d), header2 |-> EncHeader(1, 2, 4, d)])>>)

VARIABLE x
Init == x = 0
Next == UNCHANGED x
=============================================================================
