-------------------------------- MODULE Args ---------------------------------
(* Where xz's options come from (src/xz/args.c): the name the program was    *)
(* invoked by, then XZ_DEFAULTS, then XZ_OPT, then the command line - all    *)
(* parsed by the same parse_real() into the same global variables - and the  *)
(* adjustments of args_parse() afterwards.  Only the options that the C19    *)
(* models consume are covered: -z -d -k -f -c -q -Q -S SUF -F FMT --no-sparse*)
(* A token is a record [o |-> "z"|"d"|"k"|"f"|"c"|"q"|"Q"] or                *)
(* [o |-> "S", v |-> suffix] or [o |-> "F", v |-> "auto"|"xz"|"lzma"|"raw"]. *)
EXTENDS Suffix

Progs == {"xz", "unxz", "xzcat", "lzma", "unlzma", "lzcat"}

(* args_parse(): "Check how we were called" - strstr() on the base name, in  *)
(* this order: xzcat, unxz, lzcat, unlzma, lzma                              *)
ProgInit(prog) ==
    LET base == [mode |-> "compress", keep |-> FALSE, force |-> FALSE, stdout |-> FALSE, fmt |-> "auto",
                 custom |-> NoCustom, quiet |-> 0, nowarn |-> FALSE, nosparse |-> FALSE, fatal |-> FALSE]
    IN  CASE prog = "xzcat"  -> [base EXCEPT !.mode = "decompress", !.stdout = TRUE]
          [] prog = "unxz"   -> [base EXCEPT !.mode = "decompress"]
          [] prog = "lzcat"  -> [base EXCEPT !.fmt = "lzma", !.mode = "decompress", !.stdout = TRUE]
          [] prog = "unlzma" -> [base EXCEPT !.fmt = "lzma", !.mode = "decompress"]
          [] prog = "lzma"   -> [base EXCEPT !.fmt = "lzma"]
          [] OTHER -> base

(* parse_real(): one option *)
Apply(st, t) ==
    CASE t.o = "z" -> [st EXCEPT !.mode = "compress"]
      [] t.o = "d" -> [st EXCEPT !.mode = "decompress"]
      [] t.o = "k" -> [st EXCEPT !.keep = TRUE]
      [] t.o = "f" -> [st EXCEPT !.force = TRUE]
      [] t.o = "c" -> [st EXCEPT !.stdout = TRUE]
      [] t.o = "q" -> [st EXCEPT !.quiet = IF st.quiet < 2 THEN st.quiet + 1 ELSE 2]
      [] t.o = "Q" -> [st EXCEPT !.nowarn = TRUE]
      [] t.o = "n" -> [st EXCEPT !.nosparse = TRUE]           \* --no-sparse
      [] t.o = "S" -> IF SuffixSet(t.v) = "fatal" THEN [st EXCEPT !.fatal = TRUE]
                      ELSE [st EXCEPT !.custom = t.v]        \* suffix_set(): the old value is replaced by a copy
      [] t.o = "F" -> [st EXCEPT !.fmt = t.v]

RECURSIVE ParseReal(_, _)
ParseReal(st, toks) == IF toks = <<>> THEN st ELSE ParseReal(Apply(st, Head(toks)), Tail(toks))

(* args_parse() after the three parse_real() passes *)
Post(st) ==
    LET s1 == IF st.stdout THEN [st EXCEPT !.keep = TRUE] ELSE st        \* opt_stdout (or --test) => opt_keep_original
        s2 == IF s1.mode = "compress" /\ s1.fmt = "auto" THEN [s1 EXCEPT !.fmt = "xz"] ELSE s1
    IN  IF RawNeedsSuffix(s2.fmt, s2.custom, s2.stdout) THEN [s2 EXCEPT !.fatal = TRUE] ELSE s2

(* environment first (XZ_DEFAULTS, then XZ_OPT), then the command line *)
Effective(prog, dflt, xzopt, cmd) ==
    Post(ParseReal(ParseReal(ParseReal(ProgInit(prog), dflt), xzopt), cmd))

(* ---- where file names come from (main.c) ---------------------------------*)
(* "cmd": operands on the command line; "files" / "files0": a list read from a file given with --files=F /  *)
(* --files0=F (newline / NUL separated); "files_stdin": --files without argument, the list is read from     *)
(* stdin.  Only an operand on the command line that is exactly "-" means standard input; in a list "-" is   *)
(* an ordinary file name.  read_name(): empty entries (consecutive delimiters) are ignored.                 *)
Vias == {"cmd", "files", "files0", "files_stdin"}
IsStdinName(via, name) == via = "cmd" /\ name = <<"-">>
ListNames(entries) == SelectSeq(entries, LAMBDA e : e # <<>>)

(* the format as suffix.c sees it *)
SuffixFmt(eff) == IF eff.fmt = "raw" THEN "raw" ELSE IF eff.mode = "compress" THEN eff.fmt ELSE "auto"
Target(eff, name) == DestName(eff.mode, name, SuffixFmt(eff), eff.custom)
=============================================================================
