SPECIFICATION Spec
CONSTANTS Profile = "quick" DevDepth = 1 FlagMode = "some" Variant = "ok"
ACTION_CONSTRAINT Emit
CHECK_DEADLOCK FALSE
