SPECIFICATION FairSpec
CONSTANTS
 MaxUpdates = 0
 MaxReinit = 0 BSChoices = {} FixBlockSize = TRUE  FixLostWorker = TRUE
 CountCalls = FALSE
 NW = 2  NW0 = 2  NWChoices = {2}  BS = 2  Total = 4  Chunk = 1  HdrSz = 1  TailSz = 2
 Timeout = FALSE  Spurious = FALSE  MayFail = FALSE MayFailMain = FALSE
 Gives = {100}  Spaces = {100}
 FlushActs = {}
 MaxCalls = 0
PROPERTY EventuallyDone
INVARIANTS OrderedOutput FinishCompletes InBufFits
