SPECIFICATION DSpec
CONSTANTS
 Dists = {1, 2, 3, 255, 256}
 Lens = {0, 1, 6, 258, 300}
 Chunks = {1, 2, 5, 100, 1000}
INVARIANTS PrefixOfDefinition PosCountsDown RoundTrip
CHECK_DEADLOCK FALSE
