SPECIFICATION Spec
CONSTANTS MaxLen = 10 Variant = "call_local_pos"
INVARIANTS MultiAgrees SingleAgrees
CHECK_DEADLOCK FALSE
