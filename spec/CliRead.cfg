SPECIFICATION Spec
CONSTANTS B = 3  MaxN = 10  NoProbe = FALSE
INVARIANT VerdictIndependentOfBuffer
PROPERTY Terminates
CHECK_DEADLOCK FALSE
