------------------------------ MODULE GenSlicing ------------------------------
(* (G) for C06: slicing plans = behaviours of the APPLICATION part of Slicing *)
(* (Feed / OutSpace / DoCall) over a normalised layout of NB three-byte       *)
(* fields with one output byte each, so that every input position is a field *)
(* boundary -1, +0 or +1.  A plan is the list of windows offered per call:   *)
(*   [to |-> <<slot j, delta d>> (input made available up to boundary j + d; *)
(*           slot 0 = start, slot NB = end of input), grant |-> "ALL" | n]    *)
(* The driver maps the slots onto the real field boundaries of a concrete    *)
(* file (glue field maps) and performs exactly these calls; when the plan is *)
(* exhausted it offers the rest of the input and repeats the last grant of   *)
(* the plan's output mode.  Prediction for every plan: SliceIndependent       *)
(* (checked by the MCSlicing configs), i.e. the one-shot observation.        *)
EXTENDS Slicing, Json

CONSTANTS NB, MaxCuts, MaxZero

VARIABLES plan, omode, cuts, zeros

Layout == [fields |-> [i \in 1..NB |-> FSym(3, 1, "OK")], have |-> 3 * NB, opt |-> Opt0]
Modes == {"all", "one", "two", "zero_first", "zero_twice"}

GInit == /\ SInitWith(Layout) /\ plan = <<>> /\ omode \in Modes /\ cuts = 0 /\ zeros = 0

\* grant allowed by the output mode for the call number n (1-based)
GrantOk(m) ==
    LET n == Len(plan) + 1 IN
    CASE omode = "all" -> m = Big(inp)
      [] omode = "one" -> m = 1
      [] omode = "two" -> m = 2
      [] omode = "zero_first" -> m = (IF n % 2 = 1 THEN 0 ELSE Big(inp))
      [] omode = "zero_twice" -> m = (IF n % 3 # 0 THEN 0 ELSE Big(inp))   \* provokes LZMA_BUF_ERROR in the middle

GFeed(k) ==
    /\ Feed(k)
    /\ IF k = 0 THEN zeros' = zeros + 1 /\ cuts' = cuts /\ (fed < inp.have => zeros < MaxZero)
       ELSE IF fed + k < inp.have THEN cuts' = cuts + 1 /\ cuts < MaxCuts /\ zeros' = zeros
       ELSE cuts' = cuts /\ zeros' = zeros
    /\ UNCHANGED <<plan, omode>>
GSpace(m) == OutSpace(m) /\ GrantOk(m) /\ UNCHANGED <<plan, omode, cuts, zeros>>
GCall ==
    /\ DoCall
    /\ plan' = Append(plan, [to |-> <<(fed + 1) \div 3, ((fed + 1) % 3) - 1>>,
                             grant |-> IF grant >= Big(inp) THEN "ALL" ELSE ToString(grant)])
    /\ UNCHANGED <<omode, cuts, zeros>>

GNext == \/ \E k \in 0..inp.have : GFeed(k)
         \/ \E m \in {0, 1, 2, Big(inp)} : GSpace(m)
         \/ GCall
GSpec == GInit /\ [][GNext]_<<allvars, plan, omode, cuts, zeros>>

\* the plan is part of the state: two different plans never merge
GView == <<fed, grant, phase, done, plan, omode, cuts, zeros>>
\* once all input has been offered only the mode matters: stop the plan there (the driver continues by itself)
Emit == (phase = "feed" /\ Len(plan) > 0 /\ (done \/ fed = inp.have)) =>
            /\ PrintT(<<"PLAN", ToJson([mode |-> omode, calls |-> plan])>>)
            /\ FALSE
PlanHolds == SliceIndependent
=============================================================================
