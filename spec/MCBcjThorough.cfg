SPECIFICATION MCSpec
CONSTANTS
 InSizes = {0, 1, 2, 3, 5, 8, 1000}
 OutSizes = {0, 1, 2, 4, 7, 9, 1000}
 SampleSeeds = {1, 2, 3, 4, 5, 6, 7, 8}
 MCArchs = {"x86", "powerpc", "ia64", "arm", "armthumb", "sparc", "arm64", "riscv"}
INVARIANTS PrefixOfOneShot EndIffComplete NeverAheadOfInput HeldBackIsBounded FinishFlushes ExactInverse
CHECK_DEADLOCK FALSE
