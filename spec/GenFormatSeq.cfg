SPECIFICATION SSpec
CONSTANTS
 EopmLocalPerCall = FALSE  PickyAcceptsZero = FALSE  AutoFinishAll = FALSE
 MemDictLimbHi = 752
 ChunkSizes = {0}  Profile = "quick"  Sweep = "core"
 ReinitStale = FALSE  SeqLevel = "all"
CONSTRAINT EmitSeq
CHECK_DEADLOCK FALSE
