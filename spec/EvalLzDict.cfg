SPECIFICATION Spec
CONSTANTS DictSize = 4096 MinDict = 4096 Align = 16 RepMax = 288
 DeclSizes = {1, 100, 4095, 4096, 4097, 4111, 4112, 4113, 5000, 6144}
