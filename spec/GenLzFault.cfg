SPECIFICATION Spec
CONSTANTS Variant = "ok"
ACTION_CONSTRAINT Emit
CHECK_DEADLOCK FALSE
