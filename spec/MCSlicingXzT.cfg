SPECIFICATION SliceSpec
CONSTANTS MaxIn = 0 MaxOut = 0 MaxFeed = 4 MaxGrant = 3
 Family = "xz" Rederive = TRUE
 Inputs <- MCInputs
INVARIANTS STypeOK SliceIndependent TotalsAgree NoInternal Decodable
VIEW MCView
CHECK_DEADLOCK FALSE
