-------------------------------- MODULE Bound --------------------------------
(* C02, bound functions.  Transcription of                                     *)
(*   lzma2_bound(), lzma_block_buffer_bound64()   block_buffer_encoder.c       *)
(*   lzma_stream_buffer_bound()                   stream_buffer_encoder.c      *)
(* and of the control flow of block_buffer_encode() / lzma_stream_buffer_encode*)
(* (space reservations, the attempt with the real filter chain limited to the  *)
(* size of the uncompressed form, the fallback to LZMA2 uncompressed chunks),  *)
(* with the compressor abstracted to "produces c bytes and finishes" or "fills *)
(* what it was given".  Sizes of the pieces come from the format document      *)
(* (VLI length, Block Header layout, Index layout), not from the code.         *)
(*                                                                             *)
(* Contract (checked by MCBound for size classes around every boundary):       *)
(*   out_size >= bound(n)  =>  the encoder does not return LZMA_BUF_ERROR and  *)
(*   writes at most out_size bytes;                                            *)
(*   bound(n) >= the size of the worst case "all chunks uncompressed + Block   *)
(*   Header + Block Padding + Check (+ Index + Stream Header/Footer)".         *)
(* Sizes stay below 2^31 (TLC integers); COMPRESSED_SIZE_MAX overflow guards   *)
(* of the C code are out of the model's range.                                 *)
EXTENDS Integers

LZMA2_CHUNK_MAX == 65536
LZMA2_HEADER_UNCOMPRESSED == 3
LZMA_VLI_BYTES_MAX == 9
LZMA_CHECK_SIZE_MAX == 64
LZMA_STREAM_HEADER_SIZE == 12

And3(x) == (x \div 4) * 4                \* x & ~3
Up4(x) == And3(x + 3)
Pad4(x) == Up4(x) - x
MinOf(a, b) == IF a < b THEN a ELSE b

\* ---- the C macros and functions
BLOCK_HEADERS_BOUND == And3(1 + 1 + 2 * LZMA_VLI_BYTES_MAX + 3 + 4 + LZMA_CHECK_SIZE_MAX + 3)
INDEX_BOUND == And3(1 + 1 + 2 * LZMA_VLI_BYTES_MAX + 4 + 3)
STREAM_HEADERS_BOUND == 2 * LZMA_STREAM_HEADER_SIZE + INDEX_BOUND

Lzma2Bound(n) == n + ((n + LZMA2_CHUNK_MAX - 1) \div LZMA2_CHUNK_MAX) * LZMA2_HEADER_UNCOMPRESSED + 1
BlockBufferBound(n) == BLOCK_HEADERS_BOUND + Up4(Lzma2Bound(n))
StreamBufferBound(n) == BlockBufferBound(n) + STREAM_HEADERS_BOUND

\* ---- the format (xz-file-format.txt)
VliSize(v) == IF v < 128 THEN 1 ELSE IF v < 16384 THEN 2 ELSE IF v < 2097152 THEN 3 ELSE IF v < 268435456 THEN 4 ELSE 5
CheckSize(id) == CASE id = 0 -> 0 [] id = 1 -> 4 [] id = 4 -> 8 [] id = 10 -> 32
\* Block Header: size byte, flags, Compressed Size, Uncompressed Size, filter flags (fsz bytes), padding, CRC32
BlockHeaderSize(csize, usize, fsz) == Up4(1 + 1 + VliSize(csize) + VliSize(usize) + fsz + 4)
LZMA2_FLAGS == 3                          \* Filter ID 0x21, size of properties 1, properties
\* LZMA2 stream made only of uncompressed chunks
AllUncompressed(n) == n + ((n + 65535) \div 65536) * 3 + 1
\* Index with r Records
IndexSize(r, unpadded, usize) == Up4(1 + VliSize(r) + (IF r = 1 THEN VliSize(unpadded) + VliSize(usize) ELSE 0)) + 4

WorstBlock(n, chk) == LET c == AllUncompressed(n) IN BlockHeaderSize(c, n, LZMA2_FLAGS) + c + Pad4(c) + CheckSize(chk)
WorstStream(n, chk) ==
    IF n = 0 THEN 12 + IndexSize(0, 0, 0) + 12
    ELSE LET c == AllUncompressed(n)
             unp == BlockHeaderSize(c, n, LZMA2_FLAGS) + c + CheckSize(chk)
         IN 12 + WorstBlock(n, chk) + IndexSize(1, unp, n) + 12

\* ---- block_buffer_encode(): comp = -1: the compressor fills whatever space it gets (incompressible / too small),
\*      comp = c >= 1: it would finish after c bytes
BlockBufferEncode(n, outSize0, chk, fsz, comp) ==
    LET o1 == outSize0 - (outSize0 % 4)                       \* out_size -= (out_size - *out_pos) & 3
        cs == CheckSize(chk)
    IN IF o1 <= cs THEN [ret |-> "BUF_ERROR", total |-> 0, unpadded |-> 0, path |-> "check"]
       ELSE
       LET o2 == o1 - cs
           cbound == Lzma2Bound(n)                            \* block->compressed_size = lzma2_bound(in_size)
           hs == BlockHeaderSize(cbound, n, fsz)              \* lzma_block_header_size() with both sizes set
           limit == MinOf(o2 - hs, cbound)                    \* "stop if the output would grow bigger than uncompressed"
           normalOK == o2 > hs /\ comp >= 1 /\ comp <= limit
           hs2 == BlockHeaderSize(cbound, n, LZMA2_FLAGS)     \* block_encode_uncompressed(): LZMA2 only
       IN IF normalOK
          THEN [ret |-> "OK", total |-> hs + comp + Pad4(comp) + cs, unpadded |-> hs + comp + cs, path |-> "normal"]
          ELSE IF o2 < hs2 + cbound
               THEN [ret |-> "BUF_ERROR", total |-> 0, unpadded |-> 0, path |-> "fallback"]
               ELSE [ret |-> "OK", total |-> hs2 + cbound + Pad4(cbound) + cs, unpadded |-> hs2 + cbound + cs,
                     path |-> "fallback"]

\* ---- lzma_stream_buffer_encode()
StreamBufferEncode(n, outSize0, chk, fsz, comp) ==
    IF outSize0 <= 2 * LZMA_STREAM_HEADER_SIZE THEN [ret |-> "BUF_ERROR", total |-> 0, unpadded |-> 0, path |-> "headers"]
    ELSE
    LET o1 == outSize0 - LZMA_STREAM_HEADER_SIZE              \* footer reserved
        b == IF n > 0 THEN BlockBufferEncode(n, o1 - LZMA_STREAM_HEADER_SIZE, chk, fsz, comp)
             ELSE [ret |-> "OK", total |-> 0, unpadded |-> 0, path |-> "empty"]
    IN IF b.ret # "OK" THEN b
       ELSE LET pos == LZMA_STREAM_HEADER_SIZE + b.total
                isz == IF n > 0 THEN IndexSize(1, b.unpadded, n) ELSE IndexSize(0, 0, 0)
            IN IF o1 - pos < isz THEN [ret |-> "BUF_ERROR", total |-> 0, unpadded |-> 0, path |-> "index"]
               ELSE [ret |-> "OK", total |-> pos + isz + LZMA_STREAM_HEADER_SIZE, unpadded |-> b.unpadded, path |-> b.path]
=============================================================================
