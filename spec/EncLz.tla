------------------------------- MODULE EncLz --------------------------------
(* LZ77/LZMA symbol semantics used as the judge of encoder output (C01/C02).  *)
(*                                                                            *)
(* Written from the format side (LZMA SDK specification, xz-file-format.txt,  *)
(* lzma-file-format.txt): what a sequence of LZMA symbols MEANS.  Nothing     *)
(* here knows about probabilities or the range coder (that part lives in the  *)
(* independent tokeniser harness/glue); the module defines                    *)
(*   - the dictionary as the sequence of bytes produced so far,               *)
(*   - validity of a distance:  dist0 < min(bytes in dictionary, dict_size),  *)
(*   - the reps[4] update rules and the 12-state LZMA state machine,          *)
(*   - lengths LenMin..LenMax (2..273), the end marker,                       *)
(* and, separately, the circular-window formulation used by the real decoder  *)
(* (lz_decoder.h: buf/pos/full/has_wrapped, LZ_DICT_REPEAT_MAX overlap).      *)
(* MCEncLz checks at scaled-down constants that expansion is well defined and *)
(* that the window formulation returns the same bytes as the infinite-history *)
(* definition.                                                                *)
(*                                                                            *)
(* State (all "since the beginning of the LZ stream"):                        *)
(*   out     preset dictionary ++ every byte produced                         *)
(*   base    length of the preset dictionary part of out                      *)
(*   dstart  index in out after which the current dictionary starts (moves    *)
(*           forward at an LZMA2 dictionary reset)                            *)
(*   reps    <<rep0,rep1,rep2,rep3>> as coded distances (distance - 1)        *)
(*   lzst    LZMA state 0..11                                                 *)
(*   dictSize                                                                 *)
(*   ended   end marker seen                                                  *)
EXTENDS Integers, Sequences, FiniteSets

CONSTANTS LenMin, LenMax,     \* 2, 273 (scaled down for model checking)
          RepeatMax           \* LZ_DICT_REPEAT_MAX = 288 (>= LenMax)

VARIABLES out, base, dstart, reps, lzst, dictSize, ended
lzvars == <<out, base, dstart, reps, lzst, dictSize, ended>>

Min(a, b) == IF a < b THEN a ELSE b
Max(a, b) == IF a > b THEN a ELSE b

----------------------------------------------------------------------------
(* LZMA state machine (lzma_common.h: update_literal/match/long_rep/short_rep) *)
States == 0..11
LitStates == 0..6                      \* previous symbol was a literal
AfterLit(s)      == IF s <= 3 THEN 0 ELSE IF s <= 9 THEN s - 3 ELSE s - 6
AfterMatch(s)    == IF s < 7 THEN 7 ELSE 10
AfterRep(s)      == IF s < 7 THEN 8 ELSE 11
AfterShortRep(s) == IF s < 7 THEN 9 ELSE 11
\* k literals in a row (k >= 1): the state reaches 0 after at most three
AfterLits(s, k)  == IF k = 1 THEN AfterLit(s)
                    ELSE IF k = 2 THEN AfterLit(AfterLit(s))
                    ELSE IF k >= 3 THEN AfterLit(AfterLit(AfterLit(s)))
                    ELSE s

\* rep rotation for a repeated match using reps[i+1] (i = 0..3)
RepRotate(r, i) ==
    CASE i = 0 -> r
      [] i = 1 -> <<r[2], r[1], r[3], r[4]>>
      [] i = 2 -> <<r[3], r[1], r[2], r[4]>>
      [] i = 3 -> <<r[4], r[1], r[2], r[3]>>

----------------------------------------------------------------------------
(* Dictionary = bytes produced so far                                        *)
Avail == Len(out) - dstart                    \* bytes in the dictionary (incl. preset dictionary)
Produced == Len(out) - base                   \* bytes of real output
DistValid(d0) == d0 < Min(Avail, dictSize)    \* d0 = distance - 1

\* the n bytes a copy from distance d0+1 appends (overlap allowed: byte k repeats with period d0+1)
CopyBytes(d0, n) ==
    LET L == Len(out)  d == d0 + 1 IN
    [k \in 1..n |-> out[L - d + 1 + ((k - 1) % d)]]

LzInit(ds, preset) ==
    \* a preset dictionary longer than the dictionary is cut to its last ds bytes
    /\ out = (IF Len(preset) > ds THEN SubSeq(preset, Len(preset) - ds + 1, Len(preset)) ELSE preset)
    /\ base = Len(out)
    /\ dstart = 0
    /\ reps = <<0, 0, 0, 0>>
    /\ lzst = 0
    /\ dictSize = ds
    /\ ended = FALSE

\* ---- the five symbols
Lit(b) ==
    /\ ~ended
    /\ out' = Append(out, b)
    /\ lzst' = AfterLit(lzst)
    /\ UNCHANGED <<base, dstart, reps, dictSize, ended>>

Lits(bs) ==                       \* a run of literals (Len(bs) >= 1)
    /\ ~ended /\ Len(bs) >= 1
    /\ out' = out \o bs
    /\ lzst' = AfterLits(lzst, Len(bs))
    /\ UNCHANGED <<base, dstart, reps, dictSize, ended>>

Match(d0, n) ==
    /\ ~ended
    /\ n \in LenMin..LenMax
    /\ DistValid(d0)
    /\ out' = out \o CopyBytes(d0, n)
    /\ reps' = <<d0, reps[1], reps[2], reps[3]>>
    /\ lzst' = AfterMatch(lzst)
    /\ UNCHANGED <<base, dstart, dictSize, ended>>

Rep(i, n) ==                      \* i \in 0..3
    /\ ~ended
    /\ i \in 0..3
    /\ n \in LenMin..LenMax
    /\ DistValid(reps[i + 1])
    /\ out' = out \o CopyBytes(reps[i + 1], n)
    /\ reps' = RepRotate(reps, i)
    /\ lzst' = AfterRep(lzst)
    /\ UNCHANGED <<base, dstart, dictSize, ended>>

ShortRep ==
    /\ ~ended
    /\ DistValid(reps[1])
    /\ out' = Append(out, out[Len(out) - reps[1]])
    /\ lzst' = AfterShortRep(lzst)
    /\ UNCHANGED <<base, dstart, reps, dictSize, ended>>

\* end of payload marker: a "match" with the all-ones distance; produces nothing, ends the stream
Eopm ==
    /\ ~ended
    /\ ended' = TRUE
    /\ UNCHANGED <<out, base, dstart, reps, lzst, dictSize>>

\* ---- operations of the LZMA2 container on the LZ state
StateReset ==  \* reps and state back to the initial values (probabilities too, not modelled)
    /\ reps' = <<0, 0, 0, 0>> /\ lzst' = 0
DictReset  == dstart' = Len(out)
AddUncompressed(bs) == out' = out \o bs          \* bytes of an uncompressed chunk enter the dictionary

LzTypeOK ==
    /\ lzst \in States
    /\ \A i \in 1..4 : reps[i] \in Nat
    /\ base <= Len(out) /\ dstart <= Len(out)
    /\ ended \in BOOLEAN

(* Design properties of the symbol alphabet (checked by MCEncLz):                     *)
(* a state that says "previous symbol was a match/rep" implies rep0 is a valid        *)
(* distance, so a literal coded relative to the byte at rep0 always has that byte.    *)
MatchedLiteralHasByte == (lzst >= 7) => DistValid(reps[1])

----------------------------------------------------------------------------
(* Circular window of the real decoder (lz_decoder.h / lz_decoder.c), as a record:    *)
(*   buf   function 0..size-1 -> byte      size = dict_size + 2*RepeatMax             *)
(*   pos   next write position              full  valid history                       *)
(*   wrapped                                                                          *)
(* WRepeat copies `left` bytes with ONE computation of the source index (`back`),     *)
(* exactly like dict_repeat(); the caller may split a match at any point (output      *)
(* buffer full) and must wrap when pos = size (decode_buffer()).                       *)
WSize(ds) == ds + 2 * RepeatMax
WInit(ds) == [buf |-> [i \in 0..(WSize(ds) - 1) |-> 0], pos |-> 2 * RepeatMax, full |-> 0,
              wrapped |-> FALSE, size |-> WSize(ds)]

\* dict_get(dict, distance)
WGet(w, d0) == w.buf[w.pos - d0 - 1 + (IF d0 < w.pos THEN 0 ELSE w.size - RepeatMax)]
WValid(w, d0) == w.full > d0                          \* dict_is_distance_valid()

WSetFull(w) == IF w.wrapped THEN w ELSE [w EXCEPT !.full = w.pos - 2 * RepeatMax]

\* dict_put(): one byte (caller guarantees pos < size)
WPut(w, b) == WSetFull([w EXCEPT !.buf[w.pos] = b, !.pos = w.pos + 1])

\* decode_buffer(): wrap when the write position reached the end
WWrap(w) ==
    IF w.pos = w.size
    THEN [w EXCEPT !.pos = RepeatMax, !.wrapped = TRUE,
                   !.buf = [i \in 0..(w.size - 1) |->
                               IF i < RepeatMax THEN w.buf[w.size - RepeatMax + i] ELSE w.buf[i]]]
    ELSE w

\* dict_repeat() for `left` bytes, left <= size - pos; sequential byte copy from `back`
RECURSIVE WCopy(_, _, _)
WCopy(w, back, left) ==
    IF left = 0 THEN w
    ELSE WCopy([w EXCEPT !.buf[w.pos] = w.buf[back], !.pos = w.pos + 1], back + 1, left - 1)
WRepeat(w, d0, left) ==
    LET back == w.pos - d0 - 1 + (IF d0 >= w.pos THEN w.size - RepeatMax ELSE 0)
    IN WSetFull(WCopy(w, back, left))

\* the bytes a window holds at distances 0..k-1 (most recent first)
WLast(w, k) == [i \in 1..k |-> WGet(w, i - 1)]
=============================================================================
