------------------------- MODULE TraceXzStreamEnc -------------------------
(* (V) of C12: executions recorded by harness/pydrv/c12drv.py on the real    *)
(* encoders must be behaviours of XzStreamEnc, with                          *)
(*  - every lzma_code() call: action, avail_in, return code, bytes consumed, *)
(*    total_in / total_out, and whether the call filled its output buffer;   *)
(*  - every lzma_filters_update(): target chain and return code;             *)
(*  - the bytes written: the sequence of format elements that the glue       *)
(*    parser (independent of liblzma) finds in the output must be exactly    *)
(*    the tokens the model emits, in order (Reset carries the list);         *)
(*  - at every completed flush: the number of bytes that a fresh liblzma     *)
(*    decoder AND the glue decoder reproduce from the output so far must be   *)
(*    what the contract's decoder monitor says (= everything accepted);      *)
(*    at other moments (Probe) at least that.                                *)
(* The steps inside a call are not logged: TLC infers them (silent steps).   *)
(* A log is a concatenation of executions, each starting with Reset.         *)
EXTENDS XzStreamEncContract, TLC, Json, IOUtils

TraceLog == ndJsonDeserialize(IOEnv.TRACE)

VARIABLES l,        \* next log line
          ti,       \* next expected token
          expect    \* tokens found in the real output
tvars == <<allvars, mvars, l, ti, expect>>

Ev(i) == TraceLog[i]
IsE(e) == l <= Len(TraceLog) /\ TraceLog[l].e = e

TInit == /\ InitWith(InitCfg("stream", Chain("none", "lzma2", "p0"), "crc", "some", 0))
         /\ MInit
         /\ l = 1 /\ ti = 1 /\ expect = <<>>
         /\ TLCSet(1, 0)

\* does model token t describe the real element x?
Match(t, x) ==
    /\ t.kind = x.kind
    /\ CASE t.kind = "block_header" -> t.chain.pre = x.pre
         [] t.kind = "lzma" -> t.reset = x.reset /\ t.hprops = x.hprops
         [] t.kind = "unc" -> t.dictReset = x.dictReset
         [] t.kind = "mt_block" -> t.n = x.n /\ t.chain.pre = x.pre
         [] t.kind = "index" -> /\ Len(t.records) = Len(x.records)
                                /\ \A i \in 1..Len(x.records) : t.records[i].n = x.records[i]
         [] OTHER -> TRUE

Tokens == IF tok'.kind = "none" THEN ti' = ti
          ELSE ti <= Len(expect) /\ Match(tok', expect[ti]) /\ ti' = ti + 1

TReset == /\ IsE("Reset") /\ ~call.active
          /\ LET t == Ev(l)
                 config == InitCfg(t.enc, t.chain, t.check, "some", t.bsize) IN
             /\ ResetTo(config) /\ MResetTo(config)
             /\ expect' = t.toks
          /\ ti' = 1 /\ l' = l + 1

\* a call that reaches the coder: the matching Ret line tells how much it will consume / produce
TCall == /\ IsE("Call") /\ l + 1 <= Len(TraceLog) /\ Ev(l + 1).e = "Ret"
         /\ LET t == Ev(l)  r == Ev(l + 1) IN
            \/ /\ IF r.uout >= 0
                  THEN BeginCall(t.a, t.ain, r.uin, TRUE, r.uout, IF t.aout = r.uout THEN "yes" ELSE "no", t.aout = 0)
                  \* command line runs: the output of a single call is not observable, its buffer is large
                  ELSE BeginCall(t.a, t.ain, r.uin, TRUE, 1, "no", FALSE)
               /\ l' = l + 1
            \/ /\ RejectedCall(t.a, t.ain)
               /\ obs'.ret = r.ret /\ r.uin = 0 /\ r.uout <= 0 /\ totalIn = r.tin /\ (r.uout = 0 => totalOut = r.tout)
               /\ l' = l + 2
         /\ MStep /\ Tokens /\ UNCHANGED expect

TRet == /\ IsE("Ret")
        /\ InnerStep /\ ~call'.active
        /\ LET r == Ev(l) IN
           /\ obs'.ret = r.ret /\ obs'.uin = r.uin /\ totalIn' = r.tin
           /\ (r.uout >= 0 => (obs'.uout = r.uout /\ totalOut' = r.tout))
        /\ MStep /\ Tokens /\ l' = l + 1 /\ UNCHANGED expect

TSilent == /\ InnerStep /\ call'.active
           /\ MStep /\ Tokens /\ UNCHANGED <<l, expect>>

\* fail: what the application's allocator did during the call; ntok: format elements that were complete in the
\* output at that moment (-1: not observed)
TUpdate == /\ IsE("Update")
           /\ Update(Ev(l).target, Ev(l).fail) /\ ev'.ret = Ev(l).ret
           /\ (Ev(l).ntok >= 0 => ti - 1 = Ev(l).ntok)
           /\ MStep /\ Tokens /\ l' = l + 1 /\ UNCHANGED expect

Stay == UNCHANGED <<allvars, mvars, ti, expect>> /\ l' = l + 1

TFlushCheck == /\ IsE("FlushCheck") /\ ~call.active
               /\ Ev(l).lib = d.decodable /\ Ev(l).glue = d.decodable /\ ~d.bad
               /\ d.decodable = totalIn
               /\ (Ev(l).fin => d.phase = "done")
               /\ Stay
TProbe == /\ IsE("Probe") /\ ~call.active
          /\ Ev(l).lib >= d.decodable /\ Ev(l).glue >= d.decodable /\ ~d.bad
          /\ Stay
TFinal == /\ IsE("Final") /\ ~call.active
          /\ ti = Len(expect) + 1 /\ Ev(l).given = totalIn
          /\ Stay

TNext == TReset \/ TCall \/ TRet \/ TSilent \/ TUpdate \/ TFlushCheck \/ TProbe \/ TFinal
TSpec == TInit /\ [][TNext]_tvars

TrackMax == TLCSet(1, IF TLCGet(1) < l THEN l ELSE TLCGet(1))
TraceAccepted == IF TLCGet(1) > Len(TraceLog) THEN TRUE
                 ELSE PrintT(<<"MAXL", TLCGet(1)>>) /\ FALSE
=============================================================================
