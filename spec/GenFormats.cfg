SPECIFICATION Spec
CONSTANTS
 EopmLocalPerCall = FALSE  PickyAcceptsZero = FALSE  AutoFinishAll = FALSE
 MemDictLimbHi = 752
 ChunkSizes = {0}  Profile = "quick"  Sweep = "all"
 Formats = {"alone", "lzip", "xz"}
CONSTRAINT Emit
CHECK_DEADLOCK FALSE
