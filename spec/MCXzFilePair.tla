---------------------------- MODULE MCXzFilePair ----------------------------
(* C17 (M): the transcription XzFilePair satisfies the data-safety contract for every single
   position of a failing call, a signal, a file swap and process death, in every mode.       *)
EXTENDS XzFilePair

CONSTANTS MaxFiles,        \* 1 or 2 files on the command line
          AllFlagCombos   \* FALSE: default, -k, -f, -c, --no-sync, --files;  TRUE: every combination

OneFlag(c) == Cardinality({x \in {"keep", "force", "stdout", "nosync", "files"} : c[x]}) <= 1
Wanted(c) == /\ AllFlagCombos \/ OneFlag(c)
             /\ c.nf <= MaxFiles
             /\ c.nf = 2 => ~c.pre[2]                      \* symmetric to pre[1]
             \* quick tier: two files only without flags or with --files, bad input as first of the two
             /\ (c.nf = 2 /\ ~AllFlagCombos) => (c.input[2] = "good" /\ ~c.keep /\ ~c.force /\ ~c.stdout /\ ~c.nosync)
MCCfgs == {c \in Cfgs({1, 2}, Kinds) : Wanted(c)}

MCInit == \E c \in MCCfgs : InitWith(c)
MCSpec == MCInit /\ [][Next]_vars

St3 == {"present", "absent", "foreign"}
Dt4 == {"absent", "partial", "complete", "foreign"}
TypeOK ==
  /\ pc \in {"main", "open_src", "fstat_src", "fadvise", "unblock_os", "close_src_err", "unblock_osfail",
             "first_read", "inited", "getfl_out", "setfl_out", "open_dir", "unlink_force", "open_dst",
             "close_dir_err", "fstat_dst", "lseek_out", "unblock_od", "unblock_odfail", "coding", "closing",
             "fchown", "fchmod", "utimens", "fsync_dst", "fsync_dir", "restore_out", "close_dir", "close_dst",
             "stat_dst", "unlink_dst", "close_src", "stat_src", "unlink_src", "unblock_done",
             "x_close2", "x_exit", "x_raise", "x_died"} \cup Terminal
  /\ cur \in 1..(cfg.nf + 1)
  /\ src \in [Files -> St3] /\ dst \in [Files -> Dt4]
  /\ exitStatus \in 0..2 /\ abortW \in 0..3 /\ nfault \in 0..MaxFaults /\ nsig \in 0..MaxSigs
  /\ exitSignal \in Sigs \cup {"none"} /\ sigPending \in Sigs \cup {"none"}

(* ---- the contract (property C17), stated on the options, not on the model's helper operators ---- *)
CKeep == cfg.keep \/ cfg.stdout      \* the source must stay
CSync == ~cfg.nosync                 \* the target must reach the disk before the source goes

\* The source is gone only if the complete target was written, synced (unless disabled) and closed
\* without error.  Holds in EVERY reachable state, hence also at the instant of a SIGKILL.
DataSafe ==
  \A i \in Files : src[i] = "absent" =>
     /\ ~CKeep
     /\ dst[i] = "complete" \/ envTouched[i]
     /\ dstClosedOk[i]
     /\ CSync => (dstSynced[i] /\ dirSynced[i])
     /\ ~ioFailed[i] /\ ~dstDamaged[i]
     /\ cfg.input[i] = "good"

\* A failed read/write/seek/sync/close never costs the source ...
FailureKeepsSource == \A i \in Files : ioFailed[i] => src[i] # "absent"
\* ... the junk target is removed (unless removing it is what failed) ...
FailureCleansUp ==
  Ended => \A i \in Files : (ioFailed[i] /\ ~cfg.stdout) => (dst[i] \in {"absent", "foreign"} \/ cleanupBroken[i])
\* ... no partial target survives the process, whatever the reason (signal, bad input, failure) ...
NoJunkLeft ==
  Ended => \A i \in Files : (dst[i] = "partial" /\ ~cfg.stdout) => cleanupBroken[i]
\* ... and the status tells: exit 0 means every file was converted completely.
ExitZeroMeansDone ==
  (pc = "exited" /\ exitStatus = 0) =>
     \A i \in Files : (dst[i] = "complete" \/ envTouched[i]) /\ (~CKeep => src[i] = "absent")
FailureIsReported ==
  (Ended /\ \E i \in Files : (ioFailed[i] \/ cfg.input[i] # "good")) => (pc = "dead" \/ exitStatus = 1)
KeepNeverRemoves == CKeep => \A i \in Files : src[i] # "absent"
\* xz never unlinks a file it did not open/create, and never touches an existing target without --force
NoForeignLost == ~lostForeign
NoOverwrite == \A i \in Files : (cfg.pre[i] /\ ~cfg.force /\ ~cfg.stdout) => dst[i] = "foreign"
\* the sparse-file bookkeeping is per file: nothing of an earlier (failed) file is pending when a target is created
PendingHoleFresh == (hole \notin {0, cur} => pc \in {"main", "x_close2", "x_exit", "x_raise", "x_died"} \cup Terminal)
                    /\ (pc \in {"open_src", "first_read", "inited", "open_dst", "fstat_dst", "unblock_od"} => hole = 0)
\* house-keeping between files
CleanBetweenFiles == pc = "main" => ~srcOpen /\ ~dstOpen /\ ~dirOpen /\ (sigBlocked <=> blip)
\* a signal that was seen before the work was finished ends the process by that signal
AbortDiesBySignal ==
  (pc = "exited" /\ userAbort) => \A i \in Files : (dst[i] = "complete" \/ envTouched[i] \/ exitStatus # 0)
=============================================================================
