SPECIFICATION StSpec
CONSTANTS MaxIn = 0 MaxOut = 0 MaxFeed = 2 MaxGrant = 2
 Family = "xz" Rederive = TRUE Stuck = FALSE
 Inputs <- StopInputs

INVARIANTS DocumentedOnly NoInternal StallBounded BufErrorResumable
PROPERTY StarveLive
CHECK_DEADLOCK FALSE
