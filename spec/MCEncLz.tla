------------------------------ MODULE MCEncLz -------------------------------
(* (M) for C01: at scaled-down constants, every sequence of LZ symbols that   *)
(* the validity guards admit expands deterministically (well defined, types   *)
(* preserved, lengths add up), and the circular-window formulation of the     *)
(* real decoder (dict_get/dict_put/dict_repeat/wrap with the RepeatMax        *)
(* overlap, matches split at arbitrary points by a full output buffer)        *)
(* returns exactly the bytes of the "infinite history" definition.            *)
EXTENDS EncLz, TLC

CONSTANTS Alphabet, DictSizes, MaxOut, Presets

VARIABLES w,        \* window record (EncLz!WInit..)
          nsym,     \* symbols so far
          total     \* sum of the lengths of the symbols
vars == <<lzvars, w, nsym, total>>
\* deliberately wrong reading of the window (plain ring buffer, forgetting the RepeatMax overlap):
\* used only by MCEncLzBroken.cfg to show that WindowEquiv is not vacuous
BrokenWGet(ww, d0) == ww.buf[(ww.pos + ww.size - d0 - 1) % ww.size]
MCPresets == {<<>>, <<1, 0>>, <<0, 1, 1, 0, 1, 1, 0>>}

\* feed a sequence of bytes into the window one by one, wrapping when needed
RECURSIVE WFeed(_, _, _)
WFeed(ww, bs, k) == IF k > Len(bs) THEN ww ELSE WFeed(WPut(WWrap(ww), bs[k]), bs, k + 1)

\* a copy of n bytes executed by the window in pieces: first piece k1 (bounded by the room before the
\* end of the buffer and by an arbitrary "output buffer full" split), wrap, remaining piece(s)
RECURSIVE WMatch(_, _, _, _)
WMatch(ww, d0, n, split) ==
    IF n = 0 THEN ww
    ELSE LET w1 == WWrap(ww)
             room == w1.size - w1.pos
             k == Min(Min(n, room), split)
         IN WMatch(WRepeat(w1, d0, k), d0, n - k, LenMax)

Init == /\ \E ds \in DictSizes : \E p \in Presets :
             /\ LzInit(ds, p)
             /\ w = WFeed(WInit(ds), (IF Len(p) > ds THEN SubSeq(p, Len(p) - ds + 1, Len(p)) ELSE p), 1)
        /\ nsym = 0 /\ total = 0

Room(n) == Produced + n <= MaxOut

DoLit == \E b \in Alphabet :
            /\ Room(1) /\ Lit(b)
            /\ w' = WPut(WWrap(w), b)
            /\ nsym' = nsym + 1 /\ total' = total + 1

DoMatch == \E d0 \in 0..(dictSize - 1) : \E n \in LenMin..LenMax : \E split \in 1..LenMax :
            /\ Room(n) /\ Match(d0, n)
            /\ WValid(w, d0)                         \* the real decoder's validity test agrees
            /\ w' = WMatch(w, d0, n, split)
            /\ nsym' = nsym + 1 /\ total' = total + n

DoRep == \E i \in 0..3 : \E n \in LenMin..LenMax : \E split \in 1..LenMax :
            /\ Room(n) /\ Rep(i, n)
            /\ WValid(w, reps[i + 1])
            /\ w' = WMatch(w, reps[i + 1], n, split)
            /\ nsym' = nsym + 1 /\ total' = total + n

DoShortRep ==
            /\ Room(1) /\ ShortRep
            /\ WValid(w, reps[1])
            /\ w' = WPut(WWrap(w), WGet(WWrap(w), reps[1]))
            /\ nsym' = nsym + 1 /\ total' = total + 1

DoEopm == /\ Eopm /\ UNCHANGED <<w, nsym, total>>

Next == DoLit \/ DoMatch \/ DoRep \/ DoShortRep \/ DoEopm
Spec == Init /\ [][Next]_vars

----------------------------------------------------------------------------
TypeOK == LzTypeOK /\ \A i \in 1..Len(out) : out[i] \in Alphabet
LengthsAddUp == Produced = total
\* validity test of the implementation == validity of the definition
ValidityAgrees == \A d0 \in 0..dictSize : WValid(w, d0) <=> DistValid(d0)
\* every valid distance reads the byte the definition says
WindowEquiv == \A d0 \in 0..(dictSize - 1) : DistValid(d0) => WGet(w, d0) = out[Len(out) - d0]
FullOK == w.full = Min(Avail, dictSize) /\ w.pos <= w.size /\ w.pos >= RepeatMax
=============================================================================
