SPECIFICATION TSpec
POSTCONDITION TraceAccepted
CHECK_DEADLOCK FALSE
