----------------------------- MODULE GenCliDecode ----------------------------
(* Replay direction of C18 (decoding): the cases of $C18_CASES (one JSON     *)
(* record per line: tool, src, opt, lib as computed in-process with the      *)
(* tool's decoder and flags) get their prediction from CliDecode.  Targets   *)
(* is the set of input classes x tools x sources that the driver has to      *)
(* construct and execute at least once (stream end on / off the 8 KiB        *)
(* boundary with / without trailing bytes for .lzma and raw; every position  *)
(* pattern of unverifiable checks in concatenated .xz).                      *)
EXTENDS CliDecode, TLC, Json, IOUtils
VARIABLE i
Cases == ndJsonDeserialize(IOEnv.C18_CASES)
Init == i = 0
Next == i < Len(Cases) /\ i' = i + 1
Spec == Init /\ [][Next]_i
Emit == PrintT(<<"PLAN", ToJson([id |-> Cases[i'].id, r |-> Run(Cases[i'].tool, Cases[i'].opt, Cases[i'].lib, Cases[i'].src)])>>)

Class(d, tr, ab, uf, ul) == [det |-> d, trailing |-> tr, atBoundary |-> ab, unsupFirst |-> uf, unsupLater |-> ul]
Targets ==
    {[tool |-> t, src |-> s, cls |-> Class(d, tr, ab, 0, 0)] :
        t \in {"xz_dc", "xz_d", "xz_t"}, s \in Srcs, d \in {"lzma", "raw"}, tr \in BOOLEAN, ab \in BOOLEAN}
    \cup {[tool |-> "lzmadec", src |-> s, cls |-> Class("lzma", tr, ab, 0, 0)] : s \in Srcs, tr \in BOOLEAN, ab \in BOOLEAN}
    \cup {[tool |-> t, src |-> s, cls |-> Class("xz", FALSE, ab, uf, ul)] :
        t \in {"xz_dc", "xz_d", "xz_t", "xzdec"}, s \in Srcs, ab \in BOOLEAN, uf \in 0..1, ul \in 0..2}
ASSUME PrintT(<<"TARGETS", ToJson(Targets)>>)
=============================================================================
