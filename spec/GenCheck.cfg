SPECIFICATION Spec
CONSTANTS
 AllLens <- Lens0to320
 EdgeLens <- Edges
 BigLens <- Big3
 ShaEvery = 2
 Reps = 1
ACTION_CONSTRAINT Emit
CHECK_DEADLOCK FALSE
