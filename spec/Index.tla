------------------------------- MODULE Index -------------------------------
(* List-of-records model of lzma_index (src/liblzma/common/index.c).         *)
(*                                                                           *)
(* An index is a non-empty sequence of Streams; a Stream is a sequence of    *)
(* Records [u |-> Unpadded Size, v |-> Uncompressed Size], optional Stream   *)
(* Flags and the Stream Padding that follows it.  All sizes are IndexBig     *)
(* numbers, i.e. the whole lzma_vli range and beyond is exact.               *)
(*                                                                           *)
(* Part 1 (declarative): every getter, the iteration order of the four       *)
(* iterator modes, locate, and the validity ("within format limits") of an   *)
(* index are *derived* from the list.  These definitions are the contract    *)
(* and the source of every prediction replayed into the real code.           *)
(* Part 2 (operational): what the functions of index.c do, transcribed at    *)
(* list level in the order of the code (argument checks, limit checks, the   *)
(* accumulated `checks' mask, the iterator step with its "again" loop, the   *)
(* two-level search of locate).  IndexContract.tla states Part 2 => Part 1.  *)
(*                                                                           *)
(* Three constants select the behaviour of the pinned tree where it differs  *)
(* from the contract (FALSE = conforming):                                   *)
(*   BugDupChecks   lzma_index_dup() does not copy lzma_index.checks         *)
(*   BugIterEmpty   an iterator that points to a Stream without Blocks       *)
(*                  re-resolves the group as "leftmost" after an append and  *)
(*                  takes Record 0 as already visited                        *)
(*   BugAppendTotal lzma_index_append() checks the uncompressed size of the  *)
(*                  last Stream only, not of the whole index                 *)
EXTENDS Integers, Sequences, FiniteSets, SequencesExt, IndexBig

CONSTANTS BugDupChecks, BugIterEmpty, BugAppendTotal

HS == 12                          \* LZMA_STREAM_HEADER_SIZE
UnpaddedMin == BigOf(5)           \* UNPADDED_SIZE_MIN

NoFlags == [set |-> FALSE, version |-> 0, check |-> 0, bsk |-> FALSE, bs |-> Zero]
Flags(check, bsk, bs) == [set |-> TRUE, version |-> 0, check |-> check, bsk |-> bsk, bs |-> bs]
Rec(u, v) == [u |-> u, v |-> v]
EmptyStream == [recs |-> <<>>, flags |-> NoFlags, pad |-> Zero]
\* acc: lzma_index.checks, the mask accumulated by lzma_index_cat() (operational state)
EmptyIndex == [streams |-> <<EmptyStream>>, acc |-> {}]
NoIndex == [streams |-> <<>>, acc |-> {}]          \* a free slot
Live(i) == Len(i.streams) > 0

----------------------------------------------------------------------------
(* Part 1: derived getters                                                   *)

SumBig(seq) == FoldLeft(LAMBDA a, x : Add(a, x), Zero, seq)
SumInt(seq) == FoldLeft(LAMBDA a, x : a + x, 0, seq)

Blocks(s) == FoldLeft(LAMBDA a, r : Add(a, Ceil4(r.u)), Zero, s.recs)      \* total size of the Blocks
USize(s)  == FoldLeft(LAMBDA a, r : Add(a, r.v), Zero, s.recs)
LSize(s)  == FoldLeft(LAMBDA a, r : a + VliSize(r.u) + VliSize(r.v), 0, s.recs)  \* List of Records, bytes

IndexSizeUnpadded(count, lsize) == 1 + VliSize(BigOf(count)) + lsize + 4
IndexSize(count, lsize) == 4 * ((IndexSizeUnpadded(count, lsize) + 3) \div 4)
IndexPadding(count, lsize) == IndexSize(count, lsize) - IndexSizeUnpadded(count, lsize)

StreamCSize(s) == AddS(Blocks(s), 2 * HS + IndexSize(Len(s.recs), LSize(s)))
StreamFSize(s) == Add(StreamCSize(s), s.pad)

StreamCount(i) == Len(i.streams)
BlockCount(i)  == SumInt([k \in 1..Len(i.streams) |-> Len(i.streams[k].recs)])
LSizeI(i)      == SumInt([k \in 1..Len(i.streams) |-> LSize(i.streams[k])])
TotalSize(i)   == SumBig([k \in 1..Len(i.streams) |-> Blocks(i.streams[k])])
USizeI(i)      == SumBig([k \in 1..Len(i.streams) |-> USize(i.streams[k])])
FileSize(i)    == SumBig([k \in 1..Len(i.streams) |-> StreamFSize(i.streams[k])])
SizeI(i)       == IndexSize(BlockCount(i), LSizeI(i))              \* lzma_index_size()
StreamSizeI(i) == AddS(TotalSize(i), 2 * HS + SizeI(i))            \* lzma_index_stream_size()
ChecksI(i)     == {i.streams[k].flags.check : k \in {j \in 1..Len(i.streams) : i.streams[j].flags.set}}
RECURSIVE Pow2(_)
Pow2(n) == IF n = 0 THEN 1 ELSE 2 * Pow2(n - 1)
Mask(S) == SumInt([c \in 1..16 |-> IF (c - 1) \in S THEN Pow2(c - 1) ELSE 0])
AllRecs(i) == FoldLeft(LAMBDA a, s : a \o s.recs, <<>>, i.streams)

\* lzma_index_memusage(streams, blocks) with the LP64 sizes of the structures:
\* sizeof(lzma_index) 80, index_stream 168, index_group 64, index_record 16, 4 pointers of malloc overhead
MemUsage(streams, blocks) == (80 + 32) + streams * (168 + 64 + 2 * 32) + ((blocks + 511) \div 512) * (64 + 512 * 16 + 32)

\* Offsets of Stream k
Prefix(i, k) == [streams |-> SubSeq(i.streams, 1, k - 1), acc |-> {}]
COff(i, k) == FileSize(Prefix(i, k))
UOff(i, k) == USizeI(Prefix(i, k))

(* the public fields of lzma_index_iter for every Stream and every Block, in file order *)
StreamBlocks(s, number, coff, uoff, nbase) ==
    FoldLeft(LAMBDA a, r :
               [out |-> Append(a.out, [s |-> number, nfile |-> nbase + a.k + 1, nstream |-> a.k + 1,
                                       csoff |-> a.c, usoff |-> a.u,
                                       cfoff |-> Add(coff, a.c), ufoff |-> Add(uoff, a.u),
                                       usize |-> r.v, unpadded |-> r.u, total |-> Ceil4(r.u)]),
                c |-> Add(a.c, Ceil4(r.u)), u |-> Add(a.u, r.v), k |-> a.k + 1],
             [out |-> <<>>, c |-> BigOf(HS), u |-> Zero, k |-> 0], s.recs).out

Layout(i) ==
    FoldLeft(LAMBDA a, s :
               [st |-> Append(a.st, [number |-> a.n + 1, blocks |-> Len(s.recs), coff |-> a.c, uoff |-> a.u,
                                     csize |-> StreamCSize(s), usize |-> USize(s), pad |-> s.pad, flags |-> s.flags,
                                     first |-> IF Len(s.recs) = 0 THEN 0 ELSE a.nb + 1]),
                bl |-> a.bl \o StreamBlocks(s, a.n + 1, a.c, a.u, a.nb),
                c |-> Add(a.c, StreamFSize(s)), u |-> Add(a.u, USize(s)), nb |-> a.nb + Len(s.recs), n |-> a.n + 1],
             [st |-> <<>>, bl |-> <<>>, c |-> Zero, u |-> Zero, nb |-> 0, n |-> 0], i.streams)

(* Iteration.  A position is <<stream number, block number in the stream>>; block 0 = "the Stream has   *)
(* no Blocks" (lzma_index_iter.block undefined); <<0, 0>> = rewound.                                   *)
ANY == 0  STREAM == 1  BLOCK == 2  NONEMPTY == 3
Modes == {ANY, STREAM, BLOCK, NONEMPTY}
NRecs(i, s) == Len(i.streams[s].recs)
StreamItems(i, s, mode) ==
    LET n == NRecs(i, s) IN
    CASE mode = STREAM   -> <<(<<s, IF n = 0 THEN 0 ELSE 1>>)>>
      [] mode = ANY      -> IF n = 0 THEN <<(<<s, 0>>)>> ELSE [b \in 1..n |-> <<s, b>>]
      [] mode = BLOCK    -> [b \in 1..n |-> <<s, b>>]
      [] mode = NONEMPTY -> SelectSeq([b \in 1..n |-> <<s, b>>], LAMBDA p : i.streams[s].recs[p[2]].v # Zero)
\* what a complete iteration in `mode' must return, in order
Items(i, mode) == FoldLeft(LAMBDA a, s : a \o StreamItems(i, s, mode), <<>>, [s \in 1..Len(i.streams) |-> s])
After(mode, p, q) == IF mode = STREAM THEN q[1] > p[1] ELSE q[1] > p[1] \/ (q[1] = p[1] /\ q[2] > p[2])
\* the item lzma_index_iter_next(mode) must return for an iterator at p: the first item after p; <<0,0>> = none
NextItem(i, mode, p) ==
    LET rest == SelectSeq(Items(i, mode), LAMBDA q : After(mode, p, q))
    IN  IF rest = <<>> THEN <<0, 0>> ELSE rest[1]

\* lzma_index_iter_locate(): the non-empty Blocks that contain uncompressed offset t
ContainingIn(bl, t) ==      \* bl = Layout(i).bl
    {k \in 1..Len(bl) : bl[k].usize # Zero /\ Le(bl[k].ufoff, t) /\ Lt(t, Add(bl[k].ufoff, bl[k].usize))}
Containing(i, t) == ContainingIn(Layout(i).bl, t)

\* "within format limits": what every successful operation must preserve
ValidStream(s) == /\ \A k \in 1..Len(s.recs) : Le(UnpaddedMin, s.recs[k].u) /\ Le(s.recs[k].u, UnpaddedMax) /\ IsVli(s.recs[k].v)
                  /\ Le(Blocks(s), UnpaddedMax) /\ IsVli(USize(s))
                  /\ IsVli(s.pad) /\ Mod4(s.pad) = 0
Valid(i) == /\ Live(i)
            /\ \A k \in 1..Len(i.streams) : ValidStream(i.streams[k])
            /\ IsVli(FileSize(i)) /\ IsVli(USizeI(i))
            /\ Le(BigOf(SizeI(i)), BackwardMax)


(* What the harness observes on an index after every operation: all getters, the iterator fields of     *)
(* every Stream and Block, the complete iteration in the four modes (as <<stream, block number in file>>),*)
(* and locate at every Block boundary -1/0/+1.  For big indexes (volume plans) the Blocks are sampled   *)
(* around the Record-group size of index.c (512), the ends and the Stream boundaries, and the mode       *)
(* listings are replaced by their lengths.                                                               *)
RangeOf(seq) == {seq[k] : k \in 1..Len(seq)}
Small(i) == BlockCount(i) + Len(i.streams) <= 64
Sampled(i, L, b) == \/ Small(i) \/ b.nfile <= 3 \/ b.nfile >= Len(L.bl) - 2
                    \/ (b.nfile % 512) \in {0, 1, 2, 510, 511}
                    \/ b.nstream = 1 \/ b.nstream = L.st[b.s].blocks
LocTargetsOf(i, bs) ==
    LET tot == USizeI(i)
        around(x) == {x, AddS(x, 1)} \cup (IF x = Zero THEN {} ELSE {Sub(x, BigOf(1))})
    IN  around(Zero) \cup around(tot) \cup UNION {around(b.ufoff) : b \in bs}
LocateIn(bl, t) == LET S == ContainingIn(bl, t) IN IF S = {} THEN 0 ELSE CHOOSE k \in S : TRUE
LocateDecl(i, t) == LocateIn(Layout(i).bl, t)
\* lzma_index_checks() of a copy of i after lzma_index_stream_flags() has set the Check of its last Stream to c:
\* the check types of the earlier Streams plus c.  (Makes the accumulated mask observable, so that a call that
\* must not have changed the index - a failed cat, say - cannot have changed it invisibly.)
ChecksAfterFlags(i, c) == Mask(ChecksI([i EXCEPT !.streams[Len(i.streams)].flags = [NoFlags EXCEPT !.set = TRUE, !.check = c]]))
ProbeChecks == <<0, 1, 4, 10>>
Observe(i) ==
    LET L == Layout(i)
        bls == SelectSeq(L.bl, LAMBDA b : Sampled(i, L, b))
        num(q) == IF q[2] = 0 THEN 0 ELSE L.st[q[1]].first + q[2] - 1
        its == [m \in 1..4 |-> Items(i, m - 1)]
        listing(mode) == IF Small(i) THEN [k \in 1..Len(its[mode + 1]) |-> <<its[mode + 1][k][1], num(its[mode + 1][k])>>] ELSE <<>>
    IN  [streams |-> Len(i.streams), blocks |-> BlockCount(i), size |-> SizeI(i), total |-> TotalSize(i),
         ssize |-> StreamSizeI(i), fsize |-> FileSize(i), usize |-> USizeI(i), checks |-> Mask(ChecksI(i)),
         mem |-> MemUsage(Len(i.streams), BlockCount(i)),
         probe |-> [n \in 1..Len(ProbeChecks) |-> <<ProbeChecks[n], ChecksAfterFlags(i, ProbeChecks[n])>>],
         st |-> L.st, bl |-> bls, small |-> Small(i),
         counts |-> [m \in 1..4 |-> Len(its[m])],
         any |-> listing(ANY), stream |-> listing(STREAM), block |-> listing(BLOCK), nonempty |-> listing(NONEMPTY),
         loc |-> SetToSeq({<<t, LocateIn(L.bl, t)>> : t \in LocTargetsOf(i, RangeOf(bls))})]

\* the getters only (families whose indexes are too big for the complete observation at every plan)
ObserveLite(i) ==
    [lite |-> TRUE, streams |-> Len(i.streams), blocks |-> BlockCount(i), size |-> SizeI(i), total |-> TotalSize(i),
     ssize |-> StreamSizeI(i), fsize |-> FileSize(i), usize |-> USizeI(i), checks |-> Mask(ChecksI(i)),
     mem |-> MemUsage(Len(i.streams), BlockCount(i))]

----------------------------------------------------------------------------
(* Part 2: the operations as index.c performs them (list level)              *)

Res(ret, why, i) == [ret |-> ret, why |-> why, idx |-> i]
LastStream(i) == i.streams[Len(i.streams)]
WithLast(i, s) == [i EXCEPT !.streams[Len(i.streams)] = s]

\* index_file_size(): LZMA_VLI_UNKNOWN when either partial sum exceeds LZMA_VLI_MAX
FileSizeKnown(cbase, unpaddedSum, count, lsize, pad) ==
    LET fs1 == Add(AddS(cbase, 2 * HS), Add(pad, Ceil4(unpaddedSum)))
        fs2 == AddS(fs1, IndexSize(count, lsize))
    IN  IsVli(fs1) /\ IsVli(fs2)

\* lzma_index_append()
DoAppend(i, u, v) ==
    LET n == Len(i.streams)
        s == i.streams[n]
        cbase == Blocks(s)                  \* vli_ceil4(records[last].unpadded_sum)
        ubase == USize(s)                   \* records[last].uncompressed_sum
        add == VliSize(u) + VliSize(v)
    IN  IF Lt(u, UnpaddedMin) \/ Lt(UnpaddedMax, u) \/ Lt(VliMax, v) THEN Res("PROG_ERROR", "args", i)
        ELSE IF Lt(VliMax, Add(ubase, v)) THEN Res("DATA_ERROR", "usize_stream", i)
        ELSE IF ~BugAppendTotal /\ Lt(VliMax, Add(USizeI(i), v)) THEN Res("DATA_ERROR", "usize_total", i)
        ELSE IF Lt(UnpaddedMax, Add(cbase, u)) THEN Res("DATA_ERROR", "unpadded_sum", i)
        ELSE IF ~FileSizeKnown(COff(i, n), Add(cbase, u), Len(s.recs) + 1, LSize(s) + add, s.pad)
             THEN Res("DATA_ERROR", "file_size", i)
        ELSE IF Lt(BackwardMax, BigOf(IndexSize(BlockCount(i) + 1, LSizeI(i) + add))) THEN Res("DATA_ERROR", "index_size", i)
        ELSE Res("OK", "ok", WithLast(i, [s EXCEPT !.recs = Append(@, Rec(u, v))]))

\* lzma_index_stream_flags(): lzma_stream_flags_compare(f, f) validates the argument
BackwardSizeValid(bs) == Le(BigOf(4), bs) /\ Le(bs, BackwardMax) /\ Mod4(bs) = 0
DoFlags(i, f) ==
    IF f.version # 0 THEN Res("OPTIONS_ERROR", "version", i)
    ELSE IF f.check > 15 THEN Res("PROG_ERROR", "check", i)
    ELSE IF f.bsk /\ ~BackwardSizeValid(f.bs) THEN Res("PROG_ERROR", "backward_size", i)
    ELSE Res("OK", "ok", WithLast(i, [LastStream(i) EXCEPT !.flags = [f EXCEPT !.set = TRUE]]))

\* lzma_index_stream_padding()
DoPadding(i, p) ==
    IF Lt(VliMax, p) \/ Mod4(p) # 0 THEN Res("PROG_ERROR", "args", i)
    ELSE LET i0 == WithLast(i, [LastStream(i) EXCEPT !.pad = Zero])
         IN  IF Lt(VliMax, Add(FileSize(i0), p)) THEN Res("DATA_ERROR", "file_size", i)
             ELSE Res("OK", "ok", WithLast(i, [LastStream(i) EXCEPT !.pad = p]))

\* lzma_index_checks(): accumulated mask plus the check of the last Stream
ChecksOp(i) == i.acc \cup (IF LastStream(i).flags.set THEN {LastStream(i).flags.check} ELSE {})

\* lzma_index_cat(dest, src)
DoCat(d, s) ==
    IF Lt(VliMax, Add(FileSize(d), FileSize(s))) THEN Res("DATA_ERROR", "file_size", d)
    ELSE IF Lt(VliMax, Add(USizeI(d), USizeI(s))) THEN Res("DATA_ERROR", "usize_total", d)
    ELSE IF Lt(BackwardMax, BigOf(4 * ((IndexSizeUnpadded(BlockCount(d), LSizeI(d))
                                        + IndexSizeUnpadded(BlockCount(s), LSizeI(s)) + 3) \div 4)))
         THEN Res("DATA_ERROR", "index_size", d)
    ELSE Res("OK", "ok", [streams |-> d.streams \o s.streams, acc |-> ChecksOp(d) \cup s.acc])

\* lzma_index_dup()
DoDup(s) == Res("OK", "ok", [streams |-> s.streams, acc |-> IF BugDupChecks THEN {} ELSE s.acc])

\* lzma_index_buffer_encode() followed by lzma_index_buffer_decode(): all Records in one Stream,
\* rebuilt with lzma_index_append(); no Stream Flags, no Stream Padding
DoEncDecFold(s) == FoldLeft(LAMBDA a, r : IF a.ret # "OK" THEN a ELSE DoAppend(a.idx, r.u, r.v),
                            Res("OK", "ok", EmptyIndex), AllRecs(s))
\* the same without the quadratic cost when everything fits (appends only grow the sizes, so the decoder
\* succeeds iff the final single-Stream index is valid; IndexContract!InvOps checks the equality)
DoEncDec(s) == LET merged == [streams |-> <<[EmptyStream EXCEPT !.recs = AllRecs(s)]>>, acc |-> {}]
               IN  IF Valid(merged) THEN Res("OK", "ok", merged) ELSE DoEncDecFold(s)
\* the encoded Index field without its CRC32
EncodedBody(i) ==
    LET recs == AllRecs(i)
        list == FoldLeft(LAMBDA a, r : a \o VliBytes(r.u) \o VliBytes(r.v), <<>>, recs)
    IN  <<0>> \o VliBytes(BigOf(Len(recs))) \o list \o [k \in 1..IndexPadding(Len(recs), LSizeI(i)) |-> 0]

\* lzma_index_iter_next(): p = <<s, b>> as in Part 1.  b = 0 stands for internal[ITER_GROUP] = NULL with
\* ITER_METHOD_LEFTMOST.
RECURSIVE IterStep(_, _, _)
IterStep(i, mode, p) ==
    LET s == p[1]
        NS == Len(i.streams)
        n == IF s = 0 THEN 0 ELSE NRecs(i, s)
        \* the Record the code takes as current (group resolved again from the method)
        cur == IF p[2] = 0 /\ BugIterEmpty /\ n > 0 THEN 1 ELSE p[2]
        skipEmpty == mode \in {BLOCK, NONEMPTY}
        \* next Stream after s (first Stream when s = 0), skipping Streams without Blocks in Block modes
        cands == {k \in (s + 1)..NS : ~skipEmpty \/ NRecs(i, k) > 0}
        ns == IF cands = {} THEN 0 ELSE CHOOSE k \in cands : \A j \in cands : k <= j
        q == IF s # 0 /\ mode # STREAM /\ cur < n THEN <<s, cur + 1>>
             ELSE IF ns = 0 THEN <<0, 0>>
             ELSE <<ns, IF NRecs(i, ns) = 0 THEN 0 ELSE 1>>
    IN  IF q = <<0, 0>> THEN q
        ELSE IF mode = NONEMPTY /\ i.streams[q[1]].recs[q[2]].v = Zero THEN IterStep(i, mode, q)      \* goto again
        ELSE q

\* lzma_index_iter_locate(): rightmost Stream whose base <= target, then the first Record whose
\* cumulative uncompressed sum exceeds the Stream-relative target.  Result: <<s, b>> or <<0, 0>>.
LocateOp(i, t) ==
    IF Le(USizeI(i), t) THEN <<0, 0>>
    ELSE LET S == {k \in 1..Len(i.streams) : Le(UOff(i, k), t)}
             s == CHOOSE k \in S : \A j \in S : j <= k
             t2 == Sub(t, UOff(i, s))
             recs == i.streams[s].recs
             usum(b) == USize([recs |-> SubSeq(recs, 1, b)])
             R == {b \in 1..Len(recs) : Lt(t2, usum(b))}
         IN  <<s, CHOOSE b \in R : \A c \in R : b <= c>>
=============================================================================
