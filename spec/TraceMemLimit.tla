---------------------------- MODULE TraceMemLimit ----------------------------
(* Trace validation for C09.  Events recorded by harness/pydrv/c09drv.py with *)
(* a size-recording lzma_allocator (sizes in bytes, UINT64_MAX logged as      *)
(* Unlimited):                                                                *)
(*  Init   kind, limit, usage, live, peak      a limited decoder was created  *)
(*  Code   ret, usage, limit, live, peak       one lzma_code(); usage/limit = *)
(*         lzma_memusage()/lzma_memlimit_get() after it, live/peak = bytes    *)
(*         held at return / maximum held during the call                      *)
(*  Set    new, ret, usage, limit              lzma_memlimit_set(new)         *)
(*  Final  stopped, same, live                 end of run: same = final       *)
(*         status and output equal those of the unlimited reference run       *)
(*  Estimate fn, est, peak                     *_memusage() vs measured peak  *)
(*  MtRun  T, S, lower, blocks, ret, peak, threaded, usage, errneed           *)
(*         one run of lzma_stream_decoder_mt over a file whose Blocks need    *)
(*         blocks[k] = <<filters, inbuf, outbuf, sizesKnown>>; lower = value  *)
(*         given to lzma_memlimit_set before decoding (0 = not called)        *)
(* The single-threaded events must be steps of MemLimit's StReach / StSet and *)
(* satisfy MemLimitContract; MtRun must agree with MtDecision / MtSet.        *)
EXTENDS MemLimitContract, TLC, Json, IOUtils

CONSTANTS Variant,     \* which variant of the protocol the library follows (see MemLimit)
          SlackMt,     \* allowance of the threaded decoder (thread table, coder structures)
          SlackIndex   \* allowance of the Index / file info decoders: their usage is lzma_index_memusage() of the
                       \* Indexes only (no LZMA_MEMUSAGE_BASE), the coder structures (8 KiB buffer of the file info
                       \* decoder, lzma_internal, Index decoder) come on top

TraceLog == ndJsonDeserialize(IOEnv.TRACE)

VARIABLES l, d, kind
tvars == <<l, d, kind>>

TInit == l = 1 /\ d = StInit(1) /\ kind = "none"
IsEvent(e) == l <= Len(TraceLog) /\ TraceLog[l].e = e /\ l' = l + 1

IndexKinds == {"index", "file_info"}
SlackOf(k) == IF k \in IndexKinds THEN SlackIndex ELSE Slack

TReset == IsEvent("Reset") /\ d' = StInit(1) /\ kind' = "none"

TNew == /\ IsEvent("Init")
        /\ LET t == TraceLog[l] IN
           /\ kind' = t.kind
           /\ t.kind \notin IndexKinds => t.usage = BASE
           /\ d' = [StInit(t.limit) EXCEPT !.usage = t.usage, !.held = t.live]
           /\ t.peak - SlackOf(t.kind) <= Max(t.limit, BASE)

TCode ==
    /\ IsEvent("Code") /\ UNCHANGED kind
    /\ LET t == TraceLog[l] u == t.usage IN
       /\ t.peak - SlackOf(kind) <= Max(d.limit, BASE)                \* contract (a), on the measured peak
       /\ t.limit = d.limit
       /\ CASE t.ret = "MEMLIMIT_ERROR" ->
                 LET r == StReach(d, u, 0, Variant) IN
                 /\ r[1] = "MEMLIMIT_ERROR"                           \* only when the need exceeds the limit
                 /\ d' = [r[2] EXCEPT !.held = t.live]                \* (what is held stays within the limit: below)
            [] u # d.usage \/ d.phase = "blocked" ->
                 LET r == StReach(d, u, t.live, Variant) IN
                 \/ r[1] = "OK" /\ d' = r[2]
                 \* an Index decoder reports the need as soon as the Record count is known, one step before testing it
                 \/ kind \in IndexKinds /\ t.ret = "OK" /\ t.live <= d.held /\ d' = [d EXCEPT !.usage = u]
            [] OTHER -> d' = [d EXCEPT !.held = t.live, !.phase = IF @ = "blocked" THEN @ ELSE "run"]
       /\ StLive(d') - SlackOf(kind) <= Max(d'.limit, BASE)

TSet == /\ IsEvent("Set") /\ UNCHANGED kind
        /\ LET t == TraceLog[l] r == StSet(d, t.new, Variant) IN
           /\ t.usage_before = d.usage
           /\ t.ret = r[1] /\ t.limit = r[2].limit /\ t.usage = r[2].usage
           /\ StSetSound(d, t.new, Variant)
           /\ d' = r[2]

TFinal == /\ IsEvent("Final") /\ UNCHANGED <<d, kind>>
          /\ LET t == TraceLog[l] IN
             /\ t.live = 0
             /\ t.stopped => d.phase = "blocked" /\ StRestartable(d, Variant)
             /\ t.same

TEstimate == /\ IsEvent("Estimate") /\ UNCHANGED <<d, kind>>
             /\ TraceLog[l].peak <= TraceLog[l].est               \* (c) the estimate is an upper bound

\* ---- threaded decoder, one whole run
TMtRun ==
    /\ IsEvent("MtRun") /\ UNCHANGED <<d, kind>>
    /\ LET t == TraceLog[l]
           m0 == MtInit(t.T, t.S)
           sr == IF t.lower = 0 THEN <<"OK", m0>> ELSE MtSet(m0, t.lower, Variant)
           m == sr[2]
           n == Len(t.blocks)
           dec(k) == MtDecision(m, t.blocks[k][1], t.blocks[k][2], t.blocks[k][3], t.blocks[k][4], Variant)
           refused == {k \in 1..n : dec(k) = "memlimit"}
           stop == IF refused = {} THEN n + 1 ELSE CHOOSE k \in refused : \A j \in refused : k <= j
           seen == 1..(stop - 1)
           bound(k) == IF dec(k) = "threaded" THEN m.T ELSE t.blocks[k][1]
       IN /\ t.lower # 0 => t.setret = sr[1]
          /\ (t.ret = "MEMLIMIT_ERROR") <=> (refused # {})
          /\ refused = {} => t.ret = "STREAM_END"
          /\ t.threaded <=> (\E k \in seen : dec(k) = "threaded")       \* direct mode exactly when the model says so
          /\ t.peak - SlackMt <= Max(BASE, IF seen = {} THEN 0 ELSE
                               (LET b == {bound(k) : k \in seen} IN CHOOSE x \in b : \A y \in b : y <= x))
          /\ refused # {} =>
                ((t.usage >= t.blocks[stop][1]) <=> ("mt_usage_excludes_need" \notin Variant))
          /\ t.same

TNext == TReset \/ TNew \/ TCode \/ TSet \/ TFinal \/ TEstimate \/ TMtRun
TSpec == TInit /\ [][TNext]_tvars
TraceAccepted == TLCGet("stats").diameter - 1 = Len(TraceLog)
=============================================================================
