SPECIFICATION Spec
CONSTANTS MaxChunks = 4 Variant = "no_need_dict"
INVARIANTS AcceptIffValid MeaningExact PrefixOnError FunctionalAgrees
CHECK_DEADLOCK FALSE
