SPECIFICATION Spec
CONSTANTS Variant = "no_member_size"
INVARIANTS LzNeverWrongSuccess LzFooterDamageDetected TruncatedNeverComplete NoFaultNoError
CHECK_DEADLOCK FALSE
