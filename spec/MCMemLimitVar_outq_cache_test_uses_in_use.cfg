SPECIFICATION SpecMt
CONSTANTS BASE = 2  Slack = 1  Unlimited = 99  Bug = {"outq_cache_test_uses_in_use"}
 Needs = {2}  Limits = {1, 3, 4, 5, 7, 9, 99}  MaxUnits = 3
 MtBlocks <- MCBlocks  MtThreads = 2
INVARIANTS InvMtThreadedWithinT InvMtWithinStop InvMtCounters InvMtNeedReported InvMtNoStuck
CHECK_DEADLOCK FALSE
