-------------------------------- MODULE MCLz --------------------------------
(* (M) for C03, LZ layer: the circular-buffer decoder of lz_decoder.[ch] is   *)
(* equivalent to the declarative "unbounded history" definition of the format *)
(* for EVERY symbol sequence within the constants, except for the one named   *)
(* relaxation (RelaxedDictAccept).  The dictionary is tiny (EffDict = 4..6,   *)
(* RepMax = 3) so that the buffer wraps several times within MaxOut bytes.    *)
EXTENDS Lz, TLC

CONSTANTS Bytes, MaxOut, MaxDist, Lens, Variant

VARIABLES h,      \* declarative history (unbounded)
          g,      \* operational ring
          r, s,   \* reps, state (shared: both are pure symbol-level functions)
          left,   \* remaining bytes of the known size
          vd, vo, \* verdict of the last symbol: declarative (DictSize) / operational
          ve,     \* declarative verdict with the documented window EffDict
          last    \* the symbol applied last
vars == <<h, g, r, s, left, vd, vo, ve, last>>

Symbols == {Lit(b) : b \in Bytes} \cup {Match(d, n) : d \in 0..MaxDist, n \in Lens}
           \cup {Rep(i, n) : i \in 0..3, n \in Lens} \cup {ShortRep, Eopm}
Modes == {[known |-> TRUE, left |-> MaxOut, eopmOk |-> FALSE], [known |-> FALSE, left |-> 0, eopmOk |-> TRUE]}
Mode == [known |-> TRUE, left |-> left, eopmOk |-> FALSE]

(* deliberately broken variants of the operational side (non-vacuity of the equivalence) *)
VDistValid(gg, d) == CASE Variant = "dist_off_by_one" -> gg.full >= d
                       [] OTHER -> RingDistValid(gg, d)
VGet(gg, d) == CASE Variant = "no_wrap_correction" -> gg.buf[(gg.pos - d - 1 + BufSize) % BufSize]
                 [] OTHER -> RingGet(gg, d)
RECURSIVE VRepeat(_, _, _)
VRepeat(g0, d, n) == IF n = 0 THEN g0 ELSE LET gg == RingReady(g0) IN VRepeat(RingPut(gg, VGet(gg, d)), d, n - 1)
VVerdict(gg, rr, y, m) ==
    IF y.t = "eopm" THEN RingVerdict(gg, rr, y, m)
    ELSE IF y.t \in {"rep", "shortrep"} /\ ~VDistValid(gg, 0) THEN "dist"
    ELSE IF IsCopy(y) /\ ~VDistValid(gg, DistOf(rr, y)) THEN "dist"
    ELSE IF m.known /\ y.n > m.left THEN "size" ELSE "ok"
VApply(gg, rr, y) == IF Variant = "ok" THEN RingApply(gg, rr, y)
                     ELSE IF y.t = "lit" THEN RingPut(gg, y.b)
                     ELSE IF IsCopy(y) THEN VRepeat(gg, DistOf(rr, y), y.n) ELSE gg

Init == /\ h = <<>> /\ g = RingInit /\ r = <<0, 0, 0, 0>> /\ s = 0
        /\ left = MaxOut /\ vd = "ok" /\ vo = "ok" /\ ve = "ok" /\ last = Eopm

Step(y) ==
    /\ vd = "ok" /\ vo = "ok"
    /\ last' = y
    /\ vd' = SymVerdictW(h, r, y, Mode, DictSize)
    /\ vo' = VVerdict(g, r, y, Mode)
    /\ ve' = SymVerdictW(h, r, y, Mode, EffDict)
    /\ IF vo' = "ok"
       THEN /\ g' = VApply(g, r, y)
            /\ h' = IF IsCopy(y) /\ ~DistValidW(h, DistOf(r, y), EffDict) THEN h ELSE ApplyH(h, r, y)
            /\ r' = RepsNext(r, y) /\ s' = StNext(s, y) /\ left' = left - y.n
       ELSE UNCHANGED <<h, g, r, s, left>>
(* LZMA2 dictionary reset in mid-stream (control 0x01 / >= 0xE0): lz_decoder_reset(); the format forgets the history. *)
(* With reset level "all" the LZMA state and reps start afresh as well.                                                *)
VReset(gg) == CASE Variant = "reset_keeps_wrapped" -> [RingReset(gg) EXCEPT !.wrapped = gg.wrapped]
                [] OTHER -> RingReset(gg)
DictReset ==
    /\ vd = "ok" /\ vo = "ok" /\ Len(h) > 0
    /\ h' = <<>> /\ g' = VReset(g) /\ r' = <<0, 0, 0, 0>> /\ s' = 0
    /\ UNCHANGED <<left, vd, vo, ve, last>>
Next == DictReset \/ \E y \in Symbols : Step(y)
Spec == Init /\ [][Next]_vars

(* ---- the property ---- *)
(* the implementation's verdict is the declarative one for the window EffDict ... *)
VerdictAgrees == vo = ve
(* ... which differs from the format's verdict (window DictSize) only by the named relaxation *)
RelaxedOnly == [][(vd' # ve') => (vd' = "dist" /\ IsCopy(last') /\ RelaxedDictAccept(h, DistOf(r, last')))]_vars
NeverStricter == [][(vd' = "ok") => (vo' = "ok")]_vars
(* the ring holds exactly the last Min(|h|, EffDict) bytes of the history and full counts them *)
RingMatchesHistory ==
    (vo = "ok") =>
        /\ g.full = Min(Len(h), EffDict)
        /\ \A d \in 0..(g.full - 1) : RingGet(g, d) = h[Len(h) - d]
(* the implementation never reads a byte it has not written *)
TypeOK == /\ g.pos \in RepMax..BufSize /\ g.full \in 0..EffDict /\ s \in 0..11
          /\ \A k \in 1..4 : r[k] \in 0..MaxDist
StateIsLitIffLastLit == (vo = "ok" /\ Len(h) > 0) => (IsLitState(s) <=> last.t = "lit")
=============================================================================
