------------------------------ MODULE XzPadding ------------------------------
(* The concatenation / Stream Padding part of stream_decode()                 *)
(* (src/liblzma/common/stream_decoder.c): SEQ_STREAM_HEADER (magic, first      *)
(* stream or not, LZMA_TELL_* return codes), SEQ_STREAM_FOOTER and             *)
(* SEQ_STREAM_PADDING transcribed; Block / Index decoding is abstracted to a   *)
(* region of body bytes.                                                       *)
(*                                                                             *)
(* Byte tokens [k, v, a]:                                                      *)
(*   "xh"  byte v (0..11) of a Stream Header; a = Check ID class of a valid    *)
(*         header (0 none, 1 CRC32, 2 an ID liblzma does not support), or -1   *)
(*         when the magic bytes are wrong                                      *)
(*   "xd"  byte of the Blocks/Index; v = output bytes produced when it has     *)
(*         been consumed; a = 1 on the last byte of a Check field whose value  *)
(*         does not match the data                                             *)
(*   "xf"  byte v (0..11) of the Stream Footer (always matching the header)    *)
(*   "b"   plain byte, value v: Stream Padding (0) or foreign data             *)
EXTENDS Integers, Sequences

XzInit(flags) ==
    [seq |-> "header", pos |-> 0, buf |-> <<>>, first |-> TRUE, check |-> 0,
     tellNo |-> "TELL_NO_CHECK" \in flags, tellUnsup |-> "TELL_UNSUPPORTED_CHECK" \in flags,
     tellAny |-> "TELL_ANY_CHECK" \in flags, ignore |-> "IGNORE_CHECK" \in flags,
     concat |-> "CONCATENATED" \in flags]

XR(c, i, o, r) == [c |-> c, i |-> i, o |-> o, ret |-> r]
XMin(a, b) == IF a < b THEN a ELSE b

RECURSIVE XzRun(_, _, _, _, _)
XzRun(c, w, i, o, act) ==
  LET more == i < Len(w) IN
  CASE c.seq = "header" ->                               \* case SEQ_STREAM_HEADER
         LET take == XMin(12 - c.pos, Len(w) - i)                       \* lzma_bufcpy
             buf  == c.buf \o SubSeq(w, i + 1, i + take)
         IN IF c.pos + take < 12 THEN XR([c EXCEPT !.buf = buf, !.pos = @ + take], i + take, o, "OK")
            ELSE LET good == \A j \in 1..12 : buf[j].k = "xh" /\ buf[j].v = j - 1 /\ buf[j].a >= 0
                     c2   == [c EXCEPT !.buf = <<>>, !.pos = 0]
                 IN IF ~good    \* lzma_stream_header_decode(): LZMA_FORMAT_ERROR
                    THEN XR(c2, i + take, o, IF c.first THEN "FORMAT_ERROR" ELSE "DATA_ERROR")
                    ELSE LET c3 == [c2 EXCEPT !.first = FALSE, !.check = buf[1].a, !.seq = "body"] IN
                         IF c.tellNo /\ c3.check = 0 THEN XR(c3, i + take, o, "NO_CHECK")
                         ELSE IF c.tellUnsup /\ c3.check = 2 THEN XR(c3, i + take, o, "UNSUPPORTED_CHECK")
                         ELSE IF c.tellAny THEN XR(c3, i + take, o, "GET_CHECK")
                         ELSE XzRun(c3, w, i + take, o, act)
    [] c.seq = "body" ->                                 \* SEQ_BLOCK_HEADER .. SEQ_INDEX (abstract)
         IF ~more THEN XR(c, i, o, "OK")
         ELSE IF w[i + 1].k = "xd" THEN
              IF w[i + 1].a = 1 /\ c.check = 1 /\ ~c.ignore THEN XR(c, i + 1, o, "DATA_ERROR")
              ELSE XzRun(c, w, i + 1, o + w[i + 1].v, act)
         ELSE XzRun([c EXCEPT !.seq = "footer"], w, i, o, act)
    [] c.seq = "footer" ->                               \* case SEQ_STREAM_FOOTER
         LET take == XMin(12 - c.pos, Len(w) - i)
             buf  == c.buf \o SubSeq(w, i + 1, i + take)
         IN IF c.pos + take < 12 THEN XR([c EXCEPT !.buf = buf, !.pos = @ + take], i + take, o, "OK")
            ELSE LET good == \A j \in 1..12 : buf[j].k = "xf" /\ buf[j].v = j - 1
                     c2   == [c EXCEPT !.buf = <<>>, !.pos = 0]
                 IN IF ~good THEN XR(c2, i + take, o, "DATA_ERROR")
                    ELSE IF ~c.concat THEN XR(c2, i + take, o, "STREAM_END")
                    ELSE XzRun([c2 EXCEPT !.seq = "padding"], w, i + take, o, act)
    [] c.seq = "padding" ->                              \* case SEQ_STREAM_PADDING
         IF ~more THEN
              IF act # "FINISH" THEN XR(c, i, o, "OK")
              ELSE XR(c, i, o, IF c.pos = 0 THEN "STREAM_END" ELSE "DATA_ERROR")
         ELSE IF w[i + 1].k = "b" /\ w[i + 1].v = 0
              THEN XzRun([c EXCEPT !.pos = (@ + 1) % 4], w, i + 1, o, act)
         ELSE IF c.pos # 0 THEN XR(c, i + 1, o, "DATA_ERROR")            \* ++*in_pos; return
         ELSE XzRun([c EXCEPT !.seq = "header"], w, i, o, act)           \* stream_decoder_reset()

XzCall(c, w, i, act) == XzRun(c, w, i, 0, act)
=============================================================================
