---------------------------- MODULE MCXzStreamDec ----------------------------
(* (M) for C03: over every abstract file of XzSpace and every flag set, the    *)
(* operational decoder model (XzStreamDec) accepts exactly the files the       *)
(* declarative format definition (XzFormat) calls valid, delivers exactly      *)
(* their meaning and consumes exactly their extent.  (G): the same behaviours  *)
(* print one plan line per file at termination.                                *)
EXTENDS XzStreamDec, XzFormat, XzSpace

CONSTANTS FlagMode, Variant

Fl(c, tn, tu, ta, ig) == [concat |-> c, tellNo |-> tn, tellUnsup |-> tu, tellAny |-> ta, ignoreCheck |-> ig]
FlagSpace == CASE FlagMode = "all" -> {Fl(c, tn, tu, ta, ig) : c, tn, tu, ta, ig \in BOOLEAN}
               [] FlagMode = "some" -> {Fl(TRUE, FALSE, FALSE, FALSE, FALSE), Fl(FALSE, TRUE, TRUE, FALSE, FALSE),
                                        Fl(TRUE, FALSE, FALSE, TRUE, TRUE)}
               [] OTHER -> {Fl(TRUE, FALSE, FALSE, FALSE, FALSE)}

Init == \E f \in FileSpace, fl \in FlagSpace : DecInit(f, fl, FileReal(f))
(* deliberately broken decoders (non-vacuity of AcceptIffValid): each drops one comparison *)
VNext ==
    CASE Variant = "no_flags_compare" ->
           IF seq = "STREAM_FOOTER" /\ ret = "run" /\ Have(12) /\ FooterRet(S, ih) = "DATA_ERROR"
              /\ FooterRet([S EXCEPT !.fcheck = S.check], ih) = "OK"
           THEN /\ seq' = "STREAM_PADDING" /\ pos' = pos + 12 /\ UNCHANGED <<file, flags, limit, si, bi, first, ret, tells, out, partial, ih>>
           ELSE DecNext
      [] Variant = "index_sums_only" ->
           IF seq = "INDEX" /\ ret = "run" /\ IndexRet(S, ih) = "DATA_ERROR"
              /\ LET a == IhOfRecs(S.irecs, IhInit) IN
                   /\ S.ivli /\ S.icount = ih.cnt /\ S.ipadz /\ S.icrc /\ RecordsRet(S.irecs, IhInit, ih) = "OK"
                   /\ a.bsum = ih.bsum /\ a.usum = ih.usum /\ a.lsize = ih.lsize
           THEN /\ seq' = "STREAM_FOOTER" /\ pos' = pos + IndexReal(S) /\ UNCHANGED <<file, flags, limit, si, bi, first, ret, tells, out, partial, ih>>
           ELSE DecNext
      [] Variant = "size_valid_misuse" ->       \* is_size_valid() applied the wrong way round: only checks when the field is ABSENT
           IF seq = "BLOCK_CODE" /\ ret = "run" /\ L2Run(B.chunks).ret = "STREAM_END" /\ B.us.p /\ B.us.v > DataOut(B)
              /\ ~(B.cs.p /\ B.cs.v # L2Run(B.chunks).used)
           THEN /\ seq' = "BLOCK_PADDING" /\ pos' = pos + L2Run(B.chunks).used /\ out' = Append(out, B.did)
                /\ UNCHANGED <<file, flags, limit, si, bi, first, ret, tells, partial, ih>>
           ELSE DecNext
      [] OTHER -> DecNext
Spec == Init /\ [][VNext]_dvars

Done == ret # "run"
Verify == ~flags.ignoreCheck
AcceptIffValid == Done => ((ret = "STREAM_END") <=> Valid(file, flags.concat, Verify))
MeaningExact == (Done /\ ret = "STREAM_END") => (out = Meaning(file, flags.concat) /\ pos = Extent(file, flags.concat) /\ ~partial)
(* whatever happens, the data delivered is a prefix of the sequence of Blocks of the file *)
AllDids == ConcatAll([k \in 1..Len(file.streams) |-> StreamMeaning(file.streams[k])])
OutIsPrefix == Len(out) <= Len(AllDids) /\ \A k \in 1..Len(out) : out[k] = AllDids[k]
(* return codes the API documents for a decoder fed with a complete file *)
RetDocumented == ret \in {"run", "STREAM_END", "FORMAT_ERROR", "OPTIONS_ERROR", "DATA_ERROR", "BUF_ERROR"}
FormatErrorOnlyFirst == (ret = "FORMAT_ERROR") => (si = 1 /\ pos <= 12)
TellsSound == \A k \in 1..Len(tells) :
                 CASE tells[k] = "NO_CHECK" -> flags.tellNo
                   [] tells[k] = "UNSUPPORTED_CHECK" -> flags.tellUnsup
                   [] OTHER -> flags.tellAny
PosBounded == pos <= limit + 1
(* a complete valid file never needs more input *)
NoStarveOnValid == (Done /\ Valid(file, flags.concat, Verify)) => ret # "BUF_ERROR"

Emit == (ret' # "run") =>
          PrintT(<<"PLAN", ToJson([file |-> file, flags |-> flags, ret |-> ret', tells |-> tells', out |-> out',
                                   partial |-> partial', pos |-> pos', size |-> FileReal(file), seq |-> seq', si |-> si', bi |-> bi',
                                   valid |-> Valid(file, flags.concat, ~flags.ignoreCheck),
                                   ialone |-> [k \in 1..Len(file.streams) |-> IndexAloneRet(file.streams[k])],
                                   fields |-> Fields(file)])>>)
=============================================================================
