------------------------------ MODULE GenAttrs -------------------------------
(* Replay direction of C19 (files): the scenarios (one JSON record per line  *)
(* in $C19_SCEN: file kind, mode bits, flags, injected syscall outcomes) are *)
(* run through Attrs and the complete prediction - system calls on source /  *)
(* target with their arguments, messages, exit status, what is left on disk  *)
(* - is printed for each at its terminal state.                              *)
EXTENDS Attrs, TLC, Json, IOUtils

Scen == ndJsonDeserialize(IOEnv.C19_SCEN)
GInit == \E i \in 1..Len(Scen) : AInit(Scen[i])
GSpec == GInit /\ [][ANext]_avars
EmitDone == pc = "done" =>
    PrintT(<<"PLAN", ToJson([id |-> cfg.id, sys |-> sys, msgs |-> msgs, exit |-> ExitOf, stderr |-> StderrOf,
                             srcThere |-> srcThere, dst |-> dst])>>)
=============================================================================
