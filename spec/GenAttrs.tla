------------------------------ MODULE GenAttrs -------------------------------
(* Replay direction of C19 (files): the scenarios (one JSON record per line  *)
(* in $C19_SCEN) say how xz is invoked - program name, XZ_DEFAULTS, XZ_OPT   *)
(* and command-line tokens, source name - and what the file system looks     *)
(* like (file kind, mode bits, existing target, injected syscall outcomes).  *)
(* Args gives the effective options, Suffix the target name, Attrs the       *)
(* system calls, messages, exit status and what is left on disk; the whole   *)
(* prediction is printed for each scenario at its terminal state.            *)
EXTENDS Attrs, Args, TLC, Json, IOUtils

Scen == ndJsonDeserialize(IOEnv.C19_SCEN)
Eff(s) == Effective(s.prog, s.dflt, s.xzopt, s.cmd)
(* the list given with --files / --files0 holds the name between empty entries *)
TheName(s) == IF s.via = "cmd" THEN s.srcName ELSE ListNames(<< <<>>, s.srcName, <<>>, <<>> >>)[1]
Stdin(s) == IsStdinName(s.via, TheName(s))
Cfg(s) == LET e == Eff(s) IN
    [id |-> s.id, opmode |-> e.mode, keep |-> e.keep, force |-> e.force, stdout |-> (e.stdout \/ Stdin(s)), optStdout |-> e.stdout,
     tail |-> s.tail, nosparse |-> e.nosparse,
     nowarn |-> e.nowarn, quiet |-> e.quiet,
     kind |-> (IF Stdin(s) THEN "stdin" ELSE s.kind), smode |-> s.smode, nlink |-> s.nlink, uidSame |-> s.uidSame, gidSame |-> s.gidSame,
     dstKind |-> s.dstKind, nameOK |-> (Target(e, s.srcName).kind = "name"), payloadOK |-> s.payloadOK,
     ownOK |-> s.ownOK, grpOK |-> s.grpOK, chmodOK |-> s.chmodOK, root |-> s.root]
GInit == \E i \in 1..Len(Scen) : ~Eff(Scen[i]).fatal /\ AInit(Cfg(Scen[i]))
GSpec == GInit /\ [][ANext]_avars
EmitDone == pc = "done" =>
    LET s == CHOOSE x \in {Scen[i] : i \in 1..Len(Scen)} : x.id = cfg.id
        e == Eff(s) IN
    PrintT(<<"PLAN", ToJson([id |-> cfg.id, sys |-> sys, msgs |-> msgs, exit |-> ExitOf, stderr |-> StderrOf,
                             srcThere |-> srcThere, dst |-> dst, eff |-> e, nameOK |-> cfg.nameOK, stdinSrc |-> Stdin(s),
                             dstName |-> Target(e, s.srcName).name])>>)
=============================================================================
