----------------------------- MODULE GenLzmaCode ----------------------------
(* Plan generator for the replay direction of C11: every transition of the   *)
(* LzmaCode state graph is printed once, together with one concrete call     *)
(* path that reaches its source state.  `path` is a history variable hidden  *)
(* by the VIEW, so BFS keeps the first (shortest) path per state, and the    *)
(* ACTION_CONSTRAINT sees every generated transition exactly once.           *)
EXTENDS LzmaCode, TLC, Json

VARIABLE path
CONSTANT SupportedSets

Step(o) == [c |-> o, seq |-> seq', savedIn |-> savedIn', allowBuf |-> allowBuf',
            totalIn |-> totalIn', totalOut |-> totalOut']

GInit == /\ \E sup \in SupportedSets : \E b \in BOOLEAN : InitWith(sup, b)
         /\ path = <<>>
GNext == \/ Next /\ path' = Append(path, Step(obs'))
         \/ \E sup \in SupportedSets : Reinit(sup) /\ path' = Append(path, Step(obs'))
GSpec == GInit /\ [][GNext]_<<vars, path>>
GView == <<inited, supported, seq, savedIn, allowBuf>>
Emit == PrintT(<<"PLAN", ToJson([inited |-> inited, supported |-> supported, steps |-> path'])>>)
=============================================================================
