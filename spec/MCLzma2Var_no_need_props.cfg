SPECIFICATION Spec
CONSTANTS MaxChunks = 4 Variant = "no_need_props"
INVARIANTS AcceptIffValid MeaningExact PrefixOnError FunctionalAgrees
CHECK_DEADLOCK FALSE
