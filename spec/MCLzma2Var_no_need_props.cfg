SPECIFICATION Spec
CONSTANTS MaxChunks = 3 Variant = "no_need_props"
INVARIANTS AcceptIffValid MeaningExact PrefixOnError FunctionalAgrees
CHECK_DEADLOCK FALSE
