----------------------------- MODULE FormatFiles -----------------------------
(* Abstract .lzma / .lz / .xz files for C16: a file description (field        *)
(* classes) and its byte-token sequence.  The check serialises a description  *)
(* with the independent format library (harness/glue) - header fields byte    *)
(* for byte, payloads with the real range coder.                               *)
EXTENDS Auto

B(v) == TokA("b", v, 0)
Bytes(s) == [j \in 1..Len(s) |-> B(s[j])]
Rep(n, t) == [j \in 1..n |-> t]
MarkerLen == 2

(* ------------------------------------------------------------------ .lzma *)
\* [fmt "alone", props 0..255, dict <<lo,hi>>, usz class, n, eopm, trail (number of foreign bytes), cut]
UszClasses == {"unknown", "exact", "zero", "small", "big", "m38", "e38", "top", "umax1"}
UszBytes(cls, n) ==
    CASE cls = "unknown" -> <<255, 255, 255, 255, 255, 255, 255, 255>>
      [] cls = "exact"   -> <<n, 0, 0, 0, 0, 0, 0, 0>>
      [] cls = "zero"    -> <<0, 0, 0, 0, 0, 0, 0, 0>>
      [] cls = "small"   -> <<n - 1, 0, 0, 0, 0, 0, 0, 0>>
      [] cls = "big"     -> <<n + 1, 0, 0, 0, 0, 0, 0, 0>>
      [] cls = "m38"     -> <<255, 255, 255, 255, 63, 0, 0, 0>>          \* 256 GiB - 1
      [] cls = "e38"     -> <<0, 0, 0, 0, 64, 0, 0, 0>>                  \* 256 GiB
      [] cls = "top"     -> <<0, 0, 0, 0, 0, 0, 0, 128>>                 \* 2^63
      [] cls = "umax1"   -> <<254, 255, 255, 255, 255, 255, 255, 255>>   \* 2^64 - 2
AloneLen(fd) == 13 + 5 + fd.n + (IF fd.eopm THEN MarkerLen ELSE 0) + 1
AloneTokens(fd) ==
    <<B(fd.props)>> \o Bytes(BytesOfW(fd.dict)) \o Bytes(UszBytes(fd.usz, fd.n))
    \o PayloadTokens(fd.n, fd.eopm, MarkerLen) \o Rep(fd.trail, B(88))
AloneDesc(props, dict, usz, n, eopm, trail, cut) ==
    [fmt |-> "alone", props |-> props, dict |-> dict, usz |-> usz, n |-> n, eopm |-> eopm,
     trail |-> trail, cut |-> cut]

(* -------------------------------------------------------------------- .lz *)
\* member: [magic (4 bytes), ver, ds, n, crc (0 good / 1 bad), dsz, msz (stored value minus true value)]
\* [fmt "lzip", mem (sequence of members), trail (sequence of byte values), cut]
MemberLen(m) == 6 + (5 + m.n + MarkerLen + 1) + (IF m.ver = 0 THEN 12 ELSE 20)
MemberTokens(m) ==
    Bytes(m.magic) \o <<B(m.ver), B(m.ds)>> \o PayloadTokens(m.n, TRUE, MarkerLen)
    \o [j \in 1..4 |-> TokA("fc", j - 1, m.crc)]
    \o [j \in 1..8 |-> TokA("fd", j - 1, m.n + m.dsz)]
    \o (IF m.ver = 0 THEN <<>> ELSE [j \in 1..8 |-> TokA("fm", j - 1, MemberLen(m) + m.msz)])
RECURSIVE Flatten(_)
Flatten(ss) == IF ss = <<>> THEN <<>> ELSE Head(ss) \o Flatten(Tail(ss))
LzipTokens(fd) == Flatten([k \in 1..Len(fd.mem) |-> MemberTokens(fd.mem[k])]) \o Bytes(fd.trail)
Member(ver, ds, n) == [magic |-> LzipMagic, ver |-> ver, ds |-> ds, n |-> n, crc |-> 0, dsz |-> 0, msz |-> 0]
LzipDesc(mem, trail, cut) == [fmt |-> "lzip", mem |-> mem, trail |-> trail, cut |-> cut]

(* -------------------------------------------------------------------- .xz *)
\* stream: [check 0|1|2, hdr (0 good / 1 wrong magic), n, cbad, pad]
\* [fmt "xz", str (sequence of streams), trail (sequence of byte values), cut]
XzBodyLen(s) == 3 + s.n + (IF s.check = 0 THEN 0 ELSE 1) + 2
XzStreamLen(s) == 12 + XzBodyLen(s) + 12                          \* without Stream Padding
XzStreamTokens(s) ==
    [j \in 1..12 |-> TokA("xh", j - 1, IF s.hdr = 1 THEN -1 ELSE s.check)]
    \o Rep(3, TokA("xd", 0, 0)) \o Rep(s.n, TokA("xd", 1, 0))
    \o (IF s.check = 0 THEN <<>> ELSE <<TokA("xd", 0, IF s.cbad THEN 1 ELSE 0)>>)
    \o Rep(2, TokA("xd", 0, 0))
    \o [j \in 1..12 |-> TokA("xf", j - 1, 0)] \o Rep(s.pad, B(0))
XzTokens(fd) == Flatten([k \in 1..Len(fd.str) |-> XzStreamTokens(fd.str[k])]) \o Bytes(fd.trail)
XzStream(check, n, pad) == [check |-> check, hdr |-> 0, n |-> n, cbad |-> FALSE, pad |-> pad]
XzDesc(str, trail, cut) == [fmt |-> "xz", str |-> str, trail |-> trail, cut |-> cut]

(* ---------------------------------------------------------------- any file *)
FullTokens(fd) == CASE fd.fmt = "alone" -> AloneTokens(fd)
                    [] fd.fmt = "lzip"  -> LzipTokens(fd)
                    [] fd.fmt = "xz"    -> XzTokens(fd)
Tokens(fd) == LET t == FullTokens(fd) IN SubSeq(t, 1, Len(t) - fd.cut)
=============================================================================
