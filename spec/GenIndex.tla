------------------------------ MODULE GenIndex ------------------------------
(* Plan generator for C13: histories of lzma_index_* calls together with the *)
(* model's prediction of every return value, of every getter, of complete    *)
(* iterations in the four modes and of locate at every boundary, after every *)
(* call.  Used in two ways:                                                  *)
(*  - random walks (tlc -simulate) over the rich value classes: one TLC      *)
(*    action per kind of call (the simulator picks an action first), some    *)
(*    kinds repeated to weight them;                                         *)
(*  - breadth-first over a small alphabet with the history hidden by VIEW:   *)
(*    every distinct reachable register file is emitted once with its        *)
(*    shortest history.                                                      *)
(* A history is printed when the deterministic action Finish is taken, so a  *)
(* walk prints exactly one line.                                             *)
EXTENDS IndexOps, TLC, Json

CONSTANTS MinSteps, MaxSteps,
          FamStreams, FamBase, FamGroups, ParkA, ParkB, EncN,
          HashU, HashV,       \* value classes of lzma_index_hash_append (empty = no index_hash calls)
  \* families: Stream counts / number of shapes / Record-group counts (empty = off)
          CommonU, CommonV,   \* value classes of the extra (weighting) append actions of the random walks
          Volume      \* TRUE: also offer the macro calls appendn / catn (many Records / Streams at once)
VARIABLES st, hist, done
vars == <<st, hist, done>>

U4 == BigOf(4)  U5 == BigOf(5)  U8 == BigOf(8)  U127 == BigOf(127)  U128 == BigOf(128)  U16K == BigOf(16385)
One == BigOf(1)
Half == <<0, 0, 1048576>>                    \* 2^62
Quarter == <<0, 0, 524288>>                  \* 2^61
Near == Sub(UnpaddedMax, BigOf(64))          \* one Block of this size fits, then only a few small ones
F(check) == Flags(check, FALSE, Zero)

\* value classes of the random walks
RichU == {U4, U5, U8, U127, U128, U16K, Half, Near, UnpaddedMax, AddS(UnpaddedMax, 1)}
RichV == {Zero, One, BigOf(127), BigOf(128), <<0, 1, 0>>, Quarter, Half, VliMax, AddS(VliMax, 1)}
RichP == {Zero, BigOf(4), BigOf(6), BigOf(4096), Half, Sub(VliMax, BigOf(3)), AddS(VliMax, 1)}
RichF == {F(0), F(1), F(4), F(10), F(15), F(16), Flags(1, TRUE, BigOf(8)), Flags(4, TRUE, BigOf(6)),
          Flags(10, TRUE, BackwardMax), Flags(1, TRUE, AddS(BackwardMax, 4)), [F(1) EXCEPT !.version = 1]}
SmallU == {U5, U8, U127, U128, U16K}
SmallV == {Zero, One, BigOf(127), BigOf(128), <<0, 1, 0>>}
\* small alphabet of the breadth-first plans
TinyU == {U5}
TinyV == {Zero, One}
TinyP == {BigOf(4)}
TinyF == {F(1), F(10)}
NoValues == {}
FamStreamsQ == 5..6   FamGroupsQ == {5}
FamStreamsT == 5..8   FamGroupsT == {5, 6}
\* sizes near the limits: every transition of the graph of indexes of up to 3 Streams / 3 Records built from them
\* (limit checks of append / stream_padding / cat across several Streams; failed calls are transitions too)
LimU == {U5, Half}   LimV == {Zero, Half, VliMax}   LimP == {Half}
HashUB == {U4, U5, Near, UnpaddedMax}   HashVB == {Zero, One, VliMax}
EncNQ == {0, 1, 127, 128, 300, 16384}
ParkAQ == {300, 600, 1100, 1600, 2100}   ParkBQ == {100, 500, 1000}
ParkAT == {300, 512, 600, 1024, 1100, 1536, 1600, 2048, 2100, 2600}   ParkBT == {1, 100, 500, 512, 1000, 1100}

\* volume plans: Record counts around INDEX_GROUP_SIZE = 512 and its multiples, Stream counts around 2^k
\* (the rotations of the sequentially filled AVL trees of index.c depend on the node count only)
VolN == {1, 2, 510, 511, 512, 513, 1023, 1025}
VolS == {1, 2, 3, 4, 5, 7, 9, 15, 17, 31, 33}
CandAppendN(s) == IF ~Volume THEN {} ELSE
    {Op("appendn", k, 0, u, v, n, 0, NoFlags) : k \in LiveSlots(s), u \in {U5, U8, U128}, v \in {Zero, One, BigOf(128)},
                                               n \in {n \in VolN : NRecords(s) + n <= MaxRecs}}
CandCatN(s) == IF ~Volume THEN {} ELSE
    {Op("catn", k, j, U8, v, n, m, f) : k \in LiveSlots(s), j \in {0, 1}, v \in {Zero, BigOf(128)}, m \in {0, 1, 2},
                                       f \in {NoFlags, F(1), F(4)},
                                       n \in {n \in VolS : NStreams(s) + n <= MaxStreams /\ NRecords(s) + 2 * n <= MaxRecs}}

\* the macro call catn is the repeated cat it stands for
ASSUME \A n \in 1..3 : \A f \in {NoFlags, F(1)} : \A d \in {EmptyIndex, DoFlags(DoAppend(EmptyIndex, U5, One).idx, F(10)).idx} :
          LET s == [recs |-> Copies(Rec(U8, One), 2), flags |-> f, pad |-> BigOf(4)]
          IN  Apply([St0 EXCEPT !.reg[1] = d], Op("catn", 1, 1, U8, One, n, 2, f)).st.reg[1] = CatNRepeated(d, s, n)

\* Families of whole indexes, enumerated exhaustively: every sequence of m Streams over the FamBase shapes (empty
\* Streams and empty Blocks make neighbouring tree nodes share an uncompressed base) and every sequence of m full
\* Record groups that are all-empty or all-non-empty; the observation then locates every boundary -1/0/+1.
CandStreams(s) == UNION {{Op("streams", 1, FamBase, Zero, Zero, n, m, NoFlags) : n \in 0..(IPow(FamBase, m) - 1)} : m \in FamStreams}
CandGroups(s) == UNION {{Op("groups", 1, 0, Zero, Zero, n, m, NoFlags) : n \in 0..(IPow(2, m) - 1)} : m \in FamGroups}
\* Iterator parked in every Record group (positions around the multiples of 512 and at both ends) of ParkA Records,
\* ParkB more Records appended (opening 0, 1 or 2 new groups, odd and even group counts), then the rest iterated.
ParkPos(a) == {t \in 1..a : t <= 2 \/ t >= a - 1 \/ (t % 512) \in {0, 1, 511}}
CandPark(s) == UNION {{Op("park", 1, mode, AddS(USizeI(s.reg[1]), t - 1), BigOf(t), a, b, NoFlags) :
                          t \in ParkPos(a), b \in ParkB, mode \in {ANY, BLOCK, NONEMPTY}} : a \in ParkA}
\* Indexes whose Number of Records field is 1, 2 and 3 bytes long, encoded and decoded again; the harness feeds the
\* Index decoder byte by byte and with a first chunk that ends after every byte (so after every field) of the encoding.
CandEncN(s) == {Op("encn", 1, 0, BigOf(8), Zero, n, 0, NoFlags) : n \in EncN}
               \cup {Op("encn", 1, 0, BigOf(300), BigOf(70000), n, 0, NoFlags) : n \in {n \in EncN : n <= 1000}}
\* (a family call ends the history)
FamDone == \E n \in 1..Len(hist) : hist[n].op \in {"streams", "groups", "park", "encn"}
Running == ~done /\ Len(hist) < MaxSteps /\ ~FamDone
Do(o) == st' = Apply(st, o).st /\ hist' = Append(hist, o) /\ UNCHANGED done
Init == st = St0 /\ hist = <<>> /\ done = FALSE
Finish == ~done /\ Len(hist) >= MinSteps /\ done' = TRUE /\ UNCHANGED <<st, hist>>
Next == \/ Running /\ \E o \in CandInit(st) : Do(o)
        \/ Running /\ \E o \in CandEnd(st) : Do(o)
        \/ Running /\ \E o \in CandAppend(st) : Do(o)
        \/ Running /\ \E o \in CandAppendOf(st, CommonU, CommonV) : Do(o)       \* small Records: the common case
        \/ Running /\ \E o \in CandAppendOf(st, CommonU, CommonV) : Do(o)
        \/ Running /\ \E o \in CandFlags(st) : Do(o)
        \/ Running /\ \E o \in CandPadding(st) : Do(o)
        \/ Running /\ \E o \in CandCat(st) : Do(o)
        \/ Running /\ \E o \in CandCat(st) : Do(o)
        \/ Running /\ \E o \in CandDup(st) : Do(o)
        \/ Running /\ \E o \in CandEncDec(st) : Do(o)
        \/ Running /\ \E o \in CandIterInit(st) : Do(o)
        \/ Running /\ HashU # {} /\ \E o \in CandHashInit(st) : Do(o)
        \/ Running /\ \E o \in CandHashAppend(st, HashU, HashV) : Do(o)
        \/ Running /\ \E o \in CandHashAppend(st, HashU, HashV) : Do(o)
        \/ Running /\ HashU # {} /\ \E o \in CandHashDecode(st) : Do(o)
        \/ Running /\ \E o \in CandIterNext(st) : Do(o)
        \/ Running /\ \E o \in CandIterNext(st) : Do(o)
        \/ Running /\ \E o \in CandIterNext(st) : Do(o)
        \/ Running /\ \E o \in CandIterLocate(st) : Do(o)
        \/ Running /\ \E o \in CandAppendN(st) : Do(o)
        \/ Running /\ \E o \in CandAppendN(st) : Do(o)
        \/ Running /\ \E o \in CandCatN(st) : Do(o)
        \/ Running /\ Len(hist) <= 1 /\ \E o \in CandStreams(st) : Do(o)
        \/ Running /\ Len(hist) <= 1 /\ \E o \in CandGroups(st) : Do(o)
        \/ Running /\ Len(hist) <= 1 /\ \E o \in CandPark(st) : Do(o)
        \/ Running /\ Len(hist) <= 1 /\ \E o \in CandEncN(st) : Do(o)
        \/ Finish
Spec == Init /\ [][Next]_vars
\* (family calls that end in the same state are different plans)
View == <<st, done, IF FamDone THEN <<hist[Len(hist)]>> ELSE <<>> >>
Emit == ~done \/ PrintT(<<"PLAN", ToJson(Predict(hist))>>)
\* per-transition emission (ACTION_CONSTRAINT, with VIEW): every transition of the state graph once, with the
\* shortest history that reaches its source state
ViewNoIter == <<st.reg, st.hash, done>>       \* (index_hash plans: the iterator is irrelevant)
EmitT == done' \/ PrintT(<<"PLAN", ToJson(Predict(hist'))>>)
OneU == {U5}
OneV == {One}
=============================================================================
