SPECIFICATION Spec
CONSTANTS
 MaxUpdates = 0
 MaxReinit = 1 BSChoices = {2} FixBlockSize = TRUE  FixLostWorker = TRUE
 CountCalls = TRUE
 NW = 2  NW0 = 2  NWChoices = {2}  BS = 2  Total = 2  Chunk = 1  HdrSz = 1  TailSz = 2
 Timeout = FALSE  Spurious = TRUE  MayFail = FALSE MayFailMain = FALSE
 Gives = {0, 1, 100}  Spaces = {0, 1, 100}
 FlushActs = {"FULL_FLUSH"}
 MaxCalls = 5
CONSTRAINT CallBound
VIEW MCView
INVARIANTS ProgressTruthful OrderedOutput BlocksPartitionInput BoundariesOnlyWhereRequested FlushCompletes BarrierCompletes FinishCompletes BufErrorOnlyWhenStarved DocumentedCodes QueueBound EndJoinsAll NoLostWorker InBufFits
