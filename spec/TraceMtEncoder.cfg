SPECIFICATION TSpec
CONSTANTS
 MaxUpdates = 50
 MaxReinit = 5  BSChoices = {} FixBlockSize = TRUE  FixLostWorker = TRUE
 CountCalls = TRUE
 NW <- TrNW  NW0 <- TrNW0  NWChoices = {}  BS <- TrBS  Total <- TrTotal  Chunk = 16384  Timeout <- TrTimeout  Spurious = TRUE  MayFail = TRUE MayFailMain = TRUE
 Gives = {}  Spaces = {}  FlushActs = {}  HdrSz = 12  TailSz = 0
CONSTRAINT TrackMax
POSTCONDITION TraceAccepted
CHECK_DEADLOCK FALSE
