SPECIFICATION ESpec
CONSTANTS After = 3 Look = 3
 Datas <- MCDatas
INVARIANT EncIndependent
CHECK_DEADLOCK FALSE
