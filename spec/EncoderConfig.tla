---------------------------- MODULE EncoderConfig ----------------------------
(* The encoder option lattice of C01/C02 as constants, and a covering-array    *)
(* generator written in TLA+: TLC (not the driver) chooses the configurations. *)
(*                                                                             *)
(* Dimensions (value lists come from the cfg through DimVals):                 *)
(*   1 entry    public entry point                                              *)
(*   2 preset   0..9        3 extreme  LZMA_PRESET_EXTREME                     *)
(*   4 lclppb   "lc-lp-pb" corners with lc+lp <= 4    5 mf   five match finders*)
(*   6 mode     fast/normal 7 nice  nice_len          8 depth                  *)
(*   9 dict     dictionary size   10 pdict  preset dictionary (raw only):      *)
(*                                           no / small / huge                 *)
(*  11 check    0,1,4,10    12 chain  filter chain shape                       *)
(*  13 bsize    Block size of the threaded encoder    14 threads               *)
(*  15 flush    none/sync/full flushes inside the input                        *)
(*  16 oslice   output offered whole / in tiny pieces                          *)
(*  17 l1kind   LZMA1 / LZMA1EXT without / with end marker                     *)
(*  18 limit    output size limit of MicroLZMA      19 mtpreset  preset vs     *)
(*              filters in lzma_mt                                             *)
(*  21 history  what happened on the same lzma_stream before: nothing (fresh), *)
(*              or a session abandoned without lzma_end inside the first       *)
(*              header / with a Block open / after a flush, then re-init       *)
(*  20 update   lzma_filters_update() with different lc/lp/pb after the first  *)
(*              flush (at the very start when there is no flush)               *)
(* "dflt" = keep what lzma_lzma_preset(preset) gives.                          *)
(*                                                                             *)
(* Applicable(e, k) says whether dimension k means anything for entry point e  *)
(* (lzma_easy_encoder has no lc/lp/pb...).  A non-applicable dimension is      *)
(* pinned to its first value.                                                  *)
(*                                                                             *)
(* Coverage: every pair (dimension i = a, dimension j = b) that some entry     *)
(* point admits occurs in at least one emitted plan ("pairwise"), plus the     *)
(* corner plans (every entry point with all applicable dimensions at their     *)
(* first / last value).  The generator is a deterministic behaviour: corners   *)
(* first, then repeatedly: take the first uncovered pair (rotated by Seed),    *)
(* the least used entry point that admits it, and fill every other dimension   *)
(* with the value that covers the most still uncovered pairs (ties rotated by  *)
(* Seed and by the number of plans so far).  One TLC step decides one          *)
(* dimension (state variables are values: no lazy re-evaluation).  Pairs are   *)
(* kept as integer codes in the set `unc`.  The behaviour ends when no         *)
(* admissible pair is uncovered (invariant AllCovered) or after MaxPlans.      *)
EXTENDS Naturals, Sequences, FiniteSets, TLC, Json

CONSTANTS DimNames,      \* sequence of dimension names (strings), entry first
          Seed,          \* rotates the tie-breaks: different seeds give different covering arrays
          MaxPlans       \* stop after this many plans even if pairs remain (0 = no limit)

\* value lists, supplied by the MC/Gen module (cfg files cannot hold sequences of mixed values)
CONSTANT DimVals         \* sequence of sequences, same order as DimNames

ND == Len(DimNames)
Dims == 1..ND
NVs == [k \in 1..Len(DimNames) |-> Len(DimVals[k])]
NV(k) == NVs[k]
Entries == DimVals[1]
DimIdx(name) == CHOOSE k \in Dims : DimNames[k] = name

XzEntries == {"easy", "stream", "stream_mt", "block", "easy_buffer", "stream_buffer", "block_buffer"}
Lzma1Entries == {"alone", "raw1", "raw1_buffer", "microlzma"}
PresetOnly == {"easy", "easy_buffer"}
RawEntries == {"raw1", "raw2", "raw_buffer", "raw1_buffer"}
MultiCall == {"easy", "stream", "stream_mt", "alone", "raw1", "raw2", "block", "microlzma"}
Flushable == {"easy", "stream", "stream_mt", "raw2", "block"}

Applicable(e, k) ==
    LET d == DimNames[k] IN
    CASE d = "entry" -> TRUE
      [] d \in {"preset", "extreme"} -> TRUE
      [] d \in {"lclppb", "mf", "mode", "nice", "depth", "dict"} -> e \notin PresetOnly
      [] d = "pdict" -> e \in RawEntries
      [] d = "check" -> e \in XzEntries
      [] d = "chain" -> e \notin PresetOnly /\ e \notin Lzma1Entries
      [] d \in {"bsize", "threads", "mtpreset"} -> e = "stream_mt"
      [] d = "flush" -> e \in Flushable
      [] d = "history" -> e \in MultiCall                 \* an abandoned earlier session on the same lzma_stream
      [] d = "update" -> e \in Flushable                 \* lzma_filters_update() with new lc/lp/pb inside the input
      [] d = "oslice" -> e \in MultiCall /\ e # "microlzma"
      [] d = "l1kind" -> e \in {"raw1", "raw1_buffer"}
      [] d = "limit" -> e = "microlzma"
      [] OTHER -> TRUE

\* a pair (i = a, j = b), i < j, value indices; admissible under entry index ei
PairOKUnder(ei, i, a, j, b) ==
    LET e == Entries[ei] IN
    /\ (i = 1 => a = ei)
    /\ (Applicable(e, i) \/ a = 1)
    /\ (Applicable(e, j) \/ b = 1)
Admissible(i, a, j, b) == \E ei \in 1..NV(1) : PairOKUnder(ei, i, a, j, b)

MaxNV == CHOOSE m \in 1..15 : (\A k \in Dims : NV(k) <= m) /\ (\E k \in Dims : NV(k) = m)

\* a pair (i = a, j = b), i < j, as one integer
Code(i, a, j, b) == ((i * 32 + j) * 16 + a) * 16 + b
CodeI(c) == c \div 8192
CodeJ(c) == (c \div 256) % 32
CodeA(c) == (c \div 16) % 16
CodeB(c) == c % 16
\* every admissible pair (constant, evaluated once by TLC)
AllPairs == {Code(p[1], p[2], p[3], p[4]) :
               p \in {q \in {<<i, a, j, b>> : i \in Dims, a \in 1..MaxNV, j \in Dims, b \in 1..MaxNV} :
                          q[1] < q[3] /\ q[2] <= NV(q[1]) /\ q[4] <= NV(q[3]) /\ Admissible(q[1], q[2], q[3], q[4])}}

VARIABLES unc,      \* codes of the admissible pairs not covered yet
          uses,     \* uses[ei]: plans emitted for entry ei
          nplans,
          asg, cur, \* plan under construction (0 = dimension not decided yet) and the next dimension to decide
          phase,    \* "corners" | "pairs" | "fill" | "done"
          last      \* the plan emitted by the last step (record), for the Emit constraint
vars == <<unc, uses, nplans, asg, cur, phase, last>>


PairsOf(pa) == {Code(i, pa[i], j, pa[j]) : i \in Dims, j \in Dims} \cap AllPairs
\* (i >= j combinations produce codes that are not in AllPairs)

PlanRec(pa) == [k \in {DimNames[d] : d \in Dims} |-> DimVals[DimIdx(k)][pa[DimIdx(k)]]]

\* ---- corner plans: per entry, all applicable dimensions at the first resp. last value
Corner(ei, lastv) == [k \in Dims |-> IF k = 1 THEN ei
                                     ELSE IF Applicable(Entries[ei], k) /\ lastv THEN NV(k) ELSE 1]
NCorners == 2 * NV(1)
CornerAsg(n) == Corner(((n - 1) \div 2) + 1, (n % 2) = 0)      \* n = 1..NCorners

\* ---- greedy fill
Rot(x, k, n) == ((x - 1 + (Seed + 1) * k) % n) + 1                   \* tie-break order rotated by Seed

\* number of still uncovered pairs that value v at dimension k forms with the dimensions fixed in pa (0 = not fixed)
Gain(u, pa, k, v) ==
    Cardinality({j \in Dims : /\ j # k /\ pa[j] # 0
                              /\ IF j < k THEN Code(j, pa[j], k, v) \in u ELSE Code(k, v, j, pa[j]) \in u})

BestVal(u, pa, k) ==
    LET cands == 1..NV(k)
        keys == [v \in cands |-> Gain(u, pa, k, v) * 100 + (99 - Rot(v, k + nplans, NV(k)))]
    IN CHOOSE v \in cands : \A w \in cands : keys[v] >= keys[w]

\* first uncovered pair at or after a pivot that depends on Seed (TLC enumerates a set of integers in increasing order)
Pivot == (Seed * 7919) % 163840
FirstPair(u) ==
    LET hi == {c \in u : c >= Pivot}
        c == IF hi # {} THEN CHOOSE x \in hi : \A y \in hi : x <= y ELSE CHOOSE x \in u : \A y \in u : x <= y
    IN <<CodeI(c), CodeA(c), CodeJ(c), CodeB(c)>>

EntryFor(p) ==   \* least used entry that admits the pair
    LET ok == {ei \in 1..NV(1) : PairOKUnder(ei, p[1], p[2], p[3], p[4])}
    IN CHOOSE ei \in ok : \A x \in ok : uses[ei] * 64 + Rot(ei, 3, NV(1)) <= uses[x] * 64 + Rot(x, 3, NV(1))

Init == /\ unc = AllPairs /\ uses = [ei \in 1..NV(1) |-> 0] /\ nplans = 0 /\ phase = "corners"
        /\ last = [none |-> TRUE] /\ asg = [k \in Dims |-> 0] /\ cur = 0

EmitPlan(a) ==
    /\ unc' = unc \ PairsOf(a)
    /\ uses' = [uses EXCEPT ![a[1]] = @ + 1]
    /\ nplans' = nplans + 1
    /\ last' = PlanRec(a)

StepCorner ==
    /\ phase = "corners"
    /\ EmitPlan(CornerAsg(nplans + 1))
    /\ phase' = IF nplans + 1 = NCorners THEN "pairs" ELSE "corners"
    /\ UNCHANGED <<asg, cur>>

\* start a plan from the first uncovered pair
StepPair ==
    /\ phase = "pairs"
    /\ IF unc = {} \/ (MaxPlans # 0 /\ nplans >= MaxPlans)
       THEN /\ phase' = "done" /\ UNCHANGED <<asg, cur>>
       ELSE LET p == FirstPair(unc)
                ei == EntryFor(p)
            IN /\ asg' = [k \in Dims |-> IF k = 1 THEN ei ELSE IF k = p[1] THEN p[2] ELSE IF k = p[3] THEN p[4] ELSE 0]
               /\ cur' = 2
               /\ phase' = "fill"
    /\ UNCHANGED <<unc, uses, nplans, last>>

\* decide one more dimension (one TLC step each: state variables are values, nothing is re-evaluated lazily)
StepFill ==
    /\ phase = "fill"
    /\ IF cur > ND
       THEN /\ EmitPlan(asg) /\ phase' = "pairs" /\ UNCHANGED <<asg, cur>>
       ELSE /\ asg' = (IF asg[cur] # 0 THEN asg
                       ELSE IF ~Applicable(Entries[asg[1]], cur) THEN [asg EXCEPT ![cur] = 1]
                       ELSE [asg EXCEPT ![cur] = BestVal(unc, asg, cur)])
            /\ cur' = cur + 1
            /\ UNCHANGED <<unc, uses, nplans, last, phase>>

Next == StepCorner \/ StepPair \/ StepFill
Spec == Init /\ [][Next]_vars

\* printed once per emitted plan (ACTION_CONSTRAINT)
Emit == (nplans' # nplans) => PrintT(<<"PLAN", ToJson(last')>>)

\* when the generator stops without a plan limit, every admissible pair is covered
AllCovered == (phase = "done" /\ MaxPlans = 0) => unc = {}
\* every emitted plan respects the applicability rules (non-applicable dimensions pinned)
=============================================================================
