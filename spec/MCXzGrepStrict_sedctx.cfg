SPECIFICATION MCSpec
CONSTANTS MaxOpts = 1  Wide = FALSE  DoFiles = TRUE  Strict = "sedctx"
INVARIANTS StrictInv
CHECK_DEADLOCK FALSE
