SPECIFICATION MCSpec
CONSTANTS MaxOpts = 1  Wide = FALSE  DoFiles = TRUE  Big = FALSE  Strict = "sedctx"
INVARIANTS StrictInv
CHECK_DEADLOCK FALSE
