SPECIFICATION MCSpec
CONSTANTS MaxOpts = 1  Wide = FALSE  DoFiles = TRUE  Cov = FALSE  Big = FALSE  Strict = "sedctx"
INVARIANTS StrictInv
CHECK_DEADLOCK FALSE
