------------------------------ MODULE GenSuffix ------------------------------
(* Replay direction of C19 (names): for every name reached and every custom  *)
(* suffix of $C19_CUSTOMS (plus "no -S"), the results of compressed_name()   *)
(* for xz / lzma / raw, of uncompressed_name() for auto / raw, and of the    *)
(* round trip, are printed; the driver turns the abstract characters into    *)
(* real bytes and runs the real xz on files with these names.                *)
(* Names grow by one character or by one suffix-like token; the tokens only  *)
(* matter for -simulate runs (they make long suffix-bearing names likely),   *)
(* in breadth-first mode every name of length <= MaxLen is reached anyway.   *)
EXTENDS SuffixContract, TLC, Json, IOUtils

CONSTANTS Alpha, MaxLen
VARIABLES name, custom
vars == <<name, custom>>

CustomsFromEnv == LET F == ndJsonDeserialize(IOEnv.C19_CUSTOMS) IN {F[i] : i \in 1..Len(F)}
Tokens == {XZ, TXZ, LZMA, TLZ, LZ, TAR, <<".", "t">>, <<".", "l">>, <<".", "l", "z", "m">>, <<".", "t", "l">>,
           <<".", "t", "x">>, <<".", "x">>, <<"x", "z">>, <<"l", "z">>, <<"z", "m", "a">>}

Init == name = <<>> /\ custom \in CustomsFromEnv \cup {NoCustom}
Next == /\ UNCHANGED custom
        /\ \/ \E c \in Alpha : name' = Append(name, c)
           \/ \E t \in Tokens : name' = name \o t
        /\ Len(name') <= MaxLen
Spec == Init /\ [][Next]_vars

Enc(n, fmt) == IF custom # NoCustom /\ SuffixSet(custom) = "fatal" THEN [kind |-> "fatal"]
               ELSE IF RawNeedsSuffix(fmt, custom, FALSE) THEN [kind |-> "fatal"]
               ELSE CompressedName(n, fmt, custom)
Dec(n, fmt) == IF custom # NoCustom /\ SuffixSet(custom) = "fatal" THEN [kind |-> "fatal"]
               ELSE IF RawNeedsSuffix(fmt, custom, FALSE) THEN [kind |-> "fatal"]
               ELSE UncompressedName(n, fmt, custom)
(* compress, then decompress what was created                                *)
Back(n, fmt) == LET c == Enc(n, fmt) IN
                IF c.kind = "name" THEN Dec(c.name, DecFormat(fmt)) ELSE [kind |-> "none"]
Emit == PrintT(<<"PLAN", ToJson([name |-> name', custom |-> custom,
            cx |-> Enc(name', "xz"), cl |-> Enc(name', "lzma"), cr |-> Enc(name', "raw"),
            da |-> Dec(name', "auto"), dr |-> Dec(name', "raw"),
            bx |-> Back(name', "xz"), bl |-> Back(name', "lzma"), br |-> Back(name', "raw"),
            exc |-> (custom # NoCustom /\ SuffixSet(custom) = "ok" /\ RoundTripException(name', "xz", custom))])>>)
=============================================================================
