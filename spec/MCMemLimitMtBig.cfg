SPECIFICATION SpecMt
CONSTANTS BASE = 2  Slack = 1  Unlimited = 99  Bug = {}
 Needs = {2}  Limits = {1, 3, 4, 5, 7, 9, 99}  MaxUnits = 4
 MtBlocks <- MCBlocks  MtThreads = 3
INVARIANTS InvMtThreadedWithinT InvMtWithinStop InvMtCounters InvMtNeedReported InvMtNoStuck
CHECK_DEADLOCK FALSE
