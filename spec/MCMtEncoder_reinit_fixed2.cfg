SPECIFICATION Spec
CONSTANTS
 MaxUpdates = 0
 MaxReinit = 1 BSChoices = {2} FixBlockSize = TRUE  FixLostWorker = TRUE
 CountCalls = TRUE
 NW = 2  NW0 = 2  NWChoices = {2}  BS = 2  Total = 3  Chunk = 1  HdrSz = 1  TailSz = 2
 Timeout = FALSE  Spurious = FALSE  MayFail = TRUE MayFailMain = FALSE
 Gives = {0, 1, 100}  Spaces = {0, 1, 100}
 FlushActs = {}
 MaxCalls = 6
CONSTRAINT CallBound
VIEW MCView
INVARIANTS ProgressTruthful OrderedOutput BlocksPartitionInput BoundariesOnlyWhereRequested FlushCompletes BarrierCompletes FinishCompletes BufErrorOnlyWhenStarved DocumentedCodes QueueBound EndJoinsAll NoLostWorker InBufFits
