------------------------------- MODULE Delta --------------------------------
(* C15: the Delta filter.  Definition (file format 5.3.3): every byte is     *)
(* replaced by its difference to the byte `dist` positions earlier in the    *)
(* unfiltered data (0 before the start), modulo 256; dist in 1..256.         *)
(* Machine: the transcription of delta_encoder.c / delta_decoder.c: a        *)
(* circular history of 256 bytes indexed by an 8-bit position that counts    *)
(* down, carried across calls.                                               *)
EXTENDS Naturals, Sequences, SequencesExt

DistMin == 1
DistMax == 256

\* ---- definition on whole streams
DeltaEncDef(x, d) == [i \in 1..Len(x) |-> (x[i] + 256 - (IF i > d THEN x[i - d] ELSE 0)) % 256]
DeltaDecDef(y, d) == FoldLeft(LAMBDA acc, i : Append(acc, (y[i] + (IF i > d THEN acc[i - d] ELSE 0)) % 256),
                              <<>>, [i \in 1..Len(y) |-> i])

\* ---- machine: lzma_delta_coder { distance, pos, history[256] }
DeltaInit(d) == [dist |-> d, pos |-> 0, hist |-> [i \in 0..255 |-> 0]]
\* re-initialising a used coder (lzma_delta_coder_init on an existing object): the history is all zeros again
DeltaReinit(old, d) == DeltaInit(d)
\* one byte through copy_and_encode()/encode_in_place(): returns <<state, output byte>>
EncByte(s, b) == LET tmp == s.hist[(s.dist + s.pos) % 256]
                 IN <<[s EXCEPT !.hist = [s.hist EXCEPT ![s.pos] = b], !.pos = (s.pos + 255) % 256], (b + 256 - tmp) % 256>>
\* one byte through decode_buffer()
DecByte(s, b) == LET v == (b + s.hist[(s.dist + s.pos) % 256]) % 256
                 IN <<[s EXCEPT !.hist = [s.hist EXCEPT ![s.pos] = v], !.pos = (s.pos + 255) % 256], v>>
\* a chunk: <<state, output bytes>>
DeltaChunk(enc, s, bytes) ==
    FoldLeft(LAMBDA acc, b : LET r == IF enc THEN EncByte(acc[1], b) ELSE DecByte(acc[1], b)
                             IN <<r[1], Append(acc[2], r[2])>>,
             <<s, <<>>>>, bytes)
\* options accepted by lzma_delta_coder_init (type must be BYTE = 0)
DeltaOptionsOk(type, d) == type = 0 /\ d >= DistMin /\ d <= DistMax
=============================================================================
