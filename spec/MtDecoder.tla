------------------------------ MODULE MtDecoder ------------------------------
(* Threaded .xz decoder: stream_decoder_mt.c + outqueue.c + the part of       *)
(* lzma_code() that converts "no progress" into LZMA_BUF_ERROR.               *)
(*                                                                            *)
(* Shape: one action per critical section (or per unlocked step that touches  *)
(* memory shared with another thread) of the C code; see DESIGN.md A.2.       *)
(* Lock acquisitions are right movers and releases left movers, so a whole    *)
(* critical section is one atomic action; a condition wait is "release+park", *)
(* the wake-up is the next action of that thread.  cond_signal only has an    *)
(* effect on a thread that is parked at that moment (POSIX semantics).        *)
(*                                                                            *)
(* Data abstraction: a Stream is Header, Blocks, Tail (Index+Footer).  A      *)
(* Block has a header size, a compressed size (insz, incl. padding+check),    *)
(* an uncompressed size and optionally a position at which its decoder        *)
(* reports an error.  The worker's Block decoder is the function DecodeStep   *)
(* (model checking) or is bound from the log (trace validation).              *)
(*                                                                            *)
(* State: m = main-thread private (incl. the lzma_code wrapper and the        *)
(* application), c = protected by coder.mutex, t[w] = worker w (fields        *)
(* state/inFilled/partial/sig protected by thr.mutex, the rest worker-private *)
(* or handed over through the mutexes).                                       *)
EXTENDS Naturals, Sequences, FiniteSets, TLC

CONSTANTS NW,          \* threads_max
          HdrSz,       \* Stream Header size (12 in reality)
          Blocks,      \* Seq of [hdr, bh, insz, outsz, errAt, mem]; hdr \in {"ok","bad","direct","badinit"}
                       \* ("bad": the Block Header is rejected when decoded; "badinit": it decodes, but
                       \*  lzma_block_decoder_init() rejects the filter chain, e.g. a misaligned BCJ start offset)
          TailSz,      \* Index + Stream Footer
          TailOk,      \* BOOLEAN: Index/Footer valid
          FileLen,     \* number of bytes of the file that exist (truncation when < full length)
          Chunk,       \* worker gives at most this much input per Block decoder call (16384)
          Timeout,     \* BOOLEAN: timeout > 0
          FailFast,    \* BOOLEAN
          Spurious,    \* BOOLEAN: condition waits may return without a signal
          MemT,        \* memlimit_threading (as given to lzma_stream_decoder_mt; the coder clamps it to memlimit_stop)
          MemStop,     \* memlimit_stop as given to lzma_stream_decoder_mt
          Tell,        \* "none", or the code the LZMA_TELL_* flags produce for this file's Check type after each Stream Header: "NO_CHECK" | "UNSUPPORTED_CHECK" | "GET_CHECK"
          MayFailMain, \* BOOLEAN: an allocation made by the main thread may fail (output buffer, a new thread, a Block decoder, thr->in, the Index hash of the next Stream)
          MaxRaise,    \* how often the application may answer LZMA_MEMLIMIT_ERROR with lzma_memlimit_set()
          OutOvh,      \* sizeof(lzma_outbuf): memory of an output buffer = uncompressed size + OutOvh
          Gives,       \* set of input amounts the application may add per call (model checking)
          Spaces,      \* set of output space grants per call
          Copies,      \* the file is this many identical Streams ...
          Pad,         \* ... each followed by this many bytes of Stream Padding (zeros)
          Concat,      \* BOOLEAN: LZMA_CONCATENATED
          EarlyTailError, \* BOOLEAN: see RunTailEarlyError (TRUE only for trace validation)
          MaxReinit,   \* how often the application may re-initialise the handle without lzma_end()
          CountCalls   \* BOOLEAN: count lzma_code calls (history variable for bounding; FALSE for liveness checking)

W == 1..NW
NB == Len(Blocks)
BufsLimit == 2 * NW

VARIABLES m, c, t
vars == <<m, c, t>>

Min(a, b) == IF a < b THEN a ELSE b
\* memory needed by the filter chain of a Block (coder->mem_next_filters); part of B.mem
FMem(B) == IF "fmem" \in DOMAIN B THEN B.fmem ELSE 0

-----------------------------------------------------------------------------
(* Sequential reference: what lzma_stream_decoder does with the same bytes. *)

\* With LZMA_CONCATENATED the file is Copies identical Streams, each followed by Pad zero bytes.  Blocks are
\* numbered globally: g in 1..Copies*NB; GB(g) is the Block record, CopyOf(g) the (0-based) Stream it is in.
NBT == Copies * NB
GB(g) == Blocks[((g - 1) % NB) + 1]
CopyOf(g) == (g - 1) \div NB
StreamOut == LET S[i \in 0..NB] == IF i = 0 THEN 0 ELSE S[i-1] + Blocks[i].outsz IN S[NB]
StreamData == LET S[i \in 0..NB] == IF i = 0 THEN 0 ELSE S[i-1] + Blocks[i].bh + Blocks[i].insz IN S[NB]
StreamLen == HdrSz + StreamData + TailSz
\* file offset at which Stream k (0-based) starts
StreamOff(k) == k * (StreamLen + Pad)
\* offset of Block g's header in the file; for the position after the last Block of a Stream use TailOff
BlkOff[g \in 1..NBT] ==
    IF (g - 1) % NB = 0 THEN StreamOff(CopyOf(g)) + HdrSz ELSE BlkOff[g-1] + GB(g-1).bh + GB(g-1).insz
TailOff(k) == StreamOff(k) + HdrSz + StreamData
FullLen == Copies * (StreamLen + Pad)

\* Sequential decoding of the first n bytes of the file: [out |-> bytes delivered, ret |-> final code]
\* (LZMA_FINISH at the end of those bytes; with Concat the decoder goes on after a Stream)
\* lim = the decoder's memory usage limit: a Block whose filter chain needs more stops the decoder with
\* LZMA_MEMLIMIT_ERROR after its Block Header (all earlier output delivered)
RECURSIVE StStream(_, _, _, _), StBlocks(_, _, _, _, _)
StBlocks(k, j, n, acc, lim) ==          \* Block j (1-based within Stream k)
    IF j > NB THEN
        IF n < TailOff(k) + TailSz THEN [out |-> acc, ret |-> "BUF_ERROR"]
        ELSE IF ~TailOk THEN [out |-> acc, ret |-> "DATA_ERROR"]
        ELSE IF ~Concat THEN [out |-> acc, ret |-> "STREAM_END"]
        ELSE \* Stream Padding, then possibly the next Stream
             LET padHave == Min(Pad, n - (TailOff(k) + TailSz)) IN
             IF padHave < Pad \/ k + 1 >= Copies \/ n <= StreamOff(k + 1)
             THEN [out |-> acc, ret |-> IF padHave % 4 = 0 THEN "STREAM_END" ELSE "DATA_ERROR"]
             ELSE IF Pad % 4 # 0 THEN [out |-> acc, ret |-> "DATA_ERROR"]
             ELSE StStream(k + 1, n, acc, lim)
    ELSE LET g == k * NB + j  B == GB(g)  off == BlkOff[g] IN
        IF n < off + B.bh THEN [out |-> acc, ret |-> "BUF_ERROR"]
        ELSE IF B.hdr = "bad" THEN [out |-> acc, ret |-> "OPTIONS_ERROR"]
        ELSE IF FMem(B) > lim THEN [out |-> acc, ret |-> "MEMLIMIT_ERROR"]
        ELSE IF B.hdr = "badinit" THEN [out |-> acc, ret |-> "OPTIONS_ERROR"]
        ELSE LET have == Min(B.insz, n - off - B.bh) IN
             IF B.errAt > 0 /\ have >= B.errAt THEN [out |-> acc + ((B.outsz * (B.errAt - 1)) \div (IF B.insz = 0 THEN 1 ELSE B.insz)), ret |-> "DATA_ERROR"]
             ELSE IF have < B.insz THEN [out |-> acc + (IF B.insz = 0 THEN B.outsz ELSE (B.outsz * have) \div B.insz), ret |-> "BUF_ERROR"]
             ELSE StBlocks(k, j + 1, n, acc + B.outsz, lim)
StStream(k, n, acc, lim) ==
    IF n < StreamOff(k) + HdrSz THEN [out |-> acc, ret |-> "BUF_ERROR"] ELSE StBlocks(k, 1, n, acc, lim)

StL(n, lim) == StStream(0, n, 0, lim)

OutAfter(g, j) == IF GB(g).insz = 0 THEN GB(g).outsz ELSE (GB(g).outsz * j) \div GB(g).insz

\* absolute position in the sequential output of the first byte of Block g
OutBase[g \in 1..(NBT+1)] == IF g = 1 THEN 0 ELSE OutBase[g-1] + GB(g-1).outsz

\* The Block decoder of a worker (model checking): consume up to `limit`, at most Chunk per call.
DecodeStep(b, ip, limit) ==
    LET B == GB(b)
        target == Min(limit, ip + Chunk)
    IN IF B.errAt > 0 /\ B.errAt > ip /\ B.errAt <= target
       THEN [ip |-> B.errAt, op |-> OutAfter(b, B.errAt - 1), ret |-> "ERR"]
       ELSE [ip |-> target, op |-> OutAfter(b, target), ret |-> IF target = B.insz THEN "END" ELSE "OK"]

-----------------------------------------------------------------------------
MInit == [pc |-> "out", act |-> "RUN", inAvail |-> 0, given |-> 0, outSpace |-> 0, progress |-> FALSE,
          allowBuf |-> FALSE, delivered |-> 0, lastRet |-> "OK", ended |-> FALSE, calls |-> 0,
          seq |-> "HDR", blk |-> 1, pos |-> 0, thr |-> 0, pendingErr |-> "OK", outWasFilled |-> FALSE,
          waitingAllowed |-> FALSE, rwFrom |-> "none", rwInput |-> FALSE, rwWait |-> FALSE, rwRet |-> "OK",
          canStart |-> FALSE, hasBlocked |-> FALSE, loopI |-> 0, nInit |-> 0, dIn |-> 0, dOut |-> 0,
          orderOk |-> TRUE, copyBad |-> FALSE, space0 |-> 0, reinits |-> 0, copy |-> 0,
          memStop |-> MemStop,               \* coder->memlimit_stop
          memT |-> Min(MemT, MemStop),       \* coder->memlimit_threading (never above memlimit_stop)
          raises |-> 0,
          tells |-> 0,
          progIn |-> 0, progOut |-> 0]       \* ghost: the last values lzma_get_progress() reported (trace validation)                       \* ghost: LZMA_*_CHECK notifications returned so far
CInit == [free |-> <<>>, threadErr |-> "OK", outq |-> <<>>, readPos |-> 0, memInUse |-> 0, sigM |-> FALSE]
TInit == [state |-> "IDLE", inFilled |-> 0, partial |-> "DIS", sig |-> FALSE, pc |-> "none", blk |-> 0,
          inPos |-> 0, outPos |-> 0, snapIn |-> 0, snapPartial |-> "DIS", ret |-> "OK", inBuf |-> "none"]

Init == m = MInit /\ c = CInit /\ t = [w \in W |-> TInit]

\* the sequential reference under the limit currently in force
St(n) == StL(n, m.memStop)

\* pthread_cond_signal(&thr[w].cond): only a parked worker notices.  tt = the t function being built
SigW(tt, w) == [tt EXCEPT ![w].sig = (tt[w].pc = "parked") \/ tt[w].sig]
\* pthread_cond_signal(&coder.cond)
SigM(cc) == [cc EXCEPT !.sigM = (m.pc = "rwpark") \/ cc.sigM]

-----------------------------------------------------------------------------
(* lzma_code(): entry and return                                             *)

\* The application calls lzma_code.  g = new input bytes made available, s = output space.
Call(a, g, s) ==
    /\ m.pc = "out" /\ ~m.ended
    /\ g <= FileLen - m.given
    /\ (a = "FINISH" => m.given + g = FileLen)
    /\ m' = [m EXCEPT !.act = a, !.inAvail = m.inAvail + g, !.given = m.given + g, !.outSpace = s, !.space0 = s,
                      !.progress = FALSE, !.calls = IF CountCalls THEN m.calls + 1 ELSE 0,
                      !.waitingAllowed = ((a = "FINISH") \/ (m.inAvail + g = 0 /\ ~m.outWasFilled)),
                      !.outWasFilled = FALSE, !.hasBlocked = FALSE, !.pc = "run"]
    /\ UNCHANGED <<c, t>>

\* codes that are "something else than LZMA_OK, but not a fatal error": coding may be continued (common.c)
Notifications == {"MEMLIMIT_ERROR", "NO_CHECK", "UNSUPPORTED_CHECK", "GET_CHECK"}

\* return r from stream_decode_mt to lzma_code, which post-processes it (common.c); mm = m being built
Ret(mm, r) ==
    LET r1 == IF r = "OK" /\ ~mm.progress /\ mm.allowBuf THEN "BUF_ERROR"
              ELSE IF r = "TIMED_OUT" THEN "OK" ELSE r
    IN [mm EXCEPT !.lastRet = r1,
                  !.allowBuf = IF r = "OK" THEN ~mm.progress
                               ELSE IF r \in {"TIMED_OUT", "STREAM_END"} \cup Notifications THEN FALSE ELSE mm.allowBuf,
                  \* LZMA_MEMLIMIT_ERROR is not fatal: the application may raise the limit and call again
                  !.ended = (r1 \notin {"OK", "BUF_ERROR"} \cup Notifications),
                  !.pc = "out"]

PendingCode == IF m.pendingErr = "HDRERR" THEN "OPTIONS_ERROR" ELSE IF m.pendingErr = "MEMERR" THEN "MEM_ERROR" ELSE "PROG_ERROR"

-----------------------------------------------------------------------------
(* read_output_and_wait(): one pass of its loop under coder.mutex            *)

\* Drain the queue head(s) into the output buffer: the lzma_outq_read loop.
\* en = workers whose partial output gets enabled (new head, still running, not yet enabled)
RECURSIVE Drain(_, _, _, _, _)
Drain(q, rp, sp, del, en) ==
    IF q = <<>> THEN [q |-> q, rp |-> rp, sp |-> sp, del |-> del, ret |-> "OK", en |-> en]
    ELSE LET h == q[1]
             n == Min(h.pos - rp, sp)
         IN IF ~h.fin \/ rp + n < h.pos
            THEN [q |-> q, rp |-> rp + n, sp |-> sp - n, del |-> del + n, ret |-> "OK", en |-> en]
            ELSE IF h.ret = "END"
                 THEN LET q2 == Tail(q)
                          enable == q2 # <<>> /\ ~q2[1].fin /\ q2[1].partialW # 0
                          en2 == IF enable THEN en \cup {q2[1].partialW} ELSE en
                          q3 == IF enable THEN <<[q2[1] EXCEPT !.partialW = 0]>> \o Tail(q2) ELSE q2
                      IN Drain(q3, 0, sp - n, del + n, en2)
                 ELSE [q |-> Tail(q), rp |-> 0, sp |-> sp - n, del |-> del + n, ret |-> h.ret, en |-> en]

OutqMem(q) == LET S[i \in 0..Len(q)] == IF i = 0 THEN 0 ELSE S[i-1] + GB(q[i].b).outsz + OutOvh IN S[Len(q)]
NextBlockMem == IF m.blk <= (m.copy + 1) * NB THEN GB(m.blk).mem + GB(m.blk).outsz + OutOvh ELSE 0

RWBody ==
    /\ m.pc = "rw"
    /\ LET d == Drain(c.outq, c.readPos, m.outSpace, 0, {})
           filled == (d.sp = 0 /\ d.del > 0)
           inOrder == d.del = 0 \/ (c.outq # <<>> /\ OutBase[c.outq[1].b] + c.readPos = m.delivered)
           t1 == [w \in W |-> IF w \in d.en
                              THEN [t[w] EXCEPT !.partial = "START", !.sig = (t[w].pc = "parked") \/ t[w].sig]
                              ELSE t[w]]
           m1 == [m EXCEPT !.outSpace = d.sp, !.delivered = m.delivered + d.del,
                           !.progress = (m.progress \/ d.del > 0), !.orderOk = (m.orderOk /\ inOrder)]
           stalled == m.thr # 0 /\ t1[m.thr].partial # "DIS" /\ d.q # <<>> /\ d.q[1].dip = t[m.thr].inFilled
       IN
       /\ c' = [c EXCEPT !.outq = d.q, !.readPos = d.rp]
       /\ t' = t1
       /\ IF d.ret # "OK" THEN
              m' = [m1 EXCEPT !.rwRet = d.ret, !.pc = "rwdone"]
          ELSE LET m2 == [m1 EXCEPT !.outWasFilled = (m.outWasFilled \/ filled)] IN
              IF c.threadErr # "OK" /\ FailFast THEN
                  m' = [m2 EXCEPT !.rwRet = c.threadErr, !.pc = "rwdone"]
              ELSE LET m3 == [m2 EXCEPT !.pendingErr = IF c.threadErr # "OK" THEN "FLAG" ELSE m.pendingErr] IN
                  IF m.rwInput /\ m.memT >= c.memInUse + OutqMem(d.q) + NextBlockMem
                        /\ Len(d.q) < BufsLimit /\ (m.nInit < NW \/ c.free # <<>>)
                  THEN m' = [m3 EXCEPT !.canStart = TRUE, !.rwRet = "OK", !.pc = "rwdone"]
                  ELSE IF ~m.rwWait \/ d.q = <<>>
                          \/ (d.rp < d.q[1].pos \/ d.q[1].fin)          \* lzma_outq_is_readable
                          \/ stalled                                     \* last worker is out of input
                  THEN m' = [m3 EXCEPT !.rwRet = "OK", !.pc = "rwdone"]
                  ELSE m' = [m3 EXCEPT !.pc = "rwpark", !.hasBlocked = TRUE]   \* wait on coder.cond

RWWake ==
    /\ m.pc = "rwpark" /\ (c.sigM \/ Spurious)
    /\ m' = [m EXCEPT !.pc = "rw"] /\ c' = [c EXCEPT !.sigM = FALSE] /\ UNCHANGED t

RWTimeout ==
    /\ m.pc = "rwpark" /\ Timeout
    /\ m' = [m EXCEPT !.rwRet = "TIMED_OUT", !.pc = "rwdone"] /\ c' = [c EXCEPT !.sigM = FALSE] /\ UNCHANGED t

\* start read_output_and_wait(input_is_possible != NULL ?, waiting_allowed); mm = m being built
StartRW(mm, from, wantInput, wait) ==
    [mm EXCEPT !.rwFrom = from, !.rwInput = wantInput, !.rwWait = wait, !.canStart = FALSE, !.pc = "rw"]

\* threads_stop(): one critical section (thr.mutex) per initialised thread, then return rwRet
StopStep ==
    /\ m.pc = "stop"
    /\ IF m.loopI < m.nInit
       THEN /\ t' = [t EXCEPT ![m.loopI + 1].state = "IDLE"]
            /\ m' = [m EXCEPT !.loopI = m.loopI + 1]
       ELSE /\ m' = Ret(m, m.rwRet) /\ UNCHANGED t
    /\ UNCHANGED c

\* what the caller of read_output_and_wait does with its result
AfterRW ==
    /\ m.pc = "rwdone"
    /\ m' = IF m.rwRet = "TIMED_OUT" THEN Ret(m, "TIMED_OUT")
            ELSE IF m.rwRet # "OK" THEN [m EXCEPT !.pc = "stop", !.loopI = 0]
            ELSE CASE m.rwFrom = "BLKHDR" ->
                        IF m.pendingErr # "OK" THEN [m EXCEPT !.seq = "ERROR", !.pc = "run"] ELSE Ret(m, "OK")
                   [] m.rwFrom = "THRINIT" ->
                        IF m.pendingErr # "OK" THEN [m EXCEPT !.seq = "ERROR", !.pc = "run"]
                        ELSE IF ~m.canStart THEN Ret(m, "OK")
                        ELSE [m EXCEPT !.pc = "tiget"]
                   [] m.rwFrom = "THRRUN" ->
                        IF m.pendingErr # "OK" THEN [m EXCEPT !.seq = "ERROR", !.pc = "run"]
                        ELSE IF t[m.thr].inFilled < GB(m.blk).insz THEN Ret(m, "OK")
                        ELSE [m EXCEPT !.thr = 0, !.seq = "BLKHDR", !.blk = m.blk + 1, !.pc = "run"]
                   [] m.rwFrom = "DIRECTINIT" ->
                        IF c.outq # <<>> THEN Ret(m, "OK") ELSE [m EXCEPT !.pc = "endsig", !.loopI = 0]
                   [] m.rwFrom = "IDXWAIT" ->
                        IF c.outq # <<>> THEN Ret(m, "OK") ELSE [m EXCEPT !.seq = "IDX", !.pc = "run"]
                   [] m.rwFrom = "MEMSTOP" ->
                        \* pending output first; then the non-fatal LZMA_MEMLIMIT_ERROR (sequence stays SEQ_BLOCK_INIT)
                        IF c.outq # <<>> THEN Ret(m, "OK") ELSE Ret(m, "MEMLIMIT_ERROR")
                   [] m.rwFrom = "ERROR" ->
                        IF c.outq # <<>> THEN Ret(m, "OK") ELSE Ret(m, PendingCode)
    /\ UNCHANGED <<c, t>>

-----------------------------------------------------------------------------
(* stream_decode_mt(): main-thread private steps (no lock held)              *)

FailFastTruncated == [m EXCEPT !.rwRet = "DATA_ERROR", !.pc = "stop", !.loopI = 0]

\* SEQ_BLOCK_DIRECT_RUN: the single-threaded Block decoder called by the main thread.
\* r = [ip, op, ret]: new positions inside the Block and the Block decoder's verdict ("OK" | "END" | "ERR")
DirectRunTo(r) ==
    /\ m.pc = "run" /\ m.seq = "DIRECTRUN" /\ GB(m.blk).hdr # "badinit"
    /\ r.ip >= m.dIn /\ r.ip - m.dIn <= m.inAvail /\ r.op >= m.dOut /\ r.op - m.dOut <= m.outSpace
    /\ LET produce == r.op - m.dOut
           m1 == [m EXCEPT !.inAvail = m.inAvail - (r.ip - m.dIn), !.dIn = r.ip, !.dOut = r.op,
                           !.outSpace = m.outSpace - produce, !.delivered = m.delivered + produce,
                           !.orderOk = (m.orderOk /\ (produce = 0 \/ OutBase[m.blk] + m.dOut = m.delivered)),
                           !.progress = (m.progress \/ produce > 0 \/ r.ip > m.dIn)]
       IN m' = CASE r.ret = "ERR" -> Ret(m1, "DATA_ERROR")
                 [] r.ret = "END" -> [m1 EXCEPT !.seq = "BLKHDR", !.blk = m.blk + 1]
                 [] OTHER -> Ret(m1, "OK")
    /\ UNCHANGED <<c, t>>

\* model checking: a deterministic Block decoder that stops when the output space runs out
DirectStep ==
    LET B == GB(m.blk)
        tgtIn == Min(B.insz, m.dIn + m.inAvail)
        hitErr == B.errAt > 0 /\ B.errAt > m.dIn /\ B.errAt <= tgtIn
        safeIn == IF hitErr THEN B.errAt - 1 ELSE tgtIn     \* consumable without reporting the error
        wantOut == OutAfter(m.blk, safeIn)
        produce == Min(wantOut - m.dOut, m.outSpace)
        blocked == produce < wantOut - m.dOut          \* output space ran out first
    IN [ip |-> IF ~blocked /\ hitErr THEN B.errAt ELSE safeIn, op |-> m.dOut + produce,
        ret |-> IF ~blocked /\ hitErr THEN "ERR" ELSE IF ~blocked /\ safeIn = B.insz THEN "END" ELSE "OK"]

DirectRun == DirectRunTo(DirectStep)

RunOther ==
    /\ m.pc = "run" /\ m.seq # "DIRECTRUN"
    /\ UNCHANGED <<c, t>>
    /\ m' =
       CASE m.seq = "HDR" ->
              LET n == Min(m.inAvail, HdrSz - m.pos)
                  m1 == [m EXCEPT !.inAvail = m.inAvail - n, !.progress = (m.progress \/ n > 0)]
              IN IF m.pos + n < HdrSz THEN Ret([m1 EXCEPT !.pos = m.pos + n], "OK")
                 \* the Check type is known now: tell the application if it asked (once per Stream; decoding continues
                 \* from the Block Header at the next call)
                 ELSE IF Tell # "none" THEN Ret([m1 EXCEPT !.pos = 0, !.seq = "BLKHDR", !.tells = @ + 1], Tell)
                 ELSE [m1 EXCEPT !.pos = 0, !.seq = "BLKHDR"]
         [] m.seq = "BLKHDR" ->
              IF m.inAvail = 0 THEN
                  \* no input: cannot even look at the first byte
                  IF m.act = "FINISH" /\ FailFast THEN FailFastTruncated
                  ELSE StartRW(m, "BLKHDR", FALSE, m.waitingAllowed)
              ELSE IF m.blk > (m.copy + 1) * NB THEN [m EXCEPT !.seq = "IDXWAIT"]          \* Index Indicator
              ELSE LET B == GB(m.blk)
                       n == Min(m.inAvail, B.bh - m.pos)
                       m1 == [m EXCEPT !.inAvail = m.inAvail - n, !.progress = (m.progress \/ n > 0)]
                   IN IF m.pos + n < B.bh THEN
                          IF m.act = "FINISH" /\ FailFast
                          THEN [m1 EXCEPT !.pos = m.pos + n, !.rwRet = "DATA_ERROR", !.pc = "stop", !.loopI = 0]
                          ELSE StartRW([m1 EXCEPT !.pos = m.pos + n], "BLKHDR", FALSE, m.waitingAllowed)
                      ELSE IF B.hdr = "bad" THEN [m1 EXCEPT !.pos = 0, !.pendingErr = "HDRERR", !.seq = "ERROR"]
                      ELSE [m1 EXCEPT !.pos = 0, !.seq = "BLKINIT"]
         [] m.seq = "BLKINIT" ->
              \* SEQ_BLOCK_INIT: first the hard limit (re-evaluated when the application calls again after
              \* lzma_memlimit_set), then threaded or direct mode
              LET B == GB(m.blk) IN
              IF FMem(B) > m.memStop THEN StartRW(m, "MEMSTOP", FALSE, TRUE)
              ELSE IF B.hdr = "direct" \/ B.mem + B.outsz + OutOvh > m.memT THEN [m EXCEPT !.seq = "DIRECTINIT"]
              ELSE [m EXCEPT !.seq = "THRINIT"]
         [] m.seq = "THRINIT" -> StartRW(m, "THRINIT", TRUE, TRUE)
         [] m.seq = "THRRUN" ->
              IF m.act = "FINISH" /\ FailFast /\ m.inAvail < GB(m.blk).insz - t[m.thr].inFilled
              THEN FailFastTruncated
              ELSE [m EXCEPT !.pc = "copy"]
         [] m.seq = "DIRECTINIT" -> StartRW(m, "DIRECTINIT", FALSE, TRUE)
         [] m.seq = "IDXWAIT" -> StartRW(m, "IDXWAIT", FALSE, TRUE)
         [] m.seq = "IDX" ->
              LET n == Min(m.inAvail, TailSz - m.pos)
                  m1 == [m EXCEPT !.inAvail = m.inAvail - n, !.progress = (m.progress \/ n > 0)]
              IN IF m.pos + n < TailSz THEN Ret([m1 EXCEPT !.pos = m.pos + n], "OK")
                 ELSE IF ~TailOk THEN Ret([m1 EXCEPT !.pos = 0], "DATA_ERROR")
                 ELSE IF ~Concat THEN Ret([m1 EXCEPT !.pos = 0], "STREAM_END")
                 ELSE [m1 EXCEPT !.pos = 0, !.seq = "PADDING"]
         [] m.seq = "PADDING" ->
              \* SEQ_STREAM_PADDING: skip zero bytes (pos counts them modulo 4); a non-zero byte starts the next Stream
              LET consumed == m.given - m.inAvail
                  padEnd == StreamOff(m.copy) + StreamLen + Pad
                  n == Min(m.inAvail, padEnd - consumed)
                  m1 == [m EXCEPT !.inAvail = m.inAvail - n, !.progress = (m.progress \/ n > 0), !.pos = (m.pos + n) % 4]
              IN IF m.inAvail - n = 0 THEN
                     \* no more input in this call
                     IF m.act # "FINISH" THEN Ret(m1, "OK")
                     ELSE Ret(m1, IF m1.pos = 0 THEN "STREAM_END" ELSE "DATA_ERROR")
                 ELSE \* the next byte is the first byte of the next Stream Header (non-zero)
                     IF m1.pos # 0 THEN Ret([m1 EXCEPT !.inAvail = @ - 1, !.progress = TRUE], "DATA_ERROR")
                     ELSE [m1 EXCEPT !.pos = 0, !.seq = "HDR", !.copy = m.copy + 1, !.blk = (m.copy + 1) * NB + 1]
         [] m.seq = "ERROR" ->
              IF FailFast THEN Ret(m, PendingCode) ELSE StartRW(m, "ERROR", FALSE, TRUE)

\* Trace validation only: a damaged Index / Stream Footer is reported as soon as the damaged byte has been seen,
\* which can be before the whole tail has arrived (the model otherwise treats the tail as one unit)
RunTailEarlyError ==
    /\ EarlyTailError /\ ~TailOk
    /\ m.pc = "run" /\ m.seq = "IDX" /\ m.inAvail > 0
    /\ m' = Ret([m EXCEPT !.progress = TRUE], "DATA_ERROR")
    /\ UNCHANGED <<c, t>>

Run == RunOther \/ DirectRun \/ RunTailEarlyError

\* SEQ_BLOCK_THR_INIT after read_output_and_wait said the Block can start.
\* coder.mutex sections of stream_decode_mt (memory accounting) and get_thread (pop the free stack)
TiGet ==
    /\ m.pc = "tiget"
    /\ IF c.free # <<>>
       THEN /\ m' = [m EXCEPT !.thr = c.free[1], !.pc = "tisetup"]
            /\ c' = [c EXCEPT !.free = Tail(c.free), !.memInUse = c.memInUse + GB(m.blk).mem]
       ELSE /\ m' = [m EXCEPT !.pc = "ticreate"]
            /\ c' = [c EXCEPT !.memInUse = c.memInUse + GB(m.blk).mem]
    /\ UNCHANGED t

\* An allocation of the main thread fails in SEQ_BLOCK_THR_INIT: threads_stop() and LZMA_MEM_ERROR at once ...
MainFail(mm) == [mm EXCEPT !.rwRet = "MEM_ERROR", !.pc = "stop", !.loopI = 0]
\* ... lzma_outq_prealloc_buf(): after the memory accounting section, before get_thread()
TiGetFailPrealloc ==
    /\ MayFailMain /\ m.pc = "tiget"
    /\ c' = [c EXCEPT !.memInUse = c.memInUse + GB(m.blk).mem]
    /\ m' = MainFail(m) /\ UNCHANGED t
\* ... initialize_new_thread()
TiCreateFail == MayFailMain /\ m.pc = "ticreate" /\ m' = MainFail(m) /\ UNCHANGED <<c, t>>
\* ... thr->in (the worker has been taken from the free stack / created, its Block decoder is initialised)
TiSetupFailIn ==
    /\ MayFailMain /\ m.pc = "tisetup"
    /\ t' = [t EXCEPT ![m.thr] = [@ EXCEPT !.blk = m.blk, !.inBuf = "none", !.ret = "OK"]]
    /\ m' = MainFail(m) /\ UNCHANGED c
\* lzma_block_decoder_init() fails: not returned at once but kept as the pending error, reported after the output of
\* the earlier Blocks (SEQ_ERROR); the worker stays idle and is not returned to the free stack
TiSetupFailDecoder ==
    /\ MayFailMain /\ m.pc = "tisetup"
    /\ m' = [m EXCEPT !.pendingErr = "MEMERR", !.seq = "ERROR", !.pc = "run"]
    /\ UNCHANGED <<c, t>>

\* initialize_new_thread(): mythread_create; the new worker starts at the top of worker_decoder()
TiCreate ==
    /\ m.pc = "ticreate"
    /\ LET w == m.nInit + 1 IN
       /\ m' = [m EXCEPT !.thr = w, !.nInit = w, !.pc = "tisetup"]
       /\ t' = [t EXCEPT ![w] = [TInit EXCEPT !.pc = "check"]]
    /\ UNCHANGED c

\* lzma_block_decoder_init() rejects the filter chain: pending error, SEQ_ERROR; the worker that was taken for the
\* Block stays idle and no output buffer has been queued for it
TiSetupReject ==
    /\ m.pc = "tisetup" /\ GB(m.blk).hdr = "badinit"
    /\ m' = [m EXCEPT !.pendingErr = "HDRERR", !.seq = "ERROR", !.pc = "run"]
    /\ UNCHANGED <<c, t>>

\* no lock: reset the thread's fields, Block decoder init, allocate thr->in, lzma_outq_get_buf
TiSetup ==
    /\ m.pc = "tisetup" /\ GB(m.blk).hdr # "badinit"
    /\ LET w == m.thr IN
       /\ m' = [m EXCEPT !.pc = "tistart"]
       /\ c' = [c EXCEPT !.outq = Append(c.outq, [b |-> m.blk, w |-> w, pos |-> 0, dip |-> 0, fin |-> FALSE,
                                                  ret |-> "END", partialW |-> w])]
       /\ t' = [t EXCEPT ![w] = [@ EXCEPT !.inFilled = 0, !.inPos = 0, !.outPos = 0, !.partial = "DIS",
                                          !.blk = m.blk, !.inBuf = "alloc", !.ret = "OK"]]

\* thr.mutex: state := RUN, signal
TiStart ==
    /\ m.pc = "tistart"
    /\ t' = SigW([t EXCEPT ![m.thr].state = "RUN"], m.thr)
    /\ m' = [m EXCEPT !.pc = "tipartial"]
    /\ UNCHANGED c

\* coder.mutex: lzma_outq_enable_partial_output (nested thr.mutex of the head's worker)
TiPartial ==
    /\ m.pc = "tipartial"
    /\ IF c.outq # <<>> /\ ~c.outq[1].fin /\ c.outq[1].partialW # 0
       THEN LET w == c.outq[1].partialW IN
            /\ t' = SigW([t EXCEPT ![w].partial = "START"], w)
            /\ c' = [c EXCEPT !.outq = <<[c.outq[1] EXCEPT !.partialW = 0]>> \o Tail(c.outq)]
       ELSE UNCHANGED <<c, t>>
    /\ m' = [m EXCEPT !.seq = "THRRUN", !.pc = "run"]

\* lzma_bufcpy into thr->in (no lock).  Writing into a freed buffer is the CVE-2025-31115 shape.
Copy ==
    /\ m.pc = "copy"
    /\ m' = [m EXCEPT !.pc = "publish",
                      !.copyBad = m.copyBad \/ (Min(m.inAvail, GB(m.blk).insz - t[m.thr].inFilled) > 0
                                                /\ t[m.thr].inBuf # "alloc")]
    /\ UNCHANGED <<c, t>>

\* thr.mutex: in_filled := cur, signal; then read_output_and_wait
Publish ==
    /\ m.pc = "publish"
    /\ LET n == Min(m.inAvail, GB(m.blk).insz - t[m.thr].inFilled) IN
       /\ t' = SigW([t EXCEPT ![m.thr].inFilled = @ + n], m.thr)
       /\ m' = StartRW([m EXCEPT !.inAvail = m.inAvail - n, !.progress = (m.progress \/ n > 0)],
                       "THRRUN", FALSE, m.waitingAllowed /\ m.inAvail - n = 0)
    /\ UNCHANGED c

-----------------------------------------------------------------------------
(* threads_end(): used by SEQ_BLOCK_DIRECT_INIT and by lzma_end()             *)

EndSignal ==
    /\ m.pc \in {"endsig", "xendsig", "rendsig"}
    /\ IF m.loopI < m.nInit
       THEN /\ t' = SigW([t EXCEPT ![m.loopI + 1].state = "EXIT"], m.loopI + 1)
            /\ m' = [m EXCEPT !.loopI = m.loopI + 1]
       ELSE /\ m' = [m EXCEPT !.pc = CASE m.pc = "endsig" -> "endjoin" [] m.pc = "xendsig" -> "xendjoin" [] OTHER -> "rendjoin",
                            !.loopI = 0]
            /\ UNCHANGED t
    /\ UNCHANGED c

EndJoin ==
    /\ m.pc \in {"endjoin", "xendjoin", "rendjoin"}
    /\ IF m.loopI < m.nInit
       THEN /\ t[m.loopI + 1].pc = "exited"          \* mythread_join blocks until the worker has returned
            /\ m' = [m EXCEPT !.loopI = m.loopI + 1] /\ UNCHANGED <<c, t>>
       ELSE /\ t' = [w \in W |-> TInit]
            /\ IF m.pc = "rendjoin"
               THEN \* stream_decoder_mt_init() on an existing coder: threads ended, counters, queue (lzma_outq_init:
                    \* heads moved to the cache, read_pos := 0), thread_error, sequence ... start from scratch
                    /\ c' = CInit
                    /\ m' = [MInit EXCEPT !.calls = m.calls, !.reinits = m.reinits, !.raises = m.raises, !.orderOk = m.orderOk, !.copyBad = m.copyBad]
               ELSE /\ c' = [c EXCEPT !.free = <<>>, !.memInUse = 0]
                    /\ m' = IF m.pc = "endjoin"
                            THEN [m EXCEPT !.nInit = 0, !.loopI = 0, !.seq = "DIRECTRUN", !.pc = "run", !.dIn = 0, !.dOut = 0]
                            ELSE [m EXCEPT !.nInit = 0, !.loopI = 0, !.pc = "freed"]

\* SEQ_BLOCK_DIRECT_INIT: lzma_block_decoder_init() rejects the filter chain (returned at once: the queue is empty here)
DirectInitReject ==
    /\ m.pc = "run" /\ m.seq = "DIRECTRUN" /\ GB(m.blk).hdr = "badinit"
    /\ m' = Ret(m, "OPTIONS_ERROR") /\ UNCHANGED <<c, t>>

\* decode_block_header(): lzma_block_header_decode() cannot allocate the filter options: like an unsupported header the
\* error is kept pending and reported after the output of the earlier Blocks
BlkHdrFail ==
    /\ MayFailMain /\ m.pc = "run" /\ m.seq = "BLKHDR" /\ m.blk <= (m.copy + 1) * NB
    /\ m.inAvail >= GB(m.blk).bh - m.pos /\ GB(m.blk).bh - m.pos > 0
    /\ m' = [m EXCEPT !.inAvail = @ - (GB(m.blk).bh - m.pos), !.progress = TRUE, !.pos = 0,
                      !.pendingErr = "MEMERR", !.seq = "ERROR"]
    /\ UNCHANGED <<c, t>>

\* SEQ_BLOCK_DIRECT_INIT: lzma_block_decoder_init() of the main thread's own Block decoder fails (threads already ended)
DirectInitFail ==
    /\ MayFailMain /\ m.pc = "run" /\ m.seq = "DIRECTRUN" /\ m.dIn = 0 /\ m.dOut = 0 /\ m.nInit = 0
    /\ m' = Ret(m, "MEM_ERROR") /\ UNCHANGED <<c, t>>
\* stream_decoder_reset() before the next concatenated Stream: lzma_index_hash_init() fails
NextStreamFail ==
    /\ MayFailMain /\ Concat /\ m.pc = "run" /\ m.seq = "PADDING" /\ m.pos = 0
    /\ m.given - m.inAvail = StreamOff(m.copy) + StreamLen
    /\ m' = Ret(m, "MEM_ERROR") /\ UNCHANGED <<c, t>>

\* The application calls lzma_end() between two lzma_code() calls (any time).
AppEnd ==
    /\ m.pc = "out"
    /\ m' = [m EXCEPT !.pc = "xendsig", !.loopI = 0]
    /\ UNCHANGED <<c, t>>

\* The application gives the same lzma_stream to lzma_stream_decoder_mt() again without lzma_end()
\* (what xz does for the next file): the old threads are ended, everything else is reset, and the file is
\* decoded from its beginning.
\* lzma_memlimit_set(strm, new) after LZMA_MEMLIMIT_ERROR (stream_decoder_mt_memconfig): the new limit must cover
\* the Block that was refused; memlimit_threading is only ever lowered to the new hard limit, never raised
AppRaise(new) ==
    /\ m.pc = "out" /\ m.lastRet = "MEMLIMIT_ERROR" /\ m.raises < MaxRaise
    /\ new >= FMem(GB(m.blk))
    \* (lastRet: the refusal has been answered; it no longer describes the coder's situation)
    /\ m' = [m EXCEPT !.memStop = new, !.memT = Min(m.memT, new), !.raises = @ + 1, !.lastRet = "OK"]
    /\ UNCHANGED <<c, t>>

AppReinit ==
    /\ m.pc = "out" /\ m.reinits < MaxReinit
    /\ m' = [m EXCEPT !.pc = "rendsig", !.loopI = 0, !.reinits = @ + 1]
    /\ UNCHANGED <<c, t>>

-----------------------------------------------------------------------------
(* worker_decoder()                                                          *)

\* lock thr.mutex, look at the state: park / exit / snapshot
WCheck(w) ==
    /\ t[w].pc = "check"
    /\ t' = [t EXCEPT ![w] =
             CASE t[w].state = "IDLE" -> [@ EXCEPT !.pc = "parked"]
               [] t[w].state = "EXIT" -> [@ EXCEPT !.pc = "exited", !.inBuf = "none"]
               [] t[w].state = "RUN" ->
                     IF t[w].inFilled = t[w].inPos /\ t[w].partial # "START"
                     THEN [@ EXCEPT !.pc = "parked"]
                     ELSE [@ EXCEPT !.pc = "decode", !.snapIn = t[w].inFilled, !.snapPartial = t[w].partial]]
    /\ UNCHANGED <<m, c>>

\* return from mythread_cond_wait (signalled, or spuriously)
WWake(w) ==
    /\ t[w].pc = "parked" /\ (t[w].sig \/ Spurious)
    /\ t' = [t EXCEPT ![w].pc = "check", ![w].sig = FALSE]
    /\ UNCHANGED <<m, c>>

\* block_decoder.code() without any lock.  r = [ip, op, ret]
WDecodeTo(w, r) ==
    /\ t[w].pc = "decode"
    /\ t' = [t EXCEPT ![w] = [@ EXCEPT !.inPos = r.ip, !.outPos = r.op, !.ret = r.ret,
                 !.partial = IF r.ret = "OK" /\ t[w].snapPartial # "DIS" THEN "EN" ELSE @,
                 !.pc = IF r.ret = "OK" THEN (IF t[w].snapPartial # "DIS" THEN "wpublish" ELSE "check") ELSE "finthr"]]
    /\ UNCHANGED <<m, c>>

WDecode(w) == WDecodeTo(w, DecodeStep(t[w].blk, t[w].inPos, t[w].snapIn))

\* index in outq of the buffer of Block b (0 if absent)
QIdx(b) == IF \E i \in 1..Len(c.outq) : c.outq[i].b = b THEN CHOOSE i \in 1..Len(c.outq) : c.outq[i].b = b ELSE 0

\* coder.mutex: partial update of outbuf->pos / decoder_in_pos, signal main
WPublish(w) ==
    /\ t[w].pc = "wpublish"
    /\ LET i == QIdx(t[w].blk) IN
       c' = SigM([c EXCEPT !.outq[i] = [@ EXCEPT !.pos = t[w].outPos, !.dip = t[w].inPos]])
    /\ t' = [t EXCEPT ![w].pc = "check"]
    /\ UNCHANGED m

\* thr.mutex: state := IDLE unless EXIT
WFinThr(w) ==
    /\ t[w].pc = "finthr"
    /\ t' = [t EXCEPT ![w].state = IF @ = "EXIT" THEN "EXIT" ELSE "IDLE", ![w].pc = "freein"]
    /\ UNCHANGED <<m, c>>

\* no lock: free thr->in only after LZMA_STREAM_END
WFreeIn(w) ==
    /\ t[w].pc = "freein"
    /\ t' = [t EXCEPT ![w].inBuf = IF t[w].ret = "END" THEN "freed" ELSE @, ![w].pc = "fincoder"]
    /\ UNCHANGED <<m, c>>

\* coder.mutex: mark outbuf finished, report error, return to the free stack only on success, signal main
WFinCoder(w) ==
    /\ t[w].pc = "fincoder"
    /\ LET i == QIdx(t[w].blk)
           ok == t[w].ret = "END"
       IN c' = SigM([c EXCEPT !.outq[i] = [@ EXCEPT !.pos = t[w].outPos, !.dip = t[w].inPos, !.fin = TRUE,
                                                    !.ret = IF ok THEN "END" ELSE "DATA_ERROR"],
                              !.threadErr = IF ~ok /\ c.threadErr = "OK" THEN "DATA_ERROR" ELSE c.threadErr,
                              !.free = IF ok THEN <<w>> \o c.free ELSE c.free,
                              !.memInUse = IF ok THEN c.memInUse - GB(t[w].blk).mem ELSE c.memInUse])
    /\ t' = [t EXCEPT ![w].pc = "check"]
    /\ UNCHANGED m

Worker(w) == WCheck(w) \/ WWake(w) \/ WDecode(w) \/ WPublish(w) \/ WFinThr(w) \/ WFreeIn(w) \/ WFinCoder(w)

Main == RWBody \/ RWWake \/ RWTimeout \/ StopStep \/ AfterRW \/ Run \/ TiGet \/ TiCreate \/ TiSetup \/ TiStart \/ TiPartial \/ Copy \/ Publish
        \/ EndSignal \/ EndJoin \/ TiGetFailPrealloc \/ TiCreateFail \/ TiSetupFailIn \/ TiSetupFailDecoder \/ DirectInitFail \/ NextStreamFail \/ BlkHdrFail \/ TiSetupReject \/ DirectInitReject

App == \/ \E a \in {"RUN", "FINISH"}, g \in Gives, s \in Spaces : Call(a, Min(g, FileLen - m.given), s)
       \/ AppEnd \/ AppReinit \/ (m.lastRet = "MEMLIMIT_ERROR" /\ AppRaise(FMem(GB(m.blk))))

Terminated == m.pc = "freed"
Next == Main \/ (\E w \in W : Worker(w)) \/ App \/ (Terminated /\ UNCHANGED vars)

Spec == Init /\ [][Next]_vars
=============================================================================
