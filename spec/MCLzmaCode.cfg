SPECIFICATION MCSpec
CONSTANTS MaxIn = 2  MaxOut = 2
VIEW MCView
INVARIANTS TypeOK StickyEnd StickyFatal BufErrorNotFatal
PROPERTY Contract
CHECK_DEADLOCK FALSE
