SPECIFICATION MCSpec
CONSTANTS MaxOpts = 1  Wide = TRUE  DoFiles = FALSE  Strict = "none"
INVARIANTS TypeOK ScanContract EarlyExitContract NoPatternContract StatusContract ReadContract NameContract LabelContract StrictInv
CHECK_DEADLOCK FALSE
