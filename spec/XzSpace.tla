-------------------------------- MODULE XzSpace --------------------------------
(* The space of abstract .xz files explored by C03 (model checking and plan     *)
(* generation): valid files from the grammar of the format - including what     *)
(* the project's encoder never writes - and invalid ones obtained by ONE (or,   *)
(* with DevDepth = 2, two) rule violations.  Block data comes from a catalogue  *)
(* of LZMA2 chunk sequences whose byte sizes are the real ones of the           *)
(* concretiser (JSON lines in $C03CAT: [did, chunks]).                          *)
EXTENDS XzFile, TLC, Json, IOUtils

CONSTANTS Profile,      \* "tiny" | "quick" | "thorough": how much of the product is taken
          DevDepth      \* 0: valid files only, 1: + one rule violation, 2: + pairs (in one Block / one Stream)

DataCat == ndJsonDeserialize(IOEnv.C03CAT)
CatChunks(d) == DataCat[d].chunks
DataValid(d) == LET c == CatChunks(d) IN L2Valid(c) /\ EndIndex(c) = Len(c)
AllData == 1..Len(DataCat)
OkData == {d \in AllData : DataValid(d)}
BadData == AllData \ OkData
UncData == {d \in OkData : \A k \in 1..Len(CatChunks(d)) : CatChunks(d)[k].k \in {"unc", "end"}} \ {d \in OkData : Len(CatChunks(d)) = 1}

Chains == << <<F("lzma2", 1)>>,
             <<F("delta", 1), F("lzma2", 1)>>,
             <<F("x86", 0), F("lzma2", 1)>>,
             <<F("delta", 1), F("x86", 4), F("lzma2", 1)>>,
             <<F("arm", 0), F("delta", 1), F("powerpc", 0), F("lzma2", 1)>>,
             <<F("arm64", 4), F("armthumb", 0), F("sparc", 0), F("lzma2", 1)>> >>

(* ---- valid Blocks: a star around the base Block plus some combinations ---- *)
Opt(d, hc, hu, ch, xp) == [d |-> d, hc |-> hc, hu |-> hu, ch |-> ch, xp |-> xp]
BaseD == CHOOSE d \in OkData : \A e \in OkData : d <= e
BaseOpt == Opt(BaseD, FALSE, FALSE, 1, 0)
StarOpts == {BaseOpt}
            \cup {Opt(d, FALSE, FALSE, 1, 0) : d \in OkData}
            \cup {Opt(BaseD, hc, hu, 1, 0) : hc, hu \in BOOLEAN}
            \cup {Opt(BaseD, FALSE, FALSE, ch, 0) : ch \in 1..Len(Chains)}
            \cup {Opt(BaseD, FALSE, FALSE, 1, 4)}
            \* plain (all-uncompressed) data under every chain: the concretiser chooses its content per chain
            \* (convertible BCJ instructions near the end of the data)
            \cup {Opt(d, hc, hc, ch, 0) : d \in UncData, ch \in 2..Len(Chains), hc \in BOOLEAN}
ComboOpts == {Opt(d, TRUE, TRUE, ch, xp) : d \in OkData, ch \in {1, 4}, xp \in {0, 4}}
             \cup {Opt(d, hc, hu, 2, 0) : d \in OkData, hc, hu \in BOOLEAN}
BlockOpts == CASE Profile = "tiny" -> {BaseOpt, Opt(BaseD, TRUE, TRUE, 2, 4)}
               [] Profile = "quick" -> StarOpts
               [] OTHER -> StarOpts \cup ComboOpts
SecondOpts == CASE Profile = "thorough" -> StarOpts [] OTHER -> {BaseOpt, Opt(BaseD, TRUE, TRUE, 2, 4)}
BlockOf(o) == MkBlock(o.d, CatChunks(o.d), o.hc, o.hu, Chains[o.ch], o.xp)

AllChecks == {0, 1, 4, 10, 2, 15}         \* None, CRC32, CRC64, SHA-256, unsupported (4 bytes), unsupported (64 bytes)
Checks == IF Profile = "tiny" THEN {1, 0} ELSE AllChecks
Pads == IF Profile = "thorough" THEN {0, 4, 8} ELSE {0, 4}

BlockLists == {<<>>} \cup {<<BlockOf(o)>> : o \in BlockOpts}
              \cup {<<BlockOf(o), BlockOf(p)>> : o \in BlockOpts, p \in SecondOpts}
SmallLists == {<<>>, <<BlockOf(BaseOpt)>>}
ValidFiles ==
    {[streams |-> <<MkStream(c, bl, p)>>] : c \in Checks, bl \in BlockLists, p \in {0, 4}}
    \cup {[streams |-> <<MkStream(c1, b1, p1), MkStream(c2, b2, p2)>>] :
             c1 \in Checks, c2 \in {1, 0}, b1 \in SmallLists, b2 \in SmallLists \cup {<<BlockOf(BaseOpt), BlockOf(BaseOpt)>>},
             p1 \in Pads, p2 \in {0, 4}}

(* ---- rule violations ---- *)
BlockDevs == {"hsz+4", "hsz-4", "resv", "nofit", "cs_zero", "cs+1", "cs-1", "cs_vli", "us+1", "us-1", "us_vli",
              "cs_over9", "us_over9", "fid_vli", "fid_over9", "fps_vli", "fps_over9", "flast_id_vli", "flast_ps_vli",
              "cs_p32", "cs_p31", "cs_p62", "us_p32", "us_p31", "us_p33", "us_p62",
              "f_unknown", "f_reserved", "f_lzma2_plen", "f_lzma2_pbad", "f_nonlast_plen", "f_bcj_align",
              "f_lzma2_first", "f_last_nonlzma2", "hpadnz", "hcrc", "bpadnz", "chk"}
StreamDevs == {"hmagic", "hcrc", "hvers", "icount+1", "icount-1", "irec_u+1", "irec_u+4", "irec_n+1", "irec_u_small",
               "irec_swap", "irec_cancel", "ivli", "ipadnz", "icrc", "fmagic", "fcrc", "fvers", "fbs+4", "fbs-4", "fcheck",
               "pad+1", "pad+2", "pad+3",
               "icount_p32", "irec_u_p32", "irec_u_p62", "irec_n_p32", "irec_n_p31", "irec_n_p33", "fbs_k1", "fbs_k2", "fbs_k3"}
OtherCheck(c) == IF c = 1 THEN 4 ELSE 1
BigTag(dv) == CASE dv \in {"cs_p31", "us_p31", "irec_n_p31"} -> "p31"
                [] dv \in {"cs_p62", "us_p62", "irec_u_p62"} -> "p62"
                [] dv \in {"us_p33", "irec_n_p33"} -> "p33"
                [] dv = "fbs_k1" -> "k1" [] dv = "fbs_k2" -> "k2" [] dv = "fbs_k3" -> "k3"
                [] OTHER -> "p32"
SetFilter(T, k, f) == [T EXCEPT !.filters[k] = f]
(* applying a violation keeps every OTHER field as it was written (sizes stored elsewhere are not adjusted), *)
(* except where noted: a changed header length moves hpad so that the header stays a multiple of four       *)
Refit(T) == LET t1 == [T EXCEPT !.hpad = Pad4(HdrBody(T)) + (IF T.hpad >= 4 + Pad4(HdrBody(T)) THEN 4 ELSE 0)]
            IN [t1 EXCEPT !.hsz = HdrReal(t1)]
BlockDevOk(T, check, dv) ==
    CASE dv = "hsz-4" -> T.hsz > 8
      [] dv \in {"cs+1", "cs-1", "cs_zero", "cs_vli", "cs_over9", "cs_p32", "cs_p31", "cs_p62"} -> T.cs.p
      [] dv \in {"us+1", "us_vli", "us_over9", "us_p32", "us_p31", "us_p33", "us_p62"} -> T.us.p
      [] dv = "us-1" -> T.us.p /\ T.us.v > 0
      [] dv \in {"f_nonlast_plen", "f_lzma2_first"} -> Len(T.filters) >= 2
      [] dv = "f_bcj_align" -> \E k \in 1..Len(T.filters) : T.filters[k].id \in {"arm64", "arm", "powerpc", "sparc"} /\ T.filters[k].plen = 4
      [] dv = "hpadnz" -> T.hpad > 0
      [] dv = "bpadnz" -> BlockPadLen(T) > 0
      [] dv = "chk" -> CheckSize(check) > 0
      [] dv = "nofit" -> Len(T.filters) >= 2
      [] OTHER -> TRUE
BlockDev(T, dv) ==
    CASE dv = "hsz+4" -> [T EXCEPT !.hsz = T.hsz + 4]
      [] dv = "hsz-4" -> [T EXCEPT !.hsz = T.hsz - 4]
      [] dv = "resv" -> [T EXCEPT !.resv = TRUE]
      [] dv = "nofit" -> [T EXCEPT !.fits = FALSE]
      [] dv = "cs_zero" -> Refit([T EXCEPT !.cs.v = 0, !.cs.big = ""])
      [] dv = "cs+1" -> [T EXCEPT !.cs.v = T.cs.v + 1]
      [] dv = "cs-1" -> [T EXCEPT !.cs.v = T.cs.v - 1]
      [] dv = "cs_vli" -> Refit([T EXCEPT !.cs.vli = FALSE, !.cs.vc = "nonmin"])        \* the TRUE value, encoded one byte longer
      [] dv = "cs_over9" -> Refit([T EXCEPT !.cs.vli = FALSE, !.cs.vc = "over9"])
      [] dv = "us_over9" -> Refit([T EXCEPT !.us.vli = FALSE, !.us.vc = "over9"])
      [] dv = "fid_vli" -> Refit([T EXCEPT !.filters[1].idv = "nonmin"])
      [] dv = "fid_over9" -> Refit([T EXCEPT !.filters[1].idv = "over9"])
      [] dv = "fps_vli" -> Refit([T EXCEPT !.filters[1].psv = "nonmin"])
      [] dv = "fps_over9" -> Refit([T EXCEPT !.filters[1].psv = "over9"])
      [] dv = "flast_id_vli" -> Refit([T EXCEPT !.filters[Len(T.filters)].idv = "nonmin"])
      [] dv = "flast_ps_vli" -> Refit([T EXCEPT !.filters[Len(T.filters)].psv = "nonmin"])
      \* stored sizes that exceed the true ones by a power of two (wrap-around classes), everything else consistent
      [] dv \in {"cs_p32", "cs_p31", "cs_p62"} -> Refit([T EXCEPT !.cs.v = T.cs.v + BigStandIn, !.cs.big = BigTag(dv)])
      [] dv \in {"us_p32", "us_p31", "us_p33", "us_p62"} -> Refit([T EXCEPT !.us.v = T.us.v + BigStandIn, !.us.big = BigTag(dv)])
      [] dv = "us+1" -> [T EXCEPT !.us.v = T.us.v + 1]
      [] dv = "us-1" -> [T EXCEPT !.us.v = T.us.v - 1]
      [] dv = "us_vli" -> Refit([T EXCEPT !.us.vli = FALSE, !.us.vc = "nonmin"])
      [] dv = "f_unknown" -> Refit(SetFilter(T, 1, FX("unknown", T.filters[1].plen, TRUE)))
      [] dv = "f_reserved" -> Refit(SetFilter(T, 1, FX("reserved", T.filters[1].plen, TRUE)))
      [] dv = "f_lzma2_plen" -> Refit(SetFilter(T, Len(T.filters), FX("lzma2", 2, TRUE)))
      [] dv = "f_lzma2_pbad" -> Refit(SetFilter(T, Len(T.filters), FX("lzma2", 1, FALSE)))
      [] dv = "f_nonlast_plen" -> Refit(SetFilter(T, 1, FX(T.filters[1].id, 2, TRUE)))
      [] dv = "f_bcj_align" -> LET k == CHOOSE k \in 1..Len(T.filters) : T.filters[k].id \in {"arm64", "arm", "powerpc", "sparc"} /\ T.filters[k].plen = 4
                               IN SetFilter(T, k, [T.filters[k] EXCEPT !.pok = FALSE])
      [] dv = "f_lzma2_first" -> Refit(SetFilter(T, 1, F("lzma2", 1)))
      [] dv = "f_last_nonlzma2" -> Refit(SetFilter(T, Len(T.filters), F("delta", 1)))
      [] dv = "hpadnz" -> [T EXCEPT !.hpadz = FALSE]
      [] dv = "hcrc" -> [T EXCEPT !.hcrc = FALSE]
      [] dv = "bpadnz" -> [T EXCEPT !.bpadz = FALSE]
      [] OTHER -> [T EXCEPT !.chk = FALSE]
(* other Compressed Data in the place of the old one; the sizes stored in the header and the Index are adjusted *)
DataDev(T, d) == MkBlock(d, CatChunks(d), T.cs.p, T.us.p, T.filters, IF T.hpad >= 4 THEN 4 ELSE 0)
StreamDevOk(T, last, dv) ==
    CASE dv \in {"icount-1", "irec_u+1", "irec_u+4", "irec_n+1", "irec_u_small", "irec_u_p32", "irec_u_p62", "irec_n_p32", "irec_n_p31", "irec_n_p33"} -> Len(T.irecs) >= 1
      [] dv = "irec_swap" -> Len(T.irecs) >= 2 /\ T.irecs[1] # T.irecs[2]
      [] dv = "irec_cancel" -> Len(T.irecs) >= 2
      [] dv = "ipadnz" -> IndexPad(T) > 0
      [] OTHER -> TRUE
Reindex(T) == [T EXCEPT !.fbs = IndexRealMin(T)]
(* VLI number `pos` of the Index (1 = Number of Records, 2k / 2k+1 = the two sizes of Record k) malformed, TRUE value kept *)
IvDev(T, pos, cls) == Reindex([T EXCEPT !.ivli = FALSE, !.ivpos = pos, !.ivcls = cls])
StreamDev(T, dv) ==
    CASE dv = "hmagic" -> [T EXCEPT !.hmagic = FALSE]
      [] dv = "hcrc" -> [T EXCEPT !.hcrc = FALSE]
      [] dv = "hvers" -> [T EXCEPT !.hvers = FALSE]
      [] dv = "icount+1" -> [T EXCEPT !.icount = T.icount + 1, !.irecs = Append(T.irecs, Rec(24, 0))]
      [] dv = "icount-1" -> [T EXCEPT !.icount = T.icount - 1, !.irecs = SubSeq(T.irecs, 1, Len(T.irecs) - 1)]
      [] dv = "irec_u+1" -> [T EXCEPT !.irecs[1].u = T.irecs[1].u + 1]
      [] dv = "irec_u+4" -> [T EXCEPT !.irecs[1].u = T.irecs[1].u + 4]
      [] dv = "irec_n+1" -> [T EXCEPT !.irecs[Len(T.irecs)].n = T.irecs[Len(T.irecs)].n + 1]
      [] dv = "irec_u_small" -> [T EXCEPT !.irecs[1].u = 4, !.irecs[1].ub = ""]
      [] dv = "irec_swap" -> [T EXCEPT !.irecs[1] = T.irecs[2], !.irecs[2] = T.irecs[1]]
      [] dv = "irec_cancel" -> [T EXCEPT !.irecs[1].u = T.irecs[1].u + 4, !.irecs[2].u = T.irecs[2].u - 4,
                                         !.irecs[1].n = T.irecs[1].n + 1, !.irecs[2].n = T.irecs[2].n - 1]
      [] dv = "ivli" -> IvDev(T, 1, "nonmin")
      \* stored values that exceed the true ones by a power of two; the Index (padding, CRC32, Backward Size) is consistent with them
      [] dv = "icount_p32" -> Reindex([T EXCEPT !.icount = T.icount + BigStandIn, !.icb = "p32"])
      [] dv \in {"irec_u_p32", "irec_u_p62"} -> Reindex([T EXCEPT !.irecs[1].u = T.irecs[1].u + BigStandIn, !.irecs[1].ub = BigTag(dv)])
      [] dv \in {"irec_n_p32", "irec_n_p31", "irec_n_p33"} ->
             Reindex([T EXCEPT !.irecs[Len(T.irecs)].n = T.irecs[Len(T.irecs)].n + BigStandIn, !.irecs[Len(T.irecs)].nb = BigTag(dv)])
      \* Backward Size field (32 bits, real = (stored + 1) * 4): stored + k * 2^30, footer CRC32 valid
      [] dv \in {"fbs_k1", "fbs_k2", "fbs_k3"} -> [T EXCEPT !.fbs = T.fbs + BigStandIn, !.fbb = BigTag(dv)]
      [] dv = "ipadnz" -> [T EXCEPT !.ipadz = FALSE]
      [] dv = "icrc" -> [T EXCEPT !.icrc = FALSE]
      [] dv = "fmagic" -> [T EXCEPT !.fmagic = FALSE]
      [] dv = "fcrc" -> [T EXCEPT !.fcrc = FALSE]
      [] dv = "fvers" -> [T EXCEPT !.fvers = FALSE]
      [] dv = "fbs+4" -> [T EXCEPT !.fbs = T.fbs + 4]
      [] dv = "fbs-4" -> [T EXCEPT !.fbs = T.fbs - 4]
      [] dv = "fcheck" -> [T EXCEPT !.fcheck = OtherCheck(T.fcheck)]
      [] dv = "pad+1" -> [T EXCEPT !.pad = T.pad + 1]
      [] dv = "pad+2" -> [T EXCEPT !.pad = T.pad + 2]
      [] OTHER -> [T EXCEPT !.pad = T.pad + 3]
(* "irec_cancel" needs records that stay plausible *)
CancelOk(T) == Len(T.irecs) >= 2 => (T.irecs[2].u >= 9 /\ T.irecs[2].n >= 1)

(* size fields that exceed the truth by a power of two pass the header checks and are caught only when the Block ends: the  *)
(* Index (Unpadded Size counts the now longer header) and the footer are written consistently, so nothing else is wrong      *)
BigBlockDevs == {"cs_p32", "cs_p31", "cs_p62", "us_p32", "us_p31", "us_p33", "us_p62"}
Dev1(f) ==
    {IF dv \in BigBlockDevs
     THEN [f EXCEPT !.streams[s] = MkStream(f.streams[s].check, [f.streams[s].blocks EXCEPT ![b] = BlockDev(f.streams[s].blocks[b], dv)], f.streams[s].pad)]
     ELSE [f EXCEPT !.streams[s].blocks[b] = BlockDev(f.streams[s].blocks[b], dv)] :
        <<s, b, dv>> \in {t \in (1..Len(f.streams)) \X (1..2) \X BlockDevs :
                             /\ t[2] <= Len(f.streams[t[1]].blocks)
                             /\ BlockDevOk(f.streams[t[1]].blocks[t[2]], f.streams[t[1]].check, t[3])}}
    \cup {[f EXCEPT !.streams[s] = MkStream(f.streams[s].check,
                                               [f.streams[s].blocks EXCEPT ![b] = DataDev(f.streams[s].blocks[b], d)], f.streams[s].pad)] :
        <<s, b, d>> \in {t \in (1..Len(f.streams)) \X (1..2) \X BadData : t[2] <= Len(f.streams[t[1]].blocks)}}
    \cup {[f EXCEPT !.streams[s] = IvDev(f.streams[s], pos, cls)] :
        <<s, pos, cls>> \in {t \in (1..Len(f.streams)) \X (1..5) \X {"nonmin", "over9"} : t[2] <= 1 + 2 * Len(f.streams[t[1]].irecs)}}
    \cup {[f EXCEPT !.streams[s] = StreamDev(f.streams[s], dv)] :
        <<s, dv>> \in {t \in (1..Len(f.streams)) \X StreamDevs :
                             /\ StreamDevOk(f.streams[t[1]], t[1] = Len(f.streams), t[2])
                             /\ (t[2] = "irec_cancel" => CancelOk(f.streams[t[1]]))}}
(* bases of the violations: few shapes, every Check class *)
DevBases ==
    LET two == <<BlockOf(Opt(BaseD, TRUE, TRUE, 4, 4)), BlockOf(Opt(CHOOSE d \in OkData : d # BaseD, FALSE, FALSE, 6, 0))>>
        one == <<BlockOf(Opt(BaseD, TRUE, TRUE, 2, 4))>>
    IN {[streams |-> <<MkStream(c, two, 0)>>] : c \in Checks}
       \cup {[streams |-> <<MkStream(c, one, 4), MkStream(1, one, 0)>>] : c \in {1, 0}}
       \cup {[streams |-> <<MkStream(1, <<>>, 0)>>]}
       \* one size field only, plain LZMA2: nothing else in the header constrains the Block
       \cup {[streams |-> <<MkStream(c, <<BlockOf(Opt(BaseD, hc, ~hc, 1, 0))>>, 0)>>] : c \in {1, 0}, hc \in BOOLEAN}
FileSpace0 == ValidFiles
             \cup (IF DevDepth >= 1 THEN UNION {Dev1(f) : f \in DevBases} ELSE {})
             \cup (IF DevDepth >= 2 THEN UNION {UNION {Dev1(g) : g \in Dev1(f)} : f \in {[streams |-> <<MkStream(1, <<BlockOf(Opt(BaseD, TRUE, TRUE, 2, 4))>>, 0)>>]}} ELSE {})
(* only layouts that can be written: a header as written is a multiple of four bytes *)
Writable(f) == /\ \A s \in 1..Len(f.streams) : \A b \in 1..Len(f.streams[s].blocks) : HdrReal(f.streams[s].blocks[b]) % 4 = 0
               \* a malformed Index VLI must be one of the VLIs the Index has (pairs of violations may have removed the Record)
               /\ \A s \in 1..Len(f.streams) : ~f.streams[s].ivli => f.streams[s].ivpos \in 1..(1 + 2 * Len(f.streams[s].irecs))
FileSpace == {f \in FileSpace0 : Writable(f)}
=============================================================================
