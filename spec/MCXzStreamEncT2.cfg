SPECIFICATION MCSpec
CONSTANTS MaxIn = 2  MaxOps = 3  MidRunChunks = TRUE  TinyInput = TRUE  Bugs = {}
 Encs = {"stream", "mt", "raw", "block"}  Grants = {"big"}  Checks = {"crc"}  BSizes = {0, 1}
VIEW MCView
INVARIANTS TypeOK NotBad DecodableLeGiven NoEmptyBlock SeqAgrees
PROPERTY Contract
CHECK_DEADLOCK FALSE
