------------------------------ MODULE IndexBig ------------------------------
(* Natural numbers up to about 2^73 as three limbs <<lo, mid, hi>> in base   *)
(* 2^21 (TLC integers are 32-bit).  lo, mid < 2^21; hi is not bounded by the *)
(* base, so sums of a few values near 2^63 (LZMA_VLI_MAX) are exact and the  *)
(* model never wraps.  21 = 3 * 7, so the variable-length-integer encoding   *)
(* of a value is three 7-bit groups per limb.                                *)
EXTENDS Integers, Sequences

B == 2097152                       \* 2^21

Zero == <<0, 0, 0>>
BigOf(n) == <<n % B, n \div B, 0>>                         \* 0 <= n < 2^31

Add(a, b) == LET l == a[1] + b[1]
                 m == a[2] + b[2] + (l \div B)
             IN  <<l % B, m % B, a[3] + b[3] + (m \div B)>>
AddS(a, n) == Add(a, BigOf(n))

Lt(a, b) == \/ a[3] < b[3]
            \/ a[3] = b[3] /\ (a[2] < b[2] \/ (a[2] = b[2] /\ a[1] < b[1]))
Le(a, b) == a = b \/ Lt(a, b)

\* a - b for a >= b
Sub(a, b) == LET l  == a[1] - b[1]
                 lb == IF l < 0 THEN 1 ELSE 0
                 m  == a[2] - b[2] - lb
                 mb == IF m < 0 THEN 1 ELSE 0
             IN  <<l + lb * B, m + mb * B, a[3] - b[3] - mb>>

\* vli_ceil4(): round up to a multiple of four
Ceil4(a) == LET s == AddS(a, 3) IN <<s[1] - (s[1] % 4), s[2], s[3]>>
Mod4(a) == a[1] % 4

VliMax      == <<B - 1, B - 1, B - 1>>       \* LZMA_VLI_MAX = 2^63 - 1
UnpaddedMax == <<B - 4, B - 1, B - 1>>       \* UNPADDED_SIZE_MAX = LZMA_VLI_MAX & ~3
BackwardMax == <<0, 8192, 0>>                \* LZMA_BACKWARD_SIZE_MAX = 2^34
IsVli(a) == Le(a, VliMax)

\* lzma_vli_size(): number of 7-bit groups (1..9 for valid VLIs)
S7(x) == IF x < 128 THEN 1 ELSE IF x < 16384 THEN 2 ELSE 3
VliSize(a) == IF a[3] # 0 THEN 6 + S7(a[3]) ELSE IF a[2] # 0 THEN 3 + S7(a[2]) ELSE S7(a[1])

\* the bytes of the variable-length encoding (valid VLIs only)
P128(k) == IF k = 0 THEN 1 ELSE IF k = 1 THEN 128 ELSE 16384
Group7(a, k) == (a[(k \div 3) + 1] \div P128(k % 3)) % 128          \* k = 0..8
VliBytes(a) == LET n == VliSize(a)
               IN  [k \in 1..n |-> Group7(a, k - 1) + (IF k < n THEN 128 ELSE 0)]
=============================================================================
