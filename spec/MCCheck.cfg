SPECIFICATION Spec
CONSTANTS
 Alphabet = {0, 1, 128, 255}
 MaxLen = 5
 PieceSizes = {0, 1, 2, 3, 5, 8, 9, 55, 56, 63, 64, 65, 120, 200}
 ShaLens = {0, 1, 54, 55, 56, 57, 63, 64, 65, 119, 120, 128, 130, 200, 260}
INVARIANTS FinalIsDefinition RunningCrcIsPrefixCrc ShaSizeCounts
CHECK_DEADLOCK FALSE
