--------------------------- MODULE FormatFamilies ----------------------------
(* The finite families of files x decoder x flags over which C16 is checked   *)
(* (MCFormats: every slicing) and from which the replayed plans are generated *)
(* (GenFormats).  Sweep selects how many values of the swept fields are taken: *)
(* "core" (one representative per rule), "small", "all"; Profile how many flag *)
(* sets ("quick" | "full" = all 32 subsets where flags matter).                *)
EXTENDS FormatDriver

CONSTANT Profile, Sweep
Full == Profile = "full"
Pick(core, small, all) == CASE Sweep = "core" -> core [] Sweep = "small" -> small [] Sweep = "all" -> all

AllFlags == {"CONCATENATED", "TELL_NO_CHECK", "TELL_UNSUPPORTED_CHECK", "TELL_ANY_CHECK", "IGNORE_CHECK"}
F0 == {{}}
FCat == {{}, {"CONCATENATED"}}
\* what the xz tool passes (without / with --single-stream)
FCli == {{"CONCATENATED", "TELL_UNSUPPORTED_CHECK"}, {"TELL_UNSUPPORTED_CHECK"}}
FCore == {{}, {"CONCATENATED"}, {"TELL_NO_CHECK", "TELL_ANY_CHECK", "CONCATENATED"}, {"TELL_ANY_CHECK", "IGNORE_CHECK"}}
FSome == IF Full THEN SUBSET AllFlags
         ELSE Pick(FCore, FCore \cup {{"TELL_NO_CHECK"}, AllFlags},
                   FCore \cup {{"TELL_NO_CHECK"}, {"TELL_ANY_CHECK", "CONCATENATED"}, {"IGNORE_CHECK"}, AllFlags})
FAll == IF Full THEN SUBSET AllFlags
        ELSE FSome \cup Pick({}, {{"TELL_UNSUPPORTED_CHECK"}}, {{"TELL_UNSUPPORTED_CHECK"}, {"IGNORE_CHECK", "CONCATENATED"},
                                                           {"TELL_UNSUPPORTED_CHECK", "TELL_ANY_CHECK"}})

Cases(fds, apis, fls) == {<<f, a, fl>> : f \in fds, a \in apis, fl \in fls}

(* ------------------------------------------------------------------ .lzma *)
D16 == Pow2W(16)
P0 == 93                       \* lc=3 lp=0 pb=2
PropsSet == Pick({40, 93, 225}, {0, 4, 5, 36, 40, 44, 45, 76, 93, 224, 225, 253, 255}, 0..255)
DictCore == {<<0, 0>>, MaxW, <<5, 0>>, <<6, 0>>, AddW(Pow2W(31), Pow2W(30)), AddW(Pow2W(31), <<1, 0>>)}
DictSmall == DictCore \cup {DecW(MaxW), Pow2W(0), Pow2W(12), Pow2W(25), Pow2W(31), <<7, 0>>, <<1, 1>>,
                            AddW(Pow2W(25), Pow2W(24)), AddW(Pow2W(16), Pow2W(14))}
DictAll ==
    {Pow2W(n) : n \in 0..31} \cup {AddW(Pow2W(n), Pow2W(n - 1)) : n \in 1..31}
    \cup {AddW(Pow2W(n), <<1, 0>>) : n \in {1, 2, 12, 16, 24, 31}}
    \cup {AddW(Pow2W(n), Pow2W(n - 2)) : n \in {2, 3, 16, 20, 31}}
    \cup {AddW(AddW(Pow2W(n), Pow2W(n - 1)), Pow2W(n - 2)) : n \in {2, 16, 30}}
    \cup {DecW(Pow2W(n)) : n \in {3, 12, 16, 17, 24, 31}}
    \cup {<<0, 0>>, MaxW, DecW(MaxW), <<65535, 0>>, <<0, 65535>>, <<4660, 22136>>}
DictSet == Pick(DictCore, DictSmall, DictAll)
PayloadOK(u, n, e, t) ==
    /\ (u = "small" => n > 0)
    /\ (t > 0 => PayloadVerdict(UsizeValue(UszBytes(u, n)), TRUE, n, e).v # "TRUNC")
AloneProps == {AloneDesc(p, D16, "unknown", 2, TRUE, 0, 0) : p \in PropsSet}
AloneDicts == {AloneDesc(P0, d, "unknown", 2, TRUE, 0, 0) : d \in DictSet}
AloneSizes == {AloneDesc(P0, D16, u, n, e, t, 0) : u \in UszClasses, n \in Pick({2}, {0, 2}, {0, 2}), e \in BOOLEAN,
                                                    t \in Pick({0, 3}, {0, 1, 3}, {0, 1, 3})}
AloneSizesOK == {f \in AloneSizes : PayloadOK(f.usz, f.n, f.eopm, f.trail)}
AloneCuts == {AloneDesc(P0, D16, ue[1], 2, ue[2], 0, c) :
                 ue \in {<<"unknown", TRUE>>, <<"exact", TRUE>>, <<"exact", FALSE>>},
                 c \in Pick({1, 10, 13, 22}, {1, 2, 3, 4, 9, 10, 11, 17, 18, 22, 23}, 1..23)}
AloneCutsOK == {f \in AloneCuts : f.cut <= AloneLen(f)}
AloneCases ==
    Cases(AloneProps, {"alone", "auto"}, F0) \cup Cases(AloneProps, {"auto"}, {{"TELL_NO_CHECK"}})
    \cup Cases(AloneDicts, {"alone", "auto"}, F0)
    \cup Cases(AloneSizesOK, {"alone"}, F0) \cup Cases(AloneSizesOK, {"auto"}, FSome)
    \cup Cases(AloneCutsOK, {"alone"}, F0) \cup Cases(AloneCutsOK, {"auto"}, FCat \cup {{"TELL_ANY_CHECK"}})
    \cup Cases({AloneDesc(P0, D16, "unknown", 2, TRUE, 0, 0), AloneDesc(P0, D16, "exact", 2, FALSE, 3, 0)},
               {"lzip", "stream"}, FCat)

(* -------------------------------------------------------------------- .lz *)
M1 == Member(1, 12, 2)
M0 == Member(0, 12, 2)
DsSet == Pick({11, 12, 44, 157}, {0, 11, 12, 13, 25, 26, 29, 30, 44, 58, 61, 157, 253, 255}, 0..255)
LzDs  == {LzipDesc(<<Member(1, ds, 2)>>, <<>>, 0) : ds \in DsSet}
        \cup {LzipDesc(<<Member(0, ds, 2)>>, <<>>, 0) : ds \in Pick({}, {11, 44}, 0..255)}
LzVer == {LzipDesc(<<Member(v, 12, 2)>>, <<>>, 0) : v \in Pick({0, 1, 2}, {0, 1, 2, 255}, {0, 1, 2, 3, 255})}
Faults == Pick({<<0, 0, 0>>, <<1, 0, 0>>, <<0, 1, 0>>, <<0, 0, 1>>, <<0, 0, -1>>},
               {<<0, 0, 0>>, <<1, 0, 0>>, <<0, 1, 0>>, <<0, -1, 0>>, <<0, 0, 1>>, <<0, 0, -1>>, <<1, 1, 1>>},
               {<<c, d, m>> : c \in {0, 1}, d \in {-1, 0, 1}, m \in {-1, 0, 1}})
LzFoot == {LzipDesc(<<[Member(v, 12, n) EXCEPT !.crc = x[1], !.dsz = x[2], !.msz = x[3]]>>, t, 0) :
              v \in {0, 1}, n \in Pick({2}, {0, 2}, {0, 2}), x \in Faults, t \in Pick({<<>>}, {<<>>}, {<<>>, <<88, 89>>})}
LzFootOK == {f \in LzFoot : f.mem[1].n + f.mem[1].dsz >= 0 /\ (f.mem[1].ver = 0 => f.mem[1].msz = 0)}
LzMagic == {LzipDesc(<<[M1 EXCEPT !.magic = mg]>>, <<>>, 0) :
              mg \in Pick({<<76, 90, 88, 80>>}, {<<255, 90, 73, 80>>, <<76, 90, 73, 88>>},
                          {<<255, 90, 73, 80>>, <<76, 88, 73, 80>>, <<76, 90, 88, 80>>, <<76, 90, 73, 88>>, <<76, 90, 73, 112>>})}
TrailsCore == {<<>>, <<88>>, <<76>>, <<76, 90, 73>>, <<76, 90, 73, 88>>, <<76, 90, 73, 80>>, <<76, 90, 73, 80, 2>>}
TrailsAll == TrailsCore \cup {<<0>>, <<88, 89, 90, 87, 86>>, <<76, 90>>, <<76, 88>>, <<76, 90, 88>>,
           <<76, 90, 73, 88, 1, 12>>, <<76, 90, 73, 80, 1>>, <<76, 90, 73, 80, 0, 11>>, <<76, 76, 90, 73, 80>>}
Trails == Pick(TrailsCore, TrailsAll, TrailsAll)
BadSecond == Pick({[M1 EXCEPT !.ver = 2], [M1 EXCEPT !.msz = 1]},
                  {[M1 EXCEPT !.ver = 2], [M1 EXCEPT !.ds = 11], [M1 EXCEPT !.crc = 1], [M1 EXCEPT !.msz = 1]},
                  {[M1 EXCEPT !.ver = 2], [M1 EXCEPT !.ds = 11], [M1 EXCEPT !.crc = 1], [M1 EXCEPT !.msz = 1],
                   [M0 EXCEPT !.dsz = 1], [M1 EXCEPT !.ds = 29]})
LzCat == {LzipDesc(<<a>>, t, 0) : a \in Pick({M1}, {M1, M0}, {M1, M0}), t \in Trails}
         \cup {LzipDesc(<<a, b>>, t, 0) : a \in Pick({M1}, {M1, M0}, {M1, M0}), b \in Pick({M0}, {M1, M0}, {M1, M0}),
                                           t \in Pick({<<>>, <<76, 90>>}, {<<>>, <<88>>, <<76, 90>>}, {<<>>, <<88>>, <<76, 90>>, <<76, 90, 73, 80>>})}
         \cup {LzipDesc(<<M1, b>>, <<>>, 0) : b \in BadSecond}
         \cup Pick({}, {}, {LzipDesc(<<M1, M0, M1>>, <<76, 90, 73, 0>>, 0)})
LzCutSet == Pick({1, 13, 20, 21, 33, 36}, {1, 2, 8, 9, 12, 13, 19, 20, 21, 26, 29, 30, 32, 33, 34, 35, 36}, 1..40)
LzCuts == {LzipDesc(<<m>>, <<>>, c) : m \in Pick({M1}, {M1, M0}, {M1, M0}), c \in LzCutSet}
          \cup {LzipDesc(<<M1, M1>>, <<>>, c) : c \in LzCutSet}
LzCutsOK == {f \in LzCuts : f.cut <= Len(FullTokens(f))}
LzipCases ==
    Cases(LzDs \cup LzVer \cup LzMagic, {"lzip", "auto"}, F0)
    \cup Cases(LzVer \cup LzMagic, {"lzip", "auto"}, {{"TELL_ANY_CHECK", "CONCATENATED"}, {"TELL_NO_CHECK"}})
    \cup Cases(LzFootOK, {"lzip", "auto"}, {{}, {"CONCATENATED"}, {"IGNORE_CHECK"}, {"IGNORE_CHECK", "CONCATENATED"}})
    \cup Cases(LzCat, {"lzip", "auto"}, FSome)
    \cup Cases(LzCutsOK, {"lzip", "auto"}, FCat \cup {{"TELL_ANY_CHECK", "CONCATENATED"}})
    \cup Cases({LzipDesc(<<M1>>, <<>>, 0), LzipDesc(<<M1>>, <<>>, 30)}, {"alone", "stream"}, FCat)

(* -------------------------------------------------------------------- .xz *)
S(check, pad) == XzStream(check, 2, pad)
PadSet == Pick(0..5, 0..9, 0..9)
XzPads == {XzDesc(<<S(1, p)>>, <<>>, 0) : p \in PadSet}
          \cup {XzDesc(<<S(1, p), S(1, q)>>, <<>>, 0) : p \in PadSet, q \in Pick({0}, {0, 4}, {0, 4})}
          \cup {XzDesc(<<S(1, p), S(0, q)>>, <<>>, 0) : p \in Pick({4}, {0, 4}, {0, 4}), q \in PadSet}
          \cup Pick({}, {}, {XzDesc(<<S(1, 4), S(1, 0), S(0, 8)>>, <<>>, 0)})
XzChecks == {XzDesc(<<[S(c, 0) EXCEPT !.cbad = b]>>, <<>>, 0) : c \in {0, 1, 2}, b \in BOOLEAN}
            \cup {XzDesc(<<S(c, 0), [S(d, 4) EXCEPT !.cbad = b]>>, <<>>, 0) :
                     c \in Pick({1}, {0, 1, 2}, {0, 1, 2}), d \in {0, 1, 2}, b \in BOOLEAN}
XzChecksOK == {f \in XzChecks : \A k \in 1..Len(f.str) : f.str[k].cbad => f.str[k].check # 0}
XzHdr == {XzDesc(<<[S(1, 0) EXCEPT !.hdr = 1]>>, <<>>, 0), XzDesc(<<S(1, 0), [S(1, 0) EXCEPT !.hdr = 1]>>, <<>>, 0),
          XzDesc(<<S(1, 4), [S(0, 0) EXCEPT !.hdr = 1], S(1, 0)>>, <<>>, 0)}
Garbage(n) == [j \in 1..n |-> 87 + j]
XzTrail == {XzDesc(<<S(1, p)>>, Garbage(g), 0) : p \in Pick({0, 3}, {0, 3, 4}, {0, 3, 4}), g \in Pick({1, 11, 12}, {1, 2, 11, 12, 13}, {1, 2, 11, 12, 13})}
XzCuts == {XzDesc(<<S(1, 0)>>, <<>>, c) : c \in Pick({1, 12, 13, 21, 32}, {1, 2, 11, 12, 13, 16, 20, 21, 22, 31, 32}, 1..32)}
XzCases ==
    Cases(XzPads \cup XzHdr \cup XzTrail, {"stream", "auto"}, FCat \cup Pick({}, FCli, FCli))
    \cup Cases(XzChecksOK, {"stream", "auto"}, FAll \cup Pick({}, FCli, FCli))
    \cup Cases(XzCuts, {"stream", "auto"}, FCat \cup {{"TELL_ANY_CHECK"}})
    \cup Cases({XzDesc(<<S(1, 0)>>, <<>>, 0)}, {"alone", "lzip"}, FCat)

AllCases == AloneCases \cup LzipCases \cup XzCases
Modes == {"finish", "rtf"}
=============================================================================
