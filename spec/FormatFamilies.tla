--------------------------- MODULE FormatFamilies ----------------------------
(* The finite families of files x decoder x flags over which C16 is checked   *)
(* (MCFormats: every slicing) and from which the replayed plans are generated *)
(* (GenFormats).  Profile selects the bounds.                                  *)
EXTENDS FormatDriver

CONSTANT Profile           \* "quick" | "full"
Full == Profile = "full"

AllFlags == {"CONCATENATED", "TELL_NO_CHECK", "TELL_UNSUPPORTED_CHECK", "TELL_ANY_CHECK", "IGNORE_CHECK"}
F0 == {{}}
FCat == {{}, {"CONCATENATED"}}
FTell == {{}, {"CONCATENATED"}, {"TELL_NO_CHECK"}, {"TELL_ANY_CHECK"}, {"TELL_NO_CHECK", "TELL_ANY_CHECK", "CONCATENATED"},
          {"TELL_UNSUPPORTED_CHECK"}, {"IGNORE_CHECK", "CONCATENATED"}, {"TELL_UNSUPPORTED_CHECK", "TELL_ANY_CHECK"},
          AllFlags}
FAll == IF Full THEN SUBSET AllFlags ELSE FTell

Cases(fds, apis, fls) == {<<f, a, fl>> : f \in fds, a \in apis, fl \in fls}

(* ------------------------------------------------------------------ .lzma *)
D16 == Pow2W(16)
P0 == 93                       \* lc=3 lp=0 pb=2
DictSet ==
    {Pow2W(n) : n \in 0..31} \cup {AddW(Pow2W(n), Pow2W(n - 1)) : n \in 1..31}
    \cup {AddW(Pow2W(n), <<1, 0>>) : n \in {1, 2, 12, 16, 24, 31}}
    \cup {AddW(Pow2W(n), Pow2W(n - 2)) : n \in {2, 3, 16, 20, 31}}
    \cup {AddW(AddW(Pow2W(n), Pow2W(n - 1)), Pow2W(n - 2)) : n \in {2, 16, 30}}
    \cup {DecW(Pow2W(n)) : n \in {3, 12, 16, 17, 24, 31}}
    \cup {<<0, 0>>, MaxW, DecW(MaxW), <<65535, 0>>, <<0, 65535>>, <<4660, 22136>>}
PayloadOK(u, n, e, t) ==
    /\ (u = "small" => n > 0)
    /\ (t > 0 => PayloadVerdict(UsizeValue(UszBytes(u, n)), TRUE, n, e).v # "TRUNC")
AloneProps == {AloneDesc(p, D16, "unknown", 2, TRUE, 0, 0) : p \in 0..255}
AloneDicts == {AloneDesc(P0, d, "unknown", 2, TRUE, 0, 0) : d \in DictSet}
AloneSizes == {AloneDesc(P0, D16, u, n, e, t, 0) : u \in UszClasses, n \in {0, 2}, e \in BOOLEAN, t \in {0, 1, 3}}
AloneSizesOK == {f \in AloneSizes : PayloadOK(f.usz, f.n, f.eopm, f.trail)}
AloneCuts == {AloneDesc(P0, D16, ue[1], 2, ue[2], 0, c) :
                 ue \in {<<"unknown", TRUE>>, <<"exact", TRUE>>, <<"exact", FALSE>>}, c \in 1..23}
AloneCutsOK == {f \in AloneCuts : f.cut <= AloneLen(f)}
AloneCases ==
    Cases(AloneProps, {"alone", "auto"}, F0) \cup Cases(AloneProps, {"auto"}, {{"TELL_NO_CHECK"}})
    \cup Cases(AloneDicts, {"alone", "auto"}, F0)
    \cup Cases(AloneSizesOK, {"alone"}, F0) \cup Cases(AloneSizesOK, {"auto"}, FAll)
    \cup Cases(AloneCutsOK, {"alone"}, F0) \cup Cases(AloneCutsOK, {"auto"}, FCat \cup {{"TELL_ANY_CHECK"}})
    \cup Cases({AloneDesc(P0, D16, "unknown", 2, TRUE, 0, 0), AloneDesc(P0, D16, "exact", 2, FALSE, 3, 0)},
               {"lzip", "stream"}, FCat)

(* -------------------------------------------------------------------- .lz *)
M1 == Member(1, 12, 2)
M0 == Member(0, 12, 2)
LzDs  == {LzipDesc(<<Member(v, ds, 2)>>, <<>>, 0) : ds \in 0..255, v \in {1}}
        \cup {LzipDesc(<<Member(0, ds, 2)>>, <<>>, 0) : ds \in {11, 12, 44, 29, 30, 157}}
LzVer == {LzipDesc(<<Member(v, 12, 2)>>, <<>>, 0) : v \in {0, 1, 2, 3, 255}}
LzFoot == {LzipDesc(<<[Member(v, 12, n) EXCEPT !.crc = c, !.dsz = d, !.msz = m]>>, t, 0) :
              v \in {0, 1}, n \in {0, 2}, c \in {0, 1}, d \in {-1, 0, 1}, m \in {-1, 0, 1}, t \in {<<>>, <<88, 89>>}}
LzFootOK == {f \in LzFoot : f.mem[1].n + f.mem[1].dsz >= 0 /\ (f.mem[1].ver = 0 => f.mem[1].msz = 0)}
LzMagic == {LzipDesc(<<[M1 EXCEPT !.magic = mg]>>, <<>>, 0) :
              mg \in {<<255, 90, 73, 80>>, <<76, 88, 73, 80>>, <<76, 90, 88, 80>>, <<76, 90, 73, 88>>, <<76, 90, 73, 112>>}}
Trails == {<<>>, <<88>>, <<0>>, <<88, 89, 90, 87, 86>>, <<76>>, <<76, 90>>, <<76, 90, 73>>, <<76, 88>>, <<76, 90, 88>>,
           <<76, 90, 73, 88>>, <<76, 90, 73, 88, 1, 12>>, <<76, 90, 73, 80>>, <<76, 90, 73, 80, 2>>,
           <<76, 90, 73, 80, 1>>, <<76, 90, 73, 80, 0, 11>>, <<76, 76, 90, 73, 80>>}
BadSecond == {[M1 EXCEPT !.ver = 2], [M1 EXCEPT !.ds = 11], [M1 EXCEPT !.crc = 1], [M1 EXCEPT !.msz = 1],
              [M0 EXCEPT !.dsz = 1], [M1 EXCEPT !.ds = 29]}
LzCat == {LzipDesc(<<a>>, t, 0) : a \in {M1, M0}, t \in Trails}
         \cup {LzipDesc(<<a, b>>, t, 0) : a \in {M1, M0}, b \in {M1, M0}, t \in {<<>>, <<88>>, <<76, 90>>, <<76, 90, 73, 80>>}}
         \cup {LzipDesc(<<M1, b>>, <<>>, 0) : b \in BadSecond}
         \cup {LzipDesc(<<M1, M0, M1>>, <<76, 90, 73, 0>>, 0)}
LzCuts == {LzipDesc(<<m>>, <<>>, c) : m \in {M1, M0}, c \in 1..36} \cup {LzipDesc(<<M1, M1>>, <<>>, c) : c \in 1..40}
LzCutsOK == {f \in LzCuts : f.cut <= Len(FullTokens(f))}
LzipCases ==
    Cases(LzDs \cup LzVer \cup LzMagic, {"lzip", "auto"}, F0)
    \cup Cases(LzVer \cup LzMagic, {"lzip", "auto"}, {{"TELL_ANY_CHECK", "CONCATENATED"}, {"TELL_NO_CHECK"}})
    \cup Cases(LzFootOK, {"lzip", "auto"}, {{}, {"CONCATENATED"}, {"IGNORE_CHECK"}, {"IGNORE_CHECK", "CONCATENATED"}})
    \cup Cases(LzCat, {"lzip", "auto"}, FAll)
    \cup Cases(LzCutsOK, {"lzip", "auto"}, FCat \cup {{"TELL_ANY_CHECK", "CONCATENATED"}})
    \cup Cases({LzipDesc(<<M1>>, <<>>, 0), LzipDesc(<<M1>>, <<>>, 30)}, {"alone", "stream"}, FCat)

(* -------------------------------------------------------------------- .xz *)
S(check, pad) == XzStream(check, 2, pad)
XzPads == {XzDesc(<<S(1, p)>>, <<>>, 0) : p \in 0..9}
          \cup {XzDesc(<<S(1, p), S(1, q)>>, <<>>, 0) : p \in 0..9, q \in {0, 4}}
          \cup {XzDesc(<<S(1, p), S(0, q)>>, <<>>, 0) : p \in {0, 4}, q \in 0..9}
          \cup {XzDesc(<<S(1, 4), S(1, 0), S(0, 8)>>, <<>>, 0)}
XzChecks == {XzDesc(<<[S(c, 0) EXCEPT !.cbad = b]>>, <<>>, 0) : c \in {0, 1, 2}, b \in BOOLEAN}
            \cup {XzDesc(<<S(c, 0), [S(d, 4) EXCEPT !.cbad = b]>>, <<>>, 0) : c \in {0, 1, 2}, d \in {0, 1, 2}, b \in BOOLEAN}
XzChecksOK == {f \in XzChecks : \A k \in 1..Len(f.str) : f.str[k].cbad => f.str[k].check # 0}
XzHdr == {XzDesc(<<[S(1, 0) EXCEPT !.hdr = 1]>>, <<>>, 0), XzDesc(<<S(1, 0), [S(1, 0) EXCEPT !.hdr = 1]>>, <<>>, 0),
          XzDesc(<<S(1, 4), [S(0, 0) EXCEPT !.hdr = 1], S(1, 0)>>, <<>>, 0)}
Garbage(n) == [j \in 1..n |-> 87 + j]
XzTrail == {XzDesc(<<S(1, p)>>, Garbage(g), 0) : p \in {0, 3, 4}, g \in {1, 2, 11, 12, 13}}
XzCuts == {XzDesc(<<S(1, 0)>>, <<>>, c) : c \in 1..32}
XzCases ==
    Cases(XzPads \cup XzHdr \cup XzTrail, {"stream", "auto"}, FCat)
    \cup Cases(XzChecksOK, {"stream", "auto"}, FAll)
    \cup Cases(XzCuts, {"stream", "auto"}, FCat \cup {{"TELL_ANY_CHECK"}})
    \cup Cases({XzDesc(<<S(1, 0)>>, <<>>, 0)}, {"alone", "lzip"}, FCat)

AllCases == AloneCases \cup LzipCases \cup XzCases
Modes == {"finish", "rtf"}
=============================================================================
