SPECIFICATION Spec
INVARIANTS FlagsAccumulate StdoutImpliesKeep ModeLastWins SuffixPrecedence FormatPrecedence FatalExact
CHECK_DEADLOCK FALSE
