----------------------------- MODULE MCLzmaSniff -----------------------------
(* LzmaSniff against its specification over the header domain: every         *)
(* properties byte; dictionary sizes 2^n, 2^n + 2^(n-1) for all n, their     *)
(* neighbours and other two/three-bit patterns, 0, UINT32_MAX, every value   *)
(* below 4096; uncompressed sizes around the 256 GiB bound and unknown.      *)
(* The same domain is printed as plans for the replay into xz.               *)
EXTENDS LzmaSniff, TLC, Json
VARIABLES props, dict, usize, len
vars == <<props, dict, usize, len>>

Near == UNION {{P2(n), Inc(P2(n)), Dec(P2(n))} : n \in 0..31}
        \cup UNION {{AddL(P2(n), P2(n - 1)), Inc(AddL(P2(n), P2(n - 1))), Dec(AddL(P2(n), P2(n - 1)))} : n \in 1..31}
        \cup {AddL(P2(n), P2(n - 2)) : n \in 2..31}
        \cup {AddL(AddL(P2(n), P2(n - 1)), P2(n - 2)) : n \in 2..31}
        \cup {ZERO32, MAX32, Dec(MAX32)}
Small == {[hi |-> 0, lo |-> x] : x \in 0..4095}
Sizes == {MAX64, <<0, 0, 0, 0>>, <<0, 0, 0, 700>>, <<0, 63, W - 1, W - 1>>, <<0, 64, 0, 0>>, <<0, 64, 0, 1>>,
          <<1, 0, 0, 0>>, <<W - 1, W - 1, W - 1, W - 2>>}
Init == \/ props \in 0..255 /\ dict = P2(23) /\ usize \in {MAX64, <<0, 0, 0, 700>>} /\ len = 13
        \/ props = 93 /\ dict \in Near \cup Small /\ usize = MAX64 /\ len = 13
        \/ props \in {93, 0} /\ dict \in {P2(12), AddL(P2(20), P2(19)), Inc(P2(16))} /\ usize \in Sizes /\ len = 13
        \/ props = 93 /\ dict = P2(16) /\ usize = MAX64 /\ len \in {0, 5, 12, 13}
Next == UNCHANGED vars
Spec == Init /\ [][Next]_vars

Agrees == IsFormatLzma(len, props, dict, usize) <=> (len >= 13 /\ PropsSpec(props) /\ DictSpec(dict) /\ SizeSpec(usize))
Emit == dict \notin Small \ Near =>
            PrintT(<<"PLAN", ToJson([props |-> props, dict |-> dict, usize |-> usize, len |-> len,
                                     sniff |-> IsFormatLzma(len, props, dict, usize)])>>)
(* non-vacuity: both kinds of dictionary size are accepted somewhere (each must be violated) *)
NeverThreeQuarter == ~(\E n \in 1..31 : dict = AddL(P2(n), P2(n - 1)) /\ IsFormatLzma(len, props, dict, usize))
=============================================================================
