SPECIFICATION Spec
CONSTRAINT Emit
CHECK_DEADLOCK FALSE
