------------------------------ MODULE XzStreamDec ------------------------------
(* Operational model of the .xz Stream decoder (C03, C05): one action per       *)
(* `case SEQ_*` of stream_decoder.c, with block_header_decoder.c,               *)
(* filter_flags_decoder.c, filter_common.c (chain validation), block_decoder.c  *)
(* (SEQ_CODE / SEQ_PADDING / SEQ_CHECK, is_size_valid), index_hash.c and        *)
(* stream_flags_decoder.c / stream_flags_common.c transcribed into the actions. *)
(* The input is an abstract file (XzFile.tla), all of it available to the first *)
(* lzma_code(LZMA_FINISH) call, output space unlimited; `limit` < real size     *)
(* models a truncated file.  The LZMA2 layer is Lzma2.tla (L2Run).              *)
(*                                                                              *)
(* Observables: ret (final return value of the lzma_code loop), tells (the      *)
(* LZMA_NO_CHECK / LZMA_UNSUPPORTED_CHECK / LZMA_GET_CHECK returns on the way), *)
(* out (data ids of the Blocks whose data was delivered, in order), partial     *)
(* (data of one more Block may have been delivered in part), pos (total_in).    *)
EXTENDS XzFile, TLC

VARIABLES file,    \* the abstract file being decoded (constant during a behaviour)
          flags,   \* [concat, tellNo, tellUnsup, tellAny, ignoreCheck : BOOLEAN]  (lzma_stream_decoder flags)
          limit,   \* number of bytes of the file that exist (FileReal(file) unless truncated)
          seq,     \* coder->sequence: "STREAM_HEADER" "BLOCK_HEADER" "BLOCK_INIT" "BLOCK_CODE" "BLOCK_PADDING"
                   \*   "BLOCK_CHECK" "INDEX" "STREAM_FOOTER" "STREAM_PADDING" | "END"
          si, bi,  \* Stream being decoded (1-based), Blocks of it completely decoded so far
          pos,     \* bytes consumed (strm->total_in)
          first,   \* coder->first_stream
          ret,     \* "run" | final return code
          tells, out, partial,
          ih       \* index_hash->blocks: [bsum, usum, cnt, lsize, recs]
dvars == <<file, flags, limit, seq, si, bi, pos, first, ret, tells, out, partial, ih>>

S == file.streams[si]
B == S.blocks[bi + 1]
IhInit == [bsum |-> 0, usum |-> 0, cnt |-> 0, lsize |-> 0, recs |-> <<>>]
(* hash_append(): sums + running hash (modelled as the exact sequence: no collisions assumed) *)
IhAppend(h, u, n) == [bsum |-> h.bsum + Ceil4(u), usum |-> h.usum + n, cnt |-> h.cnt + 1,
                      lsize |-> h.lsize + VliLen(u) + VliLen(n), recs |-> Append(h.recs, <<u, n>>)]
(* index.h index_size(): Index Indicator + Number of Records + List of Records + padding + CRC32 *)
IndexSizeOf(cnt, lsize) == Ceil4(1 + VliLen(cnt) + lsize) + 4

DecInit(f, fl, lim) ==
    /\ file = f /\ flags = fl /\ limit = lim
    /\ seq = "STREAM_HEADER" /\ si = 1 /\ bi = 0 /\ pos = 0 /\ first = TRUE
    /\ ret = "run" /\ tells = <<>> /\ out = <<>> /\ partial = FALSE /\ ih = IhInit

Have(n) == pos + n <= limit
(* the decoder asked for bytes that do not exist: stream_decode() returns LZMA_OK without    *)
(* progress, lzma_code() turns the second such call into LZMA_BUF_ERROR                       *)
Starve == /\ ret' = "BUF_ERROR" /\ pos' = limit
          /\ UNCHANGED <<file, flags, limit, seq, si, bi, first, tells, out, partial, ih>>
Fail(code) == /\ ret' = code
              /\ UNCHANGED <<file, flags, limit, seq, si, bi, first, tells, out, partial, ih>>

(* ---- SEQ_STREAM_HEADER: lzma_stream_header_decode() + the LZMA_TELL_* returns ---- *)
HeaderRet(T) == IF ~T.hmagic THEN "FORMAT_ERROR"
                ELSE IF ~T.hcrc THEN "DATA_ERROR"
                ELSE IF ~T.hvers THEN "OPTIONS_ERROR" ELSE "OK"
StreamHeader ==
    /\ ret = "run" /\ seq = "STREAM_HEADER"
    /\ IF ~Have(12) THEN Starve
       ELSE LET r == HeaderRet(S) IN
            IF r # "OK"
            THEN /\ Fail(IF r = "FORMAT_ERROR" /\ ~first THEN "DATA_ERROR" ELSE r) /\ pos' = pos + 12
            ELSE /\ pos' = pos + 12 /\ first' = FALSE /\ seq' = "BLOCK_HEADER"
                 /\ tells' = IF flags.tellNo /\ S.check = 0 THEN Append(tells, "NO_CHECK")
                             ELSE IF flags.tellUnsup /\ ~CheckSupported(S.check) THEN Append(tells, "UNSUPPORTED_CHECK")
                             ELSE IF flags.tellAny THEN Append(tells, "GET_CHECK") ELSE tells
                 /\ UNCHANGED <<file, flags, limit, si, bi, ret, out, partial, ih>>

(* ---- SEQ_BLOCK_HEADER: Index Indicator or Block Header Size, then copy the header ---- *)
AtIndex == bi = Len(S.blocks)
BlockHeader ==
    /\ ret = "run" /\ seq = "BLOCK_HEADER"
    /\ IF ~Have(1) THEN Starve
       ELSE IF AtIndex
       THEN /\ seq' = "INDEX" /\ UNCHANGED <<file, flags, limit, si, bi, pos, first, ret, tells, out, partial, ih>>
       ELSE IF ~Have(B.hsz) THEN Starve
       ELSE /\ seq' = "BLOCK_INIT" /\ pos' = pos + B.hsz
            /\ UNCHANGED <<file, flags, limit, si, bi, first, ret, tells, out, partial, ih>>

(* ---- SEQ_BLOCK_INIT: lzma_block_header_decode(), lzma_raw_decoder_memusage(), block decoder init ---- *)
(* lzma_filter_flags_decode() + lzma_properties_decode() of one filter *)
FilterRet(f) == IF f.id = "reserved" THEN "DATA_ERROR"                   \* "if (filter->id >= LZMA_FILTER_RESERVED_START)"
                ELSE IF ~KnownFilter(f.id) THEN "OPTIONS_ERROR"          \* decoder_find() == NULL
                ELSE IF f.id = "lzma2" THEN (IF f.plen = 1 /\ f.pok THEN "OK" ELSE "OPTIONS_ERROR")
                ELSE IF f.id = "delta" THEN (IF f.plen = 1 THEN "OK" ELSE "OPTIONS_ERROR")
                ELSE IF f.plen \in {0, 4} THEN "OK" ELSE "OPTIONS_ERROR" \* lzma_simple_props_decode()
(* lzma_vli_decode() of the Filter ID / Size of Properties comes first: a malformed VLI is LZMA_DATA_ERROR *)
FilterRetV(f) == IF f.idv # "ok" THEN "DATA_ERROR"
                 ELSE IF f.id = "reserved" THEN "DATA_ERROR"
                 ELSE IF f.psv # "ok" THEN "DATA_ERROR"
                 ELSE FilterRet(f)
RECURSIVE FiltersRet(_)
FiltersRet(fs) == IF fs = <<>> THEN "OK" ELSE IF FilterRetV(Head(fs)) # "OK" THEN FilterRetV(Head(fs)) ELSE FiltersRet(Tail(fs))
(* lzma_validate_chain(): walk with non_last_ok / last_ok *)
RECURSIVE ChainWalk(_, _)
ChainWalk(fs, nonLastOk) == IF ~nonLastOk THEN FALSE
                            ELSE IF Len(fs) = 1 THEN LastOk(Head(fs).id)
                            ELSE ChainWalk(Tail(fs), NonLastOk(Head(fs).id))
ChainOk(fs) == Len(fs) \in 1..4 /\ ChainWalk(fs, TRUE)
(* BCJ start offsets must be multiples of the filter's alignment (simple coders' init): modelled by pok *)
InitOk(fs) == \A k \in 1..Len(fs) : fs[k].pok
BlockHeaderRet(T, check) ==
    IF T.hsz # HdrReal(T) THEN "DATA_ERROR"                \* CRC32 computed over a different range (CrcDetects)
    ELSE IF ~T.hcrc THEN "DATA_ERROR"
    ELSE IF T.resv THEN "OPTIONS_ERROR"                    \* "if (in[1] & 0x3C)"
    ELSE IF ~T.fits THEN "DATA_ERROR"                      \* lzma_vli_decode / "in_size - *in_pos < props_size"
    ELSE IF T.cs.p /\ ~T.cs.vli THEN "DATA_ERROR"
    ELSE IF T.cs.p /\ T.cs.v = 0 THEN "DATA_ERROR"         \* lzma_block_unpadded_size() == 0
    ELSE IF T.us.p /\ ~T.us.vli THEN "DATA_ERROR"
    ELSE IF FiltersRet(T.filters) # "OK" THEN FiltersRet(T.filters)
    ELSE IF ~T.hpadz THEN "OPTIONS_ERROR"
    ELSE IF ~ChainOk(T.filters) THEN "OPTIONS_ERROR"       \* lzma_raw_decoder_memusage() == UINT64_MAX
    ELSE IF ~InitOk(T.filters) THEN "OPTIONS_ERROR"        \* lzma_raw_decoder_init()
    ELSE "OK"
BlockInit ==
    /\ ret = "run" /\ seq = "BLOCK_INIT"
    /\ LET r == BlockHeaderRet(B, S.check) IN
       IF r # "OK" THEN Fail(r) /\ UNCHANGED pos
       ELSE /\ seq' = "BLOCK_CODE" /\ UNCHANGED <<file, flags, limit, si, bi, pos, first, ret, tells, out, partial, ih>>

(* ---- SEQ_BLOCK_RUN / block_decode() SEQ_CODE ---- *)
(* the raw decoder sees at most Compressed Size bytes and may write at most Uncompressed Size bytes *)
BlockCode ==
    /\ ret = "run" /\ seq = "BLOCK_CODE"
    /\ LET L == L2Run(B.chunks)
           creal == DataReal(B)  nreal == DataOut(B)
           inStop == IF B.cs.p THEN Min2(B.cs.v, limit - pos) ELSE limit - pos
           csShort == B.cs.p /\ B.cs.v < (IF L.ret = "STREAM_END" THEN L.used ELSE creal)
           usShort == B.us.p /\ B.us.v < nreal
       IN
       IF csShort /\ B.cs.v <= limit - pos
       THEN \* all Compressed Size bytes consumed, neither LZMA_STREAM_END nor a full output buffer: "comp_done && *out_pos < out_size"
            /\ Fail("DATA_ERROR") /\ partial' = TRUE /\ pos' = pos + B.cs.v
            /\ UNCHANGED <<file, flags, limit, seq, si, bi, first, tells, out, ih>>
       ELSE IF usShort
       THEN \* output limited to Uncompressed Size, input left: "uncomp_done && *in_pos < in_size" (or both done)
            /\ ret' = "DATA_ERROR" /\ partial' = TRUE /\ pos' = pos
            /\ UNCHANGED <<file, flags, limit, seq, si, bi, first, tells, out, ih>>
       ELSE IF L.ret = "DATA_ERROR"
       THEN /\ ret' = "DATA_ERROR" /\ partial' = TRUE /\ pos' = pos
            /\ UNCHANGED <<file, flags, limit, seq, si, bi, first, tells, out, ih>>
       ELSE IF L.ret = "DATA_OR_BUF"
       THEN /\ ret' \in (IF B.cs.p THEN {"DATA_ERROR"} ELSE {"DATA_ERROR", "BUF_ERROR"}) /\ partial' = TRUE
            /\ pos' = pos
            /\ UNCHANGED <<file, flags, limit, seq, si, bi, first, tells, out, ih>>
       ELSE IF L.ret = "run" \/ ~Have(L.used)
       THEN \* the data ends before the LZMA2 end marker
            /\ partial' = TRUE
            /\ IF B.cs.p /\ B.cs.v <= limit - pos THEN ret' = "DATA_ERROR" /\ pos' = pos + B.cs.v
                                                   ELSE ret' = "BUF_ERROR" /\ pos' = limit
            /\ UNCHANGED <<file, flags, limit, seq, si, bi, first, tells, out, ih>>
       ELSE \* LZMA_STREAM_END from the filter chain: "if (!is_size_valid(...)) return LZMA_DATA_ERROR"
            IF (B.cs.p /\ B.cs.v # L.used) \/ (B.us.p /\ B.us.v # nreal)
            THEN /\ Fail("DATA_ERROR") /\ pos' = pos + L.used
            ELSE /\ seq' = "BLOCK_PADDING" /\ pos' = pos + L.used /\ out' = Append(out, B.did)
                 /\ UNCHANGED <<file, flags, limit, si, bi, first, ret, tells, partial, ih>>

(* ---- block_decode() SEQ_PADDING ---- *)
BlockPadding ==
    /\ ret = "run" /\ seq = "BLOCK_PADDING"
    /\ LET n == BlockPadLen(B) IN
       IF n > 0 /\ ~B.bpadz THEN ret' = "DATA_ERROR" /\ pos' = pos
                                 /\ UNCHANGED <<file, flags, limit, seq, si, bi, first, tells, out, partial, ih>>
       ELSE IF ~Have(n) THEN Starve
       ELSE /\ pos' = pos + n /\ seq' = "BLOCK_CHECK"
            /\ UNCHANGED <<file, flags, limit, si, bi, first, ret, tells, out, partial, ih>>

(* ---- block_decode() SEQ_CHECK, then lzma_index_hash_append() in stream_decode() ---- *)
BlockCheck ==
    /\ ret = "run" /\ seq = "BLOCK_CHECK"
    /\ LET n == CheckSize(S.check) IN
       IF ~Have(n) THEN Starve
       ELSE IF ~flags.ignoreCheck /\ CheckSupported(S.check) /\ n > 0 /\ ~B.chk
       THEN Fail("DATA_ERROR") /\ pos' = pos + n
       ELSE /\ pos' = pos + n /\ bi' = bi + 1 /\ seq' = "BLOCK_HEADER"
            /\ ih' = IhAppend(ih, B.hsz + DataReal(B) + n, DataOut(B))      \* lzma_block_unpadded_size(), uncompressed_size
            /\ UNCHANGED <<file, flags, limit, si, first, ret, tells, out, partial>>

(* ---- SEQ_INDEX: lzma_index_hash_decode() ---- *)
(* records are read one by one; after each: range of Unpadded Size, running sums must not exceed the Blocks' *)
RECURSIVE RecordsRet(_, _, _)
IhAppendT(h, r) == [bsum |-> h.bsum + Ceil4(r.u), usum |-> h.usum + r.n, cnt |-> h.cnt + 1,
                    lsize |-> h.lsize + VliLenT(r.u, r.ub) + VliLenT(r.n, r.nb), recs |-> Append(h.recs, <<r.u, r.n>>)]
RecordsRet(recs, acc, h) ==
    IF recs = <<>> THEN "OK"
    ELSE LET r == Head(recs)
             a == IhAppendT(acc, r)
         IN IF r.u < UnpaddedMin THEN "DATA_ERROR"
            ELSE IF h.bsum < a.bsum \/ h.usum < a.usum \/ h.lsize < a.lsize THEN "DATA_ERROR"
            ELSE RecordsRet(Tail(recs), a, h)
RECURSIVE IhOfRecs(_, _)
IhOfRecs(recs, acc) == IF recs = <<>> THEN acc ELSE IhOfRecs(Tail(recs), IhAppendT(acc, Head(recs)))
IndexRet(T, h) ==
    IF ~T.ivli THEN "DATA_ERROR"                               \* lzma_vli_decode()
    ELSE IF T.icount # h.cnt THEN "DATA_ERROR"                 \* "if (index_hash->remaining != index_hash->blocks.count)"
    ELSE IF RecordsRet(T.irecs, IhInit, h) # "OK" THEN "DATA_ERROR"
    ELSE IF ~T.ipadz /\ IndexPad(T) > 0 THEN "DATA_ERROR"
    ELSE LET a == IhOfRecs(T.irecs, IhInit) IN
         IF a.bsum # h.bsum \/ a.usum # h.usum \/ a.lsize # h.lsize THEN "DATA_ERROR"     \* "Compare the sizes."
         ELSE IF a.recs # h.recs THEN "DATA_ERROR"             \* "Finish the hashes and compare them."
         ELSE IF ~T.icrc THEN "DATA_ERROR"
         ELSE "OK"
Index ==
    /\ ret = "run" /\ seq = "INDEX"
    /\ IF ~Have(IndexReal(S)) /\ IndexRet(S, ih) = "OK" THEN Starve
       ELSE IF IndexRet(S, ih) # "OK"
       THEN /\ ret' = "DATA_ERROR" /\ pos' = pos
            /\ UNCHANGED <<file, flags, limit, seq, si, bi, first, tells, out, partial, ih>>
       ELSE /\ pos' = pos + IndexReal(S) /\ seq' = "STREAM_FOOTER"
            /\ UNCHANGED <<file, flags, limit, si, bi, first, ret, tells, out, partial, ih>>

(* ---- SEQ_STREAM_FOOTER: lzma_stream_footer_decode(), Backward Size, lzma_stream_flags_compare() ---- *)
FooterRet(T, h) ==
    IF ~T.fmagic THEN "DATA_ERROR"                             \* LZMA_FORMAT_ERROR converted
    ELSE IF ~T.fcrc THEN "DATA_ERROR"
    ELSE IF ~T.fvers THEN "OPTIONS_ERROR"
    ELSE IF IndexSizeOf(h.cnt, h.lsize) # T.fbs THEN "DATA_ERROR"     \* lzma_index_hash_size() != backward_size
    ELSE IF T.fcheck # T.check THEN "DATA_ERROR"               \* lzma_stream_flags_compare()
    ELSE "OK"
StreamFooter ==
    /\ ret = "run" /\ seq = "STREAM_FOOTER"
    /\ IF ~Have(12) THEN Starve
       ELSE LET r == FooterRet(S, ih) IN
            IF r # "OK" THEN Fail(r) /\ pos' = pos + 12
            ELSE IF ~flags.concat THEN Fail("STREAM_END") /\ pos' = pos + 12
            ELSE /\ pos' = pos + 12 /\ seq' = "STREAM_PADDING"
                 /\ UNCHANGED <<file, flags, limit, si, bi, first, ret, tells, out, partial, ih>>

(* ---- SEQ_STREAM_PADDING (LZMA_CONCATENATED, LZMA_FINISH) ---- *)
StreamPadding ==
    /\ ret = "run" /\ seq = "STREAM_PADDING"
    /\ LET n == Min2(S.pad, limit - pos)            \* zero bytes that exist
           more == si < Len(file.streams) /\ pos + S.pad < limit
       IN IF ~more
          THEN \* end of input while skipping zeros
               Fail(IF n % 4 = 0 THEN "STREAM_END" ELSE "DATA_ERROR") /\ pos' = pos + n
          ELSE IF S.pad % 4 # 0
          THEN Fail("DATA_ERROR") /\ pos' = pos + S.pad + 1       \* "if (coder->pos != 0) { ++*in_pos; return LZMA_DATA_ERROR; }"
          ELSE /\ pos' = pos + S.pad /\ si' = si + 1 /\ bi' = 0 /\ seq' = "STREAM_HEADER" /\ ih' = IhInit  \* stream_decoder_reset()
               /\ UNCHANGED <<file, flags, limit, first, ret, tells, out, partial>>

DecNext == StreamHeader \/ BlockHeader \/ BlockInit \/ BlockCode \/ BlockPadding \/ BlockCheck
           \/ Index \/ StreamFooter \/ StreamPadding
(* field names consumed by the action that is enabled in the current state (for the fault model) *)
Touches == CASE seq = "STREAM_HEADER" -> {"h.magic", "h.flags", "h.crc32"}
             [] seq = "BLOCK_HEADER" -> IF AtIndex THEN {} ELSE {"bh.size", "bh.flags", "bh.cs", "bh.us", "bh.filters", "bh.padding", "bh.crc32"}
             [] seq = "BLOCK_CODE" -> {"b.data"}
             [] seq = "BLOCK_PADDING" -> {"b.padding"}
             [] seq = "BLOCK_CHECK" -> {"b.check"}
             [] seq = "INDEX" -> {"i.indicator", "i.count", "i.records", "i.padding", "i.crc32"}
             [] seq = "STREAM_FOOTER" -> {"f.crc32", "f.backward_size", "f.flags", "f.magic"}
             [] seq = "STREAM_PADDING" -> {"s.padding"}
             [] OTHER -> {}
TouchBlock == IF seq \in {"BLOCK_HEADER", "BLOCK_CODE", "BLOCK_PADDING", "BLOCK_CHECK"} /\ ~AtIndex THEN bi + 1 ELSE 0

(* The Index field alone through lzma_index_decoder() / lzma_index_buffer_decode() (index_decoder.c): the same VLI,  *)
(* Record range, padding and CRC32 rules, but nothing to compare the Records with.  "skip": not predicted (a Number  *)
(* of Records that disagrees with the list makes the decoder read other fields as Records).                         *)
IndexAloneRet(T) ==
    IF ~T.ivli THEN "DATA_ERROR"
    ELSE IF T.icb # "" \/ T.icount # Len(T.irecs) THEN "skip"
    ELSE IF \E k \in 1..Len(T.irecs) : T.irecs[k].u < UnpaddedMin THEN "DATA_ERROR"
    ELSE IF ~T.ipadz /\ IndexPad(T) > 0 THEN "DATA_ERROR"
    ELSE IF ~T.icrc THEN "DATA_ERROR"
    ELSE "OK"
(* other entry points, as functions of the lzma_code() result *)
(* lzma_stream_buffer_decode(): LZMA_STREAM_END -> LZMA_OK; truncated input -> LZMA_DATA_ERROR; tells are not returned *)
BufferDecodeRet(r) == CASE r = "STREAM_END" -> "OK" [] r = "BUF_ERROR" -> "DATA_ERROR" [] OTHER -> r
=============================================================================
