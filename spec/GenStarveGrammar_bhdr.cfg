SPECIFICATION Spec
CONSTANTS Which = "bhdr" MaxTokens = 2
CONSTRAINT Emit
CHECK_DEADLOCK FALSE
