SPECIFICATION Spec
CONSTANTS MaxChunks = 4 Variant = "unc_keeps_props"
INVARIANTS AcceptIffValid MeaningExact PrefixOnError FunctionalAgrees
CHECK_DEADLOCK FALSE
