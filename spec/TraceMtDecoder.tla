--------------------------- MODULE TraceMtDecoder ---------------------------
(* Trace validation for C07: executions of the real lzma_stream_decoder_mt,  *)
(* recorded through the VERIF_EV hooks (one event per critical section, in   *)
(* the order of one global atomic sequence number taken inside the section), *)
(* must be behaviours of MtDecoder.  Every logged event is exactly one model *)
(* action with its arguments bound; main-thread private steps between two    *)
(* critical sections are not logged and are taken silently.  The result of a *)
(* worker's Block decoder call is bound from the log.                        *)
EXTENDS MtDecoder, Json, IOUtils

TraceLog == ndJsonDeserialize(IOEnv.TRACE)
Cfg == TraceLog[1]

TrNW == Cfg.nw
TrHdrSz == Cfg.hdrsz
TrBlocks == Cfg.blocks
TrTailSz == Cfg.tailsz
TrTailOk == Cfg.tailok
TrFileLen == Cfg.filelen
TrTimeout == Cfg.timeout
TrFailFast == Cfg.failfast
TrCopies == Cfg.copies
TrPad == Cfg.pad
TrConcat == Cfg.concat
TrMemT == Cfg.memt
TrOutOvh == Cfg.outovh
TrMemStop == Cfg.memstop
TrTell == Cfg.tell

VARIABLE l
tvars == <<vars, l>>

Ev == TraceLog[l]
IsEvent(e) == l <= Len(TraceLog) /\ TraceLog[l].e = e /\ l' = l + 1

RetName(n) == CASE n = 0 -> "OK" [] n = 1 -> "STREAM_END" [] n = 10 -> "BUF_ERROR" [] n = 9 -> "DATA_ERROR"
                [] n = 8 -> "OPTIONS_ERROR" [] n = 7 -> "FORMAT_ERROR" [] n = 6 -> "MEMLIMIT_ERROR"
                [] n = 2 -> "NO_CHECK" [] n = 3 -> "UNSUPPORTED_CHECK" [] n = 4 -> "GET_CHECK"
                [] n = 5 -> "MEM_ERROR" [] n = 11 -> "PROG_ERROR" [] n = 101 -> "TIMED_OUT" [] OTHER -> "OTHER"
\* the model abstracts all data-dependent error codes of Blocks to one; exact codes are compared with the
\* single-threaded decoder by the driver
IsErr(s) == s \in {"DATA_ERROR", "OPTIONS_ERROR"}
RetMatches(model, logged) == model = logged \/ (IsErr(model) /\ IsErr(logged))

PartialName(n) == CASE n = 0 -> "DIS" [] n = 1 -> "START" [] n = 2 -> "EN"
StateName(n) == CASE n = 0 -> "IDLE" [] n = 1 -> "RUN" [] n = 2 -> "EXIT"

TInit0 == Init /\ l = 2 /\ TLCSet(1, 0)

TReset == IsEvent("Reset") /\ m' = MInit /\ c' = CInit /\ t' = [w \in W |-> TInit]

TCall == /\ IsEvent("Call")
         /\ Ev.b >= m.inAvail
         /\ Call(IF Ev.a = 3 THEN "FINISH" ELSE "RUN", Ev.b - m.inAvail, Ev.c)
         /\ m'.waitingAllowed = (Ev.d = 1)

TRet == /\ IsEvent("Ret")
        /\ m.pc = "out" /\ RetMatches(m.lastRet, RetName(Ev.a)) /\ m.delivered = Ev.c
        \* a call that ends with an error may stop consuming at the point where the error was detected
        /\ (m.given - m.inAvail = Ev.b \/ IsErr(m.lastRet))
        /\ UNCHANGED vars

EnabledSet == {w \in W : t'[w].partial = "START" /\ t[w].partial # "START"}

TRW == /\ IsEvent("RW")
       /\ RWBody
       /\ m.space0 - m'.outSpace = Ev.c
       /\ CASE Ev.a = 4 -> m'.pc = "rwpark"
            [] Ev.a = 2 -> m'.pc = "rwdone" /\ m'.canStart /\ m'.rwRet = "OK"
            [] Ev.a = 3 -> m'.pc = "rwdone" /\ ~m'.canStart /\ m'.rwRet = "OK"
            [] Ev.a \in {0, 1} -> m'.pc = "rwdone" /\ RetMatches(m'.rwRet, RetName(Ev.b))
       /\ EnabledSet = {w \in W : \E i \in 1..Len(Ev.en) : Ev.en[i] = w}
       /\ (EnabledSet # {} => Ev.nsig >= 1)

TRWWake == IsEvent("RWWake") /\ RWWake
TRWTimeout == IsEvent("RWTimeout") /\ RWTimeout
TStop == IsEvent("Stop") /\ StopStep /\ m.loopI < m.nInit /\ Ev.w = m.loopI + 1
TStopDone == IsEvent("StopDone") /\ StopStep /\ m.loopI >= m.nInit
TCreate == IsEvent("Create") /\ TiCreate /\ Ev.w = m.nInit + 1
TTiSetup == IsEvent("TiGet") /\ TiSetup /\ Ev.w = m.thr /\ GB(m.blk).insz = Ev.a /\ GB(m.blk).outsz = Ev.b
TTiStart == IsEvent("TiStart") /\ TiStart /\ Ev.w = m.thr /\ Ev.nsig >= 1
TTiPartial == /\ IsEvent("TiPartial") /\ TiPartial
              /\ EnabledSet = {w \in W : \E i \in 1..Len(Ev.en) : Ev.en[i] = w}
              /\ (EnabledSet # {} => Ev.nsig >= 1)
TCopy == IsEvent("Copy") /\ Copy /\ Ev.w = m.thr /\ Ev.a = Min(m.inAvail, GB(m.blk).insz - t[m.thr].inFilled)
TPublish == IsEvent("Publish") /\ Publish /\ Ev.w = m.thr /\ t'[m.thr].inFilled = Ev.a /\ Ev.nsig >= 1
TEndSignal == IsEvent("EndSignal") /\ EndSignal /\ m.loopI < m.nInit /\ Ev.w = m.loopI + 1 /\ Ev.nsig >= 1
TEndJoin == IsEvent("EndJoin") /\ EndJoin /\ m.loopI < m.nInit /\ Ev.w = m.loopI + 1
TEndDone == IsEvent("EndDone") /\ EndJoin /\ m.loopI >= m.nInit
TAppEnd == IsEvent("AppEnd") /\ AppEnd
TAppReinit == IsEvent("AppReinit") /\ AppReinit
TReinited == IsEvent("Reinited") /\ Ev.a = 0 /\ m.pc = "out" /\ m.given = 0 /\ m.seq = "HDR" /\ UNCHANGED vars
\* lzma_memlimit_set(strm, lzma_memusage(strm)) after LZMA_MEMLIMIT_ERROR: a = the new limit, b = its return value
TAppRaise == IsEvent("MemlimitSet") /\ Ev.b = 0 /\ AppRaise(Ev.a)
\* lzma_get_check() right after a LZMA_*_CHECK notification: the Check ID of the Stream being decoded
TGetCheck == IsEvent("GetCheck") /\ m.pc = "out" /\ m.lastRet = Tell /\ Ev.a = Cfg.check /\ UNCHANGED vars
\* lzma_get_progress() between two calls: coder.mutex, then every thr.mutex in turn.  A worker publishes its positions
\* only at the top of its loop, so the figures lag; they are required to be truthful: never more input than was
\* consumed, never more output than the file holds, never going backwards, and exact once the decoder has finished.
TProgress == /\ IsEvent("Progress") /\ m.pc = "out"
             \* (after an error the model's input position is only a lower bound, see TRet)
             /\ (Ev.a <= m.given - m.inAvail \/ (m.ended /\ IsErr(m.lastRet) /\ Ev.a <= m.given))
             /\ Ev.b <= StL(FullLen, 2000000000).out
             /\ Ev.a >= m.progIn /\ Ev.b >= m.progOut
             /\ ((m.ended /\ m.lastRet = "STREAM_END") => (Ev.a = m.given - m.inAvail /\ Ev.b = m.delivered))
             /\ m' = [m EXCEPT !.progIn = Ev.a, !.progOut = Ev.b] /\ UNCHANGED <<c, t>>
TFreed == IsEvent("Freed") /\ m.pc = "freed" /\ UNCHANGED vars

TWCheck == /\ IsEvent("WCheck")
           /\ WCheck(Ev.w)
           /\ t[Ev.w].state = StateName(Ev.b)
           /\ CASE Ev.a = 0 -> t'[Ev.w].pc = "parked"
                [] Ev.a = 1 -> t'[Ev.w].pc = "exited"
                [] Ev.a = 2 -> t'[Ev.w].pc = "decode" /\ t'[Ev.w].snapIn = Ev.c /\ t'[Ev.w].snapPartial = PartialName(Ev.d)
TWWake == IsEvent("WWake") /\ WWake(Ev.w)
TWDecode ==
    /\ IsEvent("WDecode")
    /\ LET w == Ev.w
           r == [ip |-> Ev.b, op |-> Ev.c, ret |-> IF Ev.a = 0 THEN "OK" ELSE IF Ev.a = 1 THEN "END" ELSE "ERR"]
           B == GB(t[w].blk)
       IN /\ r.ip >= t[w].inPos /\ r.ip <= t[w].snapIn /\ r.ip - t[w].inPos <= Chunk
          /\ r.op >= t[w].outPos /\ r.op <= B.outsz
          /\ (r.ret = "END" => r.ip = B.insz /\ r.op = B.outsz)
          /\ (r.ret = "ERR" => B.corrupt)
          /\ (r.ret = "OK" => r.ip = Min(t[w].snapIn, t[w].inPos + Chunk) \/ r.op = B.outsz)
          /\ WDecodeTo(w, r)
TWPublish == IsEvent("WPublish") /\ WPublish(Ev.w) /\ t[Ev.w].outPos = Ev.a /\ t[Ev.w].inPos = Ev.b /\ Ev.nsig >= 1
TWFinThr == IsEvent("WFinThr") /\ WFinThr(Ev.w) /\ t'[Ev.w].state = StateName(Ev.a)
TWFreeIn == IsEvent("WFreeIn") /\ WFreeIn(Ev.w) /\ (Ev.a = 1) = (t'[Ev.w].inBuf = "freed")
TWFinCoder == /\ IsEvent("WFinCoder") /\ WFinCoder(Ev.w)
              /\ (Ev.a = 1) = (t[Ev.w].ret = "END")
              /\ t[Ev.w].outPos = Ev.b /\ t[Ev.w].inPos = Ev.c
              /\ (Ev.d = 1) = (c'.free # <<>> /\ c'.free[1] = Ev.w /\ t[Ev.w].ret = "END")
              /\ Ev.nsig >= 1

Logged == TReset \/ TCall \/ TRet \/ TRW \/ TRWWake \/ TRWTimeout \/ TStop \/ TStopDone \/ TCreate \/ TTiSetup
          \/ TTiStart \/ TTiPartial \/ TCopy \/ TPublish \/ TEndSignal \/ TEndJoin \/ TEndDone \/ TAppEnd \/ TAppReinit \/ TAppRaise \/ TGetCheck \/ TReinited \/ TFreed \/ TProgress
          \/ TWCheck \/ TWWake \/ TWDecode \/ TWPublish \/ TWFinThr \/ TWFreeIn \/ TWFinCoder

\* Direct mode: the Block decoder runs in the main thread without any hook.  A call that completes the Block
\* consumes and produces exactly the rest of it; otherwise lzma_code returns next, and the positions are
\* bound from that Ret event (the next log line).
TDirectEnd ==
    /\ m.pc = "run" /\ m.seq = "DIRECTRUN"
    /\ DirectRunTo([ip |-> GB(m.blk).insz, op |-> GB(m.blk).outsz, ret |-> "END"])

TDirectPartial ==
    /\ m.pc = "run" /\ m.seq = "DIRECTRUN"
    /\ l <= Len(TraceLog) /\ Ev.e = "Ret"
    /\ LET B == GB(m.blk)
           ip == m.dIn + (Ev.b - (m.given - m.inAvail))
           op == m.dOut + (Ev.c - m.delivered)
           err == IsErr(RetName(Ev.a))
       IN /\ Ev.b >= m.given - m.inAvail /\ Ev.c >= m.delivered
          /\ ip <= B.insz /\ op <= B.outsz /\ (err => B.corrupt)
          /\ (~err => (ip < B.insz \/ op < B.outsz))
          \* a non-final return means it ran out of input or of output space
          /\ (~err => (ip - m.dIn = m.inAvail \/ op - m.dOut = m.outSpace))
          /\ DirectRunTo([ip |-> ip, op |-> op, ret |-> IF err THEN "ERR" ELSE "OK"])

TDirectRun == TDirectEnd \/ TDirectPartial

\* main-thread private steps that are not logged
Silent == /\ (RunOther \/ RunTailEarlyError \/ TDirectRun \/ AfterRW \/ TiGet \/ TiGetFailPrealloc \/ TiCreateFail \/ TiSetupFailIn
              \/ TiSetupFailDecoder \/ DirectInitFail \/ NextStreamFail \/ BlkHdrFail \/ TiSetupReject \/ DirectInitReject \/ (EndSignal /\ m.loopI >= m.nInit))
          /\ UNCHANGED l

TNext == Logged \/ Silent
TSpec == TInit0 /\ [][TNext]_tvars

\* acceptance: some behaviour consumes the whole log.  Register 1 keeps the longest matched prefix.
TrackMax == TLCSet(1, IF TLCGet(1) < l THEN l ELSE TLCGet(1))
TraceAccepted == IF TLCGet(1) > Len(TraceLog) THEN TRUE
                 ELSE PrintT(<<"MAXL", TLCGet(1)>>) /\ FALSE
=============================================================================
