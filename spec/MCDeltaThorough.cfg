SPECIFICATION DSpec
CONSTANTS
 Dists = {1, 2, 3, 4, 7, 128, 254, 255, 256}
 Lens = {0, 1, 6, 255, 256, 257, 258, 300, 513, 600}
 Chunks = {1, 2, 3, 5, 100, 255, 256, 1000}
INVARIANTS PrefixOfDefinition PosCountsDown RoundTrip
CHECK_DEADLOCK FALSE
