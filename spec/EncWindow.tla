------------------------------ MODULE EncWindow ------------------------------
(* C01: the sliding input window of the LZ encoder (lz_encoder.c) seen from    *)
(* the LZMA2 encoder (lzma2_encoder.c) and the chunk-size check of             *)
(* lzma_lzma_encode() (lzma_encoder.c), with the dictionary size as parameter. *)
(*                                                                             *)
(* Why it matters for losslessness: when a chunk did not compress, the LZMA2   *)
(* encoder copies the chunk's bytes - plus the bytes the match finder has      *)
(* already read ahead - verbatim out of the window (mf_read) under a 16-bit    *)
(* size field.  Two design obligations follow:                                 *)
(*   ChunkStaysInWindow  move_window() may drop only bytes older than          *)
(*                       keep_size_before = before_size + dict_size; the whole *)
(*                       pending chunk must still be there, so                 *)
(*                       lzma2_encoder_init() raises before_size to            *)
(*                       ChunkMax - dict_size for small dictionaries           *)
(*   UncompressedFits    an incompressible chunk plus the look-ahead fits the  *)
(*                       size field: the loop stops Reserve (LOOP_INPUT_MAX)   *)
(*                       bytes before the compressed limit because one         *)
(*                       iteration may leave up to Opts bytes read ahead       *)
(* Positions are absolute input offsets.  The compressor is abstract: one loop *)
(* iteration lets the match finder read ahead (up to Opts bytes in total),     *)
(* encodes one symbol of n bytes and produces g <= n compressed bytes          *)
(* (g = n: incompressible).  Scaled-down constants in MCEncWindow.cfg.         *)
EXTENDS Integers

CONSTANTS DictSize,      \* lzma_options_lzma.dict_size
          Opts,          \* OPTS: before_size asked by the LZMA encoder and longest look-ahead
          ChunkMax,      \* LZMA2_CHUNK_MAX: compressed limit and size limit of an uncompressed chunk
          Reserve,       \* LOOP_INPUT_MAX = Opts + 1: distance kept from the compressed limit
          MaxLen,        \* longest symbol
          MaxPos         \* model bound on the input length

VARIABLES pos,        \* bytes encoded so far (read_pos - read_ahead)
          ahead,      \* read_ahead
          winStart,   \* oldest byte still in the window
          chunkStart, \* first byte of the open chunk
          csize,      \* compressed size of the open chunk
          lastUnc     \* size of the last uncompressed chunk written (0 = none)
vars == <<pos, ahead, winStart, chunkStart, csize, lastUnc>>

\* lzma2_encoder_init(): after lzma_lzma_encoder_create() has put before_size = OPTS
BeforeSize == IF Opts + DictSize < ChunkMax THEN ChunkMax - DictSize ELSE Opts
KeepBefore == BeforeSize + DictSize

Min(a, b) == IF a < b THEN a ELSE b
Usize == pos - chunkStart

Init == pos = 0 /\ ahead = 0 /\ winStart = 0 /\ chunkStart = 0 /\ csize = 0 /\ lastUnc = 0

\* one iteration of the loop in lzma_lzma_encode() (LZMA2: limit != UINT32_MAX)
Loop == /\ csize < ChunkMax - Reserve                       \* the chunk-size check
        /\ \E a \in ahead..Opts : \E n \in 1..MaxLen : \E g \in 0..n :
             /\ (a >= n \/ a = 0)                           \* the symbol covers bytes that were looked at
             /\ pos + (IF a = 0 THEN n ELSE a) <= MaxPos
             /\ pos' = pos + n
             /\ ahead' = IF a = 0 THEN 0 ELSE a - n
             /\ csize' = csize + g
        /\ UNCHANGED <<winStart, chunkStart, lastUnc>>

\* lzma2_encode() SEQ_LZMA_ENCODE after the LZMA encoder returned: store as LZMA or uncompressed
EndChunk == /\ Usize > 0
            /\ (csize >= ChunkMax - Reserve) \/ TRUE        \* (a flush may also end the chunk early)
            /\ IF csize >= Usize
               THEN /\ lastUnc' = Usize + ahead             \* uncompressed_size += read_ahead; copied from the window
                    /\ pos' = pos + ahead /\ ahead' = 0
               ELSE /\ lastUnc' = 0 /\ UNCHANGED <<pos, ahead>>
            /\ chunkStart' = pos' /\ csize' = 0
            /\ UNCHANGED winStart

\* move_window(): everything older than read_pos - keep_size_before may be dropped
MoveWindow == /\ pos + ahead - KeepBefore > winStart
              /\ \E w \in (winStart + 1)..(pos + ahead - KeepBefore) : winStart' = w
              /\ UNCHANGED <<pos, ahead, chunkStart, csize, lastUnc>>

Next == Loop \/ EndChunk \/ MoveWindow
Spec == Init /\ [][Next]_vars

----------------------------------------------------------------------------
\* whenever the open chunk could still be stored uncompressed, all of its bytes are in the window
ChunkStaysInWindow == (csize >= Usize) => chunkStart >= winStart
\* an uncompressed chunk (with the look-ahead added) fits its 16-bit size field
UncompressedFits == lastUnc <= ChunkMax /\ ((csize >= Usize) => Usize + ahead <= ChunkMax)
\* the dictionary itself is always available to the match finder
DictInWindow == pos + ahead - winStart >= Min(pos + ahead, DictSize)
=============================================================================
