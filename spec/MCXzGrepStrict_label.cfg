SPECIFICATION MCSpec
CONSTANTS MaxOpts = 1  Wide = FALSE  DoFiles = TRUE  Strict = "label"
INVARIANTS StrictInv
CHECK_DEADLOCK FALSE
