----------------------------- MODULE XzFilePair -----------------------------
(***************************************************************************)
(* C17: the life cycle of the files xz replaces, as the sequence of system  *)
(* calls of the main thread, with failing calls, short counts, signals,     *)
(* an environment that swaps files, and process death.                      *)
(*                                                                          *)
(* Transcribed from src/xz/main.c (main loop, read_name, exit path),        *)
(* coder.c (coder_run, coder_normal), file_io.c (io_open_src[_real],        *)
(* io_open_dest[_real], io_read, io_write[_buf], io_close, io_close_dest,   *)
(* io_close_src, io_unlink, io_copy_attrs, io_sync_dest), signals.c         *)
(* (signal_handler, signals_block/unblock, signals_exit), message.c         *)
(* (message_error -> E_ERROR, message_warning -> E_WARNING), args.c         *)
(* (--keep/--stdout imply no sync) and common/tuklib_exit.c.                *)
(*                                                                          *)
(* One action = one system call (or: signal sent, handler run, death).      *)
(* `pc` is the point the program has reached: either the next system call   *)
(* (inside the signal-blocked regions everything between two calls is       *)
(* deterministic) or one of the decision points "main", "inited", "coding", *)
(* "closing" where user_abort is read after the previous call returned.     *)
(* A handler can only run when a call returns to user mode with the signal  *)
(* unblocked; for calls that cannot block (regular files) a signal arriving *)
(* between two calls is indistinguishable from one arriving on return of    *)
(* the earlier call, so SigSend + forced SigDeliver covers every instant.   *)
(***************************************************************************)
EXTENDS Naturals, FiniteSets, TLC

CONSTANTS MaxFaults,   \* failing calls / EINTR / environment swaps per run
          MaxSigs,     \* signals sent per run
          Sigs         \* subset of {"INT", "TERM", "HUP", "PIPE"}: hooked in signals_init(), all handled alike

Kinds == {"good", "badformat", "corrupt"}         \* what the source file contains

VARIABLES
  cfg,        \* [dec, keep, force, stdout, nosync, files : BOOLEAN, nf : 1..2,
              \*  pre : [1..nf -> BOOLEAN], input : [1..nf -> Kinds]]
  pc, cur,
  src,        \* [1..nf -> {"present","absent","foreign"}]   state of the source *path*
  dst,        \* [1..nf -> {"absent","partial","complete","foreign"}] state of the target path
              \*   (with --stdout: of this file's part of the output stream)
  dstSynced, dirSynced, dstClosedOk,   \* [1..nf -> BOOLEAN]
  ioFailed,   \* [1..nf -> BOOLEAN] a read/write/lseek/fsync/close(target) failed for the file
  cleanupBroken, \* [1..nf -> BOOLEAN] removing the junk target was impossible (stat/unlink failed, swapped)
  envTouched, \* [1..nf -> BOOLEAN] somebody else moved one of the files meanwhile
  dstDamaged, \* [1..nf -> BOOLEAN] zeros that belong to another file were skipped into this target
  srcOpen, dstOpen, dirOpen, dstStKnown, restoreOut,
  success,    \* the flag handed from coder_run() to io_close()
  srcEof, outFull, mustFill, mustWrite, abortW,
  hole,       \* 0, or the index of the file whose decoded zeros wait as a not-yet-created hole
              \* (pair->dest_pending_sparse > 0); io_open_src() starts every file with 0
  intr,       \* "none" | "read" | "write": the last read()/write() returned EINTR; the code looks at
              \* user_abort only after the handler (if any) has run
  userAbort, exitSignal, sigPending, sigBlocked, sigGrace,
  blip,       \* inside a signals_block()/signals_unblock() pair that guards no file operation
              \* (vmessage() printing a message, mytime_set_start_time())
  exitStatus, \* 0 | 1 (E_ERROR) | 2 (E_WARNING)
  listSt,     \* --files: "unread" | "buffered" | "done" | "closed" | "na"
  lostForeign,\* xz unlinked a file that was not the one it opened/created
  nfault, nsig

fvars   == <<src, dst, dstSynced, dirSynced, dstClosedOk, ioFailed, cleanupBroken, envTouched, dstDamaged, lostForeign>>
pvars   == <<srcOpen, dstOpen, dirOpen, dstStKnown, restoreOut, success>>
iovars  == <<srcEof, outFull, mustFill, mustWrite, abortW, intr, hole>>
sigvars == <<userAbort, exitSignal, sigPending, sigBlocked, sigGrace, nsig, blip>>
vars    == <<cfg, pc, cur, fvars, pvars, iovars, sigvars, exitStatus, listSt, nfault>>

Files    == 1..cfg.nf
KeepSrc  == cfg.keep \/ cfg.stdout          \* args.c: --stdout implies --keep
Sync     == ~cfg.nosync /\ ~KeepSrc         \* args.c: --keep implies no fsync
Terminal == {"exited", "dead", "killed", "checked"}
Ended    == pc \in {"exited", "dead"}

Cfgs(nfs, kinds) ==
  UNION {[dec : BOOLEAN, keep : BOOLEAN, force : BOOLEAN, stdout : BOOLEAN, nosync : BOOLEAN,
          files : BOOLEAN, nf : {n}, pre : [1..n -> BOOLEAN], input : [1..n -> kinds]] : n \in nfs}

Init0(c) ==
  [cfg |-> c,
   pc |-> "main",
   cur |-> 1,
   src |-> [i \in 1..c.nf |-> "present"],
   dst |-> [i \in 1..c.nf |-> IF c.pre[i] /\ ~c.stdout THEN "foreign" ELSE "absent"],
   dstSynced |-> [i \in 1..c.nf |-> FALSE],
   dirSynced |-> [i \in 1..c.nf |-> FALSE],
   dstClosedOk |-> [i \in 1..c.nf |-> FALSE],
   ioFailed |-> [i \in 1..c.nf |-> FALSE],
   cleanupBroken |-> [i \in 1..c.nf |-> FALSE],
   envTouched |-> [i \in 1..c.nf |-> FALSE],
   srcOpen |-> FALSE,
   dstOpen |-> FALSE,
   dirOpen |-> FALSE,
   dstStKnown |-> FALSE,
   restoreOut |-> FALSE,
   success |-> FALSE,
   srcEof |-> FALSE,
   outFull |-> FALSE,
   mustFill |-> FALSE,
   mustWrite |-> FALSE,
   abortW |-> 0,
   userAbort |-> FALSE,
   exitSignal |-> "none",
   sigPending |-> "none",
   sigBlocked |-> FALSE,
   sigGrace |-> FALSE,
   exitStatus |-> 0,
   listSt |-> (IF c.files THEN "unread" ELSE "na"),
   lostForeign |-> FALSE,
   nfault |-> 0,
   nsig |-> 0,
   blip |-> FALSE,
   intr |-> "none",
   hole |-> 0,
   dstDamaged |-> [i \in 1..c.nf |-> FALSE]]
InitWith(c) == LET v == Init0(c) IN
  /\ cfg = v.cfg
  /\ pc = v.pc
  /\ cur = v.cur
  /\ src = v.src
  /\ dst = v.dst
  /\ dstSynced = v.dstSynced
  /\ dirSynced = v.dirSynced
  /\ dstClosedOk = v.dstClosedOk
  /\ ioFailed = v.ioFailed
  /\ cleanupBroken = v.cleanupBroken
  /\ envTouched = v.envTouched
  /\ srcOpen = v.srcOpen
  /\ dstOpen = v.dstOpen
  /\ dirOpen = v.dirOpen
  /\ dstStKnown = v.dstStKnown
  /\ restoreOut = v.restoreOut
  /\ success = v.success
  /\ srcEof = v.srcEof
  /\ outFull = v.outFull
  /\ mustFill = v.mustFill
  /\ mustWrite = v.mustWrite
  /\ abortW = v.abortW
  /\ userAbort = v.userAbort
  /\ exitSignal = v.exitSignal
  /\ sigPending = v.sigPending
  /\ sigBlocked = v.sigBlocked
  /\ sigGrace = v.sigGrace
  /\ exitStatus = v.exitStatus
  /\ listSt = v.listSt
  /\ lostForeign = v.lostForeign
  /\ nfault = v.nfault
  /\ nsig = v.nsig
  /\ blip = v.blip
  /\ intr = v.intr
  /\ hole = v.hole
  /\ dstDamaged = v.dstDamaged
(* a new process on fresh files (trace validation: next recorded execution) *)
ResetTo(c) == LET v == Init0(c) IN
  /\ cfg' = v.cfg
  /\ pc' = v.pc
  /\ cur' = v.cur
  /\ src' = v.src
  /\ dst' = v.dst
  /\ dstSynced' = v.dstSynced
  /\ dirSynced' = v.dirSynced
  /\ dstClosedOk' = v.dstClosedOk
  /\ ioFailed' = v.ioFailed
  /\ cleanupBroken' = v.cleanupBroken
  /\ envTouched' = v.envTouched
  /\ srcOpen' = v.srcOpen
  /\ dstOpen' = v.dstOpen
  /\ dirOpen' = v.dirOpen
  /\ dstStKnown' = v.dstStKnown
  /\ restoreOut' = v.restoreOut
  /\ success' = v.success
  /\ srcEof' = v.srcEof
  /\ outFull' = v.outFull
  /\ mustFill' = v.mustFill
  /\ mustWrite' = v.mustWrite
  /\ abortW' = v.abortW
  /\ userAbort' = v.userAbort
  /\ exitSignal' = v.exitSignal
  /\ sigPending' = v.sigPending
  /\ sigBlocked' = v.sigBlocked
  /\ sigGrace' = v.sigGrace
  /\ exitStatus' = v.exitStatus
  /\ listSt' = v.listSt
  /\ lostForeign' = v.lostForeign
  /\ nfault' = v.nfault
  /\ nsig' = v.nsig
  /\ blip' = v.blip
  /\ intr' = v.intr
  /\ hole' = v.hole
  /\ dstDamaged' = v.dstDamaged

----------------------------------------------------------------------------
(* helpers *)
Err(st)  == 1                                   \* message_error(): set_exit_status(E_ERROR)
Warn(st) == IF st = 1 THEN 1 ELSE 2             \* message_warning(): E_WARNING unless already E_ERROR
Set(f, v) == [f EXCEPT ![cur] = v]
Fault(r) == IF r = "ok" THEN nfault' = nfault ELSE (nfault < MaxFaults /\ nfault' = nfault + 1)

\* the handler runs before anything else once a call has returned with the signal unblocked
DeliverDue == sigPending # "none" /\ ~sigBlocked /\ ~sigGrace

\* frame of every system call made by the program
Sys0 == /\ pc \notin Terminal /\ ~DeliverDue /\ sigGrace' = FALSE
        /\ UNCHANGED <<cfg, userAbort, exitSignal, sigPending, nsig>>
Sys == Sys0 /\ ~blip /\ UNCHANGED blip

\* where io_close_dest() starts, given the (new) state
CdPoint(dstO, dirO, rest) ==
  IF cfg.stdout THEN (IF rest THEN "restore_out" ELSE "close_src")
  ELSE IF ~dstO THEN "close_src" ELSE IF dirO THEN "close_dir" ELSE "close_dst"
\* where io_close() continues after signals_block()
ClosePoint(succ) ==
  IF succ /\ dstOpen /\ ~cfg.stdout THEN "fchown" ELSE CdPoint(dstOpen, dirOpen, restoreOut)
\* where io_open_dest_real() starts
OpenDestPoint ==
  IF cfg.stdout THEN "getfl_out" ELSE IF Sync THEN "open_dir" ELSE IF cfg.force THEN "unlink_force" ELSE "open_dst"
\* io_open_dest_real(): label error
OdError == IF dirOpen THEN "close_dir_err" ELSE "unblock_odfail"

\* after more output has been decoded: full blocks of zeros are not written but remembered (io_write())
MoreHole(h) == IF cfg.dec /\ h = 0 THEN {0, cur} ELSE {h}

NamesLeft == cur <= cfg.nf
\* main(): may the next file be started?
CanStart == ~userAbort /\ NamesLeft /\ (cfg.files => listSt = "buffered")
\* main(): all files handled (or aborted) and the name list closed
ExitReady == pc = "main" /\ IF cfg.files THEN listSt = "closed" ELSE (userAbort \/ ~NamesLeft)

NewFile == /\ srcOpen' = FALSE /\ dstOpen' = FALSE /\ dirOpen' = FALSE /\ dstStKnown' = FALSE
           /\ success' = FALSE /\ srcEof' = FALSE /\ outFull' = FALSE /\ mustFill' = FALSE
           /\ mustWrite' = FALSE /\ abortW' = 0 /\ intr' = "none"
           /\ hole' = 0                         \* .dest_pending_sparse = 0 in io_open_src()

----------------------------------------------------------------------------
(* signals_block(): rt_sigprocmask(SIG_BLOCK, hooked) -- start of io_open_src, io_open_dest, io_close *)
Block ==
  /\ Sys /\ ~sigBlocked /\ sigBlocked' = TRUE
  /\ UNCHANGED <<cur, fvars, listSt, nfault, restoreOut>>
  /\ \/ /\ pc = "main" /\ CanStart                          \* coder_run(): io_open_src()
        /\ pc' = "open_src" /\ NewFile /\ UNCHANGED exitStatus
     \/ /\ pc = "inited"                                     \* coder_init() done
        /\ UNCHANGED <<srcOpen, dstOpen, dirOpen, dstStKnown, iovars>>
        /\ IF cfg.input[cur] # "badformat" /\ ~userAbort
           THEN /\ pc' = OpenDestPoint /\ UNCHANGED <<exitStatus, success>>        \* io_open_dest()
           ELSE /\ success' = FALSE /\ pc' = ClosePoint(FALSE)                      \* io_close(pair, false)
                /\ exitStatus' = IF cfg.input[cur] = "badformat" THEN Err(exitStatus) ELSE exitStatus
     \/ /\ pc \in {"first_read", "coding"} /\ intr # "none" /\ userAbort   \* io_read/io_write: EINTR and user_abort
        /\ UNCHANGED <<srcOpen, dstOpen, dirOpen, dstStKnown, srcEof, outFull, abortW, hole, exitStatus>>
        /\ mustFill' = FALSE /\ mustWrite' = FALSE /\ intr' = "none"
        /\ success' = FALSE /\ pc' = ClosePoint(FALSE)
     \/ /\ pc = "coding" /\ ~mustFill /\ ~mustWrite /\ intr = "none"   \* coder_normal() returned; io_close()
        /\ UNCHANGED <<srcOpen, dstOpen, dirOpen, dstStKnown, iovars>>
        /\ LET done == cfg.input[cur] = "good" /\ srcEof /\ outFull IN
           /\ userAbort \/ done \/ cfg.input[cur] = "corrupt"
           /\ \E s \in BOOLEAN :
                /\ s => done
                /\ (done /\ ~userAbort) => s      \* a signal seen at the top of the loop loses the race
                /\ success' = s /\ pc' = ClosePoint(s)
           /\ IF cfg.input[cur] = "corrupt" /\ ~userAbort THEN exitStatus' = Err(exitStatus)
              ELSE IF cfg.input[cur] = "corrupt" THEN exitStatus' \in {exitStatus, Err(exitStatus)}
              ELSE UNCHANGED exitStatus
     \/ /\ pc = "closing"                                     \* failure already known
        /\ UNCHANGED <<srcOpen, dstOpen, dirOpen, dstStKnown, iovars, exitStatus>>
        /\ success' = FALSE /\ pc' = ClosePoint(FALSE)

(* signals_unblock(): rt_sigprocmask(SIG_UNBLOCK, hooked) *)
Unblock ==
  /\ Sys /\ sigBlocked /\ sigBlocked' = FALSE
  /\ UNCHANGED <<fvars, pvars, srcEof, outFull, mustFill, mustWrite, abortW, intr, exitStatus, listSt, nfault>>
  /\ \/ pc = "unblock_os" /\ pc' = (IF cfg.dec THEN "first_read" ELSE "inited") /\ UNCHANGED <<cur, hole>>
     \/ pc = "unblock_osfail" /\ pc' = "main" /\ cur' = cur + 1 /\ UNCHANGED hole
     \/ pc = "unblock_od" /\ pc' = "coding" /\ UNCHANGED cur /\ hole' \in MoreHole(hole)   \* first chunk gets decoded
     \/ pc = "unblock_odfail" /\ pc' = "closing" /\ UNCHANGED <<cur, hole>>
     \/ pc = "unblock_done" /\ pc' = "main" /\ cur' = cur + 1 /\ UNCHANGED hole

(* vmessage() (message_error/message_warning outside io_*()) and mytime_set_start_time() block and
   unblock the signals around code that touches no file *)
BlipPcs == {"main", "first_read", "inited", "coding", "closing"}
BlipBlock ==
  /\ Sys0 /\ pc \in BlipPcs /\ ~sigBlocked /\ ~blip /\ blip' = TRUE /\ sigBlocked' = TRUE
  /\ UNCHANGED <<pc, cur, fvars, pvars, iovars, exitStatus, listSt, nfault>>
BlipUnblock ==
  /\ Sys0 /\ blip /\ blip' = FALSE /\ sigBlocked' = FALSE
  /\ UNCHANGED <<pc, cur, fvars, pvars, iovars, exitStatus, listSt, nfault>>

----------------------------------------------------------------------------
(* io_open_src_real() *)
OpenSrc(r) ==
  /\ Sys /\ pc = "open_src" /\ Fault(r)
  /\ UNCHANGED <<cur, fvars, dstOpen, dirOpen, dstStKnown, restoreOut, success, iovars, sigBlocked, listSt>>
  /\ IF r = "ok" THEN srcOpen' = TRUE /\ pc' = "fstat_src" /\ UNCHANGED exitStatus
     ELSE srcOpen' = FALSE /\ pc' = "unblock_osfail" /\ exitStatus' = Err(exitStatus)

FstatSrc(r) ==
  /\ Sys /\ pc = "fstat_src" /\ Fault(r)
  /\ UNCHANGED <<cur, fvars, pvars, iovars, sigBlocked, listSt>>
  /\ IF r = "ok" THEN pc' = "fadvise" /\ UNCHANGED exitStatus
     ELSE pc' = "close_src_err" /\ exitStatus' = Err(exitStatus)

Fadvise(r) ==      \* result ignored
  /\ Sys /\ pc = "fadvise" /\ Fault(r) /\ pc' = "unblock_os"
  /\ UNCHANGED <<cur, fvars, pvars, iovars, sigBlocked, listSt, exitStatus>>

----------------------------------------------------------------------------
(* io_read(): read() on the source.  k: "full" (buffer filled), "short" (0 < n < requested),
   "eof" (0), "eintr", "err" *)
ReadG(k, trail) ==   \* trail: the one-more-byte read of coder_normal() after LZMA_STREAM_END (.lzma / raw: no
                     \* trailing garbage allowed); it is in the middle of a loop iteration: user_abort is not tested
  /\ Sys /\ ~srcEof
  /\ intr = "none" \/ (intr = "read" /\ ~userAbort)       \* EINTR: retry unless user_abort
  /\ abortW' = IF trail /\ userAbort THEN 3 ELSE abortW
  /\ \/ pc = "first_read" /\ ~trail
     \/ /\ pc = "coding" /\ ~mustWrite
        /\ mustFill \/ intr = "read" \/ ~userAbort \/ (trail /\ cfg.dec /\ ~mustFill /\ abortW < 3)
  /\ UNCHANGED <<cur, src, dst, dstSynced, dirSynced, dstClosedOk, cleanupBroken, envTouched, dstDamaged, lostForeign,
                 pvars, outFull, mustWrite, sigBlocked, listSt>>
  /\ intr' = IF k = "eintr" THEN "read" ELSE "none"
  /\ hole' \in IF pc = "coding" /\ k \in {"full", "eof"} THEN MoreHole(hole) ELSE {hole}
  /\ LET after == IF pc = "first_read" THEN "inited" ELSE "coding" IN
     CASE k = "full"  -> /\ mustFill' = FALSE /\ pc' = after
                         /\ UNCHANGED <<srcEof, exitStatus, nfault, ioFailed>>
       [] k = "short" -> /\ mustFill' = TRUE /\ pc' = pc
                         /\ UNCHANGED <<srcEof, exitStatus, nfault, ioFailed>>
       [] k = "eof"   -> /\ srcEof' = TRUE /\ mustFill' = FALSE /\ pc' = after
                         /\ UNCHANGED <<exitStatus, nfault, ioFailed>>
       [] k = "eintr" -> /\ Fault(k) /\ UNCHANGED <<srcEof, exitStatus, ioFailed, mustFill>> /\ pc' = pc
       [] k = "err"   -> /\ Fault(k) /\ UNCHANGED srcEof /\ mustFill' = FALSE
                         /\ exitStatus' = Err(exitStatus) /\ pc' = "closing" /\ ioFailed' = Set(ioFailed, TRUE)

Read(k) == ReadG(k, FALSE)
ReadTrail(k) == ReadG(k, TRUE)

----------------------------------------------------------------------------
(* io_open_dest_real() *)
FcntlOut(cmd, r) ==
  /\ Sys /\ cfg.stdout /\ Fault(r)
  /\ UNCHANGED <<cur, fvars, srcOpen, dstOpen, dirOpen, dstStKnown, iovars, sigBlocked, listSt>>
  /\ \/ /\ pc = "getfl_out" /\ cmd = "GETFL" /\ UNCHANGED <<restoreOut, success>>
        /\ IF r = "ok" THEN pc' = "setfl_out" /\ UNCHANGED exitStatus
           ELSE pc' = "unblock_odfail" /\ exitStatus' = Err(exitStatus)
     \/ /\ pc = "setfl_out" /\ cmd = "SETFL" /\ restoreOut' = (r = "ok")
        /\ pc' = "fstat_dst" /\ UNCHANGED <<exitStatus, success>>
     \/ /\ pc = "restore_out" /\ cmd = "SETFL" /\ restoreOut' = FALSE     \* io_close_dest()
        /\ pc' = "close_src"
        /\ IF r = "ok" THEN UNCHANGED <<exitStatus, success>>
           ELSE exitStatus' = Err(exitStatus) /\ success' = FALSE

OpenDir(r) ==
  /\ Sys /\ pc = "open_dir" /\ Fault(r)
  /\ UNCHANGED <<cur, fvars, srcOpen, dstOpen, dstStKnown, restoreOut, success, iovars, sigBlocked, listSt>>
  /\ IF r = "ok" THEN dirOpen' = TRUE /\ pc' = (IF cfg.force THEN "unlink_force" ELSE "open_dst")
                      /\ UNCHANGED exitStatus
     ELSE dirOpen' = FALSE /\ pc' = "unblock_odfail" /\ exitStatus' = Err(exitStatus)

(* unlink(target): with --force before creating it (r: "ok" | "noent" | "err"), or io_unlink() of junk *)
UnlinkDst(r) ==
  /\ Sys /\ ~cfg.stdout
  /\ UNCHANGED <<cur, src, dstSynced, dirSynced, dstClosedOk, ioFailed, envTouched, dstDamaged, pvars, iovars, sigBlocked, listSt>>
  /\ \/ /\ pc = "unlink_force"
        /\ CASE r = "ok"    -> dst[cur] # "absent" /\ dst' = Set(dst, "absent") /\ pc' = "open_dst"
                               /\ UNCHANGED <<exitStatus, nfault>>
             [] r = "noent" -> dst[cur] = "absent" /\ pc' = "open_dst" /\ UNCHANGED <<dst, exitStatus, nfault>>
             [] r = "err"   -> Fault(r) /\ pc' = OdError /\ exitStatus' = Err(exitStatus) /\ UNCHANGED dst
        /\ UNCHANGED <<cleanupBroken, lostForeign>>
     \/ /\ pc = "unlink_dst" /\ r \in {"ok", "err"} /\ Fault(r) /\ pc' = "close_src"
        /\ IF r = "ok"
           THEN /\ dst' = Set(dst, "absent") /\ lostForeign' = (lostForeign \/ dst[cur] = "foreign")
                /\ UNCHANGED <<exitStatus, cleanupBroken>>
           ELSE /\ exitStatus' = Warn(exitStatus) /\ cleanupBroken' = Set(cleanupBroken, TRUE)
                /\ UNCHANGED <<dst, lostForeign>>

(* open(target, O_WRONLY|O_CREAT|O_EXCL, 0600) *)
OpenDst(excl, r) ==
  /\ Sys /\ pc = "open_dst" /\ excl
  /\ UNCHANGED <<cur, src, dstSynced, dirSynced, dstClosedOk, ioFailed, cleanupBroken, envTouched, dstDamaged, lostForeign,
                 srcOpen, dirOpen, restoreOut, success, iovars, sigBlocked, listSt>>
  /\ IF r = "ok"
     THEN /\ dst[cur] = "absent"                 \* O_EXCL: an existing file makes the call fail
          /\ dst' = Set(dst, "partial") /\ dstOpen' = TRUE /\ dstStKnown' = FALSE /\ pc' = "fstat_dst"
          /\ UNCHANGED <<exitStatus, nfault>>
     ELSE /\ IF dst[cur] = "absent" THEN Fault(r) ELSE UNCHANGED nfault    \* EEXIST is not a fault
          /\ pc' = OdError /\ exitStatus' = Err(exitStatus) /\ UNCHANGED <<dst, dstOpen, dstStKnown>>

CloseDir(r) ==      \* result ignored in both places
  /\ Sys /\ dirOpen /\ Fault(r) /\ dirOpen' = FALSE
  /\ UNCHANGED <<cur, fvars, srcOpen, dstOpen, dstStKnown, restoreOut, success, iovars, sigBlocked, listSt, exitStatus>>
  /\ \/ pc = "close_dir_err" /\ pc' = "unblock_odfail"
     \/ pc = "close_dir" /\ pc' = "close_dst"

FstatDst(r) ==      \* failure: dest_st.st_dev = st_ino = 0, no message
  /\ Sys /\ pc = "fstat_dst" /\ Fault(r) /\ dstStKnown' = (r = "ok")
  /\ pc' = IF cfg.stdout /\ cfg.dec /\ r = "ok" THEN "lseek_out" ELSE "unblock_od"   \* "else if (try_sparse ..."
  /\ UNCHANGED <<cur, fvars, srcOpen, dstOpen, dirOpen, restoreOut, success, iovars, sigBlocked, listSt, exitStatus>>

(* lseek(): (a) stdout position probe for sparse output, (b) skipping a hole (io_write / io_close) *)
Lseek(r, own) ==       \* own: the skipped bytes are zeros of this file's content
  /\ Sys /\ cfg.dec /\ Fault(r)
  /\ UNCHANGED <<cur, src, dst, dstSynced, dirSynced, dstClosedOk, cleanupBroken, envTouched, lostForeign, pvars,
                 srcEof, outFull, mustFill, abortW, intr, sigBlocked, listSt>>
  /\ \/ /\ pc = "lseek_out" /\ pc' = "unblock_od" /\ UNCHANGED <<mustWrite, exitStatus, ioFailed, hole, dstDamaged>>
     \/ /\ pc = "coding" /\ ~outFull /\ ~mustFill /\ ~mustWrite /\ intr = "none" /\ (~userAbort \/ abortW < 2)
        /\ hole # 0 /\ own = (hole = cur)          \* only a pending hole is ever skipped
        /\ IF r = "ok" THEN /\ mustWrite' = TRUE /\ pc' = pc /\ hole' = 0 /\ UNCHANGED <<exitStatus, ioFailed>>
                            /\ dstDamaged' = IF own THEN dstDamaged ELSE Set(dstDamaged, TRUE)
           ELSE /\ UNCHANGED <<mustWrite, hole, dstDamaged>> /\ pc' = "closing" /\ exitStatus' = Err(exitStatus)
                /\ ioFailed' = Set(ioFailed, TRUE)

(* io_write_buf(): write() on the target.  k: "all" | "short" | "eintr" | "err";
   full: the bytes written so far are the whole content *)
Write(k, full) ==
  /\ Sys /\ pc = "coding" /\ ~outFull /\ ~mustFill
  /\ intr = "none" \/ (intr = "write" /\ ~userAbort)      \* EINTR: retry unless user_abort
  /\ mustWrite \/ intr = "write" \/ ~userAbort \/ abortW < 2   \* at most the rest of one loop iteration after a signal
  /\ intr' = IF k = "eintr" THEN "write" ELSE "none"
  /\ hole' \in IF k = "all" THEN MoreHole(hole) ELSE {hole}
  /\ UNCHANGED <<cur, src, dirSynced, dstClosedOk, cleanupBroken, envTouched, dstDamaged, lostForeign, pvars,
                 srcEof, mustFill, sigBlocked, listSt>>
  /\ CASE k = "all"   -> /\ mustWrite' = FALSE /\ outFull' = full /\ pc' = pc
                         /\ abortW' = IF userAbort THEN abortW + 1 ELSE abortW
                         /\ dst' = IF dst[cur] \in {"absent", "partial"}
                                   THEN Set(dst, IF full /\ ~dstDamaged[cur] THEN "complete" ELSE "partial") ELSE dst
                         /\ dstSynced' = Set(dstSynced, FALSE)
                         /\ UNCHANGED <<exitStatus, nfault, ioFailed>>
       [] k = "short" -> /\ ~full /\ mustWrite' = TRUE /\ pc' = pc
                         /\ dst' = IF dst[cur] = "absent" THEN Set(dst, "partial") ELSE dst
                         /\ dstSynced' = Set(dstSynced, FALSE)
                         /\ UNCHANGED <<outFull, abortW, exitStatus, nfault, ioFailed>>
       [] k = "eintr" -> /\ ~full /\ Fault(k) /\ pc' = pc
                         /\ UNCHANGED <<outFull, abortW, dst, dstSynced, exitStatus, ioFailed, mustWrite>>
       [] k = "err"   -> /\ ~full /\ Fault(k) /\ mustWrite' = FALSE /\ pc' = "closing"
                         /\ exitStatus' = Err(exitStatus) /\ ioFailed' = Set(ioFailed, TRUE)
                         /\ UNCHANGED <<outFull, abortW, dst, dstSynced>>

----------------------------------------------------------------------------
(* io_close(): io_copy_attrs(), io_sync_dest() -- all under signals_block() *)
Fchown(r) ==     \* failure: warning (the harness runs as root: warn_fchown)
  /\ Sys /\ pc = "fchown" /\ Fault(r) /\ pc' = "fchmod"
  /\ exitStatus' = IF r = "ok" THEN exitStatus ELSE Warn(exitStatus)
  /\ UNCHANGED <<cur, fvars, pvars, iovars, sigBlocked, listSt>>
Fchmod(r) ==
  /\ Sys /\ pc = "fchmod" /\ Fault(r) /\ pc' = "utimens"
  /\ exitStatus' = IF r = "ok" THEN exitStatus ELSE Warn(exitStatus)
  /\ UNCHANGED <<cur, fvars, pvars, iovars, sigBlocked, listSt>>
Utimens(r) ==    \* (void)futimens()
  /\ Sys /\ pc = "utimens" /\ Fault(r)
  /\ pc' = IF Sync THEN "fsync_dst" ELSE CdPoint(dstOpen, dirOpen, restoreOut)
  /\ UNCHANGED <<cur, fvars, pvars, iovars, sigBlocked, listSt, exitStatus>>
FsyncDst(r) ==
  /\ Sys /\ pc = "fsync_dst" /\ Fault(r)
  /\ UNCHANGED <<cur, src, dst, dirSynced, dstClosedOk, cleanupBroken, envTouched, dstDamaged, lostForeign,
                 srcOpen, dstOpen, dirOpen, dstStKnown, restoreOut, iovars, sigBlocked, listSt>>
  /\ IF r = "ok" THEN /\ dstSynced' = Set(dstSynced, TRUE) /\ pc' = "fsync_dir"
                      /\ UNCHANGED <<success, exitStatus, ioFailed>>
     ELSE /\ success' = FALSE /\ exitStatus' = Err(exitStatus) /\ ioFailed' = Set(ioFailed, TRUE)
          /\ pc' = CdPoint(dstOpen, dirOpen, restoreOut) /\ UNCHANGED dstSynced
FsyncDir(r) ==
  /\ Sys /\ pc = "fsync_dir" /\ Fault(r) /\ pc' = CdPoint(dstOpen, dirOpen, restoreOut)
  /\ UNCHANGED <<cur, src, dst, dstSynced, dstClosedOk, cleanupBroken, envTouched, dstDamaged, lostForeign,
                 srcOpen, dstOpen, dirOpen, dstStKnown, restoreOut, iovars, sigBlocked, listSt>>
  /\ IF r = "ok" THEN dirSynced' = Set(dirSynced, TRUE) /\ UNCHANGED <<success, exitStatus, ioFailed>>
     ELSE /\ success' = FALSE /\ exitStatus' = Err(exitStatus) /\ ioFailed' = Set(ioFailed, TRUE)
          /\ UNCHANGED dirSynced

(* io_close_dest(): close the target first; a failed close or an unsuccessful operation removes it *)
CloseDst(r) ==
  /\ Sys /\ pc = "close_dst" /\ Fault(r) /\ dstOpen' = FALSE
  /\ UNCHANGED <<cur, src, dst, dstSynced, dirSynced, cleanupBroken, envTouched, dstDamaged, lostForeign,
                 srcOpen, dirOpen, dstStKnown, restoreOut, iovars, sigBlocked, listSt>>
  /\ IF r = "ok"
     THEN /\ dstClosedOk' = Set(dstClosedOk, TRUE) /\ UNCHANGED <<success, exitStatus, ioFailed>>
          /\ pc' = IF success THEN "close_src" ELSE "stat_dst"
     ELSE /\ success' = FALSE /\ exitStatus' = Err(exitStatus) /\ ioFailed' = Set(ioFailed, TRUE)
          /\ pc' = "stat_dst" /\ UNCHANGED dstClosedOk

(* io_unlink(): lstat() (stat() with --force) and compare st_dev/st_ino with what fstat() saw *)
StatDst(nofollow, r) ==
  /\ Sys /\ pc = "stat_dst" /\ nofollow = ~cfg.force /\ Fault(r)
  /\ UNCHANGED <<cur, src, dst, dstSynced, dirSynced, dstClosedOk, ioFailed, envTouched, dstDamaged, lostForeign,
                 pvars, iovars, sigBlocked, listSt>>
  /\ IF r = "ok" /\ dst[cur] \in {"partial", "complete"} /\ dstStKnown
     THEN pc' = "unlink_dst" /\ UNCHANGED <<exitStatus, cleanupBroken>>
     ELSE pc' = "close_src" /\ exitStatus' = Warn(exitStatus) /\ cleanupBroken' = Set(cleanupBroken, TRUE)

(* io_close_src(): close, then remove the source only if success and not --keep *)
CloseSrc(r) ==   \* (void)close()
  /\ Sys /\ srcOpen /\ Fault(r) /\ srcOpen' = FALSE
  /\ UNCHANGED <<cur, fvars, dstOpen, dirOpen, dstStKnown, restoreOut, success, iovars, sigBlocked, listSt, exitStatus>>
  /\ \/ pc = "close_src_err" /\ pc' = "unblock_osfail"
     \/ pc = "close_src" /\ pc' = IF success /\ ~KeepSrc THEN "stat_src" ELSE "unblock_done"

StatSrc(nofollow, r) ==
  /\ Sys /\ pc = "stat_src" /\ nofollow = ~cfg.force /\ Fault(r)
  /\ UNCHANGED <<cur, fvars, pvars, iovars, sigBlocked, listSt>>
  /\ IF r = "ok" /\ src[cur] = "present"
     THEN pc' = "unlink_src" /\ UNCHANGED exitStatus
     ELSE pc' = "unblock_done" /\ exitStatus' = Warn(exitStatus)

UnlinkSrc(r) ==
  /\ Sys /\ pc = "unlink_src" /\ Fault(r) /\ pc' = "unblock_done"
  /\ UNCHANGED <<cur, dst, dstSynced, dirSynced, dstClosedOk, ioFailed, cleanupBroken, envTouched, dstDamaged,
                 pvars, iovars, sigBlocked, listSt>>
  /\ IF r = "ok" THEN /\ src' = Set(src, "absent") /\ lostForeign' = (lostForeign \/ src[cur] = "foreign")
                      /\ UNCHANGED exitStatus
     ELSE exitStatus' = Warn(exitStatus) /\ UNCHANGED <<src, lostForeign>>

----------------------------------------------------------------------------
(* main(): --files.  read_name() returns NULL at once when user_abort is set; stdio reads the whole
   (small) list with one read(); the second read() returns 0.  k: "data" | "eof" | "err" | "eintr" (retried: read_name() "continue") *)
ListRead(k) ==
  /\ Sys /\ pc = "main" /\ cfg.files /\ ~userAbort /\ pc' = pc
  /\ UNCHANGED <<cur, fvars, pvars, iovars, sigBlocked>>
  /\ CASE k = "data" -> listSt = "unread" /\ listSt' = "buffered" /\ UNCHANGED <<exitStatus, nfault>>
       [] k = "eof"  -> listSt = "buffered" /\ ~NamesLeft     \* the list names exactly cfg.nf files
                        /\ listSt' = "done" /\ UNCHANGED <<exitStatus, nfault>>
       [] k = "err"  -> /\ (listSt = "unread" \/ (listSt = "buffered" /\ ~NamesLeft)) /\ Fault(k)
                        /\ listSt' = "done" /\ exitStatus' = Err(exitStatus)
       [] k = "eintr" -> /\ (listSt = "unread" \/ (listSt = "buffered" /\ ~NamesLeft)) /\ Fault(k)
                        /\ UNCHANGED <<listSt, exitStatus>>
ListClose ==     \* (void)fclose(args.files_file)
  /\ Sys /\ pc = "main" /\ cfg.files /\ listSt \in {"unread", "buffered", "done"}
  /\ listSt = "done" \/ userAbort
  /\ listSt' = "closed" /\ pc' = pc
  /\ UNCHANGED <<cur, fvars, pvars, iovars, sigBlocked, exitStatus, nfault>>

----------------------------------------------------------------------------
(* end of main(): signals_exit() re-raises with the default action, else tuklib_exit() *)
SigDfl(s) ==
  /\ Sys /\ ExitReady /\ exitSignal # "none" /\ s = exitSignal /\ pc' = "x_raise"
  /\ UNCHANGED <<cur, fvars, pvars, iovars, sigBlocked, listSt, exitStatus, nfault>>
Raise(s) ==
  /\ Sys /\ pc = "x_raise" /\ s = exitSignal /\ pc' = "x_died"
  /\ UNCHANGED <<cur, fvars, pvars, iovars, sigBlocked, listSt, exitStatus, nfault>>
Died(s) ==
  /\ pc = "x_died" /\ s = exitSignal /\ pc' = "dead"
  /\ UNCHANGED <<cfg, cur, fvars, pvars, iovars, sigvars, listSt, exitStatus, nfault>>
CloseStdout(r) ==   \* fclose(stdout) only if status != E_ERROR
  /\ Sys /\ ExitReady /\ exitSignal = "none" /\ exitStatus # 1 /\ Fault(r)
  /\ exitStatus' = IF r = "ok" THEN exitStatus ELSE 1
  /\ pc' = IF r = "ok" THEN "x_close2" ELSE "x_exit"
  /\ UNCHANGED <<cur, fvars, pvars, iovars, sigBlocked, listSt>>
CloseStderr(r) ==
  /\ Sys /\ pc = "x_close2" /\ Fault(r) /\ pc' = "x_exit"
  /\ exitStatus' = IF r = "ok" THEN exitStatus ELSE 1
  /\ UNCHANGED <<cur, fvars, pvars, iovars, sigBlocked, listSt>>
Exit(st) ==
  /\ Sys /\ st = exitStatus /\ pc' = "exited"
  /\ pc = "x_exit" \/ (ExitReady /\ exitSignal = "none" /\ exitStatus = 1)
  /\ UNCHANGED <<cur, fvars, pvars, iovars, sigBlocked, listSt, exitStatus, nfault>>

----------------------------------------------------------------------------
(* environment *)
SigSend(s) ==      \* sent while the program enters its next system call
  /\ pc \notin Terminal \cup {"x_raise", "x_died"} /\ sigPending = "none" /\ ~sigGrace
  /\ nsig < MaxSigs /\ nsig' = nsig + 1
  /\ sigPending' = s /\ sigGrace' = TRUE
  /\ UNCHANGED <<cfg, pc, cur, fvars, pvars, iovars, userAbort, exitSignal, sigBlocked, blip, exitStatus, listSt, nfault>>

SigDeliver(s) ==   \* signal_handler(): exit_signal = sig; user_abort = true; (write to the self-pipe)
  /\ pc \notin Terminal /\ DeliverDue /\ s = sigPending
  /\ userAbort' = TRUE /\ exitSignal' = s /\ sigPending' = "none"
  /\ UNCHANGED <<cfg, pc, cur, fvars, pvars, iovars, sigBlocked, sigGrace, nsig, blip, exitStatus, listSt, nfault>>

Kill ==            \* SIGKILL / power cut of the process: the file system stays as it is
  /\ pc \notin Terminal /\ pc' = "killed"
  /\ UNCHANGED <<cfg, cur, fvars, pvars, iovars, sigvars, exitStatus, listSt, nfault>>

(* somebody renames the file xz has open and puts another file under the name *)
EnvReplace(what) ==
  /\ pc \notin Terminal /\ nfault < MaxFaults /\ nfault' = nfault + 1 /\ cur \in Files
  /\ envTouched' = Set(envTouched, TRUE)
  /\ pc # "main"                              \* while xz works on the file
  \* (not in the window between lstat() and unlink(): the race io_unlink() documents as unavoidable)
  /\ \/ what = "src" /\ src[cur] = "present" /\ pc # "unlink_src" /\ src' = Set(src, "foreign") /\ UNCHANGED dst
     \/ what = "dst" /\ ~cfg.stdout /\ dst[cur] \in {"partial", "complete"} /\ pc # "unlink_dst"
        /\ dst' = Set(dst, "foreign") /\ UNCHANGED src
  /\ UNCHANGED <<cfg, pc, cur, dstSynced, dirSynced, dstClosedOk, ioFailed, cleanupBroken, dstDamaged, lostForeign,
                 pvars, iovars, sigvars, exitStatus, listSt>>

R2 == {"ok", "err"}
Next ==
  \/ Block \/ Unblock \/ BlipBlock \/ BlipUnblock
  \/ \E r \in R2 : OpenSrc(r) \/ FstatSrc(r) \/ Fadvise(r) \/ OpenDir(r) \/ OpenDst(TRUE, r) \/ CloseDir(r)
                   \/ FstatDst(r) \/ (\E o \in BOOLEAN : Lseek(r, o)) \/ Fchown(r) \/ Fchmod(r) \/ Utimens(r) \/ FsyncDst(r) \/ FsyncDir(r)
                   \/ CloseDst(r) \/ CloseSrc(r) \/ UnlinkSrc(r) \/ CloseStdout(r) \/ CloseStderr(r)
                   \/ StatDst(~cfg.force, r) \/ StatSrc(~cfg.force, r)
                   \/ FcntlOut("GETFL", r) \/ FcntlOut("SETFL", r)
  \/ \E r \in {"ok", "noent", "err"} : UnlinkDst(r)
  \/ \E k \in {"full", "short", "eof", "eintr", "err"} : Read(k) \/ ReadTrail(k)
  \/ \E k \in {"all", "short", "eintr", "err"}, f \in BOOLEAN : Write(k, f)
  \/ \E k \in {"data", "eof", "err", "eintr"} : ListRead(k)
  \/ ListClose
  \/ \E s \in Sigs : SigSend(s) \/ SigDeliver(s) \/ SigDfl(s) \/ Raise(s) \/ Died(s)
  \/ \E st \in 0..2 : Exit(st)
  \/ Kill
  \/ \E w \in {"src", "dst"} : EnvReplace(w)

Spec == (\E c \in Cfgs({1, 2}, Kinds) : InitWith(c)) /\ [][Next]_vars
=============================================================================
