SPECIFICATION Spec
CONSTANTS DictSize = 9 Opts = 3 ChunkMax = 12 Reserve = 1 MaxLen = 3 MaxPos = 34
INVARIANTS ChunkStaysInWindow UncompressedFits DictInWindow
CHECK_DEADLOCK FALSE
