------------------------------- MODULE Starve --------------------------------
(* C04, spec-decidable clauses on the LzmaCode o SliceCoder composition:      *)
(*  - every call returns a code documented for the entry point; the internal *)
(*    codes never escape (DocumentedOnly, NoInternal);                        *)
(*  - a caller that stops supplying input and/or output space is told        *)
(*    LZMA_BUF_ERROR (or gets a terminal code) after finitely many calls:     *)
(*    StarveLive, checked under weak fairness of the application's actions,   *)
(*    and within StarveBound calls when it supplies neither (StarveBounded).  *)
(* The application of Slicing is extended with BeginStarve(mode): from then   *)
(* on Feed is restricted to 0 new bytes (mode "in"/"both") and OutSpace to 0  *)
(* bytes (mode "out"/"both").                                                 *)
EXTENDS MCSlicing, StarveDoc

VARIABLES nostall,   \* consecutive calls without progress that did not return LZMA_BUF_ERROR
          starved,   \* "no" | "in" | "out" | "both"
          since,     \* calls made since starvation began
          told       \* LZMA_BUF_ERROR was returned since starvation began

stvars == <<allvars, starved, since, told, nostall>>

Entry == CASE Family = "xz" -> "stream_decoder" [] Family = "lzma1" -> "alone_decoder"
           [] Family = "lzip" -> "lzip_decoder" [] Family = "bcj" -> "block_decoder"

StInit == SliceInit /\ starved = "no" /\ since = 0 /\ told = FALSE /\ nostall = 0

BeginStarve(mode) ==
    /\ starved = "no" /\ phase = "feed" /\ ~done
    /\ starved' = mode /\ since' = 0 /\ told' = FALSE
    /\ UNCHANGED <<allvars, nostall>>

StFeed(k) == /\ Feed(k) /\ (starved \in {"in", "both"} => k = 0) /\ UNCHANGED <<starved, since, told, nostall>>
StSpace(m) == /\ OutSpace(m) /\ (starved \in {"out", "both"} => m = 0) /\ UNCHANGED <<starved, since, told, nostall>>
StCall == /\ DoCall
          /\ since' = IF starved = "no" THEN 0 ELSE IF since < 9 THEN since + 1 ELSE since   \* saturating
          /\ told' = (told \/ (starved # "no" /\ obs'.ret = "BUF_ERROR"))
          /\ nostall' = IF obs'.uin = 0 /\ obs'.uout = 0 /\ obs'.ret # "BUF_ERROR" /\ ~done' THEN (IF nostall < 9 THEN nostall + 1 ELSE nostall) ELSE 0
          /\ UNCHANGED starved

\* consecutive calls that neither consumed nor produced anything (whatever they returned, LZMA_BUF_ERROR excepted)
\* a notification may come once, then progress must resume
StNext == \/ \E mode \in {"in", "out", "both"} : BeginStarve(mode)
          \/ \E k \in 0..MaxFeed : StFeed(k)
          \/ StFeed(inp.have - fed)
          \/ \E m \in Grants : StSpace(m)
          \/ (~told /\ StCall)          \* the caller stops once it has been told

App == (\E k \in 0..MaxFeed : StFeed(k)) \/ StFeed(inp.have - fed) \/ (\E m \in Grants : StSpace(m)) \/ (~told /\ StCall)
StSpec == StInit /\ [][StNext]_stvars /\ WF_stvars(App)

\* A coder that answers "nothing happened, try again" (LZMA_TIMED_OUT -> LZMA_OK, allow_buf_error cleared) whenever it
\* cannot progress never lets lzma_code() report LZMA_BUF_ERROR: MCStarveLazy.cfg must violate StarveLive.
LazyRet(r, ain, aout) == IF r.ret = "OK" /\ r.uin = 0 /\ Len(r.out) = 0 THEN "TIMED_OUT" ELSE r.ret
\* The same weakness restricted to calls where BOTH buffers are non-empty ("LZMA_BUF_ERROR is about the buffers"):
\* MCStarveStopLazy.cfg must violate StallBounded on the inputs that end in an internal limit (FStop).
LazyBothRet(r, ain, aout) == IF r.ret = "OK" /\ r.uin = 0 /\ Len(r.out) = 0 /\ ain > 0 /\ aout > 0 THEN "TIMED_OUT" ELSE r.ret

DocumentedOnly == obs.kind = "call" => obs.ret \in Documented(Entry)
StarveLive     == (starved # "no") ~> (told \/ done)
StarveBounded  == (starved = "both" /\ ~told /\ ~done) => since < StarveBound(Entry)
\* BUF_ERROR is not fatal: the coder can be continued afterwards (sequence unchanged)
StallBounded   == nostall < StarveBound(Entry)
BufErrorResumable == told => seq \in {"RUN", "FINISH"}
=============================================================================
