SPECIFICATION Spec
CONSTANTS Variant = "ok" BaseSet = "thorough"
INVARIANTS NeverWrongSuccess DamageOutsidePayloadDetected TruncatedNeverComplete BoundaryCutIsPrefix UnseenIsHarmless NoFaultNoError RetDocumented
CHECK_DEADLOCK FALSE
