SPECIFICATION Spec
INVARIANT Agrees
CONSTRAINT Emit
CHECK_DEADLOCK FALSE
