SPECIFICATION Spec
CONSTANTS
 Modes <- AllModes
 KindSet = {"reg"}
 DstSet = {"none"}
 NlinkSet = {1}
 OpModes = {"compress"}
 KeepSet = {TRUE, FALSE}
 ForceSet = {FALSE}
 StdoutSet = {FALSE}
 NameSet = {TRUE}
 PayloadSet = {TRUE}
 UidSameSet = {FALSE}
 GidSameSet = {TRUE, FALSE}
 OwnSet = {TRUE, FALSE}
 GrpSet = {TRUE, FALSE}
 ChmodSet = {TRUE}
 TailSet = {"data"}
 NoSparseSet = {FALSE}
 NoWarnSet = {FALSE}
INVARIANTS NoOverwrite NonRegularNeverWritten StrictRefusal ModeSafe ModeNoSpecial ModeExact
 ModeRestricted OwnerGroupTimes KeepKeeps RemovedOnlyOnSuccess RemovedOnSuccess ExitOK CreateExclusive NoWriteAfterTimes HoleFinished StdinTouchesNothing
CHECK_DEADLOCK FALSE
