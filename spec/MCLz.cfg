SPECIFICATION Spec
CONSTANTS DictSize = 3 MinDict = 4 Align = 2 RepMax = 3
 Bytes = {1, 2} MaxOut = 13 MaxDist = 5 Lens = {2, 3} Variant = "ok"
INVARIANTS TypeOK VerdictAgrees RingMatchesHistory StateIsLitIffLastLit
PROPERTIES RelaxedOnly NeverStricter
CHECK_DEADLOCK FALSE
