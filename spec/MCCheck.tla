------------------------------ MODULE MCCheck ------------------------------
(* (M) for C14: the check interface fed in ANY pieces returns the value the  *)
(* definition gives for the whole data, the running CRC after every piece is *)
(* the bit-serial CRC of the prefix (so Crc(a \o b, c) = Crc(b, Crc(a, c))   *)
(* and the derived byte table agrees with the bit-serial definition), the    *)
(* uninitialised SHA-256 buffer content does not matter, and the definitions *)
(* reproduce the published check values.                                     *)
EXTENDS Check, TLC, FiniteSets

CONSTANTS Alphabet, MaxLen, PieceSizes, ShaLens
Inits32 == {<<0, 0>>, <<65535, 65535>>, <<1, 0>>, <<\h1234, \hABCD>>}
Inits64 == {<<0, 0, 0, 0>>, <<65535, 65535, 65535, 65535>>, <<1, 0, 0, 32768>>}

VARIABLES type, data, done, st, out
vars == <<type, data, done, st, out>>

RECURSIVE Strings(_)
Strings(n) == IF n = 0 THEN {<<>>} ELSE LET S == Strings(n - 1) IN S \cup {Append(s, a) : s \in {x \in S : Len(x) = n - 1}, a \in Alphabet}
CrcStrings == Strings(MaxLen)
ShaStrings == {Content("lcg", n, 7 + n) : n \in ShaLens} \cup {Content("ff", n, 0) : n \in {55, 56, 64}}

Init == /\ type \in Types
        /\ data \in (IF type = "sha256" THEN ShaStrings ELSE CrcStrings)
        /\ \E junk \in {0, 255} : st = CkInitJ(type, junk)
        /\ done = 0
        /\ out = <<>>
Update(n) == /\ out = <<>> /\ done + n <= Len(data)
             /\ st' = CkUpdate(type, st, SubSeq(data, done + 1, done + n))
             /\ done' = done + n
             /\ UNCHANGED <<type, data, out>>
Finish == /\ out = <<>> /\ done = Len(data)
          /\ out' = CkFinish(type, st)
          /\ UNCHANGED <<type, data, done, st>>
Next == (\E n \in PieceSizes : Update(n)) \/ Finish
Spec == Init /\ [][Next]_vars

\* ---- properties
FinalIsDefinition == out # <<>> => out = CkDef(type, data) /\ Len(out) = CheckSize(type)
RunningCrcIsPrefixCrc ==
    /\ type = "crc32" => st.crc = Crc32Def(SubSeq(data, 1, done), <<0, 0>>)
    /\ type = "crc64" => st.crc = Crc64Def(SubSeq(data, 1, done), <<0, 0, 0, 0>>)
ShaSizeCounts == type = "sha256" => st.size = done

\* ---- constant-level facts (evaluated once by TLC)
Digits == <<49, 50, 51, 52, 53, 54, 55, 56, 57>>             \* "123456789"
Abc == <<97, 98, 99>>
Abc56 == <<97,98,99,100, 98,99,100,101, 99,100,101,102, 100,101,102,103, 101,102,103,104, 102,103,104,105,
           103,104,105,106, 104,105,106,107, 105,106,107,108, 106,107,108,109, 107,108,109,110,
           108,109,110,111, 109,110,111,112, 110,111,112,113>>
\* digests below are written most significant byte first, as in the publications
W4(a, b, c, d) == <<a \div 256, a % 256, b \div 256, b % 256, c \div 256, c % 256, d \div 256, d % 256>>
ASSUME KnownCrc32 == Crc32Def(Digits, <<0, 0>>) = <<\h3926, \hCBF4>> /\ Crc32(Digits, <<0, 0>>) = <<\h3926, \hCBF4>>
ASSUME KnownCrc64 == Crc64Def(Digits, <<0, 0, 0, 0>>) = <<\h39FA, \hDF19, \hC9BB, \h995D>>
                     /\ Crc64(Digits, <<0, 0, 0, 0>>) = <<\h39FA, \hDF19, \hC9BB, \h995D>>
ASSUME KnownShaAbc == Sha256Def(Abc) = W4(\hba78, \h16bf, \h8f01, \hcfea) \o W4(\h4141, \h40de, \h5dae, \h2223)
                                    \o W4(\hb003, \h61a3, \h9617, \h7a9c) \o W4(\hb410, \hff61, \hf200, \h15ad)
ASSUME KnownShaEmpty == Sha256Def(<<>>) = W4(\he3b0, \hc442, \h98fc, \h1c14) \o W4(\h9afb, \hf4c8, \h996f, \hb924)
                                      \o W4(\h27ae, \h41e4, \h649b, \h934c) \o W4(\ha495, \h991b, \h7852, \hb855)
ASSUME KnownSha56 == Sha256Def(Abc56) = W4(\h248d, \h6a61, \hd206, \h38b8) \o W4(\he5c0, \h2693, \h0c3e, \h6039)
                                    \o W4(\ha33c, \he459, \h64ff, \h2167) \o W4(\hf6ec, \hedd4, \h19db, \h06c1)
\* Crc(a \o b, c) = Crc(b, Crc(a, c)) for every split and non-zero initial values
ASSUME SplitLaw32 == \A s \in Strings(3) : \A k \in 0..Len(s) : \A c \in Inits32 :
          Crc32Def(s, c) = Crc32Def(SubSeq(s, k + 1, Len(s)), Crc32Def(SubSeq(s, 1, k), c))
          /\ Crc32(s, c) = Crc32Def(s, c)
ASSUME SplitLaw64 == \A s \in Strings(3) : \A k \in 0..Len(s) : \A c \in Inits64 :
          Crc64Def(s, c) = Crc64Def(SubSeq(s, k + 1, Len(s)), Crc64Def(SubSeq(s, 1, k), c))
          /\ Crc64(s, c) = Crc64Def(s, c)
\* the closed form for runs of zero bytes equals the bit-serial definition (lengths 0..70, 255..257)
ASSUME ZeroRun32 == \A n \in (0..70) \cup {255, 256, 257} : \A c \in Inits32 :
          ZeroRun(Poly32, <<n, 0, 0>>, c) = Crc32Def([i \in 1..n |-> 0], c)
ASSUME ZeroRun64 == \A n \in (0..70) \cup {255, 256, 257} : \A c \in Inits64 :
          ZeroRun(Poly64, <<n, 0, 0>>, c) = Crc64Def([i \in 1..n |-> 0], c)
\* the SHA-256 length field: 8 * n as a 64-bit big-endian number, across the 2^32-bit boundary
ASSUME BitLen == /\ BitLenBE(3) = <<0, 0, 0, 0, 0, 0, 0, 24>>
                 /\ BitLenBE(536870911) = <<0, 0, 0, 0, 255, 255, 255, 248>>
                 /\ BitLenBE(536870912) = <<0, 0, 0, 1, 0, 0, 0, 0>>
                 /\ BitLenBE(536870912 + 8193) = <<0, 0, 0, 1, 0, 1, 0, 8>>
                 /\ BitLenBE(2147483647) = <<0, 0, 0, 3, 255, 255, 255, 248>>
\* the polynomial is table entry 0x80 (a single 1 bit entering the register)
ASSUME TablePoly == Table32[128] = Poly32 /\ Table64[128] = Poly64 /\ Table32[0] = <<0, 0>>
=============================================================================
