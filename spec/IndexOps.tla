------------------------------ MODULE IndexOps ------------------------------
(* An interpreter of histories of lzma_index_* calls over a small register   *)
(* file of indexes and one long-lived iterator, built on Index.tla.          *)
(*                                                                           *)
(*   st == [reg |-> [slot |-> index or NoIndex], it |-> [slot, p]]           *)
(*   o  == Op(...) a uniform record (unused fields have defaults)            *)
(*   Apply(st, o) == [st, ret, why, touched, info]                           *)
(*                                                                           *)
(* Apply is a function of its arguments, so the same definition drives the   *)
(* state machine explored by TLC (MCIndex), the plans TLC generates          *)
(* (GenIndex) and the evaluation of externally supplied histories            *)
(* (EvalIndex).  `ret`/`why` are the predicted return value and the name of  *)
(* the rule that decided it; `touched` the slots whose observation must be   *)
(* compared after the call.                                                  *)
EXTENDS Index

CONSTANTS NSlots,             \* number of index registers
          USizes, VSizes, Pads, \* value classes (IndexBig numbers) offered to append / stream_padding
          FlagSet,              \* Stream Flags offered to stream_flags (records like Index!NoFlags with set = TRUE)
          MaxStreams, MaxRecs   \* bounds on the total number of Streams / Records over all registers
Slots == 1..NSlots

Op(op, k, j, u, v, n, m, f) == [op |-> op, k |-> k, j |-> j, u |-> u, v |-> v, n |-> n, m |-> m, f |-> f]
NoIter == [slot |-> 0, p |-> <<0, 0>>]
\* hash: the lzma_index_hash object (index_hash.c): the Records appended so far, or not allocated / used up
NoHash == [live |-> FALSE, recs |-> <<>>]
St0 == [reg |-> [k \in Slots |-> IF k = 1 THEN EmptyIndex ELSE NoIndex], it |-> NoIter, hash |-> NoHash]

Out(st, ret, why, touched, info) == [st |-> st, ret |-> ret, why |-> why, touched |-> touched, info |-> info]
NoInfo == [s |-> 0, b |-> 0, cnt |-> 0]

\* the Stream and Block an iterator at position q shows (Block number in file, 0 = undefined)
IterInfo(i, q) == [s |-> q[1], b |-> IF q[2] = 0 THEN 0 ELSE Layout(i).st[q[1]].first + q[2] - 1, cnt |-> 0]
PosOfBlock(i, nfile) == LET b == Layout(i).bl[nfile] IN <<b.s, b.nstream>>

Copies(x, n) == [k \in 1..n |-> x]
RECURSIVE IPow(_, _)
IPow(b, e) == IF e = 0 THEN 1 ELSE b * IPow(b, e - 1)
Digit(n, j, base) == (n \div IPow(base, j)) % base
\* Stream shapes of the families: no Blocks / one empty Block / one Block of 5 bytes / an empty Block then one of 5 bytes
StreamShape(d) == CASE d = 0 -> <<>>
                    [] d = 1 -> <<Rec(BigOf(8), Zero)>>
                    [] d = 2 -> <<Rec(BigOf(8), BigOf(5))>>
                    [] d = 3 -> <<Rec(BigOf(8), Zero), Rec(BigOf(9), BigOf(5))>>

Apply(st, o) ==
    LET reg == st.reg
        it == st.it
        dropIter(k) == IF it.slot = k THEN NoIter ELSE it
        upd(k, r) == Out([st EXCEPT !.reg[k] = r.idx], r.ret, r.why, {k}, NoInfo)
    IN
    CASE o.op = "init" -> Out([st EXCEPT !.reg[o.k] = EmptyIndex], "OK", "ok", {o.k}, NoInfo)
      [] o.op = "end" -> Out([st EXCEPT !.reg[o.k] = NoIndex, !.it = dropIter(o.k)], "OK", "ok", {}, NoInfo)
      [] o.op = "append" -> upd(o.k, DoAppend(reg[o.k], o.u, o.v))
      [] o.op = "appendn" ->          \* o.n times the same small Record; generated only when the result is valid
            LET i == reg[o.k]
                j == WithLast(i, [LastStream(i) EXCEPT !.recs = @ \o Copies(Rec(o.u, o.v), o.n)])
            IN  upd(o.k, Res("OK", "ok", j))
      [] o.op = "flags" -> upd(o.k, DoFlags(reg[o.k], o.f))
      [] o.op = "padding" -> upd(o.k, DoPadding(reg[o.k], o.u))
      [] o.op = "cat" ->
            LET r == DoCat(reg[o.k], reg[o.j])
            IN  IF r.ret = "OK"
                THEN Out([st EXCEPT !.reg[o.k] = r.idx, !.reg[o.j] = NoIndex, !.it = dropIter(o.j)],
                         "OK", "ok", {o.k}, NoInfo)
                ELSE Out(st, r.ret, r.why, {o.k, o.j}, NoInfo)
      [] o.op = "catn" ->             \* o.n times: a fresh index with o.m Records (o.u, o.v), flags o.f, padding 4*o.j, cat
            \* (small values only, so every cat succeeds; the result of repeating DoCat written out directly)
            LET s == [recs |-> Copies(Rec(o.u, o.v), o.m), flags |-> o.f, pad |-> BigOf(4 * o.j)]
                d == reg[o.k]
            IN  upd(o.k, Res("OK", "ok", [streams |-> d.streams \o Copies(s, o.n),
                                          acc |-> ChecksOp(d) \cup (IF o.n >= 2 /\ o.f.set THEN {o.f.check} ELSE {})]))
      [] o.op = "streams" ->          \* o.m Streams cat'ed one by one; digit d of o.n in base o.j gives the shape of Stream d
            LET one(d) == [streams |-> <<[EmptyStream EXCEPT !.recs = StreamShape(Digit(o.n, d - 1, o.j))]>>, acc |-> {}]
            IN  upd(o.k, Res("OK", "ok", FoldLeft(LAMBDA a, d : DoCat(a, one(d)).idx, reg[o.k], [d \in 1..o.m |-> d])))
      [] o.op = "groups" ->           \* o.m times 512 equal Records: uncompressed size 1 if bit g of o.n is set, else 0 (empty)
            LET i == reg[o.k]
                grp(g) == Copies(Rec(BigOf(8), BigOf(Digit(o.n, g - 1, 2))), 512)
                all == FoldLeft(LAMBDA a, g : a \o grp(g), <<>>, [g \in 1..o.m |-> g])
            IN  upd(o.k, Res("OK", "ok", WithLast(i, [LastStream(i) EXCEPT !.recs = @ \o all])))
      \* lzma_index_hash_*: the Records of one Stream are appended with the limit checks of lzma_index_append() on a
      \* single Stream without padding; the verdict must be the one of DoAppend.  After LZMA_DATA_ERROR and after
      \* decode the object is finished.  info.cnt = lzma_index_hash_size().
      [] o.op = "hash_init" -> Out([st EXCEPT !.hash = [live |-> TRUE, recs |-> <<>>]], "OK", "ok", {},
                                   [NoInfo EXCEPT !.cnt = IndexSize(0, 0)])
      [] o.op = "hash_append" ->
            LET hi == [streams |-> <<[EmptyStream EXCEPT !.recs = st.hash.recs]>>, acc |-> {}]
                r == DoAppend(hi, o.u, o.v)
                hs(i) == [NoInfo EXCEPT !.cnt = SizeI(i)]
            IN  IF r.ret = "OK" THEN Out([st EXCEPT !.hash.recs = Append(@, Rec(o.u, o.v))], "OK", "ok", {}, hs(r.idx))
                ELSE IF r.ret = "PROG_ERROR" THEN Out(st, r.ret, r.why, {}, hs(hi))
                ELSE Out([st EXCEPT !.hash = NoHash], r.ret, r.why, {}, NoInfo)
      [] o.op = "hash_decode" ->      \* fed with the encoded Index of slot o.k
            Out([st EXCEPT !.hash = NoHash],
                IF AllRecs(reg[o.k]) = st.hash.recs THEN "STREAM_END" ELSE "DATA_ERROR", "compare", {}, NoInfo)
      [] o.op = "encn" ->             \* append o.n Records (o.u, o.v), then encode -> decode (the decoded index is only observed)
            LET i == reg[o.k]
            IN  upd(o.k, Res("OK", "ok", WithLast(i, [LastStream(i) EXCEPT !.recs = @ \o Copies(Rec(o.u, o.v), o.n)])))
      [] o.op = "park" ->
            \* iterate-some / append-many / iterate-rest on the last Stream of slot o.k: append o.n Records (8, 1);
            \* attach the iterator and locate offset o.u, which lies in the t-th of them (o.v = t); append o.m more;
            \* then call next(mode o.j) until it reports the end.  Predicted: the number of items returned
            \* (info.cnt) and the last one (info.s, info.b).
            LET i0 == reg[o.k]
                t == o.v[1]
                s == Len(i0.streams)
                p == <<s, Len(LastStream(i0).recs) + t>>
                i2 == WithLast(i0, [LastStream(i0) EXCEPT !.recs = @ \o Copies(Rec(BigOf(8), BigOf(1)), o.n + o.m)])
                rest == SelectSeq(Items(i2, o.j), LAMBDA q : After(o.j, p, q))
                q == IF rest = <<>> THEN p ELSE rest[Len(rest)]
            IN  Out([st EXCEPT !.reg[o.k] = i2, !.it = [slot |-> o.k, p |-> q]], "END", "drained", {},
                    [s |-> q[1], b |-> BlockCount(Prefix(i2, q[1])) + q[2], cnt |-> Len(rest)])
      [] o.op = "dup" -> upd(o.j, DoDup(reg[o.k]))
      [] o.op = "encdec" ->
            LET r == DoEncDec(reg[o.k])
            IN  Out([st EXCEPT !.reg[o.j] = IF r.ret = "OK" THEN r.idx ELSE NoIndex], r.ret, r.why,
                    {o.k} \cup (IF r.ret = "OK" THEN {o.j} ELSE {}), NoInfo)
      [] o.op = "iter_init" -> Out([st EXCEPT !.it = [slot |-> o.k, p |-> <<0, 0>>]], "OK", "ok", {}, NoInfo)
      [] o.op = "iter_next" ->
            LET i == reg[it.slot]
                q == NextItem(i, o.n, it.p)
                why == IF it.p = <<0, 0>> THEN "first"
                       ELSE IF it.p[2] = 0 /\ NRecs(i, it.p[1]) > 0 /\ o.n # STREAM THEN "grown_empty_stream"
                       ELSE IF q = <<0, 0>> THEN "end"
                       ELSE IF q[1] = it.p[1] THEN "same_stream" ELSE "next_stream"
            IN  IF q = <<0, 0>> THEN Out(st, "END", why, {}, NoInfo)
                ELSE Out([st EXCEPT !.it.p = q], "FOUND", why, {}, IterInfo(i, q))
      [] o.op = "iter_locate" ->
            LET i == reg[it.slot]
                L == Layout(i)
                b == LocateIn(L.bl, o.u)
                q == <<L.bl[b].s, L.bl[b].nstream>>
            IN  IF b = 0 THEN Out(st, "END", "beyond", {}, NoInfo)
                ELSE Out([st EXCEPT !.it.p = q], "FOUND", "inside", {}, [s |-> q[1], b |-> b, cnt |-> 0])

(* The calls offered in state st, by kind (one TLC action per kind, so that a random walk picks    *)
(* kinds, not values, uniformly).                                                                  *)
LiveSlots(st) == {k \in Slots : Live(st.reg[k])}
FreeSlots(st) == Slots \ LiveSlots(st)
NStreams(st) == SumInt([k \in Slots |-> Len(st.reg[k].streams)])
NRecords(st) == SumInt([k \in Slots |-> IF Live(st.reg[k]) THEN BlockCount(st.reg[k]) ELSE 0])
O2(op, k, j) == Op(op, k, j, Zero, Zero, 0, 0, NoFlags)
CandInit(st)    == {O2("init", k, 0) : k \in {k \in FreeSlots(st) : NStreams(st) < MaxStreams}}
CandEnd(st)     == {O2("end", k, 0) : k \in {k \in LiveSlots(st) : Cardinality(LiveSlots(st)) > 1}}
CandAppendOf(st, US, VS) == {Op("append", k, 0, u, v, 0, 0, NoFlags) : k \in LiveSlots(st), u \in US,
                                                           v \in IF NRecords(st) < MaxRecs THEN VS ELSE {}}
CandAppend(st)  == CandAppendOf(st, USizes, VSizes)
CandFlags(st)   == {Op("flags", k, 0, Zero, Zero, 0, 0, f) : k \in LiveSlots(st), f \in FlagSet}
CandPadding(st) == {Op("padding", k, 0, p, Zero, 0, 0, NoFlags) : k \in LiveSlots(st), p \in Pads}
CandCat(st)     == {O2("cat", p[1], p[2]) : p \in {p \in LiveSlots(st) \X LiveSlots(st) : p[1] # p[2]}}
CandDup(st)     == {O2("dup", k, j) : k \in {k \in LiveSlots(st) : NStreams(st) + Len(st.reg[k].streams) <= MaxStreams
                                                                  /\ NRecords(st) + BlockCount(st.reg[k]) <= MaxRecs},
                                     j \in FreeSlots(st)}
CandEncDec(st)  == {O2("encdec", k, j) : k \in {k \in LiveSlots(st) : NStreams(st) < MaxStreams
                                                                  /\ NRecords(st) + BlockCount(st.reg[k]) <= MaxRecs},
                                        j \in FreeSlots(st)}
CandHashInit(st) == {O2("hash_init", 0, 0)}
CandHashAppend(st, US, VS) == IF ~st.hash.live THEN {} ELSE {Op("hash_append", 0, 0, u, v, 0, 0, NoFlags) : u \in US, v \in VS}
CandHashDecode(st) == IF ~st.hash.live THEN {} ELSE {O2("hash_decode", k, 0) : k \in LiveSlots(st)}
CandIterInit(st) == {O2("iter_init", k, 0) : k \in LiveSlots(st)}
CandIterNext(st) == {Op("iter_next", 0, 0, Zero, Zero, m, 0, NoFlags) : m \in IF st.it.slot = 0 THEN {} ELSE Modes}
CandIterLocate(st) ==
    IF st.it.slot = 0 THEN {}
    ELSE LET i == st.reg[st.it.slot]
             L == Layout(i)
         IN  {Op("iter_locate", 0, 0, t, Zero, 0, 0, NoFlags) :
                 t \in LocTargetsOf(i, RangeOf(SelectSeq(L.bl, LAMBDA b : Sampled(i, L, b))))}
CandIndexOps(st) == CandInit(st) \cup CandEnd(st) \cup CandAppend(st) \cup CandFlags(st) \cup CandPadding(st)
                    \cup CandCat(st) \cup CandDup(st) \cup CandEncDec(st)

\* what catn abbreviates (GenIndex checks the two agree on samples)
RECURSIVE CatNRepeated(_, _, _)
CatNRepeated(d, s, n) == IF n = 0 THEN d ELSE CatNRepeated(DoCat(d, [streams |-> <<s>>, acc |-> {}]).idx, s, n - 1)

\* one line of a plan: the call, its predicted result and the predicted observation of the touched slots
Step(st, o) ==
    LET a == Apply(st, o)
        live == {k \in a.touched : Live(a.st.reg[k])}
    IN  [o |-> o, ret |-> a.ret, why |-> a.why, info |-> a.info,
         \* encn: getters of the grown index (slot o.k) and of what the Index decoder must rebuild from its encoding
         \* (pseudo slot 0) - for every way of cutting the encoded bytes into input chunks
         obs |-> IF o.op = "encn"
                 THEN <<(<<o.k, ObserveLite(a.st.reg[o.k])>>), (<<0, ObserveLite(DoEncDec(a.st.reg[o.k]).idx)>>)>>
                 ELSE SetToSeq({<<k, Observe(a.st.reg[k])>> : k \in live}),
         enc |-> IF o.op = "encdec" THEN EncodedBody(st.reg[o.k])
                 ELSE IF o.op = "encn" THEN EncodedBody(a.st.reg[o.k]) ELSE <<>>]

\* predictions for a whole history
\* (the first line is the pseudo call "start": the observation of the initial empty index in slot 1)
StartStep == [o |-> O2("start", 1, 0), ret |-> "OK", why |-> "ok", info |-> NoInfo,
              obs |-> <<(<<1, Observe(EmptyIndex)>>)>>, enc |-> <<>>]
Predict(hist) ==
    FoldLeft(LAMBDA a, o : [st |-> Apply(a.st, o).st, out |-> Append(a.out, Step(a.st, o))],
             [st |-> St0, out |-> <<StartStep>>], hist).out
FinalState(hist) == FoldLeft(LAMBDA s, o : Apply(s, o).st, St0, hist)
=============================================================================
