SPECIFICATION TSpec
CONSTANTS MaxFaults = 9 MaxSigs = 9 Sigs = {"INT", "TERM", "HUP", "PIPE"}
POSTCONDITION TraceAccepted
CHECK_DEADLOCK FALSE
