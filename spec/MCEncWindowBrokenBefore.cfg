SPECIFICATION Spec
CONSTANTS DictSize = 4 Opts = 3 ChunkMax = 12 Reserve = 4 MaxLen = 3 MaxPos = 34
 BeforeSize <- BrokenBeforeSize
INVARIANTS ChunkStaysInWindow UncompressedFits DictInWindow
CHECK_DEADLOCK FALSE
