SPECIFICATION TSpec
CONSTANTS Bug = "none"
 Kinds = {"stream_encoder", "easy_encoder", "stream_encoder_mt", "block_encoder", "raw_encoder", "raw_lzma1_encoder",
   "alone_encoder", "index_encoder", "microlzma_encoder", "stream_decoder", "stream_decoder_mt", "auto_decoder",
   "alone_decoder", "lzip_decoder", "raw_decoder", "index_decoder", "block_decoder", "microlzma_decoder",
   "file_info_decoder"}
 Threaded = {"stream_encoder_mt", "stream_decoder_mt"}
 Objs = {"F1", "F2", "I1", "I2", "S1", "H1"}
INVARIANTS NoBadFree FailureReported FailedInitClean EndClean CallerUnchanged OneShotBalanced UpdateKeepsCaller
 AllReleased KindMatch PointersLive
POSTCONDITION TraceAccepted
CHECK_DEADLOCK FALSE
