SPECIFICATION MCSpec
CONSTANT Strict = FALSE
INVARIANTS TypeOK StatusContract MissingContract UsageContract DecContract StemContract
CHECK_DEADLOCK FALSE
