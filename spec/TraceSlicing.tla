----------------------------- MODULE TraceSlicing ----------------------------
(* (V) for C06 and C04.  One recorded execution =                            *)
(*   Reset(coder, one-shot observation)  Call*  Final(observation)           *)
(* Every Call must be a step of lzma_code() (LzmaCode!Call with the inner    *)
(* result inferred), return a code documented for the entry point            *)
(* (StarveDoc), and a stretch of calls without progress must end in          *)
(* LZMA_BUF_ERROR within StarveBound calls.  Final must equal the one-shot   *)
(* observation stored by Reset (SliceIndependent); `exempt` marks rejected   *)
(* input behind a BCJ filter (only status and consumption are compared).     *)
(* Determinism groups: Group, then Run(digest) events that must all carry    *)
(* the same digest and size.  Parse events: one call of a stateless parser.  *)
EXTENDS LzmaCode, StarveDoc, TLC, Json, IOUtils, Sequences

TraceLog == ndJsonDeserialize(IOEnv.TRACE)

VARIABLES l,        \* next line
          coder,    \* entry point of the current execution
          one,      \* one-shot observation
          exempt,
          olen,     \* output bytes so far
          stall,    \* consecutive calls without progress that returned LZMA_OK
          gdig      \* digest of the current determinism group ("" = none yet)

tvars == <<vars, l, coder, one, exempt, olen, stall, gdig>>

TInit == InitWith({}, FALSE) /\ l = 1 /\ coder = "none" /\ one = [ret |-> "none", tin |-> 0, olen |-> 0, dig |-> ""]
         /\ exempt = FALSE /\ olen = 0 /\ stall = 0 /\ gdig = ""

IsEvent(e) == l <= Len(TraceLog) /\ TraceLog[l].e = e /\ l' = l + 1

TReset == /\ IsEvent("Reset")
          /\ LET t == TraceLog[l] IN
             /\ inited' = TRUE /\ supported' = {"RUN", "SYNC_FLUSH", "FULL_FLUSH", "FINISH", "FULL_BARRIER"}
             /\ seq' = "RUN" /\ savedIn' = 0 /\ allowBuf' = FALSE /\ totalIn' = 0 /\ totalOut' = 0 /\ obs' = NoObs
             /\ coder' = t.coder /\ one' = t.one /\ exempt' = t.exempt /\ olen' = 0 /\ stall' = 0
          /\ UNCHANGED gdig

TCall == /\ IsEvent("Call")
         /\ LET t == TraceLog[l] IN
            /\ \E iret \in InnerRets :
                  /\ iret = "TIMED_OUT" => MayTimeOut(coder)
                  /\ iret # "RET_INTERNAL2"
                  /\ Call(t.action, t.ain, t.aout, FALSE, FALSE, FALSE, iret, t.uin, t.uout)
            /\ obs'.ret = t.ret
            /\ t.ret \in Documented(coder)
            /\ obs'.uin = t.uin /\ obs'.uout = t.uout
            /\ totalIn' = t.tin /\ totalOut' = t.tout
            /\ olen' = olen + t.uout
            \* (a notification may be returned once, then progress must resume: Starve!StallBounded)
            /\ stall' = IF t.uin = 0 /\ t.uout = 0 /\ t.ret \in {"OK", "NO_CHECK", "UNSUPPORTED_CHECK", "GET_CHECK"} THEN stall + 1 ELSE 0
            /\ stall' < StarveBound(coder)
         /\ UNCHANGED <<coder, one, exempt, gdig>>

TFinal == /\ IsEvent("Final")
          /\ LET t == TraceLog[l] IN
             /\ t.ret = one.ret /\ t.tin = one.tin
             /\ t.tin = totalIn /\ t.dlen = olen
             /\ ~exempt => (t.olen = one.olen /\ t.dig = one.dig)
          /\ UNCHANGED <<vars, coder, one, exempt, olen, stall, gdig>>

TGroup == /\ IsEvent("Group") /\ gdig' = "" /\ UNCHANGED <<vars, coder, one, exempt, olen, stall>>
TRun == /\ IsEvent("Run")
        /\ LET t == TraceLog[l] IN
           /\ gdig # "" => t.dig = gdig
           /\ gdig' = t.dig
        /\ UNCHANGED <<vars, coder, one, exempt, olen, stall>>

ToSet(sq) == {sq[i] : i \in 1..Len(sq)}
TParse == /\ IsEvent("Parse")
          /\ TraceLog[l].ret \in Documented(TraceLog[l].entry)
          /\ Len(TraceLog[l].expect) > 0 => TraceLog[l].ret \in ToSet(TraceLog[l].expect)   \* verdict fixed by the grammar
          /\ UNCHANGED <<vars, coder, one, exempt, olen, stall, gdig>>

\* lzma_str_to_filters(text): every option field must equal what the text denotes (SliceStr.tla)
TFields == /\ IsEvent("Fields")
           /\ TraceLog[l].got = TraceLog[l].want
           /\ UNCHANGED <<vars, coder, one, exempt, olen, stall, gdig>>

TNext == TReset \/ TCall \/ TFinal \/ TGroup \/ TRun \/ TParse \/ TFields
TSpec == TInit /\ [][TNext]_tvars
TraceAccepted == TLCGet("stats").diameter - 1 = Len(TraceLog)
=============================================================================
