-------------------------------- MODULE Lzip ---------------------------------
(* Transcription of lzip_decode() (src/liblzma/common/lzip_decoder.c).  One   *)
(* iteration of `while (true) switch (coder->sequence)' = one unfolding of     *)
(* LzipRun; FALLTHROUGH = direct recursion with the next sequence.             *)
(*                                                                             *)
(* Byte tokens [k, v, a]:                                                      *)
(*   "b"   plain byte, value v (ID string, version, dictionary size, foreign   *)
(*         trailing data)                                                      *)
(*   payload tokens of Lzma1End                                                *)
(*   "fc"  byte v (0..3) of the CRC32 field, a = 0 iff the stored CRC32 is     *)
(*         the CRC32 of the member's data                                      *)
(*   "fd"  byte v (0..7) of the Data size field, a = stored value              *)
(*   "fm"  byte v (0..7) of the Member size field, a = stored value            *)
EXTENDS Alone

LzipMagic == <<76, 90, 73, 80>>          \* "LZIP"

\* coded dictionary size: (ds & 0x1F) = log2 of the base, (ds >> 5) sixteenths to subtract
DsLog(ds)  == ds % 32
DsFrac(ds) == ds \div 32
DsBad(ds)  == DsLog(ds) < 12 \/ DsLog(ds) > 29 \/ (DsLog(ds) = 12 /\ DsFrac(ds) > 0)
DsDict(ds) == 2 ^ DsLog(ds) - DsFrac(ds) * 2 ^ (DsLog(ds) - 4)
LzipMemTooBig(ds) == DsDict(ds) \div 65536 >= MemDictLimbHi

LzipInit(flags) ==
    [seq |-> "id", ver |-> 0, usz |-> 0, msz |-> 0, ds |-> 0, pos |-> 0, buf |-> <<>>, first |-> TRUE,
     tellAny |-> "TELL_ANY_CHECK" \in flags, ignore |-> "IGNORE_CHECK" \in flags,
     concat |-> "CONCATENATED" \in flags, lz |-> LzInit(UNKNOWN, TRUE)]

LR(c, i, o, r) == [c |-> c, i |-> i, o |-> o, ret |-> r]
Min2(a, b) == IF a < b THEN a ELSE b

RECURSIVE LzipRun(_, _, _, _, _)
LzipRun(c, w, i, o, act) ==
  LET more == i < Len(w) IN
  CASE c.seq = "id" ->                                   \* case SEQ_ID_STRING
         IF c.pos < 4 THEN
            IF ~more THEN LR(c, i, o, IF ~c.first /\ act = "FINISH" THEN "STREAM_END" ELSE "OK")
            ELSE IF ~(w[i + 1].k = "b" /\ w[i + 1].v = LzipMagic[c.pos + 1])
                 THEN LR(c, i, o, IF ~c.first THEN "STREAM_END" ELSE "FORMAT_ERROR")
            ELSE LzipRun([c EXCEPT !.pos = @ + 1], w, i + 1, o, act)
         ELSE LzipRun([c EXCEPT !.pos = 0, !.usz = 0, !.msz = 4, !.seq = "version"], w, i, o, act)
    [] c.seq = "version" ->                              \* case SEQ_VERSION
         IF ~more THEN LR(c, i, o, "OK")
         ELSE LET v == w[i + 1].v IN
              IF v > 1 THEN LR([c EXCEPT !.ver = v], i + 1, o, "OPTIONS_ERROR")
              ELSE LET c2 == [c EXCEPT !.ver = v, !.msz = @ + 1, !.seq = "dict"] IN
                   IF c.tellAny THEN LR(c2, i + 1, o, "GET_CHECK") ELSE LzipRun(c2, w, i + 1, o, act)
    [] c.seq = "dict" ->                                 \* case SEQ_DICT_SIZE
         IF ~more THEN LR(c, i, o, "OK")
         ELSE LET ds == w[i + 1].v
                  c2 == [c EXCEPT !.ds = ds, !.msz = @ + 1] IN
              IF DsBad(ds) THEN LR(c2, i + 1, o, "DATA_ERROR")
              ELSE LzipRun([c2 EXCEPT !.seq = "coder_init"], w, i + 1, o, act)
    [] c.seq = "coder_init" ->                           \* case SEQ_CODER_INIT
         IF LzipMemTooBig(c.ds) THEN LR(c, i, o, "MEMLIMIT_ERROR")
         ELSE LzipRun([c EXCEPT !.lz = LzInit(UNKNOWN, TRUE), !.seq = "lzma"], w, i, o, act)
    [] c.seq = "lzma" ->                                 \* case SEQ_LZMA_STREAM
         LET r  == LzCall(c.lz, w, i)
             c2 == [c EXCEPT !.lz = r.p, !.msz = @ + (r.i - i), !.usz = @ + r.o] IN
         IF r.ret # "STREAM_END" THEN LR(c2, r.i, o + r.o, r.ret)
         ELSE LzipRun([c2 EXCEPT !.seq = "footer"], w, r.i, o + r.o, act)
    [] c.seq = "footer" ->                               \* case SEQ_MEMBER_FOOTER
         LET fs   == IF c.ver = 0 THEN 12 ELSE 20
             take == Min2(fs - c.pos, Len(w) - i)                       \* lzma_bufcpy
             buf  == c.buf \o SubSeq(w, i + 1, i + take)
         IN IF c.pos + take < fs THEN LR([c EXCEPT !.buf = buf, !.pos = @ + take], i + take, o, "OK")
            ELSE LET c2 == [c EXCEPT !.buf = <<>>, !.pos = 0, !.msz = @ + fs]
                     crcOK == \A j \in 1..4 : buf[j].k = "fc" /\ buf[j].a = 0
                 IN IF ~c.ignore /\ ~crcOK THEN LR(c2, i + take, o, "DATA_ERROR")
                    ELSE IF ~(buf[5].k = "fd" /\ c2.usz = buf[5].a) THEN LR(c2, i + take, o, "DATA_ERROR")
                    ELSE IF c.ver > 0 /\ ~(buf[13].k = "fm" /\ c2.msz = buf[13].a)
                         THEN LR(c2, i + take, o, "DATA_ERROR")
                    ELSE IF ~c.concat THEN LR(c2, i + take, o, "STREAM_END")
                    ELSE LzipRun([c2 EXCEPT !.first = FALSE, !.seq = "id"], w, i + take, o, act)

LzipCall(c, w, i, act) == LzipRun(c, w, i, 0, act)
=============================================================================
