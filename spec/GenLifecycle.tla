----------------------------- MODULE GenLifecycle ----------------------------
(* Scenario generator for the replay direction of C10: every legal sequence   *)
(* of at most MaxLen operations over the concrete API alphabet (all public    *)
(* constructors on one lzma_stream without intermediate lzma_end, coding,     *)
(* lzma_filters_update, lzma_end, and the allocator-taking functions on       *)
(* caller-owned filter arrays, indexes and strings).  Legality is Lifecycle's *)
(* own BeginOK guard evaluated on the abstract state the fault-free           *)
(* execution reaches.  The driver adds the fault dimension: it runs each      *)
(* scenario fault-free to learn the number N of allocations and replays it    *)
(* with the j-th allocation failing for every j in 1..N (and random subsets). *)
EXTENDS Lifecycle, TLC, Json

CONSTANTS MaxLen, Updatable, OneShots,
          OpNames,    \* operation names this run draws from (families: handle, index, filters)
          SameKind    \* TRUE: one lzma_stream keeps being re-initialised with the constructor it already has
                      \* (the "same init function => coder reused" branch: use, abort, re-initialise, use again)

VARIABLES hk, alive, path
gvars == <<hk, alive, path>>

FSlots == {"F1", "F2"}  ISlots == {"I1", "I2"}  SSlots == {"S1"}  HSlots == {"H1"}

\* concrete operation -> (class, slots) as the driver logs it
OpClass(o) ==
    CASE o.op = "Init" -> "Init"
      [] o.op \in {"CodeSome", "CodeAll"} -> "Code"
      [] o.op = "Update" -> "Update"
      [] o.op = "End" -> "End"
      [] o.op \in {"StrToFilters", "PropsDecode", "BlockHeaderDecode", "FilterFlagsDecode", "StrListFilters",
                   "IndexInit", "IndexBufferDecode", "IndexHashInit"} -> "New"
      [] o.op \in {"FiltersCopy", "StrFromFilters", "IndexDup"} -> "Derive"
      [] o.op = "IndexAppend" -> "Mutate"
      [] o.op = "IndexCat" -> "Cat"
      [] o.op \in {"FiltersFree", "FreeStr", "IndexEnd", "IndexHashEnd"} -> "Free"
      [] o.op = "OneShot" -> "OneShot"

Op(name, k, tgt, src, fn) == [op |-> name, k |-> k, tgt |-> tgt, src |-> src, fn |-> fn]

Alphabet ==
    {Op("Init", k, "none", "none", "none") : k \in Kinds}
    \cup {Op(n, "none", "none", "none", "none") : n \in {"CodeSome", "CodeAll", "Update", "End"}}
    \cup {Op(n, "none", t, "none", "none") : n \in {"StrToFilters", "PropsDecode", "BlockHeaderDecode",
                                                    "FilterFlagsDecode", "FiltersFree"}, t \in FSlots}
    \cup {Op("FiltersCopy", "none", t, u, "none") : t \in FSlots, u \in FSlots \cup {"static"}}
    \cup {Op("StrFromFilters", "none", t, u, "none") : t \in SSlots, u \in FSlots \cup {"static"}}
    \cup {Op(n, "none", t, "none", "none") : n \in {"StrListFilters", "FreeStr"}, t \in SSlots}
    \cup {Op(n, "none", t, "none", "none") : n \in {"IndexInit", "IndexBufferDecode", "IndexAppend", "IndexEnd"}, t \in ISlots}
    \cup {Op(n, "none", t, u, "none") : n \in {"IndexCat", "IndexDup"}, t \in ISlots, u \in ISlots}
    \cup {Op(n, "none", t, "none", "none") : n \in {"IndexHashInit", "IndexHashEnd"}, t \in HSlots}
    \cup {Op("OneShot", "none", "none", "none", f) : f \in OneShots}

\* the abstract Lifecycle state reached by the fault-free execution, as far as BeginOK reads it
Abs == [S0 EXCEPT !.internal = IF hk = "none" THEN 0 ELSE 1, !.init = hk,
                  !.objs = [o \in Objs |-> [alive |-> o \in alive, own |-> {}]]]

Legal(o) ==
    /\ BeginOK(Abs, [cls |-> OpClass(o), k |-> o.k, tgt |-> o.tgt, src |-> o.src])
    /\ o.op = "Update" => hk \in Updatable
    /\ (SameKind /\ o.op = "Init") => hk \in {"none", o.k}
    /\ o.op = "End" => hk # "none"
    \* slot symmetry: the second slot of a type is only filled while the first one is in use
    /\ (OpClass(o) \in {"New", "Derive"} /\ o.tgt \in {"F2", "I2"}) =>
           (IF o.tgt = "F2" THEN "F1" ELSE "I1") \in alive

Effect(o) ==
    /\ hk' = CASE o.op = "Init" -> o.k [] o.op = "End" -> "none" [] OTHER -> hk
    /\ alive' = CASE OpClass(o) \in {"New", "Derive"} -> alive \cup {o.tgt}
                  [] OpClass(o) = "Free" -> alive \ {o.tgt}
                  [] OpClass(o) = "Cat" -> alive \ {o.src}
                  [] OTHER -> alive

GInit == hk = "none" /\ alive = {} /\ path = <<>>
GNext == \E o \in {a \in Alphabet : a.op \in OpNames} : Legal(o) /\ Effect(o) /\ path' = Append(path, o)
GSpec == GInit /\ [][GNext]_gvars

Emit == Len(path) < MaxLen /\ PrintT(<<"PLAN", ToJson(path')>>)
=============================================================================
