----------------------------- MODULE ExitStatus ------------------------------
(* Transcription of the exit-status bookkeeping of xz:                       *)
(*   main.c    set_exit_status(), set_exit_no_warn(), the end of main()      *)
(*   message.c message_warning() / message_error() / vmessage() verbosity    *)
(* E_SUCCESS = 0, E_ERROR = 1, E_WARNING = 2.                                *)
EXTENDS Naturals, Sequences

E_SUCCESS == 0
E_ERROR   == 1
E_WARNING == 2

(* verbosity levels of message.h; default V_WARNING, each -q goes one down   *)
V_SILENT == 0
V_ERROR == 1
V_WARNING == 2
Verbosity(quiet) == IF quiet >= 2 THEN V_SILENT ELSE V_WARNING - quiet

(* set_exit_status(): "if (exit_status != E_ERROR) exit_status = new_status" *)
SetExitStatus(cur, new) == IF cur # E_ERROR THEN new ELSE cur

(* message_warning() / message_error(): print if verbose enough, set status  *)
(* A message is "warn" or "error".                                           *)
MsgStatus(m) == IF m = "error" THEN E_ERROR ELSE E_WARNING
MsgLevel(m)  == IF m = "error" THEN V_ERROR ELSE V_WARNING
Printed(m, quiet) == MsgLevel(m) <= Verbosity(quiet)

RECURSIVE Fold(_, _)
Fold(cur, msgs) == IF msgs = <<>> THEN cur ELSE Fold(SetExitStatus(cur, MsgStatus(Head(msgs))), Tail(msgs))

(* end of main(): --no-warn turns a warning status into success              *)
FinalStatus(es, nowarn) == IF es = E_WARNING /\ nowarn THEN E_SUCCESS ELSE es
ExitCode(msgs, nowarn) == FinalStatus(Fold(E_SUCCESS, msgs), nowarn)
StderrUsed(msgs, quiet) == \E i \in 1..Len(msgs) : Printed(msgs[i], quiet)

(* ---- the property: 0 / 1 / 2 according to nothing / an error / only       *)
(* warnings, -q never changes the status, --no-warn only hides warnings      *)
Has(msgs, m) == \E i \in 1..Len(msgs) : msgs[i] = m
ExitContract(msgs, nowarn) ==
    LET code == ExitCode(msgs, nowarn) IN
    /\ code \in {0, 1, 2}
    /\ (code = 1) <=> Has(msgs, "error")
    /\ (code = 2) <=> (~Has(msgs, "error") /\ Has(msgs, "warn") /\ ~nowarn)
    /\ (code = 0) <=> (~Has(msgs, "error") /\ (Has(msgs, "warn") => nowarn))
=============================================================================
