-------------------------- MODULE TraceXzFilePair --------------------------
(* C17 (V): the system calls of the real xz (recorded with strace, with injected failures, short
   counts, signals, file swaps and SIGKILL) and the file-system state found afterwards must be a
   behaviour / final state of XzFilePair.  One event = one action, arguments bound:
   which file (f), which descriptor role, O_EXCL, lstat vs stat, result class.                  *)
EXTENDS XzFilePair, Sequences, Json, IOUtils

TraceLog == ndJsonDeserialize(IOEnv.TRACE)
VARIABLE l

T == TraceLog[l]
IsEvent(e) == l <= Len(TraceLog) /\ TraceLog[l].e = e /\ l' = l + 1
Cur(f) == f = cur                      \* the call concerns the file being processed
Masks(t) == Sigs \subseteq {t.set[i] : i \in 1..Len(t.set)}   \* every hooked signal is in the mask
R(r) == IF r \in {"ok", "noent"} THEN r ELSE "err"

Dummy == [dec |-> FALSE, keep |-> FALSE, force |-> FALSE, stdout |-> FALSE, nosync |-> FALSE,
          files |-> FALSE, nf |-> 1, pre |-> <<FALSE>>, input |-> <<"good">>]
TInit == InitWith(Dummy) /\ l = 1

TReset == IsEvent("Reset") /\ ResetTo(T.cfg)

TFS ==   \* what is on disk after the process has gone
  /\ IsEvent("FS") /\ pc \in {"exited", "dead", "killed"} /\ pc' = "checked"
  /\ src = T.src /\ dst = T.dst
  /\ UNCHANGED <<cfg, cur, fvars, pvars, iovars, sigvars, exitStatus, listSt, nfault>>

TNext ==
  \/ TReset \/ TFS
  \/ IsEvent("Block") /\ Masks(T) /\ (Block \/ BlipBlock)
  \/ IsEvent("Unblock") /\ Masks(T) /\ (Unblock \/ BlipUnblock)
  \/ IsEvent("OpenSrc") /\ Cur(T.f) /\ T.nofollow = (~KeepSrc /\ ~cfg.force) /\ OpenSrc(R(T.res))
  \/ IsEvent("FstatSrc") /\ Cur(T.f) /\ FstatSrc(R(T.res))
  \/ IsEvent("Fadvise") /\ Cur(T.f) /\ Fadvise(R(T.res))
  \/ IsEvent("Read") /\ Cur(T.f) /\ (Read(T.k) \/ (T.req = 1 /\ ReadTrail(T.k)))
  \/ IsEvent("FcntlOut") /\ FcntlOut(T.cmd, R(T.res))
  \/ IsEvent("OpenDir") /\ OpenDir(R(T.res))
  \/ IsEvent("UnlinkDst") /\ Cur(T.f) /\ UnlinkDst(R(T.res))
  \/ IsEvent("OpenDst") /\ Cur(T.f) /\ OpenDst(T.excl, R(T.res))
  \/ IsEvent("CloseDir") /\ CloseDir(R(T.res))
  \/ IsEvent("FstatDst") /\ (cfg.stdout \/ Cur(T.f)) /\ T.to = (IF cfg.stdout THEN "out" ELSE "dst") /\ FstatDst(R(T.res))
  \/ IsEvent("Lseek") /\ (cfg.stdout \/ Cur(T.f)) /\ T.to = (IF cfg.stdout THEN "out" ELSE "dst") /\ Lseek(R(T.res), T.own)
  \/ IsEvent("Write") /\ Cur(T.f) /\ T.to = (IF cfg.stdout THEN "out" ELSE "dst") /\ Write(T.k, T.full)
  \/ IsEvent("Fchown") /\ Cur(T.f) /\ Fchown(R(T.res))
  \/ IsEvent("Fchmod") /\ Cur(T.f) /\ Fchmod(R(T.res))
  \/ IsEvent("Utimens") /\ Cur(T.f) /\ Utimens(R(T.res))
  \/ IsEvent("FsyncDst") /\ Cur(T.f) /\ FsyncDst(R(T.res))
  \/ IsEvent("FsyncDir") /\ FsyncDir(R(T.res))
  \/ IsEvent("CloseDst") /\ Cur(T.f) /\ CloseDst(R(T.res))
  \/ IsEvent("StatDst") /\ Cur(T.f) /\ StatDst(T.nofollow, R(T.res))
  \/ IsEvent("CloseSrc") /\ Cur(T.f) /\ CloseSrc(R(T.res))
  \/ IsEvent("StatSrc") /\ Cur(T.f) /\ StatSrc(T.nofollow, R(T.res))
  \/ IsEvent("UnlinkSrc") /\ Cur(T.f) /\ UnlinkSrc(R(T.res))
  \/ IsEvent("ListRead") /\ ListRead(T.k)
  \/ IsEvent("ListClose") /\ ListClose
  \/ IsEvent("SigSend") /\ SigSend(T.sig)
  \/ IsEvent("SigHandler") /\ SigDeliver(T.sig)
  \/ IsEvent("SigDfl") /\ SigDfl(T.sig)
  \/ IsEvent("Raise") /\ Raise(T.sig)
  \/ IsEvent("Died") /\ Died(T.sig)
  \/ IsEvent("CloseStdout") /\ CloseStdout(R(T.res))
  \/ IsEvent("CloseStderr") /\ CloseStderr(R(T.res))
  \/ IsEvent("Exit") /\ Exit(T.status)
  \/ IsEvent("Killed") /\ Kill
  \/ IsEvent("Env") /\ Cur(T.f) /\ EnvReplace(T.what)

TSpec == TInit /\ [][TNext]_<<vars, l>>
TraceAccepted == TLCGet("stats").diameter - 1 = Len(TraceLog)
=============================================================================
