SPECIFICATION Spec
CONSTANTS
 EopmLocalPerCall = FALSE  PickyAcceptsZero = TRUE  AutoFinishAll = FALSE
 MemDictLimbHi = 752
 ChunkSizes = {0, 1}  Profile = "quick"  Sweep = "small"
 Formats = {"alone"}
INVARIANTS MeetsContract NeverUnspecified StopsAtFirstStream Bounded
CHECK_DEADLOCK FALSE
