---------------------------- MODULE MCMtDecoder -----------------------------
(* Contract of C07 stated over MtDecoder, and model-checking configuration.  *)
EXTENDS MtDecoder

CONSTANT MaxCalls

Blk(h, i, o, e) == [hdr |-> h, bh |-> 1, insz |-> i, outsz |-> o, errAt |-> e, mem |-> 1]
B_ok3     == << Blk("ok", 2, 2, 0), Blk("ok", 1, 2, 0), Blk("ok", 2, 1, 0) >>
B_err2    == << Blk("ok", 2, 2, 0), Blk("ok", 2, 2, 2), Blk("ok", 1, 1, 0) >>
B_err1    == << Blk("ok", 2, 2, 1), Blk("ok", 1, 2, 0), Blk("ok", 1, 1, 1) >>
B_badhdr  == << Blk("ok", 2, 2, 0), Blk("ok", 2, 1, 2), Blk("bad", 1, 1, 0) >>
B_badhdr2 == << Blk("ok", 2, 2, 0), Blk("bad", 1, 1, 0) >>
B_badinit == << Blk("ok", 2, 2, 0), Blk("badinit", 1, 1, 0), Blk("ok", 1, 1, 0) >>
B_badinit1 == << Blk("badinit", 2, 2, 0), Blk("ok", 1, 1, 0) >>
B_direct  == << Blk("ok", 2, 2, 0), Blk("direct", 2, 2, 0), Blk("ok", 1, 1, 0) >>
B_direrr  == << Blk("ok", 1, 2, 0), Blk("direct", 2, 2, 2) >>
B_empty   == << Blk("ok", 1, 0, 0), Blk("ok", 1, 1, 0), Blk("ok", 1, 0, 0) >>
B_sim4    == << Blk("ok", 2, 2, 0), Blk("ok", 3, 2, 0), Blk("ok", 1, 3, 3), Blk("ok", 2, 1, 0) >>
B_cat     == << Blk("ok", 1, 1, 0), Blk("ok", 2, 1, 0) >>
FullFile == FullLen
\* Block 2 needs a bigger filter chain than memlimit_stop = 3 allows (Block 1 can be decoded in a thread: 1 + 2 <= 3)
BlkM(h, i, o, e, mm, f) == [hdr |-> h, bh |-> 1, insz |-> i, outsz |-> o, errAt |-> e, mem |-> mm, fmem |-> f]
B_memstop == << BlkM("ok", 2, 2, 0, 1, 1), BlkM("ok", 1, 1, 0, 5, 4), BlkM("ok", 1, 1, 0, 1, 1) >>
B_memstop_err == << BlkM("ok", 2, 2, 2, 1, 1), BlkM("ok", 1, 1, 0, 5, 4) >>
B_ok4     == << Blk("ok", 2, 2, 0), Blk("ok", 1, 1, 0), Blk("ok", 1, 1, 0), Blk("ok", 2, 2, 0) >>

CallBound == m.calls <= MaxCalls
MCView == <<[m EXCEPT !.calls = 0], c, t>>

\* --- the property, in the property's own terms -----------------------------
\* Output is delivered in the order of the sequential decoder, never more than it would deliver
OutputIsPrefix == m.orderOk /\ m.delivered <= St(m.given).out

\* A terminal status equals the sequential decoder's status on the same bytes, with all of its output
\* (without fail-fast); with fail-fast the output is still a prefix and success means full equality.
TerminalEquivalence ==
    (m.pc = "out" /\ m.ended) =>
        IF FailFast
        THEN (m.lastRet = "STREAM_END" => (St(m.given).ret = "STREAM_END" /\ m.delivered = St(m.given).out))
             /\ (St(FileLen).ret = "STREAM_END" /\ m.given = FileLen => m.lastRet = "STREAM_END")
        \* (an injected allocation failure is the one way to end otherwise: after a prefix of the right output)
        ELSE (MayFailMain /\ m.lastRet = "MEM_ERROR") \/ (m.lastRet = St(m.given).ret /\ m.delivered = St(m.given).out)

\* "No progress is possible" is only said when the sequential decoder, given the same bytes and output
\* space, could not progress either.
BufErrorOnlyWhenStarved ==
    (m.pc = "out" /\ m.lastRet = "BUF_ERROR" /\ m.outSpace > 0) => m.delivered = St(m.given).out

\* The main thread never writes into, and a worker never reads from, an input buffer that was freed
NoUseAfterFree ==
    /\ ~m.copyBad
    /\ \A w \in W : t[w].pc = "decode" => t[w].inBuf = "alloc"

\* A worker that reported an error is not handed out again, and keeps its buffer until threads_end
FailedWorkerNotReused ==
    \A w \in W : (t[w].ret = "ERR" /\ t[w].pc \notin {"none", "decode"}) =>
        (\A i \in 1..Len(c.free) : c.free[i] # w) \/ t[w].pc = "none"

\* queue discipline
QueueOk ==
    /\ Len(c.outq) <= BufsLimit
    /\ \A i \in 1..Len(c.outq) : c.outq[i].fin /\ c.outq[i].ret = "END" => c.outq[i].pos = GB(c.outq[i].b).outsz
    /\ \A i, j \in 1..Len(c.outq) : i < j => c.outq[i].b < c.outq[j].b
    /\ c.memInUse + OutqMem(c.outq) <= m.memT /\ m.memT <= m.memStop

\* LZMA_MEMLIMIT_ERROR exactly when the sequential decoder with the same limit says so, after all the output that
\* precedes the refused Block; and nothing is decoded beyond the limit
MemlimitEquivalence ==
    /\ (m.pc = "out" /\ m.lastRet = "MEMLIMIT_ERROR") =>
            (c.outq = <<>> /\ St(m.given).ret = "MEMLIMIT_ERROR" /\ m.delivered = St(m.given).out)
    /\ (m.seq \in {"DIRECTINIT", "DIRECTRUN", "THRINIT", "THRRUN"} => FMem(GB(m.blk)) <= m.memStop)

\* internal codes never escape
DocumentedCodes == m.lastRet \in {"OK", "STREAM_END", "BUF_ERROR", "DATA_ERROR", "OPTIONS_ERROR", "MEMLIMIT_ERROR"}
                                  \cup (IF Tell = "none" THEN {} ELSE {Tell}) \cup (IF MayFailMain THEN {"MEM_ERROR"} ELSE {})
\* the Check notification comes exactly once per Stream, right after its Stream Header
TellOncePerStream == m.tells = (IF Tell = "none" THEN 0 ELSE m.copy + (IF m.seq = "HDR" THEN 0 ELSE 1))

\* freeing joins every thread
EndJoinsAll == m.pc = "freed" => \A w \in W : t[w].pc = "none"

\* liveness under fairness: a caller that always offers all remaining input (with LZMA_FINISH) and ample output
\* space eventually gets a terminal status, or LZMA_BUF_ERROR for a truncated file, or frees the decoder
\* (a refused caller raises the limit to what the refused Block needs, as long as it is allowed to)
Refused == m.pc = "out" /\ m.lastRet = "MEMLIMIT_ERROR" /\ m.raises < MaxRaise
GoodApp == IF Refused THEN AppRaise(FMem(GB(m.blk)))
           ELSE (\E s \in Spaces : Call("FINISH", FileLen - m.given, s)) \/ AppEnd
LiveNext == Main \/ (\E w \in W : Worker(w)) \/ GoodApp \/ (Terminated /\ UNCHANGED vars)
Fairness == WF_vars(Main) /\ (\A w \in W : WF_vars(Worker(w))) /\ WF_vars(GoodApp)
FairSpec == Init /\ [][LiveNext]_vars /\ Fairness
EventuallyDone == <>(m.ended \/ m.pc = "freed" \/ (m.pc = "out" /\ m.lastRet = "BUF_ERROR")
                     \/ (m.pc = "out" /\ m.lastRet = "MEMLIMIT_ERROR" /\ m.raises >= MaxRaise))
=============================================================================
