SPECIFICATION GSpec
CONSTANT Matrix = TRUE
ACTION_CONSTRAINT Emit
CHECK_DEADLOCK FALSE
