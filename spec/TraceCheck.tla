------------------------------ MODULE TraceCheck ------------------------------
(* (V) for C14: executions of the real lzma_check_init / lzma_check_update /   *)
(* lzma_check_finish for SHA-256 on messages too long for TLC to hash itself.  *)
(* The driver logs every update (length, byte counter afterwards) and, before  *)
(* the finish call, the complete state (chaining value, counter, 64-byte       *)
(* buffer) and then the digest.  TLC keeps its own byte counter (Check's       *)
(* machine: size' = size + n), demands that the real counter equals it, and    *)
(* decides the digest from the logged pre-state with Check!ShaFinish (padding, *)
(* 64-bit big-endian bit count, one or two compressions).                      *)
EXTENDS Check, TLC, Json, IOUtils

TraceLog == ndJsonDeserialize(IOEnv.TRACE)
VARIABLES l, size, fin
tvars == <<l, size, fin>>
IsEvent(e) == l <= Len(TraceLog) /\ TraceLog[l].e = e
Init == l = 1 /\ size = 0 /\ fin = FALSE
Reset == IsEvent("Reset") /\ size' = 0 /\ fin' = FALSE /\ l' = l + 1
Update == /\ IsEvent("Update") /\ ~fin
          /\ size' = size + TraceLog[l].n
          /\ TraceLog[l].size = size'                       \* the real byte counter
          /\ TraceLog[l].bufpos = size' % 64
          /\ fin' = fin /\ l' = l + 1
Finish == /\ IsEvent("Finish") /\ ~fin
          /\ LET ev == TraceLog[l]
                 s  == [h |-> [i \in 1..8 |-> <<ev.h[i][1], ev.h[i][2]>>], size |-> size, buf |-> ev.buf]
             IN /\ ev.size = size
                /\ ev.digest = ShaFinish(s)
          /\ fin' = TRUE /\ size' = size /\ l' = l + 1
Next == Reset \/ Update \/ Finish
Spec == Init /\ [][Next]_tvars
TraceAccepted == TLCGet("stats").diameter - 1 = Len(TraceLog)
=============================================================================
