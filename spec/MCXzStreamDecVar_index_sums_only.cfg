SPECIFICATION Spec
CONSTANTS Profile = "quick" DevDepth = 1 FlagMode = "some" Variant = "index_sums_only"
INVARIANTS AcceptIffValid MeaningExact OutIsPrefix RetDocumented FormatErrorOnlyFirst TellsSound PosBounded NoStarveOnValid
CHECK_DEADLOCK FALSE
