SPECIFICATION Spec
CONSTANTS
 Modes = {0, 420, 511, 2541, 1444, 4095}
 KindSet = {"reg", "lnk_reg", "lnk_dangling", "fifo", "dir", "missing", "stdin"}
 DstSet = {"none", "reg", "dir"}
 NlinkSet = {1, 2}
 OpModes = {"compress", "decompress"}
 KeepSet = {TRUE, FALSE}
 ForceSet = {TRUE, FALSE}
 StdoutSet = {TRUE, FALSE}
 NameSet = {TRUE, FALSE}
 PayloadSet = {TRUE, FALSE}
 UidSameSet = {TRUE}
 GidSameSet = {FALSE}
 OwnSet = {TRUE}
 GrpSet = {TRUE, FALSE}
 ChmodSet = {TRUE}
 TailSet = {"data", "hole", "allhole"}
 NoSparseSet = {TRUE, FALSE}
 NoWarnSet = {FALSE}
INVARIANTS NoOverwrite OldTargetGone NonRegularNeverWritten StrictRefusal ModeSafe ModeNoSpecial ModeExact
 ModeRestricted OwnerGroupTimes KeepKeeps RemovedOnlyOnSuccess RemovedOnSuccess ExitOK CreateExclusive NoWriteAfterTimes HoleFinished StdinTouchesNothing
PROPERTY Terminates
CHECK_DEADLOCK FALSE
