------------------------------ MODULE MCSparse -------------------------------
(* Sparse (transcription) against the C18 output contract: for every sink    *)
(* (new file, pipe, existing regular file at any offset with or without      *)
(* O_APPEND / O_NONBLOCK), --no-sparse, and every sequence of <= MaxBufs     *)
(* buffers (zero / non-zero / short / empty), the bytes that end up in the   *)
(* sink are old content o data, the size is exact and the file status flags  *)
(* are what they were.  B = 2 stands for the 8 KiB buffer.                   *)
EXTENDS Sparse, TLC

CONSTANTS MaxBufs, MaxOld
VARIABLES cfg, nbuf
vars == <<svars, cfg, nbuf>>

OldByte == 7
Bufs == UNION {{[len |-> n, zero |-> (\A i \in 1..n : f[i] = 0), bytes |-> f] : f \in [1..n -> {0, 1}]} : n \in 0..B}

Init ==
    /\ \E k \in {"newfile", "stdout_reg", "stdout_pipe"}, n \in 0..MaxOld, o \in 0..(MaxOld + 1),
          ap \in BOOLEAN, nb \in BOOLEAN, so \in BOOLEAN, dc \in BOOLEAN :
          /\ (k # "stdout_reg" => n = 0 /\ o = 0)
          /\ (k = "newfile" => ~ap /\ ~nb)
          /\ kind = k /\ file = [i \in 1..n |-> OldByte] /\ size = n /\ off = o
          /\ flAppend = ap /\ flNonblock = nb
          /\ cfg = [old |-> [i \in 1..n |-> OldByte], off |-> o, append |-> ap, nonblock |-> nb, sparseOpt |-> so, decompress |-> dc, success |-> TRUE]
    /\ trySparse = FALSE /\ pending = 0 /\ restore = FALSE /\ saved = [append |-> FALSE, nonblock |-> FALSE]
    /\ sys = <<>> /\ written = <<>> /\ pc = "open" /\ nbuf = 0

Next == \/ OpenDest(cfg.sparseOpt, cfg.decompress) /\ UNCHANGED <<cfg, nbuf>>
        \/ nbuf < MaxBufs /\ (\E b \in Bufs : Write(b)) /\ nbuf' = nbuf + 1 /\ UNCHANGED cfg
        \/ (\E ok \in BOOLEAN : Close(ok) /\ cfg' = [cfg EXCEPT !.success = ok]) /\ UNCHANGED nbuf
Spec == Init /\ [][Next]_vars

(* ---- the contract ---------------------------------------------------------*)
Start == IF kind = "stdout_pipe" \/ cfg.append THEN Len(cfg.old) ELSE cfg.off
Expected ==
    IF written = <<>> THEN cfg.old
    ELSE LET base == IF Start > Len(cfg.old) THEN cfg.old \o Zeros(Start - Len(cfg.old)) ELSE cfg.old
             e == Start + Len(written) IN
         SubSeq(base, 1, Start) \o written \o (IF e < Len(base) THEN SubSeq(base, e + 1, Len(base)) ELSE <<>>)
Closed == pc = "closed"
ContentExact == Closed /\ cfg.success => file = Expected
SizeExact == size = Len(file)
FlagsRestored == Closed => flAppend = cfg.append /\ flNonblock = cfg.nonblock /\ ~restore
(* while holes are being made the descriptor is not in append mode and sits at the end of the data *)
SparseOnlyAtEnd == trySparse /\ pc = "write" => ~flAppend /\ kind # "stdout_pipe" /\ off + pending >= size
NoSparseWhenNotWanted == trySparse => cfg.sparseOpt /\ cfg.decompress
(* non-vacuity witnesses (each must be violated) *)
NeverHole == ~(Closed /\ cfg.success /\ \E i \in 1..Len(sys) : sys[i].call = "lseek" /\ sys[i].whence = "CUR" /\ sys[i].arg > 0)
NeverAppendEmulated == ~(\E i \in 1..Len(sys) : sys[i].call = "lseek" /\ sys[i].whence = "END")
=============================================================================
