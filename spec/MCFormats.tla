------------------------------ MODULE MCFormats -------------------------------
(* C16 (M): for every file of the families, every decoder, flag set, finishing *)
(* style and EVERY way of slicing the input, the implementation-shaped model   *)
(* ends with what the format rules (FormatContract) demand.                    *)
EXTENDS FormatFamilies

CONSTANT Formats           \* which file formats this run covers
MCCases == {c \in AllCases : c[1].fmt \in Formats}
Init == \E c \in MCCases : \E m \in Modes : InitWith(c[1], c[2], c[3], m)
Next == Call
Spec == Init /\ [][Next]_vars
=============================================================================
