SPECIFICATION SliceSpec
CONSTANTS MaxIn = 0 MaxOut = 0 MaxFeed = 2 MaxGrant = 2
 Family = "lzma1" Rederive = FALSE
 Inputs <- MCInputs
INVARIANTS STypeOK SliceIndependent TotalsAgree NoInternal Decodable
VIEW MCView
CHECK_DEADLOCK FALSE
