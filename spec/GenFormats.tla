------------------------------ MODULE GenFormats ------------------------------
(* C16 (G): one plan per file x decoder x flags x finishing style: the file    *)
(* description (serialised by harness/glue), its byte tokens, and the outcome   *)
(* predicted by the implementation-shaped model run with the whole file in one *)
(* piece (MCFormats shows that the outcome does not depend on the slicing),    *)
(* together with what the contract leaves open (tin = -1, outRel).  The check  *)
(* replays every plan into liblzma with many slicings and into the tools.      *)
EXTENDS FormatFamilies, Json

CONSTANT Formats
GenCases == {c \in AllCases : c[1].fmt \in Formats}
Init == \E c \in GenCases : \E m \in Modes : InitWith(c[1], c[2], c[3], m)
Next == Call
Spec == Init /\ [][Next]_vars

Kinds == LET t == FullTokens(fd) IN [j \in 1..Len(t) |-> t[j].k]     \* of the uncut file
Plan == [fd |-> fd, api |-> api, flags |-> flags, mode |-> mode, kinds |-> Kinds, len |-> Len(file),
         rets |-> rets, out |-> tout, tin |-> tin, exp |-> Expect(fd, api, flags),
         lc |-> IF fd.fmt = "alone" THEN PropsLc(fd.props) ELSE 0,
         lp |-> IF fd.fmt = "alone" THEN PropsLp(fd.props) ELSE 0,
         pb |-> IF fd.fmt = "alone" THEN PropsPb(fd.props) ELSE 0,
         propsBad |-> IF fd.fmt = "alone" THEN PropsBad(fd.props) ELSE FALSE]
Emit == done => PrintT(<<"PLAN", ToJson(Plan)>>)
=============================================================================
