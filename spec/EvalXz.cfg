SPECIFICATION ESpec
CONSTANTS Profile = "tiny" DevDepth = 0 FlagMode = "one" Variant = "ok"
INVARIANTS OutIsPrefix RetDocumented
ACTION_CONSTRAINT EEmit
CHECK_DEADLOCK FALSE
