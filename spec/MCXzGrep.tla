------------------------------ MODULE MCXzGrep ------------------------------
(* C20 (M): XzGrep (transcription) => XzGrepContract.                                   *)
(*  Wide = TRUE : the option scanner on every argument vector built from the broad      *)
(*                vocabulary (file loop not explored: DoFiles = FALSE).                  *)
(*  Wide = FALSE: scanner + file loop on the label/list/context options x every         *)
(*                file-state vector of length <= 3.                                      *)
EXTENDS XzGrepContract, TLC

CONSTANTS MaxOpts,     \* number of option groups before the pattern
          Wide, DoFiles,
          Cov,         \* small configuration in which every action occurs (for -coverage)
          Big,         \* thorough tier: larger narrow vocabulary
          Strict       \* "none" | "sedctx": which strict (known-deviating) invariant is checked

\* option groups (each is one or two words)
WideVocab == {
    <<"-i">>, <<"-n">>, <<"-c">>, <<"-q">>, <<"-in">>, <<"-E">>, <<"-F">>,
    <<"-H">>, <<"-h">>, <<"-nH">>, <<"-hi">>, <<"--with-filename">>, <<"--no-filename">>,
    <<"-l">>, <<"-L">>, <<"-il">>, <<"--files-with-matches">>, <<"--files-without-match">>,
    <<"-A1">>, <<"-C", "1">>, <<"-2">>, <<"-n2H">>, <<"-i2">>, <<"--context=1">>, <<"-iB", "1">>,
    <<"-m1">>, <<"-m", "1">>, <<"--max-count", "1">>, <<"--max-count=1">>,
    <<"--help">>, <<"-V">>, <<"-ir">>, <<"--null">>, <<"--include=x">> }
NarrowVocab == { <<"-H">>, <<"-h">>, <<"-l">>, <<"-L">>, <<"-A1">>, <<"-c">> }
               \cup (IF Big THEN { <<"-nH">>, <<"--no-filename">>, <<"-q">>, <<"-2">> } ELSE {})
OptVocab == IF Wide THEN WideVocab ELSE NarrowVocab

RECURSIVE OptSeqs(_)
OptSeqs(n) == IF n = 0 THEN {<<>>} ELSE OptSeqs(n - 1) \cup {s \o o : s \in OptSeqs(n - 1), o \in OptVocab}

PatForms == IF Wide
            THEN { <<>>, <<"@p">>, <<"-e", "@p">>, <<"-e@p">>, <<"-ie", "@p">>, <<"-ne@p">>, <<"--regexp=@p">>,
                   <<"--regexp", "@p">>, <<"-f", "@q">>, <<"--file=@q">>, <<"--file", "@q">>, <<"-e", "-@p">>,
                   <<"-e">>, <<"--", "-@p">> }
            ELSE { <<"@p">>, <<"-e", "@p">> }
FileSeqs == IF Cov THEN { <<>>, <<"@1.gz", "@2">> } ELSE IF Wide
            THEN { <<>>, <<"@1.xz">>, <<"@1.gz", "@2">>, <<"@1.lzma", "@2.tbz2", "@3-z">>, <<"-">>, <<"@1", "-">> }
            ELSE { <<>>, <<"@1.xz">>, <<"@1.gz", "@2">>, <<"@1.lzma", "@2.tbz2", "@3-z">> }
TailOpts == IF Cov THEN { <<>> } ELSE IF Wide THEN { <<>>, <<"-h">>, <<"-H">>, <<"-A", "1">> } ELSE { <<>>, <<"-h">>, <<"-H">> }
DDs      == IF Wide THEN {<<>>, <<"--">>} ELSE {<<>>}

ArgvSet == { o \o p \o d \o f \o t : o \in OptSeqs(MaxOpts), p \in PatForms, d \in DDs, f \in FileSeqs, t \in TailOpts }

\* match / no match / missing or corrupt (no output) / corrupt after output / grep error / SIGPIPE / killed
MCFileStates == IF Strict # "none" THEN { [gr |-> 0, xs |-> "ok"] } ELSE
                { [gr |-> 0, xs |-> "ok"], [gr |-> 1, xs |-> "ok"], [gr |-> 1, xs |-> "fail"], [gr |-> 0, xs |-> "fail"],
                  [gr |-> 2, xs |-> "ok"], [gr |-> 0, xs |-> "pipe"], [gr |-> 1, xs |-> "kill"] }

\* the label probe is irrelevant to the scanner
MCInit == \E p \in {"xzgrep"}, lab \in (IF DoFiles THEN BOOLEAN ELSE {TRUE}), av \in ArgvSet : InitWith(p, lab, av) /\ ref = RefOf(av)
\* one named wrapper per action of the transcription, so that -coverage reports them separately
MScanCluster == ScanCluster /\ UNCHANGED ref
MScanEqForm == ScanEqForm /\ UNCHANGED ref
MScanTakeArg == ScanTakeArg /\ UNCHANGED ref
MScanMissingArg == ScanMissingArg /\ UNCHANGED ref
MScanDashDash == ScanDashDash /\ UNCHANGED ref
MScanOption == ScanOption /\ UNCHANGED ref
MScanOperand == ScanOperand /\ UNCHANGED ref
MScanEnd == ScanEnd /\ UNCHANGED ref
MPost == Post /\ UNCHANGED ref
MFileStep == DoFiles /\ (\E st \in MCFileStates : FileStep(st)) /\ UNCHANGED ref
MFinish == DoFiles /\ Finish /\ UNCHANGED ref
MCNext == MScanCluster \/ MScanEqForm \/ MScanTakeArg \/ MScanMissingArg \/ MScanDashDash \/ MScanOption \/ MScanOperand \/ MScanEnd \/ MPost \/ MFileStep \/ MFinish
MCSpec == MCInit /\ [][MCNext]_<<vars, ref>>

StrictInv == CASE Strict = "sedctx" -> SedContextStrict
               [] OTHER -> TRUE
=============================================================================
