SPECIFICATION Spec
CONSTANTS Which = "vli" MaxTokens = 2
CONSTRAINT Emit
CHECK_DEADLOCK FALSE
