---- MODULE Starve_TTrace_1790558153 ----
EXTENDS Sequences, TLCExt, Starve, Starve_TEConstants, Toolbox, Naturals, TLC

_expression ==
    LET Starve_TEExpression == INSTANCE Starve_TEExpression
    IN Starve_TEExpression!expression
----

_trace ==
    LET Starve_TETrace == INSTANCE Starve_TETrace
    IN Starve_TETrace!trace
----

_prop ==
    ~(([]<>(
            phase = ("call")
            /\
            obs = ([ret |-> "OK", uin |-> 0, kind |-> "call", ain |-> 0, innerRan |-> TRUE, aout |-> 0, uout |-> 0, action |-> "FINISH", inNull |-> FALSE, outNull |-> FALSE, resv |-> FALSE, innerRet |-> "TIMED_OUT"])
            /\
            outAcc = (<<>>)
            /\
            inited = (TRUE)
            /\
            fed = (0)
            /\
            totalIn = (0)
            /\
            told = (FALSE)
            /\
            starved = ("out")
            /\
            inp = ([have |-> 0, fields |-> <<[k |-> "buf", m |-> 0, n |-> 2, eopm |-> FALSE, needOut |-> FALSE, bad |-> 0, eat |-> TRUE, err |-> "OK", fin |-> FALSE, set |-> 0], [k |-> "sym", m |-> 1, n |-> 1, eopm |-> FALSE, needOut |-> FALSE, bad |-> 0, eat |-> TRUE, err |-> "OK", fin |-> FALSE, set |-> 0], [k |-> "sym", m |-> 2, n |-> 2, eopm |-> FALSE, needOut |-> FALSE, bad |-> 0, eat |-> TRUE, err |-> "OK", fin |-> FALSE, set |-> 0], [k |-> "sym", m |-> 1, n |-> 2, eopm |-> TRUE, needOut |-> FALSE, bad |-> 0, eat |-> TRUE, err |-> "OK", fin |-> TRUE, set |-> 0], [k |-> "buf", m |-> 0, n |-> 3, eopm |-> FALSE, needOut |-> FALSE, bad |-> 0, eat |-> TRUE, err |-> "OK", fin |-> FALSE, set |-> 0]>>, opt |-> [rederive |-> TRUE, allowEopm |-> TRUE, bcj |-> 0]])
            /\
            savedIn = (0)
            /\
            done = (FALSE)
            /\
            cs = ([s |-> [buf |-> <<>>, pos |-> 0, filtered |-> 0, ended |-> FALSE], pos |-> 0, fi |-> 1, opos |-> 0, stage |-> "in", known |-> FALSE, left |-> 0, padmod |-> 0])
            /\
            allowBuf = (FALSE)
            /\
            grant = (0)
            /\
            totalOut = (0)
            /\
            seq = ("FINISH")
            /\
            supported = ({"RUN", "FINISH"})
            /\
            oneShot = (<<<<>>, "BUF_ERROR", 0>>)
            /\
            since = (9)
    ))/\([]<>(
            phase = ("feed")
            /\
            obs = ([ret |-> "OK", uin |-> 0, kind |-> "call", ain |-> 0, innerRan |-> TRUE, aout |-> 0, uout |-> 0, action |-> "FINISH", inNull |-> FALSE, outNull |-> FALSE, resv |-> FALSE, innerRet |-> "TIMED_OUT"])
            /\
            outAcc = (<<>>)
            /\
            inited = (TRUE)
            /\
            fed = (0)
            /\
            totalIn = (0)
            /\
            told = (FALSE)
            /\
            starved = ("out")
            /\
            inp = ([have |-> 0, fields |-> <<[k |-> "buf", m |-> 0, n |-> 2, eopm |-> FALSE, needOut |-> FALSE, bad |-> 0, eat |-> TRUE, err |-> "OK", fin |-> FALSE, set |-> 0], [k |-> "sym", m |-> 1, n |-> 1, eopm |-> FALSE, needOut |-> FALSE, bad |-> 0, eat |-> TRUE, err |-> "OK", fin |-> FALSE, set |-> 0], [k |-> "sym", m |-> 2, n |-> 2, eopm |-> FALSE, needOut |-> FALSE, bad |-> 0, eat |-> TRUE, err |-> "OK", fin |-> FALSE, set |-> 0], [k |-> "sym", m |-> 1, n |-> 2, eopm |-> TRUE, needOut |-> FALSE, bad |-> 0, eat |-> TRUE, err |-> "OK", fin |-> TRUE, set |-> 0], [k |-> "buf", m |-> 0, n |-> 3, eopm |-> FALSE, needOut |-> FALSE, bad |-> 0, eat |-> TRUE, err |-> "OK", fin |-> FALSE, set |-> 0]>>, opt |-> [rederive |-> TRUE, allowEopm |-> TRUE, bcj |-> 0]])
            /\
            savedIn = (0)
            /\
            done = (FALSE)
            /\
            cs = ([s |-> [buf |-> <<>>, pos |-> 0, filtered |-> 0, ended |-> FALSE], pos |-> 0, fi |-> 1, opos |-> 0, stage |-> "in", known |-> FALSE, left |-> 0, padmod |-> 0])
            /\
            allowBuf = (FALSE)
            /\
            grant = (0)
            /\
            totalOut = (0)
            /\
            seq = ("FINISH")
            /\
            supported = ({"RUN", "FINISH"})
            /\
            oneShot = (<<<<>>, "BUF_ERROR", 0>>)
            /\
            since = (9)
    )))
----

_init ==
    /\ phase = _TETrace[1].phase
    /\ done = _TETrace[1].done
    /\ seq = _TETrace[1].seq
    /\ supported = _TETrace[1].supported
    /\ savedIn = _TETrace[1].savedIn
    /\ allowBuf = _TETrace[1].allowBuf
    /\ cs = _TETrace[1].cs
    /\ fed = _TETrace[1].fed
    /\ told = _TETrace[1].told
    /\ outAcc = _TETrace[1].outAcc
    /\ totalOut = _TETrace[1].totalOut
    /\ inp = _TETrace[1].inp
    /\ inited = _TETrace[1].inited
    /\ obs = _TETrace[1].obs
    /\ totalIn = _TETrace[1].totalIn
    /\ oneShot = _TETrace[1].oneShot
    /\ starved = _TETrace[1].starved
    /\ grant = _TETrace[1].grant
    /\ since = _TETrace[1].since
----

_next ==
    /\ \E i,j \in DOMAIN _TETrace:
        /\ \/ /\ j = i + 1
              /\ i = TLCGet("level")
           \/ /\ i = _TTraceLassoEnd
              /\ j = _TTraceLassoStart
        /\ phase  = _TETrace[i].phase
        /\ phase' = _TETrace[j].phase
        /\ done  = _TETrace[i].done
        /\ done' = _TETrace[j].done
        /\ seq  = _TETrace[i].seq
        /\ seq' = _TETrace[j].seq
        /\ supported  = _TETrace[i].supported
        /\ supported' = _TETrace[j].supported
        /\ savedIn  = _TETrace[i].savedIn
        /\ savedIn' = _TETrace[j].savedIn
        /\ allowBuf  = _TETrace[i].allowBuf
        /\ allowBuf' = _TETrace[j].allowBuf
        /\ cs  = _TETrace[i].cs
        /\ cs' = _TETrace[j].cs
        /\ fed  = _TETrace[i].fed
        /\ fed' = _TETrace[j].fed
        /\ told  = _TETrace[i].told
        /\ told' = _TETrace[j].told
        /\ outAcc  = _TETrace[i].outAcc
        /\ outAcc' = _TETrace[j].outAcc
        /\ totalOut  = _TETrace[i].totalOut
        /\ totalOut' = _TETrace[j].totalOut
        /\ inp  = _TETrace[i].inp
        /\ inp' = _TETrace[j].inp
        /\ inited  = _TETrace[i].inited
        /\ inited' = _TETrace[j].inited
        /\ obs  = _TETrace[i].obs
        /\ obs' = _TETrace[j].obs
        /\ totalIn  = _TETrace[i].totalIn
        /\ totalIn' = _TETrace[j].totalIn
        /\ oneShot  = _TETrace[i].oneShot
        /\ oneShot' = _TETrace[j].oneShot
        /\ starved  = _TETrace[i].starved
        /\ starved' = _TETrace[j].starved
        /\ grant  = _TETrace[i].grant
        /\ grant' = _TETrace[j].grant
        /\ since  = _TETrace[i].since
        /\ since' = _TETrace[j].since

\* Uncomment the ASSUME below to write the states of the error trace
\* to the given file in Json format. Note that you can pass any tuple
\* to `JsonSerialize`. For example, a sub-sequence of _TETrace.
    \* ASSUME
    \*     LET J == INSTANCE Json
    \*         IN J!JsonSerialize("Starve_TTrace_1790558153.json", _TETrace)


_view ==
    <<phase, done, seq, supported, savedIn, allowBuf, cs, fed, told, outAcc, totalOut, inp, inited, obs, totalIn, oneShot, starved, grant, since, IF TLCGet("level") = _TTraceLassoEnd + 1 THEN _TTraceLassoStart ELSE TLCGet("level")>>
=============================================================================

 Note that you can extract this module `Starve_TEExpression`
  to a dedicated file to reuse `expression` (the module in the 
  dedicated `Starve_TEExpression.tla` file takes precedence 
  over the module `Starve_TEExpression` below).

---- MODULE Starve_TEExpression ----
EXTENDS Sequences, TLCExt, Starve, Starve_TEConstants, Toolbox, Naturals, TLC

expression == 
    [
        \* To hide variables of the `Starve` spec from the error trace,
        \* remove the variables below.  The trace will be written in the order
        \* of the fields of this record.
        phase |-> phase
        ,done |-> done
        ,seq |-> seq
        ,supported |-> supported
        ,savedIn |-> savedIn
        ,allowBuf |-> allowBuf
        ,cs |-> cs
        ,fed |-> fed
        ,told |-> told
        ,outAcc |-> outAcc
        ,totalOut |-> totalOut
        ,inp |-> inp
        ,inited |-> inited
        ,obs |-> obs
        ,totalIn |-> totalIn
        ,oneShot |-> oneShot
        ,starved |-> starved
        ,grant |-> grant
        ,since |-> since
        
        \* Put additional constant-, state-, and action-level expressions here:
        \* ,_stateNumber |-> _TEPosition
        \* ,_phaseUnchanged |-> phase = phase'
        
        \* Format the `phase` variable as Json value.
        \* ,_phaseJson |->
        \*     LET J == INSTANCE Json
        \*     IN J!ToJson(phase)
        
        \* Lastly, you may build expressions over arbitrary sets of states by
        \* leveraging the _TETrace operator.  For example, this is how to
        \* count the number of times a spec variable changed up to the current
        \* state in the trace.
        \* ,_phaseModCount |->
        \*     LET F[s \in DOMAIN _TETrace] ==
        \*         IF s = 1 THEN 0
        \*         ELSE IF _TETrace[s].phase # _TETrace[s-1].phase
        \*             THEN 1 + F[s-1] ELSE F[s-1]
        \*     IN F[_TEPosition - 1]
    ]

=============================================================================



Parsing and semantic processing can take forever if the trace below is long.
 In this case, it is advised to uncomment the module below to deserialize the
 trace from a generated binary file.

\*
\*---- MODULE Starve_TETrace ----
\*EXTENDS IOUtils, Starve, Starve_TEConstants, TLC
\*
\*trace == IODeserialize("Starve_TTrace_1790558153.bin", TRUE)
\*
\*=============================================================================
\*

---- MODULE Starve_TETrace ----
EXTENDS Starve, Starve_TEConstants, TLC

trace == 
    <<
    ([phase |-> "feed",obs |-> [kind |-> "none"],outAcc |-> <<>>,inited |-> TRUE,fed |-> 0,totalIn |-> 0,told |-> FALSE,starved |-> "no",inp |-> [have |-> 0, fields |-> <<[k |-> "buf", m |-> 0, n |-> 2, eopm |-> FALSE, needOut |-> FALSE, bad |-> 0, eat |-> TRUE, err |-> "OK", fin |-> FALSE, set |-> 0], [k |-> "sym", m |-> 1, n |-> 1, eopm |-> FALSE, needOut |-> FALSE, bad |-> 0, eat |-> TRUE, err |-> "OK", fin |-> FALSE, set |-> 0], [k |-> "sym", m |-> 2, n |-> 2, eopm |-> FALSE, needOut |-> FALSE, bad |-> 0, eat |-> TRUE, err |-> "OK", fin |-> FALSE, set |-> 0], [k |-> "sym", m |-> 1, n |-> 2, eopm |-> TRUE, needOut |-> FALSE, bad |-> 0, eat |-> TRUE, err |-> "OK", fin |-> TRUE, set |-> 0], [k |-> "buf", m |-> 0, n |-> 3, eopm |-> FALSE, needOut |-> FALSE, bad |-> 0, eat |-> TRUE, err |-> "OK", fin |-> FALSE, set |-> 0]>>, opt |-> [rederive |-> TRUE, allowEopm |-> TRUE, bcj |-> 0]],savedIn |-> 0,done |-> FALSE,cs |-> [s |-> [buf |-> <<>>, pos |-> 0, filtered |-> 0, ended |-> FALSE], pos |-> 0, fi |-> 1, opos |-> 0, stage |-> "in", known |-> FALSE, left |-> 0, padmod |-> 0],allowBuf |-> FALSE,grant |-> 0,totalOut |-> 0,seq |-> "RUN",supported |-> {"RUN", "FINISH"},oneShot |-> <<<<>>, "BUF_ERROR", 0>>,since |-> 0]),
    ([phase |-> "feed",obs |-> [kind |-> "none"],outAcc |-> <<>>,inited |-> TRUE,fed |-> 0,totalIn |-> 0,told |-> FALSE,starved |-> "out",inp |-> [have |-> 0, fields |-> <<[k |-> "buf", m |-> 0, n |-> 2, eopm |-> FALSE, needOut |-> FALSE, bad |-> 0, eat |-> TRUE, err |-> "OK", fin |-> FALSE, set |-> 0], [k |-> "sym", m |-> 1, n |-> 1, eopm |-> FALSE, needOut |-> FALSE, bad |-> 0, eat |-> TRUE, err |-> "OK", fin |-> FALSE, set |-> 0], [k |-> "sym", m |-> 2, n |-> 2, eopm |-> FALSE, needOut |-> FALSE, bad |-> 0, eat |-> TRUE, err |-> "OK", fin |-> FALSE, set |-> 0], [k |-> "sym", m |-> 1, n |-> 2, eopm |-> TRUE, needOut |-> FALSE, bad |-> 0, eat |-> TRUE, err |-> "OK", fin |-> TRUE, set |-> 0], [k |-> "buf", m |-> 0, n |-> 3, eopm |-> FALSE, needOut |-> FALSE, bad |-> 0, eat |-> TRUE, err |-> "OK", fin |-> FALSE, set |-> 0]>>, opt |-> [rederive |-> TRUE, allowEopm |-> TRUE, bcj |-> 0]],savedIn |-> 0,done |-> FALSE,cs |-> [s |-> [buf |-> <<>>, pos |-> 0, filtered |-> 0, ended |-> FALSE], pos |-> 0, fi |-> 1, opos |-> 0, stage |-> "in", known |-> FALSE, left |-> 0, padmod |-> 0],allowBuf |-> FALSE,grant |-> 0,totalOut |-> 0,seq |-> "RUN",supported |-> {"RUN", "FINISH"},oneShot |-> <<<<>>, "BUF_ERROR", 0>>,since |-> 0]),
    ([phase |-> "space",obs |-> [kind |-> "none"],outAcc |-> <<>>,inited |-> TRUE,fed |-> 0,totalIn |-> 0,told |-> FALSE,starved |-> "out",inp |-> [have |-> 0, fields |-> <<[k |-> "buf", m |-> 0, n |-> 2, eopm |-> FALSE, needOut |-> FALSE, bad |-> 0, eat |-> TRUE, err |-> "OK", fin |-> FALSE, set |-> 0], [k |-> "sym", m |-> 1, n |-> 1, eopm |-> FALSE, needOut |-> FALSE, bad |-> 0, eat |-> TRUE, err |-> "OK", fin |-> FALSE, set |-> 0], [k |-> "sym", m |-> 2, n |-> 2, eopm |-> FALSE, needOut |-> FALSE, bad |-> 0, eat |-> TRUE, err |-> "OK", fin |-> FALSE, set |-> 0], [k |-> "sym", m |-> 1, n |-> 2, eopm |-> TRUE, needOut |-> FALSE, bad |-> 0, eat |-> TRUE, err |-> "OK", fin |-> TRUE, set |-> 0], [k |-> "buf", m |-> 0, n |-> 3, eopm |-> FALSE, needOut |-> FALSE, bad |-> 0, eat |-> TRUE, err |-> "OK", fin |-> FALSE, set |-> 0]>>, opt |-> [rederive |-> TRUE, allowEopm |-> TRUE, bcj |-> 0]],savedIn |-> 0,done |-> FALSE,cs |-> [s |-> [buf |-> <<>>, pos |-> 0, filtered |-> 0, ended |-> FALSE], pos |-> 0, fi |-> 1, opos |-> 0, stage |-> "in", known |-> FALSE, left |-> 0, padmod |-> 0],allowBuf |-> FALSE,grant |-> 0,totalOut |-> 0,seq |-> "RUN",supported |-> {"RUN", "FINISH"},oneShot |-> <<<<>>, "BUF_ERROR", 0>>,since |-> 0]),
    ([phase |-> "call",obs |-> [kind |-> "none"],outAcc |-> <<>>,inited |-> TRUE,fed |-> 0,totalIn |-> 0,told |-> FALSE,starved |-> "out",inp |-> [have |-> 0, fields |-> <<[k |-> "buf", m |-> 0, n |-> 2, eopm |-> FALSE, needOut |-> FALSE, bad |-> 0, eat |-> TRUE, err |-> "OK", fin |-> FALSE, set |-> 0], [k |-> "sym", m |-> 1, n |-> 1, eopm |-> FALSE, needOut |-> FALSE, bad |-> 0, eat |-> TRUE, err |-> "OK", fin |-> FALSE, set |-> 0], [k |-> "sym", m |-> 2, n |-> 2, eopm |-> FALSE, needOut |-> FALSE, bad |-> 0, eat |-> TRUE, err |-> "OK", fin |-> FALSE, set |-> 0], [k |-> "sym", m |-> 1, n |-> 2, eopm |-> TRUE, needOut |-> FALSE, bad |-> 0, eat |-> TRUE, err |-> "OK", fin |-> TRUE, set |-> 0], [k |-> "buf", m |-> 0, n |-> 3, eopm |-> FALSE, needOut |-> FALSE, bad |-> 0, eat |-> TRUE, err |-> "OK", fin |-> FALSE, set |-> 0]>>, opt |-> [rederive |-> TRUE, allowEopm |-> TRUE, bcj |-> 0]],savedIn |-> 0,done |-> FALSE,cs |-> [s |-> [buf |-> <<>>, pos |-> 0, filtered |-> 0, ended |-> FALSE], pos |-> 0, fi |-> 1, opos |-> 0, stage |-> "in", known |-> FALSE, left |-> 0, padmod |-> 0],allowBuf |-> FALSE,grant |-> 0,totalOut |-> 0,seq |-> "RUN",supported |-> {"RUN", "FINISH"},oneShot |-> <<<<>>, "BUF_ERROR", 0>>,since |-> 0]),
    ([phase |-> "feed",obs |-> [ret |-> "OK", uin |-> 0, kind |-> "call", ain |-> 0, innerRan |-> TRUE, aout |-> 0, uout |-> 0, action |-> "FINISH", inNull |-> FALSE, outNull |-> FALSE, resv |-> FALSE, innerRet |-> "TIMED_OUT"],outAcc |-> <<>>,inited |-> TRUE,fed |-> 0,totalIn |-> 0,told |-> FALSE,starved |-> "out",inp |-> [have |-> 0, fields |-> <<[k |-> "buf", m |-> 0, n |-> 2, eopm |-> FALSE, needOut |-> FALSE, bad |-> 0, eat |-> TRUE, err |-> "OK", fin |-> FALSE, set |-> 0], [k |-> "sym", m |-> 1, n |-> 1, eopm |-> FALSE, needOut |-> FALSE, bad |-> 0, eat |-> TRUE, err |-> "OK", fin |-> FALSE, set |-> 0], [k |-> "sym", m |-> 2, n |-> 2, eopm |-> FALSE, needOut |-> FALSE, bad |-> 0, eat |-> TRUE, err |-> "OK", fin |-> FALSE, set |-> 0], [k |-> "sym", m |-> 1, n |-> 2, eopm |-> TRUE, needOut |-> FALSE, bad |-> 0, eat |-> TRUE, err |-> "OK", fin |-> TRUE, set |-> 0], [k |-> "buf", m |-> 0, n |-> 3, eopm |-> FALSE, needOut |-> FALSE, bad |-> 0, eat |-> TRUE, err |-> "OK", fin |-> FALSE, set |-> 0]>>, opt |-> [rederive |-> TRUE, allowEopm |-> TRUE, bcj |-> 0]],savedIn |-> 0,done |-> FALSE,cs |-> [s |-> [buf |-> <<>>, pos |-> 0, filtered |-> 0, ended |-> FALSE], pos |-> 0, fi |-> 1, opos |-> 0, stage |-> "in", known |-> FALSE, left |-> 0, padmod |-> 0],allowBuf |-> FALSE,grant |-> 0,totalOut |-> 0,seq |-> "FINISH",supported |-> {"RUN", "FINISH"},oneShot |-> <<<<>>, "BUF_ERROR", 0>>,since |-> 1]),
    ([phase |-> "space",obs |-> [ret |-> "OK", uin |-> 0, kind |-> "call", ain |-> 0, innerRan |-> TRUE, aout |-> 0, uout |-> 0, action |-> "FINISH", inNull |-> FALSE, outNull |-> FALSE, resv |-> FALSE, innerRet |-> "TIMED_OUT"],outAcc |-> <<>>,inited |-> TRUE,fed |-> 0,totalIn |-> 0,told |-> FALSE,starved |-> "out",inp |-> [have |-> 0, fields |-> <<[k |-> "buf", m |-> 0, n |-> 2, eopm |-> FALSE, needOut |-> FALSE, bad |-> 0, eat |-> TRUE, err |-> "OK", fin |-> FALSE, set |-> 0], [k |-> "sym", m |-> 1, n |-> 1, eopm |-> FALSE, needOut |-> FALSE, bad |-> 0, eat |-> TRUE, err |-> "OK", fin |-> FALSE, set |-> 0], [k |-> "sym", m |-> 2, n |-> 2, eopm |-> FALSE, needOut |-> FALSE, bad |-> 0, eat |-> TRUE, err |-> "OK", fin |-> FALSE, set |-> 0], [k |-> "sym", m |-> 1, n |-> 2, eopm |-> TRUE, needOut |-> FALSE, bad |-> 0, eat |-> TRUE, err |-> "OK", fin |-> TRUE, set |-> 0], [k |-> "buf", m |-> 0, n |-> 3, eopm |-> FALSE, needOut |-> FALSE, bad |-> 0, eat |-> TRUE, err |-> "OK", fin |-> FALSE, set |-> 0]>>, opt |-> [rederive |-> TRUE, allowEopm |-> TRUE, bcj |-> 0]],savedIn |-> 0,done |-> FALSE,cs |-> [s |-> [buf |-> <<>>, pos |-> 0, filtered |-> 0, ended |-> FALSE], pos |-> 0, fi |-> 1, opos |-> 0, stage |-> "in", known |-> FALSE, left |-> 0, padmod |-> 0],allowBuf |-> FALSE,grant |-> 0,totalOut |-> 0,seq |-> "FINISH",supported |-> {"RUN", "FINISH"},oneShot |-> <<<<>>, "BUF_ERROR", 0>>,since |-> 1]),
    ([phase |-> "call",obs |-> [ret |-> "OK", uin |-> 0, kind |-> "call", ain |-> 0, innerRan |-> TRUE, aout |-> 0, uout |-> 0, action |-> "FINISH", inNull |-> FALSE, outNull |-> FALSE, resv |-> FALSE, innerRet |-> "TIMED_OUT"],outAcc |-> <<>>,inited |-> TRUE,fed |-> 0,totalIn |-> 0,told |-> FALSE,starved |-> "out",inp |-> [have |-> 0, fields |-> <<[k |-> "buf", m |-> 0, n |-> 2, eopm |-> FALSE, needOut |-> FALSE, bad |-> 0, eat |-> TRUE, err |-> "OK", fin |-> FALSE, set |-> 0], [k |-> "sym", m |-> 1, n |-> 1, eopm |-> FALSE, needOut |-> FALSE, bad |-> 0, eat |-> TRUE, err |-> "OK", fin |-> FALSE, set |-> 0], [k |-> "sym", m |-> 2, n |-> 2, eopm |-> FALSE, needOut |-> FALSE, bad |-> 0, eat |-> TRUE, err |-> "OK", fin |-> FALSE, set |-> 0], [k |-> "sym", m |-> 1, n |-> 2, eopm |-> TRUE, needOut |-> FALSE, bad |-> 0, eat |-> TRUE, err |-> "OK", fin |-> TRUE, set |-> 0], [k |-> "buf", m |-> 0, n |-> 3, eopm |-> FALSE, needOut |-> FALSE, bad |-> 0, eat |-> TRUE, err |-> "OK", fin |-> FALSE, set |-> 0]>>, opt |-> [rederive |-> TRUE, allowEopm |-> TRUE, bcj |-> 0]],savedIn |-> 0,done |-> FALSE,cs |-> [s |-> [buf |-> <<>>, pos |-> 0, filtered |-> 0, ended |-> FALSE], pos |-> 0, fi |-> 1, opos |-> 0, stage |-> "in", known |-> FALSE, left |-> 0, padmod |-> 0],allowBuf |-> FALSE,grant |-> 0,totalOut |-> 0,seq |-> "FINISH",supported |-> {"RUN", "FINISH"},oneShot |-> <<<<>>, "BUF_ERROR", 0>>,since |-> 1]),
    ([phase |-> "feed",obs |-> [ret |-> "OK", uin |-> 0, kind |-> "call", ain |-> 0, innerRan |-> TRUE, aout |-> 0, uout |-> 0, action |-> "FINISH", inNull |-> FALSE, outNull |-> FALSE, resv |-> FALSE, innerRet |-> "TIMED_OUT"],outAcc |-> <<>>,inited |-> TRUE,fed |-> 0,totalIn |-> 0,told |-> FALSE,starved |-> "out",inp |-> [have |-> 0, fields |-> <<[k |-> "buf", m |-> 0, n |-> 2, eopm |-> FALSE, needOut |-> FALSE, bad |-> 0, eat |-> TRUE, err |-> "OK", fin |-> FALSE, set |-> 0], [k |-> "sym", m |-> 1, n |-> 1, eopm |-> FALSE, needOut |-> FALSE, bad |-> 0, eat |-> TRUE, err |-> "OK", fin |-> FALSE, set |-> 0], [k |-> "sym", m |-> 2, n |-> 2, eopm |-> FALSE, needOut |-> FALSE, bad |-> 0, eat |-> TRUE, err |-> "OK", fin |-> FALSE, set |-> 0], [k |-> "sym", m |-> 1, n |-> 2, eopm |-> TRUE, needOut |-> FALSE, bad |-> 0, eat |-> TRUE, err |-> "OK", fin |-> TRUE, set |-> 0], [k |-> "buf", m |-> 0, n |-> 3, eopm |-> FALSE, needOut |-> FALSE, bad |-> 0, eat |-> TRUE, err |-> "OK", fin |-> FALSE, set |-> 0]>>, opt |-> [rederive |-> TRUE, allowEopm |-> TRUE, bcj |-> 0]],savedIn |-> 0,done |-> FALSE,cs |-> [s |-> [buf |-> <<>>, pos |-> 0, filtered |-> 0, ended |-> FALSE], pos |-> 0, fi |-> 1, opos |-> 0, stage |-> "in", known |-> FALSE, left |-> 0, padmod |-> 0],allowBuf |-> FALSE,grant |-> 0,totalOut |-> 0,seq |-> "FINISH",supported |-> {"RUN", "FINISH"},oneShot |-> <<<<>>, "BUF_ERROR", 0>>,since |-> 2]),
    ([phase |-> "space",obs |-> [ret |-> "OK", uin |-> 0, kind |-> "call", ain |-> 0, innerRan |-> TRUE, aout |-> 0, uout |-> 0, action |-> "FINISH", inNull |-> FALSE, outNull |-> FALSE, resv |-> FALSE, innerRet |-> "TIMED_OUT"],outAcc |-> <<>>,inited |-> TRUE,fed |-> 0,totalIn |-> 0,told |-> FALSE,starved |-> "out",inp |-> [have |-> 0, fields |-> <<[k |-> "buf", m |-> 0, n |-> 2, eopm |-> FALSE, needOut |-> FALSE, bad |-> 0, eat |-> TRUE, err |-> "OK", fin |-> FALSE, set |-> 0], [k |-> "sym", m |-> 1, n |-> 1, eopm |-> FALSE, needOut |-> FALSE, bad |-> 0, eat |-> TRUE, err |-> "OK", fin |-> FALSE, set |-> 0], [k |-> "sym", m |-> 2, n |-> 2, eopm |-> FALSE, needOut |-> FALSE, bad |-> 0, eat |-> TRUE, err |-> "OK", fin |-> FALSE, set |-> 0], [k |-> "sym", m |-> 1, n |-> 2, eopm |-> TRUE, needOut |-> FALSE, bad |-> 0, eat |-> TRUE, err |-> "OK", fin |-> TRUE, set |-> 0], [k |-> "buf", m |-> 0, n |-> 3, eopm |-> FALSE, needOut |-> FALSE, bad |-> 0, eat |-> TRUE, err |-> "OK", fin |-> FALSE, set |-> 0]>>, opt |-> [rederive |-> TRUE, allowEopm |-> TRUE, bcj |-> 0]],savedIn |-> 0,done |-> FALSE,cs |-> [s |-> [buf |-> <<>>, pos |-> 0, filtered |-> 0, ended |-> FALSE], pos |-> 0, fi |-> 1, opos |-> 0, stage |-> "in", known |-> FALSE, left |-> 0, padmod |-> 0],allowBuf |-> FALSE,grant |-> 0,totalOut |-> 0,seq |-> "FINISH",supported |-> {"RUN", "FINISH"},oneShot |-> <<<<>>, "BUF_ERROR", 0>>,since |-> 2]),
    ([phase |-> "call",obs |-> [ret |-> "OK", uin |-> 0, kind |-> "call", ain |-> 0, innerRan |-> TRUE, aout |-> 0, uout |-> 0, action |-> "FINISH", inNull |-> FALSE, outNull |-> FALSE, resv |-> FALSE, innerRet |-> "TIMED_OUT"],outAcc |-> <<>>,inited |-> TRUE,fed |-> 0,totalIn |-> 0,told |-> FALSE,starved |-> "out",inp |-> [have |-> 0, fields |-> <<[k |-> "buf", m |-> 0, n |-> 2, eopm |-> FALSE, needOut |-> FALSE, bad |-> 0, eat |-> TRUE, err |-> "OK", fin |-> FALSE, set |-> 0], [k |-> "sym", m |-> 1, n |-> 1, eopm |-> FALSE, needOut |-> FALSE, bad |-> 0, eat |-> TRUE, err |-> "OK", fin |-> FALSE, set |-> 0], [k |-> "sym", m |-> 2, n |-> 2, eopm |-> FALSE, needOut |-> FALSE, bad |-> 0, eat |-> TRUE, err |-> "OK", fin |-> FALSE, set |-> 0], [k |-> "sym", m |-> 1, n |-> 2, eopm |-> TRUE, needOut |-> FALSE, bad |-> 0, eat |-> TRUE, err |-> "OK", fin |-> TRUE, set |-> 0], [k |-> "buf", m |-> 0, n |-> 3, eopm |-> FALSE, needOut |-> FALSE, bad |-> 0, eat |-> TRUE, err |-> "OK", fin |-> FALSE, set |-> 0]>>, opt |-> [rederive |-> TRUE, allowEopm |-> TRUE, bcj |-> 0]],savedIn |-> 0,done |-> FALSE,cs |-> [s |-> [buf |-> <<>>, pos |-> 0, filtered |-> 0, ended |-> FALSE], pos |-> 0, fi |-> 1, opos |-> 0, stage |-> "in", known |-> FALSE, left |-> 0, padmod |-> 0],allowBuf |-> FALSE,grant |-> 0,totalOut |-> 0,seq |-> "FINISH",supported |-> {"RUN", "FINISH"},oneShot |-> <<<<>>, "BUF_ERROR", 0>>,since |-> 2]),
    ([phase |-> "feed",obs |-> [ret |-> "OK", uin |-> 0, kind |-> "call", ain |-> 0, innerRan |-> TRUE, aout |-> 0, uout |-> 0, action |-> "FINISH", inNull |-> FALSE, outNull |-> FALSE, resv |-> FALSE, innerRet |-> "TIMED_OUT"],outAcc |-> <<>>,inited |-> TRUE,fed |-> 0,totalIn |-> 0,told |-> FALSE,starved |-> "out",inp |-> [have |-> 0, fields |-> <<[k |-> "buf", m |-> 0, n |-> 2, eopm |-> FALSE, needOut |-> FALSE, bad |-> 0, eat |-> TRUE, err |-> "OK", fin |-> FALSE, set |-> 0], [k |-> "sym", m |-> 1, n |-> 1, eopm |-> FALSE, needOut |-> FALSE, bad |-> 0, eat |-> TRUE, err |-> "OK", fin |-> FALSE, set |-> 0], [k |-> "sym", m |-> 2, n |-> 2, eopm |-> FALSE, needOut |-> FALSE, bad |-> 0, eat |-> TRUE, err |-> "OK", fin |-> FALSE, set |-> 0], [k |-> "sym", m |-> 1, n |-> 2, eopm |-> TRUE, needOut |-> FALSE, bad |-> 0, eat |-> TRUE, err |-> "OK", fin |-> TRUE, set |-> 0], [k |-> "buf", m |-> 0, n |-> 3, eopm |-> FALSE, needOut |-> FALSE, bad |-> 0, eat |-> TRUE, err |-> "OK", fin |-> FALSE, set |-> 0]>>, opt |-> [rederive |-> TRUE, allowEopm |-> TRUE, bcj |-> 0]],savedIn |-> 0,done |-> FALSE,cs |-> [s |-> [buf |-> <<>>, pos |-> 0, filtered |-> 0, ended |-> FALSE], pos |-> 0, fi |-> 1, opos |-> 0, stage |-> "in", known |-> FALSE, left |-> 0, padmod |-> 0],allowBuf |-> FALSE,grant |-> 0,totalOut |-> 0,seq |-> "FINISH",supported |-> {"RUN", "FINISH"},oneShot |-> <<<<>>, "BUF_ERROR", 0>>,since |-> 3]),
    ([phase |-> "space",obs |-> [ret |-> "OK", uin |-> 0, kind |-> "call", ain |-> 0, innerRan |-> TRUE, aout |-> 0, uout |-> 0, action |-> "FINISH", inNull |-> FALSE, outNull |-> FALSE, resv |-> FALSE, innerRet |-> "TIMED_OUT"],outAcc |-> <<>>,inited |-> TRUE,fed |-> 0,totalIn |-> 0,told |-> FALSE,starved |-> "out",inp |-> [have |-> 0, fields |-> <<[k |-> "buf", m |-> 0, n |-> 2, eopm |-> FALSE, needOut |-> FALSE, bad |-> 0, eat |-> TRUE, err |-> "OK", fin |-> FALSE, set |-> 0], [k |-> "sym", m |-> 1, n |-> 1, eopm |-> FALSE, needOut |-> FALSE, bad |-> 0, eat |-> TRUE, err |-> "OK", fin |-> FALSE, set |-> 0], [k |-> "sym", m |-> 2, n |-> 2, eopm |-> FALSE, needOut |-> FALSE, bad |-> 0, eat |-> TRUE, err |-> "OK", fin |-> FALSE, set |-> 0], [k |-> "sym", m |-> 1, n |-> 2, eopm |-> TRUE, needOut |-> FALSE, bad |-> 0, eat |-> TRUE, err |-> "OK", fin |-> TRUE, set |-> 0], [k |-> "buf", m |-> 0, n |-> 3, eopm |-> FALSE, needOut |-> FALSE, bad |-> 0, eat |-> TRUE, err |-> "OK", fin |-> FALSE, set |-> 0]>>, opt |-> [rederive |-> TRUE, allowEopm |-> TRUE, bcj |-> 0]],savedIn |-> 0,done |-> FALSE,cs |-> [s |-> [buf |-> <<>>, pos |-> 0, filtered |-> 0, ended |-> FALSE], pos |-> 0, fi |-> 1, opos |-> 0, stage |-> "in", known |-> FALSE, left |-> 0, padmod |-> 0],allowBuf |-> FALSE,grant |-> 0,totalOut |-> 0,seq |-> "FINISH",supported |-> {"RUN", "FINISH"},oneShot |-> <<<<>>, "BUF_ERROR", 0>>,since |-> 3]),
    ([phase |-> "call",obs |-> [ret |-> "OK", uin |-> 0, kind |-> "call", ain |-> 0, innerRan |-> TRUE, aout |-> 0, uout |-> 0, action |-> "FINISH", inNull |-> FALSE, outNull |-> FALSE, resv |-> FALSE, innerRet |-> "TIMED_OUT"],outAcc |-> <<>>,inited |-> TRUE,fed |-> 0,totalIn |-> 0,told |-> FALSE,starved |-> "out",inp |-> [have |-> 0, fields |-> <<[k |-> "buf", m |-> 0, n |-> 2, eopm |-> FALSE, needOut |-> FALSE, bad |-> 0, eat |-> TRUE, err |-> "OK", fin |-> FALSE, set |-> 0], [k |-> "sym", m |-> 1, n |-> 1, eopm |-> FALSE, needOut |-> FALSE, bad |-> 0, eat |-> TRUE, err |-> "OK", fin |-> FALSE, set |-> 0], [k |-> "sym", m |-> 2, n |-> 2, eopm |-> FALSE, needOut |-> FALSE, bad |-> 0, eat |-> TRUE, err |-> "OK", fin |-> FALSE, set |-> 0], [k |-> "sym", m |-> 1, n |-> 2, eopm |-> TRUE, needOut |-> FALSE, bad |-> 0, eat |-> TRUE, err |-> "OK", fin |-> TRUE, set |-> 0], [k |-> "buf", m |-> 0, n |-> 3, eopm |-> FALSE, needOut |-> FALSE, bad |-> 0, eat |-> TRUE, err |-> "OK", fin |-> FALSE, set |-> 0]>>, opt |-> [rederive |-> TRUE, allowEopm |-> TRUE, bcj |-> 0]],savedIn |-> 0,done |-> FALSE,cs |-> [s |-> [buf |-> <<>>, pos |-> 0, filtered |-> 0, ended |-> FALSE], pos |-> 0, fi |-> 1, opos |-> 0, stage |-> "in", known |-> FALSE, left |-> 0, padmod |-> 0],allowBuf |-> FALSE,grant |-> 0,totalOut |-> 0,seq |-> "FINISH",supported |-> {"RUN", "FINISH"},oneShot |-> <<<<>>, "BUF_ERROR", 0>>,since |-> 3]),
    ([phase |-> "feed",obs |-> [ret |-> "OK", uin |-> 0, kind |-> "call", ain |-> 0, innerRan |-> TRUE, aout |-> 0, uout |-> 0, action |-> "FINISH", inNull |-> FALSE, outNull |-> FALSE, resv |-> FALSE, innerRet |-> "TIMED_OUT"],outAcc |-> <<>>,inited |-> TRUE,fed |-> 0,totalIn |-> 0,told |-> FALSE,starved |-> "out",inp |-> [have |-> 0, fields |-> <<[k |-> "buf", m |-> 0, n |-> 2, eopm |-> FALSE, needOut |-> FALSE, bad |-> 0, eat |-> TRUE, err |-> "OK", fin |-> FALSE, set |-> 0], [k |-> "sym", m |-> 1, n |-> 1, eopm |-> FALSE, needOut |-> FALSE, bad |-> 0, eat |-> TRUE, err |-> "OK", fin |-> FALSE, set |-> 0], [k |-> "sym", m |-> 2, n |-> 2, eopm |-> FALSE, needOut |-> FALSE, bad |-> 0, eat |-> TRUE, err |-> "OK", fin |-> FALSE, set |-> 0], [k |-> "sym", m |-> 1, n |-> 2, eopm |-> TRUE, needOut |-> FALSE, bad |-> 0, eat |-> TRUE, err |-> "OK", fin |-> TRUE, set |-> 0], [k |-> "buf", m |-> 0, n |-> 3, eopm |-> FALSE, needOut |-> FALSE, bad |-> 0, eat |-> TRUE, err |-> "OK", fin |-> FALSE, set |-> 0]>>, opt |-> [rederive |-> TRUE, allowEopm |-> TRUE, bcj |-> 0]],savedIn |-> 0,done |-> FALSE,cs |-> [s |-> [buf |-> <<>>, pos |-> 0, filtered |-> 0, ended |-> FALSE], pos |-> 0, fi |-> 1, opos |-> 0, stage |-> "in", known |-> FALSE, left |-> 0, padmod |-> 0],allowBuf |-> FALSE,grant |-> 0,totalOut |-> 0,seq |-> "FINISH",supported |-> {"RUN", "FINISH"},oneShot |-> <<<<>>, "BUF_ERROR", 0>>,since |-> 4]),
    ([phase |-> "space",obs |-> [ret |-> "OK", uin |-> 0, kind |-> "call", ain |-> 0, innerRan |-> TRUE, aout |-> 0, uout |-> 0, action |-> "FINISH", inNull |-> FALSE, outNull |-> FALSE, resv |-> FALSE, innerRet |-> "TIMED_OUT"],outAcc |-> <<>>,inited |-> TRUE,fed |-> 0,totalIn |-> 0,told |-> FALSE,starved |-> "out",inp |-> [have |-> 0, fields |-> <<[k |-> "buf", m |-> 0, n |-> 2, eopm |-> FALSE, needOut |-> FALSE, bad |-> 0, eat |-> TRUE, err |-> "OK", fin |-> FALSE, set |-> 0], [k |-> "sym", m |-> 1, n |-> 1, eopm |-> FALSE, needOut |-> FALSE, bad |-> 0, eat |-> TRUE, err |-> "OK", fin |-> FALSE, set |-> 0], [k |-> "sym", m |-> 2, n |-> 2, eopm |-> FALSE, needOut |-> FALSE, bad |-> 0, eat |-> TRUE, err |-> "OK", fin |-> FALSE, set |-> 0], [k |-> "sym", m |-> 1, n |-> 2, eopm |-> TRUE, needOut |-> FALSE, bad |-> 0, eat |-> TRUE, err |-> "OK", fin |-> TRUE, set |-> 0], [k |-> "buf", m |-> 0, n |-> 3, eopm |-> FALSE, needOut |-> FALSE, bad |-> 0, eat |-> TRUE, err |-> "OK", fin |-> FALSE, set |-> 0]>>, opt |-> [rederive |-> TRUE, allowEopm |-> TRUE, bcj |-> 0]],savedIn |-> 0,done |-> FALSE,cs |-> [s |-> [buf |-> <<>>, pos |-> 0, filtered |-> 0, ended |-> FALSE], pos |-> 0, fi |-> 1, opos |-> 0, stage |-> "in", known |-> FALSE, left |-> 0, padmod |-> 0],allowBuf |-> FALSE,grant |-> 0,totalOut |-> 0,seq |-> "FINISH",supported |-> {"RUN", "FINISH"},oneShot |-> <<<<>>, "BUF_ERROR", 0>>,since |-> 4]),
    ([phase |-> "call",obs |-> [ret |-> "OK", uin |-> 0, kind |-> "call", ain |-> 0, innerRan |-> TRUE, aout |-> 0, uout |-> 0, action |-> "FINISH", inNull |-> FALSE, outNull |-> FALSE, resv |-> FALSE, innerRet |-> "TIMED_OUT"],outAcc |-> <<>>,inited |-> TRUE,fed |-> 0,totalIn |-> 0,told |-> FALSE,starved |-> "out",inp |-> [have |-> 0, fields |-> <<[k |-> "buf", m |-> 0, n |-> 2, eopm |-> FALSE, needOut |-> FALSE, bad |-> 0, eat |-> TRUE, err |-> "OK", fin |-> FALSE, set |-> 0], [k |-> "sym", m |-> 1, n |-> 1, eopm |-> FALSE, needOut |-> FALSE, bad |-> 0, eat |-> TRUE, err |-> "OK", fin |-> FALSE, set |-> 0], [k |-> "sym", m |-> 2, n |-> 2, eopm |-> FALSE, needOut |-> FALSE, bad |-> 0, eat |-> TRUE, err |-> "OK", fin |-> FALSE, set |-> 0], [k |-> "sym", m |-> 1, n |-> 2, eopm |-> TRUE, needOut |-> FALSE, bad |-> 0, eat |-> TRUE, err |-> "OK", fin |-> TRUE, set |-> 0], [k |-> "buf", m |-> 0, n |-> 3, eopm |-> FALSE, needOut |-> FALSE, bad |-> 0, eat |-> TRUE, err |-> "OK", fin |-> FALSE, set |-> 0]>>, opt |-> [rederive |-> TRUE, allowEopm |-> TRUE, bcj |-> 0]],savedIn |-> 0,done |-> FALSE,cs |-> [s |-> [buf |-> <<>>, pos |-> 0, filtered |-> 0, ended |-> FALSE], pos |-> 0, fi |-> 1, opos |-> 0, stage |-> "in", known |-> FALSE, left |-> 0, padmod |-> 0],allowBuf |-> FALSE,grant |-> 0,totalOut |-> 0,seq |-> "FINISH",supported |-> {"RUN", "FINISH"},oneShot |-> <<<<>>, "BUF_ERROR", 0>>,since |-> 4]),
    ([phase |-> "feed",obs |-> [ret |-> "OK", uin |-> 0, kind |-> "call", ain |-> 0, innerRan |-> TRUE, aout |-> 0, uout |-> 0, action |-> "FINISH", inNull |-> FALSE, outNull |-> FALSE, resv |-> FALSE, innerRet |-> "TIMED_OUT"],outAcc |-> <<>>,inited |-> TRUE,fed |-> 0,totalIn |-> 0,told |-> FALSE,starved |-> "out",inp |-> [have |-> 0, fields |-> <<[k |-> "buf", m |-> 0, n |-> 2, eopm |-> FALSE, needOut |-> FALSE, bad |-> 0, eat |-> TRUE, err |-> "OK", fin |-> FALSE, set |-> 0], [k |-> "sym", m |-> 1, n |-> 1, eopm |-> FALSE, needOut |-> FALSE, bad |-> 0, eat |-> TRUE, err |-> "OK", fin |-> FALSE, set |-> 0], [k |-> "sym", m |-> 2, n |-> 2, eopm |-> FALSE, needOut |-> FALSE, bad |-> 0, eat |-> TRUE, err |-> "OK", fin |-> FALSE, set |-> 0], [k |-> "sym", m |-> 1, n |-> 2, eopm |-> TRUE, needOut |-> FALSE, bad |-> 0, eat |-> TRUE, err |-> "OK", fin |-> TRUE, set |-> 0], [k |-> "buf", m |-> 0, n |-> 3, eopm |-> FALSE, needOut |-> FALSE, bad |-> 0, eat |-> TRUE, err |-> "OK", fin |-> FALSE, set |-> 0]>>, opt |-> [rederive |-> TRUE, allowEopm |-> TRUE, bcj |-> 0]],savedIn |-> 0,done |-> FALSE,cs |-> [s |-> [buf |-> <<>>, pos |-> 0, filtered |-> 0, ended |-> FALSE], pos |-> 0, fi |-> 1, opos |-> 0, stage |-> "in", known |-> FALSE, left |-> 0, padmod |-> 0],allowBuf |-> FALSE,grant |-> 0,totalOut |-> 0,seq |-> "FINISH",supported |-> {"RUN", "FINISH"},oneShot |-> <<<<>>, "BUF_ERROR", 0>>,since |-> 5]),
    ([phase |-> "space",obs |-> [ret |-> "OK", uin |-> 0, kind |-> "call", ain |-> 0, innerRan |-> TRUE, aout |-> 0, uout |-> 0, action |-> "FINISH", inNull |-> FALSE, outNull |-> FALSE, resv |-> FALSE, innerRet |-> "TIMED_OUT"],outAcc |-> <<>>,inited |-> TRUE,fed |-> 0,totalIn |-> 0,told |-> FALSE,starved |-> "out",inp |-> [have |-> 0, fields |-> <<[k |-> "buf", m |-> 0, n |-> 2, eopm |-> FALSE, needOut |-> FALSE, bad |-> 0, eat |-> TRUE, err |-> "OK", fin |-> FALSE, set |-> 0], [k |-> "sym", m |-> 1, n |-> 1, eopm |-> FALSE, needOut |-> FALSE, bad |-> 0, eat |-> TRUE, err |-> "OK", fin |-> FALSE, set |-> 0], [k |-> "sym", m |-> 2, n |-> 2, eopm |-> FALSE, needOut |-> FALSE, bad |-> 0, eat |-> TRUE, err |-> "OK", fin |-> FALSE, set |-> 0], [k |-> "sym", m |-> 1, n |-> 2, eopm |-> TRUE, needOut |-> FALSE, bad |-> 0, eat |-> TRUE, err |-> "OK", fin |-> TRUE, set |-> 0], [k |-> "buf", m |-> 0, n |-> 3, eopm |-> FALSE, needOut |-> FALSE, bad |-> 0, eat |-> TRUE, err |-> "OK", fin |-> FALSE, set |-> 0]>>, opt |-> [rederive |-> TRUE, allowEopm |-> TRUE, bcj |-> 0]],savedIn |-> 0,done |-> FALSE,cs |-> [s |-> [buf |-> <<>>, pos |-> 0, filtered |-> 0, ended |-> FALSE], pos |-> 0, fi |-> 1, opos |-> 0, stage |-> "in", known |-> FALSE, left |-> 0, padmod |-> 0],allowBuf |-> FALSE,grant |-> 0,totalOut |-> 0,seq |-> "FINISH",supported |-> {"RUN", "FINISH"},oneShot |-> <<<<>>, "BUF_ERROR", 0>>,since |-> 5]),
    ([phase |-> "call",obs |-> [ret |-> "OK", uin |-> 0, kind |-> "call", ain |-> 0, innerRan |-> TRUE, aout |-> 0, uout |-> 0, action |-> "FINISH", inNull |-> FALSE, outNull |-> FALSE, resv |-> FALSE, innerRet |-> "TIMED_OUT"],outAcc |-> <<>>,inited |-> TRUE,fed |-> 0,totalIn |-> 0,told |-> FALSE,starved |-> "out",inp |-> [have |-> 0, fields |-> <<[k |-> "buf", m |-> 0, n |-> 2, eopm |-> FALSE, needOut |-> FALSE, bad |-> 0, eat |-> TRUE, err |-> "OK", fin |-> FALSE, set |-> 0], [k |-> "sym", m |-> 1, n |-> 1, eopm |-> FALSE, needOut |-> FALSE, bad |-> 0, eat |-> TRUE, err |-> "OK", fin |-> FALSE, set |-> 0], [k |-> "sym", m |-> 2, n |-> 2, eopm |-> FALSE, needOut |-> FALSE, bad |-> 0, eat |-> TRUE, err |-> "OK", fin |-> FALSE, set |-> 0], [k |-> "sym", m |-> 1, n |-> 2, eopm |-> TRUE, needOut |-> FALSE, bad |-> 0, eat |-> TRUE, err |-> "OK", fin |-> TRUE, set |-> 0], [k |-> "buf", m |-> 0, n |-> 3, eopm |-> FALSE, needOut |-> FALSE, bad |-> 0, eat |-> TRUE, err |-> "OK", fin |-> FALSE, set |-> 0]>>, opt |-> [rederive |-> TRUE, allowEopm |-> TRUE, bcj |-> 0]],savedIn |-> 0,done |-> FALSE,cs |-> [s |-> [buf |-> <<>>, pos |-> 0, filtered |-> 0, ended |-> FALSE], pos |-> 0, fi |-> 1, opos |-> 0, stage |-> "in", known |-> FALSE, left |-> 0, padmod |-> 0],allowBuf |-> FALSE,grant |-> 0,totalOut |-> 0,seq |-> "FINISH",supported |-> {"RUN", "FINISH"},oneShot |-> <<<<>>, "BUF_ERROR", 0>>,since |-> 5]),
    ([phase |-> "feed",obs |-> [ret |-> "OK", uin |-> 0, kind |-> "call", ain |-> 0, innerRan |-> TRUE, aout |-> 0, uout |-> 0, action |-> "FINISH", inNull |-> FALSE, outNull |-> FALSE, resv |-> FALSE, innerRet |-> "TIMED_OUT"],outAcc |-> <<>>,inited |-> TRUE,fed |-> 0,totalIn |-> 0,told |-> FALSE,starved |-> "out",inp |-> [have |-> 0, fields |-> <<[k |-> "buf", m |-> 0, n |-> 2, eopm |-> FALSE, needOut |-> FALSE, bad |-> 0, eat |-> TRUE, err |-> "OK", fin |-> FALSE, set |-> 0], [k |-> "sym", m |-> 1, n |-> 1, eopm |-> FALSE, needOut |-> FALSE, bad |-> 0, eat |-> TRUE, err |-> "OK", fin |-> FALSE, set |-> 0], [k |-> "sym", m |-> 2, n |-> 2, eopm |-> FALSE, needOut |-> FALSE, bad |-> 0, eat |-> TRUE, err |-> "OK", fin |-> FALSE, set |-> 0], [k |-> "sym", m |-> 1, n |-> 2, eopm |-> TRUE, needOut |-> FALSE, bad |-> 0, eat |-> TRUE, err |-> "OK", fin |-> TRUE, set |-> 0], [k |-> "buf", m |-> 0, n |-> 3, eopm |-> FALSE, needOut |-> FALSE, bad |-> 0, eat |-> TRUE, err |-> "OK", fin |-> FALSE, set |-> 0]>>, opt |-> [rederive |-> TRUE, allowEopm |-> TRUE, bcj |-> 0]],savedIn |-> 0,done |-> FALSE,cs |-> [s |-> [buf |-> <<>>, pos |-> 0, filtered |-> 0, ended |-> FALSE], pos |-> 0, fi |-> 1, opos |-> 0, stage |-> "in", known |-> FALSE, left |-> 0, padmod |-> 0],allowBuf |-> FALSE,grant |-> 0,totalOut |-> 0,seq |-> "FINISH",supported |-> {"RUN", "FINISH"},oneShot |-> <<<<>>, "BUF_ERROR", 0>>,since |-> 6]),
    ([phase |-> "space",obs |-> [ret |-> "OK", uin |-> 0, kind |-> "call", ain |-> 0, innerRan |-> TRUE, aout |-> 0, uout |-> 0, action |-> "FINISH", inNull |-> FALSE, outNull |-> FALSE, resv |-> FALSE, innerRet |-> "TIMED_OUT"],outAcc |-> <<>>,inited |-> TRUE,fed |-> 0,totalIn |-> 0,told |-> FALSE,starved |-> "out",inp |-> [have |-> 0, fields |-> <<[k |-> "buf", m |-> 0, n |-> 2, eopm |-> FALSE, needOut |-> FALSE, bad |-> 0, eat |-> TRUE, err |-> "OK", fin |-> FALSE, set |-> 0], [k |-> "sym", m |-> 1, n |-> 1, eopm |-> FALSE, needOut |-> FALSE, bad |-> 0, eat |-> TRUE, err |-> "OK", fin |-> FALSE, set |-> 0], [k |-> "sym", m |-> 2, n |-> 2, eopm |-> FALSE, needOut |-> FALSE, bad |-> 0, eat |-> TRUE, err |-> "OK", fin |-> FALSE, set |-> 0], [k |-> "sym", m |-> 1, n |-> 2, eopm |-> TRUE, needOut |-> FALSE, bad |-> 0, eat |-> TRUE, err |-> "OK", fin |-> TRUE, set |-> 0], [k |-> "buf", m |-> 0, n |-> 3, eopm |-> FALSE, needOut |-> FALSE, bad |-> 0, eat |-> TRUE, err |-> "OK", fin |-> FALSE, set |-> 0]>>, opt |-> [rederive |-> TRUE, allowEopm |-> TRUE, bcj |-> 0]],savedIn |-> 0,done |-> FALSE,cs |-> [s |-> [buf |-> <<>>, pos |-> 0, filtered |-> 0, ended |-> FALSE], pos |-> 0, fi |-> 1, opos |-> 0, stage |-> "in", known |-> FALSE, left |-> 0, padmod |-> 0],allowBuf |-> FALSE,grant |-> 0,totalOut |-> 0,seq |-> "FINISH",supported |-> {"RUN", "FINISH"},oneShot |-> <<<<>>, "BUF_ERROR", 0>>,since |-> 6]),
    ([phase |-> "call",obs |-> [ret |-> "OK", uin |-> 0, kind |-> "call", ain |-> 0, innerRan |-> TRUE, aout |-> 0, uout |-> 0, action |-> "FINISH", inNull |-> FALSE, outNull |-> FALSE, resv |-> FALSE, innerRet |-> "TIMED_OUT"],outAcc |-> <<>>,inited |-> TRUE,fed |-> 0,totalIn |-> 0,told |-> FALSE,starved |-> "out",inp |-> [have |-> 0, fields |-> <<[k |-> "buf", m |-> 0, n |-> 2, eopm |-> FALSE, needOut |-> FALSE, bad |-> 0, eat |-> TRUE, err |-> "OK", fin |-> FALSE, set |-> 0], [k |-> "sym", m |-> 1, n |-> 1, eopm |-> FALSE, needOut |-> FALSE, bad |-> 0, eat |-> TRUE, err |-> "OK", fin |-> FALSE, set |-> 0], [k |-> "sym", m |-> 2, n |-> 2, eopm |-> FALSE, needOut |-> FALSE, bad |-> 0, eat |-> TRUE, err |-> "OK", fin |-> FALSE, set |-> 0], [k |-> "sym", m |-> 1, n |-> 2, eopm |-> TRUE, needOut |-> FALSE, bad |-> 0, eat |-> TRUE, err |-> "OK", fin |-> TRUE, set |-> 0], [k |-> "buf", m |-> 0, n |-> 3, eopm |-> FALSE, needOut |-> FALSE, bad |-> 0, eat |-> TRUE, err |-> "OK", fin |-> FALSE, set |-> 0]>>, opt |-> [rederive |-> TRUE, allowEopm |-> TRUE, bcj |-> 0]],savedIn |-> 0,done |-> FALSE,cs |-> [s |-> [buf |-> <<>>, pos |-> 0, filtered |-> 0, ended |-> FALSE], pos |-> 0, fi |-> 1, opos |-> 0, stage |-> "in", known |-> FALSE, left |-> 0, padmod |-> 0],allowBuf |-> FALSE,grant |-> 0,totalOut |-> 0,seq |-> "FINISH",supported |-> {"RUN", "FINISH"},oneShot |-> <<<<>>, "BUF_ERROR", 0>>,since |-> 6]),
    ([phase |-> "feed",obs |-> [ret |-> "OK", uin |-> 0, kind |-> "call", ain |-> 0, innerRan |-> TRUE, aout |-> 0, uout |-> 0, action |-> "FINISH", inNull |-> FALSE, outNull |-> FALSE, resv |-> FALSE, innerRet |-> "TIMED_OUT"],outAcc |-> <<>>,inited |-> TRUE,fed |-> 0,totalIn |-> 0,told |-> FALSE,starved |-> "out",inp |-> [have |-> 0, fields |-> <<[k |-> "buf", m |-> 0, n |-> 2, eopm |-> FALSE, needOut |-> FALSE, bad |-> 0, eat |-> TRUE, err |-> "OK", fin |-> FALSE, set |-> 0], [k |-> "sym", m |-> 1, n |-> 1, eopm |-> FALSE, needOut |-> FALSE, bad |-> 0, eat |-> TRUE, err |-> "OK", fin |-> FALSE, set |-> 0], [k |-> "sym", m |-> 2, n |-> 2, eopm |-> FALSE, needOut |-> FALSE, bad |-> 0, eat |-> TRUE, err |-> "OK", fin |-> FALSE, set |-> 0], [k |-> "sym", m |-> 1, n |-> 2, eopm |-> TRUE, needOut |-> FALSE, bad |-> 0, eat |-> TRUE, err |-> "OK", fin |-> TRUE, set |-> 0], [k |-> "buf", m |-> 0, n |-> 3, eopm |-> FALSE, needOut |-> FALSE, bad |-> 0, eat |-> TRUE, err |-> "OK", fin |-> FALSE, set |-> 0]>>, opt |-> [rederive |-> TRUE, allowEopm |-> TRUE, bcj |-> 0]],savedIn |-> 0,done |-> FALSE,cs |-> [s |-> [buf |-> <<>>, pos |-> 0, filtered |-> 0, ended |-> FALSE], pos |-> 0, fi |-> 1, opos |-> 0, stage |-> "in", known |-> FALSE, left |-> 0, padmod |-> 0],allowBuf |-> FALSE,grant |-> 0,totalOut |-> 0,seq |-> "FINISH",supported |-> {"RUN", "FINISH"},oneShot |-> <<<<>>, "BUF_ERROR", 0>>,since |-> 7]),
    ([phase |-> "space",obs |-> [ret |-> "OK", uin |-> 0, kind |-> "call", ain |-> 0, innerRan |-> TRUE, aout |-> 0, uout |-> 0, action |-> "FINISH", inNull |-> FALSE, outNull |-> FALSE, resv |-> FALSE, innerRet |-> "TIMED_OUT"],outAcc |-> <<>>,inited |-> TRUE,fed |-> 0,totalIn |-> 0,told |-> FALSE,starved |-> "out",inp |-> [have |-> 0, fields |-> <<[k |-> "buf", m |-> 0, n |-> 2, eopm |-> FALSE, needOut |-> FALSE, bad |-> 0, eat |-> TRUE, err |-> "OK", fin |-> FALSE, set |-> 0], [k |-> "sym", m |-> 1, n |-> 1, eopm |-> FALSE, needOut |-> FALSE, bad |-> 0, eat |-> TRUE, err |-> "OK", fin |-> FALSE, set |-> 0], [k |-> "sym", m |-> 2, n |-> 2, eopm |-> FALSE, needOut |-> FALSE, bad |-> 0, eat |-> TRUE, err |-> "OK", fin |-> FALSE, set |-> 0], [k |-> "sym", m |-> 1, n |-> 2, eopm |-> TRUE, needOut |-> FALSE, bad |-> 0, eat |-> TRUE, err |-> "OK", fin |-> TRUE, set |-> 0], [k |-> "buf", m |-> 0, n |-> 3, eopm |-> FALSE, needOut |-> FALSE, bad |-> 0, eat |-> TRUE, err |-> "OK", fin |-> FALSE, set |-> 0]>>, opt |-> [rederive |-> TRUE, allowEopm |-> TRUE, bcj |-> 0]],savedIn |-> 0,done |-> FALSE,cs |-> [s |-> [buf |-> <<>>, pos |-> 0, filtered |-> 0, ended |-> FALSE], pos |-> 0, fi |-> 1, opos |-> 0, stage |-> "in", known |-> FALSE, left |-> 0, padmod |-> 0],allowBuf |-> FALSE,grant |-> 0,totalOut |-> 0,seq |-> "FINISH",supported |-> {"RUN", "FINISH"},oneShot |-> <<<<>>, "BUF_ERROR", 0>>,since |-> 7]),
    ([phase |-> "call",obs |-> [ret |-> "OK", uin |-> 0, kind |-> "call", ain |-> 0, innerRan |-> TRUE, aout |-> 0, uout |-> 0, action |-> "FINISH", inNull |-> FALSE, outNull |-> FALSE, resv |-> FALSE, innerRet |-> "TIMED_OUT"],outAcc |-> <<>>,inited |-> TRUE,fed |-> 0,totalIn |-> 0,told |-> FALSE,starved |-> "out",inp |-> [have |-> 0, fields |-> <<[k |-> "buf", m |-> 0, n |-> 2, eopm |-> FALSE, needOut |-> FALSE, bad |-> 0, eat |-> TRUE, err |-> "OK", fin |-> FALSE, set |-> 0], [k |-> "sym", m |-> 1, n |-> 1, eopm |-> FALSE, needOut |-> FALSE, bad |-> 0, eat |-> TRUE, err |-> "OK", fin |-> FALSE, set |-> 0], [k |-> "sym", m |-> 2, n |-> 2, eopm |-> FALSE, needOut |-> FALSE, bad |-> 0, eat |-> TRUE, err |-> "OK", fin |-> FALSE, set |-> 0], [k |-> "sym", m |-> 1, n |-> 2, eopm |-> TRUE, needOut |-> FALSE, bad |-> 0, eat |-> TRUE, err |-> "OK", fin |-> TRUE, set |-> 0], [k |-> "buf", m |-> 0, n |-> 3, eopm |-> FALSE, needOut |-> FALSE, bad |-> 0, eat |-> TRUE, err |-> "OK", fin |-> FALSE, set |-> 0]>>, opt |-> [rederive |-> TRUE, allowEopm |-> TRUE, bcj |-> 0]],savedIn |-> 0,done |-> FALSE,cs |-> [s |-> [buf |-> <<>>, pos |-> 0, filtered |-> 0, ended |-> FALSE], pos |-> 0, fi |-> 1, opos |-> 0, stage |-> "in", known |-> FALSE, left |-> 0, padmod |-> 0],allowBuf |-> FALSE,grant |-> 0,totalOut |-> 0,seq |-> "FINISH",supported |-> {"RUN", "FINISH"},oneShot |-> <<<<>>, "BUF_ERROR", 0>>,since |-> 7]),
    ([phase |-> "feed",obs |-> [ret |-> "OK", uin |-> 0, kind |-> "call", ain |-> 0, innerRan |-> TRUE, aout |-> 0, uout |-> 0, action |-> "FINISH", inNull |-> FALSE, outNull |-> FALSE, resv |-> FALSE, innerRet |-> "TIMED_OUT"],outAcc |-> <<>>,inited |-> TRUE,fed |-> 0,totalIn |-> 0,told |-> FALSE,starved |-> "out",inp |-> [have |-> 0, fields |-> <<[k |-> "buf", m |-> 0, n |-> 2, eopm |-> FALSE, needOut |-> FALSE, bad |-> 0, eat |-> TRUE, err |-> "OK", fin |-> FALSE, set |-> 0], [k |-> "sym", m |-> 1, n |-> 1, eopm |-> FALSE, needOut |-> FALSE, bad |-> 0, eat |-> TRUE, err |-> "OK", fin |-> FALSE, set |-> 0], [k |-> "sym", m |-> 2, n |-> 2, eopm |-> FALSE, needOut |-> FALSE, bad |-> 0, eat |-> TRUE, err |-> "OK", fin |-> FALSE, set |-> 0], [k |-> "sym", m |-> 1, n |-> 2, eopm |-> TRUE, needOut |-> FALSE, bad |-> 0, eat |-> TRUE, err |-> "OK", fin |-> TRUE, set |-> 0], [k |-> "buf", m |-> 0, n |-> 3, eopm |-> FALSE, needOut |-> FALSE, bad |-> 0, eat |-> TRUE, err |-> "OK", fin |-> FALSE, set |-> 0]>>, opt |-> [rederive |-> TRUE, allowEopm |-> TRUE, bcj |-> 0]],savedIn |-> 0,done |-> FALSE,cs |-> [s |-> [buf |-> <<>>, pos |-> 0, filtered |-> 0, ended |-> FALSE], pos |-> 0, fi |-> 1, opos |-> 0, stage |-> "in", known |-> FALSE, left |-> 0, padmod |-> 0],allowBuf |-> FALSE,grant |-> 0,totalOut |-> 0,seq |-> "FINISH",supported |-> {"RUN", "FINISH"},oneShot |-> <<<<>>, "BUF_ERROR", 0>>,since |-> 8]),
    ([phase |-> "space",obs |-> [ret |-> "OK", uin |-> 0, kind |-> "call", ain |-> 0, innerRan |-> TRUE, aout |-> 0, uout |-> 0, action |-> "FINISH", inNull |-> FALSE, outNull |-> FALSE, resv |-> FALSE, innerRet |-> "TIMED_OUT"],outAcc |-> <<>>,inited |-> TRUE,fed |-> 0,totalIn |-> 0,told |-> FALSE,starved |-> "out",inp |-> [have |-> 0, fields |-> <<[k |-> "buf", m |-> 0, n |-> 2, eopm |-> FALSE, needOut |-> FALSE, bad |-> 0, eat |-> TRUE, err |-> "OK", fin |-> FALSE, set |-> 0], [k |-> "sym", m |-> 1, n |-> 1, eopm |-> FALSE, needOut |-> FALSE, bad |-> 0, eat |-> TRUE, err |-> "OK", fin |-> FALSE, set |-> 0], [k |-> "sym", m |-> 2, n |-> 2, eopm |-> FALSE, needOut |-> FALSE, bad |-> 0, eat |-> TRUE, err |-> "OK", fin |-> FALSE, set |-> 0], [k |-> "sym", m |-> 1, n |-> 2, eopm |-> TRUE, needOut |-> FALSE, bad |-> 0, eat |-> TRUE, err |-> "OK", fin |-> TRUE, set |-> 0], [k |-> "buf", m |-> 0, n |-> 3, eopm |-> FALSE, needOut |-> FALSE, bad |-> 0, eat |-> TRUE, err |-> "OK", fin |-> FALSE, set |-> 0]>>, opt |-> [rederive |-> TRUE, allowEopm |-> TRUE, bcj |-> 0]],savedIn |-> 0,done |-> FALSE,cs |-> [s |-> [buf |-> <<>>, pos |-> 0, filtered |-> 0, ended |-> FALSE], pos |-> 0, fi |-> 1, opos |-> 0, stage |-> "in", known |-> FALSE, left |-> 0, padmod |-> 0],allowBuf |-> FALSE,grant |-> 0,totalOut |-> 0,seq |-> "FINISH",supported |-> {"RUN", "FINISH"},oneShot |-> <<<<>>, "BUF_ERROR", 0>>,since |-> 8]),
    ([phase |-> "call",obs |-> [ret |-> "OK", uin |-> 0, kind |-> "call", ain |-> 0, innerRan |-> TRUE, aout |-> 0, uout |-> 0, action |-> "FINISH", inNull |-> FALSE, outNull |-> FALSE, resv |-> FALSE, innerRet |-> "TIMED_OUT"],outAcc |-> <<>>,inited |-> TRUE,fed |-> 0,totalIn |-> 0,told |-> FALSE,starved |-> "out",inp |-> [have |-> 0, fields |-> <<[k |-> "buf", m |-> 0, n |-> 2, eopm |-> FALSE, needOut |-> FALSE, bad |-> 0, eat |-> TRUE, err |-> "OK", fin |-> FALSE, set |-> 0], [k |-> "sym", m |-> 1, n |-> 1, eopm |-> FALSE, needOut |-> FALSE, bad |-> 0, eat |-> TRUE, err |-> "OK", fin |-> FALSE, set |-> 0], [k |-> "sym", m |-> 2, n |-> 2, eopm |-> FALSE, needOut |-> FALSE, bad |-> 0, eat |-> TRUE, err |-> "OK", fin |-> FALSE, set |-> 0], [k |-> "sym", m |-> 1, n |-> 2, eopm |-> TRUE, needOut |-> FALSE, bad |-> 0, eat |-> TRUE, err |-> "OK", fin |-> TRUE, set |-> 0], [k |-> "buf", m |-> 0, n |-> 3, eopm |-> FALSE, needOut |-> FALSE, bad |-> 0, eat |-> TRUE, err |-> "OK", fin |-> FALSE, set |-> 0]>>, opt |-> [rederive |-> TRUE, allowEopm |-> TRUE, bcj |-> 0]],savedIn |-> 0,done |-> FALSE,cs |-> [s |-> [buf |-> <<>>, pos |-> 0, filtered |-> 0, ended |-> FALSE], pos |-> 0, fi |-> 1, opos |-> 0, stage |-> "in", known |-> FALSE, left |-> 0, padmod |-> 0],allowBuf |-> FALSE,grant |-> 0,totalOut |-> 0,seq |-> "FINISH",supported |-> {"RUN", "FINISH"},oneShot |-> <<<<>>, "BUF_ERROR", 0>>,since |-> 8]),
    ([phase |-> "feed",obs |-> [ret |-> "OK", uin |-> 0, kind |-> "call", ain |-> 0, innerRan |-> TRUE, aout |-> 0, uout |-> 0, action |-> "FINISH", inNull |-> FALSE, outNull |-> FALSE, resv |-> FALSE, innerRet |-> "TIMED_OUT"],outAcc |-> <<>>,inited |-> TRUE,fed |-> 0,totalIn |-> 0,told |-> FALSE,starved |-> "out",inp |-> [have |-> 0, fields |-> <<[k |-> "buf", m |-> 0, n |-> 2, eopm |-> FALSE, needOut |-> FALSE, bad |-> 0, eat |-> TRUE, err |-> "OK", fin |-> FALSE, set |-> 0], [k |-> "sym", m |-> 1, n |-> 1, eopm |-> FALSE, needOut |-> FALSE, bad |-> 0, eat |-> TRUE, err |-> "OK", fin |-> FALSE, set |-> 0], [k |-> "sym", m |-> 2, n |-> 2, eopm |-> FALSE, needOut |-> FALSE, bad |-> 0, eat |-> TRUE, err |-> "OK", fin |-> FALSE, set |-> 0], [k |-> "sym", m |-> 1, n |-> 2, eopm |-> TRUE, needOut |-> FALSE, bad |-> 0, eat |-> TRUE, err |-> "OK", fin |-> TRUE, set |-> 0], [k |-> "buf", m |-> 0, n |-> 3, eopm |-> FALSE, needOut |-> FALSE, bad |-> 0, eat |-> TRUE, err |-> "OK", fin |-> FALSE, set |-> 0]>>, opt |-> [rederive |-> TRUE, allowEopm |-> TRUE, bcj |-> 0]],savedIn |-> 0,done |-> FALSE,cs |-> [s |-> [buf |-> <<>>, pos |-> 0, filtered |-> 0, ended |-> FALSE], pos |-> 0, fi |-> 1, opos |-> 0, stage |-> "in", known |-> FALSE, left |-> 0, padmod |-> 0],allowBuf |-> FALSE,grant |-> 0,totalOut |-> 0,seq |-> "FINISH",supported |-> {"RUN", "FINISH"},oneShot |-> <<<<>>, "BUF_ERROR", 0>>,since |-> 9]),
    ([phase |-> "space",obs |-> [ret |-> "OK", uin |-> 0, kind |-> "call", ain |-> 0, innerRan |-> TRUE, aout |-> 0, uout |-> 0, action |-> "FINISH", inNull |-> FALSE, outNull |-> FALSE, resv |-> FALSE, innerRet |-> "TIMED_OUT"],outAcc |-> <<>>,inited |-> TRUE,fed |-> 0,totalIn |-> 0,told |-> FALSE,starved |-> "out",inp |-> [have |-> 0, fields |-> <<[k |-> "buf", m |-> 0, n |-> 2, eopm |-> FALSE, needOut |-> FALSE, bad |-> 0, eat |-> TRUE, err |-> "OK", fin |-> FALSE, set |-> 0], [k |-> "sym", m |-> 1, n |-> 1, eopm |-> FALSE, needOut |-> FALSE, bad |-> 0, eat |-> TRUE, err |-> "OK", fin |-> FALSE, set |-> 0], [k |-> "sym", m |-> 2, n |-> 2, eopm |-> FALSE, needOut |-> FALSE, bad |-> 0, eat |-> TRUE, err |-> "OK", fin |-> FALSE, set |-> 0], [k |-> "sym", m |-> 1, n |-> 2, eopm |-> TRUE, needOut |-> FALSE, bad |-> 0, eat |-> TRUE, err |-> "OK", fin |-> TRUE, set |-> 0], [k |-> "buf", m |-> 0, n |-> 3, eopm |-> FALSE, needOut |-> FALSE, bad |-> 0, eat |-> TRUE, err |-> "OK", fin |-> FALSE, set |-> 0]>>, opt |-> [rederive |-> TRUE, allowEopm |-> TRUE, bcj |-> 0]],savedIn |-> 0,done |-> FALSE,cs |-> [s |-> [buf |-> <<>>, pos |-> 0, filtered |-> 0, ended |-> FALSE], pos |-> 0, fi |-> 1, opos |-> 0, stage |-> "in", known |-> FALSE, left |-> 0, padmod |-> 0],allowBuf |-> FALSE,grant |-> 0,totalOut |-> 0,seq |-> "FINISH",supported |-> {"RUN", "FINISH"},oneShot |-> <<<<>>, "BUF_ERROR", 0>>,since |-> 9]),
    ([phase |-> "call",obs |-> [ret |-> "OK", uin |-> 0, kind |-> "call", ain |-> 0, innerRan |-> TRUE, aout |-> 0, uout |-> 0, action |-> "FINISH", inNull |-> FALSE, outNull |-> FALSE, resv |-> FALSE, innerRet |-> "TIMED_OUT"],outAcc |-> <<>>,inited |-> TRUE,fed |-> 0,totalIn |-> 0,told |-> FALSE,starved |-> "out",inp |-> [have |-> 0, fields |-> <<[k |-> "buf", m |-> 0, n |-> 2, eopm |-> FALSE, needOut |-> FALSE, bad |-> 0, eat |-> TRUE, err |-> "OK", fin |-> FALSE, set |-> 0], [k |-> "sym", m |-> 1, n |-> 1, eopm |-> FALSE, needOut |-> FALSE, bad |-> 0, eat |-> TRUE, err |-> "OK", fin |-> FALSE, set |-> 0], [k |-> "sym", m |-> 2, n |-> 2, eopm |-> FALSE, needOut |-> FALSE, bad |-> 0, eat |-> TRUE, err |-> "OK", fin |-> FALSE, set |-> 0], [k |-> "sym", m |-> 1, n |-> 2, eopm |-> TRUE, needOut |-> FALSE, bad |-> 0, eat |-> TRUE, err |-> "OK", fin |-> TRUE, set |-> 0], [k |-> "buf", m |-> 0, n |-> 3, eopm |-> FALSE, needOut |-> FALSE, bad |-> 0, eat |-> TRUE, err |-> "OK", fin |-> FALSE, set |-> 0]>>, opt |-> [rederive |-> TRUE, allowEopm |-> TRUE, bcj |-> 0]],savedIn |-> 0,done |-> FALSE,cs |-> [s |-> [buf |-> <<>>, pos |-> 0, filtered |-> 0, ended |-> FALSE], pos |-> 0, fi |-> 1, opos |-> 0, stage |-> "in", known |-> FALSE, left |-> 0, padmod |-> 0],allowBuf |-> FALSE,grant |-> 0,totalOut |-> 0,seq |-> "FINISH",supported |-> {"RUN", "FINISH"},oneShot |-> <<<<>>, "BUF_ERROR", 0>>,since |-> 9])
    >>
----


=============================================================================

---- MODULE Starve_TEConstants ----
EXTENDS Starve

CONSTANTS _TTraceLassoStart, _TTraceLassoEnd

=============================================================================

---- CONFIG Starve_TTrace_1790558153 ----
CONSTANTS
    MaxIn = 0
    MaxOut = 0
    MaxFeed = 1
    MaxGrant = 1
    Family = "lzip"
    Rederive = TRUE
    Inputs <- MCInputs
    InnerRet <- LazyRet
_TTraceLassoStart = 29
_TTraceLassoEnd = 31

PROPERTY
    _prop

CHECK_DEADLOCK
    \* CHECK_DEADLOCK off because of PROPERTY or INVARIANT above.
    FALSE

INIT
    _init

NEXT
    _next

VIEW
    _view

CONSTANT
    _TETrace <- _trace

ALIAS
    _expression
=============================================================================
\* Generated on Mon Sep 28 01:16:31 UTC 2026