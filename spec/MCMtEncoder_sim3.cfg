SPECIFICATION Spec
CONSTANTS
 MaxUpdates = 0
 MaxReinit = 0 BSChoices = {} FixBlockSize = TRUE  FixLostWorker = TRUE
 CountCalls = TRUE
 NW = 3  NW0 = 3  NWChoices = {3}  BS = 3  Total = 10  Chunk = 2  HdrSz = 2  TailSz = 3
 Timeout = TRUE  Spurious = TRUE  MayFail = TRUE MayFailMain = FALSE
 Gives = {0, 1, 4, 100}  Spaces = {0, 1, 3, 100}
 FlushActs = {"FULL_FLUSH", "FULL_BARRIER"}
 MaxCalls = 40
CONSTRAINT CallBound
INVARIANTS OrderedOutput BlocksPartitionInput BoundariesOnlyWhereRequested FlushCompletes BarrierCompletes FinishCompletes ProgressTruthful BufErrorOnlyWhenStarved DocumentedCodes QueueBound EndJoinsAll InBufFits
CHECK_DEADLOCK FALSE
