SPECIFICATION Spec
CONSTANTS
 BugDupChecks = FALSE  BugIterEmpty = FALSE  BugAppendTotal = FALSE
 NSlots = 3  MaxStreams = 6  MaxRecs = 9
 USizes <- RichU  VSizes <- RichV  Pads <- RichP  FlagSet <- RichF
 CommonU <- SmallU  CommonV <- SmallV
 FamStreams <- NoValues  FamBase = 3  FamGroups <- NoValues
 ParkA <- NoValues  ParkB <- NoValues
 EncN <- NoValues
 HashU <- RichU  HashV <- RichV
 Volume = FALSE
 MinSteps = 12  MaxSteps = 12
CONSTRAINT Emit
CHECK_DEADLOCK FALSE
