--------------------------------- MODULE Vli ---------------------------------
(* Variable-length integers of the .xz format (xz-file-format 1.2) and          *)
(* lzma_vli_decode() (vli_decoder.c) in BOTH of its modes (C03).                *)
(*                                                                              *)
(* A byte is abstracted to [c : continuation bit set, z : low seven bits zero]. *)
(* DECLARATIVE: a buffer starts with a valid integer iff for some n in 1..9 the *)
(* first n-1 bytes carry the continuation bit, byte n does not, and - minimal   *)
(* encoding - byte n is not 0x00 unless n = 1.  It then occupies n bytes.       *)
(* OPERATIONAL: the loop of lzma_vli_decode(); in multi-call mode (vli_pos      *)
(* given) the position persists between calls that each see a piece of the      *)
(* buffer, in single-call mode it starts at zero and the end of the buffer is   *)
(* an error.  TLC checks that for every buffer (bytes added one at a time) and  *)
(* EVERY way of cutting it into calls both modes give the declarative verdict.  *)
EXTENDS Naturals, Sequences, TLC, Json
CONSTANTS MaxLen, Variant

Kinds == {[c |-> TRUE, z |-> TRUE], [c |-> TRUE, z |-> FALSE], [c |-> FALSE, z |-> TRUE], [c |-> FALSE, z |-> FALSE]}

(* ---- declarative ---- *)
EndsAt(buf, n) == /\ n \in 1..9 /\ n <= Len(buf)
                  /\ \A k \in 1..(n - 1) : buf[k].c
                  /\ ~buf[n].c
                  /\ (n > 1 => ~buf[n].z)
ValidPrefix(buf) == \E n \in 1..9 : EndsAt(buf, n)
SizeOf(buf) == CHOOSE n \in 1..9 : EndsAt(buf, n)
(* an integer may still be completed by more input: only continuation bytes so far, fewer than nine *)
Incomplete(buf) == Len(buf) < 9 /\ \A k \in 1..Len(buf) : buf[k].c

(* ---- operational: one byte of the do-while loop; st = [pos (vli_pos), callpos (bytes read in this call), ret] ---- *)
StepByte(st, b) ==
    LET pos1 == st.pos + 1
        cp1 == st.callpos + 1
        minimalPos == IF Variant = "call_local_pos" THEN cp1 ELSE pos1     \* broken copy: "if (byte == 0x00 && vli_pos_internal > 1)"
    IN IF ~b.c
       THEN IF b.z /\ minimalPos > 1 THEN [st EXCEPT !.pos = pos1, !.callpos = cp1, !.ret = "DATA_ERROR"]
            ELSE [st EXCEPT !.pos = pos1, !.callpos = cp1, !.ret = "END"]             \* LZMA_OK (single) / LZMA_STREAM_END (multi)
       ELSE IF pos1 = 9 THEN [st EXCEPT !.pos = pos1, !.callpos = cp1, !.ret = "DATA_ERROR"]
       ELSE [st EXCEPT !.pos = pos1, !.callpos = cp1]

VARIABLES buf,      \* the bytes so far
          multi,    \* multi-call decoder state, fed every byte as it comes; a call boundary may fall before any byte
          cuts      \* where calls begin (history, for the plans)
vars == <<buf, multi, cuts>>
Init == buf = <<>> /\ multi = [pos |-> 0, callpos |-> 0, ret |-> "run"] /\ cuts = <<>>
(* a new call begins (callpos restarts) or the current call continues, then the byte is read *)
Next == /\ multi.ret = "run" /\ Len(buf) < MaxLen
        /\ \E b \in Kinds, newcall \in BOOLEAN :
              /\ buf' = Append(buf, b)
              /\ multi' = StepByte(IF newcall \/ Len(buf) = 0 THEN [multi EXCEPT !.callpos = 0] ELSE multi, b)
              /\ cuts' = IF newcall /\ Len(buf) > 0 THEN Append(cuts, Len(buf)) ELSE cuts
Spec == Init /\ [][Next]_vars

(* single-call mode on the whole buffer *)
RECURSIVE RunSingle(_, _)
RunSingle(st, rest) == IF rest = <<>> \/ st.ret # "run" THEN st ELSE RunSingle(StepByte(st, Head(rest)), Tail(rest))
Single(b) == LET st == RunSingle([pos |-> 0, callpos |-> 0, ret |-> "run"], b)
             IN IF st.ret = "run" THEN [st EXCEPT !.ret = "DATA_ERROR"] ELSE st      \* empty buffer / ran out of input: LZMA_DATA_ERROR

MultiAgrees == /\ (multi.ret = "END") <=> (ValidPrefix(buf) /\ SizeOf(buf) = Len(buf))
               /\ (multi.ret = "run") <=> Incomplete(buf)
               /\ multi.ret = "END" => multi.pos = SizeOf(buf)
SingleAgrees == LET s == Single(buf) IN
                /\ (s.ret = "END") <=> ValidPrefix(buf)
                /\ s.ret = "END" => s.pos = SizeOf(buf)
GView == <<buf, multi.pos, multi.ret>>      \* plan generation: one plan per buffer (the replay cuts it itself)
Emit == PrintT(<<"PLAN", ToJson([buf |-> buf', cuts |-> cuts', multi |-> multi'.ret, mpos |-> multi'.pos,
                                 single |-> Single(buf').ret, spos |-> Single(buf').pos])>>)
=============================================================================
