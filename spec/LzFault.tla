-------------------------------- MODULE LzFault --------------------------------
(* C05 for the two single-filter containers: .lz (lzip_decoder.c) and .lzma      *)
(* (alone_decoder.c), each damaged by one fault chosen in Init.                  *)
(*                                                                               *)
(* .lz file   == Seq(Member);  Member == [magic : BOOLEAN, ver : 0 | 1 | 2 (unsupported),                  *)
(*                 dict : "ok" | "invalid", pl : payload verdict, crc, usz, msz : BOOLEAN (footer fields    *)
(*                 equal the real CRC32 / Data Size / Member Size), id, plen]                                *)
(* payload verdict (the LZMA1 stream, unknown size, end marker required):                                  *)
(*   "ok" decodes to the member's data | "other" decodes, ends at the same place, other data               *)
(*   | "error" LZMA data error | "frame" the end marker is elsewhere or missing (what follows is misread)   *)
(* .lzma file == [props : "ok" | "invalid" | "other", dict, usize : "ok" | "other", pl, plen]              *)
(*                                                                                                         *)
(* The trailing-data rule of .lz (lzip_decoder.c, tests/files/README: "XZ Utils uses the old behavior"):   *)
(* after a complete member, bytes that do not start with the four magic bytes are ignored.  Damage that    *)
(* makes the rest of the file look like trailing data therefore ends decoding successfully with the data   *)
(* of the members so far - the named exclusion LooseTrailing.                                              *)
EXTENDS Naturals, Sequences, FiniteSets, TLC, Json

CONSTANTS Variant

VARIABLES fmt,     \* "lz" | "lzma"
          flags,   \* [concat, ignoreCheck : BOOLEAN]  (LZMA_CONCATENATED, LZMA_IGNORE_CHECK of lzma_lzip_decoder / lzma_auto_decoder)
          file,    \* damaged abstract file
          orig,    \* the file before the damage
          fault,   \* [kind, m (member), f (field), cls]
          limit,   \* truncation: [m, f, w]  or  [m |-> 0]
          seq, mi, first, ret, out, frame
vars == <<fmt, flags, file, orig, fault, limit, seq, mi, first, ret, out, frame>>

(* ---------------------------------------------------------------- .lz ---- *)
Mem(id, ver) == [magic |-> TRUE, ver |-> ver, dict |-> "ok", pl |-> "ok", crc |-> TRUE, usz |-> TRUE, msz |-> TRUE, id |-> id]
LzBases == {<<Mem(1, 1)>>, <<Mem(1, 0)>>, <<Mem(1, 1), Mem(2, 1)>>, <<Mem(1, 0), Mem(2, 1)>>}
LzFields(M) == <<"z.magic", "z.version", "z.dict", "z.payload", "z.crc32", "z.usize">> \o (IF M.ver = 1 THEN <<"z.msize">> ELSE <<>>)
LzEffects(M, f) ==
    CASE f = "z.magic" -> {<<"magic", [M EXCEPT !.magic = FALSE]>>}
      [] f = "z.version" -> {<<"unsupported", [M EXCEPT !.ver = 2]>>}
                            \cup (IF M.ver = 1 THEN {<<"v1_to_v0", [M EXCEPT !.ver = 0, !.msz = FALSE]>>}     \* 8 footer bytes left over
                                               ELSE {<<"v0_to_v1", [M EXCEPT !.ver = 1, !.msz = FALSE]>>})    \* footer 8 bytes longer than the file has
      [] f = "z.dict" -> {<<"invalid", [M EXCEPT !.dict = "invalid"]>>, <<"smaller", [M EXCEPT !.dict = "smaller"]>>,
                          <<"larger", [M EXCEPT !.dict = "larger"]>>}
      [] f = "z.payload" -> {<<"same", M>>, <<"other", [M EXCEPT !.pl = "other", !.crc = FALSE]>>,
                             <<"length", [M EXCEPT !.pl = "other", !.crc = FALSE, !.usz = FALSE]>>,
                             <<"error", [M EXCEPT !.pl = "error"]>>, <<"frame", [M EXCEPT !.pl = "frame"]>>}
      [] f = "z.crc32" -> {<<"value", [M EXCEPT !.crc = FALSE]>>}
      [] f = "z.usize" -> {<<"value", [M EXCEPT !.usz = FALSE]>>}
      [] OTHER -> {<<"value", [M EXCEPT !.msz = FALSE]>>}

(* ---------------------------------------------------------------- .lzma -- *)
AlBases == {[props |-> "ok", dict |-> "ok", usize |-> k, pl |-> "ok", eopm |-> e] :
               <<k, e>> \in {<<"known", FALSE>>, <<"known", TRUE>>, <<"unknown", TRUE>>}}
AlFields == <<"a.props", "a.dict", "a.usize", "a.payload">>
AlEffects(A, f) ==
    CASE f = "a.props" -> {<<"invalid", [A EXCEPT !.props = "invalid"]>>, <<"other", [A EXCEPT !.props = "other", !.pl = "garbage"]>>}
      [] f = "a.dict" -> {<<"any", [A EXCEPT !.dict = "other"]>>}
      [] f = "a.usize" -> {<<"any", [A EXCEPT !.usize = "other"]>>}
      [] OTHER -> {<<"same", A>>, <<"garbage", [A EXCEPT !.pl = "garbage"]>>}

NoLimit == [m |-> 0, f |-> "", w |-> ""]
Init ==
    /\ flags \in [concat : BOOLEAN, ignoreCheck : BOOLEAN]
    /\ seq = "start" /\ mi = 1 /\ first = TRUE /\ ret = "run" /\ out = <<>> /\ frame = FALSE
    /\ \/ /\ fmt = "lz"
          /\ \E base \in LzBases :
               /\ orig = base
               /\ \/ fault = [kind |-> "none", m |-> 0, f |-> "", cls |-> ""] /\ file = base /\ limit = NoLimit
                  \/ \E m \in 1..Len(base) : \E k \in 1..Len(LzFields(base[m])) : \E e \in LzEffects(base[m], LzFields(base[m])[k]) :
                        /\ fault = [kind |-> "flip", m |-> m, f |-> LzFields(base[m])[k], cls |-> e[1]]
                        /\ file = [base EXCEPT ![m] = e[2]] /\ limit = NoLimit
                  \/ \E m \in 1..Len(base) : \E k \in 1..Len(LzFields(base[m])) : \E w \in {"before", "inside"} :
                        /\ fault = [kind |-> "trunc", m |-> m, f |-> LzFields(base[m])[k], cls |-> w]
                        /\ file = base /\ limit = [m |-> m, f |-> LzFields(base[m])[k], w |-> w]
                  \/ \E m \in 1..Len(base) : \E k \in 1..Len(LzFields(base[m])) : \E kd \in {"ins", "del"} :
                        /\ fault = [kind |-> kd, m |-> m, f |-> LzFields(base[m])[k], cls |-> "shift"]
                        \* a shifted byte lands in the version / dictionary byte; everything behind is shifted too
                        /\ \E v \in {base[m].ver, 2} : \E d \in {"ok", "invalid"} :
                              file = [base EXCEPT ![m] =
                                  CASE LzFields(base[m])[k] = "z.magic" -> [base[m] EXCEPT !.magic = FALSE]
                                    [] LzFields(base[m])[k] = "z.version" -> [base[m] EXCEPT !.ver = v, !.dict = d, !.pl = "frame"]
                                    [] LzFields(base[m])[k] = "z.dict" -> [base[m] EXCEPT !.dict = d, !.pl = "frame"]
                                    [] OTHER -> [base[m] EXCEPT !.pl = "frame"]]
                        /\ limit = NoLimit
       \/ /\ fmt = "lzma"
          /\ \E base \in AlBases :
               /\ orig = base
               /\ \/ fault = [kind |-> "none", m |-> 0, f |-> "", cls |-> ""] /\ file = base /\ limit = NoLimit
                  \/ \E k \in 1..4 : \E e \in AlEffects(base, AlFields[k]) :
                        /\ fault = [kind |-> "flip", m |-> 1, f |-> AlFields[k], cls |-> e[1]] /\ file = e[2] /\ limit = NoLimit
                  \/ \E k \in 1..4 : \E w \in {"before", "inside"} :
                        /\ fault = [kind |-> "trunc", m |-> 1, f |-> AlFields[k], cls |-> w] /\ file = base
                        /\ limit = [m |-> 1, f |-> AlFields[k], w |-> w]
    /\ (fmt = "lzma" => flags = [concat |-> TRUE, ignoreCheck |-> FALSE])        \* the flags mean nothing to a .lzma file

(* does the file end before the decoder can read field f of member m completely? *)
Order(f) == CASE f \in {"z.magic", "a.props"} -> 1 [] f \in {"z.version", "a.dict"} -> 2 [] f \in {"z.dict", "a.usize"} -> 3
              [] f \in {"z.payload", "a.payload"} -> 4 [] f = "z.crc32" -> 5 [] f = "z.usize" -> 6 [] OTHER -> 7
Cut(m, f) == limit.m # 0 /\ (limit.m < m \/ (limit.m = m /\ Order(limit.f) <= Order(f)))
CutBefore(m, f) == limit.m # 0 /\ (limit.m < m \/ (limit.m = m /\ (Order(limit.f) < Order(f) \/ (limit.f = f /\ limit.w = "before"))))
Stop(r) == ret' = r /\ UNCHANGED <<fmt, flags, file, orig, fault, limit, seq, mi, first, out, frame>>
Goto(s) == seq' = s /\ UNCHANGED <<fmt, flags, file, orig, fault, limit, mi, first, ret, out, frame>>
M == file[mi]

(* ---- lzip_decode() ---- *)
LzIdString ==
    /\ fmt = "lz" /\ ret = "run" /\ seq \in {"start", "ID_STRING"}
    /\ IF mi > Len(file)
       THEN Stop(IF first THEN "BUF_ERROR" ELSE "STREAM_END")         \* "return !first_member && action == LZMA_FINISH ? LZMA_STREAM_END : LZMA_OK"
       ELSE IF Cut(mi, "z.magic")
       THEN \* input ends inside (or before) the magic bytes
            Stop(IF first THEN "BUF_ERROR" ELSE "STREAM_END")
       ELSE IF ~M.magic \/ frame
       THEN Stop(IF first THEN "FORMAT_ERROR" ELSE "STREAM_END")       \* trailing data
       ELSE Goto("VERSION")
LzVersion ==
    /\ fmt = "lz" /\ ret = "run" /\ seq = "VERSION"
    /\ IF Cut(mi, "z.version") THEN Stop("BUF_ERROR")
       ELSE IF M.ver > 1 THEN Stop("OPTIONS_ERROR") ELSE Goto("DICT_SIZE")
LzDictSize ==
    /\ fmt = "lz" /\ ret = "run" /\ seq = "DICT_SIZE"
    /\ IF Cut(mi, "z.dict") THEN Stop("BUF_ERROR")
       ELSE IF M.dict = "invalid" THEN Stop("DATA_ERROR")
       ELSE IF M.dict = "larger" THEN (Goto("LZMA_STREAM") \/ Stop("MEMLIMIT_ERROR"))
       ELSE Goto("LZMA_STREAM")
LzLzmaStream ==
    /\ fmt = "lz" /\ ret = "run" /\ seq = "LZMA_STREAM"
    /\ IF Cut(mi, "z.payload") THEN Stop("BUF_ERROR")
       ELSE CASE M.pl = "error" -> Stop("DATA_ERROR")
              [] M.pl = "frame" -> \* the marker is not where the footer begins: error, starvation, or a footer read from the wrong bytes
                                   \/ Stop("DATA_ERROR") \/ Stop("BUF_ERROR")
                                   \/ /\ seq' = "MEMBER_FOOTER" /\ frame' = TRUE /\ out' = Append(out, 0)
                                      /\ UNCHANGED <<fmt, flags, file, orig, fault, limit, mi, first, ret>>
              [] M.dict = "smaller" /\ M.pl = "ok" ->        \* a distance may now be out of the window
                                   \/ Stop("DATA_ERROR")
                                   \/ /\ seq' = "MEMBER_FOOTER" /\ out' = Append(out, M.id) /\ UNCHANGED <<fmt, flags, file, orig, fault, limit, mi, first, ret, frame>>
              [] OTHER -> /\ seq' = "MEMBER_FOOTER" /\ out' = Append(out, IF M.pl = "ok" THEN M.id ELSE 0)
                          /\ UNCHANGED <<fmt, flags, file, orig, fault, limit, mi, first, ret, frame>>
LzMemberFooter ==
    /\ fmt = "lz" /\ ret = "run" /\ seq = "MEMBER_FOOTER"
    /\ LET last == IF M.ver = 0 THEN "z.usize" ELSE "z.msize" IN
       IF Cut(mi, last) \/ (fault.cls = "v0_to_v1" /\ mi = fault.m /\ mi = Len(file)) THEN Stop("BUF_ERROR")
       ELSE IF frame THEN Stop("DATA_ERROR")                             \* CrcDetects: four arbitrary bytes are not the CRC32 of the data
       ELSE IF ~M.crc /\ ~flags.ignoreCheck /\ Variant # "no_crc" /\ ~(Variant = "crc_after_single_end" /\ ~flags.concat) THEN Stop("DATA_ERROR")
       ELSE IF ~M.usz /\ Variant # "no_usize" THEN Stop("DATA_ERROR")
       ELSE IF M.ver = 1 /\ ~M.msz /\ Variant # "no_member_size" THEN Stop("DATA_ERROR")
       ELSE IF ~flags.concat THEN Stop("STREAM_END")                        \* "if (!coder->concatenated) return LZMA_STREAM_END;"
       ELSE /\ mi' = mi + 1 /\ first' = FALSE /\ seq' = "ID_STRING"
            \* version 1 read as version 0: eight footer bytes are left over and are not magic bytes; v0 read as v1 swallowed 8 bytes of the next member
            /\ frame' = (fault.kind = "flip" /\ fault.f = "z.version" /\ fault.m = mi)
            /\ UNCHANGED <<fmt, flags, file, orig, fault, limit, ret, out>>

(* ---- alone_decode() ---- *)
Alone ==
    /\ fmt = "lzma" /\ ret = "run"
    /\ IF CutBefore(1, "a.payload") THEN Stop("BUF_ERROR")                      \* 13 header bytes
       ELSE IF file.props = "invalid" THEN Stop("FORMAT_ERROR")                 \* lzma_lzma_lclppb_decode()
       ELSE IF file.dict = "other" THEN \/ Stop("MEMLIMIT_ERROR") \/ Stop("DATA_ERROR") \/ Stop("FORMAT_ERROR")     \* FORMAT_ERROR: picky (auto decoder)
                                        \/ (limit.m = 0 /\ out' = <<1>> /\ ret' = "STREAM_END" /\ UNCHANGED <<fmt, flags, file, orig, fault, limit, seq, mi, first, frame>>)
       ELSE IF file.usize = "other" THEN \/ Stop("DATA_ERROR") \/ Stop("BUF_ERROR") \/ Stop("FORMAT_ERROR")
                                         \/ (out' = <<0>> /\ ret' = "STREAM_END" /\ UNCHANGED <<fmt, flags, file, orig, fault, limit, seq, mi, first, frame>>)
       ELSE IF limit.m # 0 THEN Stop("BUF_ERROR")                                \* the payload is cut: the range decoder starves
       ELSE IF file.pl = "garbage" THEN \/ Stop("DATA_ERROR") \/ Stop("BUF_ERROR")
                                        \/ (out' = <<0>> /\ ret' = "STREAM_END" /\ UNCHANGED <<fmt, flags, file, orig, fault, limit, seq, mi, first, frame>>)
       ELSE out' = <<1>> /\ ret' = "STREAM_END" /\ UNCHANGED <<fmt, flags, file, orig, fault, limit, seq, mi, first, frame>>

Next == LzIdString \/ LzVersion \/ LzDictSize \/ LzLzmaStream \/ LzMemberFooter \/ Alone
Spec == Init /\ [][Next]_vars

(* ------------------------------------------------------------------------ *)
Done == ret # "run"
Success == ret = "STREAM_END"
IsPrefix(a, b) == Len(a) <= Len(b) /\ \A k \in 1..Len(a) : a[k] = b[k]
AllIds == IF fmt = "lz" THEN [k \in 1..Len(orig) |-> orig[k].id] ELSE <<1>>
(* what a decoder with these flags is asked to deliver: every member, or only the first *)
OrigIds == IF fmt = "lz" /\ ~flags.concat THEN <<AllIds[1]>> ELSE AllIds
Seen(m) == flags.concat \/ m <= 1                                  \* is member m looked at at all
(* .lz carries a CRC32: never success with data that is not the original - except whole members lost as "trailing data" *)
LooseTrailing == fmt = "lz" /\ Success /\ IsPrefix(out, OrigIds) /\ Len(out) >= 1 /\ Len(out) < Len(OrigIds)
(* LZMA_IGNORE_CHECK renounces the CRC32 (sizes are still compared) *)
LzNeverWrongSuccess == (Done /\ fmt = "lz" /\ fault.kind # "none" /\ Success /\ ~flags.ignoreCheck) => (out = OrigIds \/ LooseTrailing)
(* the footer fields are always verified *)
LzFooterDamageDetected == (Done /\ fmt = "lz" /\ fault.kind = "flip" /\ Seen(fault.m)
                             /\ (fault.f \in {"z.usize", "z.msize"} \/ (fault.f = "z.crc32" /\ ~flags.ignoreCheck))) => ~Success
(* a file that ends inside a member is never complete, except inside the magic bytes of a later member (trailing data rule) *)
TruncatedNeverComplete ==
    (Done /\ fault.kind = "trunc") =>
        IF fmt = "lz" /\ ~Seen(fault.m) THEN (Success /\ out = OrigIds)       \* single-member decoding never reaches the cut
        ELSE IF fmt = "lz" /\ fault.f = "z.magic" /\ fault.m > 1 THEN (Success /\ IsPrefix(out, OrigIds))
        ELSE ret = "BUF_ERROR"
NoFaultNoError == (Done /\ fault.kind = "none") => (Success /\ out = OrigIds)
Emit == (ret' # "run") => PrintT(<<"PLAN", ToJson([fmt |-> fmt, flags |-> flags, base |-> orig, fault |-> fault, ret |-> ret', same |-> (out' = OrigIds)])>>)
=============================================================================
