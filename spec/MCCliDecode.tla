----------------------------- MODULE MCCliDecode -----------------------------
(* CliDecode against the C18 statement, for every tool x option x library    *)
(* verdict; also the plan generator (one PLAN line per combination).         *)
EXTENDS CliDecode, TLC, Json

VARIABLES tool, opt, lib
vars == <<tool, opt, lib>>
Opts == [singleStream : BOOLEAN, force : BOOLEAN, nowarn : BOOLEAN, quiet : {0, 1, 2}]
Libs == [det : {"xz", "lzma", "lzip", "none"}, final : {"END", "ERR"}, unsup : 0..2, trailing : BOOLEAN]
Init == tool \in Tools /\ opt \in Opts /\ lib \in Libs
Next == UNCHANGED vars
Spec == Init /\ [][Next]_vars

R == Run(tool, opt, lib)
IsXz == tool \in {"xz_dc", "xz_d", "xz_t"}
PassThru == tool = "xz_dc" /\ opt.force /\ lib.det = "none"
(* the library (or the trailing-input rule) reports an error *)
LibError == IF tool = "xzdec" THEN lib.final = "ERR"
            ELSE IF tool = "lzmadec" THEN lib.final = "ERR" \/ lib.trailing
            ELSE (lib.det = "none" /\ ~PassThru) \/
                 (lib.det # "none" /\ (lib.final = "ERR" \/ (lib.trailing /\ ~opt.singleStream /\ lib.det # "lzip")))

(* exit status reports failure exactly when the library reports an error; an *)
(* unverifiable check type is only a warning, and only in xz                 *)
ExitReportsError == (R.exit = 1) <=> LibError
WarningOnlyXz == (R.exit = 2) <=> (IsXz /\ ~LibError /\ lib.det # "none" /\ lib.unsup > 0 /\ ~opt.nowarn)
(* what reaches stdout: everything decoded (before an error), or nothing for the tools that do not write there *)
StdoutIsDecoded == /\ (tool \in {"xzdec", "lzmadec"} => R.stdout = "decoded")
                   /\ (tool = "xz_dc" /\ lib.det # "none" => R.stdout = "decoded")
                   /\ (tool \in {"xz_d", "xz_t"} => R.stdout = "none")
                   /\ (R.stdout = "input" <=> PassThru)
(* a file is created only from a completely valid input, and only then is the source removed *)
FileOnlyIfValid == /\ (R.file => tool = "xz_d" /\ ~LibError /\ lib.final = "END")
                   /\ (tool = "xz_d" /\ ~LibError => R.file)
                   /\ (R.srcRemoved <=> R.file /\ ~opt.singleStream)
(* all tools agree on a valid .xz input without warnings *)
Emit == PrintT(<<"PLAN", ToJson([tool |-> tool, opt |-> opt, lib |-> lib, r |-> R])>>)
=============================================================================
