----------------------------- MODULE MCCliDecode -----------------------------
(* CliDecode against the C18 statement, for every tool x input source x      *)
(* option x library verdict.                                                 *)
EXTENDS CliDecode, TLC

VARIABLES tool, opt, lib, src
vars == <<tool, opt, lib, src>>
Opts == [singleStream : BOOLEAN, force : BOOLEAN, nowarn : BOOLEAN, quiet : {0, 1, 2}]
Libs == [det : {"xz", "lzma", "lzip", "raw", "none"}, final : {"END", "ERR"}, unsupFirst : 0..1, unsupLater : 0..2,
         trailing : BOOLEAN, atBoundary : BOOLEAN]
Init == tool \in Tools /\ opt \in Opts /\ lib \in Libs /\ src \in Srcs
Next == UNCHANGED vars
Spec == Init /\ [][Next]_vars

R == Run(tool, opt, lib, src)
IsXz == tool \in {"xz_dc", "xz_d", "xz_t"}
PassThru == tool = "xz_dc" /\ opt.force /\ lib.det = "none"
(* the library (or the rule about input after the end of the stream) reports an error *)
LibError == IF tool = "xzdec" THEN lib.final = "ERR"
            ELSE IF tool = "lzmadec" THEN lib.final = "ERR" \/ lib.trailing
            ELSE (lib.det = "none" /\ ~PassThru) \/
                 (lib.det # "none" /\ (lib.final = "ERR" \/ (lib.trailing /\ ~opt.singleStream /\ lib.det # "lzip")))
Unsup == lib.unsupFirst + lib.unsupLater

(* exit status reports failure exactly when the library reports an error; an *)
(* unverifiable check type - in whichever Stream - is only a warning, and    *)
(* only in xz                                                                *)
ExitReportsError == (R.exit = 1) <=> LibError
WarningOnlyXz == (R.exit = 2) <=> (IsXz /\ ~LibError /\ lib.det # "none" /\ Unsup > 0 /\ ~opt.nowarn)
(* what reaches stdout: everything decoded (before an error), or nothing for the tools that do not write there *)
StdoutIsDecoded == /\ (tool \in {"xzdec", "lzmadec"} => R.stdout = "decoded")
                   /\ (tool = "xz_dc" /\ lib.det # "none" => R.stdout = "decoded")
                   /\ (tool = "xz_d" /\ lib.det # "none" => R.stdout = (IF src = "file" THEN "none" ELSE "decoded"))
                   /\ (tool = "xz_t" => R.stdout = "none")
                   /\ (R.stdout = "input" <=> PassThru)
(* a file is created only from a completely valid named input, and only then is the source removed *)
FileOnlyIfValid == /\ (R.file => tool = "xz_d" /\ src = "file" /\ ~LibError /\ lib.final = "END")
                   /\ (tool = "xz_d" /\ src = "file" /\ ~LibError => R.file)
                   /\ (R.srcRemoved <=> R.file /\ ~opt.singleStream)
(* the verdict does not depend on how the input arrives nor on where the     *)
(* stream ends relative to the I/O buffer nor on which Stream carries the    *)
(* unverifiable check                                                        *)
SourceIndependent == \A s \in Srcs : Run(tool, opt, lib, s).exit = R.exit
BoundaryIndependent == Run(tool, opt, [lib EXCEPT !.atBoundary = ~lib.atBoundary], src).exit = R.exit
StreamPositionIndependent ==
    \A uf \in 0..1, ul \in 0..2 : (uf + ul > 0) = (Unsup > 0) =>
        LET r2 == Run(tool, opt, [lib EXCEPT !.unsupFirst = uf, !.unsupLater = ul], src) IN
        r2.exit = R.exit /\ r2.stdout = R.stdout /\ r2.file = R.file
=============================================================================
