SPECIFICATION Spec
CONSTANTS Variant = "ok" BaseSet = "all"
ACTION_CONSTRAINT Emit
CHECK_DEADLOCK FALSE
