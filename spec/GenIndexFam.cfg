SPECIFICATION Spec
CONSTANTS
 BugDupChecks = FALSE  BugIterEmpty = FALSE  BugAppendTotal = FALSE
 NSlots = 1  MaxStreams = 12  MaxRecs = 20000
 USizes <- OneU  VSizes <- TinyV  Pads <- NoValues  FlagSet <- NoValues
 CommonU <- NoValues  CommonV <- NoValues
 FamStreams <- FamStreamsQ  FamBase = 3  FamGroups <- FamGroupsQ
 ParkA <- ParkAQ  ParkB <- ParkBQ
 EncN <- EncNQ
 HashU <- NoValues  HashV <- NoValues
 Volume = FALSE
 MinSteps = 1  MaxSteps = 2
VIEW View
CONSTRAINT Emit
CHECK_DEADLOCK FALSE
