SPECIFICATION Spec
CONSTANTS HS = 12  TempCap = 32  BugPadding = FALSE
 BlockSizes = {0, 44}  IndexSizes = {8, 36}  PadSizes = {0, 4, 40}
 MaxStreams = 2  ReadSizes = {1, 7, 100000}  Damage = TRUE
INVARIANTS TypeOK SeekInFile PosTruth OkConsumesAll ValidDecodes CombOrdered
PROPERTY Terminates
CHECK_DEADLOCK FALSE
