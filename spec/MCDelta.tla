------------------------------ MODULE MCDelta -------------------------------
(* (M) for C15, delta part: the circular-history machine of delta_encoder.c / *)
(* delta_decoder.c, fed in every sequence of chunks, produces a prefix of the *)
(* format's definition applied to the whole data; decode(encode(x)) = x and   *)
(* encode(decode(x)) = x; the size never changes.                             *)
EXTENDS Delta, BcjSamples, TLC

CONSTANTS Dists, Lens, Chunks

VARIABLES dist, enc, data, s, ipos, out
dvars == <<dist, enc, data, s, ipos, out>>

DInit == /\ dist \in Dists /\ enc \in BOOLEAN
         /\ data \in {Raw("x86", n, n + 3, 0) : n \in Lens} \cup {[i \in 1..n |-> 255] : n \in Lens}
         /\ s = DeltaInit(dist) /\ ipos = 0 /\ out = <<>>
DChunk(n) == /\ ipos < Len(data)
             /\ LET k == IF ipos + n > Len(data) THEN Len(data) - ipos ELSE n
                    r == DeltaChunk(enc, s, SubSeq(data, ipos + 1, ipos + k))
                IN s' = r[1] /\ out' = out \o r[2] /\ ipos' = ipos + k
             /\ UNCHANGED <<dist, enc, data>>
\* the same coder object is initialised again, possibly with another distance, for another job
DReinit == /\ ipos > 0
           /\ \E d2 \in Dists : dist' = d2 /\ s' = DeltaReinit(s, d2)
           /\ data' \in {Raw("x86", n, n + 3, 0) : n \in Lens}
           /\ ipos' = 0 /\ out' = <<>> /\ UNCHANGED enc
DNext == (\E n \in Chunks : DChunk(n)) \/ DReinit
DSpec == DInit /\ [][DNext]_dvars

WholeDef == IF enc THEN DeltaEncDef(data, dist) ELSE DeltaDecDef(data, dist)
PrefixOfDefinition == Len(out) = ipos /\ out = SubSeq(WholeDef, 1, ipos)
PosCountsDown == s.pos = (256 - (ipos % 256)) % 256
RoundTrip == ipos = Len(data) =>
                /\ (IF enc THEN DeltaDecDef(out, dist) ELSE DeltaEncDef(out, dist)) = data
                /\ DeltaChunk(~enc, DeltaInit(dist), out)[2] = data
=============================================================================
