SPECIFICATION Spec
CONSTANTS DictSize = 3 MinDict = 4 Align = 2 RepMax = 2
 Bytes = {1, 2} MaxOut = 10 MaxDist = 4 Lens = {2} Variant = "reset_keeps_wrapped"
INVARIANTS TypeOK VerdictAgrees RingMatchesHistory StateIsLitIffLastLit
PROPERTIES RelaxedOnly NeverStricter
CHECK_DEADLOCK FALSE
