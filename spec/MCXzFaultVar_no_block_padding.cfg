SPECIFICATION Spec
CONSTANTS Variant = "no_block_padding" BaseSet = "all"
INVARIANTS NeverWrongSuccess DamageOutsidePayloadDetected TruncatedNeverComplete BoundaryCutIsPrefix UnseenIsHarmless NoFaultNoError RetDocumented
CHECK_DEADLOCK FALSE
