SPECIFICATION Spec
CONSTANTS B = 2  TrackContent = TRUE  MaxBufs = 4  MaxOld = 3
INVARIANTS ContentExact SizeExact FlagsRestored SparseOnlyAtEnd NoSparseWhenNotWanted
CHECK_DEADLOCK FALSE
