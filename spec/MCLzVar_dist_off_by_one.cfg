SPECIFICATION Spec
CONSTANTS DictSize = 3 MinDict = 4 Align = 2 RepMax = 2
 Bytes = {1, 2} MaxOut = 11 MaxDist = 4 Lens = {2} Variant = "dist_off_by_one"
INVARIANTS TypeOK VerdictAgrees RingMatchesHistory StateIsLitIffLastLit
PROPERTIES RelaxedOnly NeverStricter
CHECK_DEADLOCK FALSE
