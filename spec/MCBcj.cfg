SPECIFICATION MCSpec
CONSTANTS
 InSizes = {0, 1, 3, 1000}
 OutSizes = {0, 1, 4, 1000}
 SampleSeeds = {1, 2, 3}
 MCArchs = {"x86", "powerpc", "ia64", "arm", "armthumb", "sparc", "arm64", "riscv"}
INVARIANTS PrefixOfOneShot EndIffComplete NeverAheadOfInput HeldBackIsBounded FinishFlushes ExactInverse
CHECK_DEADLOCK FALSE
