-------------------------------- MODULE EvalXz --------------------------------
(* (V) for C03: real .xz files (tests/files), lifted field by field into        *)
(* abstract files by harness/pydrv/c03lift.py, are judged by the operational    *)
(* decoder model; the plan lines carry the model's verdict, the sequence of     *)
(* Blocks delivered and the number of bytes consumed, which the check compares  *)
(* with what the real decoder did on the real bytes.                            *)
EXTENDS MCXzStreamDec
EvalSet == ndJsonDeserialize(IOEnv.C03FILES)
EInit == \E k \in 1..Len(EvalSet) : DecInit(EvalSet[k].file, Fl(TRUE, FALSE, FALSE, FALSE, FALSE), EvalSet[k].limit)
ESpec == EInit /\ [][DecNext]_dvars
EEmit == (ret' # "run") =>
          PrintT(<<"PLAN", ToJson([file |-> file, limit |-> limit, ret |-> ret', out |-> out', pos |-> pos', size |-> FileReal(file),
                                   valid |-> Valid(file, TRUE, TRUE)])>>)
(* a lifted file the format calls valid must be accepted with exactly its meaning (and vice versa) *)
EAccept == Done => ((ret = "STREAM_END") <=> (Valid(file, TRUE, TRUE) /\ limit = FileReal(file)))
=============================================================================
