SPECIFICATION Spec
CONSTANTS
 Alphabet = {0, 1, 128, 255, 90}
 MaxLen = 5
 PieceSizes = {0, 1, 2, 3, 4, 5, 7, 8, 9, 55, 56, 57, 63, 64, 65, 119, 120, 128, 200}
 ShaLens = {0, 1, 2, 54, 55, 56, 57, 62, 63, 64, 65, 66, 118, 119, 120, 121, 127, 128, 129, 183, 184, 191, 192, 193, 250, 330}
INVARIANTS FinalIsDefinition RunningCrcIsPrefixCrc ShaSizeCounts
CHECK_DEADLOCK FALSE
