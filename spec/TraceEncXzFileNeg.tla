-------------------------- MODULE TraceEncXzFileNeg --------------------------
(* Non-vacuity of the C02 judge: a batch of files, each with exactly one        *)
(* untruthful field (written by the glue writer).  Every execution is cut after *)
(* the field where the judge must object (flag bad = TRUE): the trace is        *)
(* accepted iff the judge accepts every field before it and NO action of the    *)
(* judge is enabled for the flagged field.                                      *)
EXTENDS TraceEncXzFile

Judge(f) == \/ SMagic(f) \/ SFlags(f) \/ SCrc(f)
            \/ BSize(f) \/ BFlags(f) \/ BCSize(f) \/ BUSize(f) \/ BFid(f) \/ BFpsize(f) \/ BFprops(f) \/ BPad(f) \/ BCrc(f)
            \/ BData(f) \/ BBPad(f) \/ BCheck(f)
            \/ IIndicator(f) \/ ICount(f) \/ IUnpadded(f) \/ IUncompressed(f) \/ IPad(f) \/ ICrc(f)
            \/ FCrc(f) \/ FBackward(f) \/ FFlags(f) \/ FMagic(f)

NGood == IsEvent("F") /\ ~T.bad /\ Judge(T)
NBad  == /\ IsEvent("F") /\ T.bad
         /\ ~ENABLED Judge(T)
         /\ st' = "idle" /\ UNCHANGED <<pos, cfg, sflags, blk, blocks, idx>>
NNext == TReset \/ NGood \/ NBad \/ TEof
NSpec == TInit /\ [][NNext]_tvars
=============================================================================
