SPECIFICATION Spec
CONSTANTS
 BugDupChecks = FALSE  BugIterEmpty = FALSE  BugAppendTotal = FALSE
 NSlots = 2  MaxStreams = 3  MaxRecs = 2
 USizes <- TinyU  VSizes <- TinyV  Pads <- TinyP  FlagSet <- TinyF
 CommonU <- NoValues  CommonV <- NoValues
 FamStreams <- NoValues  FamBase = 3  FamGroups <- NoValues
 ParkA <- NoValues  ParkB <- NoValues
 EncN <- NoValues
 HashU <- NoValues  HashV <- NoValues
 Volume = FALSE
 MinSteps = 1  MaxSteps = 5
VIEW View
CONSTRAINT Emit
CHECK_DEADLOCK FALSE
