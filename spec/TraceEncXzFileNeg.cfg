SPECIFICATION NSpec
POSTCONDITION TraceAccepted
CHECK_DEADLOCK FALSE
