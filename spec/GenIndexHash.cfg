SPECIFICATION Spec
CONSTANTS
 BugDupChecks = FALSE  BugIterEmpty = FALSE  BugAppendTotal = FALSE
 NSlots = 1  MaxStreams = 1  MaxRecs = 1
 USizes <- OneU  VSizes <- OneV  Pads <- NoValues  FlagSet <- NoValues
 CommonU <- NoValues  CommonV <- NoValues
 FamStreams <- NoValues  FamBase = 3  FamGroups <- NoValues
 ParkA <- NoValues  ParkB <- NoValues
 EncN <- NoValues
 HashU <- HashUB  HashV <- HashVB
 Volume = FALSE
 MinSteps = 99  MaxSteps = 5
VIEW ViewNoIter
ACTION_CONSTRAINT EmitT
CHECK_DEADLOCK FALSE
