SPECIFICATION Spec
CONSTANTS
 NSamples = 30
 NReuse = 6
 PairMs = {0, 255, 1}
 DeltaDists = {1, 2, 3, 16, 255, 256}
 DeltaLens = {0, 1, 2, 17, 256, 257, 300}
INVARIANTS ExactInverse DeltaIsDefinition
ACTION_CONSTRAINT Emit
CHECK_DEADLOCK FALSE
