SPECIFICATION MCSpec
CONSTANTS MaxFaults = 2 MaxSigs = 1 Sigs = {"PIPE"} AllFlagCombos = FALSE MaxFiles = 1
INVARIANTS TypeOK DataSafe FailureKeepsSource FailureCleansUp NoJunkLeft ExitZeroMeansDone FailureIsReported
           KeepNeverRemoves NoForeignLost NoOverwrite CleanBetweenFiles AbortDiesBySignal PendingHoleFresh
CHECK_DEADLOCK FALSE
