SPECIFICATION MCSpec
CONSTANTS MaxIn = 1  MaxOps = 4  MidRunChunks = TRUE  TinyInput = TRUE  Bugs = {"lzma2_init_ignores_unencoded"}
 Encs = {"stream", "mt", "raw", "block"}  Grants = {"big"}  Checks = {"crc"}  BSizes = {0}
VIEW MCView
INVARIANTS TypeOK NotBad DecodableLeGiven NoEmptyBlock SeqAgrees
PROPERTY Contract
CHECK_DEADLOCK FALSE
