SPECIFICATION GSpec
CONSTANTS MaxIn = 2  MaxOut = 1
 SupportedSets = {{"RUN","SYNC_FLUSH","FULL_FLUSH","FINISH","FULL_BARRIER"}, {"RUN","FULL_FLUSH","FULL_BARRIER","FINISH"}, {"RUN","SYNC_FLUSH","FINISH"}, {"RUN","FINISH"}, {"FINISH"}}
VIEW GView
ACTION_CONSTRAINT Emit
CHECK_DEADLOCK FALSE
