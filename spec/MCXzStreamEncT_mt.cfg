SPECIFICATION MCSpec
CONSTANTS MaxIn = 1  MaxOps = 4  MidRunChunks = TRUE  TinyInput = TRUE  Bugs = {}
 Encs = {"mt"}  Grants = {"one", "big"}  Checks = {"crc", "none"}  BSizes = {0, 1}
VIEW MCView
INVARIANTS TypeOK NotBad DecodableLeGiven NoEmptyBlock SeqAgrees
PROPERTY Contract
CHECK_DEADLOCK FALSE
