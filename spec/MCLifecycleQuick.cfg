SPECIFICATION MCSpec
CONSTANTS Kinds = {"k1", "k2", "kt"}  Threaded = {"kt"}  Objs = {"o1", "o2"}  Bug = "none"
 MaxCalls = 3  MaxPerCall = 2  MaxIds = 4
INVARIANTS NoBadFree FailureReported FailedInitClean EndClean HandleStillUsable CallerUnchanged
 OneShotBalanced UpdateKeepsCaller AllReleased KindMatch PointersLive
CHECK_DEADLOCK FALSE
