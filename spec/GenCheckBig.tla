----------------------------- MODULE GenCheckBig -----------------------------
(* (G) for C14, very long inputs.  CRC: single calls over runs of zero bytes  *)
(* whose length lies around 2^31 and 2^32 (and 2^33 in the thorough tier),    *)
(* with non-trivial initial values; the expected value is the closed form     *)
(* Check!ZeroRun (x^(8n) by square-and-multiply, checked against the          *)
(* bit-serial definition in MCCheck).  SHA-256: message lengths around the    *)
(* point where the bit count no longer fits in 32 bits (2^29 bytes); TLC      *)
(* only chooses the lengths here, the digests are decided by TraceCheck.      *)
EXTENDS Check, TLC, Json, IOUtils

CONSTANTS CrcSizes,      \* names of the sizes to use (see Size)
          ShaSizes       \* message lengths in bytes (< 2^31)
Seed == atoi(IOEnv.SEED) % 30011
KAdd == Seed % 977                                     \* seed-dependent addend (no carry into the next limb)

\* lengths as 16-bit limbs, least significant first
Size(name) ==
    CASE name = "2^31-1"  -> <<65535, 32767, 0>>
      [] name = "2^31"    -> <<0, 32768, 0>>
      [] name = "2^31+k"  -> <<17 + KAdd, 32768, 0>>
      [] name = "2^32-64" -> <<65472, 65535, 0>>
      [] name = "2^32-1"  -> <<65535, 65535, 0>>
      [] name = "2^32"    -> <<0, 0, 1>>
      [] name = "2^32+63" -> <<63, 0, 1>>
      [] name = "2^32+64" -> <<64, 0, 1>>
      [] name = "2^32+k"  -> <<4165 + KAdd, 16, 1>>
      [] name = "2^33+k"  -> <<129 + KAdd, 0, 2>>

Rnd(j) == LcgNext(LcgNext((Seed * 131 + j * 271) % 65537))
Init32(j) == IF j % 4 = 0 THEN <<0, 0>> ELSE <<Rnd(j) % B16, Rnd(j + 1) % B16>>
Init64(j) == IF j % 4 = 0 THEN <<0, 0, 0, 0>> ELSE <<Rnd(j) % B16, Rnd(j + 1) % B16, Rnd(j + 2) % B16, Rnd(j + 3) % B16>>
Names == SetToSeq(CrcSizes)
Jobs == {[type |-> "crc32", name |-> Names[j], size |-> Size(Names[j]), init |-> Init32(j), off |-> (Rnd(j + 9) % 64)] : j \in 1..Len(Names)}
        \cup {[type |-> "crc64", name |-> Names[j], size |-> Size(Names[j]), init |-> Init64(j + 1), off |-> (Rnd(j + 5) % 64)] : j \in 1..Len(Names)}
        \cup {[type |-> "sha256", name |-> "sha", size |-> <<n % B16, n \div B16, 0>>, init |-> <<>>, off |-> 0, lead |-> (Rnd(n % 1000) % 64)] : n \in ShaSizes}

VARIABLES job, res
Init == job \in Jobs /\ res = <<>>
Next == /\ res = <<>>
        /\ res' = CASE job.type = "crc32" -> WBytesLE(ZeroRun(Poly32, job.size, job.init))
                    [] job.type = "crc64" -> WBytesLE(ZeroRun(Poly64, job.size, job.init))
                    [] OTHER -> <<0>>
        /\ UNCHANGED job
Spec == Init /\ [][Next]_<<job, res>>
Emit == (res = <<>> /\ res' # <<>>) => PrintT(ToJson([job |-> job, expect |-> res']))
=============================================================================
