---------------------------- MODULE TraceLzmaCode ---------------------------
(* Trace validation for C11: call histories recorded from real coders        *)
(* (ctypes driver) must be behaviours of LzmaCode.  The inner coder's result *)
(* is not logged (it is not observable); TLC infers it.  The set of enabled  *)
(* actions per constructor is the specification's own table, so a            *)
(* constructor that enables or forgets an action makes the trace unmatchable.*)
EXTENDS LzmaCode, TLC, Json, IOUtils

TraceLog == ndJsonDeserialize(IOEnv.TRACE)

VARIABLE l

AllFive == {"RUN", "SYNC_FLUSH", "FULL_FLUSH", "FINISH", "FULL_BARRIER"}
SupportedActions(c) ==
    CASE c \in {"stream_encoder", "easy_encoder"} -> AllFive
      [] c = "stream_encoder_mt" -> {"RUN", "FULL_FLUSH", "FULL_BARRIER", "FINISH"}
      [] c \in {"block_encoder", "raw_encoder"} -> {"RUN", "SYNC_FLUSH", "FINISH"}
      [] c \in {"alone_encoder", "index_encoder"} -> {"RUN", "FINISH"}
      [] c = "microlzma_encoder" -> {"FINISH"}
      [] c \in {"stream_decoder", "stream_decoder_mt", "auto_decoder", "alone_decoder", "lzip_decoder",
                "microlzma_decoder", "block_decoder", "raw_decoder", "index_decoder", "file_info_decoder"}
            -> {"RUN", "FINISH"}
      [] c = "none" -> {}

TInit == InitWith({}, FALSE) /\ l = 1

IsEvent(e) == l <= Len(TraceLog) /\ TraceLog[l].e = e /\ l' = l + 1

\* a fresh handle (Reset) or the same handle given to another constructor without lzma_end() (Reinit event)
TReset == /\ IsEvent("Reset")
          /\ LET t == TraceLog[l] IN
             /\ inited' = t.inited /\ supported' = SupportedActions(t.coder)
             /\ seq' = "RUN" /\ savedIn' = 0 /\ allowBuf' = FALSE /\ totalIn' = 0 /\ totalOut' = 0
             /\ obs' = NoObs
\* (fresh_eq: lzma_memusage / lzma_memlimit_get / lzma_memlimit_set / lzma_get_progress answer on the
\* re-initialised handle exactly what they answer on a fresh handle given to the same constructor)
TReinit == IsEvent("Reinit") /\ TraceLog[l].fresh_eq /\ Reinit(SupportedActions(TraceLog[l].coder))

TCall == /\ IsEvent("Call")
         /\ LET t == TraceLog[l] IN
            /\ \E iret \in InnerRets :
                  Call(t.action, t.ain, t.aout, t.inNull, t.outNull, t.resv, iret, t.uin, t.uout)
            /\ obs'.ret = t.ret
            /\ obs'.uin = t.uin /\ obs'.uout = t.uout
            /\ totalIn' = t.tin /\ totalOut' = t.tout

TNext == TReset \/ TReinit \/ TCall
TSpec == TInit /\ [][TNext]_<<vars, l>>
TView == <<vars, l>>
TraceAccepted == TLCGet("stats").diameter - 1 = Len(TraceLog)
=============================================================================
