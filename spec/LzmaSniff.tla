------------------------------ MODULE LzmaSniff ------------------------------
(* xz's recognition of the .lzma (LZMA_Alone) header, src/xz/coder.c         *)
(* is_format_lzma(), with lzma_properties_decode() / lzma_lzma_lclppb_decode *)
(* for the properties byte.  The 13-byte header is                           *)
(*   props (1 byte), dictionary size (uint32 LE), uncompressed size (uint64) *)
(* TLC integers are 32-bit signed, so the dictionary size is a pair of       *)
(* 16-bit limbs [hi, lo] and the uncompressed size four limbs <<l3,l2,l1,l0>>*)
(* (most significant first).                                                 *)
EXTENDS Naturals, Sequences, Bitwise

W == 65536
ZERO32 == [hi |-> 0, lo |-> 0]
MAX32 == [hi |-> W - 1, lo |-> W - 1]
MAX64 == <<W - 1, W - 1, W - 1, W - 1>>
RECURSIVE Pow2(_)
Pow2(n) == IF n = 0 THEN 1 ELSE 2 * Pow2(n - 1)

(* uint32 arithmetic on limbs *)
Shr(d, k) == IF k = 16 THEN [hi |-> 0, lo |-> d.hi]
             ELSE [hi |-> d.hi \div Pow2(k), lo |-> (d.lo \div Pow2(k)) + (d.hi % Pow2(k)) * Pow2(16 - k)]
Or32(a, b) == [hi |-> a.hi | b.hi, lo |-> a.lo | b.lo]
Dec(d) == IF d.lo > 0 THEN [d EXCEPT !.lo = d.lo - 1]
          ELSE IF d.hi > 0 THEN [hi |-> d.hi - 1, lo |-> W - 1] ELSE MAX32          \* wraps like uint32_t
Inc(d) == IF d.lo < W - 1 THEN [d EXCEPT !.lo = d.lo + 1]
          ELSE IF d.hi < W - 1 THEN [hi |-> d.hi + 1, lo |-> 0] ELSE ZERO32

(* lzma_lzma_lclppb_decode(): byte > (4*5+4)*9+8 is invalid; pb = byte / 45; lp = rest / 9; lc = rest % 9;   *)
(* lc + lp > LZMA_LCLP_MAX (4) is invalid                                                                    *)
PropsOK(b) == /\ b <= 224
              /\ LET pb == b \div 45  r == b - pb * 45  lp == r \div 9  lc == r - lp * 9 IN lc + lp <= 4

(* d = dict_size - 1; d |= d >> 2; d |= d >> 3; d |= d >> 4; d |= d >> 8; d |= d >> 16; ++d;                 *)
(* if (d != dict_size || dict_size == 0) return false;   (skipped for UINT32_MAX)                            *)
S1(d, k) == Or32(d, Shr(d, k))
Smear(d) == S1(S1(S1(S1(S1(d, 2), 3), 4), 8), 16)
DictOK(d) == d = MAX32 \/ (Inc(Smear(Dec(d))) = d /\ d # ZERO32)

(* if (uncompressed_size != UINT64_MAX && uncompressed_size >= (1 << 38)) return false;   2^38 = limb l2 = 64 *)
SizeOK(u) == u = MAX64 \/ ~(u[1] > 0 \/ u[2] >= 64)

(* strm.avail_in < 13 -> false *)
IsFormatLzma(len, props, dict, usize) == len >= 13 /\ PropsOK(props) /\ DictOK(dict) /\ SizeOK(usize)

(* ---- what the comments in the code (and the format) promise ---------------*)
P2(n) == IF n < 16 THEN [hi |-> 0, lo |-> Pow2(n)] ELSE [hi |-> Pow2(n - 16), lo |-> 0]
AddL(a, b) == [hi |-> a.hi + b.hi, lo |-> a.lo + b.lo]          \* no carries: disjoint bits
DictSpec(d) == d = MAX32 \/ \E n \in 0..31 : d = P2(n) \/ (n >= 1 /\ d = AddL(P2(n), P2(n - 1)))
SizeSpec(u) == u = MAX64 \/ (u[1] = 0 /\ u[2] < 64)              \* unknown, or less than 256 GiB
PropsSpec(b) == \E lc \in 0..8, lp \in 0..4, pb \in 0..4 : b = (pb * 5 + lp) * 9 + lc /\ lc + lp <= 4
=============================================================================
