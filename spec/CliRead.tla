------------------------------- MODULE CliRead --------------------------------
(* The input loops of the command line decoders, where the end of the input   *)
(* is only known after a read returned fewer bytes than asked for (fread/feof *)
(* in src/xzdec/xzdec.c: uncompress(); io_read()/src_eof in src/xz/file_io.c   *)
(* and coder.c: coder_run(), coder_normal()).  A file of n bytes is read in    *)
(* blocks of B bytes; the decoder is abstract: the valid stream(s) occupy the  *)
(* first e bytes (e > n: truncated file, e < n: foreign bytes follow).         *)
(* One action per statement group of the loops.  C16 demands that the verdict  *)
(* of a tool depends on e and n only - in particular not on how n relates to   *)
(* the buffer size (end of input exactly on a buffer boundary).                *)
EXTENDS Integers, TLC, Json

CONSTANTS B, MaxN,
          NoProbe          \* TRUE: deliberately broken variant (lzmadec without the one-byte probe read)

Tools == {"xzdec", "lzmadec", "xz_lzma", "xz_single", "xz_xz", "xz_lzip"}
\* decoder kinds: "single"  ends at e whatever the action (.lzma; .xz without LZMA_CONCATENATED)
\*                "concat"  .xz with LZMA_CONCATENATED: ends only with LZMA_FINISH at the end of the input
\*                "lzipcat" .lz with LZMA_CONCATENATED: ends at a foreign byte or with LZMA_FINISH
Kind(t) == CASE t \in {"lzmadec", "xz_lzma", "xz_single"} -> "single"
             [] t \in {"xzdec", "xz_xz"} -> "concat"
             [] t = "xz_lzip" -> "lzipcat"
AllowTrailing(t) == t \in {"xz_single", "xz_lzip"}      \* coder.c: allow_trailing_input

VARIABLES tool, n, e, pos, eof, avail, cons, action, allowBuf, pc, exit
vars == <<tool, n, e, pos, eof, avail, cons, action, allowBuf, pc, exit>>

Min(a, b) == IF a < b THEN a ELSE b
\* fread(buf, 1, size, file) / io_read(pair, buf, size): the end-of-file flag is set only by a short read
Got(size) == Min(size, n - pos)
EofAfter(size) == eof \/ Got(size) < size

\* the decoder called with `avail' unread bytes: [used, ret]
Dec ==
    LET k == Kind(tool) IN
    CASE k = "single" ->
           IF cons + avail >= e THEN [used |-> e - cons, ret |-> "STREAM_END"]
           ELSE [used |-> avail, ret |-> "OK"]
      [] k = "concat" ->
           IF action = "FINISH" THEN [used |-> avail, ret |-> IF cons + avail = e /\ e = n THEN "STREAM_END" ELSE "ERROR"]
           ELSE [used |-> avail, ret |-> "OK"]
      [] k = "lzipcat" ->
           LET u == Min(avail, e - cons) IN
           IF cons + u = e /\ u < avail THEN [used |-> u, ret |-> "STREAM_END"]
           ELSE IF action = "FINISH" THEN [used |-> u, ret |-> IF cons + u = e THEN "STREAM_END" ELSE "ERROR"]
           ELSE [used |-> u, ret |-> "OK"]
\* lzma_code(): LZMA_BUF_ERROR when the coder made no progress twice in a row
CodeRes == LET d == Dec IN
           IF d.ret = "OK" /\ d.used = 0 /\ allowBuf THEN [used |-> 0, ret |-> "ERROR"] ELSE d

Init == /\ tool \in Tools /\ n \in 0..MaxN /\ e \in 1..(MaxN + 1)
        /\ pos = 0 /\ eof = FALSE /\ avail = 0 /\ cons = 0 /\ action = "RUN" /\ allowBuf = FALSE
        /\ pc = (IF tool \in {"xzdec", "lzmadec"} THEN "fill" ELSE "xz_first") /\ exit = -1

Done(x) == pc' = "done" /\ exit' = x

(* ---------------------------------------------------------- xzdec / lzmadec *)
\* if (strm->avail_in == 0) { avail_in = fread(in_buf, 1, BUFSIZ, file); #ifndef LZMADEC if (feof(file)) action = LZMA_FINISH; }
Fill == /\ pc = "fill"
        /\ IF avail = 0
           THEN /\ avail' = Got(B) /\ pos' = pos + Got(B) /\ eof' = EofAfter(B)
                /\ action' = IF tool = "xzdec" /\ EofAfter(B) THEN "FINISH" ELSE action
           ELSE UNCHANGED <<avail, pos, eof, action>>
        /\ pc' = "code" /\ UNCHANGED <<tool, n, e, cons, allowBuf, exit>>
\* ret = lzma_code(strm, action); ... if (ret != LZMA_OK) { if (ret == LZMA_STREAM_END) ... }
Code == /\ pc = "code"
        /\ LET r == CodeRes IN
           /\ avail' = avail - r.used /\ cons' = cons + r.used
           /\ allowBuf' = (r.ret = "OK" /\ r.used = 0)
           /\ IF r.ret = "OK" THEN pc' = "fill" /\ UNCHANGED exit
              ELSE IF r.ret = "ERROR" THEN Done(1)
              ELSE IF tool = "xzdec" THEN Done(0)
              ELSE pc' = "probe" /\ UNCHANGED exit
        /\ UNCHANGED <<tool, n, e, pos, eof, action>>
\* LZMADEC: if (strm->avail_in != 0 || fread(in_buf, 1, 1, file) != 0 || !feof(file)) ret = LZMA_DATA_ERROR; else return;
Probe == /\ pc = "probe"
         /\ IF avail # 0 THEN Done(1) /\ UNCHANGED <<pos, eof>>
            ELSE IF NoProbe THEN Done(IF ~eof THEN 1 ELSE 0) /\ UNCHANGED <<pos, eof>>
            ELSE /\ pos' = pos + Got(1) /\ eof' = EofAfter(1)
                 /\ Done(IF Got(1) # 0 \/ ~EofAfter(1) THEN 1 ELSE 0)
         /\ UNCHANGED <<tool, n, e, avail, cons, action, allowBuf>>

(* ----------------------------------------------------------------------- xz *)
\* coder_run(): strm.avail_in = io_read(pair, &in_buf, IO_BUFFER_SIZE);  coder_normal(): action = src_eof ? FINISH : RUN
XzFirst == /\ pc = "xz_first"
           /\ avail' = Got(B) /\ pos' = pos + Got(B) /\ eof' = EofAfter(B)
           /\ action' = IF EofAfter(B) THEN "FINISH" ELSE "RUN"
           /\ pc' = "xz_code" /\ UNCHANGED <<tool, n, e, cons, allowBuf, exit>>
\* if (strm.avail_in == 0 && action == LZMA_RUN) { avail_in = io_read(IO_BUFFER_SIZE); if (pair->src_eof) action = LZMA_FINISH; }
XzFill == /\ pc = "xz_fill"
          /\ IF avail = 0 /\ action = "RUN"
             THEN /\ avail' = Got(B) /\ pos' = pos + Got(B) /\ eof' = EofAfter(B)
                  /\ action' = IF EofAfter(B) THEN "FINISH" ELSE "RUN"
             ELSE UNCHANGED <<avail, pos, eof, action>>
          /\ pc' = "xz_code" /\ UNCHANGED <<tool, n, e, cons, allowBuf, exit>>
XzCode == /\ pc = "xz_code"
          /\ LET r == CodeRes IN
             /\ avail' = avail - r.used /\ cons' = cons + r.used
             /\ allowBuf' = (r.ret = "OK" /\ r.used = 0)
             /\ IF r.ret = "OK" THEN pc' = "xz_fill" /\ UNCHANGED exit
                ELSE IF r.ret = "ERROR" THEN Done(1)
                ELSE IF AllowTrailing(tool) THEN Done(0)
                ELSE pc' = "xz_trail" /\ UNCHANGED exit
          /\ UNCHANGED <<tool, n, e, pos, eof, action>>
\* if (strm.avail_in == 0 && !pair->src_eof) strm.avail_in = io_read(pair, &in_buf, 1);
\* if (strm.avail_in == 0) success else LZMA_DATA_ERROR
XzTrail == /\ pc = "xz_trail"
           /\ IF avail = 0 /\ ~eof
              THEN /\ pos' = pos + Got(1) /\ eof' = EofAfter(1) /\ avail' = Got(1) /\ Done(IF Got(1) = 0 THEN 0 ELSE 1)
              ELSE UNCHANGED <<pos, eof, avail>> /\ Done(IF avail = 0 THEN 0 ELSE 1)
           /\ UNCHANGED <<tool, n, e, cons, action, allowBuf>>

Next == Fill \/ Code \/ Probe \/ XzFirst \/ XzFill \/ XzCode \/ XzTrail
Spec == Init /\ [][Next]_vars /\ WF_vars(Next)

(* ------------------------------------------------------------------ contract *)
Expected == IF AllowTrailing(tool) THEN (IF e <= n THEN 0 ELSE 1) ELSE (IF e = n THEN 0 ELSE 1)
VerdictIndependentOfBuffer == pc = "done" => exit = Expected
Terminates == <>(pc = "done")

\* plan emission: sizes around the multiples of the buffer size
Interesting == \E k \in 1..2, d \in {-4, -1, 0, 1, 4} : n = k * B + d
EmitPlan == (pc = "done" /\ Interesting /\ e \in {n, n - 1}) =>
               PrintT(<<"PLAN", ToJson([tool |-> tool, n |-> n, e |-> e, B |-> B, exit |-> exit])>>)
=============================================================================
