------------------------------- MODULE XzGrep -------------------------------
(* C20 - transcription of src/scripts/xzgrep.in (xz 5.8.1) as a state machine.          *)
(*                                                                                      *)
(* Arguments are real strings; the case-patterns of the script are transcribed at       *)
(* character level (TLC evaluates Len/SubSeq/\o on strings).  Hostile words (file names *)
(* and patterns) appear as opaque placeholders "@1", "@2.gz", "-@3.xz" ...: the model   *)
(* only ever looks at the characters the script's patterns look at (leading "-", the    *)
(* option letters, "=", and the file-name suffix).  What the shell does with the bytes  *)
(* of a word (quoting, eval, sed escaping) is NOT modelled: it is observed by the       *)
(* replay driver on hostile name classes.                                               *)
(*                                                                                      *)
(* One action per case-branch of the option loop (lines 68-155), Post = lines 157-171,  *)
(* FileStep = one iteration of the per-file loop (lines 178-295), Finish = line 300.    *)
(* The matching itself is delegated: FileStep is parameterised by what the environment  *)
(* (decompressor + grep) does for this file:  st = [gr |-> grep's own exit status on    *)
(* the data it received, xs |-> "ok" | "fail" | "pipe" | "kill" (decompressor status)]. *)
EXTENDS Naturals, Sequences, FiniteSets

VARIABLES prog,      \* name the script is invoked by: "xzgrep" | "xzegrep" | "xzfgrep"
          labelOK,   \* result of the probe `echo x | $grep -H --label=f x` (line 62)
          argv,      \* the original argument vector (never changes; used by the contract)
          pc,        \* "scan" | "post" | "files" | "done"
          args,      \* "$@" still to be scanned
          operands,  \* $operands
          gopts,     \* options appended to $grep, in order: [o, has, a]
          havePat,   \* $have_pat
          fl,        \* [l, L, h, H]: files_with_matches, files_without_matches, no_filename, with_filename
                     \* (since the fix 7cf9214 -H resets no_filename and -h resets with_filename)
          files,     \* "$@" of the file loop
          k,         \* index of the file being processed
          res,       \* $res
          out,       \* what is written to stdout, one record per processed file: [f, how, dec]
          hist,      \* history: [f, st] per processed file
          exit,      \* exit status (valid when pc = "done")
          outcome    \* "ran" | "help" | "version" | "unsupported" | "missingarg" | "nopattern" | "killed"

envv  == <<prog, labelOK, argv>>
scanv == <<args, operands, gopts, havePat, fl>>
filev == <<files, k, res, out, hist>>
endv  == <<pc, exit, outcome>>
vars  == <<envv, scanv, filev, endv>>

------------------------------------------------------------------------------
(* character-level helpers *)
Ch(s, j)   == SubSeq(s, j, j)
Pre(s, p)  == Len(s) >= Len(p) /\ SubSeq(s, 1, Len(p)) = p
Suf(s, x)  == Len(s) >= Len(x) /\ SubSeq(s, Len(s) - Len(x) + 1, Len(s)) = x
Has(s, c, from) == \E j \in from..Len(s) : Ch(s, j) = c
\* s is one of the listed abbreviations  full[1..min], ..., full
IsPrefixOf(s, full, min) == Len(s) >= min /\ Len(s) <= Len(full) /\ SubSeq(full, 1, Len(s)) = s
\* *[-.]x
EndsSep(s, x) == Len(s) >= Len(x) + 1 /\ Suf(s, x) /\ Ch(s, Len(s) - Len(x)) \in {"-", "."}

Digits   == {"0", "1", "2", "3", "4", "5", "6", "7", "8", "9"}
\* line 74: -[0123456789abcdEFGhHiIKlLnoPqrRsTuUvVwxyzZ]
FirstSet == Digits \cup {"a", "b", "c", "d", "E", "F", "G", "h", "H", "i", "I", "K", "l", "L", "n", "o", "P",
                         "q", "r", "R", "s", "T", "u", "U", "v", "V", "w", "x", "y", "z", "Z"}
\* line 94: -[ABCDefmX]
ArgSet   == {"A", "B", "C", "D", "e", "f", "m", "X"}

\* line 74: (-[FirstSet]*[!0123456789]*)
IsCluster(o) == /\ Len(o) >= 3 /\ Ch(o, 1) = "-" /\ Ch(o, 2) \in FirstSet
                /\ \E j \in 3..Len(o) : Ch(o, j) \notin Digits
\* expr 'X\(-.[0-9]*\)' : index of the last character of "-" "." [0-9]*
RECURSIVE DigEnd(_, _)
DigEnd(o, e) == IF e < Len(o) /\ Ch(o, e + 1) \in Digits THEN DigEnd(o, e + 1) ELSE e

LMa(o) == Len(o) >= 4 /\ Pre(o, "--") /\ Ch(o, 3) \in {"l", "m"} /\ Ch(o, 4) = "a"      \* --[lm]a*
\* line 90: (--binary-*=* | --[lm]a*=* | --reg*=*)
EqForm(o)   == \/ Pre(o, "--binary-") /\ Has(o, "=", 10)
               \/ LMa(o) /\ Has(o, "=", 5)
               \/ Pre(o, "--reg") /\ Has(o, "=", 6)
\* line 94: (-[ABCDefmX] | --binary-* | --file | --[lm]a* | --reg*)
TakesArg(o) == \/ Len(o) = 2 /\ Ch(o, 1) = "-" /\ Ch(o, 2) \in ArgSet
               \/ Pre(o, "--binary-") \/ o = "--file" \/ LMa(o) \/ Pre(o, "--reg")
\* line 106: (-?*)
IsDashWord(o) == Len(o) >= 2 /\ Ch(o, 1) = "-"

\* second case statement, lines 120-145, in the order of the script
Unsupported(o)   == \/ Len(o) = 2 /\ Ch(o, 1) = "-" /\ Ch(o, 2) \in {"d", "r", "R", "z", "Z"}
                    \/ Pre(o, "--di") \/ Pre(o, "--exc") \/ Pre(o, "--inc") \/ Pre(o, "--rec") \/ Pre(o, "--nu")
SetsPat(o)       == \/ Len(o) >= 2 /\ Ch(o, 1) = "-" /\ Ch(o, 2) \in {"e", "f"}
                    \/ o = "--file" \/ Pre(o, "--file=") \/ Pre(o, "--reg")
IsHelp(o)        == IsPrefixOf(o, "--help", 3)
IsWithFn(o)      == o = "-H" \/ IsPrefixOf(o, "--with-filename", 4)
IsFilesWith(o)   == o = "-l" \/ Pre(o, "--files-with-")
IsFilesWithout(o)== o = "-L" \/ Pre(o, "--files-witho")
IsNoFn(o)        == o = "-h" \/ Pre(o, "--no-f")
IsVersion(o)     == o = "-V" \/ IsPrefixOf(o, "--version", 3)

\* lines 179-186: the decompressor is chosen by the suffix of the name
Uncompress(f) ==
    IF EndsSep(f, "z") \/ EndsSep(f, "Z") \/ Suf(f, "_z") \/ EndsSep(f, "gz") \/ Suf(f, ".taz") \/ Suf(f, ".tgz")
      THEN "gzip"
    ELSE IF EndsSep(f, "bz2") \/ EndsSep(f, "tbz") \/ Suf(f, ".tbz2") THEN "bzip2"
    ELSE IF EndsSep(f, "lzo") \/ EndsSep(f, "tzo") THEN "lzop"
    ELSE IF EndsSep(f, "zst") \/ EndsSep(f, "tzst") THEN "zstd"
    ELSE IF EndsSep(f, "lz4") THEN "lz4"
    ELSE "xz"

------------------------------------------------------------------------------
Stop(code, why) == pc' = "done" /\ exit' = code /\ outcome' = why

\* the option survives the second case statement and is appended to $grep (lines 147-154)
Pass(o, has, a, rest, hp, f) ==
    /\ args' = rest /\ gopts' = Append(gopts, [o |-> o, has |-> has, a |-> a])
    /\ havePat' = hp /\ fl' = f
    /\ UNCHANGED <<operands, endv>>
\* `continue`: the option is consumed by the script
Consume(rest, f) == args' = rest /\ fl' = f /\ UNCHANGED <<operands, gopts, havePat, endv>>

Dispatch(o, has, a, rest) ==
    IF Unsupported(o)         THEN Stop(2, "unsupported") /\ UNCHANGED scanv
    ELSE IF SetsPat(o)        THEN Pass(o, has, a, rest, TRUE, fl)
    ELSE IF IsHelp(o)         THEN Stop(0, "help") /\ UNCHANGED scanv
    ELSE IF IsWithFn(o)       THEN Consume(rest, [fl EXCEPT !.H = TRUE, !.h = FALSE])        \* the last of -h/-H wins
    ELSE IF IsFilesWith(o)    THEN Consume(rest, [fl EXCEPT !.l = TRUE])
    ELSE IF IsFilesWithout(o) THEN Consume(rest, [fl EXCEPT !.L = TRUE])
    ELSE IF IsNoFn(o)         THEN Pass(o, has, a, rest, havePat, [fl EXCEPT !.h = TRUE, !.H = FALSE])
    ELSE IF IsVersion(o)      THEN Stop(0, "version") /\ UNCHANGED scanv
    ELSE Pass(o, has, a, rest, havePat, fl)

Scanning == pc = "scan" /\ args # <<>>
Opt      == Head(args)

\* lines 74-89: -Fiv  ->  option=-F, "$@" = -iv ...
ScanCluster ==
    /\ Scanning /\ IsCluster(Opt)
    /\ LET e == DigEnd(Opt, 2) IN
       Dispatch(SubSeq(Opt, 1, e), FALSE, "", <<"-" \o SubSeq(Opt, e + 1, Len(Opt))>> \o Tail(args))
    /\ UNCHANGED <<envv, filev>>
\* lines 90-93
ScanEqForm ==
    /\ Scanning /\ ~IsCluster(Opt) /\ EqForm(Opt)
    /\ Dispatch(Opt, FALSE, "", Tail(args))
    /\ UNCHANGED <<envv, filev>>
\* lines 94-103
ScanTakeArg ==
    /\ Scanning /\ ~IsCluster(Opt) /\ ~EqForm(Opt) /\ TakesArg(Opt) /\ Len(args) >= 2
    /\ Dispatch(Opt, TRUE, args[2], Tail(Tail(args)))
    /\ UNCHANGED <<envv, filev>>
\* line 97: ${1?"$option option requires an argument"}
ScanMissingArg ==
    /\ Scanning /\ ~IsCluster(Opt) /\ ~EqForm(Opt) /\ TakesArg(Opt) /\ Len(args) = 1
    /\ Stop(2, "missingarg")
    /\ UNCHANGED <<envv, scanv, filev>>
OtherCase == Scanning /\ ~IsCluster(Opt) /\ ~EqForm(Opt) /\ ~TakesArg(Opt)
\* lines 104-105
ScanDashDash ==
    /\ OtherCase /\ Opt = "--"
    /\ args' = Tail(args) /\ pc' = "post"
    /\ UNCHANGED <<envv, operands, gopts, havePat, fl, filev, exit, outcome>>
\* lines 106-107
ScanOption ==
    /\ OtherCase /\ Opt # "--" /\ IsDashWord(Opt)
    /\ Dispatch(Opt, FALSE, "", Tail(args))
    /\ UNCHANGED <<envv, filev>>
\* lines 108-117 (POSIXLY_CORRECT is unset)
ScanOperand ==
    /\ OtherCase /\ Opt # "--" /\ ~IsDashWord(Opt)
    /\ operands' = Append(operands, Opt) /\ args' = Tail(args)
    /\ UNCHANGED <<envv, gopts, havePat, fl, filev, endv>>
ScanEnd ==
    /\ pc = "scan" /\ args = <<>> /\ pc' = "post"
    /\ UNCHANGED <<envv, scanv, filev, exit, outcome>>

\* lines 157-171
Post ==
    /\ pc = "post"
    /\ LET words == operands \o args IN
       IF ~havePat /\ words = <<>>
       THEN Stop(2, "nopattern") /\ UNCHANGED <<gopts, files>>
       ELSE LET fs == IF havePat THEN words ELSE Tail(words) IN
            /\ gopts' = IF havePat THEN gopts ELSE Append(gopts, [o |-> "-e", has |-> TRUE, a |-> Head(words)])
            /\ files' = IF fs = <<>> THEN <<"-">> ELSE fs
            /\ pc' = "files" /\ UNCHANGED <<exit, outcome>>
    /\ UNCHANGED <<envv, args, operands, havePat, fl, k, res, out, hist>>

\* lines 193-251: which branch writes the output of this file
Mode == IF fl.l THEN "l"
        ELSE IF fl.L THEN "L"
        ELSE IF ~fl.H /\ (Len(files) = 1 \/ fl.h) THEN "plain"
        ELSE IF labelOK THEN "label" ELSE "sed"

Max(a, b) == IF a < b THEN b ELSE a

\* lines 178-295, one file.  st.gr < 128 (grep is never killed in the environments we build).
FileStep(st) ==
    /\ pc = "files" /\ k <= Len(files)
    /\ LET f   == files[k]
           how == CASE Mode = "l" -> IF st.gr = 0 THEN "name" ELSE "none"    \* line 194
                    [] Mode = "L" -> IF st.gr = 1 THEN "name" ELSE "none"    \* lines 196-202
                    [] OTHER      -> Mode
           r0  == st.gr                                       \* line 253 (sed never fails: r = grep's status)
           r   == IF st.xs = "fail" THEN Max(r0, 2) ELSE r0   \* lines 272-282 ("pipe" is tolerated)
       IN /\ out'  = Append(out, [f |-> f, how |-> how, dec |-> Uncompress(f)])
          /\ hist' = Append(hist, [f |-> f, st |-> st])
          /\ IF st.xs = "kill"
             THEN Stop(137, "killed") /\ UNCHANGED <<k, res>>                 \* line 277
             ELSE /\ res' = IF r >= 2 THEN Max(res, r)                        \* lines 286-294
                            ELSE IF r = 0 /\ res = 1 THEN 0 ELSE res
                  /\ k' = k + 1 /\ UNCHANGED endv
    /\ UNCHANGED <<envv, scanv, files>>

\* line 300
Finish ==
    /\ pc = "files" /\ k > Len(files)
    /\ Stop(res, "ran")
    /\ UNCHANGED <<envv, scanv, filev>>

ScanNext == \/ ScanCluster \/ ScanEqForm \/ ScanTakeArg \/ ScanMissingArg \/ ScanDashDash
            \/ ScanOption \/ ScanOperand \/ ScanEnd \/ Post

InitWith(p, lab, av) ==
    /\ prog = p /\ labelOK = lab /\ argv = av
    /\ pc = "scan" /\ args = av /\ operands = <<>> /\ gopts = <<>> /\ havePat = FALSE
    /\ fl = [l |-> FALSE, L |-> FALSE, h |-> FALSE, H |-> FALSE]
    /\ files = <<>> /\ k = 1 /\ res = 1 /\ out = <<>> /\ hist = <<>>
    /\ exit = 0 /\ outcome = "none"

FileStates == [gr : {0, 1, 2}, xs : {"ok", "fail", "pipe", "kill"}]
=============================================================================
