---------------------------- MODULE GenEncConfig ----------------------------
(* Plan emission for C01/C02: instantiates EncoderConfig with the quick and    *)
(* the thorough lattice.  One PLAN line per configuration (run with -workers 1)*)
EXTENDS EncoderConfig

Names == <<"entry", "preset", "extreme", "lclppb", "mf", "mode", "nice", "depth", "dict", "pdict", "check", "chain",
           "bsize", "threads", "flush", "oslice", "l1kind", "limit", "mtpreset", "update", "history">>

AllEntries == <<"easy", "stream", "stream_mt", "alone", "raw1", "raw2", "block", "microlzma", "easy_buffer",
                "stream_buffer", "block_buffer", "raw_buffer", "raw1_buffer">>

QuickVals == <<
    AllEntries,
    <<1, 0, 2, 3, 4, 5, 6, 7, 8, 9>>,                              \* preset
    <<FALSE, TRUE>>,                                               \* extreme
    <<"dflt", "0-0-0", "4-0-4", "0-4-0", "1-3-2", "0-2-0">>,       \* lc-lp-pb corners (lc+lp <= 4)
    <<"hc3", "hc4", "bt2", "bt3", "bt4">>,                         \* mf
    <<"fast", "normal">>,                                          \* mode
    <<"2", "32", "273">>,                                          \* nice_len
    <<"0", "1", "200">>,                                           \* depth
    <<"4096", "65536", "1048577", "8192">>,                        \* dict_size
    <<"no", "small", "huge">>,                                     \* preset dictionary (huge: longer than the whole window)
    <<1, 0, 4, 10>>,                                               \* check
    <<"lzma2", "delta", "x86", "arm64delta">>,                     \* filter chain shape
    <<0, 4096, 50000>>,                                            \* MT block size (0 = default)
    <<1, 2, 4>>,                                                   \* threads
    <<"none", "sync", "full">>,                                    \* flush
    <<"whole", "small">>,                                          \* output slicing
    <<"lzma1", "ext_noeopm", "ext_eopm">>,                         \* LZMA1 kind
    <<"big", "40", "300", "7">>,                                   \* MicroLZMA output limit
    <<FALSE, TRUE>>,                                               \* MT: preset instead of filters
    <<"none", "props">>,                                           \* lzma_filters_update with new lc/lp/pb
    <<"fresh", "mid", "header", "flushed">> >>                     \* abandoned session on the same handle before

ThoroughVals == <<
    AllEntries,
    <<1, 0, 2, 3, 4, 5, 6, 7, 8, 9>>,
    <<FALSE, TRUE>>,
    <<"dflt", "0-0-0", "4-0-4", "0-4-0", "1-3-2", "0-2-0", "4-0-0", "0-4-4", "2-2-2", "0-0-4", "3-1-1">>,
    <<"hc3", "hc4", "bt2", "bt3", "bt4", "dflt">>,
    <<"fast", "normal", "dflt">>,
    <<"2", "32", "273", "3", "4", "5", "128", "dflt">>,
    <<"0", "1", "200", "2", "1000", "dflt">>,
    <<"4096", "65536", "1048577", "8192", "4097", "16384", "32768", "98304", "2097152", "dflt">>,
    <<"no", "small", "huge">>,
    <<1, 0, 4, 10>>,
    <<"lzma2", "delta", "x86", "arm64delta">>,
    <<0, 4096, 50000, 1500, 1048576>>,
    <<1, 2, 4, 3>>,
    <<"none", "sync", "full">>,
    <<"whole", "small">>,
    <<"lzma1", "ext_noeopm", "ext_eopm">>,
    <<"big", "40", "300", "7", "6", "4096", "65536">>,
    <<FALSE, TRUE>>,
    <<"none", "props">>,
    <<"fresh", "mid", "header", "flushed">> >>
=============================================================================
