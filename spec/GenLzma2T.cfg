SPECIFICATION Spec
CONSTANTS MaxChunks = 5 Variant = "ok"
ACTION_CONSTRAINT Emit
CHECK_DEADLOCK FALSE
