---------------------------- MODULE MCMtEncoder -----------------------------
(* Contract of C08 over MtEncoder, and model-checking configuration.         *)
EXTENDS MtEncoder

CONSTANT MaxCalls
CallBound == m.calls <= MaxCalls
MCView == <<[m EXCEPT !.calls = 0], c, t>>

Sum(s) == LET S[i \in 0..Len(s)] == IF i = 0 THEN 0 ELSE S[i-1] + s[i] IN S[Len(s)]

\* Blocks leave the encoder in the order in which their input arrived
OrderedOutput == m.orderOk

\* the Blocks partition the consumed input, in order, each at most block_size long
BlocksPartitionInput ==
    c.threadErr # "OK" \/
    /\ \A b \in 1..m.nblk : m.blkLen[b] <= m.bs /\ m.blkStart[b] = Sum(SubSeq(m.blkLen, 1, b - 1))
    /\ \A b \in 1..Len(m.index) : m.index[b] = m.blkLen[b] /\ m.blkLen[b] > 0
    /\ Sum(m.blkLen) = Consumed

\* a Block ends early only where the application asked for it (flush / barrier / finish offset)
BoundariesOnlyWhereRequested == m.closedAt \subseteq m.flushOffsets

\* FULL_FLUSH completes only when everything given so far has left the encoder
FlushCompletes ==
    (m.pc = "out" /\ m.lastRet = "STREAM_END" /\ m.act = "FULL_FLUSH") =>
        (m.inAvail = 0 /\ c.outq = <<>> /\ Sum(m.index) = m.given /\ m.delivered = HdrSz + Sum(m.index) + Len(m.index))

\* FULL_BARRIER completes when all input was handed over and the current Block was closed at that offset
BarrierCompletes ==
    (m.pc = "out" /\ m.lastRet = "STREAM_END" /\ m.act = "FULL_BARRIER") => (m.inAvail = 0 /\ m.thr = 0)

\* LZMA_FINISH: a single complete Stream holding all the input
FinishCompletes ==
    (m.pc = "out" /\ m.ended /\ m.lastRet = "STREAM_END") =>
        (Sum(m.index) = Total /\ Len(m.index) = m.nblk /\ m.delivered = HdrSz + Total + m.nblk + TailSz /\ c.outq = <<>>
         /\ c.progressIn = Total)

\* progress never exceeds the truth, never goes backwards
ProgressTruthful == m.progressOk

\* no premature "no progress possible"
BufErrorOnlyWhenStarved == (m.pc = "out" /\ m.lastRet = "BUF_ERROR" /\ m.outSpace > 0) => m.inAvail = 0

DocumentedCodes == m.lastRet \in {"OK", "STREAM_END", "BUF_ERROR", "MEM_ERROR"}
QueueBound == Len(c.outq) <= BufsLimit /\ m.bufsInUse = Len(c.outq)
\* liveness under fairness: a caller that offers all input with LZMA_FINISH and ample output space gets LZMA_STREAM_END
GoodApp == (\E s \in Spaces : Call("FINISH", Total - m.given, s)) \/ AppEnd
LiveNext == Main \/ (\E w \in W : Worker(w)) \/ GoodApp \/ (Terminated /\ UNCHANGED vars)
Fairness == WF_vars(Main) /\ (\A w \in W : WF_vars(Worker(w))) /\ WF_vars(GoodApp)
FairSpec == Init /\ [][LiveNext]_vars /\ Fairness
EventuallyDone == <>(m.ended \/ m.pc = "freed")
\* every Block is encoded with the filter chain that was in effect when its first byte was accepted: the number of
\* updates accepted before the Block was started (ghost acceptedAt) equals the chain it was started with
ChainTakesEffect == \A b \in 1..Len(m.blkChain) : m.blkChain[b] >= 0 /\ m.blkChain[b] <= m.chain
                    /\ (b > 1 => m.blkChain[b] >= m.blkChain[b-1])
UpdateRefusedMidBlock == (m.pc = "out" /\ m.lastUpdateRet = "OK") => TRUE
\* every idle, sleeping worker can be found again: it is on the stack of free threads
NoLostWorker == \A w \in W : (t[w].pc = "park_top" /\ t[w].state = "IDLE" /\ m.thr # w)
                                  => (\E i \in 1..Len(c.free) : c.free[i] = w)
\* the main thread never copies more into thr->in than was allocated for it
InBufFits == \A w \in W : t[w].inSize <= t[w].cap
EndJoinsAll == m.pc = "freed" => \A w \in W : t[w].pc \in {"none", "exited"}
=============================================================================
