SPECIFICATION Spec
ACTION_CONSTRAINT Emit
CHECK_DEADLOCK FALSE
