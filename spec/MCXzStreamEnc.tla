--------------------------- MODULE MCXzStreamEnc ---------------------------
(* (M) of C12: all application histories of at most MaxOps operations with  *)
(* 0..MaxIn bytes each, on every encoder x filter chain x output policy.     *)
EXTENDS XzStreamEncContract, TLC

CONSTANTS Encs, Grants, Checks, BSizes

C0(pre, lz) == Chain(pre, lz, "p0")
InitChains(e) == IF e = "raw"
                 THEN {C0("none", "lzma2"), C0("delta", "lzma2"), C0("x86", "lzma2"), C0("none", "lzma1"), C0("delta", "lzma1")}
                 ELSE {C0("none", "lzma2"), C0("delta", "lzma2"), C0("x86", "lzma2")}

\* the application switches between its initial chain and one with / without delta, with old, new or invalid lc/lp/pb
MCTargets == {t \in ChainsAll : /\ t.lz = cfg.chain0.lz
                               /\ t.pre \in {cfg.chain0.pre, IF cfg.chain0.pre = "none" THEN "delta" ELSE "none"}}
             \* ... or to a chain that is refused only when its filters are initialised (not with the threaded
             \* encoder: there the worker thread finds out, see C08)
             \cup (IF cfg.enc = "mt" THEN {} ELSE {Chain("armbad", cfg.chain0.lz, "p0")})

MCInit == /\ \E e \in Encs, g \in Grants, k \in Checks :
               \E c \in InitChains(e), bs \in (IF e = "mt" THEN BSizes ELSE {0}) :
                   InitWith(InitCfg(e, c, k, g, bs))
          /\ MInit

MCNextX ==
    \/ /\ app.op = "none" /\ app.nops < MaxOps
       /\ \E a \in AppActions, n \in 0..MaxIn : BeginCall(a, n, n, FALSE, 1, "any", FALSE) \/ RejectedCall(a, n)
    \/ /\ app.op # "none"
       /\ BeginCall(app.op, app.left, app.left, FALSE, 1, "any", FALSE) \/ RejectedCall(app.op, app.left)
    \/ InnerStep
    \* between any two lzma_code() calls, with a working or a failing allocator
    \/ /\ app.nops < MaxOps
       /\ \E t \in MCTargets, fm \in FailModes :
             /\ (fm # "none" => (t.props = "p1" /\ t.pre # "armbad") \/ (t.props = "p0" /\ t.pre # cfg.chain0.pre))
             /\ Update(t, fm)

MCNext == MCNextX /\ MStep
MCSpec == MCInit /\ [][MCNext]_<<allvars, mvars>>

\* totals and the observation record are history: not part of the state identity
MCView == <<inited, supported, seq, savedIn, allowBuf, totalIn, cfg, app, call, sc, fl, mt, blocks, d, m>>
Contract == [][ContractStep]_<<allvars, mvars>>
=============================================================================
