SPECIFICATION Spec
CONSTANTS DictSize = 14 Opts = 3 ChunkMax = 12 Reserve = 4 MaxLen = 3 MaxPos = 34
INVARIANTS ChunkStaysInWindow UncompressedFits DictInWindow
CHECK_DEADLOCK FALSE
