------------------------------ MODULE MemLimit -------------------------------
(* Memory-limit protocol of liblzma's decoders (property C09).                *)
(*                                                                           *)
(* Part 1 - single-threaded limited decoders.  Transcribed restart protocol  *)
(*   stream_decoder.c  SEQ_BLOCK_INIT : memusage = lzma_raw_decoder_memusage; *)
(*        coder->memusage = memusage; if (memusage > memlimit) MEMLIMIT_ERROR *)
(*        else lzma_block_decoder_init (allocates)   -- sequence unchanged on *)
(*        error, so the next lzma_code() re-enters the same point             *)
(*   alone_decoder.c / lzip_decoder.c SEQ_CODER_INIT : same with              *)
(*        lzma_lzma_decoder_memusage + LZMA_MEMUSAGE_BASE                     *)
(*   auto_decoder.c : limit kept until the format is known, then delegated    *)
(*   index_decoder.c SEQ_MEMUSAGE : lzma_index_memusage(1, count) > memlimit  *)
(*   file_info.c : index decoder gets memlimit - memused(combined index),     *)
(*        reported usage = memused(combined) + usage(this)                    *)
(*   *_memconfig : report (memusage, memlimit); new limit 0 -> 1 (common.c);  *)
(*        new < memusage -> MEMLIMIT_ERROR, limit unchanged                   *)
(* One "init point" = the place where the amount E needed next becomes known. *)
(* The actual allocation A made for it is any amount up to E + Slack, where   *)
(* Slack (constant) is what the estimate functions do not count; the contract *)
(* allows exactly that much (Allowance = Slack).                              *)
(*                                                                           *)
(* Part 2 - threaded decoder accounting (stream_decoder_mt.c), see MtBlock.   *)
EXTENDS Integers, FiniteSets, Sequences

CONSTANTS BASE,        \* LZMA_MEMUSAGE_BASE
          Slack,       \* bytes a decoder may hold beyond what its estimate counts (bookkeeping allowance)
          Unlimited    \* representation of UINT64_MAX
\* Every operator takes `bug`, a set of variant names: {} is the protocol as documented; "mt_usage_excludes_need" and
\* "mt_set_keeps_threading" are the two places where xz 5.8.1 as released differs (both violate the contract, see
\* MemLimitContract); the remaining names are deliberately broken variants used for non-vacuity runs.

Max(a, b) == IF a >= b THEN a ELSE b
Min(a, b) == IF a <= b THEN a ELSE b

-----------------------------------------------------------------------------
(* Part 1: state of one limited single-threaded decoder                      *)
\*  limit   coder->memlimit
\*  usage   what lzma_memusage() returns
\*  need    E of the init point the decoder is stopped at / last passed (0 = none yet)
\*  phase   "parse" (no init point pending), "blocked" (MEMLIMIT_ERROR returned, restartable), "run"
\*  held    bytes currently allocated for the filters/index of the current unit
\*  kept    file_info only: memused(combined index) carried over from earlier Streams
StInit(limit0) == [limit |-> Max(1, limit0), usage |-> BASE, need |-> 0, phase |-> "parse", held |-> 0, kept |-> 0]

\* lzma_memlimit_set(strm, new): returns <<ret, state'>>
StSet(d, new, bug) ==
    LET n == IF new = 0 THEN 1 ELSE new IN
    IF n < d.usage /\ "set_accepts_small" \notin bug THEN <<"MEMLIMIT_ERROR", d>>
    ELSE <<"OK", [d EXCEPT !.limit = n]>>

\* The decoder reaches an init point that needs e (e includes BASE / memused of kept parts) and will
\* allocate a (a <= e - kept + Slack).  Transcription of SEQ_BLOCK_INIT / SEQ_CODER_INIT / SEQ_MEMUSAGE.
StReach(d, e, a, bug) ==
    LET d1 == IF "usage_not_updated" \in bug THEN [d EXCEPT !.need = e] ELSE [d EXCEPT !.usage = e, !.need = e] IN
    IF "limit_checked_once" \in bug /\ d.phase = "blocked"         \* a retry after MEMLIMIT_ERROR skips the test
    THEN <<"OK", [d1 EXCEPT !.phase = "run", !.held = a]>>
    ELSE IF "compare_after_alloc" \in bug
    THEN IF e > d.limit THEN <<"MEMLIMIT_ERROR", [d1 EXCEPT !.phase = "blocked", !.held = a]>>   \* allocated first
         ELSE <<"OK", [d1 EXCEPT !.phase = "run", !.held = a]>>
    ELSE IF e > d.limit
         THEN <<"MEMLIMIT_ERROR", [d1 EXCEPT !.phase = "blocked"]>>          \* nothing allocated, old unit kept
         ELSE <<"OK", [d1 EXCEPT !.phase = "run", !.held = a]>>              \* old unit freed before new one

\* the unit (Block / Index) is finished; its memory may stay cached in the coder (reused by the next one)
StFinishUnit(d, keepIndex) ==
    [d EXCEPT !.phase = "parse", !.kept = IF keepIndex THEN d.kept + d.held ELSE d.kept,
              !.held = IF keepIndex THEN 0 ELSE d.held]

StLive(d) == d.held + d.kept

-----------------------------------------------------------------------------
(* Part 2: threaded decoder, decision at SEQ_BLOCK_INIT / SEQ_BLOCK_THR_INIT *)
(* for a Block needing f (filters), i (input buffer), o (output buffer).      *)
\*  T, S           memlimit_threading, memlimit_stop  (T <= S enforced by the constructor)
\*  direct         mem_direct_mode (filters of the direct-mode Block decoder), really allocated: directReal
\*  thr            sequence of worker slots [st : "active"|"cached", filt, inb]
\*  outUsed/outCached   output buffers in use / cached in the outq
\*  cInUse, cCached     the code's counters mem_in_use, mem_cached
MtInit(t0, s0) ==
    LET s == Max(1, s0) t == Min(Max(1, t0), s) IN
    [T |-> t, S |-> s, direct |-> 0, thr |-> <<>>, outUsed |-> 0, outCached |-> <<>>,
     cInUse |-> 0, cCached |-> 0, mode |-> "none", need |-> 0]

SumSeq(q) == LET F[k \in 0..Len(q)] == IF k = 0 THEN 0 ELSE F[k - 1] + q[k] IN F[Len(q)]
ThrFilt(m) == SumSeq([k \in 1..Len(m.thr) |-> m.thr[k].filt])
ThrIn(m)   == SumSeq([k \in 1..Len(m.thr) |-> m.thr[k].inb])
OutAlloc(m) == m.outUsed + SumSeq(m.outCached)                         \* outq.mem_allocated
MtReal(m)  == m.direct + ThrFilt(m) + ThrIn(m) + OutAlloc(m)            \* bytes really held (accounted parts)
MtUsage(m, bug) ==                                                       \* stream_decoder_mt_memconfig
    LET u == Max(BASE, m.direct + m.cInUse + m.cCached + OutAlloc(m)) IN
    \* xz 5.8.1 reports only what is allocated; the corrected code also reports the refused Block's need
    IF "mt_usage_excludes_need" \notin bug /\ m.mode = "blocked" THEN Max(u, m.need) ELSE u

MtSet(m, new, bug) ==
    LET n == IF new = 0 THEN 1 ELSE new IN
    IF n < MtUsage(m, bug) THEN <<"MEMLIMIT_ERROR", m>>
    \* xz 5.8.1 stores only memlimit_stop; the corrected code clamps memlimit_threading like the constructor does
    ELSE <<"OK", [m EXCEPT !.S = n, !.T = IF "mt_set_keeps_threading" \in bug THEN @ ELSE Min(@, n)]>>

AllIdle(m) == \A k \in 1..Len(m.thr) : m.thr[k].st = "cached"
Cached(m) == {k \in 1..Len(m.thr) : m.thr[k].st = "cached"}

\* which way SEQ_BLOCK_INIT goes
MtDecision(m, f, i, o, sizesKnown, bug) ==
    IF f > m.S THEN "memlimit"
    ELSE IF ~sizesKnown THEN "direct"
    ELSE IF f + i + o > (IF "threading_test_uses_stop" \in bug THEN m.S ELSE m.T) THEN "direct"
    ELSE "threaded"

\* SEQ_BLOCK_INIT with f > memlimit_stop: queue flushed first, then MEMLIMIT_ERROR (restartable)
MtBlocked(m, f) == [m EXCEPT !.mode = "blocked", !.need = f]

\* SEQ_BLOCK_DIRECT_INIT: queue empty, outq cache cleared, threads ended, then the decoder is allocated
MtDirect(m, f) ==
    [m EXCEPT !.mode = "direct", !.need = f, !.thr = <<>>, !.outUsed = 0, !.outCached = <<>>,
              !.cInUse = 0, !.cCached = 0, !.direct = f]
MtDirectReady(m) == AllIdle(m) /\ m.outUsed = 0

\* SEQ_BLOCK_THR_INIT may proceed when (read_output_and_wait): T - mem_in_use - outq.mem_in_use >= f+i+o
MtCanStart(m, f, i, o, bug) ==
    (IF "can_start_uses_stop" \in bug THEN m.S ELSE m.T) - m.cInUse - m.outUsed >= f + i + o

\* eviction + start of a thread (slot: an index of a cached slot to reuse, or 0 for a new one)
MtStartThread(m, f, i, o, slot, bug) ==
    LET memMax == m.T - (f + i + o)
        \* 1. lzma_outq_clear_cache2: keep one cached buffer of exactly the right size
        clr == m.cInUse + m.cCached + (IF "outq_cache_test_uses_in_use" \in bug THEN m.outUsed ELSE OutAlloc(m)) > memMax
        keep1 == clr /\ \E k \in 1..Len(m.outCached) : m.outCached[k] = o
        oc1 == IF ~clr THEN m.outCached ELSE IF keep1 THEN <<o>> ELSE <<>>
        \* 2. free cached Block decoders (not the first one if it is not bigger than f)
        first == IF Cached(m) = {} THEN 0 ELSE CHOOSE k \in Cached(m) : \A j \in Cached(m) : k <= j
        evict == Cached(m) # {} /\ m.cInUse + m.cCached + m.outUsed > memMax
        spare == IF evict /\ m.thr[first].filt <= f THEN {first} ELSE {}
        freed == IF evict THEN Cached(m) \ spare ELSE {}
        thr1 == [k \in 1..Len(m.thr) |-> IF k \in freed THEN [m.thr[k] EXCEPT !.filt = 0] ELSE m.thr[k]]
        cC1 == m.cCached - SumSeq([k \in 1..Len(m.thr) |-> IF k \in freed THEN m.thr[k].filt ELSE 0])
        \* 3. output buffer: reuse a cached one of the right size or allocate
        reuse == \E k \in 1..Len(oc1) : oc1[k] = o
        oc2 == IF reuse THEN (LET k == CHOOSE k \in 1..Len(oc1) : oc1[k] = o
                              IN [j \in 1..(Len(oc1) - 1) |-> IF j < k THEN oc1[j] ELSE oc1[j + 1]])
               ELSE <<>>                       \* lzma_outq_prealloc_buf clears a cache of other sizes
        \* 4. get_thread: the first cached slot, else a new one; its old filters are replaced
        newslot == [st |-> "active", filt |-> f, inb |-> i]
        thr2 == IF slot = 0 THEN Append(thr1, newslot) ELSE [thr1 EXCEPT ![slot] = newslot]
        cC2 == IF slot = 0 THEN cC1 ELSE cC1 - thr1[slot].filt
    IN [m EXCEPT !.mode = "threaded", !.need = f, !.direct = 0, !.thr = thr2, !.outCached = oc2,
                 !.outUsed = m.outUsed + o, !.cInUse = m.cInUse + i + f, !.cCached = cC2]

\* worker finished its Block: input buffer freed, filters stay cached
MtWorkerDone(m, k) ==
    [m EXCEPT !.thr[k] = [st |-> "cached", filt |-> m.thr[k].filt, inb |-> 0],
              !.cInUse = m.cInUse - m.thr[k].inb - m.thr[k].filt, !.cCached = m.cCached + m.thr[k].filt]
\* main thread read the whole output buffer of size o: it moves to the outq cache
\* (move_head_to_cache: a cache of another size is cleared first, so the cache is always uniform)
MtOutRead(m, o) == [m EXCEPT !.outUsed = m.outUsed - o,
                             !.outCached = IF m.outCached # <<>> /\ m.outCached[1] # o THEN <<o>> ELSE Append(m.outCached, o)]
=============================================================================
