--------------------------------- MODULE Lz ---------------------------------
(* LZ symbol semantics of LZMA / LZMA2 (C03).                                 *)
(*                                                                            *)
(* Two formulations of the same decoder are given and TLC checks that they    *)
(* agree on every symbol sequence within the constants (MCLz):                *)
(*                                                                            *)
(*  - DECLARATIVE (the format): the output is an unbounded history; a copy    *)
(*    with coded distance d (distance d+1) is valid iff                       *)
(*    d < Min(bytes in history, DictSize); reps[4] are updated move-to-front; *)
(*    the 12-state machine follows the LZMA specification; the end rules for  *)
(*    known / unknown uncompressed size are the ones of lzma-file-format.txt  *)
(*    and of LZMA2 (known size, marker forbidden).                            *)
(*                                                                            *)
(*  - OPERATIONAL (lz_decoder.c / lz_decoder.h): circular buffer `buf` of     *)
(*    EffDict + 2*RepMax bytes with pos / full / has_wrapped, lazily wrapped  *)
(*    in decode_buffer(), dict_get / dict_put / dict_repeat with the          *)
(*    "distance >= pos" correction and dict_is_distance_valid(full > d).      *)
(*                                                                            *)
(* lz_decoder.c raises the dictionary size to MinDict (4096) and rounds it up *)
(* to a multiple of Align (16): EffDict.  A distance that is invalid for the  *)
(* declared DictSize but inside EffDict is ACCEPTED by the implementation:    *)
(* this documented relaxation is the named predicate RelaxedDictAccept.       *)
EXTENDS Naturals, Sequences, FiniteSets

CONSTANTS DictSize,   \* dictionary size declared in the headers
          MinDict,    \* lz_decoder.c: "if (dict_size < 4096) dict_size = 4096"
          Align,      \* lz_decoder.c: rounded up to a multiple of 16
          RepMax      \* LZ_DICT_REPEAT_MAX: upper bound of one copy (288 >= 273)

Min(a, b) == IF a < b THEN a ELSE b
Max(a, b) == IF a > b THEN a ELSE b
EffDictOf(d) == ((Max(d, MinDict) + Align - 1) \div Align) * Align
EffDict == EffDictOf(DictSize)

(* ------------------------------------------------------------------------ *)
(* Symbols                                                                    *)
(* ------------------------------------------------------------------------ *)
Lit(b)      == [t |-> "lit", b |-> b, d |-> 0, i |-> 0, n |-> 1]
Match(d, n) == [t |-> "match", b |-> 0, d |-> d, i |-> 0, n |-> n]   \* d = distance - 1
Rep(i, n)   == [t |-> "rep", b |-> 0, d |-> 0, i |-> i, n |-> n]     \* i in 0..3
ShortRep    == [t |-> "shortrep", b |-> 0, d |-> 0, i |-> 0, n |-> 1]
Eopm        == [t |-> "eopm", b |-> 0, d |-> 0, i |-> 0, n |-> 0]

(* ------------------------------------------------------------------------ *)
(* The 12-state machine (LZMA specification, lzma_common.h update_* macros)  *)
(* ------------------------------------------------------------------------ *)
StLit(s)      == IF s <= 3 THEN 0 ELSE IF s <= 9 THEN s - 3 ELSE s - 6
StMatch(s)    == IF s < 7 THEN 7 ELSE 10
StLongRep(s)  == IF s < 7 THEN 8 ELSE 11
StShortRep(s) == IF s < 7 THEN 9 ELSE 11
StNext(s, y) == CASE y.t = "lit" -> StLit(s)
                  [] y.t = "match" -> StMatch(s)
                  [] y.t = "rep" -> StLongRep(s)
                  [] y.t = "shortrep" -> StShortRep(s)
                  [] OTHER -> s
IsLitState(s) == s < 7

(* reps: coded distances of the four latest matches, most recent first *)
RepsNext(r, y) ==
    CASE y.t = "match" -> <<y.d, r[1], r[2], r[3]>>
      [] y.t = "rep" -> CASE y.i = 0 -> r
                          [] y.i = 1 -> <<r[2], r[1], r[3], r[4]>>
                          [] y.i = 2 -> <<r[3], r[1], r[2], r[4]>>
                          [] OTHER   -> <<r[4], r[1], r[2], r[3]>>
      [] OTHER -> r
(* distance used by a copying symbol *)
DistOf(r, y) == CASE y.t = "match" -> y.d
                  [] y.t = "rep" -> r[y.i + 1]
                  [] OTHER -> r[1]
IsCopy(y) == y.t \in {"match", "rep", "shortrep"}

(* ------------------------------------------------------------------------ *)
(* DECLARATIVE: unbounded history `h` (bytes since the last dictionary reset, *)
(* including a preset dictionary).  W is the window (DictSize for the format, *)
(* EffDict for what liblzma documents to tolerate).                          *)
(* ------------------------------------------------------------------------ *)
DistValidW(h, d, W) == d < Min(Len(h), W)
DistValid(h, d) == DistValidW(h, d, DictSize)
RelaxedDictAccept(h, d) == ~DistValid(h, d) /\ DistValidW(h, d, EffDict)

RECURSIVE CopyH(_, _, _)
CopyH(h, d, n) == IF n = 0 THEN h ELSE CopyH(Append(h, h[Len(h) - d]), d, n - 1)

(* Verdict of one symbol: "ok" | "dist" (copy from before the dictionary)    *)
(*   | "size" (writes past a known uncompressed size) | "eopm" (marker where  *)
(*   it is not allowed) | "end" (valid end marker)                           *)
(* mode = [known |-> BOOLEAN, left |-> bytes still expected, eopmOk |-> ..]  *)
SymVerdictW(h, r, y, mode, W) ==
    IF y.t = "eopm"
    THEN IF ~mode.known \/ (mode.eopmOk /\ mode.left = 0) THEN "end" ELSE "eopm"
    ELSE IF IsCopy(y) /\ ~DistValidW(h, DistOf(r, y), W) THEN "dist"
    ELSE IF mode.known /\ y.n > mode.left THEN "size"
    ELSE "ok"
ApplyH(h, r, y) == IF y.t = "lit" THEN Append(h, y.b)
                   ELSE IF IsCopy(y) THEN CopyH(h, DistOf(r, y), y.n) ELSE h

(* ------------------------------------------------------------------------ *)
(* OPERATIONAL: the circular buffer of lz_decoder.c                          *)
(* ------------------------------------------------------------------------ *)
BufSize == EffDict + 2 * RepMax      \* dict.size (alloc_size)
InitPos == 2 * RepMax                \* LZ_DICT_INIT_POS

RingInit == [buf |-> [k \in 0..(BufSize - 1) |-> 0], pos |-> InitPos, full |-> 0, wrapped |-> FALSE]

(* decode_buffer(): "if (dict.pos == dict.size) { pos = LZ_DICT_REPEAT_MAX; has_wrapped = true; memcpy(...) }" *)
RingWrap(g) == [g EXCEPT !.pos = RepMax, !.wrapped = TRUE,
                         !.buf = [k \in 0..(BufSize - 1) |->
                                     IF k < RepMax THEN g.buf[BufSize - RepMax + k] ELSE g.buf[k]]]
RingReady(g) == IF g.pos = BufSize THEN RingWrap(g) ELSE g
(* dict_get() *)
RingGet(g, d) == g.buf[g.pos - d - 1 + (IF d < g.pos THEN 0 ELSE BufSize - RepMax)]
(* dict_put(): "buf[pos++] = byte; if (!has_wrapped) full = pos - LZ_DICT_INIT_POS" *)
RingPut(g0, b) == LET g == RingReady(g0)
                  IN [g EXCEPT !.buf[g.pos] = b, !.pos = g.pos + 1,
                               !.full = IF g.wrapped THEN g.full ELSE g.pos + 1 - InitPos]
(* dict_is_distance_valid() *)
RingDistValid(g, d) == g.full > d
(* dict_repeat(), byte by byte; the wrap between two pieces of a copy is the *)
(* decode_buffer() loop re-entering the LZMA decoder at SEQ_COPY             *)
RECURSIVE RingRepeat(_, _, _)
RingRepeat(g0, d, n) == IF n = 0 THEN g0
                        ELSE LET g == RingReady(g0) IN RingRepeat(RingPut(g, RingGet(g, d)), d, n - 1)
(* lz_decoder_reset() *)
RingReset(g) == [g EXCEPT !.pos = InitPos, !.full = 0, !.wrapped = FALSE, !.buf[InitPos - 1] = 0]

RingVerdict(g, r, y, mode) ==
    IF y.t = "eopm"
    THEN IF ~mode.known \/ (mode.eopmOk /\ mode.left = 0) THEN "end" ELSE "eopm"
    ELSE IF y.t \in {"rep", "shortrep"} /\ ~RingDistValid(g, 0) THEN "dist"     \* "if (!dict_is_distance_valid(&dict, 0))"
    ELSE IF IsCopy(y) /\ ~RingDistValid(g, DistOf(r, y)) THEN "dist"
    ELSE IF mode.known /\ y.n > mode.left THEN "size"
    ELSE "ok"
RingApply(g, r, y) == IF y.t = "lit" THEN RingPut(g, y.b)
                      ELSE IF IsCopy(y) THEN RingRepeat(g, DistOf(r, y), y.n) ELSE g
(* the last n bytes written, oldest first (what decode_buffer copies out) *)
RingTail(g, n) == [k \in 1..n |-> RingGet(g, n - k)]

(* ------------------------------------------------------------------------ *)
(* Whole-sequence evaluation (used by the plan generators)                    *)
(* st = [h, r, s, left, v]   v: "run" | "end" | "dist" | "size" | "eopm"      *)
(* ------------------------------------------------------------------------ *)
RECURSIVE RunH(_, _, _, _)
RunH(st, syms, mode, W) ==
    IF syms = <<>> \/ st.v # "run" THEN st
    ELSE LET y == Head(syms)
             m == [mode EXCEPT !.left = st.left]
             v == SymVerdictW(st.h, st.r, y, m, W)
         IN IF v = "ok"
            THEN RunH([h |-> ApplyH(st.h, st.r, y), r |-> RepsNext(st.r, y), s |-> StNext(st.s, y),
                       left |-> IF mode.known THEN st.left - y.n ELSE 0, v |-> "run"], Tail(syms), mode, W)
            ELSE [st EXCEPT !.v = v]
Start(h0, r0, s0, mode) == [h |-> h0, r |-> r0, s |-> s0, left |-> IF mode.known THEN mode.left ELSE 0, v |-> "run"]
(* A complete range-coder stream: with a known size and no marker it ends when the size is reached *)
Final(st, mode) == IF st.v = "run" THEN IF mode.known /\ st.left = 0 THEN "end" ELSE "more" ELSE st.v
=============================================================================
