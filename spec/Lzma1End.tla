------------------------------ MODULE Lzma1End ------------------------------
(* The end-of-stream rules of the LZMA1 decoder (lzma_decoder.c: lzma_decode) *)
(* at the level of "payload verdict": known / unknown uncompressed size,      *)
(* with / without end-of-payload marker (EOPM), allow_eopm (LZMA1EXT).         *)
(*                                                                             *)
(* A payload is a sequence of byte tokens [k, v, a] (a unused here):                              *)
(*   "pi"  one of the five range decoder initialisation bytes                  *)
(*   "pd"  a byte after which one more data symbol (= one output byte here)    *)
(*         is decodable                                                        *)
(*   "pm"  a byte inside the end marker symbol; v = 1 on the byte that         *)
(*         completes it                                                        *)
(*   "pf"  the last byte of the range coder flush: only after it               *)
(*         rc_is_finished() holds (code == 0)                                  *)
(* The probability model, match distances and the look-ahead of the range      *)
(* decoder are abstracted away; what is kept is exactly what decides the       *)
(* verdict: uncompressed_size bookkeeping, eopm_is_valid, allow_eopm,          *)
(* rc_is_finished and the suspension points (input exhausted).                 *)
EXTENDS Integers, Sequences

CONSTANT EopmLocalPerCall
   \* FALSE: the validity of the marker survives a return in the middle of the
   \* marker (lzma_decode() restores it on entry when resuming inside a symbol
   \* with uncompressed_size == 0 and allow_eopm).  TRUE: deliberately broken
   \* variant = xz 5.8.1 as released, where eopm_is_valid is a plain local that
   \* is recomputed on every call.

Tok(k, v) == [k |-> k, v |-> v, a |-> 0]
TokA(k, v, a) == [k |-> k, v |-> v, a |-> a]
PayloadTokens(n, eopm, markerLen) ==
    [i \in 1..5 |-> Tok("pi", 0)] \o [i \in 1..n |-> Tok("pd", 1)]
    \o (IF eopm THEN [i \in 1..markerLen |-> Tok("pm", IF i = markerLen THEN 1 ELSE 0)] ELSE <<>>)
    \o <<Tok("pf", 0)>>
IsPayloadTok(t) == t.k \in {"pi", "pd", "pm", "pf"}

UNKNOWN == -1
\* lzma_decoder_reset() + lzma_decoder_uncompressed()
LzInit(usize, allowEopm) ==
    [seq |-> "init", cnt |-> 0, rem |-> usize, allow |-> allowEopm, ev |-> (usize = UNKNOWN)]

\* entry of lzma_decode():
\*   bool eopm_is_valid = coder->uncompressed_size == LZMA_VLI_UNKNOWN;
\*   if (coder->uncompressed_size == 0 && coder->allow_eopm
\*       && coder->sequence != SEQ_NORMALIZE && coder->sequence != SEQ_IS_MATCH) eopm_is_valid = true;
\* (during rc_read_init coder->sequence is still SEQ_IS_MATCH)
LzEnter(p) == [p EXCEPT !.ev = \/ p.rem = UNKNOWN
                              \/ /\ ~EopmLocalPerCall
                                 /\ p.rem = 0 /\ p.allow /\ p.seq \in {"in_eopm", "eopm_end"}]

LzR(p, i, o, r) == [p |-> p, i |-> i, o |-> o, ret |-> r]

(* One call of the LZMA1 decoder on window w, i bytes of it already used,     *)
(* o output bytes produced in this call.  ret: OK (input exhausted),           *)
(* STREAM_END, DATA_ERROR, or UNSPEC when the decoder runs into bytes that do  *)
(* not belong to a payload (then its behaviour depends on the bits).           *)
RECURSIVE LzRun(_, _, _, _)
LzRun(p, w, i, o) ==
  LET more == i < Len(w)
      t    == w[i + 1]
  IN
  IF more /\ ~IsPayloadTok(t) THEN LzR(p, i, o, "UNSPEC")
  ELSE CASE p.seq = "init" ->           \* rc_read_init(): five bytes
         IF ~more THEN LzR(p, i, o, "OK")
         ELSE IF t.k # "pi" THEN LzR(p, i, o, "UNSPEC")
         ELSE IF p.cnt = 4 THEN LzRun([p EXCEPT !.seq = "is_match", !.cnt = 0], w, i + 1, o)
         ELSE LzRun([p EXCEPT !.cnt = @ + 1], w, i + 1, o)
    [] p.seq = "is_match" ->            \* case SEQ_NORMALIZE: case SEQ_IS_MATCH:
         IF p.rem = 0 /\ ~more THEN LzR(p, i, o, "OK")          \* rc_normalize_safe(SEQ_NORMALIZE)
         ELSE IF p.rem = 0 /\ t.k = "pf" THEN                   \* rc_is_finished
              LzR([p EXCEPT !.seq = "init", !.cnt = 0], i + 1, o, "STREAM_END")
         ELSE IF p.rem = 0 /\ ~p.allow THEN LzR(p, i, o, "DATA_ERROR")
         ELSE LET q == IF p.rem = 0 THEN [p EXCEPT !.ev = TRUE] ELSE p IN   \* eopm_is_valid = true
              IF ~more THEN LzR(q, i, o, "OK")                  \* rc_if_0_safe(.., SEQ_IS_MATCH)
              ELSE IF t.k = "pd" THEN
                   IF q.rem = 0 THEN LzR(q, i + 1, o, "DATA_ERROR")   \* SEQ_LITERAL_WRITE/SHORTREP/COPY with size 0
                   ELSE LzRun([q EXCEPT !.rem = IF @ = UNKNOWN THEN @ ELSE @ - 1], w, i + 1, o + 1)
              ELSE IF t.k = "pm" THEN
                   IF t.v = 1 THEN IF ~q.ev THEN LzR(q, i + 1, o, "DATA_ERROR")
                                   ELSE LzRun([q EXCEPT !.seq = "eopm_end"], w, i + 1, o)
                   ELSE LzRun([q EXCEPT !.seq = "in_eopm"], w, i + 1, o)
              ELSE IF t.k = "pf" THEN LzRun(q, w, i + 1, o)     \* coded data ended, decoder wants more
              ELSE LzR(q, i, o, "UNSPEC")
    [] p.seq = "in_eopm" ->             \* somewhere between SEQ_IS_REP and SEQ_ALIGN of the marker
         IF ~more THEN LzR(p, i, o, "OK")
         ELSE IF t.k # "pm" THEN LzR(p, i, o, "UNSPEC")
         ELSE IF t.v = 0 THEN LzRun(p, w, i + 1, o)
         ELSE IF ~p.ev THEN LzR(p, i + 1, o, "DATA_ERROR")      \* "if (!eopm_is_valid)"
         ELSE LzRun([p EXCEPT !.seq = "eopm_end"], w, i + 1, o)
    [] p.seq = "eopm_end" ->            \* case SEQ_EOPM: rc_normalize_safe; rc_is_finished
         IF ~more THEN LzR(p, i, o, "OK")
         ELSE IF t.k = "pf" THEN LzR([p EXCEPT !.seq = "init", !.cnt = 0], i + 1, o, "STREAM_END")
         ELSE LzR(p, i, o, "UNSPEC")

LzCall(p, w, i) == LzRun(LzEnter(p), w, i, 0)

(* ---- declarative verdict of a payload with n data bytes ------------------ *)
(* END: the stream ends properly, TRUNC: more input is needed for ever,       *)
(* ERR: corrupt.  out: number of bytes produced.                               *)
PayloadVerdict(usize, allowEopm, n, eopm) ==
    IF usize = UNKNOWN THEN (IF eopm THEN [v |-> "END", out |-> n] ELSE [v |-> "TRUNC", out |-> n])
    ELSE IF usize < n THEN [v |-> "ERR", out |-> usize]
    ELSE IF usize = n THEN (IF eopm /\ ~allowEopm THEN [v |-> "ERR", out |-> n] ELSE [v |-> "END", out |-> n])
    ELSE (IF eopm THEN [v |-> "ERR", out |-> n] ELSE [v |-> "TRUNC", out |-> n])
=============================================================================
