SPECIFICATION Spec
CONSTANTS Variant = "no_crc"
INVARIANTS LzNeverWrongSuccess LzFooterDamageDetected TruncatedNeverComplete NoFaultNoError
CHECK_DEADLOCK FALSE
