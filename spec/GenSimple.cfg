SPECIFICATION GSpec
CONSTANTS
 InSizes = {0, 1, 2, 3, 5, 9, 17, 1000}
 OutSizes = {0, 1, 2, 3, 4, 7, 16, 1000}
 SampleSeeds = {1, 2, 3, 4, 5, 6}
 MCArchs = {"x86", "powerpc", "ia64", "arm", "armthumb", "sparc", "arm64", "riscv"}
INVARIANTS PrefixOfOneShot EndIffComplete FinishFlushes
ACTION_CONSTRAINT Emit
CHECK_DEADLOCK FALSE
