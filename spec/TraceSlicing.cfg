SPECIFICATION TSpec
CONSTANTS MaxIn = 0 MaxOut = 0
POSTCONDITION TraceAccepted
CHECK_DEADLOCK FALSE
