SPECIFICATION GSpec
CONSTANTS MaxIn = 1  MaxOps = 2  MidRunChunks = FALSE  TinyInput = FALSE  Bugs = {}  Profile = "mid"
 Encs = {"stream", "mt", "raw", "block"}  Grants = {"one"}  Checks = {"crc", "none"}  BSizes = {0}
VIEW GView
ACTION_CONSTRAINT Emit
CHECK_DEADLOCK FALSE
