------------------------------ MODULE MtEncoder ------------------------------
(* Threaded .xz encoder: stream_encoder_mt.c + outqueue.c + the lzma_code     *)
(* wrapper's BUF_ERROR logic.  Same conventions as MtDecoder.tla: one action  *)
(* per critical section (or per unlocked step touching memory shared with     *)
(* another thread); m = main-thread private, c = protected by coder.mutex,    *)
(* t[w] = worker w (state/inSize/progress protected by thr.mutex).            *)
(*                                                                            *)
(* Data abstraction: the input is a number of units; a Block takes up to BS   *)
(* units; the output of a Block with u units of input is u + 1 units (Block   *)
(* Header + data) whichever of the two encoding paths (LZMA2 / "incompress-   *)
(* ible" fallback lzma_block_uncomp_encode) produced it; Stream Header, Index *)
(* and Stream Footer are one unit each.                                       *)
EXTENDS Integers, Sequences, FiniteSets, TLC

CONSTANTS NW,        \* the largest threads_max used in a behaviour (workers are numbered 1..NW)
          NW0,       \* threads_max given to the first lzma_stream_encoder_mt() call
          NWChoices, \* thread counts a re-initialisation may ask for
          BS,        \* block_size in units
          Total,     \* total input units the application has
          Chunk,     \* input given to the Block encoder per call (16384 bytes)
          Timeout, Spurious,
          MayFail,   \* BOOLEAN: a worker's Block encoder initialisation may fail (LZMA_MEM_ERROR)
          MayFailMain, \* BOOLEAN: an allocation made by the main thread may fail (output buffer / filter copy in get_thread, a new thread, lzma_index_append, the Index encoder)
          Gives, Spaces,
          FlushActs, \* subset of {"FULL_FLUSH", "FULL_BARRIER"} the application may use
          HdrSz,     \* size of the Stream Header (1 unit in model checking, 12 bytes in traces)
          TailSz,    \* size of Index + Stream Footer (2 units in model checking)
          MaxUpdates, \* how often the application may call lzma_filters_update()
          MaxReinit, \* how often the application may re-initialise the handle without lzma_end()
          BSChoices, \* block sizes a re-initialisation may ask for (BS is the first one)
          FixBlockSize, \* BOOLEAN: TRUE = re-initialisation with a different block_size frees the worker threads and their thr->in buffers like a changed thread count does (repaired tree); FALSE = xz 5.8.1 as released: the old buffers are reused
          FixLostWorker, \* BOOLEAN: TRUE = the tree after commit 49f83e5 (stopped-before-started workers return themselves, re-init waits for quiescence); FALSE = xz 5.8.1 as released
          CountCalls \* BOOLEAN: count lzma_code calls (history variable for bounding; FALSE for liveness checking)

W == 1..NW
Min(a, b) == IF a < b THEN a ELSE b

VARIABLES m, c, t
vars == <<m, c, t>>
BufsLimit == 2 * m.nw          \* lzma_outq_init(outq, allocator, threads)

MInit == [pc |-> "out", act |-> "RUN", inAvail |-> 0, given |-> 0, outSpace |-> 0, space0 |-> 0, progress |-> FALSE,
          allowBuf |-> FALSE, delivered |-> 0, lastRet |-> "OK", ended |-> FALSE, calls |-> 0, flushing |-> "NONE",
          seq |-> "HDR", thr |-> 0, nInit |-> 0, hasBlocked |-> FALSE, loopI |-> 0, rwRet |-> "OK",
          nblk |-> 0,            \* Blocks created so far
          bufsInUse |-> 0,       \* outq.bufs_in_use (only the main thread changes it)
          index |-> <<>>,        \* uncompressed sizes appended to the Index, in order
          blkStart |-> <<>>,     \* input offset at which each Block starts
          blkLen |-> <<>>,       \* input units copied into each Block so far
          closedAt |-> {},       \* input offsets at which a Block was closed before being full
          flushOffsets |-> {},   \* input offsets at which the application asked to end a Block / the Stream
          tailPos |-> 0, tailSz |-> TailSz,
          lastProgress |-> 0, progressOk |-> TRUE, orderOk |-> TRUE, copyBad |-> FALSE, reinits |-> 0,
          chain |-> 0,           \* coder->filters: number of accepted lzma_filters_update() calls so far
          cacheChain |-> -1,     \* coder->filters_cache: the chain copied for the next Block, or -1 if empty
          blkChain |-> <<>>,     \* the chain each Block was started with
          chainBase |-> 0,       \* chain version at the last (re-)initialisation
          updates |-> 0, lastUpdateRet |-> "none",
          nw |-> NW0,            \* coder->threads_max
          nnw |-> NW0,           \* thread count asked for by the re-initialisation in progress
          bs |-> BS,             \* coder->block_size
          nbs |-> BS]            \* block_size asked for by the re-initialisation in progress
CInit == [free |-> <<>>, threadErr |-> "OK", outq |-> <<>>, readPos |-> 0, sigM |-> FALSE, progressIn |-> 0]
TInit == [state |-> "IDLE", inSize |-> 0, sig |-> FALSE, pc |-> "none", blk |-> 0, inPos |-> 0, snapIn |-> 0,
          snapState |-> "IDLE", result |-> "IDLE", progressIn |-> 0, incompr |-> FALSE, waiterMain |-> FALSE,
          cap |-> 0,              \* size of the thr->in allocation (initialize_new_thread: coder->block_size at that time)
          assigned |-> FALSE]     \* ghost: taken from the free stack / created, not yet returned to it

Init == m = MInit /\ c = CInit /\ t = [w \in W |-> TInit]

\* pthread_cond_signal(&thr[w].cond): worker w (and, in threads_stop(wait), the main thread) may be waiting on it
SigW(tt, w) == [tt EXCEPT ![w].sig = (tt[w].pc \in {"park_top", "park_sync", "park_fin"}) \/ tt[w].sig,
                          ![w].waiterMain = (m.pc = "rwaitpark" /\ m.loopI + 1 = w) \/ tt[w].waiterMain]
SigM(cc) == [cc EXCEPT !.sigM = (m.pc \in {"wpark", "rqpark"}) \/ cc.sigM]

-----------------------------------------------------------------------------
(* lzma_code(): entry and return                                             *)

Consumed == m.given - m.inAvail

Call(a, g, s) ==
    /\ m.pc = "out" /\ ~m.ended
    /\ g <= Total - m.given
    /\ (m.flushing # "NONE" => a = m.flushing /\ g = 0)        \* same action, same amount of input
    /\ (a = "FINISH" => m.given + g = Total)
    /\ m' = [m EXCEPT !.act = a, !.inAvail = m.inAvail + g, !.given = m.given + g, !.outSpace = s, !.space0 = s,
                      !.progress = FALSE, !.calls = IF CountCalls THEN m.calls + 1 ELSE 0, !.hasBlocked = FALSE, !.pc = "run",
                      !.flushing = IF a = "RUN" THEN "NONE" ELSE a,
                      !.flushOffsets = IF a = "RUN" THEN m.flushOffsets ELSE m.flushOffsets \cup {m.given + g}]
    /\ UNCHANGED <<c, t>>

Ret(mm, r) ==
    LET r1 == IF r = "OK" /\ ~mm.progress /\ mm.allowBuf THEN "BUF_ERROR"
              ELSE IF r = "TIMED_OUT" THEN "OK" ELSE r
        flushDone == r = "STREAM_END" /\ mm.act \in {"FULL_FLUSH", "FULL_BARRIER"}
    IN [mm EXCEPT !.lastRet = r1,
                  !.allowBuf = IF r = "OK" THEN ~mm.progress
                               ELSE IF r \in {"TIMED_OUT", "STREAM_END"} THEN FALSE ELSE mm.allowBuf,
                  !.ended = (r1 \notin {"OK", "BUF_ERROR"} /\ ~flushDone),
                  !.flushing = IF flushDone THEN "NONE" ELSE mm.flushing,
                  !.pc = "out"]

-----------------------------------------------------------------------------
(* stream_encode_mt()                                                         *)

\* main-thread private steps
Run ==
    /\ m.pc = "run"
    /\ UNCHANGED <<c, t>>
    /\ m' = CASE m.seq = "HDR" ->
                  LET n == Min(m.outSpace, HdrSz - m.tailPos)
                      m1 == [m EXCEPT !.outSpace = @ - n, !.delivered = @ + n, !.progress = (m.progress \/ n > 0)]
                  IN IF m.tailPos + n < HdrSz THEN Ret([m1 EXCEPT !.tailPos = @ + n], "OK")
                     ELSE [m1 EXCEPT !.tailPos = 0, !.seq = "BLOCK", !.pc = "blkread"]
             [] m.seq = "BLOCK" -> [m EXCEPT !.pc = "blkread"]
             [] m.seq = "TAIL" ->        \* Index + Stream Footer: two units
                  LET n == Min(m.outSpace, m.tailSz - m.tailPos)
                      m1 == [m EXCEPT !.outSpace = @ - n, !.delivered = @ + n, !.progress = (m.progress \/ n > 0),
                                      !.tailPos = @ + n]
                  IN IF m.tailPos + n < m.tailSz THEN Ret(m1, "OK") ELSE Ret(m1, "STREAM_END")

\* coder.mutex: check thread_error, lzma_outq_read
BlkRead ==
    /\ m.pc = "blkread"
    /\ IF c.threadErr # "OK" THEN
            /\ m' = [m EXCEPT !.rwRet = c.threadErr, !.pc = "stop", !.loopI = 0] /\ UNCHANGED <<c, t>>
       ELSE IF c.outq = <<>> \/ ~c.outq[1].fin THEN
            /\ m' = [m EXCEPT !.pc = "encin"] /\ UNCHANGED <<c, t>>
       ELSE LET h == c.outq[1]
                n == Min(h.osz - c.readPos, m.outSpace)
                m1 == [m EXCEPT !.outSpace = @ - n, !.delivered = @ + n, !.progress = (m.progress \/ n > 0)]
            IN IF c.readPos + n < h.osz THEN
                   /\ m' = [m1 EXCEPT !.pc = "encin"] /\ c' = [c EXCEPT !.readPos = @ + n] /\ UNCHANGED t
               ELSE \* Block completely read: move_head_to_cache, lzma_index_append
                   /\ c' = [c EXCEPT !.outq = Tail(c.outq), !.readPos = 0]
                   /\ m' = [m1 EXCEPT !.bufsInUse = @ - 1, !.index = Append(m.index, h.usize),
                                      !.orderOk = (m.orderOk /\ h.b = Len(m.index) + 1),
                                      !.pc = IF m.outSpace - n > 0 THEN "blkread" ELSE "encin"]
                   /\ UNCHANGED t

\* stream_encode_in(): loop head (private)
EncIn ==
    /\ m.pc = "encin"
    /\ UNCHANGED <<c, t>>
    /\ m' = IF m.inAvail > 0 \/ (m.thr # 0 /\ m.act # "RUN")
            THEN IF m.thr # 0 THEN [m EXCEPT !.pc = "copy"]
                 ELSE IF m.bufsInUse >= BufsLimit THEN [m EXCEPT !.pc = "decide"]      \* !lzma_outq_has_buf
                 ELSE \* get_thread(): output buffer preallocated, filters_cache filled from coder->filters if it is empty
                      [m EXCEPT !.pc = "gtpop", !.cacheChain = IF m.cacheChain = -1 THEN m.chain ELSE m.cacheChain]
            ELSE [m EXCEPT !.pc = "decide"]

\* An allocation of the main thread fails: stream_encode_mt() calls threads_stop(coder, false) and returns LZMA_MEM_ERROR
MainFail(mm) == [mm EXCEPT !.rwRet = "MEM_ERROR", !.pc = "stop", !.loopI = 0]
\* get_thread(): lzma_outq_prealloc_buf() or the copy of the filter chain fails (nothing has been changed yet)
EncInFail ==
    /\ MayFailMain /\ m.pc = "encin"
    /\ (m.inAvail > 0 \/ (m.thr # 0 /\ m.act # "RUN")) /\ m.thr = 0 /\ m.bufsInUse < BufsLimit
    /\ m' = MainFail(m) /\ UNCHANGED <<c, t>>
\* initialize_new_thread() fails (thr->in, mutex, condition variable or the thread itself): threads_initialized unchanged
GtCreateFail == MayFailMain /\ m.pc = "gtcreate" /\ m' = MainFail(m) /\ UNCHANGED <<c, t>>
\* lzma_index_append() fails after a Block has been read completely (the buffer has left the queue already)
BlkReadFailAppend ==
    /\ MayFailMain /\ m.pc = "blkread" /\ c.threadErr = "OK" /\ c.outq # <<>> /\ c.outq[1].fin
    /\ LET h == c.outq[1]
           n == Min(h.osz - c.readPos, m.outSpace)
       IN /\ c.readPos + n = h.osz
          /\ c' = [c EXCEPT !.outq = Tail(c.outq), !.readPos = 0]
          /\ m' = MainFail([m EXCEPT !.outSpace = @ - n, !.delivered = @ + n, !.progress = (m.progress \/ n > 0),
                                     !.bufsInUse = @ - 1])
          /\ UNCHANGED t
\* lzma_index_encoder_init() fails when the Index is about to be written
TailFail == /\ MayFailMain /\ m.pc = "run" /\ m.seq = "TAIL" /\ m.tailPos = 0
            /\ m' = Ret(m, "MEM_ERROR") /\ UNCHANGED <<c, t>>

\* get_thread(): coder.mutex, pop the free stack
GtPop ==
    /\ m.pc = "gtpop"
    /\ IF c.free # <<>>
       THEN /\ m' = [m EXCEPT !.thr = c.free[1], !.pc = "gtstart"] /\ c' = [c EXCEPT !.free = Tail(c.free)]
            /\ t' = [t EXCEPT ![c.free[1]].assigned = TRUE]
       ELSE /\ m' = IF m.nInit = m.nw THEN [m EXCEPT !.pc = "decide"] ELSE [m EXCEPT !.pc = "gtcreate"]
            /\ UNCHANGED <<c, t>>

\* initialize_new_thread(): allocate thr->in, mythread_create
GtCreate ==
    /\ m.pc = "gtcreate"
    /\ LET w == m.nInit + 1 IN
       /\ m' = [m EXCEPT !.thr = w, !.nInit = w, !.pc = "gtstart"]
       /\ t' = [t EXCEPT ![w] = [TInit EXCEPT !.pc = "top", !.assigned = TRUE, !.cap = m.bs]]
    /\ UNCHANGED c

\* get_thread(): thr.mutex: state := RUN, in_size := 0, lzma_outq_get_buf, signal
GtStart ==
    /\ m.pc = "gtstart"
    /\ LET w == m.thr
           b == m.nblk + 1
       IN /\ t' = SigW([t EXCEPT ![w].state = "RUN", ![w].inSize = 0, ![w].blk = b], w)
          /\ c' = [c EXCEPT !.outq = Append(c.outq, [b |-> b, fin |-> FALSE, osz |-> 0, usize |-> 0])]
          /\ m' = [m EXCEPT !.nblk = b, !.bufsInUse = @ + 1, !.pc = "copy",
                            !.blkChain = Append(m.blkChain, m.cacheChain), !.cacheChain = -1,
                            !.blkStart = Append(m.blkStart, Consumed), !.blkLen = Append(m.blkLen, 0)]

\* lzma_bufcpy into thr->in (no lock)
Copy ==
    /\ m.pc = "copy"
    /\ m' = [m EXCEPT !.pc = "publish"]
    /\ UNCHANGED <<c, t>>

\* thr.mutex: block_error if the worker went idle, else in_size / THR_FINISH, signal
Publish ==
    /\ m.pc = "publish"
    /\ LET w == m.thr
           b == m.nblk
           n == Min(m.inAvail, m.bs - m.blkLen[b])
           len == m.blkLen[b] + n
           finish == len = m.bs \/ (m.inAvail - n = 0 /\ m.act # "RUN")
       IN IF t[w].state = "IDLE" THEN
              \* the Block's worker failed; the copied bytes are lost with it (in_pos was advanced by lzma_bufcpy)
              /\ m' = [m EXCEPT !.inAvail = @ - n, !.progress = (m.progress \/ n > 0), !.pc = "blkerr"]
              /\ UNCHANGED <<c, t>>
          ELSE
              /\ t' = SigW([t EXCEPT ![w].inSize = len, ![w].state = IF finish THEN "FINISH" ELSE @], w)
              /\ m' = [m EXCEPT !.inAvail = @ - n, !.progress = (m.progress \/ n > 0),
                                !.blkLen = [m.blkLen EXCEPT ![b] = len],
                                !.closedAt = IF finish /\ len < m.bs THEN m.closedAt \cup {m.blkStart[b] + len} ELSE m.closedAt,
                                !.thr = IF finish THEN 0 ELSE @, !.pc = "encin"]
              /\ UNCHANGED c

\* coder.mutex: fetch thread_error after a block_error
BlkErr ==
    /\ m.pc = "blkerr"
    /\ m' = [m EXCEPT !.rwRet = c.threadErr, !.pc = IF c.threadErr = "OK" THEN "decide" ELSE "stop", !.loopI = 0]
    /\ UNCHANGED <<c, t>>

\* what to return / whether to wait (private)
Decide ==
    /\ m.pc = "decide"
    /\ UNCHANGED <<c, t>>
    /\ m' = IF m.inAvail = 0 /\ m.act = "RUN" THEN Ret(m, "OK")
            ELSE IF m.inAvail = 0 /\ m.act = "FULL_BARRIER" THEN Ret(m, "STREAM_END")
            ELSE IF m.inAvail = 0 /\ m.bufsInUse = 0 /\ m.act = "FINISH" THEN [m EXCEPT !.seq = "TAIL", !.pc = "run"]
            ELSE IF m.inAvail = 0 /\ m.bufsInUse = 0 /\ m.act = "FULL_FLUSH" THEN Ret(m, "STREAM_END")
            ELSE IF m.outSpace = 0 THEN Ret(m, "OK")
            ELSE [m EXCEPT !.pc = "wait"]

\* wait_for_work(): coder.mutex, one evaluation of the wait predicate
Readable == c.outq # <<>> /\ c.outq[1].fin
Wait ==
    /\ m.pc = "wait"
    /\ IF (m.inAvail = 0 \/ c.free = <<>> \/ m.bufsInUse >= BufsLimit) /\ ~Readable /\ c.threadErr = "OK"
       THEN m' = [m EXCEPT !.pc = "wpark", !.hasBlocked = TRUE]
       ELSE m' = [m EXCEPT !.pc = "blkread"]
    /\ UNCHANGED <<c, t>>

WaitWake == /\ m.pc = "wpark" /\ (c.sigM \/ Spurious)
            /\ m' = [m EXCEPT !.pc = "wait"] /\ c' = [c EXCEPT !.sigM = FALSE] /\ UNCHANGED t
WaitTimeout == /\ m.pc = "wpark" /\ Timeout
               /\ m' = Ret(m, "TIMED_OUT") /\ c' = [c EXCEPT !.sigM = FALSE] /\ UNCHANGED t

\* threads_stop(coder, false): thr.mutex per thread: state := STOP, signal; then return rwRet
StopStep ==
    /\ m.pc = "stop"
    /\ IF m.loopI < m.nInit
       THEN /\ t' = SigW([t EXCEPT ![m.loopI + 1].state = "STOP"], m.loopI + 1)
            /\ m' = [m EXCEPT !.loopI = @ + 1]
       ELSE /\ m' = Ret(m, m.rwRet) /\ UNCHANGED t
    /\ UNCHANGED c

\* The application gives the same lzma_stream to lzma_stream_encoder_mt() again (same thread count) without
\* lzma_end(): stream_encoder_mt_init() calls threads_stop(coder, true): STOP + signal each thread, then wait on each
\* thr.cond until its state is IDLE; then the queue, the Index, thread_error, coder->thr and the progress counters are
\* reset.  The stack of free threads is NOT rebuilt: a worker returns itself to it after worker_encode().
\* With a different block_size the repaired tree takes the path of a changed thread count instead: threads_end()
\* (EXIT + signal, join, free every thr->in) and the threads are created again on demand with buffers of the new size.
\* A different thread count always takes that path.
AppReinit(nbs, nnw) ==
    /\ m.pc = "out" /\ m.reinits < MaxReinit /\ nnw \in 1..NW
    /\ m' = [m EXCEPT !.pc = IF (FixBlockSize /\ nbs # m.bs) \/ nnw # m.nw THEN "rendsig" ELSE "rstop", !.loopI = 0,
                      !.reinits = @ + 1, !.nbs = nbs, !.nnw = nnw]
    /\ UNCHANGED <<c, t>>
Reinitialised(nInit) ==
    [MInit EXCEPT !.nInit = nInit, !.calls = m.calls, !.reinits = m.reinits, !.tailSz = m.tailSz, !.chain = m.chain + 1,
                  !.chainBase = m.chain + 1, !.updates = m.updates, !.orderOk = m.orderOk, !.progressOk = m.progressOk,
                  !.bs = m.nbs, !.nbs = m.nbs, !.nw = m.nnw, !.nnw = m.nnw]
RStop ==
    /\ m.pc = "rstop"
    /\ IF m.loopI < m.nInit
       THEN /\ t' = SigW([t EXCEPT ![m.loopI + 1].state = "STOP"], m.loopI + 1) /\ m' = [m EXCEPT !.loopI = @ + 1]
       ELSE /\ m' = [m EXCEPT !.pc = "rwait", !.loopI = 0] /\ UNCHANGED t
    /\ UNCHANGED c
\* thr.mutex of thread loopI+1: wait while its state is not IDLE
RWait ==
    /\ m.pc = "rwait"
    /\ IF m.loopI < m.nInit
       THEN IF t[m.loopI + 1].state # "IDLE"
            THEN m' = [m EXCEPT !.pc = "rwaitpark"] /\ UNCHANGED <<c, t>>
            ELSE m' = [m EXCEPT !.loopI = @ + 1] /\ UNCHANGED <<c, t>>
       ELSE IF FixLostWorker /\ Len(c.free) # m.nInit
            \* repaired tree: additionally wait (coder.mutex / coder.cond) until every thread has returned itself to
            \* the stack of free threads, i.e. has finished touching the coder and its output buffer
            THEN m' = [m EXCEPT !.pc = "rqpark"] /\ UNCHANGED <<c, t>>
       ELSE /\ m' = Reinitialised(m.nInit)
            /\ c' = [c EXCEPT !.outq = <<>>, !.readPos = 0, !.threadErr = "OK", !.progressIn = 0, !.sigM = FALSE]
            /\ UNCHANGED t
RQuiesceWake ==
    /\ m.pc = "rqpark" /\ (c.sigM \/ Spurious)
    /\ m' = [m EXCEPT !.pc = "rwait"] /\ c' = [c EXCEPT !.sigM = FALSE] /\ UNCHANGED t
RWaitWake ==
    /\ m.pc = "rwaitpark" /\ (t[m.loopI + 1].waiterMain \/ Spurious)
    /\ m' = [m EXCEPT !.pc = "rwait"] /\ t' = [t EXCEPT ![m.loopI + 1].waiterMain = FALSE] /\ UNCHANGED c

\* lzma_end(): threads_end(): EXIT + signal each, then join each
AppEnd == /\ m.pc = "out" /\ m' = [m EXCEPT !.pc = "endsig", !.loopI = 0] /\ UNCHANGED <<c, t>>
\* (pc "rendsig" / "rendjoin": the same function called from stream_encoder_mt_init(), after which the coder is
\* reinitialised with no threads)
EndSignal ==
    /\ m.pc \in {"endsig", "rendsig"}
    /\ IF m.loopI < m.nInit
       THEN /\ t' = SigW([t EXCEPT ![m.loopI + 1].state = "EXIT"], m.loopI + 1) /\ m' = [m EXCEPT !.loopI = @ + 1]
       ELSE /\ m' = [m EXCEPT !.pc = IF m.pc = "endsig" THEN "endjoin" ELSE "rendjoin", !.loopI = 0] /\ UNCHANGED t
    /\ UNCHANGED c
EndJoin ==
    /\ m.pc \in {"endjoin", "rendjoin"}
    /\ IF m.loopI < m.nInit
       THEN /\ t[m.loopI + 1].pc = "exited" /\ m' = [m EXCEPT !.loopI = @ + 1] /\ UNCHANGED <<c, t>>
       ELSE IF m.pc = "endjoin"
       THEN /\ m' = [m EXCEPT !.pc = "freed", !.nInit = 0, !.loopI = 0] /\ UNCHANGED <<c, t>>
       ELSE /\ m' = Reinitialised(0) /\ c' = CInit /\ t' = [w \in W |-> TInit]

\* lzma_filters_update() between two calls (stream_encoder_mt_update): refused in the Index / Footer and while a
\* Block is open; otherwise the new chain replaces coder->filters and the cached copy is dropped
FiltersUpdate ==
    /\ m.pc = "out" /\ ~m.ended /\ m.updates < MaxUpdates
    /\ IF m.seq \notin {"HDR", "BLOCK"} \/ m.thr # 0
       THEN m' = [m EXCEPT !.updates = @ + 1, !.lastUpdateRet = "PROG_ERROR"]
       ELSE m' = [m EXCEPT !.updates = @ + 1, !.lastUpdateRet = "OK", !.chain = @ + 1, !.cacheChain = -1]
    /\ UNCHANGED <<c, t>>

\* lzma_get_progress() between two calls: coder.mutex, then every thr.mutex nested
GetProgress ==
    /\ m.pc = "out"
    /\ LET S[i \in 0..NW] == IF i = 0 THEN 0 ELSE S[i-1] + (IF i <= m.nInit THEN t[i].progressIn ELSE 0)
           v == c.progressIn + S[NW]
       IN m' = [m EXCEPT !.lastProgress = v,
                         !.progressOk = m.progressOk /\ v <= Consumed /\ (c.threadErr # "OK" \/ v >= m.lastProgress)]
    /\ UNCHANGED <<c, t>>

-----------------------------------------------------------------------------
(* worker_start() / worker_encode()                                           *)

\* worker_start: thr.mutex: STOP -> IDLE (+signal), wait while IDLE
\* A worker that was given a Block (GtStart) but sees STOP here before it ever saw RUN goes back to sleep without
\* returning itself to the stack of free threads (defect of xz 5.8.1 as released, repaired by 49f83e5).
\* FixLostWorker = TRUE is the repaired code: such a worker takes the same exit path as after worker_encode().
WTop(w) ==
    /\ t[w].pc = "top"
    /\ LET wasStop == t[w].state = "STOP"
           st == IF wasStop THEN "IDLE" ELSE t[w].state
           t1 == IF wasStop THEN SigW([t EXCEPT ![w].state = "IDLE"], w) ELSE t
           assigned == t[w].assigned
       IN t' = [t1 EXCEPT ![w].pc = IF wasStop /\ assigned /\ FixLostWorker THEN "finthr"
                                   ELSE IF st = "IDLE" THEN "park_top" ELSE IF st = "EXIT" THEN "exited" ELSE "encinit",
                          ![w].result = IF wasStop /\ assigned /\ FixLostWorker THEN "STOP" ELSE @,
                          ![w].snapState = st]
    /\ UNCHANGED <<m, c>>

WWake(w) ==
    /\ t[w].pc \in {"park_top", "park_sync", "park_fin"} /\ (t[w].sig \/ Spurious)
    /\ t' = [t EXCEPT ![w].pc = CASE @ = "park_top" -> "top" [] @ = "park_sync" -> "encsync" [] @ = "park_fin" -> "encwaitfin",
                      ![w].sig = FALSE]
    /\ UNCHANGED <<m, c>>

\* worker_encode(): Block encoder initialisation (no lock); may fail -> worker_error (coder.mutex)
WEncInit(w, fail, inc) ==
    /\ t[w].pc = "encinit"
    /\ IF fail
       THEN /\ c' = SigM([c EXCEPT !.threadErr = IF @ = "OK" THEN "MEM_ERROR" ELSE @])
            /\ t' = [t EXCEPT ![w].result = "STOP", ![w].pc = "finthr"]
       ELSE /\ t' = [t EXCEPT ![w].inPos = 0, ![w].snapIn = 0, ![w].incompr = inc, ![w].pc = "encsync"]
            /\ UNCHANGED c
    /\ UNCHANGED m

\* worker_encode(): thr.mutex: progress, wait for more input, snapshot state and in_size
WEncSync(w) ==
    /\ t[w].pc = "encsync"
    /\ IF t[w].snapIn = t[w].inSize /\ t[w].state = "RUN"
       THEN t' = [t EXCEPT ![w].progressIn = t[w].inPos, ![w].pc = "park_sync"]
       ELSE t' = [t EXCEPT ![w].progressIn = t[w].inPos, ![w].snapState = t[w].state, ![w].snapIn = t[w].inSize,
                           ![w].result = t[w].state,
                           ![w].pc = IF t[w].state \in {"STOP", "EXIT"} THEN "after" ELSE "enccode"]
    /\ UNCHANGED <<m, c>>

\* block_encoder.code() on at most Chunk units (no lock).  r = [ip, ret] with ret in {"OK", "END", "FULL"}
WEncCodeTo(w, r) ==
    /\ t[w].pc = "enccode"
    /\ t' = [t EXCEPT ![w].inPos = r.ip,
                      ![w].pc = CASE r.ret = "OK" -> "encsync" [] r.ret = "END" -> "finthr" [] r.ret = "FULL" -> "encwaitfin",
                      ![w].result = IF r.ret = "END" THEN "FINISH" ELSE @]
    /\ UNCHANGED <<m, c>>

EncStep(w) ==
    LET lim == Min(t[w].snapIn, t[w].inPos + Chunk)
        fin == t[w].snapState = "FINISH" /\ lim = t[w].snapIn
    IN [ip |-> lim, ret |-> IF t[w].incompr /\ lim > 0 THEN "FULL" ELSE IF fin THEN "END" ELSE "OK"]
WEncCode(w) == WEncCodeTo(w, EncStep(w))

\* incompressible fallback: thr.mutex: wait until the whole Block has arrived (state leaves RUN)
WEncWaitFin(w) ==
    /\ t[w].pc = "encwaitfin"
    /\ IF t[w].state = "RUN"
       THEN t' = [t EXCEPT ![w].pc = "park_fin"]
       ELSE t' = [t EXCEPT ![w].snapState = t[w].state, ![w].snapIn = t[w].inSize,
                           ![w].result = IF t[w].state \in {"STOP", "EXIT"} THEN t[w].state ELSE "FINISH",
                           ![w].inPos = IF t[w].state \in {"STOP", "EXIT"} THEN @ ELSE t[w].inSize,
                           ![w].pc = IF t[w].state \in {"STOP", "EXIT"} THEN "after" ELSE "finthr"]
    /\ UNCHANGED <<m, c>>

\* back in worker_start after worker_encode returned STOP or EXIT
WAfter(w) ==
    /\ t[w].pc = "after"
    /\ t' = [t EXCEPT ![w].pc = IF t[w].result = "EXIT" THEN "exited" ELSE "finthr"]
    /\ UNCHANGED <<m, c>>

\* thr.mutex: state := IDLE unless EXIT, signal
WFinThr(w) ==
    /\ t[w].pc = "finthr"
    /\ t' = [(IF t[w].state # "EXIT" THEN SigW([t EXCEPT ![w].state = "IDLE"], w) ELSE t) EXCEPT ![w].pc = "fincoder"]
    /\ UNCHANGED <<m, c>>

\* index in outq of the buffer of Block b (0 if it has been read already)
QIdx(b) == IF \E i \in 1..Len(c.outq) : c.outq[i].b = b THEN CHOOSE i \in 1..Len(c.outq) : c.outq[i].b = b ELSE 0

\* coder.mutex: finish the outbuf, move progress, return to the free stack, signal
WFinCoderTo(w, osz) ==
    /\ t[w].pc = "fincoder"
    /\ LET i == QIdx(t[w].blk)
           ok == t[w].result = "FINISH"
           q1 == IF ok /\ i # 0 THEN [c.outq EXCEPT ![i] = [@ EXCEPT !.fin = TRUE, !.usize = t[w].snapIn, !.osz = osz]]
                 ELSE c.outq
       IN c' = SigM([c EXCEPT !.outq = q1, !.free = <<w>> \o c.free,
                              !.progressIn = @ + (IF ok THEN t[w].snapIn ELSE 0)])
    /\ t' = [t EXCEPT ![w].progressIn = 0, ![w].pc = "top", ![w].assigned = FALSE]
    /\ UNCHANGED m

WFinCoder(w) == WFinCoderTo(w, t[w].snapIn + 1)

Worker(w) == WTop(w) \/ WWake(w) \/ (\E f \in (IF MayFail THEN BOOLEAN ELSE {FALSE}), inc \in BOOLEAN : WEncInit(w, f, inc))
             \/ WEncSync(w) \/ WEncCode(w) \/ WEncWaitFin(w) \/ WAfter(w) \/ WFinThr(w) \/ WFinCoder(w)

Main == Run \/ BlkRead \/ EncIn \/ GtPop \/ GtCreate \/ GtStart \/ Copy \/ Publish \/ BlkErr \/ Decide \/ Wait \/ WaitWake
        \/ WaitTimeout \/ StopStep \/ EndSignal \/ EndJoin \/ RStop \/ RWait \/ RWaitWake \/ RQuiesceWake
        \/ EncInFail \/ GtCreateFail \/ BlkReadFailAppend \/ TailFail

App == \/ \E a \in {"RUN", "FINISH"} \cup FlushActs, g \in Gives, s \in Spaces : Call(a, Min(g, Total - m.given), s)
       \/ AppEnd \/ (\E nbs \in BSChoices, nnw \in NWChoices : AppReinit(nbs, nnw)) \/ GetProgress \/ FiltersUpdate

Terminated == m.pc = "freed"
Next == Main \/ (\E w \in W : Worker(w)) \/ App \/ (Terminated /\ UNCHANGED vars)
Spec == Init /\ [][Next]_vars
=============================================================================
