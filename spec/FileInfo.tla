------------------------------ MODULE FileInfo ------------------------------
(* The backwards walk of lzma_file_info_decoder (src/liblzma/common/         *)
(* file_info.c) over an abstract multi-Stream .xz file.                      *)
(*                                                                           *)
(* The file is a sequence of Streams                                         *)
(*   [blocks, isize, pad, claimB, claimT]                                    *)
(* = total size of the Blocks, size of the Index field, Stream Padding after *)
(* the Stream, the Backward Size stored in the Stream Footer and the total   *)
(* size of the Blocks according to the Records of the Index.  A valid file   *)
(* has claimB = isize and claimT = blocks; other values model a damaged but  *)
(* CRC-consistent file.  Byte values matter in one place only, the scan for  *)
(* Stream Padding: padding bytes are zero, the last byte of a Stream Footer  *)
(* is not.                                                                   *)
(*                                                                           *)
(* Case(f, c) transcribes one `case' of the switch in file_info_decode()     *)
(* including its fall-throughs up to the next return/break; Run iterates it  *)
(* until the function returns.  c holds the fields of lzma_file_info_coder   *)
(* plus the in_pos/in_size of the current call (in_start is 0: lzma_code     *)
(* always passes the application's buffer from its beginning).               *)
EXTENDS Integers, Sequences, FiniteSets

CONSTANTS HS,        \* LZMA_STREAM_HEADER_SIZE (12)
          TempCap,   \* sizeof(coder->temp) (8192)
          BugPadding \* FALSE; TRUE = a deliberately wrong decoder (Stream Padding seen in earlier buffers is
                     \* forgotten) used to show that the contract of MCFileInfo is not vacuous

Min(a, b) == IF a < b THEN a ELSE b
StreamRec(blocks, isize, pad) == [blocks |-> blocks, isize |-> isize, pad |-> pad, claimB |-> isize, claimT |-> blocks]
SSize(s) == 2 * HS + s.blocks + s.isize
RECURSIVE Start(_, _)
Start(f, k) == IF k = 1 THEN 0 ELSE Start(f, k - 1) + SSize(f[k - 1]) + f[k - 1].pad     \* offset of the Stream Header
IndexStart(f, k) == Start(f, k) + HS + f[k].blocks
FooterStart(f, k) == IndexStart(f, k) + f[k].isize
BodyEnd(f, k) == FooterStart(f, k) + HS
PadEnd(f, k) == BodyEnd(f, k) + f[k].pad
FSize(f) == PadEnd(f, Len(f))
ValidFile(f) == \A k \in 1..Len(f) : f[k].claimB = f[k].isize /\ f[k].claimT = f[k].blocks

\* number of zero bytes immediately before position pos, at most n (get_padding_size on temp = file[pos-n, pos))
ZeroRun(f, pos, n) ==
    LET K == {k \in 1..Len(f) : BodyEnd(f, k) < pos /\ pos <= PadEnd(f, k)}
    IN  IF K = {} THEN 0 ELSE Min(n, pos - BodyEnd(f, CHOOSE k \in K : TRUE))
\* the Stream whose Stream Footer / Index / Stream Header starts at pos (0 = none: decoding garbage fails)
FooterAt(f, pos) == LET K == {k \in 1..Len(f) : FooterStart(f, k) = pos} IN IF K = {} THEN 0 ELSE CHOOSE k \in K : TRUE
IndexAt(f, pos)  == LET K == {k \in 1..Len(f) : IndexStart(f, k) = pos} IN IF K = {} THEN 0 ELSE CHOOSE k \in K : TRUE
HeaderAt(f, pos) == LET K == {k \in 1..Len(f) : Start(f, k) = pos} IN IF K = {} THEN 0 ELSE CHOOSE k \in K : TRUE

\* lzma_file_info_decoder_init()
C0 == [seq |-> "MAGIC", cur |-> 0, target |-> 0, tpos |-> 0, tsize |-> HS, pad |-> 0, rem |-> 0, bsz |-> 0, k |-> 0,
       iat |-> 0, comb |-> <<>>, inPos |-> 0, inSize |-> 0, seek |-> 0]

R(c, ret) == [c |-> c, ret |-> ret]

\* fill_temp(): copy input into temp[] until temp_pos = temp_size; .more = more input needed
FillTemp(c) == LET n == Min(c.inSize - c.inPos, c.tsize - c.tpos)
                   d == [c EXCEPT !.inPos = @ + n, !.tpos = @ + n, !.cur = @ + n]
               IN  [c |-> d, more |-> d.tpos < d.tsize]

\* seek_to_pos(): inside the current input buffer adjust in_pos, otherwise ask the application
SeekToPos(c, tp) ==
    LET posMin == c.cur - c.inPos
        posMax == c.cur + (c.inSize - c.inPos)
    IN  IF tp >= posMin /\ tp <= posMax
        THEN [c |-> [c EXCEPT !.inPos = @ + (tp - c.cur), !.cur = tp], ext |-> FALSE]
        ELSE [c |-> [c EXCEPT !.seek = tp, !.inPos = c.inSize, !.cur = tp], ext |-> TRUE]

\* reverse_seek(): fill temp[] with the up to TempCap bytes that end at file_target_pos (never the first Stream Header)
ReverseSeek(c) ==
    IF c.target < 2 * HS THEN R(c, "DATA_ERROR")
    ELSE LET ts == IF c.target - HS < TempCap THEN c.target - HS ELSE TempCap
             s == SeekToPos([c EXCEPT !.tpos = 0, !.tsize = ts], c.target - ts)
         IN  R(s.c, IF s.ext THEN "SEEK_NEEDED" ELSE "OK")

\* the tail of SEQ_INDEX_DECODE after the Index decoder returned LZMA_STREAM_END
AfterIndex(f, c) ==
    LET amount == f[c.k].claimT + HS                      \* lzma_index_total_size(this_index) + header
    IN  IF c.target < amount THEN R(c, "DATA_ERROR")
        ELSE LET t == c.target - amount
             IN  IF t = 0 THEN R([c EXCEPT !.target = 0, !.seq = "HCMP"], "CONT")
                 ELSE LET d == [c EXCEPT !.target = t + HS, !.seq = "HDEC"]
                      IN  IF c.tsize # 0 /\ c.tsize - c.bsz >= amount
                          THEN LET p == c.tsize - c.bsz - amount + HS
                               IN  R([d EXCEPT !.tpos = p, !.tsize = p], "CONT")
                          ELSE LET r == ReverseSeek(d) IN R(r.c, IF r.ret = "OK" THEN "CONT" ELSE r.ret)

Case(f, c) ==
    CASE c.seq = "MAGIC" ->
            IF FSize(f) < HS THEN R(c, "FORMAT_ERROR")
            ELSE LET ft == FillTemp(c) IN
                 IF ft.more THEN R(ft.c, "OK")
                 ELSE IF FSize(f) % 4 # 0 THEN R(ft.c, "DATA_ERROR")
                 ELSE R([ft.c EXCEPT !.target = FSize(f), !.seq = "PSEEK"], "CONT")
      [] c.seq = "PSEEK" ->
            LET r == ReverseSeek([c EXCEPT !.seq = "PDEC"]) IN R(r.c, IF r.ret = "OK" THEN "CONT" ELSE r.ret)
      [] c.seq = "PDEC" ->
            LET ft == FillTemp(c) IN
            IF ft.more THEN R(ft.c, "OK")
            ELSE LET d == ft.c
                     np == ZeroRun(f, d.target, d.tsize)
                     e == [d EXCEPT !.pad = IF BugPadding THEN np ELSE @ + np, !.target = @ - np]
                 IN  IF np = d.tsize THEN R([e EXCEPT !.seq = "PSEEK"], "CONT")
                     ELSE IF e.pad % 4 # 0 THEN R(e, "DATA_ERROR")
                     ELSE LET g == [e EXCEPT !.seq = "FOOTER", !.tsize = d.tsize - np, !.tpos = d.tsize - np]
                          IN  IF g.tsize < HS
                              THEN LET r == ReverseSeek(g) IN R(r.c, IF r.ret = "OK" THEN "CONT" ELSE r.ret)
                              ELSE R(g, "CONT")
      [] c.seq = "FOOTER" ->
            LET ft == FillTemp(c) IN
            IF ft.more THEN R(ft.c, "OK")
            ELSE LET d == [ft.c EXCEPT !.target = @ - HS, !.tsize = @ - HS]
                     k == FooterAt(f, d.target)
                 IN  IF k = 0 THEN R(d, "DATA_ERROR")                       \* not a Stream Footer
                     ELSE LET bs == f[k].claimB IN
                          IF d.target < bs + HS THEN R(d, "DATA_ERROR")
                          ELSE LET e == [d EXCEPT !.target = @ - bs, !.seq = "IDEC", !.bsz = bs, !.k = k, !.rem = bs,
                                                  !.iat = d.target - bs]
                               IN  IF e.tsize >= bs THEN R([e EXCEPT !.tpos = e.tsize - bs], "CONT")
                                   ELSE LET s == SeekToPos([e EXCEPT !.tpos = 0, !.tsize = 0], e.target)
                                        IN  R(s.c, IF s.ext THEN "SEEK_NEEDED" ELSE "CONT")
      [] c.seq = "IDEC" ->
            \* the Index decoder succeeds only on the real Index field of Stream k given exactly its bytes
            LET good == IndexAt(f, c.iat) = c.k /\ c.bsz = f[c.k].isize IN
            IF c.tsize # 0
            THEN IF good THEN AfterIndex(f, [c EXCEPT !.tpos = c.tsize, !.rem = 0]) ELSE R(c, "DATA_ERROR")
            ELSE LET n == Min(c.inSize - c.inPos, c.rem)
                     d == [c EXCEPT !.inPos = @ + n, !.rem = @ - n, !.cur = @ + n]
                 IN  IF n = 0 THEN R(d, "OK")
                     ELSE IF ~good THEN R(d, "DATA_ERROR")
                     ELSE IF d.rem > 0 THEN R(d, "OK")
                     ELSE AfterIndex(f, d)
      [] c.seq = "HDEC" ->
            LET ft == FillTemp(c) IN
            IF ft.more THEN R(ft.c, "OK")
            ELSE LET d == [ft.c EXCEPT !.target = @ - HS, !.tsize = @ - HS, !.tpos = ft.c.tsize - HS]
                 IN  IF HeaderAt(f, d.target) # c.k THEN R(d, "DATA_ERROR")   \* not a Stream Header / other flags
                     ELSE R([d EXCEPT !.seq = "HCMP"], "CONT")
      [] c.seq = "HCMP" ->
            \* stream_flags + stream_padding on this_index, then lzma_index_cat(this_index, combined_index)
            LET d == [c EXCEPT !.comb = <<[k |-> c.k, pad |-> c.pad]>> \o @, !.pad = 0]
            IN  IF d.target = 0 THEN R([d EXCEPT !.inPos = d.inSize, !.seq = "DONE"], "STREAM_END")
                ELSE R([d EXCEPT !.seq = IF d.tsize > 0 THEN "PDEC" ELSE "PSEEK"], "CONT")

\* one call of file_info_decode() with n bytes of input
RECURSIVE Run(_, _)
Run(f, c) == LET r == Case(f, c) IN IF r.ret = "CONT" THEN Run(f, r.c) ELSE r
\* (input past the end of the file is trimmed first)
Call(f, c, n) == Run(f, [c EXCEPT !.inPos = 0, !.inSize = Min(n, FSize(f) - c.cur)])
=============================================================================
