SPECIFICATION Spec
CONSTANTS Variant = "ok" BaseSet = "thorough"
ACTION_CONSTRAINT Emit
CHECK_DEADLOCK FALSE
