SPECIFICATION GSpec
CONSTANTS MaxIn = 1  MaxOps = 3  MidRunChunks = FALSE  TinyInput = FALSE  Bugs = {}  Profile = "all"
 Encs = {"stream", "mt", "raw", "block"}  Grants = {"big"}  Checks = {"crc"}  BSizes = {0, 1}
VIEW GView
ACTION_CONSTRAINT Emit
CHECK_DEADLOCK FALSE
