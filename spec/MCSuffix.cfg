SPECIFICATION Spec
CONSTANTS
 Alpha = {"a", ".", "-", "x", "z", "t", "l", "m", "r", "/"}
 SufAlpha = {"a", ".", "-", "x", "z", "t", "l", "m", "r", "/"}
 MaxLen = 5
 MaxSuf = 1
 ExtraCustoms = {}
INVARIANTS SuffixSetExact EmptySuffixFatal CompressOK DecompressOK
CHECK_DEADLOCK FALSE
