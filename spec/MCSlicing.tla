------------------------------ MODULE MCSlicing ------------------------------
(* (M) for C06: every slicing of every abstract input of a small family.     *)
(* Families (constant Family):                                               *)
(*  "xz"    container idioms: header buffers, byte-wise fields, symbols,     *)
(*          Check, Index, Footer, Stream Padding mod 4, a second Stream      *)
(*  "lzma1" .lzma / raw LZMA1 / MicroLZMA idioms: header bytes read only     *)
(*          with output space, unknown size + marker, known size without /   *)
(*          with marker (allow_eopm), marker too early, data past the size   *)
(*  "lzip"  header, symbols, marker, trailer buffer, second member           *)
(*  "bcj"   a short container behind simple_code() with unit 2 and 3         *)
(* Each family = valid inputs + every single-field error + every truncation  *)
(* length + trailing garbage.  Rederive = TRUE transcribes lzma_decode() of  *)
(* the tree (after 082e325), FALSE the released 5.8.1 (validity lost).       *)
EXTENDS Slicing

CONSTANTS Family, Rederive

RECURSIVE SumN(_, _)
SumN(F, i) == IF i > Len(F) THEN 0
              ELSE F[i].n + (IF F[i].k = "sym" /\ F[i].eopm THEN F[i].m ELSE 0) + SumN(F, i + 1)
TotalIn(F) == SumN(F, 1)

Mk(F, have, o) == [fields |-> F, have |-> have, opt |-> o]
Whole(F, o) == Mk(F, TotalIn(F), o)
Truncations(F, o) == {Mk(F, h, o) : h \in 0..(TotalIn(F) - 1)}
Garbage(F, o) == Mk(F, TotalIn(F) + 2, o)
Repl(F, i, f) == [F EXCEPT ![i] = f]
ONeed(f) == [f EXCEPT !.needOut = TRUE]

OptP == [Opt0 EXCEPT !.rederive = Rederive]

\* ------------------------------------------------------------------ xz
XzStream(pad) == <<FBuf(2, "OK"), FBuf(2, "OK"), FByte(1, 0, TRUE, "OK"), FSym(1, 1, "OK"), FSym(2, 2, "OK"),
                   FByte(2, 0, TRUE, "OK"), FBuf(1, "OK"), FByte(2, 0, TRUE, "OK"), FBuf(2, "OK"), FPad(pad)>>
XzV == XzStream(0)
XzErrors ==
    {Repl(XzV, 1, FBuf(2, "FORMAT_ERROR")), Repl(XzV, 2, FBuf(2, "OPTIONS_ERROR")),
     Repl(XzV, 3, FByte(1, 1, FALSE, "DATA_ERROR")), Repl(XzV, 4, FSym(1, 1, "DATA_ERROR")),
     Repl(XzV, 5, FSym(2, 2, "DATA_ERROR")), Repl(XzV, 6, FByte(2, 2, TRUE, "DATA_ERROR")),
     Repl(XzV, 6, FByte(2, 1, TRUE, "DATA_ERROR")), Repl(XzV, 7, FBuf(1, "DATA_ERROR")),
     Repl(XzV, 8, FByte(2, 2, TRUE, "DATA_ERROR")), Repl(XzV, 8, FByte(2, 1, FALSE, "DATA_ERROR")),
     Repl(XzV, 9, FBuf(2, "DATA_ERROR"))}
\* Stream Padding of 1..5 bytes at the end of the input / followed by a short second Stream / by garbage
Second == <<FBuf(2, "OK"), FSym(1, 1, "OK"), FBuf(1, "OK"), FPad(0)>>
XzPads == {Whole(XzStream(p), Opt0) : p \in 1..5}
          \cup {Whole(SubSeq(XzStream(p), 6, 10) \o Second, Opt0) : p \in {0, 3, 4}}
          \cup {Whole(SubSeq(XzStream(p), 8, 10) \o <<FBuf(2, "DATA_ERROR")>>, Opt0) : p \in {0, 2, 4}}
\* notification after the Stream Header (LZMA_TELL_*), also before a truncation point and in a second Stream
XzNote(code) == <<XzV[1], FNote(code)>> \o SubSeq(XzV, 2, 10)
XzNotes == {Whole(XzNote(c), Opt0) : c \in Notifs} \cup Truncations(XzNote("GET_CHECK"), Opt0)
           \cup {Whole(SubSeq(XzStream(4), 6, 10) \o <<Second[1], FNote("NO_CHECK")>> \o SubSeq(Second, 2, 4), Opt0)}
XzInputs == XzNotes \cup {Whole(XzV, Opt0)} \cup {Whole(F, Opt0) : F \in XzErrors} \cup Truncations(XzV, Opt0) \cup XzPads

\* ------------------------------------------------------------------ lzma1
Hdr(s) == <<ONeed(FByte(1, 0, TRUE, "OK")), ONeed(FSize(2, s))>>
HdrU == <<ONeed(FByte(1, 0, TRUE, "OK")), ONeed(FByte(2, 0, TRUE, "OK"))>>
Syms == <<FSym(2, 1, "OK"), FSym(1, 2, "OK")>>
L1UnknownEopm   == HdrU \o Syms \o <<FEopm(3, 1, TRUE)>>
L1KnownNoEopm   == Hdr(3) \o Syms \o <<FKend(1, TRUE)>>
L1KnownEopm     == Hdr(3) \o Syms \o <<FKend(0, FALSE), FEopm(3, 1, TRUE)>>
L1KnownEopm1    == Hdr(3) \o Syms \o <<FKend(1, FALSE), FEopm(2, 0, TRUE)>>
L1EopmEarly     == Hdr(4) \o Syms \o <<FEopm(3, 1, TRUE)>>
L1PastSize      == Hdr(2) \o <<FSym(2, 1, "OK"), FSym(1, 2, "OK")>>
L1ExtraSym      == Hdr(3) \o Syms \o <<FKend(0, FALSE), FSym(1, 1, "OK")>>
L1BadEnd        == HdrU \o Syms \o <<FEopm(3, 1, FALSE)>>
L1BadDist       == HdrU \o <<FSym(2, 1, "OK"), FSym(1, 2, "DATA_ERROR")>>
L1BadProps      == <<ONeed(FByte(1, 1, FALSE, "FORMAT_ERROR"))>> \o Syms
\* range decoder initialisation (rc_read_init): five bytes read one at a time, the first must be 0x00 and is
\* rejected without being consumed
RcInit(bad)     == FByte(3, bad, FALSE, "DATA_ERROR")
L1RcGood        == HdrU \o <<RcInit(0)>> \o Syms \o <<FEopm(3, 1, TRUE)>>
L1RcBad         == HdrU \o <<RcInit(1)>> \o Syms \o <<FEopm(3, 1, TRUE)>>
NoEopm == [OptP EXCEPT !.allowEopm = FALSE]
Lzma1Inputs ==
    {Whole(F, OptP) : F \in {L1UnknownEopm, L1KnownNoEopm, L1KnownEopm, L1KnownEopm1, L1EopmEarly, L1PastSize,
                            L1ExtraSym, L1BadEnd, L1BadDist, L1BadProps, L1RcGood, L1RcBad}}
    \cup {Whole(L1KnownEopm, NoEopm), Whole(L1KnownNoEopm, NoEopm), Garbage(L1KnownEopm, OptP), Garbage(L1KnownNoEopm, OptP)}
    \cup Truncations(L1KnownEopm, OptP) \cup Truncations(L1UnknownEopm, OptP) \cup Truncations(L1KnownNoEopm, OptP)

\* ------------------------------------------------------------------ lzip
LzMember(e) == <<FBuf(2, "OK"), FSym(1, 1, "OK"), FSym(2, 2, "OK"), FEopm(2, 1, TRUE), FBuf(3, e)>>
LzV == LzMember("OK")
LzipInputs == {Whole(LzV, Opt0), Whole(LzMember("DATA_ERROR"), Opt0), Whole(Repl(LzV, 1, FBuf(2, "FORMAT_ERROR")), Opt0),
               Whole(Repl(LzV, 4, FEopm(2, 1, FALSE)), Opt0), Whole(Repl(LzV, 3, FSym(2, 2, "DATA_ERROR")), Opt0),
               Whole(LzV \o LzV, Opt0), Garbage(LzV, Opt0)}
              \cup Truncations(LzV, Opt0)

\* ------------------------------------------------------------------ bcj
BcjV == <<FBuf(1, "OK"), FSym(1, 1, "OK"), FSym(1, 3, "OK"), FSym(2, 2, "OK"), FByte(1, 0, TRUE, "OK"), FBuf(1, "OK")>>
OptB(a) == [Opt0 EXCEPT !.bcj = a]
BcjInputs == UNION {{Whole(BcjV, OptB(a)), Whole(Repl(BcjV, 4, FSym(2, 2, "DATA_ERROR")), OptB(a)),
                     Whole(Repl(BcjV, 3, FSym(1, 3, "DATA_ERROR")), OptB(a)),
                     Whole(Repl(BcjV, 6, FBuf(1, "DATA_ERROR")), OptB(a))} \cup Truncations(BcjV, OptB(a)) : a \in {2, 3}}

MCInputs == CASE Family = "xz" -> XzInputs [] Family = "lzma1" -> Lzma1Inputs
              [] Family = "lzip" -> LzipInputs [] Family = "bcj" -> BcjInputs

\* history (obs/totalOut) is a function of the rest
MCView == <<inp, cs, fed, grant, phase, outAcc, done, seq, savedIn, allowBuf, totalIn, obs.kind, IF obs.kind = "call" THEN obs.ret ELSE "none">>
=============================================================================
