SPECIFICATION Spec
CONSTANTS Profile = "thorough" DevDepth = 2 FlagMode = "all" Variant = "ok"
INVARIANTS AcceptIffValid MeaningExact OutIsPrefix RetDocumented FormatErrorOnlyFirst TellsSound PosBounded NoStarveOnValid
CHECK_DEADLOCK FALSE
