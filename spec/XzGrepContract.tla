--------------------------- MODULE XzGrepContract ---------------------------
(* C20 - what xzgrep has to do, stated independently of how the script does it.          *)
(*                                                                                       *)
(* (a) Option contract: the script's ad-hoc scanner must understand the argument vector  *)
(*     the way getopt_long (GNU grep) does: RefScan is a declarative getopt with         *)
(*     permutation over grep's option table; the script's flags, the options it hands to *)
(*     grep (flattened) and the operand list must equal the reference parse.             *)
(* (b) Status contract: >= 2 iff some file could not be read/decoded or grep failed,     *)
(*     else 0 iff some file has a selected line, else 1; every operand is read exactly   *)
(*     once, in order (unless the decompressor was killed by a signal other than PIPE).  *)
(* (c) Label contract (per file, grep semantics): lines are prefixed with the given name *)
(*     iff the last of -h/-H says so, or, when neither is given, iff more than one file  *)
(*     is searched; -l / -L print exactly the names of files with / without a match.     *)
(*     The label separator on context lines must be grep's ("-", bare "--" separators).  *)
EXTENDS XzGrep

VARIABLE ref     \* ghost: the reference parse of argv (constant during a behaviour; cached for speed)

Item(o, has, a) == [o |-> o, has |-> has, a |-> a]

\* position of the first "=" (0 if none)
EqPos(s) == IF Has(s, "=", 1)
            THEN CHOOSE j \in 1..Len(s) : Ch(s, j) = "=" /\ \A q \in 1..(j - 1) : Ch(s, q) # "="
            ELSE 0

\* short options of grep that take an argument
RefArgShort == {"A", "B", "C", "D", "e", "f", "m", "X"}
\* long options of grep with a required argument that xzgrep documents as supported in the separate-word form
RefArgLong  == {"--regexp", "--file", "--max-count", "--label", "--binary-files"}

\* flatten one "-abc" word; nxt is the following word (if hasNext)
RECURSIVE Shorts(_, _, _, _)
Shorts(s, j, hasNext, nxt) ==
    IF j > Len(s) THEN [items |-> <<>>, used |-> 0, err |-> FALSE]
    ELSE LET c == Ch(s, j) IN
      IF c \in Digits THEN          \* -NUM is one option (context length)
         LET e == DigEnd(s, j)
             r == Shorts(s, e + 1, hasNext, nxt)
         IN [r EXCEPT !.items = <<Item(SubSeq(s, j, e), FALSE, "")>> \o @]
      ELSE IF c \in RefArgShort THEN
         IF j < Len(s) THEN [items |-> <<Item(c, TRUE, SubSeq(s, j + 1, Len(s)))>>, used |-> 0, err |-> FALSE]
         ELSE IF hasNext THEN [items |-> <<Item(c, TRUE, nxt)>>, used |-> 1, err |-> FALSE]
         ELSE [items |-> <<>>, used |-> 0, err |-> TRUE]
      ELSE LET r == Shorts(s, j + 1, hasNext, nxt)
           IN [r EXCEPT !.items = <<Item(c, FALSE, "")>> \o @]

LongItem(s) == LET p == EqPos(s) IN
               IF p > 0 THEN Item(SubSeq(s, 1, p - 1), TRUE, SubSeq(s, p + 1, Len(s))) ELSE Item(s, FALSE, "")

RECURSIVE RefScan(_, _, _)
RefScan(av, i, acc) ==
    IF i > Len(av) THEN acc
    ELSE LET s == av[i] IN
      IF s = "--" THEN [acc EXCEPT !.words = @ \o SubSeq(av, i + 1, Len(av))]
      ELSE IF Pre(s, "--") THEN
         IF EqPos(s) = 0 /\ s \in RefArgLong
         THEN IF i < Len(av) THEN RefScan(av, i + 2, [acc EXCEPT !.items = Append(@, Item(s, TRUE, av[i + 1]))])
              ELSE [acc EXCEPT !.err = TRUE]
         ELSE RefScan(av, i + 1, [acc EXCEPT !.items = Append(@, LongItem(s))])
      ELSE IF Len(s) >= 2 /\ Ch(s, 1) = "-" THEN
         LET r == Shorts(s, 2, i < Len(av), IF i < Len(av) THEN av[i + 1] ELSE "") IN
         IF r.err THEN [acc EXCEPT !.err = TRUE, !.items = @ \o r.items]
         ELSE RefScan(av, i + 1 + r.used, [acc EXCEPT !.items = @ \o r.items])
      ELSE RefScan(av, i + 1, [acc EXCEPT !.words = Append(@, s)])

RefOf(av) == RefScan(av, 1, [items |-> <<>>, words |-> <<>>, err |-> FALSE])
Ref == ref

\* long names may be abbreviated to any unambiguous prefix (getopt_long)
RefH(it)   == it.o = "H" \/ IsPrefixOf(it.o, "--with-filename", 4)
Refh(it)   == it.o = "h" \/ IsPrefixOf(it.o, "--no-filename", 6)
Refl(it)   == it.o \in {"l", "--files-with-matches"}
RefL(it)   == it.o \in {"L", "--files-without-match"}
RefPat(it) == it.o \in {"e", "f", "--regexp", "--file"}
RefSpecial(it) == \/ it.o \in {"V", "d", "r", "R", "z", "Z", "--recursive", "--null", "--directories",
                               "--dereference-recursive", "--null-data"}
                  \/ IsPrefixOf(it.o, "--help", 3) \/ IsPrefixOf(it.o, "--version", 3)
                  \/ Pre(it.o, "--include") \/ Pre(it.o, "--exclude")
RefCtx(it) == it.o \in {"A", "B", "C", "--after-context", "--before-context", "--context"} \/ Ch(it.o, 1) \in Digits
Any(items, P(_)) == \E j \in 1..Len(items) : P(items[j])
Sel(items, P(_)) == SelectSeq(items, P)
NotConsumed(it) == ~(RefH(it) \/ Refl(it) \/ RefL(it))

\* what the script handed to grep, flattened the same way
FlatOne(g) == IF Pre(g.o, "--")
              THEN (IF g.has THEN Item(g.o, TRUE, g.a) ELSE LongItem(g.o))
              ELSE Item("?", FALSE, "")    \* placeholder, short words are handled by Shorts below
RECURSIVE Flat(_)
Flat(gs) == IF gs = <<>> THEN <<>>
            ELSE LET g == Head(gs) IN
                 (IF Pre(g.o, "--") THEN <<FlatOne(g)>> ELSE Shorts(g.o, 2, g.has, g.a).items) \o Flat(Tail(gs))

\* ---- (a) option contract
ScanContract ==
    pc = "post" =>
      LET r == Ref IN
      /\ ~r.err /\ ~Any(r.items, RefSpecial)
      /\ Flat(gopts) = Sel(r.items, NotConsumed)
      /\ operands \o args = r.words
      /\ fl.l = Any(r.items, Refl) /\ fl.L = Any(r.items, RefL)
      /\ LET hh == Sel(r.items, LAMBDA it : RefH(it) \/ Refh(it)) IN     \* the last of -h/-H is remembered
         /\ fl.H = (hh # <<>> /\ RefH(hh[Len(hh)]))
         /\ fl.h = (hh # <<>> /\ Refh(hh[Len(hh)]))
      /\ havePat = Any(r.items, RefPat)
EarlyExitContract ==
    (pc = "done" /\ outcome \in {"help", "version", "unsupported", "missingarg"}) =>
      (Ref.err \/ Any(Ref.items, RefSpecial))
NoPatternContract ==
    (pc = "done" /\ outcome = "nopattern") => (Ref.words = <<>> /\ ~Any(Ref.items, RefPat))

\* ---- (b) status contract
Bad(h)    == h.st.xs \in {"fail", "kill"} \/ h.st.gr >= 2
Killed    == Any(hist, LAMBDA h : h.st.xs = "kill")
StatusContract ==
    (pc = "done" /\ outcome \in {"ran", "killed"}) =>
      /\ Any(hist, Bad) => exit >= 2
      /\ ~Any(hist, Bad) => exit = (IF Any(hist, LAMBDA h : h.st.gr = 0) THEN 0 ELSE 1)
      /\ Killed <=> outcome = "killed"
ReadContract ==
    /\ Len(hist) = Len(out) /\ Len(hist) <= Len(files)
    /\ \A j \in 1..Len(hist) : hist[j].f = files[j] /\ out[j].f = files[j]
    /\ (pc = "done" /\ outcome = "ran") => Len(hist) = Len(files)
    /\ pc = "files" => (files # <<>> /\ files = (LET w == Ref.words
                                                     fs == IF Any(Ref.items, RefPat) \/ w = <<>> THEN w ELSE Tail(w)
                                                 IN IF fs = <<>> THEN <<"-">> ELSE fs))

\* ---- (c) label contract
HhItems   == Sel(Ref.items, LAMBDA it : RefH(it) \/ Refh(it))
WantLabel == IF HhItems # <<>> THEN RefH(HhItems[Len(HhItems)]) ELSE Len(files) > 1
HhConflictLastIsh == Any(Ref.items, RefH) /\ HhItems # <<>> /\ Refh(HhItems[Len(HhItems)])
ListMode  == Any(Ref.items, Refl) \/ Any(Ref.items, RefL)

LabelOf(o) == o.how \in {"label", "sed"}
NameContract ==      \* -l wins over -L as in grep? (grep: the last one wins; we only demand it when one is given)
    \A j \in 1..Len(out) :
      /\ (Any(Ref.items, Refl) /\ ~Any(Ref.items, RefL)) =>
            (out[j].how \in {"name", "none"} /\ (~Bad(hist[j]) => (out[j].how = "name" <=> hist[j].st.gr = 0)))
      /\ (Any(Ref.items, RefL) /\ ~Any(Ref.items, Refl)) =>
            (out[j].how \in {"name", "none"} /\ (~Bad(hist[j]) => (out[j].how = "name" <=> hist[j].st.gr = 1)))
      /\ ~ListMode => out[j].how \in {"plain", "label", "sed"}
LabelContract ==
    ~ListMode => \A j \in 1..Len(out) : LabelOf(out[j]) <=> WantLabel
\* strict version of the separator clause (the sed fallback is known to deviate: see checks/c20.py)
SedContextStrict ==
    \A j \in 1..Len(out) : (out[j].how = "sed") => ~Any(Flat(gopts), RefCtx)

\* divergence tags of a finished run (used by the plan generator)
Divergences ==
    (IF ~ListMode /\ \E j \in 1..Len(out) : LabelOf(out[j]) # WantLabel THEN {"H-then-h"} ELSE {})
    \cup (IF \E j \in 1..Len(out) : out[j].how = "sed" /\ Any(Flat(gopts), RefCtx) THEN {"sed-context"} ELSE {})

\* which matcher grep ends up with: the last of -E/-F/-G/-P wins, default by program name
MatcherItems == Sel(Flat(gopts), LAMBDA it : it.o \in {"E", "F", "G", "--extended-regexp", "--fixed-strings", "--basic-regexp"})
Matcher == IF MatcherItems # <<>>
           THEN (LET m == MatcherItems[Len(MatcherItems)].o IN
                 IF m \in {"E", "--extended-regexp"} THEN "E" ELSE IF m \in {"F", "--fixed-strings"} THEN "F" ELSE "G")
           ELSE IF prog = "xzegrep" THEN "E" ELSE IF prog = "xzfgrep" THEN "F" ELSE "G"

TypeOK ==
    /\ pc \in {"scan", "post", "files", "done"}
    /\ res \in {0, 1, 2} /\ k \in 1..(Len(files) + 1)
    /\ outcome \in {"none", "ran", "help", "version", "unsupported", "missingarg", "nopattern", "killed"}
    /\ (pc = "done") = (outcome # "none")
=============================================================================
