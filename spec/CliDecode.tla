------------------------------ MODULE CliDecode ------------------------------
(* What the decompressing tools deliver, as a function of what liblzma       *)
(* reports for the input.  Transcribes                                       *)
(*   src/xz/coder.c   coder_init() (format detection, flags, pass-through),  *)
(*                    coder_normal() (write what was decoded even on error,  *)
(*                    LZMA_UNSUPPORTED_CHECK is a warning, trailing input    *)
(*                    after LZMA_STREAM_END), coder_run()/io_close() (target *)
(*                    unlinked unless success, source removed on success)    *)
(*   src/xzdec/xzdec.c uncompress() for xzdec and lzmadec                    *)
(* The library's behaviour on the input is summarised by `lib`:              *)
(*   det      "xz" | "lzma" | "lzip" | "none": result of xz's own format     *)
(*            sniffing (is_format_xz/lzma/lzip under the given --format)     *)
(*   final    "END" (LZMA_STREAM_END) | "ERR" (any error code) of the        *)
(*            decoder the tool uses, with the flags the tool uses            *)
(*   unsup    number of LZMA_UNSUPPORTED_CHECK returns on the way            *)
(*   trailing input left after LZMA_STREAM_END                               *)
(* The decoded bytes themselves stay symbolic: "decoded" = every byte the    *)
(* library produced before its final verdict.                                *)
EXTENDS Naturals, Sequences, ExitStatus

Tools == {"xz_dc", "xz_d", "xz_t", "xzdec", "lzmadec"}

RECURSIVE Rep(_, _)
Rep(x, n) == IF n = 0 THEN <<>> ELSE <<x>> \o Rep(x, n - 1)

(* coder_init(): allow_trailing_input *)
AllowTrailing(opt, lib) == opt.singleStream \/ lib.det = "lzip"

Result(out, file, removed, msgs, opt) ==
    [stdout |-> out, file |-> file, srcRemoved |-> removed,
     exit |-> ExitCode(msgs, opt.nowarn), stderr |-> StderrUsed(msgs, opt.quiet)]

Xz(tool, opt, lib) ==
    IF lib.det = "none"
    THEN IF tool = "xz_dc" /\ opt.force
         THEN Result("input", FALSE, FALSE, <<>>, opt)                  \* CODER_INIT_PASSTHRU
         ELSE Result("none", FALSE, FALSE, <<"error">>, opt)            \* File format not recognized
    ELSE LET warns == Rep("warn", lib.unsup)
             ok == lib.final = "END" /\ (lib.trailing => AllowTrailing(opt, lib))
             msgs == IF ok THEN warns ELSE Append(warns, "error")
         IN Result(IF tool = "xz_dc" THEN "decoded" ELSE "none",
                   tool = "xz_d" /\ ok,
                   tool = "xz_d" /\ ok /\ ~opt.singleStream,        \* args.c: --single-stream implies --keep
                   msgs, opt)

(* xzdec: lzma_stream_decoder(LZMA_CONCATENATED), no LZMA_TELL_* flags: an   *)
(* unsupported check is silently accepted; exit status 0 or 1                *)
Xzdec(opt, lib) ==
    [stdout |-> "decoded", file |-> FALSE, srcRemoved |-> FALSE,
     exit |-> IF lib.final = "END" THEN 0 ELSE 1, stderr |-> lib.final # "END"]
(* lzmadec: lzma_alone_decoder(), trailing garbage is an error               *)
Lzmadec(opt, lib) ==
    LET ok == lib.final = "END" /\ ~lib.trailing IN
    [stdout |-> "decoded", file |-> FALSE, srcRemoved |-> FALSE,
     exit |-> IF ok THEN 0 ELSE 1, stderr |-> ~ok]

Run(tool, opt, lib) ==
    CASE tool \in {"xz_dc", "xz_d", "xz_t"} -> Xz(tool, opt, lib)
      [] tool = "xzdec" -> Xzdec(opt, lib)
      [] tool = "lzmadec" -> Lzmadec(opt, lib)
=============================================================================
