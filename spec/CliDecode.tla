------------------------------ MODULE CliDecode ------------------------------
(* What the decompressing tools deliver, as a function of what liblzma       *)
(* reports for the input.  Transcribes                                       *)
(*   src/xz/coder.c   coder_init() (format detection, flags, pass-through,   *)
(*                    the loop that turns LZMA_UNSUPPORTED_CHECK returned    *)
(*                    while the first headers are decoded into warnings),    *)
(*                    coder_normal() (LZMA_UNSUPPORTED_CHECK from a later    *)
(*                    Stream is a warning and coding continues; what was     *)
(*                    decoded is written even on error; after                *)
(*                    LZMA_STREAM_END of a .lzma / raw stream: input left in *)
(*                    the buffer, or else a one-byte look-ahead read, is     *)
(*                    trailing garbage), coder_run()/io_close()/io_open_dest *)
(*                    (stdin => stdout; target unlinked unless success;      *)
(*                    source removed on success)                             *)
(*   src/xzdec/xzdec.c uncompress() for xzdec and lzmadec                    *)
(* The library's behaviour on the input is summarised by `lib`:              *)
(*   det        "xz" | "lzma" | "lzip" | "raw" | "none": xz's format         *)
(*              sniffing (is_format_* under the given --format)              *)
(*   final      "END" (LZMA_STREAM_END) | "ERR" (any error code) of the      *)
(*              decoder the tool uses, with the flags the tool uses          *)
(*   unsupFirst number of LZMA_UNSUPPORTED_CHECK returns before any output   *)
(*              (first Stream Header; seen by coder_init)                    *)
(*   unsupLater number of such returns later (Streams after the first; seen  *)
(*              by coder_normal)                                             *)
(*   trailing   input left after LZMA_STREAM_END                             *)
(*   atBoundary the decoder stopped consuming exactly at a multiple of the   *)
(*              8192-byte input buffer (so strm.avail_in = 0 at that point)  *)
(* src: how the input is given: "file" (named), "stdin_file" (< FILE),       *)
(* "stdin_pipe".  The decoded bytes stay symbolic: "decoded" = every byte    *)
(* the library produced before its final verdict.                            *)
EXTENDS Naturals, Sequences, ExitStatus

Tools == {"xz_dc", "xz_d", "xz_t", "xzdec", "lzmadec"}
Srcs == {"file", "stdin_file", "stdin_pipe"}

RECURSIVE Rep(_, _)
Rep(x, n) == IF n = 0 THEN <<>> ELSE <<x>> \o Rep(x, n - 1)

(* coder_init(): allow_trailing_input *)
AllowTrailing(opt, lib) == opt.singleStream \/ lib.det = "lzip"

(* coder_normal() after LZMA_STREAM_END, when trailing input is not allowed: *)
(*   if (strm.avail_in == 0 && !src_eof) strm.avail_in = io_read(pair, 1);   *)
(*   if (strm.avail_in == 0) success; else LZMA_DATA_ERROR                   *)
AvailInAtEnd(lib) == lib.trailing /\ ~lib.atBoundary       \* rest of the current buffer
LookAhead(lib) == IF AvailInAtEnd(lib) THEN FALSE           \* no read needed
                  ELSE lib.trailing                          \* the extra read returns a byte iff there is one
TrailingSeen(lib) == AvailInAtEnd(lib) \/ LookAhead(lib)

Result(out, file, removed, msgs, opt) ==
    [stdout |-> out, file |-> file, srcRemoved |-> removed,
     exit |-> ExitCode(msgs, opt.nowarn), stderr |-> StderrUsed(msgs, opt.quiet)]

Xz(tool, opt, lib, src) ==
    LET toStdout == tool = "xz_dc" \/ (tool = "xz_d" /\ src # "file")    \* io_open_dest_real(): stdin => stdout
    IN
    IF lib.det = "none"
    THEN IF tool = "xz_dc" /\ opt.force                                  \* opt_stdout && opt_force
         THEN Result("input", FALSE, FALSE, <<>>, opt)                   \* CODER_INIT_PASSTHRU
         ELSE Result("none", FALSE, FALSE, <<"error">>, opt)             \* File format not recognized
    ELSE LET initWarns  == Rep("warn", lib.unsupFirst)                   \* coder_init(): while (... == LZMA_UNSUPPORTED_CHECK)
             laterWarns == Rep("warn", lib.unsupLater)                   \* coder_normal(): stop == false
             ok == lib.final = "END" /\ (AllowTrailing(opt, lib) \/ ~TrailingSeen(lib))
             msgs == IF ok THEN initWarns \o laterWarns ELSE Append(initWarns \o laterWarns, "error")
             file == tool = "xz_d" /\ src = "file" /\ ok
         IN Result(IF toStdout THEN "decoded" ELSE "none",
                   file,
                   file /\ ~opt.singleStream,                            \* args.c: --single-stream implies --keep
                   msgs, opt)

(* xzdec: lzma_stream_decoder(LZMA_CONCATENATED), no LZMA_TELL_* flags: an   *)
(* unsupported check is silently accepted; exit status 0 or 1                *)
Xzdec(opt, lib) ==
    [stdout |-> "decoded", file |-> FALSE, srcRemoved |-> FALSE,
     exit |-> IF lib.final = "END" THEN 0 ELSE 1, stderr |-> lib.final # "END"]
(* lzmadec: lzma_alone_decoder(); trailing garbage:                          *)
(*   strm->avail_in != 0 || fread(in_buf, 1, 1, file) != 0 || !feof(file)    *)
Lzmadec(opt, lib) ==
    LET ok == lib.final = "END" /\ ~TrailingSeen(lib) IN
    [stdout |-> "decoded", file |-> FALSE, srcRemoved |-> FALSE,
     exit |-> IF ok THEN 0 ELSE 1, stderr |-> ~ok]

Run(tool, opt, lib, src) ==
    CASE tool \in {"xz_dc", "xz_d", "xz_t"} -> Xz(tool, opt, lib, src)
      [] tool = "xzdec" -> Xzdec(opt, lib)
      [] tool = "lzmadec" -> Lzmadec(opt, lib)
=============================================================================
