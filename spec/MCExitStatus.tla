---------------------------- MODULE MCExitStatus -----------------------------
(* All message sequences of length <= MaxMsgs: the running status of the     *)
(* transcription (one SetExitStatus per message) against ExitContract.       *)
EXTENDS ExitStatus, TLC
CONSTANT MaxMsgs
VARIABLES msgs, es, nowarn, quiet
vars == <<msgs, es, nowarn, quiet>>
Init == msgs = <<>> /\ es = E_SUCCESS /\ nowarn \in BOOLEAN /\ quiet \in 0..2
Next == /\ Len(msgs) < MaxMsgs
        /\ \E m \in {"warn", "error"} : msgs' = Append(msgs, m) /\ es' = SetExitStatus(es, MsgStatus(m))
        /\ UNCHANGED <<nowarn, quiet>>
Spec == Init /\ [][Next]_vars
RunningIsFold == es = Fold(E_SUCCESS, msgs)
Contract == ExitContract(msgs, nowarn) /\ FinalStatus(es, nowarn) = ExitCode(msgs, nowarn)
QuietOnlyHides == /\ (quiet >= 2 => ~StderrUsed(msgs, quiet))
                  /\ (quiet = 1 => (StderrUsed(msgs, quiet) <=> Has(msgs, "error")))
                  /\ (quiet = 0 => (StderrUsed(msgs, quiet) <=> msgs # <<>>))
ErrorSticky == [][es = E_ERROR => es' = E_ERROR]_vars
=============================================================================
