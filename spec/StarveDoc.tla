------------------------------ MODULE StarveDoc ------------------------------
(* C04, spec-decidable clause 1: the status codes each decoding / parsing     *)
(* entry point may return, transcribed from the API headers                   *)
(* (src/liblzma/api/lzma/{base,container,filter,block,index,stream_flags,vli}.h). *)
(* The internal codes LZMA_TIMED_OUT (101) and LZMA_INDEX_DETECTED (102) of   *)
(* common.h are in no set: they must never reach a caller.                    *)
EXTENDS Naturals

Common == {"OK", "STREAM_END", "MEM_ERROR", "DATA_ERROR", "BUF_ERROR", "PROG_ERROR"}
Checks == {"NO_CHECK", "UNSUPPORTED_CHECK", "GET_CHECK"}

Documented(entry) ==
    CASE entry \in {"stream_decoder", "stream_decoder_mt", "auto_decoder"} ->
            Common \cup Checks \cup {"MEMLIMIT_ERROR", "FORMAT_ERROR", "OPTIONS_ERROR"}
      [] entry = "alone_decoder" -> Common \cup {"MEMLIMIT_ERROR", "FORMAT_ERROR", "OPTIONS_ERROR"}
      [] entry = "lzip_decoder" -> Common \cup {"GET_CHECK", "MEMLIMIT_ERROR", "FORMAT_ERROR", "OPTIONS_ERROR"}
      [] entry \in {"microlzma_decoder", "raw_decoder", "block_decoder"} -> Common \cup {"OPTIONS_ERROR"}
      [] entry = "index_decoder" -> Common \cup {"MEMLIMIT_ERROR"}
      [] entry = "file_info_decoder" -> Common \cup {"MEMLIMIT_ERROR", "FORMAT_ERROR", "OPTIONS_ERROR", "SEEK_NEEDED"}
      \* encoders (C06 traces use the same trace specification)
      [] entry \in {"stream_encoder", "easy_encoder", "stream_encoder_mt", "block_encoder", "raw_encoder",
                    "alone_encoder", "index_encoder", "microlzma_encoder"} -> Common \cup {"OPTIONS_ERROR"}
      \* stateless parsers
      [] entry = "block_header_decode" -> {"OK", "OPTIONS_ERROR", "DATA_ERROR", "MEM_ERROR", "PROG_ERROR"}
      [] entry \in {"stream_header_decode", "stream_footer_decode"} -> {"OK", "FORMAT_ERROR", "OPTIONS_ERROR", "DATA_ERROR"}
      [] entry = "filter_flags_decode" -> {"OK", "OPTIONS_ERROR", "DATA_ERROR", "MEM_ERROR", "PROG_ERROR"}
      [] entry = "properties_decode" -> {"OK", "OPTIONS_ERROR", "MEM_ERROR", "PROG_ERROR"}
      [] entry = "index_buffer_decode" -> {"OK", "MEM_ERROR", "MEMLIMIT_ERROR", "DATA_ERROR", "PROG_ERROR"}
      [] entry = "vli_decode" -> {"OK", "STREAM_END", "DATA_ERROR", "BUF_ERROR", "PROG_ERROR"}
      [] entry = "vli_decode_single" -> {"OK", "DATA_ERROR", "PROG_ERROR"}
      \* lzma_str_to_filters() returns NULL or a message; the driver logs "OK" / "MSG" and checks *error_pos
      [] entry = "str_to_filters" -> {"OK", "MSG"}
      [] entry = "stream_buffer_decode" ->
            {"OK", "FORMAT_ERROR", "OPTIONS_ERROR", "DATA_ERROR", "NO_CHECK", "UNSUPPORTED_CHECK", "MEM_ERROR",
             "MEMLIMIT_ERROR", "BUF_ERROR", "PROG_ERROR"}

\* coders whose next.code may return LZMA_TIMED_OUT to lzma_code() (converted to LZMA_OK there)
MayTimeOut(entry) == entry \in {"stream_decoder_mt", "stream_encoder_mt"}

\* A caller that offers no new input and no output space is told LZMA_BUF_ERROR (or a terminal code) after at most
\* this many calls (single-threaded: consume what is pending, LZMA_OK without progress, LZMA_BUF_ERROR).
StarveBound(entry) == IF MayTimeOut(entry) THEN 8 ELSE 4
=============================================================================
