--------------------------- MODULE MemLimitContract --------------------------
(* Property C09 as predicates over the decoder states of MemLimit.           *)
EXTENDS MemLimit

\* (a) a limited decoder never holds more than its limit plus the fixed allowance
StWithinLimit(d) == StLive(d) - Slack <= Max(d.limit, BASE)      \* (written so that limit = Unlimited cannot overflow)

\* (b) stopped with LZMA_MEMLIMIT_ERROR: lzma_memusage() is the amount needed (MEMLIMIT_ERROR itself is
\*     returned only when that exceeds the limit: StErrorJustified, an action-level statement);
\*     raising the limit to exactly that amount is accepted and decoding then proceeds;
\*     one byte less is rejected, or accepted and decoding stops again
StRestartable(d, bug) ==
    d.phase = "blocked" =>
        /\ d.usage = d.need
        /\ LET r == StSet(d, d.usage, bug) IN r[1] = "OK" /\ StReach(r[2], d.need, 0, bug)[1] = "OK"
        /\ d.usage > 1 =>
              LET r == StSet(d, d.usage - 1, bug)
              IN r[1] = "MEMLIMIT_ERROR" \/ StReach(r[2], d.need, 0, bug)[1] = "MEMLIMIT_ERROR"

StErrorJustified(d, e, a, bug) == LET r == StReach(d, e, a, bug) IN (r[1] = "MEMLIMIT_ERROR") <=> (e > d.limit)

\* lzma_memlimit_set never installs a limit below what lzma_memusage() reports
StSetSound(d, new, bug) ==
    LET r == StSet(d, new, bug) IN
    /\ r[1] = "OK" => r[2].limit >= d.usage /\ r[2].limit = Max(1, new)
    /\ r[1] # "OK" => r[2] = d

\* (d) threaded decoder
MtThreadedWithinT(m) == m.mode = "threaded" => MtReal(m) <= m.T
MtWithinStop(m)      == MtReal(m) <= m.S
MtCountersSound(m)   == m.direct + m.cInUse + m.cCached + OutAlloc(m) >= MtReal(m)
\* (b) for the threaded decoder: the reported usage is at least what the refused Block needs
MtNeedReported(m, bug) == m.mode = "blocked" => MtUsage(m, bug) >= m.need
=============================================================================
