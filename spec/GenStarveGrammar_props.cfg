SPECIFICATION Spec
CONSTANTS Which = "props" MaxTokens = 2
CONSTRAINT Emit
CHECK_DEADLOCK FALSE
