----------------------------- MODULE MCFileInfo -----------------------------
(* C13, file-info half: an application that reads the file in pieces of a    *)
(* chosen size (fixed per run, or freely mixed), honours every               *)
(* LZMA_SEEK_NEEDED exactly and otherwise reads sequentially, decodes every  *)
(* file of the bounded family.                                               *)
EXTENDS FileInfo, TLC

CONSTANTS BlockSizes, IndexSizes, PadSizes, MaxStreams, ReadSizes, Damage
VARIABLES file, c, ret, appPos, rs
vars == <<file, c, ret, appPos, rs>>

Streams == {StreamRec(b, i, p) : b \in BlockSizes, i \in IndexSizes, p \in PadSizes}
RECURSIVE FilesOfLen(_)
FilesOfLen(n) == IF n = 0 THEN {<<>>} ELSE {Append(f, s) : f \in FilesOfLen(n - 1), s \in Streams}
ValidFiles == UNION {FilesOfLen(n) : n \in 1..MaxStreams}
\* CRC-consistent damage of one Stream: a wrong Backward Size or a wrong total size in the Records
Damaged(f) == UNION {{[f EXCEPT ![k].claimB = b] : b \in {4, f[k].isize + 4, f[k].isize + 40} \cup
                                                          (IF f[k].isize > 8 THEN {f[k].isize - 4} ELSE {})}
                     \cup {[f EXCEPT ![k].claimT = t] : t \in {f[k].blocks + 4, f[k].blocks + 40} \cup
                                                          (IF f[k].blocks > 0 THEN {f[k].blocks - 4} ELSE {})}
                     : k \in 1..Len(f)}
Files == IF Damage THEN UNION {Damaged(f) : f \in ValidFiles} ELSE ValidFiles

Final == {"STREAM_END", "DATA_ERROR", "FORMAT_ERROR", "BUF_ERROR"}
Init == file \in Files /\ rs \in ReadSizes \cup {0} /\ c = C0 /\ ret = "none" /\ appPos = 0
\* rs = 0: any size at every call; a size larger than the file: the whole rest of the file
Sizes == IF rs = 0 THEN ReadSizes ELSE {rs}
AppCall == /\ ret \notin Final
           /\ \E n \in Sizes :
                LET m == Min(n, FSize(file) - appPos)
                    r == Call(file, c, m)
                IN  IF m = 0 THEN c' = c /\ ret' = "BUF_ERROR" /\ appPos' = appPos     \* nothing left to give
                    ELSE /\ c' = r.c /\ ret' = r.ret
                         /\ appPos' = IF r.ret = "SEEK_NEEDED" THEN r.c.seek ELSE appPos + r.c.inPos
           /\ UNCHANGED <<file, rs>>
Spec == Init /\ [][AppCall]_vars /\ WF_vars(AppCall)

-----------------------------------------------------------------------------
TypeOK == /\ c.tpos >= 0 /\ c.tsize <= TempCap                          \* the temp[] window
          /\ ret \notin {"DATA_ERROR", "FORMAT_ERROR"} => c.tpos <= c.tsize  \* (an error return may leave temp_pos stale)
          /\ c.cur >= 0 /\ c.cur <= FSize(file) /\ c.target >= 0 /\ c.target <= FSize(file)
          /\ c.inPos >= 0 /\ c.inPos <= c.inSize
\* never a seek beyond the file; the decoder's idea of the position is the application's
SeekInFile == ret = "SEEK_NEEDED" => c.seek >= 0 /\ c.seek <= FSize(file)
PosTruth == ret \in {"OK", "SEEK_NEEDED"} => c.cur = appPos
\* LZMA_OK means "give me more": all input was used
OkConsumesAll == ret = "OK" => c.inPos = c.inSize
\* a valid file is decoded without error, without asking for data at the end of the file, and the result is the
\* concatenation of the per-Stream indexes in file order, each with the Stream Padding that follows it
Expected(f) == [k \in 1..Len(f) |-> [k |-> k, pad |-> f[k].pad]]
ValidDecodes == ValidFile(file) =>
                  /\ ret \notin {"DATA_ERROR", "FORMAT_ERROR", "BUF_ERROR"}
                  /\ ret \in {"OK", "SEEK_NEEDED"} => appPos < FSize(file)
                  /\ ret = "STREAM_END" => c.comb = Expected(file)
\* whatever is accepted has collected each Stream at most once, in file order
CombOrdered == \A a, b \in 1..Len(c.comb) : a < b => c.comb[a].k < c.comb[b].k
Terminates == <>(ret \in Final)
=============================================================================
