-------------------------- MODULE GenXzStreamEnc --------------------------
(* (G) of C12: application histories with the model's predictions.  Every   *)
(* completion of an application operation (lzma_code loop finished, or       *)
(* lzma_filters_update returned) reachable in the model graph is printed     *)
(* once, together with one history reaching it (path is hidden by the VIEW,  *)
(* so breadth-first search keeps the shortest history per model state).      *)
(* Predictions per step: return code, bytes accepted (units), Blocks closed. *)
(* MidRunChunks = FALSE here: LZMA2 chunks end only when flushing, which is  *)
(* what the real encoder does for the input sizes the driver uses, and makes *)
(* every prediction a function of the history.                               *)
EXTENDS XzStreamEnc, TLC, Json

CONSTANTS Encs, Grants, Checks, BSizes,
          Profile    \* "all": every operation at every point (short histories);
                     \* "stream": a long-running application that writes small pieces and flushes
                     \* (like xz --flush-timeout): RUN / SYNC_FLUSH with 0..MaxIn units, now and then a FULL_FLUSH
                     \* or new lc/lp/pb, never FINISH (the driver finishes); only the complete history is printed
                     \* "mid": as "all", and lzma_filters_update() also between the lzma_code() calls of an
                     \* unfinished operation (output granted byte by byte parks the encoder inside every format
                     \* element); only histories with such a call are printed
VARIABLES path, ntok     \* ntok: format elements completed so far (history)

C0(pre, lz) == Chain(pre, lz, "p0")
InitChains(e) == IF e = "raw"
                 THEN {C0("none", "lzma2"), C0("delta", "lzma2"), C0("x86", "lzma2"), C0("none", "lzma1"), C0("delta", "lzma1")}
                 ELSE {C0("none", "lzma2"), C0("delta", "lzma2"), C0("x86", "lzma2")}
GTargets == {t \in ChainsAll : /\ t.lz = cfg.chain0.lz
                               /\ t.pre \in {cfg.chain0.pre, IF cfg.chain0.pre = "none" THEN "delta" ELSE "none"}}
             \* ... or to a chain that is refused only when its filters are initialised (not with the threaded
             \* encoder: there the worker thread finds out, see C08)
             \cup (IF cfg.enc = "mt" THEN {} ELSE {Chain("armbad", cfg.chain0.lz, "p0")})

GInit == /\ \E e \in Encs, g \in Grants, k \in Checks :
              \E c \in {x \in InitChains(e) : Profile = "all" \/ (x.pre \in {"none", "delta"} /\ x.lz = "lzma2")}, bs \in (IF e = "mt" THEN BSizes ELSE {0}) :
                  InitWith(InitCfg(e, c, k, g, bs))
         /\ path = <<>> /\ ntok = 0

StreamOps == {<<a, n>> : a \in {"RUN", "SYNC_FLUSH"}, n \in 0..MaxIn} \cup {<<"FULL_FLUSH", 0>>}
GNextX ==
    \/ /\ app.op = "none" /\ app.nops < MaxOps
       /\ \E a \in AppActions, n \in 0..MaxIn :
             /\ (Profile = "stream" => <<a, n>> \in StreamOps)
             /\ BeginCall(a, n, n, FALSE, 1, "any", FALSE) \/ RejectedCall(a, n)
    \/ /\ app.op # "none"
       /\ BeginCall(app.op, app.left, app.left, FALSE, 1, "any", FALSE) \/ RejectedCall(app.op, app.left)
    \/ InnerStep
    \/ /\ app.nops < MaxOps
       /\ (Profile # "mid" => app.op = "none")
       /\ \E t \in GTargets, fm \in FailModes :
             /\ (Profile = "stream" => (t.pre = cfg.chain0.pre /\ t.props \in GoodProps /\ fm = "none"))
             \* failing allocator: with a change of lc/lp/pb and with a change of the chain
             /\ (fm # "none" => (t.props = "p1" /\ t.pre = cfg.chain0.pre) \/ (t.props = "p0" /\ t.pre \notin {cfg.chain0.pre, "armbad"}))
             /\ (Profile = "mid" /\ app.op # "none" => fm = "none" /\ t.props # "bad")
             /\ Update(t, fm)

Where == CASE cfg.enc = "stream" ->
                 (CASE sc.sseq = "HDR" -> "stream_header" [] sc.sseq = "BINIT" -> "boundary"
                    [] sc.sseq = "BHDR" -> "block_header" [] sc.sseq = "INDEX" -> "index" [] sc.sseq = "FOOTER" -> "footer"
                    [] OTHER -> (IF sc.bseq = "CODE" THEN "data" ELSE IF sc.bseq = "PAD" THEN "padding" ELSE "check"))
           [] cfg.enc = "block" -> (IF sc.bseq = "CODE" THEN "data" ELSE IF sc.bseq = "PAD" THEN "padding" ELSE "check")
           [] cfg.enc = "raw" -> "data"
           [] OTHER -> (CASE mt.seq = "HDR" -> "stream_header" [] mt.seq = "BLOCK" -> "data"
                          [] mt.seq = "INDEX" -> "index" [] OTHER -> "footer")

BlockList(b) == [i \in 1..Len(b) |-> [n |-> b[i].n, pre |-> b[i].chain.pre]]
Rec(e) == IF e.kind = "op"
          THEN [k |-> "op", a |-> e.a, n |-> e.n, ret |-> e.ret, given |-> totalIn',
                blocks |-> BlockList(blocks'), inq |-> Len(mt'.q), open |-> OpenBlock']
          ELSE [k |-> "update", target |-> e.target, ret |-> e.ret, fail |-> e.fail, mid |-> e.mid,
                \* where the encoder is parked (mid-operation calls): elements completed, element being written
                ntok |-> ntok, where |-> Where, during |-> [a |-> app.op, n |-> app.n, left |-> app.left]]

GNext == /\ GNextX /\ path' = IF ev'.kind = "none" THEN path ELSE Append(path, Rec(ev'))
         /\ ntok' = IF tok'.kind = "none" THEN ntok ELSE ntok + 1
GSpec == GInit /\ [][GNext]_<<allvars, path, ntok>>
GView == <<inited, supported, seq, savedIn, allowBuf, totalIn, cfg, app, call, sc, fl, mt, blocks>>
HasMid(p) == \E i \in 1..Len(p) : p[i].k = "update" /\ p[i].mid
Emit == (ev'.kind # "none" /\ (Profile = "all" \/ (Profile = "stream" /\ app'.nops = MaxOps)
                               \/ (Profile = "mid" /\ HasMid(path')))) =>
            PrintT(<<"PLAN", ToJson([enc |-> cfg.enc, chain |-> cfg.chain0, check |-> cfg.check,
                                     grant |-> cfg.grant, bsize |-> cfg.bsize, ops |-> path'])>>)
=============================================================================
