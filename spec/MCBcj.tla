------------------------------- MODULE MCBcj --------------------------------
(* (M) for C15, BCJ part: the simple_code() protocol (SimpleCoder) composed   *)
(* with each architecture's transform (Bcj), driven by EVERY sequence of      *)
(* calls whose input chunk / output space sizes come from small sets:         *)
(*   - the bytes delivered so far are always a prefix of the one-shot         *)
(*     transform of the whole input (slicing independence, nothing lost or    *)
(*     reordered, size preserved),                                            *)
(*   - LZMA_STREAM_END is returned exactly when everything was delivered,     *)
(*   - from every reachable state one call with all remaining input,          *)
(*     LZMA_FINISH and enough space finishes the stream (tail is flushed),    *)
(*   - decode(encode(x)) = x and encode(decode(x)) = x at the same offset,    *)
(*   - a coder that is re-initialised at any moment behaves like a new one    *)
(*     (MCReinit: all invariants keep holding for the next job).              *)
EXTENDS SimpleCoder, BcjSamples, TLC

CONSTANTS InSizes, OutSizes, SampleSeeds, MCArchs
Big == 1000

VARIABLES arch, enc, off, data, s, ipos, out, ret
mvars == <<arch, enc, off, data, s, ipos, out, ret>>

MCLen(a) == CASE a = "ia64" -> 37 [] a = "riscv" -> 21 [] a = "x86" -> 14 [] OTHER -> 11
MCOffsets(a) == {<<0, 0>>, H32(\hFFFF, 65536 - 16)}
MCData(a) == {Sample(a, MCLen(a), sd, 0) : sd \in SampleSeeds}
             \cup (IF a = "x86" THEN {X86Pair(d, 232, 233, m, 255, 0) : d \in {1, 3, 5}, m \in {0, 1}} ELSE {})
             \cup (IF a = "arm64" THEN {Arm64Gate} ELSE {})
             \cup (IF a \in {"arm", "riscv", "armthumb"} THEN {Sample(a, MCLen(a), sd + 100, 1) : sd \in SampleSeeds} ELSE {})

MCInit == /\ arch \in MCArchs
          /\ enc \in BOOLEAN
          /\ off \in MCOffsets(arch)
          /\ \E x \in MCData(arch) : data = IF enc THEN x ELSE Stream(arch, TRUE, off, x)
          /\ s = ScInit(arch, off)
          /\ ipos = 0 /\ out = <<>> /\ ret = "OK"
MCCall(nin, space) ==
    /\ ret = "OK"
    /\ LET avail  == Min3(nin, Len(data) - ipos)
           finish == ipos + avail = Len(data)
           r      == Call(arch, enc, s, SubSeq(data, ipos + 1, ipos + avail), space, finish)
       IN /\ s' = r.s /\ ipos' = ipos + r.used /\ out' = out \o r.out /\ ret' = r.ret
    /\ UNCHANGED <<arch, enc, off, data>>
\* the same coder object is initialised again (any time: mid-stream or after the end) for another job
MCReinit == /\ \E o \in MCOffsets(arch), x \in MCData(arch) :
                 /\ off' = o
                 /\ data' = IF enc THEN x ELSE Stream(arch, TRUE, o, x)
                 /\ s' = ScReinit(s, arch, o)
            /\ ipos' = 0 /\ out' = <<>> /\ ret' = "OK"
            /\ UNCHANGED <<arch, enc>>
MCNext == (\E nin \in InSizes, space \in OutSizes : MCCall(nin, space)) \/ MCReinit
MCSpec == MCInit /\ [][MCNext]_mvars

Whole == Stream(arch, enc, off, data)
PrefixOfOneShot == Len(out) <= Len(data) /\ out = SubSeq(Whole, 1, Len(out))
EndIffComplete  == (ret = "STREAM_END") <=> (Len(out) = Len(data) /\ ipos = Len(data) /\ s.ended)
NeverAheadOfInput == Len(out) <= ipos /\ ipos <= Len(data)
HeldBackIsBounded == Len(s.buf) <= Alloc(arch) /\ ipos - Len(out) <= Alloc(arch)
FinishFlushes ==
    ret = "OK" => LET r == Call(arch, enc, s, SubSeq(data, ipos + 1, Len(data)), Big, TRUE)
                  IN r.ret = "STREAM_END" /\ out \o r.out = Whole /\ r.used = Len(data) - ipos
ExactInverse == Stream(arch, ~enc, off, Whole) = data /\ Len(Whole) = Len(data)
=============================================================================
