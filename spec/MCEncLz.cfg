SPECIFICATION Spec
CONSTANTS LenMin = 2 LenMax = 3 RepeatMax = 3
 Alphabet = {0, 1} DictSizes = {1, 2, 5} MaxOut = 7
 Presets <- MCPresets
INVARIANTS TypeOK LengthsAddUp ValidityAgrees WindowEquiv FullOK MatchedLiteralHasByte
CHECK_DEADLOCK FALSE
