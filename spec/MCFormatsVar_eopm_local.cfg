SPECIFICATION Spec
CONSTANTS
 EopmLocalPerCall = TRUE  PickyAcceptsZero = FALSE  AutoFinishAll = FALSE
 MemDictLimbHi = 752
 ChunkSizes = {0, 1}  Profile = "quick"  Sweep = "small"
 Formats = {"alone"}
INVARIANTS MeetsContract NeverUnspecified StopsAtFirstStream Bounded
CHECK_DEADLOCK FALSE
