SPECIFICATION Spec
CONSTANTS MaxMsgs = 6
INVARIANTS RunningIsFold Contract QuietOnlyHides
PROPERTY ErrorSticky
CHECK_DEADLOCK FALSE
