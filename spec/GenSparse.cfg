SPECIFICATION Spec
CONSTANTS B = 2 MaxBufs = 3
ACTION_CONSTRAINT Emit
CHECK_DEADLOCK FALSE
