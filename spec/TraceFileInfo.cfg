SPECIFICATION TSpec
CONSTANTS HS = 12  TempCap = 8192
POSTCONDITION TraceAccepted
CHECK_DEADLOCK FALSE
