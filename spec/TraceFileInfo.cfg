SPECIFICATION TSpec
CONSTANTS HS = 12  TempCap = 8192  BugPadding = FALSE
POSTCONDITION TraceAccepted
CHECK_DEADLOCK FALSE
