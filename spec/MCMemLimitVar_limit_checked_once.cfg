SPECIFICATION SpecSt
CONSTANTS BASE = 2  Slack = 1  Unlimited = 99  Bug = {"limit_checked_once"}
 Needs = {2, 3, 5}  Limits = {1, 2, 3, 4, 5, 6, 99}  MaxUnits = 3
 MtBlocks <- MCBlocks  MtThreads = 2
INVARIANTS InvStWithinLimit InvStRestartable InvStSetSound InvStErrorJustified
CHECK_DEADLOCK FALSE
