SPECIFICATION GSpec
CONSTRAINT EmitDone
CHECK_DEADLOCK FALSE
