------------------------------- MODULE MCIndex ------------------------------
(* Exhaustive exploration of all histories of index calls within the bounds; *)
(* the iterator is not part of the state: InvIterNext quantifies over every  *)
(* position it could have been left at.                                      *)
EXTENDS IndexContract

U4 == BigOf(4)  U5 == BigOf(5)  U8 == BigOf(8)  U128 == BigOf(128)
Half == <<0, 0, 1048576>>                    \* 2^62
Near == Sub(UnpaddedMax, BigOf(64))          \* one more small Block fits, a few more do not
One == BigOf(1)
F(check) == Flags(check, FALSE, Zero)

MCU == {U4, U5, Half}
MCV == {Zero, One, VliMax}
MCP == {BigOf(4), BigOf(6), Half}
MCF == {F(1), F(10)}

Do(o) == st' = Apply(st, o).st
Init == st = St0
Next == \/ \E o \in CandInit(st) : Do(o)
        \/ \E o \in CandEnd(st) : Do(o)
        \/ \E o \in CandAppend(st) : Do(o)
        \/ \E o \in CandFlags(st) : Do(o)
        \/ \E o \in CandPadding(st) : Do(o)
        \/ \E o \in CandCat(st) : Do(o)
        \/ \E o \in CandDup(st) : Do(o)
        \/ \E o \in CandEncDec(st) : Do(o)
Spec == Init /\ [][Next]_st
Bounded == NStreams(st) <= MaxStreams /\ NRecords(st) <= MaxRecs
=============================================================================
