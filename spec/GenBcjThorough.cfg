SPECIFICATION Spec
CONSTANTS
 NSamples = 120
 NReuse = 20
 PairMs = {0, 255, 1}
 DeltaDists = {1, 2, 3, 4, 5, 16, 17, 128, 254, 255, 256}
 DeltaLens = {0, 1, 2, 17, 255, 256, 257, 300, 511, 512, 513, 1000}
INVARIANTS ExactInverse DeltaIsDefinition
ACTION_CONSTRAINT Emit
CHECK_DEADLOCK FALSE
