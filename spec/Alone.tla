-------------------------------- MODULE Alone --------------------------------
(* Transcription of alone_decode() (src/liblzma/common/alone_decoder.c) plus  *)
(* the header semantics of the .lzma format.  One loop iteration of the C     *)
(* function = one unfolding of AloneRun.  32-bit values are <<lo, hi>> pairs   *)
(* of 16-bit limbs (TLC integers are 32-bit signed).                           *)
EXTENDS Lzma1End, Bitwise

CONSTANT PickyAcceptsZero
   \* FALSE: as the code is.  TRUE: deliberately broken variant (5.8.1 as released:
   \* a dictionary size of zero passes the bit trick through wraparound).
CONSTANT MemDictLimbHi
   \* memusage > memlimit  <=>  dict_size >= MemDictLimbHi * 65536 (the harness
   \* chooses the memlimit accordingly; no generated size is near the edge)

(* ---------------------------------------------------------------- 32 bit *)
W32(lo, hi) == <<lo, hi>>
Pow2W(n)  == IF n < 16 THEN <<2 ^ n, 0>> ELSE <<0, 2 ^ (n - 16)>>
AddW(a, b) == LET s == a[1] + b[1] IN <<s % 65536, (a[2] + b[2] + (s \div 65536)) % 65536>>
DecW(a)   == IF a[1] > 0 THEN <<a[1] - 1, a[2]>> ELSE IF a[2] > 0 THEN <<65535, a[2] - 1>> ELSE <<65535, 65535>>
IncW(a)   == IF a[1] < 65535 THEN <<a[1] + 1, a[2]>> ELSE IF a[2] < 65535 THEN <<0, a[2] + 1>> ELSE <<0, 0>>
OrW(a, b) == <<a[1] | b[1], a[2] | b[2]>>
ShrW(a, k) == IF k = 16 THEN <<a[2], 0>>
              ELSE <<(a[1] \div (2 ^ k)) + (a[2] % (2 ^ k)) * (2 ^ (16 - k)), a[2] \div (2 ^ k)>>
MaxW == <<65535, 65535>>
BytesOfW(a) == <<a[1] % 256, a[1] \div 256, a[2] % 256, a[2] \div 256>>

(* ------------------------------------------------ header field semantics *)
\* lzma_lzma_lclppb_decode(): true = error
PropsPb(b) == b \div 45
PropsLp(b) == (b - PropsPb(b) * 45) \div 9
PropsLc(b) == (b - PropsPb(b) * 45) - PropsLp(b) * 9
PropsBad(b) == b > (4 * 5 + 4) * 9 + 8 \/ PropsLc(b) + PropsLp(b) > 4

\* the "hack to ditch tons of false positives" of alone_decode(), bit by bit
PickyRound(dict) ==
    LET d0 == DecW(dict)
        d1 == OrW(d0, ShrW(d0, 2))
        d2 == OrW(d1, ShrW(d1, 3))
        d3 == OrW(d2, ShrW(d2, 4))
        d4 == OrW(d3, ShrW(d3, 8))
        d5 == OrW(d4, ShrW(d4, 16))
    IN IncW(d5)
\* "if (d != coder->options.dict_size || coder->options.dict_size == 0) return LZMA_FORMAT_ERROR;"
PickyDictBad(dict) == dict # MaxW /\ (PickyRound(dict) # dict \/ (~PickyAcceptsZero /\ dict = <<0, 0>>))

\* uncompressed size as 8 little-endian bytes
UsizeUnknown(us) == \A j \in 1..8 : us[j] = 255
UsizeGE256GiB(us) == us[8] # 0 \/ us[7] # 0 \/ us[6] # 0 \/ us[5] >= 64        \* >= 2^38
\* numeric value, saturated at 2^30 (payloads of the model are tiny)
UsizeValue(us) == IF UsizeUnknown(us) THEN UNKNOWN
                  ELSE IF us[8] # 0 \/ us[7] # 0 \/ us[6] # 0 \/ us[5] # 0 \/ us[4] >= 64 THEN 2 ^ 30
                  ELSE us[1] + 256 * us[2] + 65536 * us[3] + 16777216 * us[4]

MemTooBig(dict) == dict[2] >= MemDictLimbHi

(* ------------------------------------------------------------ the coder *)
\* value of a byte token; of a foreign format's abstract tokens only the first byte of
\* the file matters here (0xFD of the .xz magic), anything else reads as 0xFF
ByteVal(t) == IF t.k = "b" THEN t.v ELSE IF t.k = "xh" /\ t.v = 0 THEN 253 ELSE 255
\* lzma_alone_decoder_init(): everything the header parser accumulates with `|=' starts from zero
AloneInit(picky) == [seq |-> "props", picky |-> picky, pos |-> 0, props |-> 0,
                     dict |-> <<0, 0>>, us |-> <<0, 0, 0, 0, 0, 0, 0, 0>>, lz |-> LzInit(UNKNOWN, TRUE)]

AR(c, i, o, r) == [c |-> c, i |-> i, o |-> o, ret |-> r]

RECURSIVE AloneRun(_, _, _, _), AloneCoderInit(_, _, _, _)
\* case SEQ_CODER_INIT: (entered by FALLTHROUGH from SEQ_UNCOMPRESSED_SIZE, or on
\* re-entry after LZMA_MEMLIMIT_ERROR)
AloneCoderInit(c, w, i, o) ==
    IF MemTooBig(c.dict) THEN AR([c EXCEPT !.seq = "coder_init"], i, o, "MEMLIMIT_ERROR")
    ELSE AloneRun([c EXCEPT !.seq = "code", !.lz = LzInit(UsizeValue(c.us), TRUE)], w, i, o)   \* break

AloneRun(c, w, i, o) ==
  \* while (*out_pos < out_size && (coder->sequence == SEQ_CODE || *in_pos < in_size))
  IF ~(c.seq = "code" \/ i < Len(w)) THEN AR(c, i, o, "OK")
  ELSE
  CASE c.seq = "props" ->
         LET b == ByteVal(w[i + 1]) IN
         IF PropsBad(b) THEN AR(c, i, o, "FORMAT_ERROR")
         ELSE AloneRun([c EXCEPT !.seq = "dict", !.props = b], w, i + 1, o)
    [] c.seq = "dict" ->
         LET b  == w[i + 1].v
             sh == IF c.pos % 2 = 0 THEN b ELSE b * 256
             d  == IF c.pos < 2 THEN <<c.dict[1] | sh, c.dict[2]>> ELSE <<c.dict[1], c.dict[2] | sh>>
         IN IF c.pos + 1 = 4
            THEN IF c.picky /\ PickyDictBad(d) THEN AR([c EXCEPT !.dict = d, !.pos = 4], i, o, "FORMAT_ERROR")
                 ELSE AloneRun([c EXCEPT !.dict = d, !.pos = 0, !.seq = "usize"], w, i + 1, o)
            ELSE AloneRun([c EXCEPT !.dict = d, !.pos = @ + 1], w, i + 1, o)
    [] c.seq = "usize" ->
         LET b  == w[i + 1].v
             us == [c.us EXCEPT ![c.pos + 1] = @ | b] IN      \* uncompressed_size |= in[*in_pos] << (pos * 8)
         IF c.pos + 1 < 8 THEN AloneRun([c EXCEPT !.us = us, !.pos = @ + 1], w, i + 1, o)
         ELSE IF c.picky /\ ~UsizeUnknown(us) /\ UsizeGE256GiB(us)
              THEN AR([c EXCEPT !.us = us, !.pos = 8], i + 1, o, "FORMAT_ERROR")
         ELSE \* ext_flags = LZMA_LZMA1EXT_ALLOW_EOPM; lzma_set_ext_size(); memusage; FALLTHROUGH
              AloneCoderInit([c EXCEPT !.us = us, !.pos = 0], w, i + 1, o)
    [] c.seq = "coder_init" -> AloneCoderInit(c, w, i, o)
    [] c.seq = "code" ->
         LET r == LzCall(c.lz, w, i) IN AR([c EXCEPT !.lz = r.p], r.i, o + r.o, r.ret)

AloneCall(c, w, i) == AloneRun(c, w, i, 0)

(* ------------------------------------------ declarative header validity *)
\* doc/lzma-file-format.txt: Properties <= 224; XZ Utils: lc + lp <= 4;
\* plausibility test used when auto-detecting: dictionary size 2^n or
\* 2^n + 2^(n-1) (or the special value 2^32 - 1), known size < 256 GiB.
DictPlausible(dict) == \/ dict = MaxW
                       \/ \E n \in 0..31 : dict = Pow2W(n)
                       \/ \E n \in 1..31 : dict = AddW(Pow2W(n), Pow2W(n - 1))
PropsValid(b) == b <= 224 /\ \E lc \in 0..8, lp \in 0..4, pb \in 0..4 :
                    b = (pb * 5 + lp) * 9 + lc /\ lc + lp <= 4
=============================================================================
