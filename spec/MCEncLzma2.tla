----------------------------- MODULE MCEncLzma2 -----------------------------
(* (M) for C01/C02: the LZMA2 chunk machine over EncLz at tiny constants.     *)
(* Every chunk sequence the rules admit is explored (all reset levels,        *)
(* uncompressed chunks with and without dictionary reset, preset dictionary). *)
(* Checked: the numeric accounting used for aggregate judging (cprod, cavail) *)
(* agrees with the byte-exact dictionary of EncLz; a dictionary reset         *)
(* isolates (no valid distance reaches bytes before it); an LZMA chunk is     *)
(* never open without props; the aggregate test AggOK accepts the aggregates  *)
(* of every byte-exactly valid chunk (so judging big streams by aggregates    *)
(* never over-demands).                                                       *)
EXTENDS EncLzma2, TLC

CONSTANTS Alphabet, DictSizes, MaxOut, Presets

VARIABLES agg        \* aggregates of the open chunk, maintained symbol by symbol
vars == <<lzvars, l2vars, agg>>

MCPresets == {<<>>, <<1, 0>>}
Agg0 == [lit |-> 0, match |-> 0, rep |-> 0, srep |-> 0, eopm |-> 0, maxdist |-> 0, maxlen |-> 0,
         minslack |-> -1, outlen |-> 0, used |-> 0]
Slack(d0) == Min(Avail, dictSize) - (d0 + 1)
AddCopy(a, field, d0, n) ==
    [a EXCEPT ![field] = @ + 1, !.maxdist = Max(@, d0 + 1), !.maxlen = Max(@, n),
              !.minslack = IF @ = -1 THEN Slack(d0) ELSE Min(@, Slack(d0)), !.outlen = @ + n]

Init == /\ \E ds \in DictSizes : \E p \in Presets : L2Init(ds, p, TRUE)
        /\ agg = Agg0

Room(n) == cprod + n <= MaxOut

BeginLzma == \E lvl \in 0..3 : \E usize \in 1..ChunkUncompMax : \E csize \in {1, ChunkCompMax} :
             \E pb \in {-1, 93, 0} :
                /\ Room(usize)
                /\ LzmaChunkBegin(128 + 32 * lvl + (usize - 1) \div 65536, usize, csize, pb, TRUE)
                /\ agg' = Agg0
SymLit == \E b \in Alphabet : InLzmaChunk(1) /\ Lit(b) /\ UNCHANGED l2vars
             /\ agg' = [agg EXCEPT !.lit = @ + 1, !.outlen = @ + 1]
SymMatch == \E d0 \in 0..(dictSize - 1) : \E n \in LenMin..LenMax :
             InLzmaChunk(n) /\ Match(d0, n) /\ UNCHANGED l2vars /\ agg' = AddCopy(agg, "match", d0, n)
SymRep == \E i \in 0..3 : \E n \in LenMin..LenMax :
             InLzmaChunk(n) /\ Rep(i, n) /\ UNCHANGED l2vars /\ agg' = AddCopy(agg, "rep", reps[i + 1], n)
SymShortRep == InLzmaChunk(1) /\ ShortRep /\ UNCHANGED l2vars
             /\ agg' = [agg EXCEPT !.srep = @ + 1, !.outlen = @ + 1]      \* the tokeniser does not count short reps as copies
EndLzma == /\ LzmaChunkEndBytes
           /\ agg' = Agg0
Unc == \E ctl \in {1, 2} : \E bs \in UNION {[1..k -> Alphabet] : k \in 1..2} :
           /\ Room(Len(bs)) /\ UncChunk(ctl, Len(bs), bs, TRUE) /\ agg' = Agg0
Update == \E nb \in {93, 0} : PropsUpdate(nb) /\ agg' = Agg0
End == EndChunk /\ UNCHANGED agg

Next == BeginLzma \/ SymLit \/ SymMatch \/ SymRep \/ SymShortRep \/ EndLzma \/ Unc \/ Update \/ End
Spec == Init /\ [][Next]_vars

----------------------------------------------------------------------------
TypeOK == LzTypeOK /\ L2TypeOK
\* numeric accounting == byte-exact accounting (at chunk boundaries and inside chunks)
CountersAgree == /\ (ch = NoChunk) => (cprod = Produced /\ cavail = Avail)
                 /\ (ch # NoChunk) => (ch.start = cprod /\ cavail + (Produced - ch.start) = Avail)
PropsKnownInChunk == (ch # NoChunk) => props # -1
\* inside a chunk the decoder's props are the ones the caller asked for last (a chunk after PropsUpdate carries them)
PropsAreTheConfigured == (ch # NoChunk /\ cfgp # -1) => props = cfgp
\* inside an LZMA chunk a matched literal always has its byte (between chunks an uncompressed chunk with
\* dictionary reset may leave a stale state, but the props obligation forces a state reset before it is used)
MatchedLiteralInChunk == (ch # NoChunk) => MatchedLiteralHasByte
ObligationsMet == (ch # NoChunk) => (~needDict /\ ~needProps /\ ~needState)
\* whenever the byte-exact judge would close the chunk, the aggregate judge accepts its aggregates
AggregatesSufficient ==
    (ch # NoChunk /\ Produced - ch.start = ch.usize) => AggOK([agg EXCEPT !.used = ch.csize])
=============================================================================
