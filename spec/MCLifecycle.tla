----------------------------- MODULE MCLifecycle -----------------------------
(* Exhaustive exploration: every history of at most MaxCalls API calls over   *)
(* the call alphabet, every allocation count up to MaxPerCall per call, every *)
(* position of a failing allocation (and every later subset), every order of  *)
(* frees the mechanism permits.                                               *)
EXTENDS LifecycleContract, TLC

CONSTANTS MaxCalls, MaxPerCall, MaxIds
VARIABLES nid, ncalls, nops

mcvars == <<s, nid, ncalls, nops>>

CallSpace ==
    [cls : {"Init"}, k : Kinds, tgt : {"none"}, src : {"none"}]
    \cup [cls : {"Code", "Update", "End", "Async"}, k : {"none"}, tgt : {"none"}, src : {"none"}]
    \cup [cls : {"New", "Mutate", "Free"}, k : {"none"}, tgt : Objs, src : {"none"}]
    \cup [cls : {"Derive"}, k : {"none"}, tgt : Objs, src : Objs \cup {"static"}]
    \cup [cls : {"Cat"}, k : {"none"}, tgt : Objs, src : Objs]
    \cup [cls : {"OneShot"}, k : {"none"}, tgt : {"none"}, src : {"none"}]

Rets == {"OK", "MEM_ERROR", "STREAM_END", "OTHER", "none"}

MCInit == s = S0 /\ nid = 1 /\ ncalls = 0 /\ nops = 0

DoBegin == /\ ncalls < MaxCalls
           /\ \E c \in CallSpace : BeginOK(s, c) /\ s' = BeginDo(s, c)
           /\ ncalls' = ncalls + 1 /\ nops' = 0 /\ UNCHANGED nid
DoAlloc == /\ s.call.pc # "idle" /\ nops < MaxPerCall /\ nid <= MaxIds
           /\ AllocOK(s, nid) /\ s' = AllocDo(s, nid)
           /\ nid' = nid + 1 /\ nops' = nops + 1 /\ UNCHANGED ncalls
DoFail  == /\ s.call.pc # "idle" /\ nops < MaxPerCall
           /\ FailOK(s) /\ s' = FailDo(s)
           /\ nops' = nops + 1 /\ UNCHANGED <<nid, ncalls>>
DoFree  == /\ s.call.pc # "idle"
           /\ \E id \in 1..MaxIds : FreeOK(s, id) /\ s' = FreeDo(s, id)
           /\ UNCHANGED <<nid, ncalls, nops>>
\* worker threads of a threaded coder, concurrent with any call
DoWAlloc == /\ s.call.pc # "idle" /\ nops < MaxPerCall /\ nid <= MaxIds
            /\ WAllocOK(s, nid) /\ s' = WAllocDo(s, nid)
            /\ nid' = nid + 1 /\ nops' = nops + 1 /\ UNCHANGED ncalls
DoWFail  == /\ s.call.pc # "idle" /\ nops < MaxPerCall /\ ~s.pend
            /\ WFailOK(s) /\ s' = WFailDo(s)
            /\ nops' = nops + 1 /\ UNCHANGED <<nid, ncalls>>
DoWFree  == /\ s.call.pc # "idle"
            /\ \E id \in 1..MaxIds : WFreeOK(s, id) /\ s' = WFreeDo(s, id)
            /\ UNCHANGED <<nid, ncalls, nops>>
DoRet   == /\ s.call.pc # "idle"
           /\ \E ret \in Rets, same \in BOOLEAN : RetOK(s, ret, same) /\ s' = RetDo(s, ret, same)
           /\ UNCHANGED <<nid, ncalls, nops>>

MCNext == DoBegin \/ DoAlloc \/ DoFail \/ DoFree \/ DoRet \/ DoWAlloc \/ DoWFail \/ DoWFree
MCSpec == MCInit /\ [][MCNext]_mcvars
=============================================================================
