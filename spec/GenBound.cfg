SPECIFICATION Spec
CONSTANTS
 Centers = {0, 1, 128, 16384, 65536, 131072, 2097152, 4194304, 6291456}
 Deltas <- GDeltas
 Slack <- GSlack
CONSTRAINT Emit
CHECK_DEADLOCK FALSE
