------------------------------ MODULE Lifecycle ------------------------------
(* Ownership model of liblzma's allocation discipline (property C10).         *)
(*                                                                           *)
(* Transcribed mechanism (src/liblzma/common/common.c, common.h):             *)
(*   lzma_strm_init        allocate strm->internal when it is NULL            *)
(*   lzma_next_coder_init  if (func != next->init) lzma_next_end(next);       *)
(*                         next->init = func   (same init => coder reused)    *)
(*   lzma_next_strm_init   strm_init; func(...); on error lzma_end(strm)      *)
(*   lzma_next_end         coder's end function frees everything reachable    *)
(*                         from next->coder; *next = LZMA_NEXT_CODER_INIT     *)
(*   lzma_end              lzma_next_end; free internal; internal = NULL      *)
(* and the rule every function taking an lzma_allocator follows for objects   *)
(* owned by the caller (lzma_filters_copy, lzma_index_cat/dup/append, ...):   *)
(* allocate into temporaries, on failure free exactly the temporaries.        *)
(*                                                                           *)
(* The state has two views that the code keeps consistent:                    *)
(*   - the ledger  `live`   (what the lzma_allocator has handed out), and     *)
(*   - the pointer view (internal, coder, objs[o].own, call.tmp, call.tofree) *)
(*     = what the code can still reach and therefore still free.              *)
(* One API call = Begin; micro-operations (allocation id>0, failed            *)
(* allocation 0, free -id) in the order the allocator saw them; Return.       *)
(* The micro-operations are functions on the state record so that the model   *)
(* checker can interleave them one by one (MCLifecycle) and the trace         *)
(* validator can fold a whole recorded call in one step (TraceLifecycle).     *)
EXTENDS Integers, FiniteSets, Sequences

CONSTANTS Kinds,      \* constructor identities (value of next->init)
          Threaded,   \* subset of Kinds whose workers allocate / report errors asynchronously
          Objs,       \* slots for caller-owned objects (filter arrays, indexes, strings)
          Bug         \* "none", or the name of a deliberately broken rule (non-vacuity runs)

HandleClasses == {"Init", "Code", "Update", "End", "Async"}
ObjClasses    == {"New", "Derive", "Mutate", "Cat", "Free", "OneShot"}
Classes       == HandleClasses \cup ObjClasses

DeadObj == [alive |-> FALSE, own |-> {}]
NoObjs  == [o \in Objs |-> DeadObj]
Idle == [pc |-> "idle", cls |-> "none", k |-> "none", tgt |-> "none", src |-> "none",
         tofree |-> {}, failed |-> FALSE, tmp |-> {}, oldThr |-> FALSE]
NoLast == [cls |-> "none", k |-> "none", ret |-> "none", failed |-> FALSE, thr |-> FALSE]

S0 == [live |-> {},          \* ledger: ids handed out by the allocator and not yet returned
       hids |-> {},          \* ids ever allocated on behalf of the lzma_stream handle
       err |-> {},           \* ledger anomalies ("badfree")
       internal |-> 0,       \* id of strm->internal, 0 = NULL
       init |-> "none",      \* internal->next.init
       coder |-> {},         \* ids reachable from internal->next.coder
       base |-> 0,           \* id of the structure next.coder points to (0 = NULL)
       coderKind |-> "none", \* kind of the structure next.coder points to
       usable |-> FALSE,     \* next.code != NULL
       pend |-> FALSE,       \* threaded: a failed allocation not yet reported to the caller
       stale |-> FALSE,      \* threaded: a worker's allocation failed while the coder was being re-initialised: the
                             \* error may or may not survive the reset of thread_error (it races with it)
       objs |-> NoObjs,      \* caller-owned objects: alive, ids reachable from them
       snap |-> NoObjs,      \* objs at the beginning of the current call
       plive |-> {},         \* live at the beginning of the current call
       call |-> Idle,
       last |-> NoLast]

Own(s, o) == IF o \in Objs THEN s.objs[o].own ELSE {}
IsAlive(s, o) == o \in Objs /\ s.objs[o].alive

-----------------------------------------------------------------------------
(* Begin of a call                                                           *)
BeginOK(s, c) ==
    /\ s.call.pc = "idle"
    /\ CASE c.cls = "Init" -> c.k \in Kinds
         [] c.cls \in {"Code", "Update"} -> s.internal # 0
         [] c.cls = "Async" -> s.internal # 0 /\ s.init \in Threaded
         [] c.cls = "End" -> TRUE
         [] c.cls = "New" -> c.tgt \in Objs /\ ~IsAlive(s, c.tgt)
         [] c.cls = "Derive" -> c.tgt \in Objs /\ ~IsAlive(s, c.tgt) /\ (c.src \in Objs => IsAlive(s, c.src))
         [] c.cls \in {"Mutate", "Free"} -> IsAlive(s, c.tgt)
         [] c.cls = "Cat" -> IsAlive(s, c.tgt) /\ IsAlive(s, c.src) /\ c.tgt # c.src
         [] c.cls = "OneShot" -> TRUE
         [] OTHER -> FALSE

\* lzma_next_coder_init(func, next, allocator)
NextCoderInit(s, k) ==
    IF s.init # k /\ Bug # "reuse_other_kind"
    THEN [s EXCEPT !.call.tofree = IF Bug = "no_next_end" THEN {} ELSE s.coder,   \* lzma_next_end(next)
                   !.call.oldThr = (s.init \in Threaded /\ s.coder # {}),
                   !.coder = {}, !.base = 0, !.coderKind = "none", !.init = k]
    ELSE [s EXCEPT !.init = k]

BeginDo(s, c) ==
    LET s1 == [s EXCEPT !.call = [Idle EXCEPT !.cls = c.cls, !.k = c.k, !.tgt = c.tgt, !.src = c.src],
                        !.snap = s.objs, !.plive = s.live]
    IN CASE c.cls = "Init" ->
              IF s.internal = 0
              THEN [s1 EXCEPT !.call.pc = "strm_init", !.usable = FALSE, !.pend = FALSE, !.stale = FALSE]   \* lzma_strm_init must allocate
              \* (stream_encoder_mt_init clears thread_error first: failures of the previous use are forgotten)
              ELSE [NextCoderInit(s1, c.k) EXCEPT !.call.pc = "body", !.usable = FALSE, !.pend = FALSE, !.stale = FALSE]
         [] c.cls \in {"Code", "Update", "Async"} -> [s1 EXCEPT !.call.pc = "code"]
         [] c.cls = "End" -> [s1 EXCEPT !.call.pc = "end", !.usable = FALSE]
         [] OTHER -> [s1 EXCEPT !.call.pc = "obj"]

-----------------------------------------------------------------------------
(* Micro-operations                                                          *)
LedgerFree(s, id) == IF id \in s.live THEN [s EXCEPT !.live = @ \ {id}]
                     ELSE [s EXCEPT !.err = @ \cup {"badfree"}]

\* (an allocation may follow a failed one: lz_encoder_init requests hash and son before testing either)
InitBodyOpen(s) == s.call.tofree = {} /\ s.internal # 0

AllocOK(s, id) ==
    /\ id \notin s.live
    /\ CASE s.call.pc = "strm_init" -> TRUE
         [] s.call.pc = "body" -> InitBodyOpen(s)       \* the old coder of another kind is freed first
         [] s.call.pc = "code" -> TRUE
         [] s.call.pc = "end" -> s.init \in Threaded /\ s.internal # 0   \* a worker may still be running
         [] s.call.pc = "obj" -> TRUE
         [] OTHER -> FALSE

AllocDo(s, id) ==
    LET s1 == [s EXCEPT !.live = @ \cup {id}] IN
    CASE s.call.pc = "strm_init" ->
            [NextCoderInit([s1 EXCEPT !.internal = id, !.hids = @ \cup {id}], s.call.k) EXCEPT !.call.pc = "body"]
      [] s.call.pc = "body" ->
            [s1 EXCEPT !.coder = @ \cup {id}, !.hids = @ \cup {id},
                       !.base = IF s.base = 0 THEN id ELSE @,            \* next->coder = lzma_alloc(sizeof(coder))
                       !.coderKind = IF s.base = 0 THEN s.call.k ELSE @]
      [] s.call.pc \in {"code", "end"} -> [s1 EXCEPT !.coder = @ \cup {id}, !.hids = @ \cup {id}]
      [] OTHER -> [s1 EXCEPT !.call.tmp = @ \cup {id}]

FailOK(s) ==
    CASE s.call.pc = "strm_init" -> TRUE
      [] s.call.pc = "body" -> InitBodyOpen(s)
      [] s.call.pc \in {"code", "obj"} -> TRUE
      [] s.call.pc = "end" -> s.init \in Threaded /\ s.internal # 0
      [] OTHER -> FALSE

FailDo(s) ==
    IF s.call.pc = "strm_init" THEN [s EXCEPT !.call.pc = "early_fail", !.call.failed = TRUE]
    ELSE [s EXCEPT !.call.failed = TRUE]

\* lzma_end order: lzma_next_end first, then strm->internal
FreesInternal(s, id) == id # 0 /\ id = s.internal /\ s.coder = {} /\ s.call.tofree = {}

FreeOK(s, id) ==
    CASE s.call.pc = "body" -> id \in s.call.tofree \/ id \in s.coder \/ FreesInternal(s, id)
      [] s.call.pc = "code" -> id \in s.coder /\ id # s.base     \* only lzma_next_end frees next->coder itself
      [] s.call.pc = "end"  -> id \in s.coder \/ FreesInternal(s, id)
      [] s.call.pc = "obj"  -> \/ id \in s.call.tmp
                               \/ (s.call.cls \in {"Mutate", "Cat", "Free"} /\ id \in Own(s, s.call.tgt))
                               \/ (s.call.cls = "Cat" /\ id \in Own(s, s.call.src))
      [] OTHER -> FALSE

FreeDo(s, id) ==
    LET s1 == LedgerFree(s, id) IN
    CASE s.call.pc \in {"body", "end"} /\ id \in s.call.tofree -> [s1 EXCEPT !.call.tofree = @ \ {id}]
      [] s.call.pc \in {"body", "code", "end"} /\ id \in s.coder ->
            [s1 EXCEPT !.coder = @ \ {id}, !.base = IF id = s.base THEN 0 ELSE @,
                       !.coderKind = IF id = s.base THEN "none" ELSE @]
      [] s.call.pc \in {"body", "end"} /\ id = s.internal ->
            [s1 EXCEPT !.internal = IF Bug = "double_end" THEN @ ELSE 0, !.init = "none", !.usable = FALSE]
      [] s.call.pc = "obj" /\ id \in s.call.tmp -> [s1 EXCEPT !.call.tmp = @ \ {id}]
      [] s.call.pc = "obj" /\ id \in Own(s, s.call.tgt) -> [s1 EXCEPT !.objs[s.call.tgt].own = @ \ {id}]
      [] s.call.pc = "obj" /\ id \in Own(s, s.call.src) -> [s1 EXCEPT !.objs[s.call.src].own = @ \ {id}]
      [] OTHER -> s1

\* Worker threads of a threaded coder call the allocator concurrently with whatever the application thread is
\* doing (any call, on the handle or on a caller-owned object).  Their allocations belong to the threaded coder:
\* the current one, or the one being destroyed by lzma_next_end (call.tofree) until its threads are joined.
OldCoderDying(s) == s.call.oldThr /\ s.call.tofree # {}
WorkerAlive(s) == (s.init \in Threaded /\ s.base # 0) \/ OldCoderDying(s)
WAllocOK(s, id) == id \notin s.live /\ WorkerAlive(s)
WAllocDo(s, id) ==
    LET s1 == [s EXCEPT !.live = @ \cup {id}, !.hids = @ \cup {id}] IN
    IF OldCoderDying(s) THEN [s1 EXCEPT !.call.tofree = @ \cup {id}] ELSE [s1 EXCEPT !.coder = @ \cup {id}]
WFailOK(s) == WorkerAlive(s)
WFailDo(s) == IF s.call.cls = "Init" THEN [s EXCEPT !.stale = TRUE] ELSE [s EXCEPT !.pend = TRUE]
WFreeOK(s, id) == WorkerAlive(s) /\ (id \in s.call.tofree \/ (id \in s.coder /\ id # s.base))
WFreeDo(s, id) ==
    LET s1 == LedgerFree(s, id) IN
    IF id \in s.call.tofree THEN [s1 EXCEPT !.call.tofree = @ \ {id}] ELSE [s1 EXCEPT !.coder = @ \ {id}]

\* op encoding used by the recorder: id > 0 allocation, 0 failed allocation, -id free; the same made by a thread
\* other than the caller's: W + id, W, -(W + id)
W == 500000
OpOK(s, op) == IF op > W THEN WAllocOK(s, op - W) ELSE IF op = W THEN WFailOK(s) ELSE IF op < -W THEN WFreeOK(s, -op - W)
               ELSE IF op > 0 THEN AllocOK(s, op) ELSE IF op = 0 THEN FailOK(s) ELSE FreeOK(s, -op)
OpDo(s, op) == IF op > W THEN WAllocDo(s, op - W) ELSE IF op = W THEN WFailDo(s) ELSE IF op < -W THEN WFreeDo(s, -op - W)
               ELSE IF op > 0 THEN AllocDo(s, op) ELSE IF op = 0 THEN FailDo(s) ELSE FreeDo(s, -op)

-----------------------------------------------------------------------------
(* Return of a call.  ret: "OK", "MEM_ERROR" (also NULL from a constructor     *)
(* returning a pointer), "STREAM_END", or any other code.  same: the caller- *)
(* owned objects the call must not modify still have their previous content. *)
HandleGone(s) == s.internal = 0 /\ s.coder = {} /\ s.call.tofree = {}
ThreadedNow(s) == s.init \in Threaded \/ (s.call.cls = "Init" /\ s.call.k \in Threaded)

RetOK(s, ret, same) ==
    LET c == s.call IN
    CASE c.pc = "early_fail" -> ret = "MEM_ERROR"
      [] c.pc = "body" ->
            CASE ret = "OK" -> ~c.failed /\ s.internal # 0 /\ c.tofree = {} /\ s.base # 0
              [] ret = "MEM_ERROR" -> c.failed /\ (HandleGone(s) \/ Bug = "no_end_on_fail")
              [] OTHER -> ~c.failed /\ HandleGone(s)
      [] c.pc = "code" /\ c.cls = "Async" -> ret = "none"
      [] c.pc = "code" ->
            /\ c.cls = "Update" => same
            /\ ret # "none"
            /\ IF s.init \in Threaded
               THEN /\ ret = "MEM_ERROR" => (c.failed \/ s.pend \/ s.stale)
                    /\ ret = "STREAM_END" => ~(c.failed \/ s.pend)
               ELSE (ret = "MEM_ERROR") <=> (c.failed /\ Bug # "swallow")
      [] c.pc = "end" -> ret = "none" /\ (s.internal = 0 \/ Bug = "double_end") /\ s.coder = {}
      [] c.pc = "obj" ->
            /\ same /\ ret \notin {"none", "STREAM_END"}
            /\ IF c.failed \/ ret # "OK"
               THEN /\ (ret = "MEM_ERROR") <=> c.failed
                    /\ c.tmp = {} \/ Bug = "leak_on_fail"       \* exactly the temporaries are freed
                    /\ s.objs = s.snap                          \* nothing of the caller's was freed
               ELSE CASE c.cls \in {"Free", "OneShot"} -> c.tmp = {} /\ Own(s, c.tgt) = {}
                      [] OTHER -> TRUE
      [] OTHER -> FALSE

RetDo(s, ret, same) ==
    LET c == s.call
        fin(t) == [t EXCEPT !.call = Idle,
                            !.last = [cls |-> c.cls, k |-> c.k, ret |-> ret, failed |-> c.failed,
                                      thr |-> ThreadedNow(s) /\ c.cls \in HandleClasses]]
    IN CASE c.pc = "early_fail" -> fin(s)
         \* a worker of the reused threaded coder that fails while it is being stopped during this very call leaves
         \* its error behind: it is reported by a later lzma_code() of the new stream
         [] c.pc = "body" -> fin([s EXCEPT !.usable = (ret = "OK"), !.pend = FALSE,
                                           !.stale = s.stale /\ ret = "OK" /\ c.k \in Threaded])
         [] c.pc = "code" -> fin([s EXCEPT !.pend = IF ret = "MEM_ERROR" THEN FALSE ELSE (@ \/ c.failed) /\ (s.init \in Threaded),
                                           !.stale = IF ret = "MEM_ERROR" THEN FALSE ELSE @])
         [] c.pc = "end" -> fin([s EXCEPT !.pend = FALSE, !.stale = FALSE, !.usable = FALSE])
         [] c.pc = "obj" /\ (c.failed \/ ret # "OK") -> fin(s)
         [] c.pc = "obj" ->
              CASE c.cls \in {"New", "Derive"} -> fin([s EXCEPT !.objs[c.tgt] = [alive |-> TRUE, own |-> c.tmp]])
                [] c.cls = "Mutate" -> fin([s EXCEPT !.objs[c.tgt].own = @ \cup c.tmp])
                [] c.cls = "Cat" -> fin([s EXCEPT !.objs[c.tgt].own = @ \cup Own(s, c.src) \cup c.tmp,
                                                  !.objs[c.src] = DeadObj])
                [] c.cls = "Free" -> fin([s EXCEPT !.objs[c.tgt] = DeadObj])
                [] OTHER -> fin(s)
         [] OTHER -> s
=============================================================================
