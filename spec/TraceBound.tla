------------------------------ MODULE TraceBound -----------------------------
(* (R/V) for the bound part of C02: calls of the real single-call encoders      *)
(* (lzma_block_buffer_encode, lzma_stream_buffer_encode,                        *)
(* lzma_easy_buffer_encode) with output buffers of bound(n) + slack are compared *)
(* with the transcription in Bound.tla:                                         *)
(*   - the value of lzma_block_buffer_bound(n) / lzma_stream_buffer_bound(n)     *)
(*   - the return value (LZMA_BUF_ERROR with out_size >= bound is never a        *)
(*     behaviour of the model: BoundSuffices)                                    *)
(*   - the number of bytes written, given how many bytes the compressor          *)
(*     produced (comp = size of the Block's LZMA2 data when the configured       *)
(*     chain was used, -1 when the output has the fallback shape or nothing      *)
(*     was produced).                                                            *)
EXTENDS Bound, Sequences, TLC, Json, IOUtils

TraceLog == ndJsonDeserialize(IOEnv.TRACE)
VARIABLES l, nok, nbuf
IsEvent(e) == l <= Len(TraceLog) /\ TraceLog[l].e = e /\ l' = l + 1
T == TraceLog[l]

TInit == l = 1 /\ nok = 0 /\ nbuf = 0

Model(t) == IF t.kind = "block" THEN BlockBufferEncode(t.n, t.osz, t.chk, t.fsz, t.comp)
            ELSE StreamBufferEncode(t.n, t.osz, t.chk, t.fsz, t.comp)
BoundOf(k, x) == IF k = "block" THEN BlockBufferBound(x) ELSE StreamBufferBound(x)

TCall == /\ IsEvent("Call")
         /\ T.bound = BoundOf(T.kind, T.n)                       \* the public bound function agrees with the transcription
         /\ T.osz >= T.bound => T.ret = "OK"                      \* the guarantee of the property
         /\ LET m == Model(T) IN
            /\ m.ret = T.ret
            /\ T.ret = "OK" => (m.total = T.total /\ T.total <= T.osz /\ (m.path = "fallback") = T.fallback)
         /\ nok' = nok + (IF T.ret = "OK" THEN 1 ELSE 0)
         /\ nbuf' = nbuf + (IF T.ret = "OK" THEN 0 ELSE 1)

TNext == TCall
TSpec == TInit /\ [][TNext]_<<l, nok, nbuf>>
TraceAccepted == TLCGet("stats").diameter - 1 = Len(TraceLog)
=============================================================================
