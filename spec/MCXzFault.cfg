SPECIFICATION Spec
CONSTANTS Variant = "ok" BaseSet = "all"
INVARIANTS NeverWrongSuccess DamageOutsidePayloadDetected TruncatedNeverComplete BoundaryCutIsPrefix UnseenIsHarmless NoFaultNoError RetDocumented
CHECK_DEADLOCK FALSE
