SPECIFICATION Spec
CONSTANTS
 BugDupChecks = FALSE  BugIterEmpty = FALSE  BugAppendTotal = FALSE
 NSlots = 2  MaxStreams = 3  MaxRecs = 3
 USizes <- LimU  VSizes <- LimV  Pads <- LimP  FlagSet <- NoValues
 CommonU <- NoValues  CommonV <- NoValues
 FamStreams <- NoValues  FamBase = 3  FamGroups <- NoValues
 ParkA <- NoValues  ParkB <- NoValues
 EncN <- NoValues
 HashU <- NoValues  HashV <- NoValues
 Volume = FALSE
 MinSteps = 99  MaxSteps = 5
VIEW ViewNoIter
ACTION_CONSTRAINT EmitT
CHECK_DEADLOCK FALSE
