------------------------------ MODULE GenCliOpts -----------------------------
(* Option combinations of `xz -z` for the CLI round trip of C18: every       *)
(* combination the tool accepts (args.c / coder.c: .lzma takes exactly one   *)
(* LZMA1 filter and has neither blocks nor an integrity check) is printed;   *)
(* the prediction is the same for all of them: exit status 0 and             *)
(* decompress(compress(x)) = x for every thread count.                       *)
EXTENDS Naturals, TLC, Json
VARIABLE c
Combos == [fmt : {"xz", "lzma"}, preset : {0, 3, 6}, extreme : BOOLEAN, threads : {1, 4},
           blockSize : {0, 4096, 30000}, blockList : {"", "7000,20000", "10000,0"},
           filters : {"", "delta:dist=4 lzma2:preset=1", "x86 lzma2:dict=64KiB,lc=4,lp=0"},
           check : {"", "crc32", "sha256", "none"}]
Accepted(x) == x.fmt = "lzma" => x.blockSize = 0 /\ x.blockList = "" /\ x.filters = "" /\ x.check = "" /\ x.threads = 1
Init == c \in {x \in Combos : Accepted(x)}
Next == UNCHANGED c
Spec == Init /\ [][Next]_c
Emit == PrintT(<<"PLAN", ToJson([c |-> c, exit |-> 0, roundtrip |-> TRUE])>>)
=============================================================================
