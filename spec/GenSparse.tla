------------------------------ MODULE GenSparse ------------------------------
(* Plan generation for C18 (output side): every sequence of <= MaxBufs model *)
(* buffers (B = 2: 00 01 10 11 full, 0 / 1 short, empty) is printed once;    *)
(* the driver scales each to real 8 KiB units (the two halves of a full      *)
(* buffer split at a varying offset, short buffers of varying length) so that*)
(* zero runs start and end at every offset class relative to 8192.           *)
EXTENDS Naturals, Sequences, TLC, Json
CONSTANTS B, MaxBufs
VARIABLE seq
Bufs == UNION {{f : f \in [1..n -> {0, 1}]} : n \in 0..B}
Init == seq = <<>>
Next == Len(seq) < MaxBufs /\ \E b \in Bufs : seq' = Append(seq, b)
Spec == Init /\ [][Next]_seq
Emit == PrintT(<<"PLAN", ToJson([bufs |-> seq'])>>)
=============================================================================
