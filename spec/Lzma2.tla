-------------------------------- MODULE Lzma2 --------------------------------
(* The LZMA2 chunk layer (C03): control-byte state machine of                 *)
(* lzma2_decoder.c over an ABSTRACT verdict of each LZMA payload (the payload *)
(* itself is the business of Lz.tla).                                         *)
(*                                                                            *)
(* Chunk == [k     : "end" | "unc" | "lzma" | "bad"      (control 0x00 | 0x01,0x02 | >= 0x80 | 0x03..0x7F)  *)
(*           reset : unc: "dict" | "none";  lzma: "none" | "state" | "props" | "all"  (0x80 0xA0 0xC0 0xE0)  *)
(*           props : "ok" | "bad"     lc/lp/pb byte (present iff reset in {"props","all"})                 *)
(*           pl    : "ok" | "err" | "short" | "long" | "rcend"   verdict of the LZMA payload against the    *)
(*                    chunk's sizes: decodes exactly / data error / needs fewer / needs more than           *)
(*                    Compressed Size / decodes exactly but the range coder does not end with code = 0      *)
(*           n, c  : uncompressed bytes produced, bytes of the chunk in the file (header included)]         *)
EXTENDS Naturals, Sequences, FiniteSets

(* The properties byte of an LZMA chunk (control >= 0xC0): (pb * 5 + lp) * 9 + lc with lc + lp <= 4 (LZMA2 only) *)
PropsLc(b) == b % 9
PropsLp(b) == (b \div 9) % 5
PropsPb(b) == b \div 45
PropsByteValid(b) == b <= (4 * 5 + 4) * 9 + 8 /\ PropsLc(b) + PropsLp(b) <= 4

(* ------------------------------------------------------------------------ *)
(* OPERATIONAL: lzma2_decode().  st = [needProps, needDict, ret, out, used]  *)
(* ret: "run" | "STREAM_END" | "DATA_ERROR" | "DATA_OR_BUF"                   *)
(* ------------------------------------------------------------------------ *)
L2Init(presetDict) == [needProps |-> TRUE, needDict |-> ~presetDict, ret |-> "run", out |-> <<>>, used |-> 0]

L2Fail(st, code) == [st EXCEPT !.ret = code]
(* SEQ_CONTROL *)
L2Control(st, ch) ==
    IF ch.k = "end" THEN [st EXCEPT !.ret = "STREAM_END", !.used = st.used + 1]
    ELSE LET dictReset == (ch.k = "lzma" /\ ch.reset = "all") \/ (ch.k = "unc" /\ ch.reset = "dict")
             \* "if (control >= 0xE0 || control == 1) { need_properties = true; need_dictionary_reset = true; }
             \*  else if (need_dictionary_reset) return LZMA_DATA_ERROR;"
             s1 == IF dictReset THEN [st EXCEPT !.needProps = TRUE, !.needDict = TRUE] ELSE st
         IN IF ~dictReset /\ st.needDict THEN L2Fail(st, "DATA_ERROR")
            ELSE IF ch.k = "lzma"
                 THEN IF ch.reset \in {"props", "all"}            \* control >= 0xC0
                      THEN [s1 EXCEPT !.needProps = FALSE, !.needDict = FALSE]
                      ELSE IF s1.needProps THEN L2Fail(s1, "DATA_ERROR")
                      ELSE [s1 EXCEPT !.needDict = FALSE]
                 ELSE IF ch.k = "bad" THEN L2Fail(s1, "DATA_ERROR")   \* "if (control > 2) return LZMA_DATA_ERROR"
                 ELSE [s1 EXCEPT !.needDict = FALSE]
(* SEQ_PROPERTIES, SEQ_LZMA / SEQ_COPY *)
L2Body(st, ch) ==
    IF st.ret # "run" THEN st
    ELSE IF ch.k = "unc" THEN [st EXCEPT !.out = Append(st.out, ch.id), !.used = st.used + ch.c]
    ELSE IF ch.reset \in {"props", "all"} /\ ch.props = "bad" THEN L2Fail(st, "DATA_ERROR")  \* lzma_lzma_lclppb_decode
    ELSE CASE ch.pl = "ok"    -> [st EXCEPT !.out = Append(st.out, ch.id), !.used = st.used + ch.c]
           [] ch.pl = "err"   -> L2Fail(st, "DATA_ERROR")
           [] ch.pl = "short" -> L2Fail(st, "DATA_ERROR")     \* "if (coder->compressed_size != 0) return LZMA_DATA_ERROR"
           [] ch.pl = "rcend" -> L2Fail(st, "DATA_ERROR")     \* lzma_decoder.c: "if (rc_is_finished(rc)) ... else if (!coder->allow_eopm) LZMA_DATA_ERROR"
           [] OTHER           -> L2Fail(st, "DATA_OR_BUF")    \* "if (in_used > coder->compressed_size)" - needs bytes after the chunk
L2Step(st, ch) == L2Body(L2Control(st, ch), ch)

RECURSIVE L2RunFrom(_, _)
L2RunFrom(st, chunks) == IF chunks = <<>> \/ st.ret # "run" THEN st ELSE L2RunFrom(L2Step(st, Head(chunks)), Tail(chunks))
(* the whole stream; input ending before an end marker leaves ret = "run" (the caller sees LZMA_OK: more input needed) *)
L2Run(chunks) == L2RunFrom(L2Init(FALSE), chunks)

(* ------------------------------------------------------------------------ *)
(* DECLARATIVE: which chunk sequences are LZMA2 streams, and what they mean  *)
(* ------------------------------------------------------------------------ *)
IsDictReset(ch) == (ch.k = "lzma" /\ ch.reset = "all") \/ (ch.k = "unc" /\ ch.reset = "dict")
SetsProps(ch) == ch.k = "lzma" /\ ch.reset \in {"props", "all"}
EndIndex(chunks) == IF \E i \in 1..Len(chunks) : chunks[i].k = "end"
                    THEN CHOOSE i \in 1..Len(chunks) : chunks[i].k = "end" /\ \A j \in 1..(i - 1) : chunks[j].k # "end"
                    ELSE 0
L2Valid(chunks) ==
    LET e == EndIndex(chunks) IN
    /\ e > 0                                                       \* terminated by the end marker
    /\ \A i \in 1..(e - 1) :
          /\ chunks[i].k \in {"unc", "lzma"}                        \* control byte defined
          /\ \E j \in 1..i : IsDictReset(chunks[j])                  \* the first chunk resets the dictionary
          /\ chunks[i].k = "lzma" =>
                /\ \E j \in 1..i :                                   \* properties were set after the last dictionary reset
                      /\ SetsProps(chunks[j])
                      /\ \A m \in (j + 1)..i : ~IsDictReset(chunks[m])
                /\ SetsProps(chunks[i]) => chunks[i].props = "ok"
                /\ chunks[i].pl = "ok"
L2Meaning(chunks) == [i \in 1..(EndIndex(chunks) - 1) |-> chunks[i].id]
L2Size(chunks) == LET RECURSIVE Sum(_)
                      Sum(i) == IF i = 0 THEN 0 ELSE Sum(i - 1) + (IF chunks[i].k = "end" THEN 1 ELSE chunks[i].c)
                  IN Sum(EndIndex(chunks))
=============================================================================
