SPECIFICATION GSpec
CONSTANTS MaxIn = 0 MaxOut = 0 MaxFeed = 0 MaxGrant = 0 Inputs = {}
 NB = 5 MaxCuts = 2 MaxZero = 1
VIEW GView
CONSTRAINT Emit
INVARIANT PlanHolds
CHECK_DEADLOCK FALSE
