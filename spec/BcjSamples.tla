----------------------------- MODULE BcjSamples -----------------------------
(* Inputs for the BCJ models: byte strings assembled from the opcode-pattern  *)
(* classes of each architecture.  Every byte is drawn, by a small LCG, from a *)
(* position-dependent alphabet of the byte values that decide whether and how *)
(* the transform fires (opcodes, most-significant displacement bytes, range   *)
(* gates, register fields), mixed with uniformly random bytes (Rnd).          *)
EXTENDS Bcj

LcgNext(x) == (75 * x + 74) % 65537
Rands(seed, n) == FoldLeft(LAMBDA acc, i : <<Append(acc[1], acc[2]), LcgNext(acc[2])>>,
                           <<<<>>, LcgNext(LcgNext(seed % 65537))>>, Iota0(n))[1]
Pick(seq, r) == seq[(r % Len(seq)) + 1]
Rnd == 256                                 \* marker: a uniformly random byte

\* k = position of the byte in the sample (0-based)
Alphabet(arch, k) ==
    CASE arch = "x86" -> <<232, 232, 232, 233, 0, 0, 255, 255, Rnd, Rnd, 1, 127>>
      [] arch = "arm" -> IF k % 4 = 3 THEN <<235, 235, 235, Rnd>> ELSE <<Rnd, Rnd, 0, 255>>
      [] arch = "armthumb" -> IF k % 2 = 1 THEN <<240, 243, 247, 248, 251, 255, Rnd, 244>> ELSE <<Rnd, Rnd, 0, 255>>
      [] arch = "arm64" -> IF k % 4 = 3 THEN <<148, 151, 149, 144, 176, 208, 240, 144, Rnd, 145>>
                           ELSE IF k % 4 = 2 THEN <<0, 15, 240, 255, 7, 248, 16, 231, Rnd>>
                           ELSE <<Rnd, Rnd, 0, 255>>
      [] arch = "powerpc" -> IF k % 4 = 0 THEN <<72, 73, 74, 75, 76, Rnd>>
                             ELSE IF k % 4 = 3 THEN <<1, 5, 253, 1, 3, 0, Rnd>>
                             ELSE <<Rnd, Rnd, 0, 255>>
      [] arch = "sparc" -> IF k % 4 = 0 THEN <<64, 127, 64, 127, 65, Rnd>>
                           ELSE IF k % 4 = 1 THEN <<0, 63, 192, 255, 64, 191, Rnd>>
                           ELSE <<Rnd, Rnd, 0, 255>>
      [] arch = "riscv" ->
          (CASE k % 8 = 0 -> <<23, 151, 239, 23, 151, Rnd, 1>>
             [] k % 8 = 1 -> <<0, 1, 49, 113, 5, 128, 2, 240, 18, 4, 6, 8, 196, Rnd>>
             [] k % 8 = 2 -> <<Rnd, 0, 255, 16>>
             [] k % 8 = 3 -> <<Rnd, 0, 16, 8, 248, 255>>
             [] k % 8 = 4 -> <<3, 103, 19, 231, 1, 23, 151, 239, Rnd>>
             [] k % 8 = 5 -> <<128, 0, 129, 0, 4, 2, 8, Rnd>>
             [] k % 8 = 6 -> <<0, 2, 15, 240, 1, Rnd>>
             [] k % 8 = 7 -> <<Rnd, 0, 128, 255, 127>>)
      [] arch = "ia64" -> IF k % 16 = 0 THEN <<16, 17, 18, 19, 22, 23, 24, 25, 28, 29, 0, 20, 214, 242>> ELSE <<Rnd>>

Raw(arch, n, seed, shift) ==
    LET rs == Rands(seed, 2 * n)
    IN [i \in 1..n |-> LET c == Pick(Alphabet(arch, i - 1 + shift), rs[2 * i - 1] \div 3)
                       IN IF c = Rnd THEN (rs[2 * i] \div 5) % 256 ELSE c]

\* IA-64: force, in about 3 of 4 slots, opcode 5 (bits 37..40) and bits 9..11 = 0 so that branch slots occur
Ia64Force(b, seed) ==
    LET nb == Len(b) \div 16
        rs == Rands(seed + 7, 3 * nb + 1)
    IN FoldLeft(LAMBDA bb, j :
                  LET i == 16 * (j \div 3)  slot == j % 3  r == rs[j + 1]  s0 == 5 + 41 * slot
                  IN IF r % 4 = 0 THEN bb
                     ELSE IF r % 4 = 1 THEN SetBundleBits(bb, i, s0 + 37, U32(5), 4, 0)
                     ELSE SetBundleBits(SetBundleBits(bb, i, s0 + 37, U32(5), 4, 0), i, s0 + 9, U32(0), 3, 0),
                b, Iota0(3 * nb))

\* shift: the alphabet pattern is moved by `shift` bytes (instructions that are not aligned to the scan grid)
Sample(arch, n, seed, shift) ==
    IF arch = "ia64" THEN Ia64Force(Raw(arch, n, seed, 0), seed) ELSE Raw(arch, n, seed, shift)

\* hand-made x86 class: two opcodes `d` bytes apart, most significant operand bytes m1, m2
X86Pair(d, op1, op2, m1, m2, fill) ==
    LET first == <<op1, 17, 34, 51, m1>>
        base  == first \o [i \in 1..(d + 8) |-> fill]
    IN [i \in 1..Len(base) |-> IF i = d + 1 THEN op2 ELSE IF i = d + 5 /\ d > 0 THEN m2 ELSE
                               IF i = 1 THEN op1 ELSE base[i]]

\* hand-made ARM64 class: ADRP with every value of the four page-offset bits that the +-512 MiB gate inspects
\* (imm bits 17..20 = high nibble of the third byte), followed by a BL and an incomplete word
Arm64Gate == <<1, 0, 0, 144,  2, 0, 16, 176,  3, 0, 32, 208,  4, 0, 64, 240,  5, 0, 128, 144,  6, 255, 224, 176,
               7, 255, 240, 208,  8, 255, 208, 240,  9, 255, 255, 151,  144, 0>>

\* hand-made RISC-V class: JAL with each of the 16 values of rd[4:1] (only x1 and x5 are converted), then an
\* AUIPC+JALR pair for every second rd, then bytes that cannot be completed
RvJalAll == LET jal(v) == <<239, 48 + v, 18 + v, 52>>
                pair(rd) == <<23 + 128 * (rd % 2), 16 * 5 + (rd \div 2), 52, 18,  103, 128 * (rd % 2), (rd \div 2) + 16 * 7, 254>>
            IN jal(0) \o jal(1) \o jal(2) \o jal(3) \o jal(4) \o jal(5) \o jal(6) \o jal(7) \o jal(8) \o jal(9) \o jal(10)
               \o jal(11) \o jal(12) \o jal(13) \o jal(14) \o jal(15) \o pair(1) \o pair(2) \o pair(3) \o pair(5) \o pair(10)
               \o pair(31) \o pair(0) \o <<239, 0, 1>>

\* start offsets: 0, small aligned, near the 32-bit wrap, large
Offsets(arch) == LET a == Alignment(arch)
                 IN {<<0, 0>>, U32(a), U32(16 * 4099), H32(\hFFFF, 65536 - 16), H32(\h8000, 0), H32(\h7FFF, 65536 - 32)}
=============================================================================
