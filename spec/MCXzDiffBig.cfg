SPECIFICATION MCSpec
CONSTANTS Strict = FALSE  Big = TRUE
INVARIANTS TypeOK StatusContract MissingContract UsageContract DecContract StemContract
CHECK_DEADLOCK FALSE
