------------------------------ MODULE MCXzDiff ------------------------------
(* C20 (M): XzDiff => XzDiffContract over option words x operand lists x operand states *)
EXTENDS XzDiffContract, TLC
CONSTANTS Strict, Big

OptSeqs == { <<>>, <<"-q">>, <<"-u", "--brief">>, <<"--">>, <<"-s", "--">>, <<"--help">>, <<"-q", "--version">>, <<"--he">> }
Names1  == { "@1.xz", "@1", "@1.gz", "@1.tbz2", "@1.txz", "@1-lzma", "@1.txt", "-" }
           \cup (IF Big THEN { "@1.lz", "@1.tgz", "@1.tlz", "@1.Z", "@1.tbz", "@1.lzo", "@1.tzst", "@1.lz4", "@1-z" } ELSE {})
Names2  == { "@2.xz", "@2", "@2.bz2", "-", "@2.tlz" }
OpLists == IF Strict THEN {<<"@1.xz", "-">>, <<"@1", "-">>, <<"-", "@2.xz">>} ELSE {<<>>} \cup {<<a>> : a \in Names1} \cup {<<a, b>> : a \in Names1, b \in Names2} \cup {<<"@1.xz", "@2", "@3">>}
Conds   == {"ok", "plain", "missing", "corrupt", "late", "pipe", "kill"}
OSt     == [cond : Conds, c : {"A", "B"}]
SinSt   == [cond : {"ok", "plain"}, c : {"A", "B"}]

HasDash(l) == \E i \in 1..Len(l) : l[i] = "-"
Dflt == [cond |-> "ok", c |-> "A"]
\* by symmetry the first operand's content is "A"; irrelevant environment components are fixed
MCInit == \E p \in {"xzdiff"}, o \in OptSeqs, l \in OpLists :
          \E s1 \in {s \in OSt : s.c = "A"},
             s2 \in (IF Len(l) >= 2 THEN OSt ELSE {Dflt}),
             sm \in (IF Len(l) = 1 THEN {"absent", "A", "B"} ELSE {"absent"}),
             si \in (IF HasDash(l) THEN SinSt ELSE {Dflt}) :
             InitWith(p, o \o l, <<s1, s2, Dflt>>, sm, si)
MCSpec == MCInit /\ [][Next]_vars
StrictInv == IF Strict THEN StatusStrict ELSE TRUE
=============================================================================
