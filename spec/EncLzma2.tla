------------------------------ MODULE EncLzma2 ------------------------------
(* LZMA2 chunk rules over EncLz, used as the judge of what the LZMA2 encoder  *)
(* (lzma2_encoder.c) writes.  Format side (what a decoder must accept/reject):*)
(*   control 0x00            end of the LZMA2 stream                          *)
(*   control 0x01 / 0x02     uncompressed chunk (0x01 = dictionary reset),    *)
(*                           size 1..2^16                                     *)
(*   control 0x80..0xFF      LZMA chunk: bits 5-6 = reset level               *)
(*                           0 none, 1 state, 2 state+props, 3 all (dict),    *)
(*                           bits 0-4 = bits 16-20 of (uncompressed size-1);  *)
(*                           uncompressed 1..2^21, compressed 1..2^16         *)
(*   0x03..0x7F              invalid                                          *)
(*   the first chunk must reset the dictionary (unless a preset dictionary is *)
(*   used); after a dictionary reset the next LZMA chunk must carry props;    *)
(*   props byte = (pb*5+lp)*9+lc with lc+lp <= 4, pb <= 4;                    *)
(*   an LZMA chunk expands to exactly its uncompressed size and has no end    *)
(*   marker; reps/state persist across chunks unless reset.                   *)
(* Encoder side (what lzma2_encoder.c does beyond the format, "profile"):     *)
(*   after an uncompressed chunk the encoder has reset its own LZMA state, so *)
(*   the next LZMA chunk must say so (level >= 1) for the decoder to mirror   *)
(*   it; props never change inside a stream unless the caller changes them:   *)
(*   PropsUpdate = lzma_filters_update() with new lc/lp/pb between two chunks *)
(*   (lzma2_encoder_options_update): the encoder resets its own LZMA state    *)
(*   and switches to the new lc/lp/pb, so the next LZMA chunk must announce   *)
(*   exactly that: new props byte (level >= 2, which implies state reset).    *)
(*   Whether the encoder really did reset/switch is decided by the expansion: *)
(*   the tokeniser decodes the following chunks with the announced props from *)
(*   a fresh state and the result must be the input.                          *)
(*                                                                            *)
(* Counters cprod/cavail are kept as numbers so that multi-MiB streams can be *)
(* judged from per-chunk aggregates without holding the bytes in TLC; in      *)
(* byte-exact mode EncLz's `out` is maintained in parallel and must agree.    *)
EXTENDS EncLz

CONSTANTS ChunkUncompMax,     \* LZMA2_UNCOMPRESSED_MAX = 2^21
          ChunkCompMax        \* LZMA2_CHUNK_MAX = 2^16

VARIABLES needDict, needProps, needState,    \* obligations for the next chunk
          cprod, cavail,                     \* bytes produced / bytes in the dictionary (numbers)
          props,                             \* current props byte, -1 = none yet
          cfgp,                              \* props byte the caller asked for (options / last PropsUpdate), -1 = not checked
          ch,                                \* open chunk: [kind |-> "none"] or [kind, usize, csize, start]
          fin                                \* end marker (control 0) seen
l2vars == <<needDict, needProps, needState, cprod, cavail, props, cfgp, ch, fin>>

NoChunk == [kind |-> "none"]

PropsValid(b) == /\ b \in 0..224
                 /\ (b % 9) + ((b \div 9) % 5) <= 4         \* lc + lp <= 4 (pb = b \div 45 <= 4 by b <= 224)
PropsByte(lc, lp, pb) == (pb * 5 + lp) * 9 + lc

Level(ctl) == (ctl \div 32) % 4
HighBits(ctl) == ctl % 32

L2Init(ds, preset, withLz) ==
    /\ IF withLz THEN LzInit(ds, preset)
       ELSE /\ out = <<>> /\ base = 0 /\ dstart = 0 /\ reps = <<0, 0, 0, 0>> /\ lzst = 0
            /\ dictSize = ds /\ ended = FALSE
    /\ needDict = (Len(preset) = 0)              \* lzma2_encoder_init: no reset needed with a preset dictionary
    /\ needProps = TRUE /\ needState = FALSE
    /\ cprod = 0 /\ cavail = Min(Len(preset), ds)
    /\ props = -1 /\ cfgp = -1 /\ ch = NoChunk /\ fin = FALSE

\* ---- LZMA chunk header
LzmaChunkOK(ctl, usize, csize, pbyte) ==
    /\ ~fin /\ ch = NoChunk
    /\ ctl \in 128..255
    /\ usize \in 1..ChunkUncompMax
    /\ csize \in 1..ChunkCompMax
    /\ HighBits(ctl) = (usize - 1) \div 65536
    /\ needDict => Level(ctl) = 3
    /\ needProps => Level(ctl) >= 2
    /\ needState => Level(ctl) >= 1                          \* encoder profile
    /\ (Level(ctl) >= 2) <=> (pbyte # -1)
    /\ pbyte # -1 => PropsValid(pbyte)
    /\ (pbyte # -1 /\ cfgp # -1) => pbyte = cfgp             \* the props byte tells the truth about the lc/lp/pb in force

LzmaChunkBegin(ctl, usize, csize, pbyte, withLz) ==
    /\ LzmaChunkOK(ctl, usize, csize, pbyte)
    /\ ch' = [kind |-> "lzma", usize |-> usize, csize |-> csize, start |-> cprod]
    /\ props' = IF pbyte # -1 THEN pbyte ELSE props
    /\ cavail' = IF Level(ctl) = 3 THEN 0 ELSE cavail
    /\ needDict' = FALSE /\ needProps' = FALSE /\ needState' = FALSE
    /\ IF withLz
       THEN /\ IF Level(ctl) = 3 THEN DictReset ELSE UNCHANGED dstart
            /\ IF Level(ctl) >= 1 THEN StateReset ELSE UNCHANGED <<reps, lzst>>
            /\ UNCHANGED <<out, base, dictSize, ended>>
       ELSE UNCHANGED lzvars
    /\ UNCHANGED <<cprod, cfgp, fin>>

\* ---- end of an LZMA chunk, aggregate form: what the tokeniser measured for the whole chunk
\*      a = [lit, match, rep (sum of 4), srep, eopm, maxdist (1-based, 0 = no copy), maxlen, minslack (-1 = no copy), outlen, used]
AggOK(a) ==
    /\ ch.kind = "lzma"
    /\ a.eopm = 0                                            \* no end marker inside LZMA2
    /\ a.outlen = ch.usize                                   \* stored uncompressed size is truthful
    /\ a.used = ch.csize                                     \* stored compressed size is truthful
    /\ LET copies == a.match + a.rep IN
       /\ (copies > 0) =>                                     \* (short reps reuse rep0: already counted or the initial 1)
            /\ a.maxdist >= 1
            /\ a.maxdist <= dictSize                         \* no copy reaches farther back than the dictionary size
            /\ a.maxdist <= cavail + ch.usize - 1            \* ... nor before the start of the dictionary
            /\ a.minslack >= 0                               \* exact per-copy test done by the tokeniser
       /\ (copies > 0) => a.maxlen \in LenMin..LenMax
       /\ (copies = 0) => a.maxlen = 0 \/ a.maxlen = 1
       /\ a.lit + a.srep + copies * LenMin <= ch.usize
       /\ ch.usize <= a.lit + a.srep + copies * Max(a.maxlen, LenMin)
       /\ (cavail = 0) => a.lit >= 1                         \* an empty dictionary can only be started by a literal

LzmaChunkEndAgg(a) ==
    /\ AggOK(a)
    /\ cprod' = cprod + ch.usize
    /\ cavail' = cavail + ch.usize
    /\ ch' = NoChunk
    /\ UNCHANGED <<needDict, needProps, needState, props, cfgp, fin>>
    /\ UNCHANGED lzvars

\* ---- end of an LZMA chunk, byte-exact form: the symbols have been applied to EncLz
LzmaChunkEndBytes ==
    /\ ch.kind = "lzma"
    /\ ~ended
    /\ Produced - ch.start = ch.usize
    /\ cprod' = cprod + ch.usize
    /\ cavail' = cavail + ch.usize
    /\ ch' = NoChunk
    /\ UNCHANGED <<needDict, needProps, needState, props, cfgp, fin>>
    /\ UNCHANGED lzvars

\* a symbol inside an LZMA chunk may not run past the chunk's uncompressed size
InLzmaChunk(n) == ch.kind = "lzma" /\ Produced + n - ch.start <= ch.usize

\* ---- uncompressed chunk
UncChunkOK(ctl, size) ==
    /\ ~fin /\ ch = NoChunk
    /\ ctl \in {1, 2}
    /\ size \in 1..ChunkCompMax
    /\ needDict => ctl = 1

UncChunk(ctl, size, bytes, withLz) ==
    /\ UncChunkOK(ctl, size)
    /\ cprod' = cprod + size
    /\ cavail' = (IF ctl = 1 THEN 0 ELSE cavail) + size
    /\ needDict' = FALSE
    /\ needProps' = (IF ctl = 1 THEN TRUE ELSE needProps)
    /\ needState' = TRUE                                     \* encoder profile: lzma2_encode() sets need_state_reset
    /\ IF withLz
       THEN /\ Len(bytes) = size
            /\ out' = out \o bytes
            /\ dstart' = IF ctl = 1 THEN Len(out) ELSE dstart
            /\ UNCHANGED <<base, reps, lzst, dictSize, ended>>
       ELSE UNCHANGED lzvars
    /\ UNCHANGED <<props, cfgp, ch, fin>>

\* ---- lzma_filters_update() with different lc/lp/pb, legal only between chunks (sequence == SEQ_INIT)
PropsUpdate(nb) ==
    /\ ~fin /\ ch = NoChunk
    /\ PropsValid(nb)
    /\ nb # cfgp                                              \* (equal values are a no-op in the code)
    /\ cfgp' = nb
    /\ needProps' = TRUE /\ needState' = TRUE
    /\ UNCHANGED <<needDict, cprod, cavail, props, ch, fin>>
    /\ UNCHANGED lzvars

\* ---- end marker
EndChunk ==
    /\ ~fin /\ ch = NoChunk
    /\ fin' = TRUE
    /\ UNCHANGED <<needDict, needProps, needState, cprod, cavail, props, cfgp, ch>>
    /\ UNCHANGED lzvars

L2TypeOK ==
    /\ needDict \in BOOLEAN /\ needProps \in BOOLEAN /\ needState \in BOOLEAN
    /\ cprod \in Nat /\ cavail \in Nat /\ props \in -1..224 /\ cfgp \in -1..224 /\ fin \in BOOLEAN
=============================================================================
