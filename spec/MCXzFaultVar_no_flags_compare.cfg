SPECIFICATION Spec
CONSTANTS Variant = "no_flags_compare" BaseSet = "all"
INVARIANTS NeverWrongSuccess DamageOutsidePayloadDetected TruncatedNeverComplete BoundaryCutIsPrefix UnseenIsHarmless NoFaultNoError RetDocumented
CHECK_DEADLOCK FALSE
