SPECIFICATION Spec
CONSTANTS Variant = "no_flags_compare" BaseSet = "all"
INVARIANTS NeverWrongSuccess DamageOutsidePayloadDetected TruncatedNeverComplete BoundaryCutIsPrefix NoFaultNoError RetDocumented
CHECK_DEADLOCK FALSE
