SPECIFICATION Spec
CONSTANTS Variant = "ok"
INVARIANTS LzNeverWrongSuccess LzFooterDamageDetected TruncatedNeverComplete NoFaultNoError
CHECK_DEADLOCK FALSE
