SPECIFICATION StSpec
CONSTANTS MaxIn = 0 MaxOut = 0 MaxFeed = 1 MaxGrant = 1
 Family = "lzip" Rederive = TRUE Stuck = FALSE
 Inputs <- SmallInputs
 InnerRet <- LazyRet
INVARIANTS DocumentedOnly NoInternal
PROPERTY StarveLive
CHECK_DEADLOCK FALSE
