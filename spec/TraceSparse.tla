----------------------------- MODULE TraceSparse -----------------------------
(* Trace validation for C18 (output side): the write / lseek / fcntl calls   *)
(* that the real xz issued on its output descriptor (strace) must be exactly *)
(* the calls of Sparse for the same sink and the same sequence of 8 KiB      *)
(* output buffers, with the same offsets returned by lseek; at the end the   *)
(* size, offset and O_APPEND flag observed by the harness must be the        *)
(* model's.  A log is a concatenation of executions:                         *)
(*   Reset {kind,size,off,append,nonblock,sparse,decompress,bufs:[[len,zero]]}*)
(*   sys*  one event per system call                                         *)
(*   End   {size, off, append, nonblock, success}                            *)
(* One model step consumes all the calls it issues (possibly none).          *)
EXTENDS Sparse, TLC, Json, IOUtils

TraceLog == ndJsonDeserialize(IOEnv.TRACE)
VARIABLES l, bufs, bi, conf
tvars == <<svars, l, bufs, bi, conf>>

Ev(i) == TraceLog[i]
IsE(i, e) == i <= Len(TraceLog) /\ Ev(i).e = e

Match(ev, s) ==
    /\ ev.e = "sys" /\ ev.call = s.call
    /\ CASE s.call = "write" -> ev.len = s.len
         [] s.call = "lseek" -> ev.whence = s.whence /\ ev.arg = s.arg /\ ev.ret = s.ret
         [] s.call \in {"getfl", "setfl"} -> ev.append = s.append /\ ev.nonblock = s.nonblock
Consume == /\ l + Len(sys') - 1 <= Len(TraceLog)
           /\ \A j \in 1..Len(sys') : Match(Ev(l + j - 1), sys'[j])
           /\ l' = l + Len(sys')
           /\ TLCSet(2, IF l' > TLCGet(2) THEN l' ELSE TLCGet(2))

TInit == /\ file = <<>> /\ size = 0 /\ off = 0 /\ flAppend = FALSE /\ flNonblock = FALSE /\ kind = "newfile"
         /\ trySparse = FALSE /\ pending = 0 /\ restore = FALSE /\ saved = [append |-> FALSE, nonblock |-> FALSE]
         /\ sys = <<>> /\ written = <<>> /\ pc = "idle" /\ l = 1 /\ bufs = <<>> /\ bi = 1
         /\ conf = [sparse |-> FALSE, decompress |-> FALSE]
         /\ TLCSet(2, 1)

TReset == /\ pc \in {"idle", "ended"} /\ IsE(l, "Reset")
          /\ LET t == Ev(l) IN
             /\ kind' = t.kind /\ size' = t.size /\ off' = t.off /\ flAppend' = t.append /\ flNonblock' = t.nonblock
             /\ bufs' = t.bufs /\ conf' = [sparse |-> t.sparse, decompress |-> t.decompress]
          /\ file' = <<>> /\ trySparse' = FALSE /\ pending' = 0 /\ restore' = FALSE
          /\ saved' = [append |-> FALSE, nonblock |-> FALSE] /\ sys' = <<>> /\ written' = <<>>
          /\ pc' = "open" /\ bi' = 1 /\ l' = l + 1
          /\ TLCSet(2, IF l' > TLCGet(2) THEN l' ELSE TLCGet(2))

TOpen == OpenDest(conf.sparse, conf.decompress) /\ Consume /\ UNCHANGED <<bufs, bi, conf>>
TWrite == /\ bi <= Len(bufs)
          /\ Write([len |-> bufs[bi][1], zero |-> bufs[bi][2], bytes |-> <<>>])
          /\ Consume /\ bi' = bi + 1 /\ UNCHANGED <<bufs, conf>>
(* the End event follows the calls of io_close(); it tells whether xz reported success *)
TClose == /\ pc = "write" /\ bi > Len(bufs)
          /\ \E k \in 0..3 : /\ IsE(l + k, "End")
                             /\ Close(Ev(l + k).success) /\ Len(sys') = k
          /\ Consume /\ UNCHANGED <<bufs, bi, conf>>
TEnd == /\ pc = "closed" /\ IsE(l, "End")
        /\ LET t == Ev(l) IN
           /\ (kind # "stdout_pipe" => size = t.size)
           /\ (kind = "stdout_reg" => off = t.off)
           /\ (kind # "newfile" => flAppend = t.append /\ flNonblock = t.nonblock)
        /\ pc' = "ended" /\ l' = l + 1
        /\ TLCSet(2, IF l' > TLCGet(2) THEN l' ELSE TLCGet(2))
        /\ UNCHANGED <<file, size, off, flAppend, flNonblock, kind, trySparse, pending, restore, saved, sys, written, bufs, bi, conf>>

TNext == TReset \/ TOpen \/ TWrite \/ TClose \/ TEnd
TSpec == TInit /\ [][TNext]_tvars
(* accepted iff every event was consumed; the position reached is printed for diagnosis *)
TraceAccepted == PrintT(<<"MAXL", TLCGet(2)>>) /\ TLCGet(2) = Len(TraceLog) + 1
=============================================================================
