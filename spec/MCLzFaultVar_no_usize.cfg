SPECIFICATION Spec
CONSTANTS Variant = "no_usize"
INVARIANTS LzNeverWrongSuccess LzFooterDamageDetected TruncatedNeverComplete NoFaultNoError
CHECK_DEADLOCK FALSE
