--------------------------- MODULE XzDiffContract ---------------------------
(* C20 - what xzdiff / xzcmp have to do, independently of the script's case analysis:    *)
(* the exit status is diff/cmp's verdict on the decompressed contents of operands whose  *)
(* name has a compression suffix (or is "-") and on the raw contents of the others;      *)
(* 2 when a file is missing, a needed decompression fails, or the usage is wrong.        *)
EXTENDS XzDiff

CompSufs == {".xz", "-xz", ".lzma", "-lzma", ".lz", "-lz", ".txz", ".tlz", ".gz", "-gz", ".tgz", ".taz", ".z", "-z",
             ".Z", "-Z", "_z", ".bz2", "-bz2", ".tbz", ".tbz2", ".lzo", "-lzo", ".tzo", ".zst", "-zst", ".tzst",
             ".lz4", "-lz4"}
RefComp(f) == f = "-" \/ \E s \in CompSufs : Suf(f, s)

Ops == args             \* at pc = "done" (outcome "ran"), args are the operands
N   == Len(Ops)
Cond(i) == IF Ops[i] = "-" THEN sin.cond ELSE ost[i].cond
Cont(i) == IF Ops[i] = "-" THEN sin.c ELSE ost[i].c
NeedsDec(i) == N = 1 \/ RefComp(Ops[i])
Undecodable(i) == NeedsDec(i) /\ Cond(i) \in {"corrupt", "late", "kill"}
\* an uncompressed file behind a compression suffix: either "undecodable" (2) or compared as it is
PlainBehindSuffix(i) == NeedsDec(i) /\ Cond(i) = "plain"
WantView(i) == IF NeedsDec(i) \/ Cond(i) = "plain" THEN <<"data", Cont(i)>> ELSE <<"raw", Cond(i), Cont(i)>>
WantVerdict == IF N = 1 THEN (IF stem = "absent" THEN 2 ELSE Verdict(WantView(1), <<"data", stem>>))
               ELSE IF Ops[1] = "-" /\ Ops[2] = "-" THEN 0
               ELSE Verdict(WantView(1), WantView(2))
WantExits ==
    IF \E i \in 1..N : Undecodable(i) THEN {2}
    ELSE IF \E i \in 1..N : PlainBehindSuffix(i) THEN {2, WantVerdict}
    ELSE {WantVerdict}

\* `xzdiff FILE.xz -`: the script feeds /dev/null to the second decompressor (known deviation, checked separately)
Stdin2Case == N = 2 /\ Ops[2] = "-" /\ Ops[1] # "-" /\ RefComp(Ops[1])

StatusContract ==
    (pc = "done" /\ outcome = "ran" /\ ~Stdin2Case) => exit \in WantExits
StatusStrict ==
    (pc = "done" /\ outcome = "ran") => exit \in WantExits
MissingContract ==
    /\ (pc = "done" /\ outcome = "missing") => \E i \in 1..Len(args) : args[i] # "-" /\ ost[i].cond = "missing"
    /\ (pc = "done" /\ outcome = "ran") => \A i \in 1..N : Ops[i] = "-" \/ ost[i].cond # "missing"
UsageContract ==
    /\ (pc = "done" /\ outcome = "usage") => Len(args) \notin {1, 2}
    /\ (pc = "done" /\ outcome = "unknownsuffix") => (Len(args) = 1 /\ (~RefComp(args[1]) \/ args[1] = "-"))
    /\ (pc = "done" /\ outcome = "ran" /\ N = 1) => RefComp(Ops[1])
\* which decompressor reads which operand
DecContract ==
    (pc = "done" /\ outcome = "ran" /\ N = 2) =>
        \A i \in 1..2 : (Ops[i] # "-") => (IsComp(Ops[i]) <=> RefComp(Ops[i]))
\* the one-operand form compares with the name minus its suffix (".tar" for the short tar suffixes)
StemContract ==
    (pc = "done" /\ outcome = "ran" /\ N = 1) =>
        \E s \in CompSufs : /\ Suf(Ops[1], s)
                            /\ stemname = SubSeq(Ops[1], 1, Len(Ops[1]) - Len(s))
                                          \o (IF Len(s) >= 3 /\ SubSeq(s, 1, 2) = ".t" /\ s \notin {".tbz2x"} THEN ".tar" ELSE "")
TypeOK == /\ pc \in {"scan", "exist", "run", "fold", "done"} /\ exit \in {0, 1, 2}
          /\ (pc = "done") = (outcome # "none")
Divergences == IF pc = "done" /\ outcome = "ran" /\ exit \notin WantExits THEN {"stdin-second-operand"} ELSE {}
=============================================================================
