SPECIFICATION TSpec
CONSTANTS LenMin = 2 LenMax = 273 RepeatMax = 288
POSTCONDITION TraceAccepted
CHECK_DEADLOCK FALSE
