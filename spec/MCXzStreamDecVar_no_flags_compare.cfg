SPECIFICATION Spec
CONSTANTS Profile = "quick" DevDepth = 1 FlagMode = "some" Variant = "no_flags_compare"
INVARIANTS AcceptIffValid MeaningExact OutIsPrefix RetDocumented FormatErrorOnlyFirst TellsSound PosBounded NoStarveOnValid
CHECK_DEADLOCK FALSE
