SPECIFICATION Spec
CONSTANTS MaxFiles = 3
ACTION_CONSTRAINT Emit
CHECK_DEADLOCK FALSE
