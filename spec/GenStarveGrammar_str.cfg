SPECIFICATION Spec
CONSTANTS Which = "str" MaxTokens = 2
CONSTRAINT Emit
CHECK_DEADLOCK FALSE
