SPECIFICATION StSpec
CONSTANTS MaxIn = 0 MaxOut = 0 MaxFeed = 1 MaxGrant = 1
 Family = "lzma1" Rederive = TRUE
 Inputs <- MCInputs
INVARIANTS DocumentedOnly NoInternal StarveBounded StallBounded BufErrorResumable
PROPERTY StarveLive
CHECK_DEADLOCK FALSE
