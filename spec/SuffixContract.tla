--------------------------- MODULE SuffixContract ---------------------------
(* The naming property of C19, stated without reference to how suffix.c     *)
(* computes names: in terms of the directory part / base name of a path and *)
(* of "the base name carries suffix s" (s is a proper suffix of the base).  *)
EXTENDS Suffix

Max(S) == CHOOSE x \in S : \A y \in S : x >= y
LastSep(n) == IF HasDirSep(n) THEN Max({i \in 1..Len(n) : IsDirSep(n[i])}) ELSE 0
Dir(n)  == SubSeq(n, 1, LastSep(n))
Base(n) == SubSeq(n, LastSep(n) + 1, Len(n))
EndsWith(n, s) == Len(n) >= Len(s) /\ SubSeq(n, Len(n) - Len(s) + 1, Len(n)) = s
CarriesB(b, s) == Len(b) > Len(s) /\ SubSeq(b, Len(b) - Len(s) + 1, Len(b)) = s
Carries(n, s)  == CarriesB(Base(n), s)       \* the base name has s as a proper suffix
Strip(n, s)    == SubSeq(n, 1, Len(n) - Len(s))

Builtin == {XZ, TXZ, LZMA, TLZ, LZ}
TarAbbrev == {TXZ, TLZ}
CustomSet(custom) == IF custom = NoCustom THEN {} ELSE {custom}
TargetSuffixes(fmt, custom) ==
    (CASE fmt = "xz" -> {XZ, TXZ} [] fmt = "lzma" -> {LZMA, TLZ} [] OTHER -> {}) \cup CustomSet(custom)
BuiltinKnown(fmt) == IF fmt = "raw" THEN {} ELSE Builtin      \* --format=raw knows no built-in suffix
KnownSuffixes(fmt, custom) == BuiltinKnown(fmt) \cup CustomSet(custom)
DefaultSuffix(fmt) == IF fmt = "xz" THEN XZ ELSE LZMA
Appended(fmt, custom) == IF custom # NoCustom THEN custom ELSE DefaultSuffix(fmt)

(* A usable file name: non-empty base (paths ending in '/' are directories) *)
FileName(n) == Base(n) # <<>>
(* configurations that get as far as naming a target                        *)
ValidCfg(fmt, custom) == /\ (custom # NoCustom => SuffixSet(custom) = "ok")
                         /\ ~RawNeedsSuffix(fmt, custom, FALSE)

(* ---- the documented exception of the round trip -------------------------*)
(* Appending a dot-less custom suffix to a name whose tail is the beginning *)
(* of a built-in suffix spells that (longer) built-in suffix, which takes   *)
(* precedence when decompressing: "a.l" + "zma", "a.t" + "xz", "a.lzm"+"a". *)
CustomSuffixSpellsBuiltin(n, fmt, custom) ==
    /\ fmt # "raw" /\ custom # NoCustom
    /\ \E b \in Builtin :
          /\ Len(custom) < Len(b) /\ EndsWith(b, custom)
          /\ Carries(n, SubSeq(b, 1, Len(b) - Len(custom)))
(* Out of the bound "custom suffix of length <= 3" but kept so that the     *)
(* characterisation is exact for every custom suffix: the custom suffix     *)
(* itself ends with a built-in one that is shorter, or is .txz/.tlz (which  *)
(* map to .tar).                                                            *)
CustomSuffixContainsBuiltin(fmt, custom) ==
    /\ fmt # "raw" /\ custom # NoCustom
    /\ \E b \in Builtin : EndsWith(custom, b) /\ (Len(custom) > Len(b) \/ b \in TarAbbrev)
RoundTripException(n, fmt, custom) ==
    CustomSuffixSpellsBuiltin(n, fmt, custom) \/ CustomSuffixContainsBuiltin(fmt, custom)

(* ---- contract clauses, for one (name, format, custom suffix) ------------*)
(* c / u are the results of the transcription, passed in so that TLC        *)
(* evaluates them once per (name, format, custom).                          *)
CompressSkipExact(n, fmt, custom, c) ==
    (c.kind = "skip") <=> (\E s \in TargetSuffixes(fmt, custom) : Carries(n, s))
CompressAppends(n, fmt, custom, c) ==
    c.kind = "name" => /\ c.name = n \o Appended(fmt, custom)
                       /\ Dir(c.name) = Dir(n)
                       /\ Base(c.name) = Base(n) \o Appended(fmt, custom)
                       /\ c.name # n
CompressSkipNamesSuffix(n, fmt, custom, c) ==
    c.kind = "skip" => c.why = "has_suffix" /\ c.suf \in TargetSuffixes(fmt, custom) /\ Carries(n, c.suf)

DecompressSkipExact(n, fmt, custom, u) ==
    (u.kind = "skip") <=> ~(\E s \in KnownSuffixes(fmt, custom) : Carries(n, s))
DecompressStrips(n, fmt, custom, u) ==
    u.kind = "name" =>
        /\ Dir(u.name) = Dir(n)
        /\ Base(u.name) # <<>>                      \* at least one character remains
        /\ u.name # n
        /\ \E s \in KnownSuffixes(fmt, custom) :
              /\ Carries(n, s)
              \* a built-in suffix takes precedence over the custom one
              /\ (s \notin BuiltinKnown(fmt) => ~\E b \in BuiltinKnown(fmt) : Carries(n, b))
              /\ u.name = Strip(n, s) \o (IF s \in TarAbbrev \cap BuiltinKnown(fmt) THEN TAR ELSE <<>>)

(* the formats a file compressed with -F fmt is decompressed with: only     *)
(* "raw" is distinguished by suffix.c ("auto" stands for auto/xz/lzma/lzip) *)
DecFormat(fmt) == IF fmt = "raw" THEN "raw" ELSE "auto"
RoundTrip(n, fmt, custom, c) ==
    c.kind = "name" =>
        LET u == UncompressedName(c.name, DecFormat(fmt), custom) IN
        /\ u.kind = "name"
        /\ (u.name = n) <=> ~RoundTripException(n, fmt, custom)

AllClauses(n, fmt, custom) ==
    LET c == CompressedName(n, fmt, custom) IN
    /\ CompressSkipExact(n, fmt, custom, c) /\ CompressAppends(n, fmt, custom, c)
    /\ CompressSkipNamesSuffix(n, fmt, custom, c) /\ RoundTrip(n, fmt, custom, c)
DecClauses(n, fmt, custom) ==
    LET u == UncompressedName(n, fmt, custom) IN
    DecompressSkipExact(n, fmt, custom, u) /\ DecompressStrips(n, fmt, custom, u)
=============================================================================
