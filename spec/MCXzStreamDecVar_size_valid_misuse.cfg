SPECIFICATION Spec
CONSTANTS Profile = "quick" DevDepth = 1 FlagMode = "some" Variant = "size_valid_misuse"
INVARIANTS AcceptIffValid MeaningExact OutIsPrefix RetDocumented FormatErrorOnlyFirst TellsSound PosBounded NoStarveOnValid
CHECK_DEADLOCK FALSE
