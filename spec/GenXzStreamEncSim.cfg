SPECIFICATION GSpec
CONSTANTS MaxIn = 2  MaxOps = 8  MidRunChunks = FALSE  TinyInput = FALSE  Bugs = {}  Profile = "all"
 Encs = {"stream", "mt", "raw", "block"}  Grants = {"big"}  Checks = {"crc", "none"}  BSizes = {0, 1, 2}
ACTION_CONSTRAINT Emit
CHECK_DEADLOCK FALSE
