SPECIFICATION Spec
CONSTANTS MaxChunks = 3 Variant = "ok"
INVARIANTS AcceptIffValid MeaningExact PrefixOnError FunctionalAgrees
CHECK_DEADLOCK FALSE
