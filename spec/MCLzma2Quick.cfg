SPECIFICATION Spec
CONSTANTS MaxChunks = 4 Variant = "ok"
INVARIANTS AcceptIffValid MeaningExact PrefixOnError FunctionalAgrees
CHECK_DEADLOCK FALSE
