SPECIFICATION Spec
CONSTANTS Variant = "no_backward_size" BaseSet = "all"
INVARIANTS NeverWrongSuccess DamageOutsidePayloadDetected TruncatedNeverComplete BoundaryCutIsPrefix UnseenIsHarmless NoFaultNoError RetDocumented
CHECK_DEADLOCK FALSE
