SPECIFICATION Spec
CONSTANTS Variant = "no_backward_size" BaseSet = "all"
INVARIANTS NeverWrongSuccess DamageOutsidePayloadDetected TruncatedNeverComplete BoundaryCutIsPrefix NoFaultNoError RetDocumented
CHECK_DEADLOCK FALSE
