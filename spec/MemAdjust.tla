------------------------------ MODULE MemAdjust ------------------------------
(* xz's pre-flight adjustment of compression settings to a memory usage limit *)
(* (property C09, last clause): transcription of the MODE_COMPRESS part of    *)
(* coder_set_compression_settings() in src/xz/coder.c for one filter chain    *)
(* ending in LZMA2/LZMA1, with hardware.c's rules for which limit applies.    *)
(*                                                                           *)
(*   usage = mt ? lzma_stream_encoder_mt_memusage(threads) : raw_encoder_memusage *)
(*   usage <= limit                      -> nothing changes                   *)
(*   --format=raw                        -> error (never adjusted)            *)
(*   mt: threads-1, threads-2, .. 1      -> first count that fits is used     *)
(*       soft limit (-T0, no --memlimit-compress): stay at one thread, ignore *)
(*       --no-adjust                     -> error                             *)
(*       else switch to single-threaded mode (different output format: no     *)
(*       sizes in Block Headers)                                             *)
(*   fits now                            -> done                              *)
(*   --no-adjust                         -> error                             *)
(*   dictionary: round down to full MiB, then 1 MiB steps down; below 1 MiB   *)
(*       -> error                                                             *)
(* The memory figures come from liblzma's own estimate functions; the check   *)
(* tabulates them into a JSON file (Tables) so that TLC computes with the     *)
(* same numbers the real xz will see.  Gen* emits one plan per configuration  *)
(* with the predicted outcome; the plans are replayed with the real xz.       *)
EXTENDS Integers, Sequences, FiniteSets, TLC, Json, IOUtils

CONSTANT Unlimited

\* Tables: sequence of records, one per preset entry:
\*   [preset, mib (amount units per MiB), origDict, st0 (raw encoder memusage with origDict),
\*    st (sequence: st[k] = raw encoder memusage with dict = k MiB, k = 1..origDict>>20),
\*    mt (sequence: mt[t] = stream_encoder_mt memusage with t threads, t = 1..maxThreads)]
Data == JsonDeserialize(IOEnv.TABLES)
Tables == Data.t
Soft == Data.soft        \* configurations using the automatic limit of -T0 (amounts in KiB in their table entry)

\* one configuration
\*   e        index into Tables
\*   threads  number given with -T (0 = single-threaded mode, i.e. -T1)
\*   mtOne    -T+1: multithreaded mode with one thread
\*   soft     the limit is the automatic default of -T0 (hardware_memlimit_mtenc_is_default)
\*   limit    memory_limit seen by coder_set_compression_settings (Unlimited = none)
\*   noAdjust --no-adjust,  raw  --format=raw
Outcome(ok, mode, threads, dictMiB, msgs) ==
    [ok |-> ok, mode |-> mode, threads |-> threads, dictMiB |-> dictMiB, msgs |-> msgs]

Adjust(c) ==
    LET tb == Tables[c.e]
        isMt == c.threads > 1 \/ c.mtOne
        t0 == IF c.threads = 0 THEN 1 ELSE c.threads
        usage0 == IF isMt THEN tb.mt[t0] ELSE tb.st0
        origMiB == tb.origDict \div tb.mib
        \* largest thread count below t0 that fits, 0 if none
        fits == {t \in 1..(t0 - 1) : tb.mt[t] <= c.limit}
        best == IF fits = {} THEN 0 ELSE CHOOSE t \in fits : \A u \in fits : u <= t
        \* dictionary search: largest k <= origMiB with st[k] <= limit, 0 if none
        dfit == {k \in 1..origMiB : tb.st[k] <= c.limit}
        dbest == IF dfit = {} THEN 0 ELSE CHOOSE k \in dfit : \A j \in dfit : j <= k
        StPart(msgs) ==       \* from "if (memory_usage <= memory_limit) return;" after the mt part
            IF tb.st0 <= c.limit THEN Outcome(TRUE, "st", 1, -1, msgs)
            ELSE IF c.noAdjust THEN Outcome(FALSE, "st", 1, -1, msgs \cup {"too_small"})
            ELSE IF dbest = 0 THEN Outcome(FALSE, "st", 1, -1, msgs \cup {"too_small"})
            ELSE Outcome(TRUE, "st", 1, dbest, msgs \cup {"adjusted_dict"})
    IN IF usage0 <= c.limit THEN Outcome(TRUE, IF isMt THEN "mt" ELSE "st", t0, -1, {})
       ELSE IF c.raw THEN Outcome(FALSE, "st", 1, -1, {"too_small"})
       ELSE IF isMt THEN
            IF best # 0 THEN Outcome(TRUE, "mt", best, -1, {"reduced_threads"})
            ELSE IF c.soft THEN Outcome(TRUE, "mt", 1, -1, IF t0 > 1 THEN {"soft_continue"} ELSE {"soft_continue"})
            ELSE IF c.noAdjust THEN Outcome(FALSE, "mt", 1, -1, {"too_small"})
            ELSE StPart({"switch_st"})
       ELSE StPart({})

\* contract of the clause: a run that is not refused stays within the limit according to the same estimates,
\* unless the limit is only the soft default; and a refusal happens only when no allowed adjustment fits
WithinLimit(c) ==
    LET o == Adjust(c) tb == Tables[c.e]
        used == IF o.mode = "mt" THEN tb.mt[o.threads]
                ELSE IF o.dictMiB = -1 THEN tb.st0 ELSE tb.st[o.dictMiB]
    IN o.ok => (used <= c.limit \/ c.soft)
RefusalJustified(c) ==
    LET o == Adjust(c) tb == Tables[c.e] IN
    ~o.ok => /\ ~c.soft
             /\ (c.raw \/ c.noAdjust \/ \A k \in 1..(tb.origDict \div tb.mib) : tb.st[k] > c.limit)
OutputPreserved(c) ==      \* --no-adjust never changes what is written: mode and dictionary stay as requested
    LET o == Adjust(c) IN
    (c.noAdjust /\ o.ok) => (o.dictMiB = -1 /\ (o.mode = "mt") = (c.threads > 1 \/ c.mtOne))

-----------------------------------------------------------------------------
(* Which of xz's two limits applies (hardware.c: hardware_memlimit_get): compression is governed by            *)
(* --memlimit-compress, decompression, testing (-t) and listing (-l) by --memlimit-decompress; -M / --memlimit  *)
(* sets both; no option = no limit.  A decoding mode fails with "Memory usage limit reached" exactly when the   *)
(* memory the file needs (filters of a Block; for -l the memory of the Indexes) exceeds the applicable limit.   *)
Modes == {"decompress", "test", "list"}
Hows == {"none", "both", "compress", "decompress"}
EffLimit(mode, how, lim) ==
    CASE how = "none" -> Unlimited
      [] how = "both" -> lim
      [] how = "compress" -> IF mode = "compress" THEN lim ELSE Unlimited
      [] how = "decompress" -> IF mode = "compress" THEN Unlimited ELSE lim
\* Data.need[mode] = memory needed by the test file used for that mode
ModeOutcome(c) == [ok |-> Data.need[c.mode] <= EffLimit(c.mode, c.how, c.limit)]
ModeConfigs == {c \in [mode : Modes, how : Hows, limit : {1, Unlimited} \cup UNION {{Data.need[m] - 1, Data.need[m]} : m \in Modes}] :
                   /\ c.how = "none" => c.limit = Unlimited
                   /\ c.limit \in {1, Unlimited, Data.need[c.mode] - 1, Data.need[c.mode]}}

-----------------------------------------------------------------------------
(* plan generation / model checking over all configurations                  *)
CONSTANTS ThreadOpts
VARIABLE cfg

LimitsFor(e) ==
    LET tb == Tables[e] IN
    {1, Unlimited, tb.st0, tb.st0 - 1}
    \cup {tb.mt[t] : t \in 1..Len(tb.mt)} \cup {tb.mt[t] - 1 : t \in 1..Len(tb.mt)}
    \cup {tb.st[k] : k \in 1..Len(tb.st)} \cup {tb.st[k] - 1 : k \in 1..Len(tb.st)}

Configs == UNION {[e : {e}, threads : ThreadOpts, mtOne : BOOLEAN, soft : {FALSE}, limit : LimitsFor(e),
                   noAdjust : BOOLEAN, raw : BOOLEAN] : e \in 1..Len(Tables)}
Valid(c) == /\ c.mtOne => c.threads = 0
            /\ c.raw => (c.threads = 0 /\ ~c.mtOne)
            /\ c.threads <= Len(Tables[c.e].mt)

IsModeCfg(c) == "mode" \in DOMAIN c
\* automatic number of threads (no -T option, or -T0: all CPU threads, amounts in KiB) with an EXPLICIT limit:
\* the limit is a hard one (hardware_memlimit_mtenc_is_default() is false), so the final settings must fit it
AutoConfigs == UNION {[e : {e}, threads : {Len(Tables[e].mt)}, mtOne : {FALSE}, soft : {FALSE},
                       limit : LimitsFor(e) \ {Unlimited}, noAdjust : BOOLEAN, raw : {FALSE}, spell : {"T0", "default"}]
                      : e \in {x \in 1..Len(Tables) : Tables[x].auto = 1}}
GInit == \/ cfg \in {c \in Configs : Valid(c) /\ Tables[c.e].unit = 1} \cup {Soft[k] : k \in 1..Len(Soft)}
         \/ cfg \in AutoConfigs
         \/ cfg \in ModeConfigs
GNext == UNCHANGED cfg
GSpec == GInit /\ [][GNext]_cfg

Contract == IF IsModeCfg(cfg)
            THEN ModeOutcome(cfg).ok <=> (cfg.how \in {"none", "compress"} \/ Data.need[cfg.mode] <= cfg.limit)
            ELSE WithinLimit(cfg) /\ RefusalJustified(cfg) /\ OutputPreserved(cfg)
Emit == PrintT(<<"PLAN", ToJson([c |-> cfg, o |-> IF IsModeCfg(cfg) THEN ModeOutcome(cfg) ELSE Adjust(cfg)])>>)
=============================================================================
