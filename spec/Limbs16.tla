------------------------------ MODULE Limbs16 ------------------------------
(* Unsigned machine words for TLC, whose integers are 32-bit signed: a word  *)
(* is a little-endian tuple of 16-bit limbs.  W* operators work on words of  *)
(* any number of limbs (CRC32: 2, CRC64: 4); *32 operators on <<lo, hi>>.    *)
(* Bytes are integers 0..255, byte strings are sequences of bytes.           *)
LOCAL INSTANCE Naturals
LOCAL INSTANCE Sequences
LOCAL INSTANCE Bitwise

B16 == 65536
Pow2(k) == 2 ^ k

\* ---------------------------------------------------------------- n limbs
WConst(n, v) == [i \in 1..n |-> v]
WXor(a, b) == [i \in DOMAIN a |-> a[i] ^^ b[i]]
WNot(a)    == [i \in DOMAIN a |-> 65535 - a[i]]
WOdd(a)    == a[1] % 2 = 1
\* logical shift right by 0 < k < 16 bits
WShr(a, k) == [i \in DOMAIN a |-> (a[i] \div Pow2(k))
                 + (IF i < Len(a) THEN (a[i + 1] % Pow2(k)) * Pow2(16 - k) ELSE 0)]
WLowByte(a) == a[1] % 256
\* little-endian bytes of a word
WBytesLE(a) == [j \in 1..(2 * Len(a)) |-> IF j % 2 = 1 THEN a[(j + 1) \div 2] % 256
                                                        ELSE a[j \div 2] \div 256]

\* ---------------------------------------------------------------- 32 bit
U32(n)      == <<n % B16, n \div B16>>            \* n < 2^31
Lo(a)       == a[1]
Hi(a)       == a[2]
Add32(a, b) == LET s == a[1] + b[1] IN <<s % B16, (a[2] + b[2] + (s \div B16)) % B16>>
Not32(a)    == <<65535 - a[1], 65535 - a[2]>>
Neg32(a)    == Add32(Not32(a), <<1, 0>>)
Sub32(a, b) == Add32(a, Neg32(b))
And32(a, b) == <<a[1] & b[1], a[2] & b[2]>>
Or32(a, b)  == <<a[1] | b[1], a[2] | b[2]>>
Xor32(a, b) == <<a[1] ^^ b[1], a[2] ^^ b[2]>>
\* logical shifts by 0..31
Shr32(a, k) == IF k = 0 THEN a
               ELSE IF k >= 16 THEN <<a[2] \div Pow2(k - 16), 0>>
               ELSE <<(a[1] \div Pow2(k)) + (a[2] % Pow2(k)) * Pow2(16 - k), a[2] \div Pow2(k)>>
Shl32(a, k) == IF k = 0 THEN a
               ELSE IF k >= 16 THEN <<0, (a[1] % Pow2(32 - k)) * Pow2(k - 16)>>
               ELSE <<(a[1] % Pow2(16 - k)) * Pow2(k),
                      (a[2] % Pow2(16 - k)) * Pow2(k) + (a[1] \div Pow2(16 - k))>>
\* rotate right by 0..31: the bits shifted out of one limb enter the other
Rotr32(a, k) == IF k = 0 THEN a
                ELSE IF k = 16 THEN <<a[2], a[1]>>
                ELSE IF k < 16 THEN <<(a[1] \div Pow2(k)) + (a[2] % Pow2(k)) * Pow2(16 - k),
                                      (a[2] \div Pow2(k)) + (a[1] % Pow2(k)) * Pow2(16 - k)>>
                ELSE <<(a[2] \div Pow2(k - 16)) + (a[1] % Pow2(k - 16)) * Pow2(32 - k),
                       (a[1] \div Pow2(k - 16)) + (a[2] % Pow2(k - 16)) * Pow2(32 - k)>>
Min2(a, b) == IF a < b THEN a ELSE b
\* byte j (0 = least significant) of a 32-bit word
Byte32(a, j) == IF j = 0 THEN a[1] % 256 ELSE IF j = 1 THEN a[1] \div 256
                ELSE IF j = 2 THEN a[2] % 256 ELSE a[2] \div 256
FromBytes32(b0, b1, b2, b3) == <<b0 + 256 * b1, b2 + 256 * b3>>   \* b0 least significant
BytesLE32(a) == <<Byte32(a, 0), Byte32(a, 1), Byte32(a, 2), Byte32(a, 3)>>
BytesBE32(a) == <<Byte32(a, 3), Byte32(a, 2), Byte32(a, 1), Byte32(a, 0)>>
Bit32(a, k)  == IF k < 16 THEN (a[1] \div Pow2(k)) % 2 ELSE (a[2] \div Pow2(k - 16)) % 2
Lt32(a, b)   == a[2] < b[2] \/ (a[2] = b[2] /\ a[1] < b[1])
=============================================================================
