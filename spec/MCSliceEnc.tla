----------------------------- MODULE MCSliceEnc ------------------------------
EXTENDS SliceEnc
RECURSIVE Words(_)
Words(n) == IF n = 0 THEN {<<>>} ELSE {Append(w, b) : w \in Words(n - 1), b \in {0, 1}}
MCDatas == Words(7) \cup Words(3)
=============================================================================
