SPECIFICATION MCSpec
CONSTANTS MaxIn = 1  MaxOps = 4  MidRunChunks = TRUE  TinyInput = TRUE  Bugs = {"bcj_accepts_sync"}
 Encs = {"stream", "mt", "raw", "block"}  Grants = {"big"}  Checks = {"crc"}  BSizes = {0}
VIEW MCView
INVARIANTS TypeOK NotBad DecodableLeGiven NoEmptyBlock SeqAgrees
PROPERTY Contract
CHECK_DEADLOCK FALSE
