SPECIFICATION TSpec
CONSTANTS
 Copies <- TrCopies  Pad <- TrPad  Concat <- TrConcat
 EarlyTailError = TRUE
 MaxReinit = 5 MaxRaise = 50 MayFailMain = TRUE Tell <- TrTell MemStop <- TrMemStop
 CountCalls = TRUE
 NW <- TrNW  HdrSz <- TrHdrSz  Blocks <- TrBlocks  TailSz <- TrTailSz  TailOk <- TrTailOk  FileLen <- TrFileLen
 Chunk = 16384  Timeout <- TrTimeout  FailFast <- TrFailFast  Spurious = TRUE  MemT <- TrMemT  OutOvh <- TrOutOvh
 Gives = {}  Spaces = {}
CONSTRAINT TrackMax
POSTCONDITION TraceAccepted
CHECK_DEADLOCK FALSE
