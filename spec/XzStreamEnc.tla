----------------------------- MODULE XzStreamEnc -----------------------------
(* C12.  An application drives one liblzma encoder with RUN / SYNC_FLUSH /    *)
(* FULL_FLUSH / FULL_BARRIER / FINISH and lzma_filters_update().             *)
(*                                                                           *)
(* Transcribed (one TLA+ step per loop iteration / switch case):             *)
(*   common/common.c        lzma_code()        -> INSTANCE LzmaCode (C11)    *)
(*   common/stream_encoder.c stream_encode(), stream_encoder_update()        *)
(*   common/block_encoder.c  block_encode(), block_encoder_update()          *)
(*   lz/lz_encoder.c         lz_encode(), fill_window(), lz_encoder_update() *)
(*   lzma/lzma2_encoder.c    lzma2_encode(), lzma2_encoder_options_update()  *)
(*   lzma/lzma_encoder.c     lzma_encode() (LZMA1: no sync flush)            *)
(*   simple/simple_coder.c   simple_code() (BCJ: no sync flush, holds bytes) *)
(*   delta/delta_encoder.c   delta_encode() (transparent)                    *)
(*   common/filter_encoder.c lzma_filters_update()                           *)
(*   common/stream_encoder_mt.c stream_encode_mt(), stream_encode_in(),      *)
(*                           stream_encoder_mt_update() (coarse: workers are *)
(*                           "a closed Block becomes readable at any time")  *)
(*                                                                           *)
(* One lzma_code() call = BeginCall, silent inner steps, a Return step.      *)
(* Data is abstracted to "is there at least one byte" at each place of the   *)
(* pipeline (BCJ hold buffer, LZ window, LZMA2 chunk buffer, range coder):   *)
(* the property only needs to know whether the pipeline is empty.  Byte      *)
(* counts that the caller can see (total_in, Block sizes) are exact.         *)
(* The bytes written are abstracted to TOKENS (tok): one token at the moment *)
(* the last byte of a format element has been copied to the output.  The     *)
(* contract module decodes the token stream independently.                   *)
EXTENDS Naturals, Sequences, FiniteSets

CONSTANTS MaxIn,          \* (LzmaCode) largest avail_in an application op offers       (model checking only)
          MaxOps,         \* bound on the number of application level operations         (model checking only)
          MidRunChunks,   \* TRUE: an LZMA2 chunk may fill up while the action is LZMA_RUN
          TinyInput,      \* TRUE: an input piece may be so short that a BCJ filter passes nothing on (x86: < 5 bytes)
          Bugs            \* names of deliberately wrong variants (non-vacuity runs); {} = the code as it is

VARIABLES inited, supported, seq, savedIn, allowBuf, totalIn, totalOut, obs   \* lzma_internal, see LzmaCode
VARIABLES
    cfg,      \* constructor arguments + the application's output policy
    app,      \* the application: operation in progress
    call,     \* the lzma_code() call in progress
    sc,       \* lzma_stream_coder + lzma_block_coder
    fl,       \* the filter chain instance: simple/delta coder, lzma_coder(lz), lzma_lzma2_coder, LZMA1 encoder
    mt,       \* stream_encoder_mt.c lzma_stream_coder (coarse)
    blocks,   \* coder->index: one record per finished Block
    tok,      \* format element completed by this step (or none)
    ev        \* application level completion produced by this step (or none)

lcvars == <<inited, supported, seq, savedIn, allowBuf, totalIn, totalOut, obs>>
xvars  == <<cfg, app, call, sc, fl, mt, blocks, tok, ev>>
allvars == <<lcvars, xvars>>

LC == INSTANCE LzmaCode WITH MaxOut <- 1

Encoders == {"stream", "mt", "raw", "block"}
Pres     == {"none", "delta", "x86", "armbad"}   \* armbad: ARM BCJ with start_offset = 2 (not a multiple of 4)
Lzs      == {"lzma1", "lzma2"}
GoodProps == {"p0", "p1"}          \* two valid lc/lp/pb settings
AllProps == GoodProps \cup {"bad"} \* "bad": lc + lp > 4
Chain(pre, lz, props) == [pre |-> pre, lz |-> lz, props |-> props]
ChainsAll == [pre : Pres, lz : Lzs, props : AllProps]
ValidChain(c) == c.props \in GoodProps      \* lzma_raw_encoder_memusage(filters) != UINT64_MAX
\* A chain can pass that validation and lzma_block_header_size() and still be refused when the filters are
\* initialised: lzma_simple_coder_init() returns LZMA_OPTIONS_ERROR for a misaligned start offset.  By then
\* lzma_raw_coder_init() has already freed the old filter encoders, and frees the new ones (lzma_next_end).
InitOk(c) == c.pre # "armbad"

\* lzma_stream_encoder / lzma_stream_encoder_mt / lzma_raw_encoder / lzma_block_encoder
SupportedBy(e) == CASE e = "stream" -> {"RUN", "SYNC_FLUSH", "FULL_FLUSH", "FINISH", "FULL_BARRIER"}
                    [] e = "mt"     -> {"RUN", "FULL_FLUSH", "FINISH", "FULL_BARRIER"}
                    [] OTHER        -> {"RUN", "SYNC_FLUSH", "FINISH"}

\* stream_encode(): static const lzma_action convert[]
Convert(a) == CASE a = "RUN" -> "RUN" [] a = "SYNC_FLUSH" -> "SYNC_FLUSH" [] OTHER -> "FINISH"

NoTok  == [kind |-> "none"]
NoEv   == [kind |-> "none"]
\* plan / exact / pout / pfull: what a recorded call is known to have done (trace validation); model checking uses
\* plan = ain, exact = FALSE, pout = 1, pfull = "any", i.e. no knowledge.
NoCall == [active |-> FALSE, a |-> "RUN", ain |-> 0, plan |-> 0, exact |-> FALSE, pout |-> 1, pfull |-> "any",
           uin |-> 0, outAny |-> FALSE, outFull |-> FALSE, lvl |-> "top"]

\* ---------------------------------------------------------------- filter chain instance
\* lzma_raw_encoder_init(): simple/delta init, lzma_lz_encoder_init, lzma2_encoder_init / lzma_encoder_init
FreshFl(c) ==
    [pre |-> c.pre, lz |-> c.lz,
     held |-> FALSE,          \* simple coder: unfiltered bytes kept in coder->buffer[]
     endReached |-> FALSE,    \* simple coder: end_was_reached
     win |-> FALSE,           \* mf_unencoded(mf) > 0
     avail |-> FALSE,         \* mf->read_pos < mf->read_limit
     mfAct |-> "RUN",         \* mf->action
     pend |-> FALSE,          \* mf->pending > 0
     lzpc |-> "top",          \* lz_encode(): loop head / inside coder->lz.code()
     l2seq |-> "INIT",        \* lzma_lzma2_coder.sequence
     needProps |-> TRUE, needState |-> FALSE, needDict |-> TRUE,
     optCur |-> c.props,      \* opt_cur.lc/lp/pb
     chunk |-> FALSE,         \* uncompressed_size > 0: bytes sit in the chunk being built / copied
     chunkTok |-> NoTok,      \* what the chunk in buf[] is
     chunkFresh |-> TRUE,     \* LZMA encoder state at the start of the chunk was the initial state
     encProps |-> c.props,    \* lc/lp/pb the LZMA encoder really codes with (set by create / reset)
     encFresh |-> TRUE,       \* LZMA encoder state is the initial state (nothing coded since create / reset)
     rc |-> FALSE,            \* LZMA1: coded bytes are still inside the range coder / not yet terminated
     l1flushed |-> FALSE,     \* LZMA1: is_flushed
     lost |-> FALSE,          \* accepted bytes were thrown away (only reachable in Bugs variants)
     dead |-> FALSE]          \* the filter encoders were freed by a failed initialisation (next.code == NULL)

PipeEmpty(f) == ~f.held /\ ~f.win /\ ~f.chunk /\ ~f.rc /\ ~f.lost

\* ---------------------------------------------------------------- initial state
InitCfg(e, c, chk, g, bs) == [enc |-> e, chain0 |-> c, check |-> chk, grant |-> g, bsize |-> bs]

InitWith(config) ==
    /\ cfg = config
    /\ LC!InitWith(SupportedBy(config.enc), TRUE)
    /\ app = [nops |-> 0, op |-> "none", left |-> 0, n |-> 0]
    /\ call = NoCall
    /\ sc = [sseq |-> "HDR", binit |-> TRUE, chain |-> config.chain0, bseq |-> "CODE", blockIn |-> 0, hdr |-> config.chain0]
    /\ fl = FreshFl(config.chain0)
    /\ mt = [seq |-> "HDR", thr |-> FALSE, q |-> <<>>, chain |-> config.chain0, ph |-> "read"]
    /\ blocks = <<>>
    /\ tok = NoTok
    /\ ev = NoEv

\* the same as an action (trace validation: a new execution starts)
ResetTo(config) ==
    /\ cfg' = config
    /\ inited' = TRUE /\ supported' = SupportedBy(config.enc) /\ seq' = "RUN" /\ savedIn' = 0
    /\ allowBuf' = FALSE /\ totalIn' = 0 /\ totalOut' = 0 /\ obs' = LC!NoObs
    /\ app' = [nops |-> 0, op |-> "none", left |-> 0, n |-> 0]
    /\ call' = NoCall
    /\ sc' = [sseq |-> "HDR", binit |-> TRUE, chain |-> config.chain0, bseq |-> "CODE", blockIn |-> 0, hdr |-> config.chain0]
    /\ fl' = FreshFl(config.chain0)
    /\ mt' = [seq |-> "HDR", thr |-> FALSE, q |-> <<>>, chain |-> config.chain0, ph |-> "read"]
    /\ blocks' = <<>>
    /\ tok' = NoTok
    /\ ev' = NoEv

\* ---------------------------------------------------------------- helpers
Given  == totalIn + (IF call.active THEN call.uin ELSE 0)     \* bytes accepted so far
InLeft == call.ain - call.uin                                 \* in_size - *in_pos
Has(b) == b \in Bugs

FullAfter == CASE cfg.grant = "one" -> {TRUE}      \* the application grants one byte per call
               [] cfg.grant = "big" -> {FALSE}     \* ... more than will ever be needed
               [] OTHER -> BOOLEAN
OutDone(f) == [call EXCEPT !.outAny = TRUE, !.outFull = f]

OpenBlock == CASE cfg.enc = "stream" -> sc.sseq \in {"BHDR", "BENC"}
               [] cfg.enc = "mt" -> mt.thr
               [] OTHER -> TRUE      \* raw / Block encoder: the one payload

\* ---------------------------------------------------------------- return from lzma_code()
\* r: what strm->internal->next.code returned.  uo: bytes written (only zero / non-zero matters).
AppAfter(ret, leftNew) ==
    IF ret = "OK" /\ (app.op # "RUN" \/ leftNew > 0)
    THEN /\ app' = [app EXCEPT !.left = leftNew]
         /\ ev' = NoEv
    ELSE /\ app' = [app EXCEPT !.op = "none", !.left = 0]
         /\ ev' = [kind |-> "op", a |-> app.op, n |-> app.n, ret |-> ret]

\* bytes written by the call: only zero / non-zero is modelled (pout: the recorded amount)
UoAbs(c) == IF c.outAny THEN (IF c.pout = 0 THEN 1 ELSE c.pout) ELSE 0

\* c2: the call record at the moment of return
Return(r, c2) ==
    /\ (c2.exact => c2.uin = c2.plan)
    /\ (c2.pfull # "any" => c2.outFull = (c2.pfull = "yes"))
    /\ LC!Call(c2.a, c2.ain, 1, FALSE, FALSE, FALSE, r, c2.uin, UoAbs(c2))
    /\ call' = NoCall
    /\ AppAfter(obs'.ret, c2.ain - c2.uin)
    /\ UNCHANGED cfg

\* inner step that does not return: everything of lzma_code / the application is unchanged
Silent == /\ UNCHANGED <<lcvars, cfg, app>> /\ ev' = NoEv

\* a step that returns r and changes nothing else in the coders
RetOnly(r) == /\ Return(r, call) /\ UNCHANGED <<sc, fl, mt, blocks>> /\ tok' = NoTok

\* An output element could not be copied completely: *out_pos == out_size, LZMA_OK, same sequence.
PartialOut == /\ cfg.grant # "big" /\ ~call.outFull
              /\ Return("OK", OutDone(TRUE)) /\ UNCHANGED <<sc, fl, mt, blocks>> /\ tok' = NoTok

\* ---------------------------------------------------------------- lz_encode() and below
\* Where does the return value of lz_encode() go?  raw: lzma_code.  block / stream: block_encode() SEQ_CODE.
\* ba: action seen by block_encode / lz_encode
InnerAction == IF cfg.enc = "stream" THEN Convert(call.a) ELSE call.a

\* block_encode() returns r to its caller (stream_encode SEQ_BLOCK_ENCODE, or lzma_code)
BlockRet(r, f2, c2, tk) ==
    IF cfg.enc = "block" \/ r # "STREAM_END" \/ call.a = "SYNC_FLUSH"
    THEN /\ Return(r, c2) /\ fl' = f2 /\ tok' = tk /\ UNCHANGED <<mt, blocks>>
         /\ sc' = sc
    ELSE \* stream_encode(): lzma_index_append(); sequence = SEQ_BLOCK_INIT; break
         /\ Silent /\ fl' = f2 /\ tok' = tk /\ UNCHANGED mt
         /\ blocks' = Append(blocks, [n |-> sc.blockIn, chain |-> sc.hdr])
         /\ sc' = [sc EXCEPT !.sseq = "BINIT"]
         /\ call' = [c2 EXCEPT !.lvl = "top"]

\* variant of BlockRet for the steps of block_encode() itself (they also change sc)
BlockRetSc(r, s2, c2, tk) ==
    IF cfg.enc = "block" \/ r # "STREAM_END" \/ call.a = "SYNC_FLUSH"
    THEN /\ Return(r, c2) /\ sc' = s2 /\ tok' = tk /\ UNCHANGED <<fl, mt, blocks>>
    ELSE /\ Silent /\ tok' = tk /\ UNCHANGED <<fl, mt>>
         /\ blocks' = Append(blocks, [n |-> s2.blockIn, chain |-> s2.hdr])
         /\ sc' = [s2 EXCEPT !.sseq = "BINIT"]
         /\ call' = [c2 EXCEPT !.lvl = "top"]

\* lz_encode() returns r (f2: filter chain state, c2: call record at that moment)
LzRet(r, f2, c2, tk) ==
    CASE cfg.enc = "raw" ->
            /\ Return(r, c2) /\ fl' = f2 /\ tok' = tk /\ UNCHANGED <<sc, mt, blocks>>
      [] OTHER ->
            \* block_encode() SEQ_CODE after coder->next.code()
            IF r # "STREAM_END"
               \/ (InnerAction = "SYNC_FLUSH" /\ ~Has("block_sync_is_finish"))
            THEN BlockRet(r, f2, c2, tk)
            ELSE \* sequence = SEQ_PADDING; fall through
                 /\ Silent /\ fl' = f2 /\ tok' = tk /\ UNCHANGED <<mt, blocks>>
                 /\ sc' = [sc EXCEPT !.bseq = "PAD"]
                 /\ call' = c2

\* fill_window(): returns [f |-> new chain state, k |-> bytes consumed, ret |-> "OK" / "STREAM_END" / error]
FillResults(la) ==
    LET k == call.plan - call.uin          \* everything this call is going to take
        all == (k = InLeft)                \* *in_pos == in_size afterwards
    IN  IF fl.pre = "x86" /\ la = "SYNC_FLUSH" /\ ~Has("bcj_accepts_sync")
        THEN {[f |-> fl, k |-> 0, ret |-> "OPTIONS_ERROR"]}      \* simple_code(): no sync flush
        ELSE
        LET \* what reaches the window, what stays in the simple coder's buffer
            bugfin == Has("bcj_accepts_sync") /\ la = "SYNC_FLUSH" /\ all
            inner == IF fl.pre = "x86"
                     THEN LET endR == fl.endReached \/ (la = "FINISH" /\ all)
                              some == fl.held \/ k > 0
                          IN  IF endR THEN {[held |-> FALSE, pass |-> some, end |-> TRUE, fin |-> TRUE]}
                              ELSE IF ~some THEN {[held |-> FALSE, pass |-> FALSE, end |-> FALSE, fin |-> bugfin]}
                              \* Bugs: the flush "completes" with unfiltered bytes still in coder->buffer[]
                              ELSE {r \in [held : BOOLEAN, pass : BOOLEAN, end : {FALSE}, fin : {bugfin}]
                                        : (r.held \/ r.pass) /\ (k > 0 /\ ~TinyInput => r.pass)}
                     ELSE \* no filter (lzma_bufcpy) or delta_encode(): everything passes
                          {[held |-> FALSE, pass |-> (k > 0), end |-> FALSE, fin |-> (la # "RUN" /\ all)]}
        IN  UNION { LET win2 == fl.win \/ i.pass
                        base == [fl EXCEPT !.held = i.held, !.endReached = i.end, !.win = win2]
                    IN  IF i.fin
                        THEN \* ret == LZMA_STREAM_END: mf.action = action; read_limit = write_pos
                             {[f |-> [base EXCEPT !.mfAct = la, !.avail = win2,
                                                  !.pend = IF win2 THEN FALSE ELSE fl.pend],
                               k |-> k, ret |-> "OK"]}
                        ELSE \* read_limit = write_pos - keep_size_after if that is positive
                             {[f |-> [base EXCEPT !.avail = av,
                                                  \* restart the match finder: pending bytes are hashed again
                                                  !.pend = IF av THEN FALSE ELSE fl.pend],
                               k |-> k, ret |-> "OK"] : av \in IF win2 THEN (IF fl.avail THEN {TRUE} ELSE BOOLEAN) ELSE {FALSE}}
                  : i \in inner }

\* lz_encode(): loop head
LzTop ==
    /\ fl.lzpc = "top"
    /\ LET la == InnerAction IN
       IF fl.dead THEN LzRet("CRASH", fl, call, NoTok)        \* call through a NULL function pointer
       ELSE IF call.outFull \/ ~(InLeft > 0 \/ la # "RUN")
       THEN LzRet("OK", fl, call, NoTok)
       ELSE IF fl.mfAct = "RUN" /\ ~fl.avail
       THEN \E x \in FillResults(la) :
              LET c2 == [call EXCEPT !.uin = @ + x.k] IN
              IF x.ret # "OK"
              THEN LzRet(x.ret, x.f, c2, NoTok)          \* return_if_error(fill_window())
              ELSE /\ Silent /\ tok' = NoTok /\ UNCHANGED <<mt, blocks>>
                   /\ fl' = [x.f EXCEPT !.lzpc = "code"]
                   /\ sc' = [sc EXCEPT !.blockIn = @ + x.k]      \* block_encode(): uncompressed_size += in_used
                   /\ call' = c2
       ELSE /\ Silent /\ tok' = NoTok /\ UNCHANGED <<mt, blocks, sc, call>>
            /\ fl' = [fl EXCEPT !.lzpc = "code"]

\* coder->lz.code() returned r to lz_encode()
CodeRet(r, f2, c2, tk) ==
    IF r = "OK"
    THEN /\ Silent /\ tok' = tk /\ UNCHANGED <<mt, blocks, sc>>
         /\ fl' = [f2 EXCEPT !.lzpc = "top"] /\ call' = c2
    ELSE LzRet(r, [f2 EXCEPT !.lzpc = "top", !.mfAct = "RUN"], c2, tk)

\* effect of lzma_lzma_encode() consuming what is available
\* returns set of [f, more]: more = stopped although read_pos < read_limit (LZMA2 chunk limits)
EncodeAvail(f) ==
    IF ~f.avail THEN {[f |-> f, more |-> FALSE]}
    ELSE { [f |-> [f EXCEPT !.avail = m,
                            \* RUN: keep_size_after bytes always stay; flush: the window is drained with read_limit
                            !.win = IF f.mfAct = "RUN" \/ m THEN TRUE ELSE FALSE,
                            !.encFresh = FALSE,
                            !.pend = p],
            more |-> m]
           : m \in (IF MidRunChunks \/ f.mfAct # "RUN" THEN BOOLEAN ELSE {FALSE}),
             p \in (IF f.mfAct = "RUN" THEN {f.pend} ELSE BOOLEAN) }

\* lzma2_encode()
L2Step ==
    /\ fl.lzpc = "code" /\ fl.lz = "lzma2"
    /\ IF call.outFull THEN CodeRet("OK", fl, call, NoTok)      \* while (*out_pos < out_size)
       ELSE
       CASE fl.l2seq = "INIT" ->
              IF ~fl.win \/ Has("lzma2_init_ignores_unencoded")
              THEN \* mf_unencoded(mf) == 0
                   IF fl.mfAct = "FINISH"
                   THEN \E f \in FullAfter :
                          CodeRet("STREAM_END", fl, OutDone(f),
                                  [kind |-> "lzma2_end", allOut |-> PipeEmpty(fl)])
                   ELSE CodeRet(IF fl.mfAct = "RUN" THEN "OK" ELSE "STREAM_END", fl, call, NoTok)
              ELSE \* need_state_reset: lzma_lzma_encoder_reset(coder->lzma, &coder->opt_cur)
                   LET f1 == IF fl.needState
                             THEN [fl EXCEPT !.encProps = fl.optCur, !.encFresh = TRUE] ELSE fl
                   IN /\ Silent /\ tok' = NoTok /\ UNCHANGED <<mt, blocks, sc, call>>
                      /\ fl' = [f1 EXCEPT !.chunk = FALSE, !.chunkFresh = f1.encFresh, !.l2seq = "ENC"]
         [] fl.l2seq = "ENC" ->
              \E e \in EncodeAvail(fl) :
                LET f1 == [e.f EXCEPT !.chunk = fl.chunk \/ fl.avail]
                    ends == \/ (f1.mfAct # "RUN" /\ ~f1.avail)     \* flushing: everything was read
                            \/ (e.more)                            \* chunk limits reached
                            \/ (MidRunChunks /\ f1.chunk)
                IN \/ \* lzma_lzma_encode() returned LZMA_OK: needs more input
                      /\ ~e.more /\ f1.mfAct = "RUN"
                      /\ CodeRet("OK", f1, call, NoTok)
                   \/ \* chunk finished: compressed ...
                      /\ ends /\ f1.chunk
                      /\ Silent /\ tok' = NoTok /\ UNCHANGED <<mt, blocks, sc, call>>
                      /\ fl' = [f1 EXCEPT
                            !.chunkTok = [kind |-> "lzma", pre |-> f1.pre,
                                          reset |-> IF f1.needProps THEN (IF f1.needDict THEN "all" ELSE "props")
                                                    ELSE IF f1.needState THEN "state" ELSE "none",
                                          hprops |-> IF f1.needProps THEN f1.optCur ELSE "nil",
                                          eprops |-> f1.encProps, efresh |-> f1.chunkFresh],
                            !.needProps = FALSE, !.needState = FALSE, !.needDict = FALSE,
                            !.l2seq = "COPY"]
                   \/ \* ... or stored: compressed_size >= uncompressed_size
                      /\ ends /\ f1.chunk
                      /\ Silent /\ tok' = NoTok /\ UNCHANGED <<mt, blocks, sc, call>>
                      /\ fl' = [f1 EXCEPT
                            !.chunkTok = [kind |-> "unc", pre |-> f1.pre, dictReset |-> f1.needDict],
                            !.needDict = FALSE,
                            !.needState = IF Has("no_state_reset_after_uncompressed") THEN f1.needState ELSE TRUE,
                            !.l2seq = "UHDR"]
         [] fl.l2seq \in {"COPY", "UCOPY"} ->
              \/ PartialOut
              \/ \E f \in FullAfter :
                   LET f1 == [fl EXCEPT !.chunk = FALSE, !.l2seq = "INIT", !.chunkTok = NoTok] IN
                   /\ Silent /\ UNCHANGED <<mt, blocks, sc>>
                   /\ tok' = IF fl.chunkTok.kind = "lzma"
                             THEN [kind |-> "lzma", pre |-> fl.chunkTok.pre, reset |-> fl.chunkTok.reset, hprops |-> fl.chunkTok.hprops,
                                   eprops |-> fl.chunkTok.eprops, efresh |-> fl.chunkTok.efresh,
                                   allOut |-> PipeEmpty(f1)]
                             ELSE [kind |-> "unc", pre |-> fl.chunkTok.pre, dictReset |-> fl.chunkTok.dictReset, allOut |-> PipeEmpty(f1)]
                   /\ fl' = f1 /\ call' = OutDone(f)
         [] fl.l2seq = "UHDR" ->
              \/ PartialOut
              \/ \E f \in FullAfter :
                   /\ Silent /\ tok' = NoTok /\ UNCHANGED <<mt, blocks, sc>>
                   /\ fl' = [fl EXCEPT !.l2seq = "UCOPY"] /\ call' = OutDone(f)

\* lzma_encode() / lzma_lzma_encode() with limit == UINT32_MAX (raw LZMA1)
\* m: stopped before read_limit because the output buffer became full
L1Enc(f, m) == IF ~f.avail THEN f
               ELSE [f EXCEPT !.avail = m, !.win = (f.mfAct = "RUN" \/ m), !.encFresh = FALSE, !.rc = TRUE]
L1Step ==
    /\ fl.lzpc = "code" /\ fl.lz = "lzma1"
    /\ IF fl.mfAct = "SYNC_FLUSH" /\ ~Has("lzma1_accepts_sync")
       THEN CodeRet("OPTIONS_ERROR", fl, call, NoTok)         \* Plain LZMA has no support for sync-flushing
       ELSE IF fl.l1flushed
       THEN \* rc_encode() of the bytes left over by rc_flush(); is_flushed => LZMA_STREAM_END
            \/ PartialOut
            \/ \E f \in FullAfter :
                 LET f1 == [fl EXCEPT !.rc = FALSE] IN
                 CodeRet("STREAM_END", f1, OutDone(f), [kind |-> "lzma1_end", allOut |-> PipeEmpty(f1)])
       ELSE \/ \* rc_encode() returned true in the middle of the available input
               /\ fl.avail /\ cfg.grant # "big"
               /\ \E m \in BOOLEAN : CodeRet("OK", L1Enc(fl, m), OutDone(TRUE), NoTok)
            \/ \* everything up to read_limit coded; some output may have been produced
               \E c2 \in {call} \cup (IF fl.avail THEN {OutDone(f) : f \in FullAfter} ELSE {}) :
                 LET f1 == L1Enc(fl, FALSE) IN
                 IF f1.mfAct = "RUN" THEN CodeRet("OK", f1, c2, NoTok)
                 ELSE \* end marker, rc_flush(), rc_encode()
                      \/ /\ cfg.grant # "big"
                         /\ CodeRet("OK", [f1 EXCEPT !.l1flushed = TRUE, !.rc = TRUE], OutDone(TRUE), NoTok)
                      \/ /\ ~c2.outFull
                         /\ \E f \in FullAfter :
                              LET f2 == [f1 EXCEPT !.rc = (f1.mfAct = "SYNC_FLUSH" /\ f1.rc)] IN
                              CodeRet("STREAM_END", f2, [c2 EXCEPT !.outAny = TRUE, !.outFull = f],
                                      [kind |-> "lzma1_end", allOut |-> PipeEmpty(f2)])

LzSteps == LzTop \/ L2Step \/ L1Step

\* ---------------------------------------------------------------- block_encode()
BlockStep ==
    CASE sc.bseq = "CODE" -> LzSteps
      [] sc.bseq = "PAD" ->
           \* while (compressed_size & 3): zero to three bytes
           \/ \* no (more) padding needed
              IF cfg.check = "none"
              THEN BlockRetSc("STREAM_END", sc, call, [kind |-> "block_end", allOut |-> PipeEmpty(fl)])
              ELSE /\ Silent /\ tok' = NoTok /\ UNCHANGED <<fl, mt, blocks, call>>
                   /\ sc' = [sc EXCEPT !.bseq = "CHECK"]
           \/ \* padding needed
              IF call.outFull THEN BlockRetSc("OK", sc, call, NoTok)
              ELSE \E f \in FullAfter :
                     /\ Silent /\ tok' = NoTok /\ UNCHANGED <<fl, mt, blocks, sc>> /\ call' = OutDone(f)
      [] sc.bseq = "CHECK" ->
           IF call.outFull THEN BlockRetSc("OK", sc, call, NoTok)      \* lzma_bufcpy() copied nothing
           ELSE \/ PartialOut
                \/ \E f \in FullAfter :
                     BlockRetSc("STREAM_END", sc, OutDone(f), [kind |-> "block_end", allOut |-> PipeEmpty(fl)])

\* ---------------------------------------------------------------- stream_encode()
StreamStep ==
    IF call.lvl = "blk" THEN BlockStep
    ELSE IF call.outFull THEN RetOnly("OK")             \* while (*out_pos < out_size)
    ELSE
    CASE sc.sseq = "HDR" ->
           \/ PartialOut
           \/ \E f \in FullAfter :
                /\ Silent /\ UNCHANGED <<fl, mt, blocks>> /\ tok' = [kind |-> "stream_header"]
                /\ sc' = [sc EXCEPT !.sseq = "BINIT"] /\ call' = OutDone(f)
      [] sc.sseq = "BINIT" ->
           IF InLeft = 0 /\ ~(Has("empty_block_on_full_flush") /\ call.a \in {"FULL_FLUSH", "FULL_BARRIER"})
           THEN IF call.a # "FINISH"
                THEN RetOnly(IF call.a = "RUN" THEN "OK" ELSE "STREAM_END")
                ELSE \* lzma_index_encoder_init()
                     /\ Silent /\ tok' = NoTok /\ UNCHANGED <<fl, mt, blocks, call>>
                     /\ sc' = [sc EXCEPT !.sseq = "INDEX"]
           ELSE \* block_encoder_init() unless done by stream_encoder_init/update; Block Header
                /\ Silent /\ tok' = NoTok /\ UNCHANGED <<mt, blocks, call>>
                /\ fl' = IF sc.binit THEN fl ELSE FreshFl(sc.chain)
                /\ sc' = [sc EXCEPT !.binit = FALSE, !.sseq = "BHDR", !.bseq = "CODE", !.blockIn = 0,
                                    !.hdr = sc.chain]      \* lzma_block_header_encode() into coder->buffer
      [] sc.sseq = "BHDR" ->
           \/ PartialOut
           \/ \E f \in FullAfter :
                /\ Silent /\ UNCHANGED <<fl, mt, blocks>>
                /\ tok' = [kind |-> "block_header", chain |-> sc.hdr]
                /\ sc' = [sc EXCEPT !.sseq = "BENC"] /\ call' = OutDone(f)
      [] sc.sseq = "BENC" ->
           \* coder->block_encoder.code(..., convert[action])
           /\ Silent /\ tok' = NoTok /\ UNCHANGED <<sc, fl, mt, blocks>>
           /\ call' = [call EXCEPT !.lvl = "blk"]
      [] sc.sseq = "INDEX" ->
           \/ PartialOut
           \/ \E f \in FullAfter :
                /\ Silent /\ UNCHANGED <<fl, mt, blocks>>
                /\ tok' = [kind |-> "index", records |-> blocks]
                /\ sc' = [sc EXCEPT !.sseq = "FOOTER"] /\ call' = OutDone(f)
      [] sc.sseq = "FOOTER" ->
           \/ PartialOut
           \/ \E f \in FullAfter :
                /\ Return("STREAM_END", OutDone(f)) /\ UNCHANGED <<sc, fl, mt, blocks>>
                /\ tok' = [kind |-> "stream_footer"]

\* ---------------------------------------------------------------- stream_encode_mt() (coarse)
QMax == 4       \* output queue buffers (2 x threads, two worker threads)
MtSum(q) == IF q = <<>> THEN 0 ELSE LET S[i \in 0..Len(q)] == IF i = 0 THEN 0 ELSE S[i - 1] + q[i].n IN S[Len(q)]

MtStep ==
    CASE mt.seq = "HDR" ->
           \/ PartialOut
           \/ \E f \in FullAfter :
                /\ Silent /\ UNCHANGED <<sc, fl, blocks>> /\ tok' = [kind |-> "stream_header"]
                /\ mt' = [mt EXCEPT !.seq = "BLOCK", !.ph = "read"] /\ call' = OutDone(f)
      [] mt.seq = "BLOCK" /\ mt.ph = "read" ->
           \* lzma_outq_read(): nothing / part of the head buffer / the rest of a finished head buffer
           \/ /\ Silent /\ tok' = NoTok /\ UNCHANGED <<sc, fl, blocks, call>>
              /\ mt' = [mt EXCEPT !.ph = "in"]
           \/ /\ mt.q # <<>> /\ ~call.outFull
              /\ \E f \in FullAfter :
                   /\ Silent /\ tok' = NoTok /\ UNCHANGED <<sc, fl, blocks>>
                   /\ mt' = [mt EXCEPT !.ph = "in"] /\ call' = OutDone(f)
           \/ /\ mt.q # <<>> /\ mt.q[1].closed /\ ~call.outFull
              /\ \E f \in FullAfter :
                   /\ Silent /\ UNCHANGED <<sc, fl>>
                   /\ tok' = [kind |-> "mt_block", n |-> mt.q[1].n, chain |-> mt.q[1].chain]
                   /\ blocks' = Append(blocks, [n |-> mt.q[1].n, chain |-> mt.q[1].chain])
                   /\ mt' = [mt EXCEPT !.q = Tail(mt.q), !.ph = IF f THEN "in" ELSE "read"]
                   /\ call' = OutDone(f)
      [] mt.seq = "BLOCK" /\ mt.ph = "in" ->
           \* stream_encode_in(): one iteration of its while loop, or leaving it
           IF InLeft > 0 \/ (mt.thr /\ call.a # "RUN")
           THEN \/ \* get_thread() found no free worker / output buffer
                   /\ ~mt.thr
                   /\ Silent /\ tok' = NoTok /\ UNCHANGED <<sc, fl, blocks, call>>
                   /\ mt' = [mt EXCEPT !.ph = "decide"]
                \/ /\ ~mt.thr /\ mt.chain.lz = "freed" /\ call.plan > call.uin
                   \* (Bugs only) no filter chain left: the worker's Block encoder cannot be initialised
                   /\ RetOnly("PROG_ERROR")
                \/ /\ mt.thr \/ (Len(mt.q) < QMax /\ call.plan > call.uin /\ mt.chain.lz # "freed")
                   /\ LET q1 == IF mt.thr THEN mt.q
                                ELSE Append(mt.q, [n |-> 0, closed |-> FALSE, chain |-> mt.chain])
                          cur == q1[Len(q1)].n
                          want == call.plan - call.uin
                          k == IF cfg.bsize > 0 /\ cfg.bsize - cur < want THEN cfg.bsize - cur ELSE want
                          fin == (cfg.bsize > 0 /\ cur + k = cfg.bsize) \/ (k = InLeft /\ call.a # "RUN")
                          q2 == [q1 EXCEPT ![Len(q1)] = [@ EXCEPT !.n = cur + k, !.closed = fin]]
                      IN /\ Silent /\ tok' = NoTok /\ UNCHANGED <<sc, fl, blocks>>
                         /\ mt' = [mt EXCEPT !.q = q2, !.thr = ~fin,
                                             !.ph = IF k = 0 /\ ~fin THEN "decide" ELSE "in"]
                         /\ call' = [call EXCEPT !.uin = @ + k]
           ELSE /\ Silent /\ tok' = NoTok /\ UNCHANGED <<sc, fl, blocks, call>>
                /\ mt' = [mt EXCEPT !.ph = "decide"]
      [] mt.seq = "BLOCK" /\ mt.ph = "decide" ->
           IF InLeft = 0 /\ call.a = "RUN" THEN RetOnly("OK")
           ELSE IF InLeft = 0 /\ call.a = "FULL_BARRIER" THEN RetOnly("STREAM_END")
           ELSE IF InLeft = 0 /\ mt.q = <<>> /\ call.a = "FULL_FLUSH" THEN RetOnly("STREAM_END")
           ELSE IF InLeft = 0 /\ mt.q = <<>> /\ call.a = "FINISH"
           THEN /\ Silent /\ tok' = NoTok /\ UNCHANGED <<sc, fl, blocks, call>>
                /\ mt' = [mt EXCEPT !.seq = "INDEX"]
           ELSE IF call.outFull THEN RetOnly("OK")
           ELSE \* wait_for_work(), next iteration
                /\ Silent /\ tok' = NoTok /\ UNCHANGED <<sc, fl, blocks, call>>
                /\ mt' = [mt EXCEPT !.ph = "read"]
      [] mt.seq = "INDEX" ->
           IF call.outFull THEN RetOnly("OK")
           ELSE \/ PartialOut
                \/ \E f \in FullAfter :
                     /\ Silent /\ UNCHANGED <<sc, fl, blocks>>
                     /\ tok' = [kind |-> "index", records |-> blocks]
                     /\ mt' = [mt EXCEPT !.seq = "FOOTER"] /\ call' = OutDone(f)
      [] mt.seq = "FOOTER" ->
           IF call.outFull THEN RetOnly("OK")
           ELSE \/ PartialOut
                \/ \E f \in FullAfter :
                     /\ Return("STREAM_END", OutDone(f)) /\ UNCHANGED <<sc, fl, mt, blocks>>
                     /\ tok' = [kind |-> "stream_footer"]

\* ---------------------------------------------------------------- one inner step
InnerStep ==
    /\ call.active
    /\ CASE cfg.enc = "stream" -> StreamStep
         [] cfg.enc = "block"  -> BlockStep
         [] cfg.enc = "raw"    -> LzSteps
         [] cfg.enc = "mt"     -> MtStep

\* ---------------------------------------------------------------- the application calls lzma_code()
\* a, n: a new operation (app.op = "none") or the continuation of the current one (same action, rest of the input).
\* plan: how much of the input this call will consume at most (model checking: all of it).
BeginCall(a, n, plan, exact, pout, pfull, full0) ==
    /\ ~call.active
    /\ IF app.op = "none" THEN app' = [nops |-> app.nops + 1, op |-> a, left |-> n, n |-> n] /\ TRUE
       ELSE a = app.op /\ n = app.left /\ app' = app
    /\ LC!ReachesInner(a, n, 1, FALSE, FALSE, FALSE)
    /\ call' = [active |-> TRUE, a |-> a, ain |-> n, plan |-> plan, exact |-> exact, pout |-> pout, pfull |-> pfull,
                uin |-> 0, outAny |-> FALSE, outFull |-> full0, lvl |-> "top"]
    \* every call enters lz_encode() / stream_encode_mt()'s loop at its head
    /\ fl' = [fl EXCEPT !.lzpc = "top"] /\ mt' = [mt EXCEPT !.ph = "read"]
    /\ UNCHANGED <<lcvars, cfg, sc, blocks>> /\ tok' = NoTok /\ ev' = NoEv

\* lzma_code() returns before calling the coder (wrong action, after an error, after the end)
RejectedCall(a, n) ==
    /\ ~call.active
    /\ IF app.op = "none" THEN TRUE ELSE a = app.op /\ n = app.left
    /\ ~LC!ReachesInner(a, n, 1, FALSE, FALSE, FALSE)
    /\ LC!Call(a, n, 1, FALSE, FALSE, FALSE, "OK", 0, 0)
    /\ app' = [nops |-> IF app.op = "none" THEN app.nops + 1 ELSE app.nops, op |-> "none", left |-> 0, n |-> n]
    /\ ev' = [kind |-> "op", a |-> a, n |-> (IF app.op = "none" THEN n ELSE app.n), ret |-> obs'.ret]
    /\ UNCHANGED <<cfg, call, sc, fl, mt, blocks>> /\ tok' = NoTok

\* ---------------------------------------------------------------- lzma_filters_update()
\* lzma2_encoder_options_update() + the rest of lz_encoder_update(): [ret, f]
LzUpdate(f, t) ==
    IF f.lz = "lzma1" THEN [ret |-> "PROG_ERROR", f |-> f]                    \* coder->lz.options_update == NULL
    ELSE IF f.l2seq # "INIT" /\ ~Has("update_mid_chunk") THEN [ret |-> "PROG_ERROR", f |-> f]
    ELSE LET f1 == IF f.optCur # t.props
                   THEN [f EXCEPT !.optCur = t.props, !.needProps = TRUE, !.needState = TRUE] ELSE f
         IN  \* lzma_next_filter_update(&coder->next, ...): Filter ID must not change
             IF t.pre # f.pre THEN [ret |-> "PROG_ERROR", f |-> f1] ELSE [ret |-> "OK", f |-> f1]

\* block_encoder_update()
BlockUpdate(s, f, t) ==
    IF s.bseq # "CODE" THEN [ret |-> "PROG_ERROR", f |-> f]
    ELSE IF t.lz # f.lz THEN [ret |-> "PROG_ERROR", f |-> f]                  \* lzma_next_filter_update(): id check
    ELSE LzUpdate(f, t)

\* fm: what the application's lzma_allocator does during this call:
\*   "none"  works;
\*   "copy"  fails every allocation (the first one is the copy of the filter options: lzma_filters_copy());
\*   "init"  lets the option copies succeed and fails every later one (the (re)initialisation of the filters;
\*           whether that allocates at all depends on what can be reused: either outcome is possible).
\* The application may call this between any two lzma_code() calls, also while an operation is unfinished.
FailModes == {"none", "copy", "init"}
Update(t, fm) ==
    /\ ~call.active
    /\ app' = [app EXCEPT !.nops = @ + 1]
    /\ UNCHANGED <<lcvars, cfg, call, blocks>> /\ tok' = NoTok
    /\ LET done(r) == ev' = [kind |-> "update", target |-> t, ret |-> r, open |-> OpenBlock, fail |-> fm,
                             mid |-> (app.op # "none")] IN
       IF ~ValidChain(t)
       THEN done("OPTIONS_ERROR") /\ UNCHANGED <<sc, fl, mt>>
       ELSE
       CASE cfg.enc = "stream" ->
              IF fm = "copy"
              THEN \* return_if_error(lzma_filters_copy(filters, temp, allocator)) comes before anything else
                   done("MEM_ERROR") /\ UNCHANGED <<sc, fl, mt>>
              ELSE IF sc.sseq \in {"HDR", "BINIT"}
                      \/ (Has("stream_update_mid_block") /\ sc.sseq = "BENC")
                      \/ (Has("stream_update_in_block_header") /\ sc.sseq = "BHDR")
              THEN \* block_encoder_is_initialized = false; block_encoder_init() with the new chain
                   \/ /\ ~InitOk(t) \/ fm = "init"
                      \* ... fails inside the filter initialisation (LZMA_OPTIONS_ERROR from the BCJ filter or
                      \* LZMA_MEM_ERROR): the Block encoder's filters are gone, the next Block must initialise again
                      /\ done(IF fm = "init" THEN "MEM_ERROR" ELSE "OPTIONS_ERROR") /\ UNCHANGED mt
                      /\ sc' = [sc EXCEPT !.binit = Has("update_keeps_block_initialized") /\ sc.binit]
                      /\ fl' = [fl EXCEPT !.dead = TRUE]
                   \/ /\ ~InitOk(t) /\ fm = "init"
                      \* the allocations before lzma_simple_coder_init() were not needed: refused there
                      /\ done("OPTIONS_ERROR") /\ UNCHANGED mt
                      /\ sc' = [sc EXCEPT !.binit = Has("update_keeps_block_initialized") /\ sc.binit]
                      /\ fl' = [fl EXCEPT !.dead = TRUE]
                   \/ /\ InitOk(t)
                      /\ done("OK") /\ UNCHANGED mt
                      /\ sc' = [sc EXCEPT !.binit = TRUE, !.chain = t, !.bseq = "CODE",
                                          !.blockIn = IF sc.sseq = "BENC" THEN @ ELSE 0]
                      /\ fl' = [FreshFl(t) EXCEPT !.lost = ~PipeEmpty(fl) /\ sc.sseq = "BENC"]
              ELSE IF sc.sseq \in {"BHDR", "BENC"}
              THEN \* coder->block_encoder.update(): only filter-specific options; allocates nothing
                   LET r == BlockUpdate(sc, fl, t) IN
                   /\ done(r.ret) /\ UNCHANGED mt /\ fl' = r.f
                   /\ sc' = IF r.ret = "OK" THEN [sc EXCEPT !.chain = t] ELSE sc
              ELSE done("PROG_ERROR") /\ UNCHANGED <<sc, fl, mt>>
         [] cfg.enc = "block" ->
              LET r == BlockUpdate(sc, fl, t) IN done(r.ret) /\ fl' = r.f /\ UNCHANGED <<sc, mt>>
         [] cfg.enc = "raw" ->
              LET r == LzUpdate(fl, t) IN done(r.ret) /\ fl' = r.f /\ UNCHANGED <<sc, mt>>
         [] cfg.enc = "mt" ->
              IF mt.seq \in {"INDEX", "FOOTER"} THEN done("PROG_ERROR") /\ UNCHANGED <<sc, fl, mt>>
              ELSE IF mt.thr /\ ~Has("mt_update_mid_block") THEN done("PROG_ERROR") /\ UNCHANGED <<sc, fl, mt>>
              ELSE IF fm = "copy"
              THEN \* lzma_filters_copy(filters, temp, allocator) failed: coder->filters is untouched
                   /\ done("MEM_ERROR") /\ UNCHANGED <<sc, fl>>
                   /\ mt' = IF Has("mt_update_frees_first") THEN [mt EXCEPT !.chain = Chain("none", "freed", "p0")] ELSE mt
              ELSE /\ done("OK") /\ UNCHANGED <<sc, fl>>
                   /\ mt' = IF mt.thr
                            THEN [mt EXCEPT !.chain = t, !.q = [@ EXCEPT ![Len(@)] = [@ EXCEPT !.chain = t]]]
                            ELSE [mt EXCEPT !.chain = t]

\* ---------------------------------------------------------------- model checking: all applications
AppActions == {"RUN", "SYNC_FLUSH", "FULL_FLUSH", "FINISH", "FULL_BARRIER"}
\* chains an application may switch to: same LZ coder (the Filter ID of the last filter cannot change in .xz)
Targets == {t \in ChainsAll : t.lz = cfg.chain0.lz}

Next ==
    \/ /\ app.op = "none" /\ app.nops < MaxOps
       /\ \E a \in AppActions, n \in 0..MaxIn : BeginCall(a, n, n, FALSE, 1, "any", FALSE) \/ RejectedCall(a, n)
    \/ /\ app.op # "none"
       /\ BeginCall(app.op, app.left, app.left, FALSE, 1, "any", FALSE) \/ RejectedCall(app.op, app.left)
    \/ InnerStep
    \/ /\ app.nops < MaxOps /\ \E t \in Targets, fm \in FailModes : Update(t, fm)

\* ---------------------------------------------------------------- derived state (for contracts and bindings)
TotalBlockBytes ==
    LET S[i \in 0..Len(blocks)] == IF i = 0 THEN 0 ELSE S[i - 1] + blocks[i].n IN S[Len(blocks)]

TypeOK ==
    /\ LC!TypeOK
    /\ cfg.enc \in Encoders /\ cfg.grant \in {"one", "big", "some"}
    /\ app.op \in AppActions \cup {"none"} /\ app.left \in Nat /\ app.nops \in Nat
    /\ call.active \in BOOLEAN /\ call.uin <= call.plan /\ call.plan <= call.ain
    /\ sc.sseq \in {"HDR", "BINIT", "BHDR", "BENC", "INDEX", "FOOTER"} /\ sc.bseq \in {"CODE", "PAD", "CHECK"}
    /\ fl.l2seq \in {"INIT", "ENC", "COPY", "UHDR", "UCOPY"} /\ fl.mfAct \in {"RUN", "SYNC_FLUSH", "FINISH"}
    /\ (fl.avail => fl.win)
=============================================================================
