-------------------------------- MODULE Bcj ---------------------------------
(* C15: the branch/call/jump (BCJ) transforms of the .xz format as TLA+       *)
(* definitions.  The file-format document delegates the algorithms to the    *)
(* reference implementation, so each operator below restates, as arithmetic  *)
(* on bytes and 32-bit words (16-bit limbs, Limbs16), what the format fixes: *)
(* which byte patterns are instructions, which bits hold the address, and    *)
(* absolute = relative + position (encoder) / relative = absolute - position *)
(* (decoder), all modulo 2^32.                                               *)
(*                                                                           *)
(* Code(arch, enc, st, nowPos, buf) is one application of the transform to a *)
(* buffer whose first byte has stream position nowPos (a 32-bit word):       *)
(*    .n   how many leading bytes are final (the rest must be presented      *)
(*         again together with the following bytes),                         *)
(*    .buf the buffer after conversion, .st the state carried to the next    *)
(*         application (x86 only: prev_mask / prev_pos).                      *)
(* Stream(arch, enc, off, data) is the transform of a whole stream: by the   *)
(* format's rule the bytes that the last application leaves unprocessed are  *)
(* copied as they are.                                                       *)
EXTENDS Naturals, Sequences, SequencesExt, Bitwise, Limbs16

Archs == {"x86", "powerpc", "ia64", "arm", "armthumb", "sparc", "arm64", "riscv"}
\* required alignment of start_offset (and of every position at which an application may start)
Alignment(arch) == CASE arch = "x86" -> 1 [] arch = "powerpc" -> 4 [] arch = "ia64" -> 16 [] arch = "arm" -> 4
                     [] arch = "armthumb" -> 2 [] arch = "sparc" -> 4 [] arch = "arm64" -> 4 [] arch = "riscv" -> 2
\* largest number of bytes an application may leave unprocessed (size of the hold-back buffer is twice this)
UnfilteredMax(arch) == CASE arch = "x86" -> 5 [] arch = "powerpc" -> 4 [] arch = "ia64" -> 16 [] arch = "arm" -> 4
                     [] arch = "armthumb" -> 4 [] arch = "sparc" -> 4 [] arch = "arm64" -> 4 [] arch = "riscv" -> 8

H32(hi, lo) == <<lo, hi>>                         \* 32-bit constant from two hex halves
Iota0(n) == [k \in 1..n |-> k - 1]                \* <<0, 1, ..., n-1>>
Pc(nowPos, i) == Add32(nowPos, U32(i))
Get4LE(buf, i) == FromBytes32(buf[i + 1], buf[i + 2], buf[i + 3], buf[i + 4])
Get4BE(buf, i) == FromBytes32(buf[i + 4], buf[i + 3], buf[i + 2], buf[i + 1])
Put4LE(buf, i, w) == [buf EXCEPT ![i + 1] = Byte32(w, 0), ![i + 2] = Byte32(w, 1), ![i + 3] = Byte32(w, 2), ![i + 4] = Byte32(w, 3)]
Put4BE(buf, i, w) == [buf EXCEPT ![i + 1] = Byte32(w, 3), ![i + 2] = Byte32(w, 2), ![i + 3] = Byte32(w, 1), ![i + 4] = Byte32(w, 0)]
\* absolute <-> relative
Conv(enc, src, pos) == IF enc THEN Add32(src, pos) ELSE Sub32(src, pos)
NoState == [mask |-> 0, pos |-> <<0, 0>>]

\* ------------------------------------------------------------------ x86
\* E8/E9 (CALL/JMP rel32) whose most significant displacement byte is 00 or FF; prev_mask remembers which of
\* the previous bytes looked like opcodes so that overlapping candidates are handled identically both ways.
X86Init == [mask |-> 0, pos |-> Neg32(U32(5))]
X86Test(b) == b = 0 \/ b = 255
MaskToBit == <<0, 1, 2, 2, 3>>
LowOnes(k) == IF k = 24 THEN H32(\h00FF, \hFFFF) ELSE IF k = 16 THEN H32(0, \hFFFF) ELSE H32(0, \h00FF)   \* k = 8
RECURSIVE X86Dest(_, _, _, _)
X86Dest(enc, src, ip5, pm) ==
    LET dest == Conv(enc, src, ip5)
    IN IF pm = 0 THEN dest
       ELSE LET idx == MaskToBit[(pm \div 2) + 1]
                b   == Byte32(dest, 3 - idx)
            IN IF ~X86Test(b) THEN dest
               ELSE X86Dest(enc, Xor32(dest, LowOnes(32 - 8 * idx)), ip5, pm)
X86ShiftMask(pm, times) == FoldLeft(LAMBDA m, j : (m & 119) * 2, pm, Iota0(times))
X86Step(enc, nowPos, s, i) ==
    IF i # s.nx \/ (s.b[i + 1] # 232 /\ s.b[i + 1] # 233)
    THEN (IF i = s.nx THEN [s EXCEPT !.nx = i + 1] ELSE s)
    ELSE LET cur    == Pc(nowPos, i)
             offset == Sub32(cur, s.pp)
             pm1    == IF offset[2] # 0 \/ offset[1] > 5 THEN 0 ELSE X86ShiftMask(s.pm, offset[1])
             b4     == s.b[i + 5]
         IN IF X86Test(b4) /\ (pm1 \div 2) <= 4 /\ (pm1 \div 2) # 3
            THEN LET src  == Get4LE(s.b, i + 1)
                     dest == X86Dest(enc, src, Pc(nowPos, i + 5), pm1)
                     top  == IF Bit32(dest, 24) = 1 THEN 255 ELSE 0
                 IN [b |-> [s.b EXCEPT ![i + 2] = Byte32(dest, 0), ![i + 3] = Byte32(dest, 1),
                                       ![i + 4] = Byte32(dest, 2), ![i + 5] = top],
                     nx |-> i + 5, pm |-> 0, pp |-> cur]
            ELSE [b |-> s.b, nx |-> i + 1, pm |-> (pm1 | 1) | (IF X86Test(b4) THEN 16 ELSE 0), pp |-> cur]
X86Code(enc, st, nowPos, buf) ==
    IF Len(buf) < 5 THEN [n |-> 0, buf |-> buf, st |-> st]
    ELSE LET gap == Sub32(nowPos, st.pos)
             pp0 == IF gap[2] # 0 \/ gap[1] > 5 THEN Sub32(nowPos, U32(5)) ELSE st.pos
             r   == FoldLeft(LAMBDA s, i : X86Step(enc, nowPos, s, i),
                             [b |-> buf, nx |-> 0, pm |-> st.mask, pp |-> pp0], Iota0(Len(buf) - 4))
         IN [n |-> r.nx, buf |-> r.b, st |-> [mask |-> r.pm, pos |-> r.pp]]

\* ------------------------------------------------------------------ fixed 4-byte words
\* result of applying `f(b, i)` to every complete word (i = 0, 4, 8, ...)
Words4(buf, f(_, _)) ==
    LET n == (Len(buf) \div 4) * 4
    IN [n |-> n, buf |-> FoldLeft(LAMBDA b, k : f(b, 4 * k), buf, Iota0(n \div 4)), st |-> NoState]

\* ARM: BL (cond = always): xx xx xx EB, 24-bit word offset, pc = position + 8
ArmWord(enc, nowPos, b, i) ==
    IF b[i + 4] # 235 THEN b
    ELSE LET src  == Shl32(FromBytes32(b[i + 1], b[i + 2], b[i + 3], 0), 2)
             dest == Shr32(Conv(enc, src, Pc(nowPos, i + 8)), 2)
         IN [b EXCEPT ![i + 1] = Byte32(dest, 0), ![i + 2] = Byte32(dest, 1), ![i + 3] = Byte32(dest, 2)]
ArmCode(enc, st, nowPos, buf) == Words4(buf, LAMBDA b, i : ArmWord(enc, nowPos, b, i))

\* PowerPC (big endian): opcode 18 (b/bl) with AA = 0, LK = 1: 0100 10xx ... xx01, 24-bit word offset
PpcWord(enc, nowPos, b, i) ==
    IF ~(b[i + 1] \div 4 = 18 /\ b[i + 4] % 4 = 1) THEN b
    ELSE LET src  == FromBytes32(b[i + 4] - 1, b[i + 3], b[i + 2], b[i + 1] % 4)
             dest == Conv(enc, src, Pc(nowPos, i))
         IN [b EXCEPT ![i + 1] = 72 + (Byte32(dest, 3) % 4), ![i + 2] = Byte32(dest, 2), ![i + 3] = Byte32(dest, 1),
                      ![i + 4] = Byte32(dest, 0) | 1]
PpcCode(enc, st, nowPos, buf) == Words4(buf, LAMBDA b, i : PpcWord(enc, nowPos, b, i))

\* SPARC (big endian): CALL with a displacement whose upper bits are a sign extension:
\* 01 000000 00.. or 01 111111 11..; the absolute address is stored sign-extended from bit 22
SparcWord(enc, nowPos, b, i) ==
    IF ~((b[i + 1] = 64 /\ b[i + 2] \div 64 = 0) \/ (b[i + 1] = 127 /\ b[i + 2] \div 64 = 3)) THEN b
    ELSE LET src  == Shl32(Get4BE(b, i), 2)
             d    == Shr32(Conv(enc, src, Pc(nowPos, i)), 2)
             sign == IF Bit32(d, 22) = 1 THEN H32(\h3FC0, 0) ELSE H32(0, 0)      \* bits 22..29
             dest == Or32(Or32(sign, And32(d, H32(\h003F, \hFFFF))), H32(\h4000, 0))
         IN Put4BE(b, i, dest)
SparcCode(enc, st, nowPos, buf) == Words4(buf, LAMBDA b, i : SparcWord(enc, nowPos, b, i))

\* ARM64: BL (100101 imm26) always; ADRP (1 immlo 10000 immhi Rd) only if the 21-bit page offset is within
\* +-512 MiB (imm in [-2^17, 2^17)), so that encoder and decoder select the same instructions
Arm64Word(enc, nowPos, b, i) ==
    LET instr == Get4LE(b, i)
        pc    == Pc(nowPos, i)
    IN IF instr[2] \div 1024 = 37
       THEN LET pcw == IF enc THEN Shr32(pc, 2) ELSE Neg32(Shr32(pc, 2))
            IN Put4LE(b, i, Or32(H32(\h9400, 0), And32(Add32(instr, pcw), H32(\h03FF, \hFFFF))))
       ELSE IF And32(instr, H32(\h9F00, 0)) = H32(\h9000, 0)
       THEN LET src == Or32(And32(Shr32(instr, 29), U32(3)), And32(Shr32(instr, 3), H32(\h001F, \hFFFC)))
            IN IF And32(Add32(src, H32(2, 0)), H32(\h001C, 0)) # <<0, 0>> THEN b
               ELSE LET pcw  == IF enc THEN Shr32(pc, 12) ELSE Neg32(Shr32(pc, 12))
                        dest == Add32(src, pcw)
                        keep == And32(instr, H32(\h9000, \h001F))
                        lo2  == Shl32(And32(dest, U32(3)), 29)
                        mid  == Shl32(And32(dest, H32(3, \hFFFC)), 3)
                        sgn  == IF Bit32(dest, 17) = 1 THEN H32(\h00E0, 0) ELSE H32(0, 0)
                    IN Put4LE(b, i, Or32(Or32(keep, lo2), Or32(mid, sgn)))
       ELSE b
Arm64Code(enc, st, nowPos, buf) == Words4(buf, LAMBDA b, i : Arm64Word(enc, nowPos, b, i))

\* ------------------------------------------------------------------ ARM Thumb
\* BL pair: 11110 imm11(hi) / 11111 imm11(lo), little-endian halfwords, pc = position + 4; scanned at every
\* halfword, a converted pair is skipped as a whole
ThumbStep(enc, nowPos, s, i) ==
    IF i # s.nx THEN s
    ELSE LET b == s.b
         IN IF ~((b[i + 2] \div 8) = 30 /\ (b[i + 4] \div 8) = 31) THEN [s EXCEPT !.nx = i + 2]
            ELSE LET src  == U32(((b[i + 2] % 8) * 524288 + b[i + 1] * 2048 + (b[i + 4] % 8) * 256 + b[i + 3]) * 2)
                     dest == Shr32(Conv(enc, src, Pc(nowPos, i + 4)), 1)
                 IN [b  |-> [b EXCEPT ![i + 2] = 240 + (Shr32(dest, 19)[1] % 8), ![i + 1] = Shr32(dest, 11)[1] % 256,
                                      ![i + 4] = 248 + (Shr32(dest, 8)[1] % 8), ![i + 3] = Byte32(dest, 0)],
                     nx |-> i + 4]
ThumbCode(enc, st, nowPos, buf) ==
    IF Len(buf) < 4 THEN [n |-> 0, buf |-> buf, st |-> NoState]
    ELSE LET cnt == ((Len(buf) - 4) \div 2) + 1          \* i = 0, 2, ..., <= size - 4
             r   == FoldLeft(LAMBDA s, k : ThumbStep(enc, nowPos, s, 2 * k), [b |-> buf, nx |-> 0], Iota0(cnt))
         IN [n |-> r.nx, buf |-> r.b, st |-> NoState]

\* ------------------------------------------------------------------ IA-64
\* 16-byte bundles: 5-bit template selects which of the three 41-bit slots are branch units; a slot is
\* converted if its opcode (bits 37..40) is 5 and bits 9..11 are 0; the address is 21 bits (20 + sign) in
\* units of 16 bytes.  Bits are numbered inside the bundle, least significant first.
Ia64Mask(t) == CASE t \in {16, 17} -> 4 [] t \in {18, 19} -> 6 [] t \in {22, 23} -> 7
                 [] t \in {24, 25} -> 4 [] t \in {28, 29} -> 4 [] OTHER -> 0
BundleBit(b, i, k) == (b[i + (k \div 8) + 1] \div Pow2(k % 8)) % 2
\* value of bits [from, from + cnt) of the bundle (cnt < 31)
BundleField(b, i, from, cnt) == FoldLeft(LAMBDA a, j : a + BundleBit(b, i, from + j) * Pow2(j), 0, Iota0(cnt))
\* the bundle at i with bit k replaced by v, for all k in dom(newbits)
SetBundleBits(b, i, base, w, cnt, basebit) ==      \* bits base..base+cnt-1 := bits basebit.. of word w
    FoldLeft(LAMBDA bb, j :
               LET k    == base + j
                   idx  == i + (k \div 8) + 1
                   old  == (bb[idx] \div Pow2(k % 8)) % 2
                   new  == Bit32(w, basebit + j)
               IN IF old = new THEN bb
                  ELSE IF new = 1 THEN [bb EXCEPT ![idx] = @ + Pow2(k % 8)] ELSE [bb EXCEPT ![idx] = @ - Pow2(k % 8)],
             b, Iota0(cnt))
Ia64Slot(enc, nowPos, b, i, slot) ==
    LET s0 == 5 + 41 * slot                          \* first bit of the slot
    IN IF ~(BundleField(b, i, s0 + 37, 4) = 5 /\ BundleField(b, i, s0 + 9, 3) = 0) THEN b
       ELSE LET src  == U32((BundleField(b, i, s0 + 13, 20) + BundleBit(b, i, s0 + 36) * 1048576) * 16)
                dest == Shr32(Conv(enc, src, Pc(nowPos, i)), 4)
            IN SetBundleBits(SetBundleBits(b, i, s0 + 13, dest, 20, 0), i, s0 + 36, dest, 1, 20)
Ia64Bundle(enc, nowPos, b, i) ==
    LET mask == Ia64Mask(b[i + 1] % 32)
    IN FoldLeft(LAMBDA bb, slot : IF (mask \div Pow2(slot)) % 2 = 1 THEN Ia64Slot(enc, nowPos, bb, i, slot) ELSE bb,
                b, <<0, 1, 2>>)
Ia64Code(enc, st, nowPos, buf) ==
    LET n == (Len(buf) \div 16) * 16
    IN [n |-> n, buf |-> FoldLeft(LAMBDA b, k : Ia64Bundle(enc, nowPos, b, 16 * k), buf, Iota0(n \div 16)), st |-> NoState]

\* ------------------------------------------------------------------ RISC-V
\* JAL with rd = x1 or x5: the 20-bit J-immediate becomes the absolute address stored big endian in bits 12..31.
\* AUIPC rd (rd not x0/x2) followed by a 32-bit instruction whose rs1 = rd: the pair becomes
\* "AUIPC x2" carrying the low 20 bits of the second instruction + the 32-bit absolute address big endian;
\* input that already looks like that special form is mapped the other way without address conversion.
Rd(inst)  == Shr32(inst, 7)[1] % 32
Rs1(inst) == Shr32(inst, 15)[1] % 32
IsAuipcPair(auipc, inst2) == inst2[1] % 4 = 3 /\ Rd(auipc) = Rs1(inst2)
IsSpecialAuipc(auipc) == auipc[1] % 16384 = 12567 (* 0x3117 *) /\ (Shr32(auipc, 27)[1] \notin {0, 2})
JalMatch(b, i) == b[i + 1] = 239 /\ (b[i + 2] & 13) = 0
AuipcHead == 279                                   \* 0x17 | (2 << 7)

RvEncStep(nowPos, s, i) ==
    IF i # s.nx THEN s
    ELSE LET b == s.b
         IN IF b[i + 1] = 239
            THEN IF (b[i + 2] & 13) # 0 THEN [s EXCEPT !.nx = i + 2]
                 ELSE LET b1 == b[i + 2]  b2 == b[i + 3]  b3 == b[i + 4]
                          rel == (b1 \div 16) * 4096 + (b2 % 16) * 65536 + ((b2 \div 16) % 2) * 2048
                                 + (b2 \div 32) * 2 + (b3 % 128) * 16 + (b3 \div 128) * 1048576
                          addr == Add32(U32(rel), Pc(nowPos, i))
                      IN [b  |-> [b EXCEPT ![i + 2] = (b1 % 16) + ((Shr32(addr, 13)[1] % 256) & 240),
                                           ![i + 3] = Shr32(addr, 9)[1] % 256, ![i + 4] = Shr32(addr, 1)[1] % 256],
                          nx |-> i + 4]
            ELSE IF b[i + 1] % 128 = 23
            THEN LET inst == Get4LE(b, i)
                 IN IF (inst[1] & 3712) # 0                 \* 0xE80: rd is neither x0 nor x2
                    THEN LET inst2 == Get4LE(b, i + 4)
                         IN IF ~IsAuipcPair(inst, inst2) THEN [s EXCEPT !.nx = i + 6]
                            ELSE LET imm12 == Shr32(inst2, 20)                     \* sign-extended below
                                     sext  == IF Bit32(inst2, 31) = 1 THEN Sub32(imm12, U32(4096)) ELSE imm12
                                     addr  == Add32(Add32(And32(inst, H32(\hFFFF, \hF000)), sext), Pc(nowPos, i))
                                     out1  == Or32(U32(AuipcHead), Shl32(inst2, 12))
                                 IN [b |-> Put4BE(Put4LE(b, i, out1), i + 4, addr), nx |-> i + 8]
                    ELSE IF ~IsSpecialAuipc(inst) THEN [s EXCEPT !.nx = i + 4]
                         ELSE LET fakeRs1  == Shr32(inst, 27)[1]
                                  fakeAddr == Get4LE(b, i + 4)
                                  fake2    == Or32(Shr32(inst, 12), Shl32(fakeAddr, 20))
                                  out1     == Or32(U32(23 + fakeRs1 * 128), And32(fakeAddr, H32(\hFFFF, \hF000)))
                              IN [b |-> Put4LE(Put4LE(b, i, out1), i + 4, fake2), nx |-> i + 8]
            ELSE [s EXCEPT !.nx = i + 2]

RvDecStep(nowPos, s, i) ==
    IF i # s.nx THEN s
    ELSE LET b == s.b
         IN IF b[i + 1] = 239
            THEN IF (b[i + 2] & 13) # 0 THEN [s EXCEPT !.nx = i + 2]
                 ELSE LET b1 == b[i + 2]  b2 == b[i + 3]  b3 == b[i + 4]
                          abs  == (b1 \div 16) * 131072 + b2 * 512 + b3 * 2
                          addr == Sub32(U32(abs), Pc(nowPos, i))
                          a(k) == Shr32(addr, k)[1] % 256             \* (uint8_t)(addr >> k)
                      IN [b  |-> [b EXCEPT ![i + 2] = (b1 % 16) + (a(8) & 240),
                                           ![i + 3] = (a(16) & 15) + (a(7) & 16) + ((Byte32(addr, 0) * 16) & 224),
                                           ![i + 4] = (a(4) & 127) + (a(13) & 128)],
                          nx |-> i + 4]
            ELSE IF b[i + 1] % 128 = 23
            THEN LET inst == Get4LE(b, i)
                 IN IF (inst[1] & 3712) # 0
                    THEN LET inst2 == Get4LE(b, i + 4)
                         IN IF ~IsAuipcPair(inst, inst2) THEN [s EXCEPT !.nx = i + 6]
                            ELSE LET addr == Add32(And32(inst, H32(\hFFFF, \hF000)), Shr32(inst2, 20))
                                     out1 == Or32(U32(AuipcHead), Shl32(inst2, 12))
                                 IN [b |-> Put4LE(Put4LE(b, i, out1), i + 4, addr), nx |-> i + 8]
                    ELSE IF ~IsSpecialAuipc(inst) THEN [s EXCEPT !.nx = i + 4]
                         ELSE LET rs1   == Shr32(inst, 27)[1]
                                  addr  == Sub32(Get4BE(b, i + 4), Pc(nowPos, i))
                                  inst2 == Or32(Shr32(inst, 12), Shl32(addr, 20))
                                  out1  == Or32(U32(23 + rs1 * 128), And32(Add32(addr, U32(2048)), H32(\hFFFF, \hF000)))
                              IN [b |-> Put4LE(Put4LE(b, i, out1), i + 4, inst2), nx |-> i + 8]
            ELSE [s EXCEPT !.nx = i + 2]

RiscvCode(enc, st, nowPos, buf) ==
    IF Len(buf) < 8 THEN [n |-> 0, buf |-> buf, st |-> NoState]
    ELSE LET cnt == ((Len(buf) - 8) \div 2) + 1          \* i = 0, 2, ..., <= size - 8
             r   == FoldLeft(LAMBDA s, k : IF enc THEN RvEncStep(nowPos, s, 2 * k) ELSE RvDecStep(nowPos, s, 2 * k),
                             [b |-> buf, nx |-> 0], Iota0(cnt))
         IN [n |-> r.nx, buf |-> r.b, st |-> NoState]

\* ------------------------------------------------------------------ dispatch
InitState(arch) == IF arch = "x86" THEN X86Init ELSE NoState
Code(arch, enc, st, nowPos, buf) ==
    CASE arch = "x86"      -> X86Code(enc, st, nowPos, buf)
      [] arch = "powerpc"  -> PpcCode(enc, st, nowPos, buf)
      [] arch = "ia64"     -> Ia64Code(enc, st, nowPos, buf)
      [] arch = "arm"      -> ArmCode(enc, st, nowPos, buf)
      [] arch = "armthumb" -> ThumbCode(enc, st, nowPos, buf)
      [] arch = "sparc"    -> SparcCode(enc, st, nowPos, buf)
      [] arch = "arm64"    -> Arm64Code(enc, st, nowPos, buf)
      [] arch = "riscv"    -> RiscvCode(enc, st, nowPos, buf)

\* the transform of a complete stream that starts at position `off`
Stream(arch, enc, off, data) == Code(arch, enc, InitState(arch), off, data).buf
=============================================================================
