------------------------------- MODULE XzFormat -------------------------------
(* DECLARATIVE definition of the .xz format on abstract files (XzFile.tla),    *)
(* written from doc/xz-file-format.txt section by section - no decoder state,  *)
(* no order of evaluation: Valid(file) says which files are valid AND          *)
(* supported by this build, Meaning(file) is the data they stand for.          *)
(* MCXzStreamDec checks the operational decoder model against it.              *)
EXTENDS XzFile

(* 2.1.1 Stream Header: magic, Stream Flags (reserved bits zero), CRC32 *)
ValidStreamHeader(S) == S.hmagic /\ S.hvers /\ S.hcrc
(* 5.3 filters supported here, with the property sizes they define (5.3.1 - 5.3.3) *)
ValidFilterFlags(f) ==
    /\ f.idv = "ok" /\ f.psv = "ok"                        \* 1.2: integers use the minimal encoding, at most nine bytes
    /\ \/ f.id = "lzma2" /\ f.plen = 1 /\ f.pok               \* one byte, dictionary size 0..40
       \/ f.id = "delta" /\ f.plen = 1                        \* one byte, distance - 1
       \/ f.id \in Bcj /\ f.plen \in {0, 4} /\ f.pok          \* optional start offset, aligned
(* 3.1.2: 1-4 filters; 5.3: LZMA2 only as the last filter, delta / BCJ only as non-last filters *)
ValidChain(fs) == /\ Len(fs) \in 1..4
                  /\ \A k \in 1..Len(fs) : ValidFilterFlags(fs[k])
                  /\ fs[Len(fs)].id = "lzma2"
                  /\ \A k \in 1..(Len(fs) - 1) : fs[k].id \in Bcj \cup {"delta"}
(* 3.1 Block Header *)
ValidBlockHeader(T) ==
    /\ T.hsz = HdrReal(T) /\ T.hsz % 4 = 0 /\ T.hsz \in 8..1024     \* 3.1.1 real size = (stored + 1) * 4
    /\ ~T.resv                                                      \* 3.1.2 reserved bits
    /\ T.fits
    /\ T.cs.p => (T.cs.vli /\ T.cs.v > 0)                            \* 3.1.3
    /\ T.us.p => T.us.vli                                            \* 3.1.4
    /\ ValidChain(T.filters)                                         \* 3.1.5
    /\ T.hpadz                                                       \* 3.1.6
    /\ T.hcrc                                                        \* 3.1.7
(* 3 Block: header, data of exactly the stated sizes, padding, check *)
ValidBlock(T, check, verify) ==
    /\ ValidBlockHeader(T)
    /\ L2Valid(T.chunks) /\ EndIndex(T.chunks) = Len(T.chunks)       \* 3.2 Compressed Data is one LZMA2 stream
    /\ T.cs.p => (T.cs.v = DataReal(T) /\ T.cs.big = "")
    /\ T.us.p => (T.us.v = DataOut(T) /\ T.us.big = "")
    /\ BlockPadLen(T) > 0 => T.bpadz                                 \* 3.3
    /\ (verify /\ CheckSupported(check) /\ CheckSize(check) > 0) => T.chk     \* 3.4 (verified when the type is supported)
(* 4 Index: one Record per Block, in order, with the Blocks' real sizes *)
ValidIndex(T) ==
    /\ T.ivli
    /\ T.icount = Len(T.blocks) /\ T.icb = "" /\ Len(T.irecs) = Len(T.blocks)      \* 4.2
    /\ \A k \in 1..Len(T.blocks) :                                   \* 4.3
          T.irecs[k] = Rec(Unpadded(T.blocks[k], T.check), DataOut(T.blocks[k]))
    /\ IndexPad(T) > 0 => T.ipadz                             \* 4.4
    /\ T.icrc                                                        \* 4.5
(* 2.1.2 Stream Footer *)
ValidStreamFooter(T) == /\ T.fcrc /\ T.fmagic /\ T.fvers
                        /\ T.fbs = IndexRealMin(T) /\ T.fbb = ""        \* 2.1.2.2 Backward Size
                        /\ T.fcheck = T.check                        \* 2.1.2.3 identical Stream Flags
ValidStream(T, verify) == /\ ValidStreamHeader(T)
                          /\ \A k \in 1..Len(T.blocks) : ValidBlock(T.blocks[k], T.check, verify)
                          /\ ValidIndex(T) /\ ValidStreamFooter(T)
(* 2 Overall structure: Streams, each followed by Stream Padding that is a multiple of four bytes (2.2). *)
(* A decoder of a single Stream (no LZMA_CONCATENATED) is defined on the first Stream only.            *)
Valid(f, concat, verify) ==
    IF concat THEN \A k \in 1..Len(f.streams) : ValidStream(f.streams[k], verify) /\ f.streams[k].pad % 4 = 0
              ELSE ValidStream(f.streams[1], verify)
StreamMeaning(T) == [k \in 1..Len(T.blocks) |-> T.blocks[k].did]
Meaning(f, concat) == IF concat THEN ConcatAll([k \in 1..Len(f.streams) |-> StreamMeaning(f.streams[k])])
                      ELSE StreamMeaning(f.streams[1])
Extent(f, concat) == IF concat THEN FileReal(f) ELSE StreamReal(f.streams[1])
=============================================================================
