---------------------------- MODULE FormatContract ----------------------------
(* The property C16, stated over file descriptions without any reference to   *)
(* the decoders' state machines or to how the input is sliced:                *)
(*   - which .lzma / .lz / .xz files are accepted (doc/lzma-file-format.txt,   *)
(*     the lzip manual, section 2.1 of the .xz format) and with what content,  *)
(*   - auto-detection = the specific decoder for .xz, .lz and plausible .lzma, *)
(*     LZMA_FORMAT_ERROR otherwise,                                            *)
(*   - concatenation rules and the input position at LZMA_STREAM_END.          *)
(* Expect(fd, api, flags) = [rets, out, outRel, tin]:                          *)
(*   rets    the return values of lzma_code() other than LZMA_OK, in order     *)
(*   out     number of bytes produced; outRel "eq" | "ge" | "le"               *)
(*   tin     total_in at the end, -1 where the formats do not define it        *)
(*           (errors other than running out of input)                          *)
EXTENDS FormatFiles

E(rets, out, rel, tin) == [rets |-> rets, out |-> out, outRel |-> rel, tin |-> tin]
FileLen(fd) == Len(FullTokens(fd)) - fd.cut

(* ------------------------------------------------------------------ .lzma *)
AloneTells(flags, len) ==
    IF len < 1 THEN <<>>
    ELSE IF "TELL_NO_CHECK" \in flags THEN <<"NO_CHECK">>
    ELSE IF "TELL_ANY_CHECK" \in flags THEN <<"GET_CHECK">> ELSE <<>>

AloneExpect(fd, viaAuto, flags) ==
    LET len    == FileLen(fd)
        usb    == UszBytes(fd.usz, fd.n)
        \* 0xFD and 0x4C ('L') are not valid Properties bytes: such files go to the .xz / .lz decoders,
        \* which reject them without the notification that every (supposed) .lzma file gets
        tells  == IF viaAuto /\ fd.props \notin {253, 76} THEN AloneTells(flags, len) ELSE <<>>
        concat == viaAuto /\ "CONCATENATED" \in flags
        hdrErr == \/ len >= 1 /\ ~PropsValid(fd.props)
                  \/ len >= 5 /\ viaAuto /\ ~DictPlausible(fd.dict)
                  \/ len >= 13 /\ viaAuto /\ ~UsizeUnknown(usb) /\ UsizeGE256GiB(usb)
        V      == PayloadVerdict(UsizeValue(usb), TRUE, fd.n, fd.eopm)
    IN IF hdrErr THEN E(tells \o <<"FORMAT_ERROR">>, 0, "eq", -1)
       ELSE IF len < 13 THEN E(tells \o <<"BUF_ERROR">>, 0, "eq", len)
       ELSE IF MemTooBig(fd.dict) THEN E(tells \o <<"MEMLIMIT_ERROR">>, 0, "eq", -1)
       ELSE IF fd.cut > 0 THEN E(tells \o <<"BUF_ERROR">>, V.out, "le", len)      \* prefix of a valid file
       ELSE CASE V.v = "END" ->
                   IF concat /\ fd.trail > 0 THEN E(tells \o <<"DATA_ERROR">>, V.out, "eq", -1)
                   ELSE E(tells \o <<"STREAM_END">>, V.out, "eq", AloneLen(fd))
              [] V.v = "ERR"   -> E(tells \o <<"DATA_ERROR">>, V.out, "eq", -1)
              [] V.v = "TRUNC" -> E(tells \o <<"BUF_ERROR">>, V.out, "ge", len)

(* -------------------------------------------------------------------- .lz *)
\* lzip manual: bits 4-0 = log2 of the base size, bits 7-5 = sixteenths of it to
\* subtract; valid dictionary sizes are 4 KiB .. 512 MiB
DsValid(ds) == LET lg == ds % 32  size == 2 ^ lg - (ds \div 32) * (2 ^ lg \div 16)
               IN lg >= 12 /\ lg <= 29 /\ size >= 4096 /\ size <= 536870912
MagicBadPos(mg) == IF \A j \in 1..4 : mg[j] = LzipMagic[j] THEN 0
                   ELSE CHOOSE j \in 1..4 : mg[j] # LzipMagic[j] /\ \A h \in 1..(j - 1) : mg[h] = LzipMagic[h]
\* number of leading bytes of s (at most 4, at most avail) that equal "LZIP"
RECURSIVE MagicPrefix(_, _, _)
MagicPrefix(s, avail, j) == IF j < 4 /\ j < avail /\ j < Len(s) /\ s[j + 1] = LzipMagic[j + 1]
                            THEN MagicPrefix(s, avail, j + 1) ELSE j

RECURSIVE LzipWalk(_, _, _, _, _, _)
LzipWalk(fd, flags, k, off, rets, out) ==
    LET len     == FileLen(fd)
        avail   == len - off
        concat  == "CONCATENATED" \in flags
        ignore  == "IGNORE_CHECK" \in flags
        tellAny == "TELL_ANY_CHECK" \in flags
        trunc(r, o, rel) == E(r \o <<"BUF_ERROR">>, o, rel, len)
    IN
    IF k > Len(fd.mem) THEN
         \* after the last member: foreign trailing data is left unread, except that a
         \* prefix of the ID string is swallowed; four matching bytes start a new member
         LET t  == fd.trail
             mp == MagicPrefix(t, avail, 0)
         IN IF mp < 4 THEN E(rets \o <<"STREAM_END">>, out, "eq", off + mp)
            ELSE IF avail < 5 THEN trunc(rets, out, "eq")
            ELSE IF t[5] > 1 THEN E(rets \o <<"OPTIONS_ERROR">>, out, "eq", -1)
            ELSE LET r2 == IF tellAny THEN Append(rets, "GET_CHECK") ELSE rets IN
                 IF avail < 6 THEN trunc(r2, out, "eq")
                 ELSE IF ~DsValid(t[6]) THEN E(r2 \o <<"DATA_ERROR">>, out, "eq", -1)
                 ELSE E(r2 \o <<"UNSPEC">>, out, "eq", -1)
    ELSE
    LET m   == fd.mem[k]
        L   == 5 + m.n + MarkerLen + 1
        fs  == IF m.ver = 0 THEN 12 ELSE 20
        mb  == MagicBadPos(m.magic)
    IN
    IF k = 1 /\ mb # 0 /\ avail >= mb THEN E(rets \o <<"FORMAT_ERROR">>, out, "eq", -1)
    ELSE IF k > 1 /\ avail < 4 THEN E(rets \o <<"STREAM_END">>, out, "eq", len)
    ELSE IF avail < 5 THEN trunc(rets, out, "eq")
    ELSE IF m.ver > 1 THEN E(rets \o <<"OPTIONS_ERROR">>, out, "eq", -1)
    ELSE LET r2 == IF tellAny THEN Append(rets, "GET_CHECK") ELSE rets IN
    IF avail < 6 THEN trunc(r2, out, "eq")
    ELSE IF ~DsValid(m.ds) THEN E(r2 \o <<"DATA_ERROR">>, out, "eq", -1)
    ELSE IF DsDict(m.ds) \div 65536 >= MemDictLimbHi THEN E(r2 \o <<"MEMLIMIT_ERROR">>, out, "eq", -1)
    ELSE IF avail < 6 + L THEN trunc(r2, out + m.n, "le")
    ELSE IF avail < 6 + L + fs THEN trunc(r2, out + m.n, "eq")
    ELSE IF (m.crc # 0 /\ ~ignore) \/ m.dsz # 0 \/ (m.ver = 1 /\ m.msz # 0)
         THEN E(r2 \o <<"DATA_ERROR">>, out + m.n, "eq", -1)
    ELSE IF ~concat THEN E(r2 \o <<"STREAM_END">>, out + m.n, "eq", off + MemberLen(m))
    ELSE LzipWalk(fd, flags, k + 1, off + MemberLen(m), r2, out + m.n)

LzipExpect(fd, viaAuto, flags) ==
    IF viaAuto /\ FileLen(fd) >= 1 /\ fd.mem[1].magic[1] # 76
    THEN E(AloneTells(flags, 1) \o <<"FORMAT_ERROR">>, 0, "eq", -1)     \* not detected as .lz (nor as anything)
    ELSE LzipWalk(fd, flags, 1, 0, <<>>, 0)

(* -------------------------------------------------------------------- .xz *)
XzTell(flags, check) ==
    IF "TELL_NO_CHECK" \in flags /\ check = 0 THEN <<"NO_CHECK">>
    ELSE IF "TELL_UNSUPPORTED_CHECK" \in flags /\ check = 2 THEN <<"UNSUPPORTED_CHECK">>
    ELSE IF "TELL_ANY_CHECK" \in flags THEN <<"GET_CHECK">> ELSE <<>>

RECURSIVE XzWalk(_, _, _, _, _, _)
XzWalk(fd, flags, k, off, rets, out) ==
    LET len    == FileLen(fd)
        avail  == len - off
        concat == "CONCATENATED" \in flags
        ignore == "IGNORE_CHECK" \in flags
        trunc(r, o, rel) == E(r \o <<"BUF_ERROR">>, o, rel, len)
    IN
    IF k > Len(fd.str) THEN
         \* after the last Stream and its Stream Padding: the file must end
         IF avail = 0 THEN E(rets \o <<"STREAM_END">>, out, "eq", len)
         ELSE IF avail < 12 THEN trunc(rets, out, "eq")
         ELSE E(rets \o <<"DATA_ERROR">>, out, "eq", -1)
    ELSE
    LET s  == fd.str[k]
        bl == XzBodyLen(s)
    IN
    IF avail < 12 THEN trunc(rets, out, "eq")
    ELSE IF s.hdr = 1 THEN E(rets \o <<IF k = 1 THEN "FORMAT_ERROR" ELSE "DATA_ERROR">>, out, "eq", -1)
    ELSE LET r2 == rets \o XzTell(flags, s.check) IN
    IF avail < 12 + bl THEN trunc(r2, out + s.n, "le")
    ELSE IF s.cbad /\ s.check = 1 /\ ~ignore THEN E(r2 \o <<"DATA_ERROR">>, out + s.n, "eq", -1)
    ELSE IF avail < XzStreamLen(s) THEN trunc(r2, out + s.n, "eq")
    ELSE IF ~concat THEN E(r2 \o <<"STREAM_END">>, out + s.n, "eq", off + XzStreamLen(s))
    ELSE IF s.pad % 4 # 0 THEN E(r2 \o <<"DATA_ERROR">>, out + s.n, "eq", -1)    \* Stream Padding: multiple of four
    ELSE XzWalk(fd, flags, k + 1, off + XzStreamLen(s) + s.pad, r2, out + s.n)

XzExpect(fd, flags) == XzWalk(fd, flags, 1, 0, <<>>, 0)

(* ------------------------------------------------------ every API x file *)
\* a decoder for one format given a file of another one: "format not recognised"
Foreign(fd, api, need) ==
    IF FileLen(fd) >= need THEN E(<<"FORMAT_ERROR">>, 0, "eq", -1) ELSE E(<<"BUF_ERROR">>, 0, "eq", FileLen(fd))

Expect(fd, api, flags) ==
    CASE fd.fmt = "alone" /\ api = "alone"  -> AloneExpect(fd, FALSE, flags)
      [] fd.fmt = "alone" /\ api = "auto"   -> AloneExpect(fd, TRUE, flags)
      [] fd.fmt = "lzip"  /\ api = "lzip"   -> LzipExpect(fd, FALSE, flags)
      [] fd.fmt = "lzip"  /\ api = "auto"   -> LzipExpect(fd, TRUE, flags)
      [] fd.fmt = "xz"    /\ api = "stream" -> XzExpect(fd, flags)
      [] fd.fmt = "xz"    /\ api = "auto"   -> XzExpect(fd, flags)
      [] api = "stream"                      -> Foreign(fd, api, 12)
      [] OTHER                               -> Foreign(fd, api, 1)

\* does an observation [rets, out, tin] satisfy an expectation?
Satisfies(obs, exp) ==
    /\ obs.rets = exp.rets
    /\ CASE exp.outRel = "eq" -> obs.out = exp.out
         [] exp.outRel = "ge" -> obs.out >= exp.out
         [] exp.outRel = "le" -> obs.out <= exp.out
    /\ exp.tin = -1 \/ obs.tin = exp.tin
=============================================================================
