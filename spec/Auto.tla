-------------------------------- MODULE Auto ---------------------------------
(* Transcription of auto_decode() (src/liblzma/common/auto_decoder.c), the    *)
(* four public decoder constructors that C16 is about, and of the part of     *)
(* lzma_code() (common.c) that turns the coder's return value into the API's: *)
(* the LZMA_BUF_ERROR rule and the totals.                                     *)
EXTENDS Lzip, XzPadding

CONSTANT AutoFinishAll
   \* FALSE: as the code is (the trailing-garbage test of SEQ_FINISH is only for
   \* .lzma).  TRUE: deliberately broken variant (5.8.1 as released: applied to
   \* whatever sub-decoder returned LZMA_STREAM_END).

FirstByte(t) == ByteVal(t)

AutoInit(flags) == [seq |-> "init", kind |-> "none", flags |-> flags, sub |-> <<>>]

SubCall(kind, sub, w, i, act) ==
    CASE kind = "stream" -> XzCall(sub, w, i, act)
      [] kind = "lzip"   -> LzipCall(sub, w, i, act)
      [] kind = "alone"  -> AloneCall(sub, w, i)

AutoR(c, i, o, r) == [c |-> c, i |-> i, o |-> o, ret |-> r]

\* case SEQ_CODE: / case SEQ_FINISH:
AutoCode(c, w, i, act) ==
    LET r  == SubCall(c.kind, c.sub, w, i, act)
        c2 == [c EXCEPT !.sub = r.c, !.seq = "code"]
    IN IF r.ret # "STREAM_END" \/ "CONCATENATED" \notin c.flags \/ (c.kind # "alone" /\ ~AutoFinishAll)
       THEN AutoR(c2, r.i, r.o, r.ret)
       ELSE \* coder->sequence = SEQ_FINISH; FALLTHROUGH
            IF r.i < Len(w) THEN AutoR([c2 EXCEPT !.seq = "finish"], r.i, r.o, "DATA_ERROR")
            ELSE AutoR([c2 EXCEPT !.seq = "finish"], r.i, r.o, IF act = "FINISH" THEN "STREAM_END" ELSE "OK")

AutoCall(c, w, i, act) ==
  CASE c.seq = "init" ->                                 \* case SEQ_INIT
         IF i >= Len(w) THEN AutoR(c, i, 0, "OK")
         ELSE LET fb == FirstByte(w[i + 1]) IN
              IF fb = 253 THEN AutoCode([c EXCEPT !.kind = "stream", !.sub = XzInit(c.flags)], w, i, act)
              ELSE IF fb = 76 THEN AutoCode([c EXCEPT !.kind = "lzip", !.sub = LzipInit(c.flags)], w, i, act)
              ELSE LET c2 == [c EXCEPT !.kind = "alone", !.sub = AloneInit(TRUE), !.seq = "code"] IN
                   IF "TELL_NO_CHECK" \in c.flags THEN AutoR(c2, i, 0, "NO_CHECK")
                   ELSE IF "TELL_ANY_CHECK" \in c.flags THEN AutoR(c2, i, 0, "GET_CHECK")
                   ELSE AutoCode(c2, w, i, act)
    [] c.seq = "code" -> AutoCode(c, w, i, act)
    [] c.seq = "finish" ->                               \* case SEQ_FINISH
         IF i < Len(w) THEN AutoR(c, i, 0, "DATA_ERROR")
         ELSE AutoR(c, i, 0, IF act = "FINISH" THEN "STREAM_END" ELSE "OK")

(* ------------------------------------------------ the four public decoders *)
Apis == {"alone", "lzip", "stream", "auto"}
\* lzma_alone_decoder() takes no flags
ApiInit(api, flags) ==
    CASE api = "alone"  -> AloneInit(FALSE)
      [] api = "lzip"   -> LzipInit(flags)
      [] api = "stream" -> XzInit(flags)
      [] api = "auto"   -> AutoInit(flags)
ApiCall(api, c, w, act) ==
    CASE api = "alone"  -> AloneCall(c, w, 0)
      [] api = "lzip"   -> LzipCall(c, w, 0, act)
      [] api = "stream" -> XzCall(c, w, 0, act)
      [] api = "auto"   -> AutoCall(c, w, 0, act)

(* --------------------------------------------------------------- lzma_code *)
\* what lzma_code() returns for the coder's value r (r.i, r.o = bytes used / produced)
CodeRet(r, allowBuf) ==
    IF r.ret = "OK" /\ r.i = 0 /\ r.o = 0 /\ allowBuf THEN "BUF_ERROR" ELSE r.ret
CodeAllowBuf(r, allowBuf) == r.ret = "OK" /\ r.i = 0 /\ r.o = 0
\* return values after which the application goes on calling lzma_code()
Continues(ret) == ret \in {"OK", "NO_CHECK", "UNSUPPORTED_CHECK", "GET_CHECK"}
=============================================================================
