------------------------------- MODULE GenBcj -------------------------------
(* (G) for C15: TLC evaluates the reference transforms (Bcj, Delta) on inputs *)
(* assembled from opcode-pattern classes and prints, per job, the expected    *)
(* bytes.  harness/cdrv/c15_drv.c streams each input through the real filter  *)
(* under many slicings, through the one-shot API and through public filter    *)
(* chains, and compares the bytes.  TLC also checks on exactly these inputs   *)
(* that the opposite direction restores them (ExactInverse).                  *)
EXTENDS BcjSamples, Delta, SimpleCoder, TLC, Json, IOUtils

CONSTANTS NSamples,        \* pseudo-random samples per architecture and direction
          PairMs,          \* most-significant bytes used in the hand-made x86 opcode pairs
          DeltaDists, DeltaLens,
          NReuse           \* coder-reuse sessions per architecture and direction

Seed == atoi(IOEnv.SEED) % 30011

VARIABLES job, res
vars == <<job, res>>

BaseLen(a) == CASE a = "ia64" -> 48 [] a = "riscv" -> 40 [] OTHER -> 24
Shift(a, j) == IF j % 3 # 0 THEN 0 ELSE IF a \in {"riscv", "armthumb"} THEN 1 + (j % 2) ELSE IF a = "x86" THEN 0 ELSE 1 + (j % 3)
SampleJob(a, e, j) ==
    [kind |-> "S", arch |-> a, enc |-> e, off |-> Pick(SetToSeq(Offsets(a)), j + Seed),
     n |-> BaseLen(a) + ((j * 7 + Seed) % 41), seed |-> Seed * 37 + j * 101 + (IF e THEN 0 ELSE 5000),
     shift |-> Shift(a, j), pre |-> (~e /\ j % 2 = 0)]
\* one-shot API with offsets that are not multiples of the alignment (the API rounds them down)
OneShotJob(a, e, j) ==
    [kind |-> "O", arch |-> a, enc |-> e, off |-> Add32(Pick(SetToSeq(Offsets(a)), j), U32(1 + (j % (Alignment(a) + 1)))),
     n |-> BaseLen(a) + j, seed |-> Seed * 41 + j, shift |-> 0, pre |-> FALSE]
PairJob(e, d, m1, m2, op2, fill) ==
    [kind |-> "S", arch |-> "x86", enc |-> e, off |-> U32((Seed * 16 + d * 4096) % 60000), pair |-> <<d, 232, op2, m1, m2, fill>>, pre |-> FALSE]
InitOffs(a) == LET al == Alignment(a) IN {U32(0), U32(al), U32(al + 1), U32(1), U32(al \div 2), H32(\h8000, al \div 2), H32(\hFFFF, 65536 - al)}
\* coder reuse: three jobs run back to back on ONE coder object that is initialised again before each job
\* (the first one is sometimes abandoned in the middle); each job must come out as on a new coder
\* for odd j the start offsets continue where the previous job ended (rounded up to the alignment), as for
\* consecutive pieces of one file; otherwise they are unrelated
ReuseJob(a, e, j) ==
    LET len(k)  == BaseLen(a) + ((j * 5 + k * 11 + Seed) % 23)
        free(k) == Pick(SetToSeq(Offsets(a)), j + k + Seed)
        up(n)   == ((n + Alignment(a) - 1) \div Alignment(a)) * Alignment(a)
        off1    == free(1)
        off2    == IF j % 2 = 1 THEN Add32(off1, U32(up(len(1)))) ELSE free(2)
        off3    == IF j % 2 = 1 THEN Add32(off2, U32(up(len(2)))) ELSE free(3)
        offs    == <<off1, off2, off3>>
    IN [kind |-> "R", arch |-> a, enc |-> e, abandon |-> (j % 3 = 0),
        subs |-> [k \in 1..3 |-> [off |-> offs[k], n |-> len(k),
                                  seed |-> Seed * 29 + j * 13 + k * 1009 + (IF e THEN 0 ELSE 7000)]]]
DeltaReuseJob(e, j) ==
    [kind |-> "R", arch |-> "delta", enc |-> e, abandon |-> (j % 3 = 0),
     subs |-> [k \in 1..3 |-> [dist |-> Pick(SetToSeq(DeltaDists), j * 3 + k + Seed), n |-> 3 + ((j * 37 + k * 101 + Seed) % 300),
                               seed |-> Seed * 31 + j * 17 + k * 2003]]]
\* runs the sub-jobs through the machines, threading the coder state through Reinit
ReuseEval(j) ==
    FoldLeft(LAMBDA acc, k :
               LET sub  == j.subs[k]
                   part == j.abandon /\ k = 1
                   x    == IF j.arch = "delta" THEN Raw("x86", sub.n, sub.seed, 0)
                           ELSE LET raw == Sample(j.arch, sub.n, sub.seed, 0)
                                IN IF j.enc THEN raw ELSE Stream(j.arch, TRUE, sub.off, raw)
                   feed == IF part THEN Len(x) \div 2 ELSE Len(x)
               IN IF j.arch = "delta"
                  THEN LET s0 == IF k = 1 THEN DeltaInit(sub.dist) ELSE DeltaReinit(acc[1], sub.dist)
                           r  == DeltaChunk(j.enc, s0, SubSeq(x, 1, feed))
                       IN <<r[1], Append(acc[2], [data |-> x, feed |-> feed, expect |-> r[2], dist |-> sub.dist, off |-> <<0, 0>>])>>
                  ELSE LET s0 == IF k = 1 THEN ScInit(j.arch, sub.off) ELSE ScReinit(acc[1], j.arch, sub.off)
                           r  == Call(j.arch, j.enc, s0, SubSeq(x, 1, feed), 100000, ~part)
                       IN <<r.s, Append(acc[2], [data |-> x, feed |-> feed, expect |-> r.out, dist |-> 0, off |-> sub.off])>>,
             <<<<>>, <<>>>>, <<1, 2, 3>>)[2]

Jobs ==
    {SampleJob(a, e, j) : a \in Archs, e \in BOOLEAN, j \in 1..NSamples}
    \cup {[kind |-> "S", arch |-> "arm64", enc |-> e, off |-> o, gate |-> TRUE, pre |-> ~e] : e \in BOOLEAN, o \in Offsets("arm64")}
    \cup {[kind |-> "S", arch |-> "riscv", enc |-> e, off |-> o, jal |-> TRUE, pre |-> ~e] : e \in BOOLEAN, o \in Offsets("riscv")}
    \cup {OneShotJob(a, e, j) : a \in {"x86", "arm64", "riscv"}, e \in BOOLEAN, j \in 1..4}
    \cup {PairJob(e, d, m1, m2, op2, fill) : e \in BOOLEAN, d \in 0..6, m1 \in PairMs, m2 \in PairMs, op2 \in {232, 233}, fill \in {0, 255}}
    \cup UNION {{[kind |-> "I", arch |-> a, enc |-> e, off |-> o] : e \in BOOLEAN, o \in InitOffs(a)} : a \in Archs}
    \cup {[kind |-> "D", dist |-> d, enc |-> e, n |-> n, seed |-> Seed + d + n] : d \in DeltaDists, e \in BOOLEAN, n \in DeltaLens}
    \cup {ReuseJob(a, e, j) : a \in Archs, e \in BOOLEAN, j \in 1..NReuse}
    \cup {DeltaReuseJob(e, j) : e \in BOOLEAN, j \in 1..(3 * NReuse)}
    \cup {[kind |-> "J", type |-> t, dist |-> d] : t \in {0, 1}, d \in {0, 1, 2, 255, 256, 257, 1000}}

AlignDown(a, o) == LET al == Alignment(a) IN <<o[1] - (o[1] % al), o[2]>>
Input(j) ==
    LET raw == IF "gate" \in DOMAIN j THEN Arm64Gate ELSE IF "jal" \in DOMAIN j THEN RvJalAll ELSE IF "pair" \in DOMAIN j THEN X86Pair(j.pair[1], j.pair[2], j.pair[3], j.pair[4], j.pair[5], j.pair[6])
               ELSE Sample(j.arch, j.n, j.seed, j.shift)
    IN IF j.pre THEN Stream(j.arch, TRUE, AlignDown(j.arch, j.off), raw) ELSE raw
DeltaInput(j) == Raw("x86", j.n, j.seed, 0)

Eval(j) ==
    CASE j.kind \in {"S", "O"} ->
           LET x == Input(j)
               o == AlignDown(j.arch, j.off)
               r == Code(j.arch, j.enc, InitState(j.arch), o, x)
           IN [data |-> x, expect |-> r.buf, n1 |-> r.n, back |-> Stream(j.arch, ~j.enc, o, r.buf)]
      [] j.kind = "I" -> [ret |-> InitRet(j.arch, j.off[1])]
      [] j.kind = "D" ->
           LET x == DeltaInput(j)
               r == DeltaChunk(j.enc, DeltaInit(j.dist), x)[2]
           IN [data |-> x, expect |-> r, back |-> DeltaChunk(~j.enc, DeltaInit(j.dist), r)[2],
               def |-> IF j.enc THEN DeltaEncDef(x, j.dist) ELSE DeltaDecDef(x, j.dist)]
      [] j.kind = "R" -> [subs |-> ReuseEval(j)]
      [] j.kind = "J" -> [ret |-> IF DeltaOptionsOk(j.type, j.dist) THEN "OK" ELSE "OPTIONS_ERROR"]

GInit == job \in Jobs /\ res = <<>>
Next == res = <<>> /\ res' = Eval(job) /\ UNCHANGED job
Spec == GInit /\ [][Next]_vars

\* the opposite direction restores the input; sizes never change; the delta machine equals its definition
ExactInverse == (res # <<>> /\ job.kind \in {"S", "O", "D"}) => (res.back = res.data /\ Len(res.expect) = Len(res.data))
DeltaIsDefinition == (res # <<>> /\ job.kind = "D") => res.expect = res.def
Emit == (res = <<>> /\ res' # <<>>) => PrintT(ToJson([job |-> job, res |-> res']))
=============================================================================
