------------------------------ MODULE SliceEnc -------------------------------
(* C06, encoder side: the window refill of the LZ encoder (lz_encoder.c       *)
(* fill_window) composed with a parser that looks ahead.  The application      *)
(* feeds Data in arbitrary pieces (Feed) and finally finishes; after every     *)
(* piece the encoder codes positions while read_pos < read_limit, where        *)
(*    read_limit = write_pos                   when finishing                  *)
(*    read_limit = write_pos - After           when write_pos > After          *)
(* (After = mf.keep_size_after).  The decision taken at a position looks at up *)
(* to Look bytes from there (match length limited by nice_len / the positions  *)
(* a chosen match makes the match finder skip), cut at what has arrived.       *)
(* EncIndependent: the sequence of decisions equals the one-shot sequence.     *)
(* It holds iff After >= Look: MCSliceEnc.cfg (After = Look) passes,           *)
(* MCSliceEncShort.cfg (After < Look) must give a counterexample.              *)
EXTENDS Naturals, Sequences

CONSTANTS Datas,    \* set of abstract inputs (sequences over a small alphabet)
          After, Look

VARIABLES data, fed, rpos, out, fin

evars == <<data, fed, rpos, out, fin>>
Min2(a, b) == IF a < b THEN a ELSE b

\* decision at position p when `avail` bytes (from p) have arrived: the length of the run of equal bytes, <= Look
RECURSIVE RunLen(_, _, _, _)
RunLen(d, p, k, lim) == IF k < lim /\ d[p + k] = d[p] THEN RunLen(d, p, k + 1, lim) ELSE k
Decide(d, p, avail) == RunLen(d, p, 1, Min2(Look, avail))

\* code positions while read_pos < read_limit
RECURSIVE Code(_, _, _, _, _)
Code(d, wpos, limit, p, o) ==
    IF p >= limit THEN <<p, o>>
    ELSE LET len == Decide(d, p + 1, wpos - p) IN Code(d, wpos, limit, p + len, Append(o, <<p, len>>))

Limit(wpos, finishing) == IF finishing THEN wpos ELSE IF wpos > After THEN wpos - After ELSE 0
OneShot(d) == Code(d, Len(d), Len(d), 0, <<>>)[2]

EInit == data \in Datas /\ fed = 0 /\ rpos = 0 /\ out = <<>> /\ fin = FALSE
Feed(k) == /\ ~fin /\ fed + k <= Len(data)
           /\ LET w == fed + k
                  f == w = Len(data)
                  r == Code(data, w, Limit(w, f), rpos, out)
              IN fed' = w /\ fin' = f /\ rpos' = r[1] /\ out' = r[2]
           /\ UNCHANGED data
ENext == \E k \in 0..Len(data) : Feed(k)
ESpec == EInit /\ [][ENext]_evars
EncIndependent == fin => out = OneShot(data)
=============================================================================
