----------------------------- MODULE MCLzmaCode -----------------------------
EXTENDS LzmaCodeContract, TLC

MCInit == Init /\ MInit
\* after a re-initialisation the history a caller keeps starts afresh (pending input count stays: it is not read in RUN)
MReinit == mEnded' = FALSE /\ mFatal' = FALSE /\ mFlush' = "NONE" /\ mStall' = FALSE /\ mPend' = mPend
MCNext == (Next /\ MStep(obs')) \/ (\E sup \in SUBSET ValidActions : Reinit(sup) /\ MReinit)
MCSpec == MCInit /\ [][MCNext]_<<vars, mvars>>

\* history (obs, totals) is not part of the behaviour: hide it
MCView == <<inited, supported, seq, savedIn, allowBuf, mEnded, mFatal, mFlush, mPend, mStall>>
Contract == [][ContractStep]_<<vars, mvars>>
=============================================================================
