----------------------------- MODULE MCLzmaCode -----------------------------
EXTENDS LzmaCodeContract, TLC

MCInit == Init /\ MInit
MCNext == Next /\ MStep(obs')
MCSpec == MCInit /\ [][MCNext]_<<vars, mvars>>

\* history (obs, totals) is not part of the behaviour: hide it
MCView == <<inited, supported, seq, savedIn, allowBuf, mEnded, mFatal, mFlush, mPend, mStall>>
Contract == [][ContractStep]_<<vars, mvars>>
=============================================================================
