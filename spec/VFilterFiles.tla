---------------------------- MODULE VFilterFiles ----------------------------
(* (V) for C15: files written by other versions of the format's tools.  The   *)
(* driver hands over, per file, the payload with only the first (BCJ / delta)  *)
(* filter still applied (e) and the content whose integrity the file's own     *)
(* Check field attests (p).  The reference transform must map e to p.          *)
EXTENDS Bcj, Delta, TLC, Json, IOUtils

Files == ndJsonDeserialize(IOEnv.FILES)
VARIABLES idx, verdict
Init == idx \in 1..Len(Files) /\ verdict = "todo"
Decoded(f) == IF f.kind = "delta" THEN DeltaChunk(FALSE, DeltaInit(f.dist), f.e)[2]
              ELSE Stream(f.kind, FALSE, <<f.off[1], f.off[2]>>, f.e)
Next == /\ verdict = "todo"
        /\ verdict' = IF Decoded(Files[idx]) = Files[idx].p THEN "same" ELSE "different"
        /\ UNCHANGED idx
Spec == Init /\ [][Next]_<<idx, verdict>>
ReferenceDecodesFile == verdict # "different"
Judged == <>[](verdict # "todo")
=============================================================================
