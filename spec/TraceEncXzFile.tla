--------------------------- MODULE TraceEncXzFile ---------------------------
(* (V) for C02: the field events of the independent parser for every file the  *)
(* real encoders produced are replayed through the judge EncXzFile.            *)
EXTENDS EncXzFile, TLC, Json, IOUtils

TraceLog == ndJsonDeserialize(IOEnv.TRACE)
VARIABLE l
tvars == <<xvars, l>>
IsEvent(e) == l <= Len(TraceLog) /\ TraceLog[l].e = e /\ l' = l + 1
T == TraceLog[l]

TInit == XInit /\ l = 1
TReset == IsEvent("Reset") /\ XReset(T)
TField == /\ IsEvent("F")
          /\ \/ SMagic(T) \/ SFlags(T) \/ SCrc(T)
             \/ BSize(T) \/ BFlags(T) \/ BCSize(T) \/ BUSize(T) \/ BFid(T) \/ BFpsize(T) \/ BFprops(T) \/ BPad(T) \/ BCrc(T)
             \/ BData(T) \/ BBPad(T) \/ BCheck(T)
             \/ IIndicator(T) \/ ICount(T) \/ IUnpadded(T) \/ IUncompressed(T) \/ IPad(T) \/ ICrc(T)
             \/ FCrc(T) \/ FBackward(T) \/ FFlags(T) \/ FMagic(T)
TEof == IsEvent("EOF") /\ XEof(T)
TAlone == IsEvent("AloneHeader") /\ XAlone(T)

TNext == TReset \/ TField \/ TEof \/ TAlone
TSpec == TInit /\ [][TNext]_tvars
TraceAccepted == TLCGet("stats").diameter - 1 = Len(TraceLog)
=============================================================================
