SPECIFICATION Spec
CONSTANTS
 MaxUpdates = 0
 MaxReinit = 0 BSChoices = {} FixBlockSize = TRUE  FixLostWorker = TRUE
 CountCalls = TRUE
 NW = 1  NW0 = 1  NWChoices = {1}  BS = 2  Total = 4  Chunk = 1  HdrSz = 1  TailSz = 2
 Timeout = FALSE  Spurious = FALSE  MayFail = FALSE MayFailMain = FALSE
 Gives = {0, 1, 100}  Spaces = {0, 1, 100}
 FlushActs = {}
 MaxCalls = 8
CONSTRAINT CallBound
VIEW MCView
INVARIANTS OrderedOutput BlocksPartitionInput BoundariesOnlyWhereRequested FlushCompletes BarrierCompletes FinishCompletes ProgressTruthful BufErrorOnlyWhenStarved DocumentedCodes QueueBound EndJoinsAll InBufFits
