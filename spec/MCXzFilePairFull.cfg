SPECIFICATION MCSpec
CONSTANTS MaxFaults = 2 MaxSigs = 1 Sigs = {"TERM", "PIPE"} AllFlagCombos = TRUE
INVARIANTS TypeOK DataSafe FailureKeepsSource FailureCleansUp NoJunkLeft ExitZeroMeansDone FailureIsReported
           KeepNeverRemoves NoForeignLost NoOverwrite CleanBetweenFiles AbortDiesBySignal
CHECK_DEADLOCK FALSE
