----------------------------- MODULE TraceEncLz -----------------------------
(* (V) for C01, LZMA1 streams (lzma_alone_encoder, raw LZMA1 / LZMA1EXT,      *)
(* lzma_microlzma_encoder).  The real encoder's output is tokenised by the    *)
(* independent range decoder (harness/glue) and the symbol sequence is        *)
(* replayed here through EncLz:                                               *)
(*   bytes mode  every symbol is an EncLz action; at End the bytes produced   *)
(*               inside TLC must equal the input (or, for an output-size-     *)
(*               limited encoder, exactly the prefix it reports as consumed)  *)
(*   agg mode    one aggregate event for the whole stream (multi-MiB inputs); *)
(*               distances/lengths/accounting judged here, byte equality via  *)
(*               digests of the outputs of BOTH decoders (liblzma, glue)      *)
(* Bias events: the same input encoded with the match finder forced to        *)
(* normalise early; normalisation is a stuttering step of the specification,  *)
(* so the encoder's bytes must be identical (digest equality).                *)
EXTENDS EncLz, TLC, Json, IOUtils

TraceLog == ndJsonDeserialize(IOEnv.TRACE)

VARIABLES l,        \* next line of the trace
          cfg,      \* the Reset record of the running execution
          agg       \* aggregate record once seen (agg mode), else <<>>
tvars == <<lzvars, l, cfg, agg>>

IsEvent(e) == l <= Len(TraceLog) /\ TraceLog[l].e = e /\ l' = l + 1
T == TraceLog[l]

TInit == /\ LzInit(1, <<>>) /\ l = 1 /\ cfg = [mode |-> "none"] /\ agg = <<>>

TReset == /\ IsEvent("Reset")
          /\ T.dict >= 1
          /\ out' = (IF T.mode # "bytes" THEN <<>>
                     ELSE IF Len(T.preset) > T.dict THEN SubSeq(T.preset, Len(T.preset) - T.dict + 1, Len(T.preset))
                     ELSE T.preset)
          /\ base' = Len(out') /\ dstart' = 0 /\ reps' = <<0, 0, 0, 0>> /\ lzst' = 0
          /\ dictSize' = T.dict /\ ended' = FALSE
          /\ cfg' = T /\ agg' = <<>>

Bytes == cfg.mode = "bytes"

TLits  == IsEvent("Lits") /\ Bytes /\ Lits(T.b) /\ UNCHANGED <<cfg, agg>>
TMatch == IsEvent("Match") /\ Bytes /\ Match(T.d, T.n) /\ UNCHANGED <<cfg, agg>>
TRep   == IsEvent("Rep") /\ Bytes /\ Rep(T.i, T.n) /\ UNCHANGED <<cfg, agg>>
TSRep  == IsEvent("SRep") /\ Bytes /\ ShortRep /\ UNCHANGED <<cfg, agg>>
\* liblzma writes the end marker with the minimum length
TEopm  == IsEvent("Eopm") /\ cfg.eopm = "yes" /\ T.n = LenMin /\ Eopm /\ UNCHANGED <<cfg, agg>>

\* the whole stream as aggregates (agg mode)
TAgg == /\ IsEvent("Agg") /\ cfg.mode = "agg" /\ agg = <<>> /\ ~ended
        /\ LET a == T  copies == a.match + a.rep  avail0 == Min(cfg.presetlen, dictSize) IN
           /\ (copies > 0) =>            \* (short reps use rep0, a distance already counted or the initial 1)
                /\ a.maxdist >= 1 /\ a.maxdist <= dictSize
                /\ a.maxdist <= avail0 + a.outlen - 1
                /\ a.minslack >= 0
           /\ (copies > 0) => a.maxlen \in LenMin..LenMax
           /\ a.lit + a.srep + copies * LenMin <= a.outlen
           /\ a.outlen <= a.lit + a.srep + copies * Max(a.maxlen, LenMin)
           /\ (avail0 = 0 /\ a.outlen > 0) => a.lit >= 1
           /\ a.eopm = (IF cfg.eopm = "yes" THEN 1 ELSE 0)
        /\ agg' = T
        /\ ended' = (T.eopm = 1)
        /\ UNCHANGED <<out, base, dstart, reps, lzst, dictSize, cfg>>

\* match finder normalisation forced early: a stuttering step, the encoder's output is unchanged
TBias == /\ IsEvent("Bias")
         /\ T.dig = cfg.encdig /\ T.len = cfg.enclen
         /\ UNCHANGED <<lzvars, cfg, agg>>

\* dense sweep of output-size limits for the size-limited encoder (mode "sweep": Reset, then one Limit event per
\* limit; harness/cdrv/c01_microsweep.c): for EVERY limit the encoder finishes with a valid prefix encoding
\* within the limit and both decoders give back exactly the consumed prefix
PropsByteOf(lc, lp, pb) == (pb * 5 + lp) * 9 + lc
TLimit == /\ IsEvent("Limit") /\ cfg.mode = "sweep"
          /\ T.limit >= 6
          /\ T.ret = "STREAM_END"                                   \* never "no space" / LZMA_PROG_ERROR
          /\ T.tout >= 1 /\ T.tout <= T.limit                       \* within the limit it was given
          /\ T.tin <= cfg.inlen
          /\ T.guard                                                \* nothing written past the limit
          /\ T.libret = "STREAM_END" /\ T.liblen = T.tin /\ T.libeq  \* lzma_microlzma_decoder: exactly the consumed prefix
          /\ T.glue \in {"ok", "skip"}                              \* independent decoder (sampled limits)
          /\ T.props \in {-1, PropsByteOf(cfg.lc, cfg.lp, cfg.pb)}   \* first byte = ~props (sampled limits)
          /\ UNCHANGED <<lzvars, cfg, agg>>

\* the same run on a fresh lzma_stream: a handle re-initialised after an abandoned session (no lzma_end) must
\* produce exactly the same bytes
TFresh == /\ IsEvent("Fresh")
          /\ T.dig = cfg.encdig /\ T.len = cfg.enclen
          /\ UNCHANGED <<lzvars, cfg, agg>>

TEnd == /\ IsEvent("End")
        /\ ended = (cfg.eopm = "yes")
        /\ T.consumed <= cfg.inlen
        /\ IF cfg.limited THEN cfg.enclen <= cfg.limit       \* output-size-limited: within the limit,
           ELSE T.consumed = cfg.inlen                       \* otherwise everything is encoded
        /\ IF Bytes THEN SubSeq(out, base + 1, Len(out)) = SubSeq(cfg.input, 1, T.consumed)
           ELSE agg # <<>> /\ agg.outlen = T.consumed
        \* both decoders give back exactly the consumed prefix of the input
        /\ T.gluelen = T.consumed /\ T.gluedig = T.indig /\ T.gluestatus = "ok"
        /\ T.liblen = T.consumed /\ T.libdig = T.indig /\ T.libret = "STREAM_END"
        /\ UNCHANGED <<lzvars, cfg, agg>>

TNext == TReset \/ TLimit \/ TLits \/ TMatch \/ TRep \/ TSRep \/ TEopm \/ TAgg \/ TBias \/ TFresh \/ TEnd
TSpec == TInit /\ [][TNext]_tvars
TraceAccepted == TLCGet("stats").diameter - 1 = Len(TraceLog)
=============================================================================
