------------------------------ MODULE GenXzGrep -----------------------------
(* C20 (G): plan generator for xzgrep.  A behaviour first builds an invocation          *)
(* (program name, label method, option groups, pattern form and class, `--`, 0..3 files *)
(* each with a state kind, a suffix and a hostile NAME CLASS), then runs the XzGrep      *)
(* model on it; when the model reaches pc = "done" the plan is printed with everything   *)
(* the model predicts: outcome, exit status, per-file output method and decompressor,    *)
(* the options handed to grep, the matcher, and the contract's verdict (want / div).     *)
(* Used with `tlc -simulate` (one random plan per behaviour) and a seed.                 *)
EXTENDS XzGrepContract, TLC, Json

VARIABLES g,      \* build phase
          cnt,    \* option groups / files still to add in this phase
          cat,    \* category chosen for the next group ("" = not chosen)
          dd,     \* a "--" has been emitted
          meta,   \* per file operand: [tok, kind, ncls]
          pcl,    \* pattern class
          pform,  \* pattern form category
          rcl,    \* class of the second pattern ("@r")
          stdin   \* kind of the data on standard input
gvars == <<g, cnt, cat, dd, meta, pcl, pform, rcl, stdin>>

\* weights by repetition: the simulator picks uniformly among the generated successors
OptCats == <<"pass", "pass", "mode", "label", "label", "label", "list", "list", "ctx", "ctx", "max", "special">>
OptVocab(c) ==
    CASE c = "pass"    -> { <<"-i">>, <<"-n">>, <<"-c">>, <<"-q">>, <<"-v">>, <<"-s">>, <<"-in">>, <<"-ni">>, <<"-ivn">>,
                            <<"--ignore-case">>, <<"--line-number">>, <<"--count">>, <<"--quiet">>, <<"--invert-match">> }
      [] c = "mode"    -> { <<"-E">>, <<"-F">>, <<"-G">>, <<"-iE">>, <<"-Fn">>, <<"--extended-regexp">>, <<"--fixed-strings">> }
      [] c = "label"   -> { <<"-H">>, <<"-h">>, <<"-nH">>, <<"-Hn">>, <<"-hi">>, <<"-ih">>, <<"--with-filename">>,
                            <<"--no-filename">>, <<"--with-file">>, <<"-n2H">> }
      [] c = "list"    -> { <<"-l">>, <<"-L">>, <<"-li">>, <<"-il">>, <<"-iL">>, <<"--files-with-matches">>,
                            <<"--files-without-match">> }
      [] c = "ctx"     -> { <<"-A1">>, <<"-B", "1">>, <<"-C1">>, <<"-C", "1">>, <<"-1">>, <<"-n1">>, <<"-1n">>, <<"-iA1">>,
                            <<"-nB", "1">>, <<"--after-context=1">>, <<"--context=1">> }
      [] c = "max"     -> { <<"-m1">>, <<"-m", "1">>, <<"-im", "1">>, <<"--max-count=1">>, <<"--max-count", "1">> }
      [] c = "special" -> { <<"--help">>, <<"--version">>, <<"-V">>, <<"--hel">>, <<"-r">>, <<"-iR">>, <<"--recursive">>,
                            <<"--null">>, <<"--include=x">>, <<"-z">>, <<"--exclude-dir=x">> }

PatCats == <<"operand", "operand", "operand", "e", "e", "e", "long", "long", "f", "f", "dd", "dd", "two", "missing">>
PatForms(c) ==
    CASE c = "operand" -> { <<"@p">> }
      [] c = "e"       -> { <<"-e", "@p">>, <<"-e@p">>, <<"-ie", "@p">>, <<"-ne@p">>, <<"-e", "-@p">> }
      [] c = "long"    -> { <<"--regexp=@p">>, <<"--regexp", "@p">>, <<"--regexp=-@p">>, <<"--regexp", "-@p">> }
      [] c = "f"       -> { <<"-f", "@q">>, <<"-f@q">>, <<"--file=@q">>, <<"--file", "@q">>, <<"-if", "@q">> }
      [] c = "dd"      -> { <<"--", "@p">>, <<"--", "-@p">> }
      [] c = "two"     -> { <<"-e", "@p", "-e", "@r">>, <<"-e@r", "--regexp=@p">> }
      [] c = "missing" -> { <<>>, <<"-e">>, <<"--regexp">>, <<"-A">> }
\* words over the alphabet of the script's own escaping code (xzgrep.in "escape": the sentinel letter X, the single
\* quote, newline) plus a command, in all orders of length 2..3:  X = "X", q = "'", n = newline, c = ";touch CANARY;"
EscAlpha == {"X", "q", "n", "c"}
RECURSIVE EscSeqs(_)
EscSeqs(n) == IF n = 0 THEN {""} ELSE {s \o a : s \in EscSeqs(n - 1), a \in EscAlpha}
EscClasses == {"esc:" \o s : s \in EscSeqs(2) \cup EscSeqs(3)}
\* file names also in all orders of length 4 (e.g. X newline command quote)
EscNames   == EscClasses \cup {"esc:" \o s : s \in EscSeqs(4)}
HostilePatClasses == {"plain", "quote", "dquote", "subst", "btick", "semi", "ampipe", "bslash", "glob", "newline", "bad"}
PatClasses == HostilePatClasses \cup EscClasses

HostileNames == {"plain", "nl", "sq", "dq", "semi", "bs", "amp", "pipe", "subst", "btick", "glob", "colon", "space",
                "sqsubst", "sedmix", "bsend", "nlend", "dash", "dashopt", "dashsubst"}
NameClasses == HostileNames \cup EscNames
DashClasses == {"dash", "dashopt", "dashsubst"}

Kinds == <<"match", "match", "match", "match", "nomatch", "nomatch", "nomatch", "plainmatch", "plainnomatch",
           "missing", "missing", "corrupt", "clmatch", "clnomatch", "big", "kill", "pipe", "stdin">>
Suffixes(kd) ==
    CASE kd \in {"match", "nomatch", "missing"} ->
             {".xz", "", ".lzma", ".lz", ".txz", ".tlz", ".gz", ".tgz", "-z", "_z", ".bz2", ".tbz2", "-bz2", ".tbz"}
      [] kd \in {"plainmatch", "plainnomatch"} -> {"", ".xz", ".gz", ".txt"}
      [] kd \in {"corrupt", "clmatch", "clnomatch"} -> {".xz", "", ".txz"}
      [] kd = "big" -> {".xz"}
      [] kd \in {"kill", "pipe"} -> {".gz", "-z", ".tgz"}
      [] OTHER -> {""}
StdinKinds == {"match", "nomatch", "plainmatch"}

KindSt(kd) ==
    CASE kd \in {"match", "plainmatch", "big"} -> [gr |-> 0, xs |-> "ok"]
      [] kd \in {"nomatch", "plainnomatch"}    -> [gr |-> 1, xs |-> "ok"]
      [] kd \in {"missing", "corrupt", "clnomatch"} -> [gr |-> 1, xs |-> "fail"]
      [] kd = "clmatch" -> [gr |-> 0, xs |-> "fail"]
      [] kd = "kill"    -> [gr |-> 1, xs |-> "kill"]
      [] kd = "pipe"    -> [gr |-> 0, xs |-> "pipe"]

KindOf(f) == IF \E j \in 1..Len(meta) : meta[j].tok = f
             THEN (LET j == CHOOSE j \in 1..Len(meta) : meta[j].tok = f IN
                   IF meta[j].kind = "stdin" THEN stdin ELSE meta[j].kind)
             ELSE IF f = "-" THEN stdin ELSE "missing"     \* a word that is not one of our files
\* an invalid regular expression makes grep fail (status 2) before it reads anything; -F has no invalid patterns
StOf(f) == IF pcl = "bad" /\ Matcher # "F" THEN [KindSt(KindOf(f)) EXCEPT !.gr = 2] ELSE KindSt(KindOf(f))

Build(ph) == pc = "build" /\ g = ph
Keep      == UNCHANGED <<prog, labelOK, pc, args, operands, gopts, havePat, fl, filev, exit, outcome, ref>>

ChooseCount(ph, nxt, W) ==
    /\ Build(ph) /\ \E j \in 1..Len(W) : cnt' = W[j]
    /\ g' = nxt /\ UNCHANGED <<argv, cat, dd, meta, pcl, pform, rcl, stdin>> /\ Keep
ChooseCat(ph, nxt) ==
    /\ Build(ph) /\ cat = ""
    /\ IF cnt = 0 THEN g' = nxt /\ UNCHANGED cat
       ELSE /\ \E j \in 1..Len(OptCats) :
                 \* GNU grep rejects conflicting matchers: at most one -E/-F/-G, and only under the plain name
                 /\ (OptCats[j] = "mode" => (prog = "xzgrep" /\ \A i \in 1..Len(argv) : <<argv[i]>> \notin OptVocab("mode")))
                 /\ cat' = OptCats[j]
            /\ UNCHANGED g
    /\ UNCHANGED <<argv, cnt, dd, meta, pcl, pform, rcl, stdin>> /\ Keep
AddOpt(ph) ==
    /\ Build(ph) /\ cat # "" /\ cnt > 0
    /\ \E o \in OptVocab(cat) : argv' = argv \o o
    /\ cnt' = cnt - 1 /\ cat' = ""
    /\ UNCHANGED <<g, dd, meta, pcl, pform, rcl, stdin>> /\ Keep

ChoosePatCat ==
    /\ Build("patcat") /\ \E j \in 1..Len(PatCats) : pform' = PatCats[j]
    /\ g' = "patcl" /\ UNCHANGED <<argv, cnt, cat, dd, meta, pcl, rcl, stdin>> /\ Keep
ChoosePatClass ==      \* about half of the patterns are esc:*
    /\ Build("patcl")
    /\ \E w \in 1..7, c \in PatClasses : /\ (w = 1 => c \in EscClasses) /\ (w > 1 => c \in HostilePatClasses)
                                         /\ pcl' = c
    /\ g' = "patrcl" /\ UNCHANGED <<argv, cnt, cat, dd, meta, pform, rcl, stdin>> /\ Keep
ChooseSecondPatClass ==
    /\ Build("patrcl")
    /\ \E w \in 1..80, c \in {"never"} \cup EscClasses : (w > 1 => c = "never") /\ rcl' = c
    /\ g' = "pat" /\ UNCHANGED <<argv, cnt, cat, dd, meta, pcl, pform, stdin>> /\ Keep
AddPat ==
    /\ Build("pat") /\ \E p \in PatForms(pform) : argv' = argv \o p
    /\ dd' = (pform = "dd")
    /\ g' = IF pform = "missing" THEN "go" ELSE IF pform = "dd" THEN "nfiles" ELSE "o2"
    /\ UNCHANGED <<cnt, cat, meta, pcl, pform, rcl, stdin>> /\ Keep
ChooseDD ==
    /\ Build("dd") /\ \E b \in BOOLEAN : dd' = b /\ argv' = (IF b THEN argv \o <<"--">> ELSE argv)
    /\ g' = "nfiles" /\ UNCHANGED <<cnt, cat, meta, pcl, pform, rcl, stdin>> /\ Keep

Idx == <<"1", "2", "3">>
ChooseKind ==
    /\ Build("files") /\ cat = ""
    /\ IF cnt = 0 THEN g' = (IF dd THEN "go" ELSE "o3n") /\ UNCHANGED cat
       ELSE (\E jk \in 1..Len(Kinds) : LET kd == Kinds[jk] IN (kd = "stdin" => \A j \in 1..Len(meta) : meta[j].kind # "stdin")
                                        \* the name family is chosen here: /e = escaping alphabet, /h = hostile templates
                                        /\ \E fam \in {"/e", "/h"} : cat' = kd \o fam) /\ UNCHANGED g
    /\ UNCHANGED <<argv, cnt, dd, meta, pcl, pform, rcl, stdin>> /\ Keep
AddFile ==
    /\ Build("files") /\ cat # "" /\ cnt > 0
    /\ LET kd  == SubSeq(cat, 1, Len(cat) - 2)
           fam == SubSeq(cat, Len(cat) - 1, Len(cat))
       IN \E sf \in Suffixes(kd), nc \in (IF fam = "/e" THEN EscNames ELSE HostileNames) :
         /\ (nc \in DashClasses => dd)
         /\ LET tok == IF kd = "stdin" THEN "-"
                       ELSE (IF nc \in DashClasses THEN "-" ELSE "") \o "@" \o Idx[Len(meta) + 1] \o sf
            IN /\ argv' = Append(argv, tok)
               /\ meta' = Append(meta, [tok |-> tok, kind |-> kd, ncls |-> nc])
    /\ cnt' = cnt - 1 /\ cat' = ""
    /\ UNCHANGED <<g, dd, pcl, pform, rcl, stdin>> /\ Keep
Start ==
    /\ Build("go")
    /\ \E sk \in StdinKinds : stdin' = sk
    /\ pc' = "scan" /\ args' = argv /\ ref' = RefOf(argv) /\ g' = "run"
    /\ UNCHANGED <<prog, labelOK, argv, operands, gopts, havePat, fl, filev, exit, outcome, cnt, cat, dd, meta, pcl, pform, rcl>>

BuildNext ==
    \/ ChooseCount("o1n", "o1", <<0, 0, 1, 1, 1, 2, 2>>) \/ ChooseCat("o1", "patcat") \/ AddOpt("o1")
    \/ ChoosePatCat \/ ChoosePatClass \/ ChooseSecondPatClass \/ AddPat
    \/ ChooseCount("o2", "o2a", <<0, 0, 1>>) \/ ChooseCat("o2a", "dd") \/ AddOpt("o2a")
    \/ ChooseDD
    \/ ChooseCount("nfiles", "files", <<0, 1, 1, 2, 2, 2, 3, 3, 3>>) \/ ChooseKind \/ AddFile
    \/ ChooseCount("o3n", "o3", <<0, 0, 0, 1>>) \/ ChooseCat("o3", "go") \/ AddOpt("o3")
    \/ Start

RunNext == /\ pc \in {"scan", "post", "files"}
           /\ \/ ScanNext
              \/ (pc = "files" /\ k <= Len(files) /\ FileStep(StOf(files[k])))
              \/ Finish
           /\ UNCHANGED <<gvars, ref>>

GInit == /\ \E p \in {"xzgrep", "xzgrep", "xzegrep", "xzfgrep"}, lab \in BOOLEAN : prog = p /\ labelOK = lab
         /\ argv = <<>> /\ pc = "build" /\ args = <<>> /\ operands = <<>> /\ gopts = <<>> /\ havePat = FALSE
         /\ fl = [l |-> FALSE, L |-> FALSE, h |-> FALSE, H |-> FALSE]
         /\ files = <<>> /\ k = 1 /\ res = 1 /\ out = <<>> /\ hist = <<>> /\ exit = 0 /\ outcome = "none"
         /\ ref = [items |-> <<>>, words |-> <<>>, err |-> FALSE]
         /\ g = "o1n" /\ cnt = 0 /\ cat = "" /\ dd = FALSE /\ meta = <<>> /\ pcl = "plain" /\ pform = "operand" /\ rcl = "never"
         /\ stdin = "match"
GNext == BuildNext \/ RunNext
GSpec == GInit /\ [][GNext]_<<vars, ref, gvars>>

Ran == outcome' \in {"ran", "killed"}
Emit == (pc # "done" /\ pc' = "done") =>
          PrintT(<<"PLAN", ToJson([tool |-> "grep", prog |-> prog, labelOK |-> labelOK, argv |-> argv, meta |-> meta,
                                   stdin |-> stdin, pcl |-> pcl, rcl |-> rcl, pform |-> pform,
                                   outcome |-> outcome', exit |-> exit', out |-> out', hist |-> hist',
                                   gopts |-> gopts', fl |-> fl, files |-> files',
                                   matcher |-> IF Ran THEN Matcher' ELSE "",
                                   want |-> IF Ran THEN WantLabel' ELSE FALSE,
                                   listmode |-> IF Ran THEN ListMode' ELSE FALSE,
                                   hhconf |-> IF Ran THEN HhConflictLastIsh' ELSE FALSE,
                                   div |-> IF Ran THEN Divergences' ELSE {}])>>)
=============================================================================
