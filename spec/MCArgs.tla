------------------------------- MODULE MCArgs --------------------------------
(* Args against the precedence statement: command line over XZ_OPT over      *)
(* XZ_DEFAULTS over the program name for valued options (last one wins       *)
(* within a source), flags accumulate, --stdout from whatever origin implies *)
(* --keep.                                                                   *)
EXTENDS Args, TLC
VARIABLES prog, dflt, xzopt, cmd
vars == <<prog, dflt, xzopt, cmd>>
Toks == {[o |-> x] : x \in {"z", "d", "k", "f", "c", "q", "Q", "n"}}
          \cup {[o |-> "S", v |-> s] : s \in {<<".", "a">>, <<"b">>, <<"a", "/">>}}
          \cup {[o |-> "F", v |-> f] : f \in {"xz", "lzma", "raw"}}
Seqs(n) == UNION {[1..k -> Toks] : k \in 0..n}
Init == prog \in Progs /\ dflt \in Seqs(1) /\ xzopt \in Seqs(1) /\ cmd \in Seqs(2)
Next == UNCHANGED vars
Spec == Init /\ [][Next]_vars

E == Effective(prog, dflt, xzopt, cmd)
All == dflt \o xzopt \o cmd
HasO(s, o) == \E i \in 1..Len(s) : s[i].o = o
LastO(s, os) == LET I == {i \in 1..Len(s) : s[i].o \in os} IN s[CHOOSE i \in I : \A j \in I : j <= i]
(* value of a valued option by precedence of the sources *)
ByPrecedence(os, default) ==
    IF HasO(cmd, os) THEN LastO(cmd, {os}) ELSE IF HasO(xzopt, os) THEN LastO(xzopt, {os})
    ELSE IF HasO(dflt, os) THEN LastO(dflt, {os}) ELSE default
Cat == prog \in {"xzcat", "lzcat"}
LzmaName == prog \in {"lzma", "unlzma", "lzcat"}
BadSuffix == \E i \in 1..Len(All) : All[i].o = "S" /\ SuffixSet(All[i].v) = "fatal"

FlagsAccumulate == /\ E.force = HasO(All, "f") /\ E.nowarn = HasO(All, "Q") /\ E.nosparse = HasO(All, "n")
                   /\ E.stdout = (HasO(All, "c") \/ Cat)
StdoutImpliesKeep == E.keep = (HasO(All, "k") \/ E.stdout)
ModeLastWins == E.mode = (IF HasO(All, "z") \/ HasO(All, "d")
                          THEN (IF LastO(All, {"z", "d"}).o = "z" THEN "compress" ELSE "decompress")
                          ELSE IF prog \in {"xz", "lzma"} THEN "compress" ELSE "decompress")
SuffixPrecedence == ~BadSuffix => E.custom = (LET t == ByPrecedence("S", [o |-> "S", v |-> NoCustom]) IN t.v)
FormatPrecedence == LET f == ByPrecedence("F", [o |-> "F", v |-> IF LzmaName THEN "lzma" ELSE "auto"]).v IN
                    E.fmt = IF f = "auto" /\ E.mode = "compress" THEN "xz" ELSE f
(* "-" is standard input only as an operand on the command line; lists drop empty entries and nothing else *)
ASSUME /\ IsStdinName("cmd", <<"-">>) /\ ~IsStdinName("cmd", <<"-", "-">>) /\ ~IsStdinName("cmd", <<"-", "k">>)
       /\ \A v \in Vias \ {"cmd"} : ~IsStdinName(v, <<"-">>)
       /\ ListNames(<< <<>>, <<"-">>, <<>>, <<>>, <<"-", "-">>, <<"f">>, <<>> >>) = << <<"-">>, <<"-", "-">>, <<"f">> >>
FatalExact == E.fatal = (BadSuffix \/ (E.fmt = "raw" /\ E.custom = NoCustom /\ ~E.stdout))
=============================================================================
