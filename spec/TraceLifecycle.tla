---------------------------- MODULE TraceLifecycle ---------------------------
(* Trace validation for C10.  One line per API call recorded by the ctypes    *)
(* driver with an instrumented lzma_allocator:                                *)
(*   {"e":"Call","cls":..,"fn":..,"k":..,"tgt":..,"src":..,                   *)
(*    "ops":[id | 0 | -id ...],"ret":..,"same":bool}                          *)
(* ops = what the allocator saw during the call, in order (allocation id,     *)
(* 0 = an allocation that was made to fail, -id = free of allocation id; a    *)
(* free of a pointer the allocator never handed out or already got back is    *)
(* recorded as -1000000 and matches no action).  The call must be a Begin,    *)
(* a sequence of micro-operations the mechanism of Lifecycle permits, and a   *)
(* permitted Return; the contract invariants are checked on every state.      *)
(* {"e":"Reset"} starts a new execution, {"e":"Done"} (after the driver has   *)
(* ended the handle and freed every object) requires an empty ledger.         *)
EXTENDS LifecycleContract, TLC, Json, IOUtils, SequencesExt

TraceLog == ndJsonDeserialize(IOEnv.TRACE)

VARIABLE l

TInit == s = S0 /\ l = 1

IsEvent(e) == l <= Len(TraceLog) /\ TraceLog[l].e = e /\ l' = l + 1

Fold(s0, ops) ==
    FoldLeft(LAMBDA acc, op : IF acc.ok /\ OpOK(acc.s, op) THEN [ok |-> TRUE, s |-> OpDo(acc.s, op)]
                              ELSE [ok |-> FALSE, s |-> acc.s],
             [ok |-> TRUE, s |-> s0], ops)

TReset == IsEvent("Reset") /\ s' = S0

TCall == /\ IsEvent("Call")
         /\ LET t == TraceLog[l]
                c == [cls |-> t.cls, k |-> t.k, tgt |-> t.tgt, src |-> t.src]
            IN /\ BeginOK(s, c)
               /\ LET r == Fold(BeginDo(s, c), t.ops)
                  IN /\ r.ok
                     /\ RetOK(r.s, t.ret, t.same)
                     /\ s' = RetDo(r.s, t.ret, t.same)

TDone == IsEvent("Done") /\ s.live = {} /\ s.internal = 0 /\ s' = s

TNext == TReset \/ TCall \/ TDone
TSpec == TInit /\ [][TNext]_<<s, l>>
TraceAccepted == TLCGet("stats").diameter - 1 = Len(TraceLog)
=============================================================================
