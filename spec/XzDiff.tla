------------------------------- MODULE XzDiff -------------------------------
(* C20 - transcription of src/scripts/xzdiff.in (xz 5.8.1; also xzcmp) as a state       *)
(* machine.  Arguments are real strings, the case-patterns are transcribed at character  *)
(* level; hostile names are opaque placeholders ("@1.xz", "-@2", ...).  The comparison   *)
(* itself is delegated to diff/cmp: the model decides WHICH data are compared (the       *)
(* decompressed or the raw view of each operand, in which order) and how the statuses    *)
(* of the decompressors and of diff/cmp are folded into the exit status.                 *)
(*                                                                                       *)
(* Environment: ost[i] = [cond, c] for operand i, cond in                                *)
(*   "ok" (compressed, decodes to content c)   "plain" (not compressed, content c)       *)
(*   "missing"  "corrupt" (decoder fails, no output)  "late" (all of c is output, then   *)
(*   the decoder fails)  "pipe" (all of c, then the decoder dies of SIGPIPE)             *)
(*   "kill" (the decoder is killed, no output);                                          *)
(* stem = "absent" | "A" | "B": the file FILE1-without-suffix of the one-operand form;   *)
(* sin  = [cond, c]: what is on standard input.                                          *)
EXTENDS Naturals, Sequences, FiniteSets

VARIABLES prog,     \* "xzdiff" | "xzcmp"
          argv, ost, stem, sin,          \* environment (constant during a behaviour)
          pc,       \* "scan" | "exist" | "run" | "fold" | "done"
          args,     \* "$@"
          copts,    \* options appended to $cmp
          xst,      \* $xz_status: sequence of decompressor statuses
          cmpst,    \* $cmp_status
          views,    \* <<v1, v2>>: the data handed to diff/cmp, in order (<<>> if diff/cmp is not run)
          stemname, \* $FILE of the one-operand form ("" if not used)
          exit, outcome

envv == <<prog, argv, ost, stem, sin>>
vars == <<envv, pc, args, copts, xst, cmpst, views, stemname, exit, outcome>>

Ch(s, j)   == SubSeq(s, j, j)
Pre(s, p)  == Len(s) >= Len(p) /\ SubSeq(s, 1, Len(p)) = p
Suf(s, x)  == Len(s) >= Len(x) /\ SubSeq(s, Len(s) - Len(x) + 1, Len(s)) = x
Has(s, c, from) == \E j \in from..Len(s) : Ch(s, j) = c
EndsSep(s, x) == Len(s) >= Len(x) + 1 /\ Suf(s, x) /\ Ch(s, Len(s) - Len(x)) \in {"-", "."}

\* decompressor selection, lines 77-92 (one operand) and 110-123 (two operands)
IsBz2(f) == EndsSep(f, "bz2") \/ Suf(f, ".tbz") \/ Suf(f, ".tbz2")
IsGz(f)  == EndsSep(f, "z") \/ EndsSep(f, "Z") \/ Suf(f, "_z") \/ EndsSep(f, "gz") \/ Suf(f, ".taz") \/ Suf(f, ".tgz")
IsLzo(f) == EndsSep(f, "lzo") \/ Suf(f, ".tzo")
IsZst(f) == EndsSep(f, "zst") \/ Suf(f, ".tzst")
IsLz4(f) == EndsSep(f, "lz4")
IsXzFam(f) == EndsSep(f, "xz") \/ EndsSep(f, "lzma") \/ EndsSep(f, "lz") \/ Suf(f, ".tlz") \/ Suf(f, ".txz")
Dec2(f) == IF IsBz2(f) THEN "bzip2" ELSE IF IsGz(f) THEN "gzip" ELSE IF IsLzo(f) THEN "lzop"
           ELSE IF IsZst(f) THEN "zstd" ELSE IF IsLz4(f) THEN "lz4" ELSE "xz"
\* line 77-92: the first matching pattern wins
Dec1(f) == IF IsXzFam(f) THEN "xz" ELSE IF IsBz2(f) THEN "bzip2" ELSE IF IsGz(f) THEN "gzip"
           ELSE IF IsLzo(f) THEN "lzop" ELSE IF IsZst(f) THEN "zstd" ELSE IF IsLz4(f) THEN "lz4" ELSE "unknown"
\* lines 125/127/191: names that are decompressed in the two-operand form
TarShort(f) == \E c \in {"a", "b", "g", "l", "x"} : Suf(f, ".t" \o c \o "z")           \* *.t[abglx]z
IsComp(f) == \/ EndsSep(f, "z") \/ EndsSep(f, "Z") \/ Suf(f, "_z") \/ EndsSep(f, "gz") \/ EndsSep(f, "xz")
             \/ EndsSep(f, "bz2") \/ EndsSep(f, "lzma") \/ EndsSep(f, "lz") \/ TarShort(f) \/ Suf(f, ".tbz2")
             \/ EndsSep(f, "lzo") \/ Suf(f, ".tzo") \/ EndsSep(f, "zst") \/ Suf(f, ".tzst") \/ EndsSep(f, "lz4")
             \/ f = "-"

\* lines 93-104: $FILE
TailSet == {"a", "b", "g", "l", "m", "o", "s", "t", "x", "z", "Z", "2", "4"}
IsCut(s, j) == Ch(s, j) \in {"-", "."} /\ \A q \in (j + 1)..Len(s) : Ch(s, q) \in TailSet
\* expr "X$1" : 'X\(.*\)[-.][abglmostxzZ24]*$'  (greedy: the last possible cut)
ExprStrip(s) == IF \E j \in 1..Len(s) : IsCut(s, j)
                THEN (LET j == CHOOSE j \in 1..Len(s) : IsCut(s, j) /\ \A q \in (j + 1)..Len(s) : ~IsCut(s, q)
                      IN SubSeq(s, 1, j - 1))
                ELSE ""
StemOf(f) ==
    IF \/ EndsSep(f, "z") \/ EndsSep(f, "Z") \/ Suf(f, "_z") \/ EndsSep(f, "gz") \/ EndsSep(f, "xz") \/ EndsSep(f, "bz2")
       \/ EndsSep(f, "lzma") \/ EndsSep(f, "lz") \/ EndsSep(f, "lzo") \/ EndsSep(f, "zst") \/ EndsSep(f, "lz4")
    THEN ExprStrip(f)
    ELSE IF TarShort(f) THEN SubSeq(f, 1, Len(f) - 2) \o "ar"            \* X\(.*[-.]t\)[abglx]z$ + ar
    ELSE IF Suf(f, ".tbz2") THEN SubSeq(f, 1, Len(f) - 3) \o "ar"
    ELSE IF Suf(f, ".tzo") THEN SubSeq(f, 1, Len(f) - 2) \o "ar"
    ELSE IF Suf(f, ".tzst") THEN SubSeq(f, 1, Len(f) - 3) \o "ar"
    ELSE ""

------------------------------------------------------------------------------
(* the environment's answers *)
St(i)      == IF args[i] = "-" THEN sin ELSE ost[i]
\* exit status of `$xzN -cd[f] -- FILE`; withF = FALSE in the one-operand form (no -f: foreign data is an error)
XS(i, withF) == LET c == St(i).cond IN
                IF c \in {"corrupt", "late", "missing"} THEN "fail"
                ELSE IF c = "plain" THEN (IF withF THEN "ok" ELSE "fail")
                ELSE IF c = "pipe" THEN "pipe" ELSE IF c = "kill" THEN "kill" ELSE "ok"
\* the data a decompressor writes / the raw bytes of the file
DecView(i, withF) == LET c == St(i).cond IN
                     IF c \in {"ok", "late", "pipe"} \/ (c = "plain" /\ withF) THEN <<"data", St(i).c>>
                     ELSE <<"data", "empty">>
RawView(i) == IF ost[i].cond = "plain" THEN <<"data", ost[i].c>> ELSE <<"raw", ost[i].cond, ost[i].c>>
\* diff/cmp's verdict on two views
Verdict(a, b) == IF a = b THEN 0 ELSE 1

Stop(code, why) == pc' = "done" /\ exit' = code /\ outcome' = why

Scanning == pc = "scan"
Arg1 == IF args = <<>> THEN "" ELSE Head(args)
\* lines 52-62
ScanHelp    == Scanning /\ Pre(Arg1, "--h") /\ Stop(0, "help")
               /\ UNCHANGED <<envv, args, copts, xst, cmpst, views, stemname>>
ScanVersion == Scanning /\ ~Pre(Arg1, "--h") /\ Pre(Arg1, "--v") /\ Stop(0, "version")
               /\ UNCHANGED <<envv, args, copts, xst, cmpst, views, stemname>>
ScanDD      == Scanning /\ Arg1 = "--" /\ args' = Tail(args) /\ pc' = "exist"
               /\ UNCHANGED <<envv, copts, xst, cmpst, views, stemname, exit, outcome>>
ScanOpt     == Scanning /\ ~Pre(Arg1, "--h") /\ ~Pre(Arg1, "--v") /\ Arg1 # "--" /\ Len(Arg1) >= 2 /\ Ch(Arg1, 1) = "-"
               /\ copts' = Append(copts, Arg1) /\ args' = Tail(args)
               /\ UNCHANGED <<envv, pc, xst, cmpst, views, stemname, exit, outcome>>
ScanStop    == Scanning /\ ~(Len(Arg1) >= 2 /\ Ch(Arg1, 1) = "-") /\ pc' = "exist"
               /\ UNCHANGED <<envv, args, copts, xst, cmpst, views, stemname, exit, outcome>>

\* lines 65-67
Exist == /\ pc = "exist"
         /\ IF \E i \in 1..Len(args) : args[i] # "-" /\ ost[i].cond = "missing"
            THEN Stop(2, "missing") ELSE pc' = "run" /\ UNCHANGED <<exit, outcome>>
         /\ UNCHANGED <<envv, args, copts, xst, cmpst, views, stemname>>

Ran(xs, vs, cs, sn) == /\ xst' = xs /\ views' = vs /\ cmpst' = cs /\ stemname' = sn /\ pc' = "fold"
                       /\ UNCHANGED <<envv, args, copts, exit, outcome>>
\* lines 75-108
RunOne ==
    /\ pc = "run" /\ Len(args) = 1
    /\ IF Dec1(args[1]) = "unknown"
       THEN Stop(2, "unknownsuffix") /\ UNCHANGED <<envv, args, copts, xst, cmpst, views, stemname>>
       ELSE LET nofile == stem = "absent" \/ StemOf(args[1]) = ""
                v1 == DecView(1, FALSE)
                v2 == IF nofile THEN <<"nofile">> ELSE <<"data", stem>>
            IN Ran(<<XS(1, FALSE)>>, <<v1, v2>>, IF nofile THEN 2 ELSE Verdict(v1, v2), StemOf(args[1]))
\* lines 109-200
RunTwo ==
    /\ pc = "run" /\ Len(args) = 2
    /\ LET a == args[1]  b == args[2] IN
       IF IsComp(a) THEN
          IF IsComp(b) THEN
             IF a = "-" /\ b = "-"
             THEN Ran(<<XS(1, TRUE)>>, <<<<"stdin">>, <<"stdin">>>>, 0, "")                  \* line 128-133
             ELSE LET v1 == DecView(1, TRUE)                                                 \* lines 137-142
                      v2 == IF b = "-" THEN <<"data", "empty">> ELSE DecView(2, TRUE)        \* </dev/null
                  IN Ran(<<XS(1, TRUE), IF b = "-" THEN "ok" ELSE XS(2, TRUE)>>, <<v1, v2>>, Verdict(v1, v2), "")
          ELSE LET v1 == DecView(1, TRUE)  v2 == RawView(2) IN                               \* lines 183-187
               Ran(<<XS(1, TRUE)>>, <<v1, v2>>, Verdict(v1, v2), "")
       ELSE IF IsComp(b)
            THEN LET v1 == RawView(1)  v2 == DecView(2, TRUE) IN                             \* lines 192-196
                 Ran(<<XS(2, TRUE)>>, <<v1, v2>>, Verdict(v1, v2), "")
            ELSE LET v1 == RawView(1)  v2 == RawView(2) IN                                   \* line 198
                 Ran(<<>>, <<v1, v2>>, Verdict(v1, v2), "")
\* lines 201-204
RunUsage ==
    /\ pc = "run" /\ Len(args) \notin {1, 2} /\ Stop(2, "usage")
    /\ UNCHANGED <<envv, args, copts, xst, cmpst, views, stemname>>
\* lines 206-220
Fold ==
    /\ pc = "fold"
    /\ IF \E j \in 1..Len(xst) : xst[j] \notin {"ok", "pipe"} THEN Stop(2, "ran") ELSE Stop(cmpst, "ran")
    /\ UNCHANGED <<envv, args, copts, xst, cmpst, views, stemname>>

Next == ScanHelp \/ ScanVersion \/ ScanDD \/ ScanOpt \/ ScanStop \/ Exist \/ RunOne \/ RunTwo \/ RunUsage \/ Fold

InitWith(p, av, os, sm, si) ==
    /\ prog = p /\ argv = av /\ ost = os /\ stem = sm /\ sin = si
    /\ pc = "scan" /\ args = av /\ copts = <<>> /\ xst = <<>> /\ cmpst = 0 /\ views = <<>> /\ stemname = ""
    /\ exit = 0 /\ outcome = "none"
=============================================================================
