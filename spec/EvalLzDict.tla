------------------------------ MODULE EvalLzDict ------------------------------
(* (G) for C03: the dictionary-size boundary at the REAL constants of         *)
(* lz_decoder.c (MinDict = 4096, Align = 16).  For declared sizes D, amounts  *)
(* of data already written W and coded distances d around every boundary TLC  *)
(* evaluates the format's verdict (d < Min(W, D)), the implementation's       *)
(* documented verdict (d < Min(W, EffDict(D))) and the named relaxation.      *)
(* The concretiser writes W bytes and one match with that distance through    *)
(* the raw LZMA1 decoder (dict_size = D) and the .lzma decoder.               *)
EXTENDS Lz, Lzma2, TLC, Json
CONSTANT DeclSizes
Near(x) == {y \in {x - 1, x, x + 1} : y >= 1}
Cases == UNION {{[D |-> D, W |-> W, d |-> d] :
                    W \in Near(D) \cup Near(EffDictOf(D)),
                    d \in {x \in {D - 1, D, EffDictOf(D) - 1, EffDictOf(D)} : x >= 0} \cup {D \div 2}}
                : D \in DeclSizes}
Row(c) == [D |-> c.D, W |-> c.W, d |-> c.d, eff |-> EffDictOf(c.D),
           format |-> (c.d < Min(c.W, c.D)),
           impl |-> (c.d < Min(c.W, EffDictOf(c.D))),
           relaxed |-> (~(c.d < Min(c.W, c.D)) /\ c.d < Min(c.W, EffDictOf(c.D)))]
ASSUME \A c \in Cases : PrintT(<<"PLAN", ToJson(Row(c))>>)
ASSUME \A c \in Cases : Row(c).format => Row(c).impl            \* the implementation is never stricter
ASSUME \A c \in Cases : (Row(c).impl /\ ~Row(c).format) <=> Row(c).relaxed
(* second table: every value of the LZMA2 properties byte *)
ASSUME \A b \in 0..255 : PrintT(<<"PLAN", ToJson([props |-> b, valid |-> PropsByteValid(b), lc |-> PropsLc(b), lp |-> PropsLp(b), pb |-> PropsPb(b)])>>)
ASSUME Cardinality({b \in 0..255 : PropsByteValid(b)}) = 75
VARIABLE x
Spec == x = 0 /\ [][UNCHANGED x]_x
=============================================================================
