SPECIFICATION Spec
CONSTANTS B = 3  MaxN = 10  NoProbe = TRUE
INVARIANT VerdictIndependentOfBuffer
PROPERTY Terminates
CHECK_DEADLOCK FALSE
