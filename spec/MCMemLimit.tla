------------------------------ MODULE MCMemLimit -----------------------------
(* Exhaustive check of MemLimit => MemLimitContract: every sequence of        *)
(* units (Blocks / Indexes) with needs from Needs, every initial limit and    *)
(* every lzma_memlimit_set value from Limits at every point; for the threaded *)
(* decoder every (memlimit_threading, memlimit_stop) pair and every           *)
(* interleaving of worker completion / output reading with Block starts.      *)
EXTENDS MemLimitContract, TLC

CONSTANTS Needs, Limits, MaxUnits, Bug,
          MtBlocks,     \* set of <<f, i, o>> triples
          MtThreads

VARIABLES d, nunits, lastret, m, mblocks, pend

vars == <<d, nunits, lastret, m, mblocks, pend>>

Init == /\ \E l \in Limits : d = StInit(l)
        /\ nunits = 0 /\ lastret = "OK"
        /\ \E t \in Limits, s \in Limits : m = MtInit(t, s)
        /\ mblocks = 0 /\ pend = <<>>

\* ---- single-threaded
Reach == /\ d.phase = "parse" /\ nunits < MaxUnits
         /\ \E e \in Needs, a \in {0, 1} :
               LET amount == IF a = 0 THEN 0 ELSE e - d.kept + Slack
                   r == StReach(d, e + d.kept, amount, Bug)
               IN d' = r[2] /\ lastret' = r[1]
         /\ nunits' = nunits + 1 /\ UNCHANGED <<m, mblocks, pend>>
Resume == /\ d.phase = "blocked"
          /\ LET r == StReach(d, d.need, d.need - d.kept + Slack, Bug) IN d' = r[2] /\ lastret' = r[1]
          /\ UNCHANGED <<nunits, m, mblocks, pend>>
Finish == /\ d.phase = "run"
          /\ \E keep \in BOOLEAN : d' = StFinishUnit(d, keep)
          /\ lastret' = "OK" /\ UNCHANGED <<nunits, m, mblocks, pend>>
Set == /\ \E new \in Limits \cup {0} : LET r == StSet(d, new, Bug) IN d' = r[2] /\ lastret' = r[1]
       /\ UNCHANGED <<nunits, m, mblocks, pend>>

\* ---- threaded: pend = the Block waiting at SEQ_BLOCK_INIT (<<f,i,o,known>>) or <<>>
MtArrive == /\ pend = <<>> /\ mblocks < MaxUnits
            /\ \E b \in MtBlocks, known \in BOOLEAN : pend' = <<b[1], b[2], b[3], known>>
            /\ mblocks' = mblocks + 1 /\ UNCHANGED <<d, nunits, lastret, m>>
MtDecide ==
    /\ pend # <<>>
    /\ LET f == pend[1] i == pend[2] o == pend[3]
           dec == MtDecision(m, f, i, o, pend[4], Bug)
       IN CASE dec = "memlimit" -> /\ m.outUsed = 0 /\ AllIdle(m)     \* output flushed first
                                   /\ m' = MtBlocked(m, f) /\ pend' = pend
            [] dec = "direct" -> MtDirectReady(m) /\ m' = MtDirect(m, f) /\ pend' = <<>>
            [] OTHER -> /\ MtCanStart(m, f, i, o, Bug)
                        /\ (Len(m.thr) < MtThreads \/ Cached(m) # {})
                        /\ LET slot == IF Cached(m) # {} THEN CHOOSE k \in Cached(m) : \A j \in Cached(m) : k <= j ELSE 0
                           IN m' = MtStartThread(m, f, i, o, slot, Bug)
                        /\ pend' = <<>>
    /\ UNCHANGED <<d, nunits, lastret, mblocks>>
MtSetStop == /\ \E new \in Limits : LET r == MtSet(m, new, Bug) IN m' = [r[2] EXCEPT !.mode = IF @ = "blocked" THEN "none" ELSE @]
             /\ UNCHANGED <<d, nunits, lastret, mblocks, pend>>
MtDone == /\ \E k \in 1..Len(m.thr) : m.thr[k].st = "active" /\ m' = MtWorkerDone(m, k)
          /\ UNCHANGED <<d, nunits, lastret, mblocks, pend>>
MtRead == /\ m.outUsed > 0
          /\ \E b \in MtBlocks : b[3] <= m.outUsed /\ m' = MtOutRead(m, b[3])
          /\ UNCHANGED <<d, nunits, lastret, mblocks, pend>>
MtDirectEnd == /\ m.mode = "direct" /\ pend = <<>> /\ UNCHANGED vars      \* direct decoder stays allocated (reused)

MCBlocks == {<<2, 1, 1>>, <<3, 1, 2>>, <<5, 1, 1>>}

\* the two decoders are independent: two specifications over the same variables
InitSt == Init /\ m = MtInit(1, 1)
InitMt == Init /\ d = StInit(1)
SpecSt == InitSt /\ [][Reach \/ Resume \/ Finish \/ Set]_vars
SpecMt == InitMt /\ [][MtArrive \/ MtDecide \/ MtSetStop \/ MtDone \/ MtRead]_vars

InvStWithinLimit == StWithinLimit(d)
InvStRestartable == StRestartable(d, Bug)
InvStErrorJustified == \A e \in Needs : StErrorJustified(d, e + d.kept, 0, Bug)
InvStSetSound    == \A new \in Limits \cup {0} : StSetSound(d, new, Bug)
InvMtThreadedWithinT == MtThreadedWithinT(m)
InvMtWithinStop  == MtWithinStop(m)
InvMtCounters    == MtCountersSound(m)
InvMtNeedReported == MtNeedReported(m, Bug)
\* "if the output queue is empty then input will always be possible": an idle decoder can start the pending Block
InvMtNoStuck == (pend # <<>> /\ MtDecision(m, pend[1], pend[2], pend[3], pend[4], Bug) = "threaded"
                 /\ AllIdle(m) /\ m.outUsed = 0) => MtCanStart(m, pend[1], pend[2], pend[3], Bug)
=============================================================================
