------------------------------ MODULE LzmaCode ------------------------------
(* Transcription of lzma_code() (src/liblzma/common/common.c) together with   *)
(* the per-handle state it reads and writes (lzma_internal: sequence,        *)
(* avail_in, allow_buf_error, supported_actions[], next.code).  The inner    *)
(* coder (next.code) is abstract: any return code and any amount of          *)
(* progress within the buffers it was given.                                 *)
(*                                                                           *)
(* One action = one call of lzma_code(), which is the linearisation point of *)
(* a sequential library.  The model is written to be bound: every variable   *)
(* is something the C driver can read back after the call.                   *)
EXTENDS Naturals, FiniteSets, Sequences

CONSTANTS MaxIn, MaxOut      \* bounds of avail_in / avail_out offered per call (model checking only)

ValidActions == {"RUN", "SYNC_FLUSH", "FULL_FLUSH", "FINISH", "FULL_BARRIER"}
\* (unsigned)action > LZMA_ACTION_MAX: two representatives (5 and (lzma_action)-1)
BadActions   == {"ACT5", "ACTNEG"}
Actions      == ValidActions \cup BadActions
FlushActions == {"SYNC_FLUSH", "FULL_FLUSH", "FINISH", "FULL_BARRIER"}

\* What next.code may return.  LZMA_BUF_ERROR is never returned by an inner coder
\* (lzma_code asserts it); TIMED_OUT (internal 101) is.
InnerRets == {"OK", "STREAM_END", "NO_CHECK", "UNSUPPORTED_CHECK", "GET_CHECK", "MEM_ERROR",
              "MEMLIMIT_ERROR", "FORMAT_ERROR", "OPTIONS_ERROR", "DATA_ERROR", "PROG_ERROR",
              "SEEK_NEEDED", "TIMED_OUT", "RET_INTERNAL2"}
NonFatal  == {"NO_CHECK", "UNSUPPORTED_CHECK", "GET_CHECK", "MEMLIMIT_ERROR"}

Seqs == {"RUN", "SYNC_FLUSH", "FULL_FLUSH", "FINISH", "FULL_BARRIER", "END", "ERROR"}

VARIABLES
    inited,        \* strm->internal != NULL /\ next.code != NULL
    supported,     \* set of actions enabled by the constructor
    seq,           \* internal->sequence
    savedIn,       \* internal->avail_in
    allowBuf,      \* internal->allow_buf_error
    totalIn, totalOut,
    obs            \* observation of the last call (what the caller sees + whether inner ran)

vars == <<inited, supported, seq, savedIn, allowBuf, totalIn, totalOut, obs>>

NoObs == [kind |-> "none"]

\* lzma_strm_init() + a constructor: sequence RUN, allow_buf_error false, avail_in 0, totals 0
InitWith(sup, isInit) ==
    /\ inited = isInit
    /\ supported = sup
    /\ seq = "RUN"
    /\ savedIn = 0
    /\ allowBuf = FALSE
    /\ totalIn = 0 /\ totalOut = 0
    /\ obs = NoObs

Init == \E sup \in SUBSET ValidActions : \E b \in BOOLEAN : InitWith(sup, b)

Obs(a, ain, aout, flags, ret, uin, uout, ran, iret) ==
    [kind |-> "call", action |-> a, ain |-> ain, aout |-> aout,
     inNull |-> flags[1], outNull |-> flags[2], resv |-> flags[3],
     ret |-> ret, uin |-> uin, uout |-> uout, innerRan |-> ran, innerRet |-> iret]

\* Early return without touching any state
Reject(a, ain, aout, flags, ret) ==
    /\ obs' = Obs(a, ain, aout, flags, ret, 0, 0, FALSE, "none")
    /\ UNCHANGED <<inited, supported, seq, savedIn, allowBuf, totalIn, totalOut>>

SeqAfterAction(a) == IF seq = "RUN" /\ a # "RUN" THEN a ELSE seq

\* The part after the switch(sequence): call next.code and post-process
RunInner(a, ain, aout, flags, iret, uin, uout) ==
    LET seq1 == SeqAfterAction(a)
        noProg == uin = 0 /\ uout = 0
        ret == CASE iret = "OK" /\ noProg /\ allowBuf -> "BUF_ERROR"
                 [] iret = "TIMED_OUT" -> "OK"
                 [] OTHER -> iret
        seq2 == CASE iret \in {"OK", "TIMED_OUT"} \cup NonFatal -> seq1
                  [] iret = "SEEK_NEEDED" -> IF seq1 = "FINISH" THEN "RUN" ELSE seq1
                  [] iret = "STREAM_END" ->
                        IF seq1 \in {"SYNC_FLUSH", "FULL_FLUSH", "FULL_BARRIER"} THEN "RUN" ELSE "END"
                  [] OTHER -> "ERROR"
        ab2 == CASE iret = "OK" -> (noProg)     \* first no-progress OK sets it, progress clears it,
                                                 \* second no-progress keeps it TRUE (BUF_ERROR returned)
                 [] iret \in {"TIMED_OUT", "SEEK_NEEDED", "STREAM_END"} \cup NonFatal -> FALSE
                 [] OTHER -> allowBuf
    IN /\ seq' = seq2
       /\ allowBuf' = ab2
       /\ savedIn' = ain - uin
       /\ totalIn' = totalIn + uin
       /\ totalOut' = totalOut + uout
       /\ obs' = Obs(a, ain, aout, flags, ret, uin, uout, TRUE, iret)
       /\ UNCHANGED <<inited, supported>>

\* One call of lzma_code(strm, a) with strm->avail_in = ain, strm->avail_out = aout.
\* inNull/outNull: next_in / next_out is NULL.  resv: some reserved member is set.
Call(a, ain, aout, inNull, outNull, resv, iret, uin, uout) ==
    LET flags == <<inNull, outNull, resv>> IN
    IF \/ (inNull /\ ain # 0) \/ (outNull /\ aout # 0)
       \/ ~inited
       \/ a \notin ValidActions
       \/ a \notin supported
    THEN Reject(a, ain, aout, flags, "PROG_ERROR")
    ELSE IF resv THEN Reject(a, ain, aout, flags, "OPTIONS_ERROR")
    ELSE CASE seq = "RUN" -> RunInner(a, ain, aout, flags, iret, uin, uout)
           [] seq \in FlushActions ->
                 IF a # seq \/ savedIn # ain
                 THEN Reject(a, ain, aout, flags, "PROG_ERROR")
                 ELSE RunInner(a, ain, aout, flags, iret, uin, uout)
           [] seq = "END" -> Reject(a, ain, aout, flags, "STREAM_END")
           [] OTHER -> Reject(a, ain, aout, flags, "PROG_ERROR")

\* Does this call reach next.code?  (used to keep the inner result from multiplying rejected calls)
ReachesInner(a, ain, aout, inNull, outNull, resv) ==
    /\ ~((inNull /\ ain # 0) \/ (outNull /\ aout # 0) \/ ~inited \/ a \notin ValidActions \/ a \notin supported)
    /\ ~resv
    /\ \/ seq = "RUN"
       \/ (seq \in FlushActions /\ a = seq /\ savedIn = ain)

Next ==
    \E a \in Actions, ain \in 0..MaxIn, aout \in 0..MaxOut, inNull, outNull, resv \in BOOLEAN :
        IF ReachesInner(a, ain, aout, inNull, outNull, resv)
        THEN \E iret \in InnerRets, uin \in 0..ain, uout \in 0..aout :
                \* a NULL buffer can only be used with zero progress on that side
                Call(a, ain, aout, inNull, outNull, resv, iret, uin, uout)
        ELSE Call(a, ain, aout, inNull, outNull, resv, "OK", 0, 0)

\* Re-initialisation of the same handle with (another) coder WITHOUT lzma_end(): lzma_next_strm_init() calls
\* lzma_strm_init(), which resets the sequence, allow_buf_error, the totals and ALL supported_actions[], and the
\* constructor then enables its own actions.  (lzma_end() followed by a constructor has the same abstract effect.)
Reinit(sup) ==
    /\ inited' = TRUE /\ supported' = sup /\ seq' = "RUN" /\ allowBuf' = FALSE
    /\ totalIn' = 0 /\ totalOut' = 0
    /\ savedIn' = savedIn          \* lzma_strm_init() does not touch internal->avail_in
    /\ obs' = [kind |-> "reinit", sup |-> sup]

Spec == Init /\ [][Next]_vars

TypeOK ==
    /\ inited \in BOOLEAN /\ supported \subseteq ValidActions /\ seq \in Seqs
    /\ savedIn \in Nat /\ allowBuf \in BOOLEAN /\ totalIn \in Nat /\ totalOut \in Nat
=============================================================================
