------------------------------- MODULE Suffix --------------------------------
(* Transcription of src/xz/suffix.c (POSIX build: no DJGPP / DOS-like        *)
(* branches, HAVE_LZIP_DECODER defined).  File names and suffixes are finite *)
(* sequences of one-character strings; NoCustom (the empty sequence) stands  *)
(* for custom_suffix == NULL (suffix_set() never stores an empty suffix).    *)
(*                                                                           *)
(*   test_suffix()        -> TestSuffix                                      *)
(*   uncompressed_name()  -> UncompressedName                                *)
(*   compressed_name()    -> CompressedName                                  *)
(*   suffix_set()         -> SuffixSet                                       *)
(*   suffix_get_dest_name -> DestName                                        *)
(*                                                                           *)
(* The property (round trip, skip rules, same directory, one character       *)
(* remains) is stated separately in SuffixContract.tla.                      *)
EXTENDS Naturals, Sequences, FiniteSets

XZ   == <<".", "x", "z">>
TXZ  == <<".", "t", "x", "z">>
LZMA == <<".", "l", "z", "m", "a">>
TLZ  == <<".", "t", "l", "z">>
LZ   == <<".", "l", "z">>
TAR  == <<".", "t", "a", "r">>
NoCustom == <<>>

IsDirSep(c) == c = "/"
HasDirSep(s) == \E i \in 1..Len(s) : IsDirSep(s[i])

(* test_suffix(): 0 = "does not have the suffix", otherwise the length of    *)
(* the name without the suffix (always positive).                            *)
(* C: src_name[src_len - suffix_len - 1] is the 1-based element nl - sl.     *)
TestSuffix(suffix, name) ==
    LET sl == Len(suffix)
        nl == Len(name)
    IN  IF nl <= sl \/ IsDirSep(name[nl - sl])
        THEN 0
        ELSE IF SubSeq(name, nl - sl + 1, nl) = suffix THEN nl - sl ELSE 0

Named(n)       == [kind |-> "name", name |-> n, why |-> "", suf |-> <<>>]
Skipped(w, s)  == [kind |-> "skip", name |-> <<>>, why |-> w, suf |-> s]

(* suffixes[] of uncompressed_name(): {compressed, uncompressed}, in order   *)
DecTable == << <<XZ, <<>> >>, <<TXZ, TAR>>, <<LZMA, <<>> >>, <<TLZ, TAR>>, <<LZ, <<>> >> >>

Min(S) == CHOOSE x \in S : \A y \in S : x <= y

(* fmt: the value of opt_format; only "raw" is distinguished here            *)
UncompressedName(name, fmt, custom) ==
    LET hits == IF fmt # "raw" THEN {i \in 1..Len(DecTable) : TestSuffix(DecTable[i][1], name) # 0} ELSE {}
        i    == Min(hits)
        len1 == IF hits # {} THEN TestSuffix(DecTable[i][1], name) ELSE 0
        nsuf == IF hits # {} THEN DecTable[i][2] ELSE <<>>
        len2 == IF len1 = 0 /\ custom # NoCustom THEN TestSuffix(custom, name) ELSE len1
    IN  IF len2 = 0 THEN Skipped("unknown_suffix", <<>>)
        ELSE Named(SubSeq(name, 1, len2) \o nsuf)

(* all_suffixes[][] of compressed_name(), indexed by format                  *)
EncSuffixes(fmt) == CASE fmt = "xz" -> <<XZ, TXZ>>
                      [] fmt = "lzma" -> <<LZMA, TLZ>>
                      [] fmt = "raw" -> <<>>

(* compressed_name(); fmt = "raw" with custom = NoCustom is excluded by      *)
(* args.c (fatal error unless writing to stdout) - see RawNeedsSuffix.       *)
CompressedName(name, fmt, custom) ==
    LET sufs == EncSuffixes(fmt)
        hits == {i \in 1..Len(sufs) : TestSuffix(sufs[i], name) # 0}
    IN  IF hits # {} THEN Skipped("has_suffix", sufs[Min(hits)])
        ELSE IF custom # NoCustom /\ TestSuffix(custom, name) # 0 THEN Skipped("has_suffix", custom)
        ELSE Named(name \o (IF custom # NoCustom THEN custom ELSE sufs[1]))

(* suffix_set(): message_fatal for an empty suffix or one with a separator   *)
SuffixSet(s) == IF s = <<>> \/ HasDirSep(s) THEN "fatal" ELSE "ok"

(* args.c: --format=raw without -S and without --stdout is fatal             *)
RawNeedsSuffix(fmt, custom, stdout) == fmt = "raw" /\ custom = NoCustom /\ ~stdout

(* suffix_get_dest_name()                                                    *)
DestName(mode, name, fmt, custom) ==
    IF mode = "compress" THEN CompressedName(name, fmt, custom)
                         ELSE UncompressedName(name, fmt, custom)
=============================================================================
