SPECIFICATION TSpec
CONSTANTS B = 8192  TrackContent = FALSE
POSTCONDITION TraceAccepted
CHECK_DEADLOCK FALSE
