SPECIFICATION Spec
CONSTANTS
 BugDupChecks = FALSE  BugIterEmpty = FALSE  BugAppendTotal = FALSE
 NSlots = 2  MaxStreams = 3  MaxRecs = 2
 USizes <- MCU  VSizes <- MCV  Pads <- MCP  FlagSet <- MCF
CONSTRAINT Bounded
INVARIANTS InvValid InvChecks InvIterFull InvItems InvIterNext InvLocate InvOps InvDup InvEncDec
CHECK_DEADLOCK FALSE
