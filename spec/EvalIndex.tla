------------------------------ MODULE EvalIndex -----------------------------
(* Evaluates the index model on histories supplied from outside (one JSON    *)
(* array of calls per line of the file named by the environment variable     *)
(* PLANS) and prints the predictions in the format of GenIndex.  Used where   *)
(* the sizes are only known after the real encoder has run: the index of a   *)
(* multi-Stream file is predicted as the history                             *)
(*   init, append*, stream_flags, stream_padding, cat  per Stream.           *)
EXTENDS IndexOps, TLC, Json, IOUtils

Hists == ndJsonDeserialize(IOEnv.PLANS)
ASSUME \A n \in 1..Len(Hists) : PrintT(<<"PLAN", ToJson(Predict(Hists[n]))>>)

VARIABLE x
Init == x = 0
Next == UNCHANGED x
=============================================================================
