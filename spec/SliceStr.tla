------------------------------ MODULE SliceStr -------------------------------
(* C06, determinism clause "a filter chain given as a structure or as its      *)
(* textual form": the meaning of the LZMA1/LZMA2 option strings.               *)
(* Preset(level, extreme) is the preset table of the documentation (xz(1),     *)
(* lzma12.h): the options a preset stands for.  An item = optional non-last    *)
(* filter + lzma1|lzma2 with "preset=<level>[e]" followed by at most one       *)
(* explicit option; `want` is the lzma_options_lzma the text denotes.  The     *)
(* driver builds the text, calls lzma_str_to_filters() and compares every      *)
(* field with `want` (Fields event of TraceSlicing), and encodes the same data *)
(* with the text form and with a structure filled from `want` (Group/Run).     *)
EXTENDS Naturals, Sequences, TLC, Json

VARIABLE item

KiB == 1024
DictOf(l) == CASE l = 0 -> 256 * KiB [] l = 1 -> 1024 * KiB [] l = 2 -> 2048 * KiB [] l \in {3, 4} -> 4096 * KiB
               [] l \in {5, 6} -> 8192 * KiB [] l = 7 -> 16384 * KiB [] l = 8 -> 32768 * KiB [] l = 9 -> 65536 * KiB
Base(l) ==
    IF l <= 3
    THEN [dict |-> DictOf(l), lc |-> 3, lp |-> 0, pb |-> 2, mode |-> "fast", mf |-> IF l = 0 THEN "hc3" ELSE "hc4",
          nice |-> IF l <= 1 THEN 128 ELSE 273, depth |-> CASE l = 0 -> 4 [] l = 1 -> 8 [] l = 2 -> 24 [] l = 3 -> 48]
    ELSE [dict |-> DictOf(l), lc |-> 3, lp |-> 0, pb |-> 2, mode |-> "normal", mf |-> "bt4",
          nice |-> CASE l = 4 -> 16 [] l = 5 -> 32 [] OTHER -> 64, depth |-> 0]
Preset(l, e) ==
    IF ~e THEN Base(l)
    ELSE [Base(l) EXCEPT !.mode = "normal", !.mf = "bt4",
                         !.nice = IF l \in {3, 5} THEN 192 ELSE 273, !.depth = IF l \in {3, 5} THEN 0 ELSE 512]

Overrides == {<<"none", 0>>, <<"dict", 4 * KiB>>, <<"dict", 64 * KiB>>, <<"dict", 1024 * KiB>>, <<"lc", 0>>, <<"lc", 4>>, <<"lp", 1>>,
              <<"pb", 0>>, <<"pb", 4>>, <<"nice", 16>>, <<"nice", 273>>, <<"depth", 7>>, <<"depth", 0>>}
StrOverrides == {<<"mf", m>> : m \in {"hc3", "hc4", "bt2", "bt3", "bt4"}} \cup {<<"mode", "fast">>, <<"mode", "normal">>}
Apply(o, ov) ==
    CASE ov[1] = "none" -> o [] ov[1] = "dict" -> [o EXCEPT !.dict = ov[2]] [] ov[1] = "lc" -> [o EXCEPT !.lc = ov[2]]
      [] ov[1] = "lp" -> [o EXCEPT !.lp = ov[2]] [] ov[1] = "pb" -> [o EXCEPT !.pb = ov[2]] [] ov[1] = "nice" -> [o EXCEPT !.nice = ov[2]]
      [] ov[1] = "depth" -> [o EXCEPT !.depth = ov[2]] [] ov[1] = "mf" -> [o EXCEPT !.mf = ov[2]] [] ov[1] = "mode" -> [o EXCEPT !.mode = ov[2]]

Items == {[prefix |-> px, filter |-> f, level |-> l, extreme |-> e, opt |-> ov[1], val |-> ToString(ov[2]), want |-> Apply(Preset(l, e), ov)] :
          px \in {"", "x86", "delta:dist=3", "arm64:start=4096"}, f \in {"lzma1", "lzma2"}, l \in 0..9, e \in BOOLEAN,
          ov \in Overrides \cup StrOverrides}

Init == item \in Items
Next == FALSE /\ UNCHANGED item
Spec == Init /\ [][Next]_item
Emit == PrintT(<<"ITEM", ToJson(item)>>)
=============================================================================
