SPECIFICATION Spec
CONSTANTS DictSize = 4096 MinDict = 4096 Align = 16 RepMax = 288
 Bytes = {1, 2} MaxSyms = 3 MaxDist = 5 Lens = {2, 3, 273} Ctxs = {"fresh", "none", "state", "afterwrap"} Known = TRUE
ACTION_CONSTRAINT Emit
CHECK_DEADLOCK FALSE
