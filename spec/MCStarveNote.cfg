SPECIFICATION StSpec
CONSTANTS MaxIn = 0 MaxOut = 0 MaxFeed = 1 MaxGrant = 1
 Family = "xz" Rederive = TRUE Stuck = FALSE
 Inputs <- NoteInputs
INVARIANTS DocumentedOnly NoInternal StallBounded BufErrorResumable
PROPERTY StarveLive
CHECK_DEADLOCK FALSE
