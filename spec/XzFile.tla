-------------------------------- MODULE XzFile --------------------------------
(* Abstract .xz files at FIELD granularity with byte-exact field lengths       *)
(* (shared by the operational decoder model XzStreamDec, the declarative       *)
(* format definition XzFormat and the fault model XzFault; C03, C05).          *)
(*                                                                             *)
(* File   == [streams : Seq(Stream)]                                           *)
(* Stream == [hmagic, hvers, hcrc : BOOLEAN,   magic ok / reserved flag bits 0 / CRC32 ok     *)
(*            check  : 0..15,                  Check ID in the Stream Header                   *)
(*            blocks : Seq(Block),                                                             *)
(*            icount : Nat, irecs : Seq([u, n]),   Number of Records, the Records (Unpadded, Uncompressed) *)
(*            ivli, ipadz, icrc : BOOLEAN,     Index VLIs well formed / padding zero / CRC32 ok *)
(*            ivpos, ivcls : which VLI of the Index is malformed and how (when ~ivli); icb, fbb and the ub / nb of   *)
(*            Records, the big of cs / us: BIG tags (below); vc / idv / psv: malformation class of a header VLI     *)
(*            fcrc, fvers, fmagic : BOOLEAN, fcheck : 0..15, fbs : Nat (Backward Size, real bytes), *)
(*            pad : Nat]                       Stream Padding after the Stream                 *)
(* Block  == [hsz : Nat (stated Block Header Size), resv : BOOLEAN (reserved Block Flags),      *)
(*            cs, us : [p : BOOLEAN (present), v : Nat, vli : BOOLEAN (well formed)],           *)
(*            filters : Seq([id : STRING, plen : Nat, pok : BOOLEAN]),                          *)
(*            fits : BOOLEAN (all fields end inside the stated header),                        *)
(*            hpad : Nat (Header Padding bytes), hpadz, hcrc : BOOLEAN,                          *)
(*            chunks : Seq(Lzma2 chunk)  (the Compressed Data), did : data id,                  *)
(*            bpadz : BOOLEAN (Block Padding zero), chk : BOOLEAN (Check field matches)]        *)
EXTENDS Naturals, Sequences, FiniteSets, Lzma2

Min2(a, b) == IF a < b THEN a ELSE b
RECURSIVE SumSeq(_)
SumSeq(q) == IF q = <<>> THEN 0 ELSE Head(q) + SumSeq(Tail(q))
Pad4(n) == (4 - (n % 4)) % 4
Ceil4(n) == n + Pad4(n)

(* xz-file-format 2.1.1.2: Check IDs and the size of the Check field *)
CheckSize(c) == CASE c = 0 -> 0 [] c \in 1..3 -> 4 [] c \in 4..6 -> 8 [] c \in 7..9 -> 16 [] c \in 10..12 -> 32 [] OTHER -> 64
CheckSupported(c) == c \in {0, 1, 4, 10}           \* None, CRC32, CRC64, SHA-256 (check.h, this build)
(* xz-file-format 1.2: variable-length integers.  True values of the models stay below 2^27.                    *)
(* BIG values (TLC integers are 32-bit): a stored value that exceeds the true one by 2^31, 2^32, 2^33 or 2^62 -   *)
(* the wrap-around classes of 32-bit / signed arithmetic - is represented by the stand-in v + BigStandIn plus a  *)
(* tag that carries the real magnitude ("p31" "p32" "p33" "p62"; for the 32-bit Backward Size field "k1" "k2"    *)
(* "k3": stored + k * 2^30, i.e. real + k * 2^32).  The models only compare, order and add values and take      *)
(* their encoded length, for which the stand-in is faithful: it is larger than, and different from, every true  *)
(* value; the length comes from the tag.                                                                         *)
BigStandIn == 134217728
VliLen(v) == IF v < 128 THEN 1 ELSE IF v < 16384 THEN 2 ELSE IF v < 2097152 THEN 3 ELSE 4
BigLen(tag) == IF tag = "p62" THEN 9 ELSE 5                 \* 2^31 .. 2^33 + small: five bytes; 2^62 + small: nine bytes
VliLenT(v, tag) == IF tag = "" THEN VliLen(v) ELSE BigLen(tag)
(* MALFORMED encodings of a VLI (the decoders must reject them wherever a VLI is read):                          *)
(*   "nonmin" - the minimal encoding of the SAME value with a continuation bit added and a 0x00 byte appended;   *)
(*   "over9"  - nine bytes that all carry the continuation bit (a tenth byte would be needed: more than 63 bits) *)
EncLen(len, cls) == CASE cls = "nonmin" -> len + 1 [] cls = "over9" -> 9 [] OTHER -> len
UnpaddedMin == 5

(* ---- filters (xz-file-format 5.3; filter_common.c features[]) ---- *)
Bcj == {"x86", "powerpc", "ia64", "arm", "armthumb", "sparc", "arm64", "riscv"}
NonLastOk(id) == id \in Bcj \cup {"delta"}
LastOk(id) == id = "lzma2"
KnownFilter(id) == id \in Bcj \cup {"delta", "lzma2"}
IdLen(id) == IF id = "reserved" THEN 9 ELSE 1          \* "reserved": an ID >= 2^62 needs 9 bytes
FilterLen(f) == EncLen(IdLen(f.id), f.idv) + EncLen(1, f.psv) + f.plen     \* Filter ID, Size of Properties, Properties
FX(id, plen, pok) == [id |-> id, plen |-> plen, pok |-> pok, idv |-> "ok", psv |-> "ok"]
F(id, plen) == FX(id, plen, TRUE)

(* ---- real sizes of the parts of a Block ---- *)
SizeLen(x) == IF x.p THEN EncLen(VliLenT(x.v, x.big), IF x.vli THEN "ok" ELSE x.vc) ELSE 0
HdrBody(B) == 2 + SizeLen(B.cs) + SizeLen(B.us) + SumSeq([k \in 1..Len(B.filters) |-> FilterLen(B.filters[k])])
HdrReal(B) == HdrBody(B) + B.hpad + 4                   \* bytes really occupied by the header as written
DataReal(B) == SumSeq([k \in 1..Len(B.chunks) |-> IF B.chunks[k].k = "end" THEN 1 ELSE B.chunks[k].c])
DataOut(B)  == SumSeq([k \in 1..Len(B.chunks) |-> IF B.chunks[k].k = "end" THEN 0 ELSE B.chunks[k].n])
BlockPadLen(B) == Pad4(DataReal(B))
BlockReal(B, check) == HdrReal(B) + DataReal(B) + BlockPadLen(B) + CheckSize(check)
Unpadded(B, check) == HdrReal(B) + DataReal(B) + CheckSize(check)

(* the VLIs of the Index in file order: position 1 = Number of Records, 2k = Unpadded Size, 2k + 1 = Uncompressed Size of Record k *)
IvCls(S, pos) == IF ~S.ivli /\ S.ivpos = pos THEN S.ivcls ELSE "ok"
CountLen(S) == EncLen(VliLenT(S.icount, S.icb), IvCls(S, 1))
RecLen(S, k) == EncLen(VliLenT(S.irecs[k].u, S.irecs[k].ub), IvCls(S, 2 * k)) + EncLen(VliLenT(S.irecs[k].n, S.irecs[k].nb), IvCls(S, 2 * k + 1))
IndexBody(S) == 1 + CountLen(S) + SumSeq([k \in 1..Len(S.irecs) |-> RecLen(S, k)])
(* Index Padding as a decoder computes it: from the VALUES (their minimal encoded sizes).  A file with a malformed  *)
(* (longer) VLI in its Index is written with exactly that padding and with the Backward Size of the minimal Index,  *)
(* so that the malformed integer is the ONLY thing wrong with it.                                                   *)
IndexBodyMin(S) == 1 + VliLenT(S.icount, S.icb) + SumSeq([k \in 1..Len(S.irecs) |-> VliLenT(S.irecs[k].u, S.irecs[k].ub) + VliLenT(S.irecs[k].n, S.irecs[k].nb)])
IndexPad(S) == Pad4(IndexBodyMin(S))
IndexReal(S) == IndexBody(S) + IndexPad(S) + 4
IndexRealMin(S) == IndexBodyMin(S) + IndexPad(S) + 4
StreamReal(S) == 12 + SumSeq([k \in 1..Len(S.blocks) |-> BlockReal(S.blocks[k], S.check)]) + IndexReal(S) + 12
FileReal(file) == SumSeq([k \in 1..Len(file.streams) |-> StreamReal(file.streams[k]) + file.streams[k].pad])

(* ---- the sequence of fields with their lengths, in file order (field map) ---- *)
Fld(s, b, f, len) == [s |-> s, b |-> b, f |-> f, len |-> len]
BlockFields(s, b, B, check) ==
    <<Fld(s, b, "bh.size", 1), Fld(s, b, "bh.flags", 1), Fld(s, b, "bh.cs", SizeLen(B.cs)), Fld(s, b, "bh.us", SizeLen(B.us)),
      Fld(s, b, "bh.filters", SumSeq([k \in 1..Len(B.filters) |-> FilterLen(B.filters[k])])),
      Fld(s, b, "bh.padding", B.hpad), Fld(s, b, "bh.crc32", 4),
      Fld(s, b, "b.data", DataReal(B)), Fld(s, b, "b.padding", BlockPadLen(B)), Fld(s, b, "b.check", CheckSize(check))>>
RECURSIVE ConcatAll(_)
ConcatAll(qq) == IF qq = <<>> THEN <<>> ELSE Head(qq) \o ConcatAll(Tail(qq))
StreamFields(s, S) ==
    <<Fld(s, 0, "h.magic", 6), Fld(s, 0, "h.flags", 2), Fld(s, 0, "h.crc32", 4)>>
    \o ConcatAll([b \in 1..Len(S.blocks) |-> BlockFields(s, b, S.blocks[b], S.check)])
    \o <<Fld(s, 0, "i.indicator", 1), Fld(s, 0, "i.count", CountLen(S)),
         Fld(s, 0, "i.records", IndexBody(S) - 1 - CountLen(S)), Fld(s, 0, "i.padding", IndexPad(S)),
         Fld(s, 0, "i.crc32", 4),
         Fld(s, 0, "f.crc32", 4), Fld(s, 0, "f.backward_size", 4), Fld(s, 0, "f.flags", 2), Fld(s, 0, "f.magic", 2),
         Fld(s, 0, "s.padding", S.pad)>>
AllFields(file) == ConcatAll([s \in 1..Len(file.streams) |-> StreamFields(s, file.streams[s])])
Fields(file) == SelectSeq(AllFields(file), LAMBDA x : x.len > 0)
FieldOffset(file, k) == SumSeq([j \in 1..(k - 1) |-> Fields(file)[j].len])

(* ------------------------------------------------------------------------ *)
(* Constructors: a VALID Block / Stream from choices; everything derived is  *)
(* given its true value.                                                      *)
(* ------------------------------------------------------------------------ *)
Absent == [p |-> FALSE, v |-> 0, vli |-> TRUE, vc |-> "ok", big |-> ""]
Present(v) == [p |-> TRUE, v |-> v, vli |-> TRUE, vc |-> "ok", big |-> ""]
Rec(u, n) == [u |-> u, n |-> n, ub |-> "", nb |-> ""]
MkBlock(did, chunks, hasCs, hasUs, filters, extraPad) ==
    LET b0 == [hsz |-> 0, resv |-> FALSE, cs |-> Absent, us |-> Absent, filters |-> filters, fits |-> TRUE,
               hpad |-> 0, hpadz |-> TRUE, hcrc |-> TRUE, chunks |-> chunks, did |-> did, bpadz |-> TRUE, chk |-> TRUE]
        b1 == [b0 EXCEPT !.cs = IF hasCs THEN Present(DataReal(b0)) ELSE Absent,
                         !.us = IF hasUs THEN Present(DataOut(b0)) ELSE Absent]
        b2 == [b1 EXCEPT !.hpad = Pad4(HdrBody(b1)) + extraPad]
    IN [b2 EXCEPT !.hsz = HdrReal(b2)]
MkStream(check, blocks, pad) ==
    LET s0 == [hmagic |-> TRUE, hvers |-> TRUE, hcrc |-> TRUE, check |-> check, blocks |-> blocks,
               icount |-> Len(blocks),
               irecs |-> [k \in 1..Len(blocks) |-> Rec(Unpadded(blocks[k], check), DataOut(blocks[k]))],
               ivli |-> TRUE, ivpos |-> 0, ivcls |-> "ok", icb |-> "", ipadz |-> TRUE, icrc |-> TRUE,
               fcrc |-> TRUE, fvers |-> TRUE, fmagic |-> TRUE, fcheck |-> check, fbs |-> 0, fbb |-> "", pad |-> pad]
    IN [s0 EXCEPT !.fbs = IndexRealMin(s0)]
=============================================================================
