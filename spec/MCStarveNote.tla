---------------------------- MODULE MCStarveNote -----------------------------
(* Starve on the notification inputs; Stuck = TRUE is the coder that returns   *)
(* the notification before advancing its sequence (must violate StallBounded   *)
(* and StarveLive).                                                            *)
EXTENDS Starve
CONSTANT Stuck
NoteInputs == {[i EXCEPT !.opt.noteStuck = Stuck] : i \in XzNotes}
=============================================================================
