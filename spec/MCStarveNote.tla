---------------------------- MODULE MCStarveNote -----------------------------
(* Starve on the notification inputs; Stuck = TRUE is the coder that returns   *)
(* the notification before advancing its sequence (must violate StallBounded   *)
(* and StarveLive).                                                            *)
EXTENDS Starve
CONSTANT Stuck
\* inputs that run into an internal limit of the coder while more input is present (the caller keeps offering both)
StopInputs == {Mk(<<FBuf(2, "OK"), FSym(1, 1, "OK"), FSym(2, 2, "OK"), FStop>>, h, Opt0) : h \in 5..8}
              \cup {Mk(<<FByte(1, 0, TRUE, "OK"), FStop>>, 3, Opt0)}
\* one complete member: enough for the wrapper weakness of MCStarveLazy.cfg (violates StarveLive)
SmallInputs == {Whole(LzV, Opt0), Mk(LzV, 5, Opt0)}
NoteInputs == {[i EXCEPT !.opt.noteStuck = Stuck] : i \in XzNotes}
=============================================================================
