SPECIFICATION Spec
CONSTANTS MaxChunks = 3 Variant = "ok"
ACTION_CONSTRAINT Emit
CHECK_DEADLOCK FALSE
