------------------------- MODULE XzStreamEncContract -------------------------
(* Property C12 stated on its own.  Two monitors watch what leaves the       *)
(* encoder model; neither looks at the encoder's sequence variables:         *)
(*                                                                           *)
(*  d  an abstract DECODER reading the token stream (tok): the container     *)
(*     grammar of the .xz document (Stream Header, Blocks, Index, Footer),   *)
(*     the LZMA2 chunk rules (dictionary reset first, properties after a     *)
(*     dictionary reset, state reset / new properties only where the control *)
(*     byte says so) and whether the LZMA state and lc/lp/pb the payload was *)
(*     coded with are the ones the decoder has at that point.  d.decodable   *)
(*     is the number of input bytes it has reproduced.                       *)
(*  m  the APPLICATION's notebook: what it was told (return codes), which    *)
(*     filter chain / properties it successfully asked for.                  *)
(*                                                                           *)
(* MCXzStreamEnc checks  XzStreamEnc => [][ContractStep]_vars  and the       *)
(* invariants below.                                                         *)
EXTENDS XzStreamEnc

VARIABLES d, m
mvars == <<d, m>>

D0(config) == [phase |-> CASE config.enc \in {"stream", "mt"} -> "start" [] config.enc = "block" -> "inblock" [] OTHER -> "raw",
               needDict |-> TRUE, needProps |-> TRUE, props |-> "nil", sync |-> FALSE,
               pre |-> config.chain0.pre,        \* the non-last filter the decoder applies (from the Block Header)
               bad |-> FALSE, decodable |-> 0, dblocks |-> <<>>, dsum |-> 0]
M0(config) == [ended |-> FALSE, fatal |-> FALSE, wantChain |-> config.chain0, wantProps |-> config.chain0.props,
               anyBlk |-> FALSE]     \* a change was refused inside the open Block: its lc/lp/pb may or may not have been taken
MInit == d = D0(cfg) /\ m = M0(cfg)
MResetTo(config) == d' = D0(config) /\ m' = M0(config)

Bad(x) == [x EXCEPT !.bad = TRUE]

\* the decoder reads token t; g = input bytes accepted by the encoder at that moment
Decode(x, t, g) ==
    CASE t.kind = "none" -> x
      [] t.kind = "stream_header" ->
            IF x.phase = "start" THEN [x EXCEPT !.phase = "blocks"] ELSE Bad(x)
      [] t.kind = "block_header" ->
            IF x.phase = "blocks"
            THEN [x EXCEPT !.phase = "inblock", !.needDict = TRUE, !.needProps = TRUE, !.props = "nil", !.sync = FALSE,
                           !.pre = t.chain.pre]
            ELSE Bad(x)
      [] t.kind = "lzma" ->
            IF x.phase \notin {"inblock", "raw"} THEN Bad(x)
            ELSE LET formatOk == (x.needDict => t.reset = "all") /\ (x.needProps => t.reset \in {"props", "all"})
                     props1 == IF t.reset \in {"props", "all"} THEN t.hprops ELSE x.props
                     \* decoder state = encoder state at the first symbol of the chunk?
                     sync1 == IF t.reset # "none" THEN t.efresh ELSE (~t.efresh /\ x.sync)
                     ok == formatOk /\ sync1 /\ props1 = t.eprops /\ t.pre = x.pre
                 IN  [x EXCEPT !.needDict = FALSE, !.needProps = FALSE, !.props = props1, !.sync = ok,
                               !.bad = x.bad \/ ~ok,
                               !.decodable = IF ok /\ ~x.bad /\ t.allOut THEN g ELSE @]
      [] t.kind = "unc" ->
            IF x.phase \notin {"inblock", "raw"} THEN Bad(x)
            ELSE LET ok == (x.needDict => t.dictReset) /\ t.pre = x.pre
                 IN  [x EXCEPT !.needDict = FALSE, !.needProps = x.needProps \/ t.dictReset,
                               \* the encoder ran its LZMA coder over these bytes, the decoder does not
                               !.sync = FALSE,
                               !.bad = x.bad \/ ~ok,
                               !.decodable = IF ok /\ ~x.bad /\ t.allOut THEN g ELSE @]
      [] t.kind = "lzma2_end" ->
            IF x.phase = "inblock" /\ t.allOut THEN [x EXCEPT !.phase = "blockend"]
            ELSE IF x.phase = "raw" /\ t.allOut THEN [x EXCEPT !.phase = "done"]
            ELSE Bad(x)
      [] t.kind = "lzma1_end" ->
            IF x.phase = "raw" /\ t.allOut THEN [x EXCEPT !.phase = "done", !.decodable = IF x.bad THEN @ ELSE g]
            ELSE Bad(x)
      [] t.kind = "block_end" ->
            IF x.phase = "blockend" /\ t.allOut
            THEN [x EXCEPT !.phase = IF cfg.enc = "block" THEN "done" ELSE "blocks",
                           !.dblocks = Append(@, g - x.dsum), !.dsum = g]
            ELSE Bad(x)
      [] t.kind = "mt_block" ->
            IF x.phase = "blocks"
            THEN [x EXCEPT !.dblocks = Append(@, t.n), !.dsum = @ + t.n,
                           !.decodable = IF x.bad THEN @ ELSE @ + t.n]
            ELSE Bad(x)
      [] t.kind = "index" ->
            IF x.phase = "blocks" /\ Len(t.records) = Len(x.dblocks)
                /\ \A i \in 1..Len(x.dblocks) : t.records[i].n = x.dblocks[i]
            THEN [x EXCEPT !.phase = "index"] ELSE Bad(x)
      [] t.kind = "stream_footer" ->
            IF x.phase = "index" THEN [x EXCEPT !.phase = "done"] ELSE Bad(x)

NonFatalRets == {"OK", "STREAM_END", "BUF_ERROR"}

Note(x, e, t) ==
    CASE e.kind = "op" ->
            [x EXCEPT !.ended = @ \/ (e.ret = "STREAM_END" /\ e.a = "FINISH"),
                      !.fatal = @ \/ (obs'.innerRan /\ e.ret \notin NonFatalRets)]
      [] e.kind = "update" ->
            IF e.ret = "OK" THEN [x EXCEPT !.wantChain = e.target, !.wantProps = e.target.props, !.anyBlk = FALSE]
            ELSE IF e.open THEN [x EXCEPT !.wantProps = "any", !.anyBlk = TRUE] ELSE x
      \* a new Block starts with the lc/lp/pb of the chain last accepted (they are not in the Block Header)
      [] t.kind = "block_header" -> [x EXCEPT !.wantProps = IF x.anyBlk THEN "any" ELSE x.wantChain.props]
      [] t.kind = "block_end" -> [x EXCEPT !.anyBlk = FALSE]
      [] OTHER -> x

MStep == /\ d' = Decode(d, tok', Given')
         /\ m' = Note(m, ev', tok')

\* ---------------------------------------------------------------- the property
\* A chain that cannot honour a sync flush
CannotSync == fl.pre = "x86" \/ fl.lz = "lzma1"

FlushDone(e) == e.kind = "op" /\ e.ret = "STREAM_END" /\ ~m.ended

ContractStep ==
    LET e == ev' IN
    \* (1) a completed sync / full flush: everything accepted so far is decodable from the output so far
    /\ (FlushDone(e) /\ (e.a \in {"SYNC_FLUSH", "FULL_FLUSH"} \/ (e.a = "FULL_BARRIER" /\ cfg.enc # "mt")))
          => (d'.decodable = totalIn' /\ ~d'.bad)
    \* (2) full flush / barrier: no Block is open, all input is in Blocks, none of them empty
    /\ (FlushDone(e) /\ e.a \in {"FULL_FLUSH", "FULL_BARRIER"})
          => (~OpenBlock' /\ TotalBlockBytes' + MtSum(mt'.q) = totalIn')
    \* (3) finish: one complete Stream (raw: one complete payload) that decodes to everything
    /\ (FlushDone(e) /\ e.a = "FINISH")
          => (d'.phase = "done" /\ d'.decodable = totalIn' /\ ~d'.bad
              /\ (cfg.enc \in {"stream", "mt"} => d'.dsum = totalIn'))
    \* (4) return codes: the only refusal is LZMA_OPTIONS_ERROR for a sync flush the chain cannot do;
    \*     after a flush the encoder goes on (no other error ever appears)
    /\ e.kind = "op" =>
          IF m.ended THEN e.ret = (IF e.a \in supported THEN "STREAM_END" ELSE "PROG_ERROR")
          ELSE IF m.fatal \/ e.a \notin supported THEN e.ret = "PROG_ERROR"
          ELSE \/ e.ret \in NonFatalRets
               \/ (e.ret = "OPTIONS_ERROR" /\ e.a = "SYNC_FLUSH" /\ CannotSync)
    /\ (e.kind = "op" /\ e.ret = "OK") => e.a = "RUN"
    \* (5) lzma_filters_update
    /\ e.kind = "update" =>
          /\ (~ValidChain(e.target) => e.ret = "OPTIONS_ERROR")
          /\ (~InitOk(e.target) => e.ret # "OK")
          \* a failing allocator is the only source of LZMA_MEM_ERROR, and then nothing has been accepted
          /\ (e.ret = "MEM_ERROR" => e.fail # "none")
          /\ e.ret \in {"OK", "PROG_ERROR", "OPTIONS_ERROR", "MEM_ERROR"}
          \* the chain itself changes only between Blocks; inside a Block only lc/lp/pb
          /\ (e.ret = "OK" /\ e.open) => (cfg.enc # "mt" /\ e.target.pre = fl.pre /\ e.target.lz = fl.lz)
          /\ UNCHANGED lcvars
    \* (6) an accepted change takes effect from that point
    /\ (tok'.kind = "block_header" /\ cfg.enc = "stream") => tok'.chain.pre = m.wantChain.pre
    /\ (tok'.kind = "lzma" /\ m.wantProps # "any") => tok'.eprops = m.wantProps

\* whatever happens (refused flushes, refused or accepted updates): no undecodable byte is ever written
NotBad == ~d.bad
DecodableLeGiven == d.decodable <= Given
NoEmptyBlock == /\ \A i \in 1..Len(blocks) : blocks[i].n > 0
                /\ \A i \in 1..Len(mt.q) : mt.q[i].closed => mt.q[i].n > 0
\* lzma_code() bookkeeping agrees with the application's view
SeqAgrees == /\ (m.ended => seq = "END") /\ (m.fatal => seq = "ERROR")
=============================================================================
