----------------------------- MODULE SliceCoder ------------------------------
(* C06/C04: an abstract *resumable coder* in the liblzma calling convention.  *)
(*                                                                           *)
(* A coder is a deterministic transducer over an abstract input: a sequence  *)
(* of FIELDS, each of which the real decoders consume through one of a small *)
(* number of resume idioms.  One evaluation of Code(inp, c, ai, ao, fin) is  *)
(* one call of next.code(): it is given ai input bytes and ao bytes of       *)
(* output space, runs `while(true) switch(coder->sequence)` until it is      *)
(* blocked or finished, and returns the saved state, the bytes consumed, the *)
(* bytes written and the return code.  Per-field partial progress is the     *)
(* state that the C code saves between calls:                                *)
(*                                                                           *)
(*  "buf"   lzma_bufcpy() into coder->buffer with coder->pos, validated when *)
(*          complete, pos reset to 0 (Stream Header/Footer, Block Header,    *)
(*          Check, .lz trailer: stream_decoder.c, block_decoder.c,           *)
(*          lzip_decoder.c)                                                  *)
(*  "byte"  byte-at-a-time state machine validated as it goes (VLIs of the   *)
(*          Index via vli_decoder.c *vli_pos, Index/Block Padding, LZMA2     *)
(*          chunk headers, the 13 .lzma header bytes); the offending byte is *)
(*          consumed (eat) or not                                            *)
(*  "pad4"  Stream Padding counted mod 4 in coder->pos, needs LZMA_FINISH to *)
(*          know that the input is over (stream_decoder.c SEQ_STREAM_PADDING)*)
(*  "sym"   one LZMA symbol: n range-coder bytes consumed one at a time      *)
(*          (coder->sequence = any SEQ_* inside the symbol), then m bytes    *)
(*          copied from the dictionary as output space allows (SEQ_COPY /    *)
(*          SEQ_*_WRITE).  eopm = the end-of-payload marker.                 *)
(*  "kend"  the point where a KNOWN uncompressed size has been reached       *)
(*          (lzma_decoder.c: might_finish_without_eopm && dict.pos ==        *)
(*          dict.limit): optional normalisation byte, then rc_is_finished    *)
(*          (fin) -> end, else the marker must follow (allow_eopm)           *)
(*                                                                           *)
(* lzma_decode() keeps eopm_is_valid and might_finish_without_eopm in LOCAL  *)
(* variables that are recomputed at every call; they are the `loc` argument  *)
(* of Run below, initialised by Locals() at the start of each call and when  *)
(* a header field hands over to the LZMA decoder, as the C code does.  opt.rederive = TRUE transcribes the tree after       *)
(* 082e325 (validity re-derived when resuming inside a symbol with           *)
(* uncompressed_size == 0 && allow_eopm); FALSE transcribes 5.8.1 as         *)
(* released, where a call that resumes inside the marker has lost it.        *)
(*                                                                           *)
(* opt.bcj = A > 0 puts simple_code() (simple_coder.c) in front of the       *)
(* transducer with an abstract filter that converts whole units of A bytes   *)
(* (a converted byte b is written b + 1000) and holds back the rest.         *)
EXTENDS Naturals, Sequences

Min(a, b) == IF a < b THEN a ELSE b

\* ---------------------------------------------------------------- fields
F0 == [k |-> "buf", n |-> 0, m |-> 0, bad |-> 0, eat |-> TRUE, err |-> "OK", eopm |-> FALSE, fin |-> FALSE, set |-> 0,
       needOut |-> FALSE]
FBuf(n, err)            == [F0 EXCEPT !.k = "buf", !.n = n, !.err = err]
FByte(n, bad, eat, err) == [F0 EXCEPT !.k = "byte", !.n = n, !.bad = bad, !.eat = eat, !.err = err]
\* header bytes that also announce a known uncompressed size s (set = s + 1)
FSize(n, s)             == [F0 EXCEPT !.k = "byte", !.n = n, !.set = s + 1]
\* alone_decoder.c: `while (*out_pos < out_size && ...)`: header bytes are read only if there is output space
FByteO(n, bad, err)     == [F0 EXCEPT !.k = "byte", !.n = n, !.bad = bad, !.err = err, !.needOut = TRUE]
FSym(n, m, err)         == [F0 EXCEPT !.k = "sym", !.n = n, !.m = m, !.err = err]
\* end marker: n bytes up to the `eopm:` label, m (0/1) bytes of rc_normalize at SEQ_EOPM, fin = rc_is_finished
FEopm(n, m, fin)        == [F0 EXCEPT !.k = "sym", !.n = n, !.m = m, !.eopm = TRUE, !.fin = fin]
FKend(n, fin)           == [F0 EXCEPT !.k = "kend", !.n = n, !.fin = fin]
FPad(n)                 == [F0 EXCEPT !.k = "pad4", !.n = n]
\* a notification (LZMA_NO_CHECK / LZMA_UNSUPPORTED_CHECK / LZMA_GET_CHECK) returned once after the header that
\* reveals the Check type (stream_decoder.c, auto_decoder.c, lzip_decoder.c: the sequence is advanced BEFORE returning)
FNote(code)             == [F0 EXCEPT !.k = "note", !.err = code]
\* an internal limit has been reached (MicroLZMA comp_size used up, Compressed Size of a Block reached, file size of
\* the file-info decoder, ...): the coder returns LZMA_OK without touching either buffer, whatever it is offered
FStop                   == [F0 EXCEPT !.k = "stop"]

Opt0 == [bcj |-> 0, allowEopm |-> TRUE, rederive |-> TRUE, noteStuck |-> FALSE]
Notifs == {"NO_CHECK", "UNSUPPORTED_CHECK", "GET_CHECK"}

\* ---------------------------------------------------------------- coder state
SInit == [buf |-> <<>>, pos |-> 0, filtered |-> 0, ended |-> FALSE]
CInit == [fi |-> 1, pos |-> 0, opos |-> 0, stage |-> "in", known |-> FALSE, left |-> 0,
          padmod |-> 0, s |-> SInit]

OutByte(fi, j) == fi * 16 + j            \* j-th output byte (1-based) of field fi
OutBytes(fi, a, b) == [j \in 1..(b - a) |-> OutByte(fi, a + j)]   \* bytes a+1..b

\* lzma_decode(): `bool eopm_is_valid = coder->uncompressed_size == LZMA_VLI_UNKNOWN;`
\* A call that resumes at SEQ_IS_MATCH (no byte of the symbol consumed yet) runs the might_finish_without_eopm
\* block again and sets the local again; a call that resumes inside the symbol does not, unless 082e325:
\* `if (coder->uncompressed_size == 0 && coder->allow_eopm && sequence != SEQ_NORMALIZE && != SEQ_IS_MATCH)`.
Locals(inp, c) ==
    LET atSym     == c.fi <= Len(inp.fields) /\ inp.fields[c.fi].k = "sym"
        atIsMatch == c.stage = "in" /\ c.pos = 0
    IN [ev |-> ~c.known \/ (atSym /\ c.left = 0 /\ inp.opt.allowEopm /\ (atIsMatch \/ inp.opt.rederive))]

Res(c, uin, out, ret) == [c |-> c, uin |-> uin, out |-> out, ret |-> ret]

\* One call of the (innermost) coder.  ai/ao: avail_in / avail_out.  fin: action = LZMA_FINISH.
RECURSIVE Run(_, _, _, _, _, _, _, _)
Run(inp, c, ai, ao, fin, loc, uin, out) ==
    LET F  == inp.fields
        ri == ai - uin
        ro == ao - Len(out)
    IN
    IF c.fi > Len(F) THEN Res(c, uin, out, "STREAM_END")
    ELSE LET f == F[c.fi]
             next == [c EXCEPT !.fi = c.fi + 1, !.pos = 0, !.opos = 0, !.stage = "in",
                               !.known = IF f.set > 0 THEN TRUE ELSE c.known,
                               !.left = IF f.set > 0 THEN f.set - 1 ELSE c.left]
    IN
    CASE f.k = "buf" ->
           LET take == Min(ri, f.n - c.pos) IN
           IF c.pos + take < f.n THEN Res([c EXCEPT !.pos = c.pos + take], uin + take, out, "OK")
           ELSE IF f.err # "OK" THEN Res([c EXCEPT !.pos = 0], uin + take, out, f.err)
           ELSE Run(inp, next, ai, ao, fin, Locals(inp, next), uin + take, out)
      [] f.k = "byte" ->
           IF f.needOut /\ ro = 0 THEN Res(c, uin, out, "OK")
           ELSE
           LET goodN == IF f.bad = 0 THEN f.n ELSE f.bad - 1
               take  == Min(ri, goodN - c.pos)
           IN IF c.pos + take < goodN THEN Res([c EXCEPT !.pos = c.pos + take], uin + take, out, "OK")
              ELSE IF f.bad # 0
                   THEN IF ri - take = 0 THEN Res([c EXCEPT !.pos = c.pos + take], uin + take, out, "OK")
                        ELSE Res([c EXCEPT !.pos = c.pos + take], uin + take + (IF f.eat THEN 1 ELSE 0), out, f.err)
                   ELSE Run(inp, next, ai, ao, fin, Locals(inp, next), uin + take, out)
      [] f.k = "note" ->
           \* opt.noteStuck: the sequence is NOT advanced before the early return (every call reports it again)
           Res(IF inp.opt.noteStuck THEN c ELSE next, uin, out, f.err)
      [] f.k = "stop" -> Res(c, uin, out, "OK")
      [] f.k = "pad4" ->
           \* zero bytes c.pos+1..f.n of this field, then either the end of the input or a non-zero byte
           LET zeros == Min(ri, f.n - c.pos)
               c1 == [c EXCEPT !.pos = c.pos + zeros, !.padmod = (c.padmod + zeros) % 4]
           IN IF ri - zeros = 0
              THEN IF ~fin THEN Res(c1, uin + zeros, out, "OK")
                   ELSE Res(c1, uin + zeros, out, IF c1.padmod = 0 THEN "STREAM_END" ELSE "DATA_ERROR")
              ELSE \* a non-zero byte follows (c1.pos = f.n necessarily)
                   IF c1.padmod # 0 THEN Res(c1, uin + zeros + 1, out, "DATA_ERROR")
                   ELSE Run(inp, [next EXCEPT !.padmod = 0], ai, ao, fin, loc, uin + zeros, out)
      [] f.k = "kend" ->
           \* case SEQ_NORMALIZE / SEQ_IS_MATCH with might_finish_without_eopm && dict.pos == dict.limit
           LET take == Min(ri, f.n - c.pos) IN
           IF c.pos + take < f.n THEN Res([c EXCEPT !.pos = c.pos + take], uin + take, out, "OK")
           ELSE IF f.fin THEN Run(inp, [next EXCEPT !.known = FALSE], ai, ao, fin, loc, uin + take, out)
           ELSE IF ~inp.opt.allowEopm THEN Res([c EXCEPT !.pos = c.pos + take], uin + take, out, "DATA_ERROR")
           ELSE Run(inp, next, ai, ao, fin, [loc EXCEPT !.ev = TRUE], uin + take, out)
      [] f.k = "sym" /\ c.stage = "in" ->
           LET take == Min(ri, f.n - c.pos) IN
           IF c.pos + take < f.n THEN Res([c EXCEPT !.pos = c.pos + take], uin + take, out, "OK")
           ELSE IF f.eopm
                THEN IF ~loc.ev THEN Res([c EXCEPT !.pos = c.pos + take], uin + take, out, "DATA_ERROR")
                     ELSE Run(inp, [c EXCEPT !.pos = 0, !.stage = "eopmnorm"], ai, ao, fin, loc, uin + take, out)
           ELSE IF f.err # "OK" THEN Res([c EXCEPT !.pos = c.pos + take], uin + take, out, f.err)
           ELSE Run(inp, [c EXCEPT !.pos = 0, !.stage = "out"], ai, ao, fin, loc, uin + take, out)
      [] f.k = "sym" /\ c.stage = "eopmnorm" ->
           \* case SEQ_EOPM: rc_normalize_safe(SEQ_EOPM); ret = rc_is_finished ? STREAM_END : DATA_ERROR
           LET take == Min(ri, f.m - c.pos) IN
           IF c.pos + take < f.m THEN Res([c EXCEPT !.pos = c.pos + take], uin + take, out, "OK")
           ELSE IF ~f.fin THEN Res(c, uin + take, out, "DATA_ERROR")
           ELSE Run(inp, [next EXCEPT !.known = FALSE], ai, ao, fin, loc, uin + take, out)
      [] f.k = "sym" /\ c.stage = "out" ->
           \* dict_repeat / dict_put_safe up to dict.limit = min(output space, remaining known size)
           LET room == IF c.known THEN Min(ro, c.left) ELSE ro
               k    == Min(room, f.m - c.opos)
               c1   == [c EXCEPT !.opos = c.opos + k, !.left = IF c.known THEN c.left - k ELSE c.left]
               o1   == out \o OutBytes(c.fi, c.opos, c.opos + k)
           IN IF c1.opos < f.m
              THEN \* blocked in SEQ_COPY / SEQ_*_WRITE; `if (uncompressed_size == 0 && ...) ret = LZMA_DATA_ERROR`
                   IF c1.known /\ c1.left = 0 THEN Res(c1, uin, o1, "DATA_ERROR")
                   ELSE Res(c1, uin, o1, "OK")
              ELSE Run(inp, [next EXCEPT !.left = c1.left], ai, ao, fin, loc, uin, o1)

Inner(inp, c, ai, ao, fin) == Run(inp, c, ai, ao, fin, Locals(inp, c), 0, <<>>)

\* ---------------------------------------------------------------- simple_code() in front of Inner
Conv(bytes, A) ==      \* call_filter(): converts whole units, returns the converted prefix length
    LET nf == Len(bytes) - (Len(bytes) % A)
    IN [n |-> nf, bytes |-> [i \in 1..Len(bytes) |-> IF i <= nf THEN bytes[i] + 1000 ELSE bytes[i]]]
Take(seq, n) == SubSeq(seq, 1, n)
Drop(seq, n) == SubSeq(seq, n + 1, Len(seq))

Simple(inp, c0, ai, ao, fin) ==
    LET A  == inp.opt.bcj
        s0 == c0.s
        \* 1: flush already filtered data from coder->buffer
        n1   == IF s0.pos < s0.filtered THEN Min(s0.filtered - s0.pos, ao) ELSE 0
        out1 == SubSeq(s0.buf, s0.pos + 1, s0.pos + n1)
        pos1 == s0.pos + n1
    IN IF s0.pos < s0.filtered /\ pos1 < s0.filtered
       THEN Res([c0 EXCEPT !.s.pos = pos1], 0, out1, "OK")
       ELSE IF s0.pos < s0.filtered /\ s0.ended
       THEN Res([c0 EXCEPT !.s.pos = pos1], 0, out1, "STREAM_END")
       ELSE
    LET outAvail == ao - n1
        bufAvail == Len(s0.buf) - pos1
        direct   == outAvail > bufAvail \/ bufAvail = 0
        \* 2a: unfiltered tail to out[], then next.code() writes to out[] directly
        rA   == IF direct THEN Inner(inp, c0, ai, outAvail - bufAvail, fin) ELSE Res(c0, 0, <<>>, "OK")
        endA == rA.ret = "STREAM_END"
        errA == rA.ret \notin {"OK", "STREAM_END"}
        work == Drop(s0.buf, pos1) \o rA.out
        fA   == Conv(work, A)
        keep == IF endA THEN Len(work) ELSE fA.n
        sA   == IF direct THEN [buf |-> IF endA THEN <<>> ELSE Drop(fA.bytes, fA.n), pos |-> 0, filtered |-> 0, ended |-> endA]
                ELSE [s0 EXCEPT !.buf = Drop(s0.buf, pos1), !.pos = 0, !.filtered = 0]
        outA == IF direct THEN out1 \o Take(fA.bytes, keep) ELSE out1
    IN IF errA
       \* `if (ret != LZMA_OK) return ret;` with *out_pos already advanced over unconverted bytes
       THEN Res([rA.c EXCEPT !.s = s0], rA.uin, out1 \o work, rA.ret)
       ELSE
    LET \* 3: the buffer is not empty: next.code() into coder->buffer (allocated = 2A), filter, copy out
        roomA == ao - Len(outA)
        rB    == IF Len(sA.buf) > 0 THEN Inner(inp, rA.c, ai - rA.uin, 2 * A - Len(sA.buf), fin)
                 ELSE Res(rA.c, 0, <<>>, "OK")
        endB  == sA.ended \/ rB.ret = "STREAM_END"
        errB  == rB.ret \notin {"OK", "STREAM_END"}
        work3 == sA.buf \o rB.out
        fB    == Conv(work3, A)
        filt3 == IF endB THEN Len(work3) ELSE fB.n
        n3    == Min(filt3, roomA)
        sB    == [buf |-> fB.bytes, pos |-> n3, filtered |-> filt3, ended |-> endB]
        sF    == IF Len(sA.buf) > 0 THEN sB ELSE sA
        outF  == IF Len(sA.buf) > 0 THEN outA \o Take(fB.bytes, n3) ELSE outA
    IN IF errB THEN Res([rB.c EXCEPT !.s = [sA EXCEPT !.buf = work3]], rA.uin + rB.uin, outA, rB.ret)
       ELSE Res([rB.c EXCEPT !.s = sF], rA.uin + rB.uin, outF,
                IF sF.ended /\ sF.pos = Len(sF.buf) THEN "STREAM_END" ELSE "OK")

Code(inp, c, ai, ao, fin) == IF inp.opt.bcj = 0 THEN Inner(inp, c, ai, ao, fin) ELSE Simple(inp, c, ai, ao, fin)

\* ---------------------------------------------------------------- one-shot observation
RECURSIVE SumM(_, _)
SumM(F, i) == IF i > Len(F) THEN 0 ELSE (IF F[i].k = "sym" /\ ~F[i].eopm THEN F[i].m ELSE 0) + SumM(F, i + 1)
OutTotal(inp) == SumM(inp.fields, 1)
Big(inp) == OutTotal(inp) + 2 * inp.opt.bcj + 1

\* a notification is part of the observation: which one and after how many input bytes
NoteMark(code, tin) == 9000 + 100 * (CASE code = "NO_CHECK" -> 1 [] code = "UNSUPPORTED_CHECK" -> 2 [] OTHER -> 3) + tin

\* The whole input and unlimited output space with LZMA_FINISH, through the allow_buf_error rule of lzma_code().
RECURSIVE OS(_, _, _, _, _)
OS(inp, c, tin, out, stalled) ==
    LET r == Code(inp, c, inp.have - tin, Big(inp), TRUE)
        noProg == r.uin = 0 /\ Len(r.out) = 0
    IN IF r.ret \in Notifs /\ r.c = c THEN <<out, "STUCK", tin>>      \* (only with opt.noteStuck)
       ELSE IF r.ret \in Notifs THEN OS(inp, r.c, tin + r.uin, out \o r.out \o <<NoteMark(r.ret, tin + r.uin)>>, FALSE)
       ELSE IF r.ret # "OK" THEN <<out \o r.out, r.ret, tin + r.uin>>
       ELSE IF noProg /\ stalled THEN <<out, "BUF_ERROR", tin>>
       ELSE OS(inp, r.c, tin + r.uin, out \o r.out, noProg)
OneShot(inp) == OS(inp, CInit, 0, <<>>, FALSE)
=============================================================================
