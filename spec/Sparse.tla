-------------------------------- MODULE Sparse -------------------------------
(* Transcription of the output side of xz (src/xz/file_io.c, POSIX branch):  *)
(*   io_open_dest_real()  -> OpenDest   (F_GETFL / O_NONBLOCK, the decision  *)
(*                           whether holes may be created, O_APPEND          *)
(*                           emulation: lseek(END) + clearing O_APPEND)      *)
(*   io_write()           -> Write      (full all-zero buffers only add to   *)
(*                           dest_pending_sparse; lseek over the pending     *)
(*                           hole before the next data)                      *)
(*   io_write_buf()       -> the write(2) calls                              *)
(*   io_close()           -> Close      (lseek(pending - 1) + one zero byte) *)
(*   io_close_dest()      -> restoring the file status flags                 *)
(* together with the kernel's semantics of write / lseek on a regular file   *)
(* (O_APPEND writes go to the end; seeking past the end and writing leaves a *)
(* hole that reads as zeros).                                                *)
(*                                                                           *)
(* B is IO_BUFFER_SIZE.  A buffer is [len |-> 1..B, zero |-> all bytes 0,    *)
(* bytes |-> the bytes (only when TrackContent)].  With TrackContent the     *)
(* file is a sequence of byte values and SparseContract can be stated; the   *)
(* trace specification runs with B = 8192 and TrackContent = FALSE (sizes,   *)
(* offsets, flags and the system calls only).                                *)
EXTENDS Naturals, Sequences

CONSTANTS B, TrackContent

VARIABLES
    file,        \* content of the regular file (sequence of byte values) when tracked
    size,        \* st_size of the sink (0 for a pipe)
    off,         \* file offset of the descriptor
    flAppend,    \* O_APPEND currently set on the open file description
    flNonblock,  \* O_NONBLOCK currently set
    kind,        \* "newfile" | "stdout_reg" | "stdout_pipe"
    trySparse,   \* pair->dest_try_sparse
    pending,     \* pair->dest_pending_sparse
    restore,     \* restore_stdout_flags
    saved,       \* stdout_flags as read by F_GETFL: [append, nonblock]
    sys,         \* system calls issued since the last step (for the trace binding)
    written,     \* history: all bytes handed to io_write so far (when tracked)
    pc
svars == <<file, size, off, flAppend, flNonblock, kind, trySparse, pending, restore, saved, sys, written, pc>>

Zeros(n) == [i \in 1..n |-> 0]

(* ---- kernel: write(2) of n bytes `bytes`, the descriptor's offset being cur *)
(* a pipe only accumulates; O_APPEND moves the position to the end first;    *)
(* writing beyond the end fills the gap with zeros (a hole)                  *)
KWriteAt(cur, n, bytes) ==
    LET pos == IF kind = "stdout_pipe" \/ flAppend THEN size ELSE cur IN
    /\ off' = pos + n
    /\ size' = IF pos + n > size THEN pos + n ELSE size
    /\ IF TrackContent
       THEN LET padded == IF pos > Len(file) THEN file \o Zeros(pos - Len(file)) ELSE file IN
            file' = SubSeq(padded, 1, pos) \o bytes
                       \o (IF pos + n < Len(padded) THEN SubSeq(padded, pos + n + 1, Len(padded)) ELSE <<>>)
       ELSE UNCHANGED file

(* ---- io_open_dest_real() --------------------------------------------------*)
(* sparseOpt: try_sparse (no --no-sparse);  decompress: opt_mode == MODE_DECOMPRESS *)
OpenDest(sparseOpt, decompress) ==
    /\ pc = "open"
    /\ UNCHANGED <<file, size, kind, pending, written>>
    /\ pc' = "write"
    /\ IF kind = "newfile"
       THEN \* created with O_EXCL: empty, offset 0, no O_APPEND; never uses the stdout flags
            /\ UNCHANGED <<off, flAppend, flNonblock, restore, saved>>
            /\ trySparse' = (sparseOpt /\ decompress)
            /\ sys' = <<>>
       ELSE LET sv  == [append |-> flAppend, nonblock |-> flNonblock]       \* stdout_flags = fcntl(F_GETFL)
                nb  == ~flNonblock                                          \* F_SETFL(flags | O_NONBLOCK) needed
                s1  == <<[call |-> "getfl", append |-> flAppend, nonblock |-> flNonblock]>>
                        \o (IF nb THEN <<[call |-> "setfl", append |-> flAppend, nonblock |-> TRUE]>> ELSE <<>>)
            IN
            /\ saved' = sv
            /\ IF ~(sparseOpt /\ decompress) \/ kind # "stdout_reg"
               THEN \* not a regular file, or sparse output not wanted
                    /\ flNonblock' = TRUE /\ restore' = nb /\ UNCHANGED <<off, flAppend>>
                    /\ trySparse' = FALSE /\ sys' = s1
               ELSE IF flAppend
               THEN \* lseek(STDOUT, 0, SEEK_END); F_SETFL(stdout_flags & ~O_APPEND [| O_NONBLOCK])
                    /\ off' = size /\ flAppend' = FALSE /\ flNonblock' = (flNonblock \/ nb)
                    /\ restore' = TRUE /\ trySparse' = TRUE
                    /\ sys' = s1 \o <<[call |-> "lseek", whence |-> "END", arg |-> 0, ret |-> size],
                                     [call |-> "setfl", append |-> FALSE, nonblock |-> (flNonblock \/ nb)]>>
               ELSE \* lseek(STDOUT, 0, SEEK_CUR) != st_size -> no sparse
                    /\ flNonblock' = TRUE /\ restore' = nb /\ UNCHANGED <<off, flAppend>>
                    /\ trySparse' = (off = size)
                    /\ sys' = s1 \o <<[call |-> "lseek", whence |-> "CUR", arg |-> 0, ret |-> off]>>

(* ---- io_write(pair, buf, size) ---------------------------------------------*)
Write(buf) ==
    /\ pc = "write"
    /\ UNCHANGED <<kind, trySparse, restore, saved, flAppend, flNonblock, pc>>
    /\ written' = IF TrackContent THEN written \o buf.bytes ELSE written
    /\ IF trySparse /\ buf.len = B /\ buf.zero
       THEN \* a full all-zero buffer: only remember it
            /\ pending' = pending + buf.len
            /\ UNCHANGED <<file, size, off>> /\ sys' = <<>>
       ELSE IF trySparse /\ buf.len = 0
       THEN UNCHANGED <<file, size, off, pending>> /\ sys' = <<>>
       ELSE IF trySparse /\ pending > 0
       THEN \* lseek(dest_fd, pending, SEEK_CUR), then the data
            /\ pending' = 0
            /\ LET o1 == off + pending IN
               /\ sys' = <<[call |-> "lseek", whence |-> "CUR", arg |-> pending, ret |-> o1],
                           [call |-> "write", len |-> buf.len, zero |-> buf.zero]>>
               /\ KWriteAt(o1, buf.len, buf.bytes)
       ELSE /\ UNCHANGED pending
            /\ IF buf.len = 0 THEN UNCHANGED <<file, size, off>> /\ sys' = <<>>
               ELSE KWriteAt(off, buf.len, buf.bytes) /\ sys' = <<[call |-> "write", len |-> buf.len, zero |-> buf.zero]>>

(* ---- io_close(pair, success) + io_close_dest() -----------------------------*)
Close(success) ==
    /\ pc = "write"
    /\ pc' = "closed"
    /\ UNCHANGED <<kind, trySparse, saved, written>>
    /\ LET tail == success /\ trySparse /\ pending > 0
           o1   == off + (pending - 1)
           s1   == IF tail THEN <<[call |-> "lseek", whence |-> "CUR", arg |-> pending - 1, ret |-> o1],
                                  [call |-> "write", len |-> 1, zero |-> TRUE]>> ELSE <<>>
           s2   == IF restore THEN <<[call |-> "setfl", append |-> saved.append, nonblock |-> saved.nonblock]>> ELSE <<>>
       IN
       /\ sys' = s1 \o s2
       /\ pending' = pending
       /\ IF tail THEN KWriteAt(o1, 1, <<0>>) ELSE UNCHANGED <<file, size, off>>
       /\ IF restore THEN flAppend' = saved.append /\ flNonblock' = saved.nonblock /\ restore' = FALSE
          ELSE UNCHANGED <<flAppend, flNonblock, restore>>
=============================================================================
