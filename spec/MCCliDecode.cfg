SPECIFICATION Spec
INVARIANTS ExitReportsError WarningOnlyXz StdoutIsDecoded FileOnlyIfValid SourceIndependent BoundaryIndependent StreamPositionIndependent
CHECK_DEADLOCK FALSE
