SPECIFICATION Spec
INVARIANTS ExitReportsError WarningOnlyXz StdoutIsDecoded FileOnlyIfValid
CONSTRAINT Emit
CHECK_DEADLOCK FALSE
