SPECIFICATION Spec
CONSTANTS Seed = 0 MaxPlans = 0
 DimNames <- Names
 DimVals <- QuickVals
ACTION_CONSTRAINT Emit
INVARIANT AllCovered
CHECK_DEADLOCK FALSE
