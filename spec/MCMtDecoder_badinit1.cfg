SPECIFICATION Spec
CONSTANTS
 Copies = 1  Pad = 0  Concat = FALSE
 OutOvh = 1
 EarlyTailError = FALSE
 MaxReinit = 0 MemStop = 1000000 MaxRaise = 0 MayFailMain = FALSE Tell = "none"
 CountCalls = TRUE
 NW = 2  HdrSz = 1  TailSz = 1  TailOk = TRUE  Chunk = 1
 Blocks <- B_badinit1
 FileLen = 7
 Timeout = FALSE  FailFast = FALSE  Spurious = FALSE  MemT = 100
 Gives = {0, 1, 100}  Spaces = {0, 1, 100}
 MaxCalls = 10
CONSTRAINT CallBound
VIEW MCView
INVARIANTS OutputIsPrefix TerminalEquivalence BufErrorOnlyWhenStarved NoUseAfterFree FailedWorkerNotReused QueueOk DocumentedCodes EndJoinsAll MemlimitEquivalence TellOncePerStream
