SPECIFICATION GSpec
CONSTANTS Bug = "none"  MaxLen = 6
 Kinds = {"stream_encoder", "easy_encoder", "stream_encoder_mt", "block_encoder", "raw_encoder", "raw_lzma1_encoder",
   "alone_encoder", "index_encoder", "microlzma_encoder", "stream_decoder", "stream_decoder_mt", "auto_decoder",
   "alone_decoder", "lzip_decoder", "raw_decoder", "index_decoder", "block_decoder", "microlzma_decoder",
   "file_info_decoder"}
 Threaded = {"stream_encoder_mt", "stream_decoder_mt"}
 Objs = {"F1", "F2", "I1", "I2", "S1", "H1"}
 Updatable = {"stream_encoder", "easy_encoder", "stream_encoder_mt", "raw_encoder", "block_encoder"}
 OneShots = {"easy_buffer_encode", "stream_buffer_encode", "raw_buffer_encode", "block_buffer_encode",
   "stream_buffer_decode", "raw_buffer_decode"}
 OpNames = {"Init", "CodeAll"}
 SameKind = TRUE
ACTION_CONSTRAINT Emit
CHECK_DEADLOCK FALSE
