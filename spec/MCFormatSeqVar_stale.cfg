SPECIFICATION SSpec
CONSTANTS
 EopmLocalPerCall = FALSE  PickyAcceptsZero = FALSE  AutoFinishAll = FALSE
 MemDictLimbHi = 752
 ChunkSizes = {0, 1}  Profile = "quick"  Sweep = "core"
 ReinitStale = TRUE  SeqLevel = "core"
INVARIANTS MeetsContract NeverUnspecified StopsAtFirstStream
VIEW SView
CHECK_DEADLOCK FALSE
