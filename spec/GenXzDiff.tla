------------------------------ MODULE GenXzDiff -----------------------------
(* C20 (G): plan generator for xzdiff / xzcmp (tlc -simulate): program, option words,    *)
(* `--`, 0..3 operands each with a condition, a content, a suffix and a hostile name     *)
(* class, the state of the suffix-less file of the one-operand form and of stdin; then   *)
(* the XzDiff model runs and its predictions are printed when it reaches pc = "done".    *)
EXTENDS XzDiffContract, TLC, Json

CONSTANT Matrix    \* TRUE: breadth-first enumeration of the suffix matrix instead of random plans

VARIABLES g, cnt, cat, dd, meta
gvars == <<g, cnt, cat, dd, meta>>

\* option words that do not change the verdict (cmp does not know diff's options)
\* "@o" is a hostile option text (xzdiff.in sends options containing a quote through its own copy of "escape")
OptWords == IF prog = "xzcmp" THEN {"-s", "-b", "--silent", "--print-bytes"}
            ELSE {"-q", "-s", "-a", "--text", "-U1", "--brief", "-u", "-b", "--label=@o"}
SpecialWords == {"--help", "--version", "--he", "--vers"}
EscAlpha == {"X", "q", "n", "c"}
RECURSIVE EscSeqs(_)
EscSeqs(n) == IF n = 0 THEN {""} ELSE {s \o a : s \in EscSeqs(n - 1), a \in EscAlpha}
EscClasses == {"esc:" \o s : s \in EscSeqs(2) \cup EscSeqs(3)}
HostileNames == {"plain", "nl", "sq", "dq", "semi", "bs", "amp", "pipe", "subst", "btick", "glob", "colon", "space",
                "sqsubst", "sedmix", "bsend", "dash", "dashopt", "dashsubst"}
NameClasses == HostileNames \cup EscClasses
DashClasses == {"dash", "dashopt", "dashsubst"}
Kinds == {"ok", "ok2", "plain", "missing", "corrupt", "late", "pipe", "kill", "stdin", "big"}
Suffixes(kd) ==
    CASE kd \in {"ok", "ok2"} -> {".xz", ".lzma", ".lz", ".txz", ".tlz", ".gz", ".tgz", "-z", ".bz2", ".tbz2", ".tbz", "-xz", "-gz", ""}
      [] kd = "plain"   -> {"", ".txt", ".xz", ".gz"}
      [] kd = "missing" -> {".xz", "", ".gz"}
      [] kd \in {"corrupt", "late"} -> {".xz", ".txz", ""}
      [] kd \in {"pipe", "kill"} -> {".gz", ".tgz", "-z"}
      [] kd = "big" -> {".xz"}
      [] OTHER -> {""}
CondOf(kd) == IF kd \in {"ok", "ok2", "big", "stdin"} THEN "ok" ELSE kd
Contents(kd) == IF kd = "big" THEN {"big"} ELSE {"A", "B"}

Dflt == [cond |-> "ok", c |-> "A"]
Build(ph) == pc = "build" /\ g = ph
Keep == UNCHANGED <<prog, args, copts, xst, cmpst, views, stemname, exit, outcome, pc>>

\* W is a tuple of weights-by-repetition: the simulator picks uniformly among the generated successors
ChooseCount(ph, nxt, W) ==
    /\ Build(ph) /\ \E j \in 1..Len(W) : cnt' = W[j]
    /\ g' = nxt /\ UNCHANGED <<argv, ost, stem, sin, cat, dd, meta>> /\ Keep
AddOpt ==
    /\ Build("opts") /\ cnt # 9
    /\ IF cnt = 0 THEN g' = "dd" /\ UNCHANGED <<argv, cnt>>
       ELSE (\E w \in OptWords : argv' = Append(argv, w)) /\ cnt' = cnt - 1 /\ UNCHANGED g
    /\ UNCHANGED <<ost, stem, sin, cat, dd, meta>> /\ Keep
AddSpecial ==
    /\ Build("opts") /\ cnt = 9 /\ \E w \in SpecialWords : argv' = Append(argv, w)
    /\ g' = "nops" /\ cnt' = 0 /\ UNCHANGED <<ost, stem, sin, cat, dd, meta>> /\ Keep
ChooseDD ==
    /\ Build("dd") /\ \E b \in BOOLEAN : dd' = b /\ argv' = (IF b THEN Append(argv, "--") ELSE argv)
    /\ g' = "nops" /\ UNCHANGED <<ost, stem, sin, cnt, cat, meta>> /\ Keep
Idx == <<"1", "2", "3">>
ChooseKind ==
    /\ Build("ops") /\ cat = ""
    /\ IF cnt = 0 THEN g' = "go" /\ UNCHANGED cat ELSE (\E kd \in Kinds : cat' = kd) /\ UNCHANGED g
    /\ UNCHANGED <<argv, ost, stem, sin, cnt, dd, meta>> /\ Keep
AddOp ==
    /\ Build("ops") /\ cat # "" /\ cnt > 0
    /\ \E sf \in Suffixes(cat), w \in 1..4, nc \in NameClasses, c \in Contents(cat) :
         /\ (w = 1 => nc \in EscClasses) /\ (w > 1 => nc \in HostileNames)
         /\ (nc \in DashClasses => dd)
         /\ LET n   == Len(meta) + 1
                tok == IF cat = "stdin" THEN "-" ELSE (IF nc \in DashClasses THEN "-" ELSE "") \o "@" \o Idx[n] \o sf
            IN /\ argv' = Append(argv, tok)
               /\ meta' = Append(meta, [tok |-> tok, kind |-> cat, ncls |-> nc, c |-> c])
               /\ ost' = [ost EXCEPT ![n] = [cond |-> CondOf(cat), c |-> c]]
    /\ cnt' = cnt - 1 /\ cat' = ""
    /\ UNCHANGED <<g, dd, stem, sin>> /\ Keep
Start ==
    /\ Build("go")
    /\ \E j \in 1..4 : stem' = <<"absent", "A", "A", "B">>[j]
    /\ \E sc \in {"ok", "plain"}, c \in {"A", "B"} : sin' = [cond |-> sc, c |-> c]
    /\ pc' = "scan" /\ args' = argv /\ g' = "run"
    /\ UNCHANGED <<prog, argv, ost, copts, xst, cmpst, views, stemname, exit, outcome, cnt, cat, dd, meta>>

\* ---- the suffix matrix: every recognised suffix (and none) in BOTH operand positions, the other operand with every
\* suffix too, same / different contents, for xzdiff and xzcmp (prog); the one-operand form and "-" first as well.
\* The three copies of the suffix list in xzdiff.in (lines 125, 127, 191) are separate code.
AllSuf == {".xz", "-xz", ".lzma", "-lzma", ".lz", "-lz", ".txz", ".tlz", ".gz", "-gz", ".tgz", ".taz", "-z", ".z", ".Z", "_z",
           ".bz2", "-bz2", ".tbz", ".tbz2", "", ".txt"}
MKind(sf) == IF sf \in {"", ".txt"} THEN "plain" ELSE "ok"
MOp(n, sf, c) == [tok |-> "@" \o Idx[n] \o sf, kind |-> MKind(sf), ncls |-> "plain", c |-> c]
MatrixOps ==
    /\ Build("matrix")
    /\ \/ \E s1 \in AllSuf, s2 \in AllSuf, c2 \in {"A", "B"} :
            /\ meta' = <<MOp(1, s1, "A"), MOp(2, s2, c2)>>
            /\ stem' = "absent"
       \/ \E s1 \in AllSuf \ {"_z"}, sm \in {"A", "B", "absent"}, nc \in {"plain", "esc:Xn", "esc:nq"} :
            /\ meta' = <<[MOp(1, s1, "A") EXCEPT !.ncls = nc]>>
            /\ stem' = sm
       \/ \E s2 \in AllSuf, c2 \in {"A", "B"} :
            /\ meta' = <<[tok |-> "-", kind |-> "stdin", ncls |-> "plain", c |-> "A"], MOp(2, s2, c2)>>
            /\ stem' = "absent"
    /\ argv' = [j \in 1..Len(meta') |-> meta'[j].tok]
    /\ ost' = [j \in 1..3 |-> IF j <= Len(meta') THEN [cond |-> CondOf(meta'[j].kind), c |-> meta'[j].c] ELSE Dflt]
    /\ sin' = [cond |-> "ok", c |-> "A"]
    /\ pc' = "scan" /\ args' = argv' /\ g' = "run"
    /\ UNCHANGED <<prog, copts, xst, cmpst, views, stemname, exit, outcome, cnt, cat, dd>>

BuildNext == \/ MatrixOps \/ ChooseCount("nopt", "opts", <<0, 0, 0, 0, 0, 1, 1, 1, 1, 1, 2, 2, 2, 9>>) \/ AddOpt \/ AddSpecial \/ ChooseDD
             \/ ChooseCount("nops", "ops", <<0, 1, 1, 1, 1, 2, 2, 2, 2, 2, 2, 2, 2, 2, 2, 2, 2, 2, 2, 3>>) \/ ChooseKind \/ AddOp \/ Start
RunNext == pc \in {"scan", "exist", "run", "fold"} /\ Next /\ UNCHANGED gvars

GInit == /\ prog \in {"xzdiff", "xzcmp"} /\ argv = <<>> /\ ost = <<Dflt, Dflt, Dflt>> /\ stem = "absent" /\ sin = Dflt
         /\ pc = "build" /\ args = <<>> /\ copts = <<>> /\ xst = <<>> /\ cmpst = 0 /\ views = <<>> /\ stemname = ""
         /\ exit = 0 /\ outcome = "none"
         /\ g = (IF Matrix THEN "matrix" ELSE "nopt") /\ cnt = 0 /\ cat = "" /\ dd = FALSE /\ meta = <<>>
GNext == BuildNext \/ RunNext
GSpec == GInit /\ [][GNext]_<<vars, gvars>>

Emit == (pc # "done" /\ pc' = "done") =>
          PrintT(<<"PLAN", ToJson([tool |-> "diff", prog |-> prog, argv |-> argv, meta |-> meta, stem |-> stem, sin |-> sin,
                                   outcome |-> outcome', exit |-> exit', views |-> views, xst |-> xst, cmpst |-> cmpst,
                                   copts |-> copts, ops |-> args, stemname |-> stemname,
                                   want |-> IF outcome' = "ran" THEN WantExits' ELSE {exit'},
                                   div |-> Divergences'])>>)
=============================================================================
