---------------------------- MODULE FormatDriver -----------------------------
(* An application decoding one file with one of the four decoders: it offers  *)
(* the input in pieces, calls lzma_code() until the return value is neither   *)
(* LZMA_OK nor one of the LZMA_*_CHECK notifications, and uses LZMA_FINISH     *)
(* either together with the last piece ("finish") or only after everything    *)
(* has been consumed ("rtf" = LZMA_RUN, then LZMA_FINISH).  One transition =   *)
(* one lzma_code() call.  harness/pydrv/c16drv.py is this loop on the real     *)
(* library.                                                                    *)
EXTENDS FormatContract, TLC

CONSTANT ChunkSizes         \* sizes of the pieces in which new input may be offered; 0 = all the rest

VARIABLES fd, api, flags, mode, file, cst, tin, tout, offered, allowBuf, rets, done
vars == <<fd, api, flags, mode, file, cst, tin, tout, offered, allowBuf, rets, done>>

InitWith(f, a, fl, m) ==
    /\ fd = f /\ api = a /\ flags = fl /\ mode = m /\ file = Tokens(f)
    /\ cst = ApiInit(a, fl) /\ tin = 0 /\ tout = 0 /\ offered = 0 /\ allowBuf = FALSE
    /\ rets = <<>> /\ done = FALSE

NextOffers == IF offered = Len(file) THEN {Len(file)}
              ELSE {IF k = 0 \/ offered + k > Len(file) THEN Len(file) ELSE offered + k : k \in ChunkSizes}

Call ==
    /\ ~done
    /\ \E off2 \in NextOffers :
         LET action == IF off2 = Len(file) /\ (mode = "finish" \/ off2 = tin) THEN "FINISH" ELSE "RUN"
             w      == SubSeq(file, tin + 1, off2)
             r      == ApiCall(api, cst, w, action)
             ret    == CodeRet(r, allowBuf)
         IN /\ offered' = off2
            /\ cst' = r.c
            /\ tin' = tin + r.i
            /\ tout' = tout + r.o
            /\ allowBuf' = CodeAllowBuf(r, allowBuf)
            /\ rets' = IF ret = "OK" THEN rets ELSE Append(rets, ret)
            /\ done' = ~Continues(ret)
    /\ UNCHANGED <<fd, api, flags, mode, file>>

Obs == [rets |-> rets, out |-> tout, tin |-> tin]

\* Impl => Contract: whatever the slicing and the finishing style, the run ends with
\* exactly what the format rules say
MeetsContract == done => Satisfies(Obs, Expect(fd, api, flags))
NeverUnspecified == \A j \in 1..Len(rets) : rets[j] # "UNSPEC"
\* decoding without LZMA_CONCATENATED that ends with LZMA_STREAM_END stops exactly at
\* the end of the first stream (redundant with MeetsContract; stated on its own)
StopsAtFirstStream ==
    (done /\ "CONCATENATED" \notin flags /\ Len(rets) > 0 /\ rets[Len(rets)] = "STREAM_END") =>
        tin = CASE fd.fmt = "alone" -> AloneLen(fd)
                [] fd.fmt = "lzip"  -> MemberLen(fd.mem[1])
                [] fd.fmt = "xz"    -> XzStreamLen(fd.str[1])
\* the auto decoder and the specific decoder agree (checked as: both meet the same
\* expectation, Expect does not depend on the API for .xz and .lz files)
AutoSameAsSpecific ==
    /\ \A f \in {fd} : f.fmt = "xz" => Expect(f, "auto", flags) = Expect(f, "stream", flags)
    /\ \A f \in {fd} : (f.fmt = "lzip" /\ f.mem[1].magic[1] = 76) => Expect(f, "auto", flags) = Expect(f, "lzip", flags)
Bounded == Len(rets) <= 12
=============================================================================
