------------------------------- MODULE GenBound ------------------------------
(* Plan emission for the bound sweep of C02: TLC enumerates (kind, n, check,   *)
(* slack) from the size classes of the model and prints the bound it predicts.  *)
EXTENDS Bound, TLC, Json
CONSTANTS Centers, Deltas, Slack
VARIABLES n, chk, kind, slack
Sizes == {c + d : c \in Centers, d \in Deltas} \cap Nat
GDeltas == {-1, 0, 1}
GSlack == {-1, 0, 4}
BoundOf(k, x) == IF k = "block" THEN BlockBufferBound(x) ELSE StreamBufferBound(x)
Init == n \in Sizes /\ chk \in {0, 1, 4, 10} /\ kind \in {"block", "stream", "easy"} /\ slack \in Slack
Next == UNCHANGED <<n, chk, kind, slack>>
Spec == Init /\ [][Next]_<<n, chk, kind, slack>>
Emit == PrintT(<<"PLAN", ToJson([n |-> n, chk |-> chk, kind |-> kind, slack |-> slack,
                                 bound |-> BoundOf(IF kind = "block" THEN "block" ELSE "stream", n)])>>)
=============================================================================
