SPECIFICATION MCSpec
CONSTANTS MaxIn = 2  MaxOps = 3  MidRunChunks = TRUE  Bugs = {}
 Encs = {"stream", "mt", "raw", "block"}  Grants = {"one", "big"}  Checks = {"crc", "none"}  BSizes = {0, 1}
VIEW MCView
INVARIANTS TypeOK NotBad DecodableLeGiven NoEmptyBlock SeqAgrees
PROPERTY Contract
CHECK_DEADLOCK FALSE
