SPECIFICATION Spec
CONSTANTS Which = "fflags" MaxTokens = 2
CONSTRAINT Emit
CHECK_DEADLOCK FALSE
