--------------------------- MODULE TraceMtEncoder ---------------------------
(* Trace validation for C08: executions of the real lzma_stream_encoder_mt   *)
(* recorded through the VERIF_EV hooks must be behaviours of MtEncoder.      *)
(* Main-thread private steps (Run, EncIn, Decide) and the return of a worker *)
(* from worker_encode after STOP/EXIT are not logged and are taken silently. *)
(* Parking inside worker_encode's two wait loops is not logged either (the   *)
(* hooks are add-only): the event emitted after the loop is matched by the   *)
(* non-waiting branch of the model action.                                   *)
EXTENDS MtEncoder, Json, IOUtils

TraceLog == ndJsonDeserialize(IOEnv.TRACE)
Cfg == TraceLog[1]
TrNW == Cfg.nwmax
TrNW0 == Cfg.nw
TrBS == Cfg.bs
TrTotal == Cfg.total
TrTimeout == Cfg.timeout

VARIABLE l
tvars == <<vars, l>>
Ev == TraceLog[l]
IsEvent(e) == l <= Len(TraceLog) /\ TraceLog[l].e = e /\ l' = l + 1

RetName(n) == CASE n = 0 -> "OK" [] n = 1 -> "STREAM_END" [] n = 10 -> "BUF_ERROR" [] n = 5 -> "MEM_ERROR"
                [] n = 11 -> "PROG_ERROR" [] n = 101 -> "TIMED_OUT" [] OTHER -> "OTHER"
ActName(n) == CASE n = 0 -> "RUN" [] n = 2 -> "FULL_FLUSH" [] n = 3 -> "FINISH" [] n = 4 -> "FULL_BARRIER" [] OTHER -> "BAD"
StateName(n) == CASE n = 0 -> "IDLE" [] n = 1 -> "RUN" [] n = 2 -> "FINISH" [] n = 3 -> "STOP" [] n = 4 -> "EXIT"

TInit0 == Init /\ l = 2 /\ TLCSet(1, 0)

TReset == IsEvent("Reset") /\ m' = [MInit EXCEPT !.tailSz = Ev.tailsz] /\ c' = CInit /\ t' = [w \in W |-> TInit]

TCall == /\ IsEvent("Call") /\ Ev.b >= m.inAvail
         /\ Call(ActName(Ev.a), Ev.b - m.inAvail, Ev.c)
TRet == /\ IsEvent("Ret") /\ m.pc = "out" /\ m.lastRet = RetName(Ev.a) /\ m.delivered = Ev.c /\ Consumed = Ev.b
        /\ UNCHANGED vars
\* lzma_get_progress() between two calls.  Its sum over the threads is not an atomic snapshot (each thr.mutex is
\* taken in turn), so the logged value is only required to be truthful: never above the input consumed, never
\* going backwards, and equal to the total once the Stream is finished.
TProgress == /\ IsEvent("Progress") /\ m.pc = "out"
             /\ Ev.a <= Consumed /\ (c.threadErr # "OK" \/ Ev.a >= m.lastProgress)
             /\ ((m.ended /\ m.lastRet = "STREAM_END") => Ev.a = Total)
             /\ m' = [m EXCEPT !.lastProgress = Ev.a] /\ UNCHANGED <<c, t>>
TBlkRead == /\ IsEvent("BlkRead") /\ BlkRead
            /\ m.space0 - m'.outSpace = Ev.b
            /\ (Ev.c = 1) = (m'.pc = "stop")
            /\ (Ev.c = 0 /\ Ev.a = 1) = (Len(m'.index) = Len(m.index) + 1)
            /\ (Len(m'.index) = Len(m.index) + 1 => m'.index[Len(m'.index)] = Ev.d)
\* (the hook is emitted before lzma_index_append(): its failure shows only in what follows)
TBlkReadFail == /\ IsEvent("BlkRead") /\ BlkReadFailAppend /\ Ev.a = 1 /\ Ev.c = 0
                /\ m.space0 - m'.outSpace = Ev.b
TGtPop == IsEvent("GtPop") /\ GtPop /\ (IF Ev.w = 0 THEN m'.thr = 0 ELSE m'.thr = Ev.w)
TCreate == IsEvent("Create") /\ GtCreate /\ Ev.w = m.nInit + 1
TGtStart == IsEvent("GtStart") /\ GtStart /\ Ev.w = m.thr /\ Ev.nsig >= 1
TCopy == /\ IsEvent("Copy") /\ Copy /\ Ev.w = m.thr
         /\ Ev.a = Min(m.inAvail, m.bs - m.blkLen[m.nblk])
TPublish == /\ IsEvent("Publish") /\ Publish /\ Ev.w = m.thr
            /\ (Ev.a = 1) = (m'.pc = "blkerr")
            /\ (Ev.a = 0 => t'[Ev.w].inSize = Ev.b /\ (Ev.c = 1) = (m'.thr = 0) /\ Ev.nsig >= 1)
TBlkErr == IsEvent("BlkErr") /\ BlkErr
TWaitPark == IsEvent("Wait") /\ Ev.a = 0 /\ Wait /\ m'.pc = "wpark" /\ (Ev.b = 1) = (m.inAvail > 0)
TWaitGo == IsEvent("Wait") /\ Ev.a = 1 /\ Ev.c = 0 /\ Wait /\ m'.pc = "blkread"
TWaitTimedOutEnd == IsEvent("Wait") /\ Ev.a = 1 /\ Ev.c = 1 /\ m.pc = "out" /\ UNCHANGED vars
TWaitWake == IsEvent("WaitWake") /\ Ev.a = 0 /\ WaitWake
TWaitTimeout == IsEvent("WaitWake") /\ Ev.a = 1 /\ WaitTimeout
TStop == IsEvent("Stop") /\ StopStep /\ m.loopI < m.nInit /\ Ev.w = m.loopI + 1 /\ Ev.nsig >= 1
TStopDone == IsEvent("StopDone") /\ Ev.a = 0 /\ StopStep /\ m.loopI >= m.nInit
\* re-initialisation: threads_stop(coder, true); its waiting loop has no hooks and is taken silently
\* a = the block_size given to the constructor this time (0: the same as before)
\* b = the thread count given this time (0: the same as before)
TAppReinit == IsEvent("AppReinit") /\ AppReinit(IF Ev.a = 0 THEN m.bs ELSE Ev.a, IF Ev.b = 0 THEN m.nw ELSE Ev.b)
TRStop == IsEvent("Stop") /\ RStop /\ m.loopI < m.nInit /\ Ev.w = m.loopI + 1 /\ Ev.nsig >= 1
TRStopDone == IsEvent("StopDone") /\ Ev.a = 1 /\ RStop /\ m.loopI >= m.nInit
TReinited == IsEvent("Reinited") /\ Ev.a = 0 /\ m.pc = "out" /\ m.given = 0 /\ m.seq = "HDR" /\ UNCHANGED vars
TEndSignal == IsEvent("EndSignal") /\ EndSignal /\ m.loopI < m.nInit /\ Ev.w = m.loopI + 1 /\ Ev.nsig >= 1
TEndJoin == IsEvent("EndJoin") /\ EndJoin /\ m.loopI < m.nInit /\ Ev.w = m.loopI + 1
TEndDone == IsEvent("EndDone") /\ EndJoin /\ m.loopI >= m.nInit
TAppEnd == IsEvent("AppEnd") /\ AppEnd
TFreed == IsEvent("Freed") /\ m.pc = "freed" /\ UNCHANGED vars

TWTop == /\ IsEvent("WTop") /\ WTop(Ev.w)
         /\ (Ev.ack = 1) = (t[Ev.w].state = "STOP") /\ (Ev.ack = 1 => Ev.nsig >= 1)
         \* a = STOP: the worker was stopped before it noticed its Block and leaves through the end-of-Block path
         /\ IF Ev.a = 3 THEN t'[Ev.w].pc = "finthr" /\ t'[Ev.w].result = "STOP"
            ELSE t'[Ev.w].snapState = StateName(Ev.a) /\ t'[Ev.w].pc # "finthr"
TWWake == IsEvent("WWake") /\ t[Ev.w].pc = "park_top" /\ WWake(Ev.w)
\* a = delta distance of the Block's chain (0 = no delta filter in use): the driver uses dist = 1 + chain version
TWEncInit == /\ IsEvent("WEncInit") /\ WEncInit(Ev.w, FALSE, FALSE)
             /\ (Ev.a # 0 => Ev.a = 1 + m.blkChain[t[Ev.w].blk] - m.chainBase)
TUpdate == IsEvent("Update") /\ FiltersUpdate /\ m'.lastUpdateRet = RetName(Ev.a)
TWError == IsEvent("WError") /\ WEncInit(Ev.w, TRUE, FALSE) /\ Ev.nsig >= 1
TWEncSyncBegin == /\ IsEvent("WEncSyncBegin") /\ t[Ev.w].pc = "encsync" /\ t[Ev.w].inPos = Ev.a
                  /\ t' = [t EXCEPT ![Ev.w].progressIn = Ev.a] /\ UNCHANGED <<m, c>>
TWEncSync == /\ IsEvent("WEncSync") /\ t[Ev.w].pc = "encsync"
             /\ ~(t[Ev.w].snapIn = t[Ev.w].inSize /\ t[Ev.w].state = "RUN")
             /\ t[Ev.w].state = StateName(Ev.a) /\ t[Ev.w].inSize = Ev.b
             /\ WEncSync(Ev.w)
TWEncCode ==
    /\ IsEvent("WEncCode")
    /\ LET w == Ev.w
           r == [ip |-> Ev.b, ret |-> IF Ev.a = 1 THEN "END" ELSE IF Ev.a = 0 /\ Ev.d = 1 THEN "FULL" ELSE IF Ev.a = 0 THEN "OK" ELSE "ERR"]
       IN /\ r.ret # "ERR"
          /\ r.ip >= t[w].inPos /\ r.ip <= Min(t[w].snapIn, t[w].inPos + Chunk)
          /\ (r.ret = "END" => t[w].snapState = "FINISH" /\ r.ip = t[w].snapIn)
          /\ (r.ret = "OK" => r.ip = Min(t[w].snapIn, t[w].inPos + Chunk))
          /\ WEncCodeTo(w, r)
TWEncWaitFin == /\ IsEvent("WEncWaitFin") /\ t[Ev.w].pc = "encwaitfin" /\ t[Ev.w].state # "RUN"
                /\ t[Ev.w].state = StateName(Ev.a) /\ t[Ev.w].inSize = Ev.b
                /\ WEncWaitFin(Ev.w)
TWFinThr == IsEvent("WFinThr") /\ WFinThr(Ev.w) /\ (Ev.a = 1) = (t[Ev.w].state # "EXIT") /\ (Ev.a = 1 => Ev.nsig >= 1)
TWFinCoder == /\ IsEvent("WFinCoder") /\ WFinCoderTo(Ev.w, Ev.b)
              /\ (Ev.a = 2) = (t[Ev.w].result = "FINISH")
              /\ (Ev.a = 2 => Ev.c = t[Ev.w].snapIn /\ Ev.d = 1)
              /\ Ev.nsig >= 1

Logged == TReset \/ TCall \/ TRet \/ TProgress \/ TBlkRead \/ TBlkReadFail \/ TGtPop \/ TCreate \/ TGtStart \/ TCopy \/ TPublish \/ TBlkErr
          \/ TUpdate \/ TAppReinit \/ TRStop \/ TRStopDone \/ TReinited \/ TWaitPark \/ TWaitGo \/ TWaitTimedOutEnd \/ TWaitWake \/ TWaitTimeout \/ TStop \/ TStopDone
          \/ TEndSignal \/ TEndJoin \/ TEndDone \/ TAppEnd \/ TFreed
          \/ TWTop \/ TWWake \/ TWEncInit \/ TWError \/ TWEncSyncBegin \/ TWEncSync \/ TWEncCode \/ TWEncWaitFin
          \/ TWFinThr \/ TWFinCoder

Silent == /\ (Run \/ EncIn \/ Decide \/ EncInFail \/ GtCreateFail \/ TailFail \/ (EndSignal /\ m.loopI >= m.nInit) \/ (\E w \in W : WAfter(w)) \/ RWait \/ RWaitWake \/ RQuiesceWake)
          /\ UNCHANGED l

TNext == Logged \/ Silent
TSpec == TInit0 /\ [][TNext]_tvars
TrackMax == TLCSet(1, IF TLCGet(1) < l THEN l ELSE TLCGet(1))
TraceAccepted == IF TLCGet(1) > Len(TraceLog) THEN TRUE ELSE PrintT(<<"MAXL", TLCGet(1)>>) /\ FALSE
=============================================================================
