SPECIFICATION GSpec
CONSTANTS Unlimited = 2147483647  ThreadOpts = {0, 2, 3, 4}
INVARIANT Contract
CONSTRAINT Emit
CHECK_DEADLOCK FALSE
