SPECIFICATION Spec
CONSTANTS
 BugDupChecks = FALSE  BugIterEmpty = FALSE  BugAppendTotal = FALSE
 NSlots = 3  MaxStreams = 70  MaxRecs = 4700
 USizes <- TinyU  VSizes <- TinyV  Pads <- TinyP  FlagSet <- TinyF
 CommonU <- SmallU  CommonV <- SmallV
 FamStreams <- NoValues  FamBase = 3  FamGroups <- NoValues
 ParkA <- NoValues  ParkB <- NoValues
 EncN <- NoValues
 HashU <- NoValues  HashV <- NoValues
 Volume = TRUE
 MinSteps = 7  MaxSteps = 7
CONSTRAINT Emit
CHECK_DEADLOCK FALSE
