---------------------------- MODULE SimpleCoder -----------------------------
(* C15: the buffering protocol of simple_code() (simple_coder.c), one action  *)
(* per call, for a BCJ filter followed by a pass-through (next.code == NULL  *)
(* or a copy coder that returns STREAM_END once FINISH was given and all     *)
(* input is consumed).  The filter itself is Bcj!Code.                        *)
(*                                                                           *)
(* Coder state s: now_pos, the filter's own state, the hold-back buffer      *)
(* (bytes buf[1..size]; [1..filtered] already filtered, pos = how many of    *)
(* them were already copied out) and end_was_reached.                        *)
(* Call(arch, enc, s, in, outSpace, finish) returns                          *)
(*   [s |-> new state, used |-> input bytes consumed, out |-> bytes written, *)
(*    ret |-> "OK" | "STREAM_END"].                                           *)
EXTENDS Bcj

Alloc(arch) == 2 * UnfilteredMax(arch)
ScInit(arch, off) == [now |-> off, fst |-> InitState(arch), buf |-> <<>>, pos |-> 0, filtered |-> 0, ended |-> FALSE]
\* Initialising a coder object that was used before (next Block, next Stream, a second *_encoder()/_decoder()
\* call on the same lzma_stream) must give exactly the state of a new one: nothing of `old` survives.
ScReinit(old, arch, off) == ScInit(arch, off)
\* lzma_simple_coder_init(): start_offset must be a multiple of the alignment
InitRet(arch, offLow) == IF offLow % Alignment(arch) # 0 THEN "OPTIONS_ERROR" ELSE "OK"

\* call_filter(): apply the transform, advance now_pos by the number of final bytes
Filter(arch, enc, s, bytes) ==
    LET r == Code(arch, enc, s.fst, s.now, bytes)
    IN [n |-> r.n, bytes |-> r.buf, now |-> Add32(s.now, U32(r.n)), fst |-> r.st]

Min3(a, b) == IF a < b THEN a ELSE b
Take(seq, n) == SubSeq(seq, 1, n)
Drop(seq, n) == SubSeq(seq, n + 1, Len(seq))

Call(arch, enc, s0, in, outSpace, finish) ==
    LET \* --- 1: flush filtered bytes that are still in the buffer
        n1   == IF s0.pos < s0.filtered THEN Min3(s0.filtered - s0.pos, outSpace) ELSE 0
        out1 == SubSeq(s0.buf, s0.pos + 1, s0.pos + n1)
        pos1 == s0.pos + n1
    IN IF s0.pos < s0.filtered /\ pos1 < s0.filtered
       THEN [s |-> [s0 EXCEPT !.pos = pos1], used |-> 0, out |-> out1, ret |-> "OK"]
       ELSE IF s0.pos < s0.filtered /\ s0.ended
       THEN [s |-> [s0 EXCEPT !.pos = pos1], used |-> 0, out |-> out1, ret |-> "STREAM_END"]
       ELSE
    LET \* --- 2: nothing filtered is pending any more
        size     == Len(s0.buf)
        outAvail == outSpace - n1
        bufAvail == size - pos1
        direct   == outAvail > bufAvail \/ bufAvail = 0
        \* 2a: move the unfiltered tail to the output, append new input, filter there
        nIn2     == Min3(Len(in), outAvail - bufAvail)
        work     == Drop(s0.buf, pos1) \o Take(in, nIn2)
        end2     == finish /\ nIn2 = Len(in)
        f2       == IF Len(work) = 0 THEN [n |-> 0, bytes |-> work, now |-> s0.now, fst |-> s0.fst]
                    ELSE Filter(arch, enc, s0, work)
        keepOut  == IF end2 THEN Len(work) ELSE f2.n           \* unfiltered bytes go back to the buffer
        sA       == IF direct
                    THEN [now |-> f2.now, fst |-> f2.fst, buf |-> IF end2 THEN <<>> ELSE Drop(f2.bytes, f2.n),
                          pos |-> 0, filtered |-> 0, ended |-> end2]
                    ELSE [s0 EXCEPT !.buf = Drop(s0.buf, pos1), !.pos = 0, !.filtered = 0]
        outA     == IF direct THEN out1 \o Take(f2.bytes, keepOut) ELSE out1
        usedA    == IF direct THEN nIn2 ELSE 0
        inA      == Drop(in, usedA)
        roomA    == outSpace - Len(outA)
        \* --- 3: the buffer is not empty: top it up from the input, filter it, copy out what fits
        nIn3     == Min3(Len(inA), Alloc(arch) - Len(sA.buf))
        work3    == sA.buf \o Take(inA, nIn3)
        end3     == finish /\ nIn3 = Len(inA)
        f3       == Filter(arch, enc, sA, work3)
        filt3    == IF end3 THEN Len(work3) ELSE f3.n
        n3       == Min3(filt3, roomA)
        sB       == [now |-> f3.now, fst |-> f3.fst, buf |-> f3.bytes, pos |-> n3, filtered |-> filt3, ended |-> end3]
        sF       == IF Len(sA.buf) > 0 THEN sB ELSE sA
        outF     == IF Len(sA.buf) > 0 THEN outA \o Take(f3.bytes, n3) ELSE outA
        usedF    == IF Len(sA.buf) > 0 THEN usedA + nIn3 ELSE usedA
    IN [s |-> sF, used |-> usedF, out |-> outF,
        ret |-> IF sF.ended /\ sF.pos = Len(sF.buf) THEN "STREAM_END" ELSE "OK"]
=============================================================================
