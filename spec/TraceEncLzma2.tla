---------------------------- MODULE TraceEncLzma2 ---------------------------
(* (V) for C01/C02, LZMA2 streams (every .xz Block, raw LZMA2).  Chunk        *)
(* headers and, per chunk, either the symbol list (bytes mode) or the         *)
(* aggregates (agg mode) produced by the independent tokeniser are replayed   *)
(* through EncLzma2/EncLz.  `input` of an execution is what the LZMA2 encoder *)
(* was fed: the Block's slice of the application input after the non-last     *)
(* filters of the chain (computed by the independent filter definitions).     *)
EXTENDS EncLzma2, TLC, Json, IOUtils

TraceLog == ndJsonDeserialize(IOEnv.TRACE)

VARIABLES l, cfg
tvars == <<lzvars, l2vars, l, cfg>>

IsEvent(e) == l <= Len(TraceLog) /\ TraceLog[l].e = e /\ l' = l + 1
T == TraceLog[l]

TInit == /\ L2Init(1, <<>>, TRUE) /\ l = 1 /\ cfg = [mode |-> "none"]

Bytes == cfg.mode = "bytes"

TReset == /\ IsEvent("Reset")
          /\ T.dict >= 1
          /\ LET p == IF Len(T.preset) > T.dict THEN SubSeq(T.preset, Len(T.preset) - T.dict + 1, Len(T.preset))
                      ELSE T.preset IN
             /\ out' = (IF T.mode = "bytes" THEN p ELSE <<>>)
             /\ base' = Len(out')
             /\ cavail' = IF T.mode = "bytes" THEN Len(p) ELSE Min(T.presetlen, T.dict)
             /\ needDict' = (T.presetlen = 0)
          /\ dstart' = 0 /\ reps' = <<0, 0, 0, 0>> /\ lzst' = 0 /\ dictSize' = T.dict /\ ended' = FALSE
          /\ needProps' = TRUE /\ needState' = FALSE /\ cprod' = 0 /\ props' = -1 /\ ch' = NoChunk /\ fin' = FALSE
          /\ cfgp' = PropsByte(T.lc, T.lp, T.pb)
          /\ cfg' = T

TChunkLzma == /\ IsEvent("Chunk") /\ T.kind = "lzma"
              /\ LzmaChunkBegin(T.ctl, T.usize, T.csize, T.props, Bytes)
              /\ UNCHANGED cfg

TLits  == IsEvent("Lits") /\ Bytes /\ InLzmaChunk(Len(T.b)) /\ Lits(T.b) /\ UNCHANGED <<l2vars, cfg>>
TMatch == IsEvent("Match") /\ Bytes /\ InLzmaChunk(T.n) /\ Match(T.d, T.n) /\ UNCHANGED <<l2vars, cfg>>
TRep   == IsEvent("Rep") /\ Bytes /\ InLzmaChunk(T.n) /\ Rep(T.i, T.n) /\ UNCHANGED <<l2vars, cfg>>
TSRep  == IsEvent("SRep") /\ Bytes /\ InLzmaChunk(1) /\ ShortRep /\ UNCHANGED <<l2vars, cfg>>

TAgg == /\ IsEvent("Agg") /\ ~Bytes
        /\ LzmaChunkEndAgg(T)
        /\ UNCHANGED cfg
TChunkEnd == /\ IsEvent("ChunkEnd") /\ Bytes
             /\ T.used = ch.csize                          \* stored compressed size is truthful
             /\ LzmaChunkEndBytes
             /\ UNCHANGED cfg

TChunkUnc == /\ IsEvent("Chunk") /\ T.kind = "unc"
             /\ UncChunk(T.ctl, T.usize, (IF Bytes THEN T.data ELSE <<>>), Bytes)
             /\ UNCHANGED cfg

TChunkEndMarker == /\ IsEvent("Chunk") /\ T.kind = "end"
                   /\ EndChunk
                   /\ UNCHANGED cfg

\* lzma_filters_update() with new lc/lp/pb was called when `at` bytes of this LZMA2 stream's input had been
\* flushed out: the chunk boundary must be exactly there
TUpdate == /\ IsEvent("Update")
           /\ cprod = T.at
           /\ PropsUpdate(PropsByte(T.lc, T.lp, T.pb))
           /\ UNCHANGED cfg

\* an .xz Stream with no Block at all: only for empty input
TEmpty == /\ IsEvent("Empty")
          /\ cfg.inlen = 0 /\ cprod = 0 /\ ch = NoChunk /\ ~fin
          /\ fin' = TRUE
          /\ UNCHANGED <<needDict, needProps, needState, cprod, cavail, props, cfgp, ch>>
          /\ UNCHANGED <<lzvars, cfg>>

TBias == /\ IsEvent("Bias")
         /\ T.dig = cfg.encdig /\ T.len = cfg.enclen
         /\ UNCHANGED <<lzvars, l2vars, cfg>>

\* the same run on a fresh lzma_stream: a handle re-initialised after an abandoned session (no lzma_end) must
\* produce exactly the same bytes
TFresh == /\ IsEvent("Fresh")
          /\ T.dig = cfg.encdig /\ T.len = cfg.enclen
          /\ UNCHANGED <<lzvars, l2vars, cfg>>

TEnd == /\ IsEvent("End")
        /\ fin /\ ch = NoChunk
        /\ cprod = cfg.inlen                                \* everything was encoded
        /\ T.used = cfg.l2len                               \* the LZMA2 stream ends exactly where the container says
        /\ Bytes => SubSeq(out, base + 1, Len(out)) = cfg.input
        /\ T.gluelen = cfg.inlen /\ T.gluedig = cfg.indig /\ T.gluestatus = "ok"
        /\ T.liblen = cfg.inlen /\ T.libdig = cfg.indig /\ T.libret = "STREAM_END"
        /\ UNCHANGED <<lzvars, l2vars, cfg>>

TNext == TReset \/ TChunkLzma \/ TLits \/ TMatch \/ TRep \/ TSRep \/ TAgg \/ TChunkEnd \/ TChunkUnc
         \/ TChunkEndMarker \/ TUpdate \/ TEmpty \/ TBias \/ TFresh \/ TEnd
TSpec == TInit /\ [][TNext]_tvars
TraceAccepted == TLCGet("stats").diameter - 1 = Len(TraceLog)
=============================================================================
