SPECIFICATION MCSpec
CONSTANTS MaxIn = 1  MaxOps = 4  MidRunChunks = TRUE  TinyInput = TRUE  Bugs = {"update_keeps_block_initialized"}
 Encs = {"stream", "mt", "raw", "block"}  Grants = {"big"}  Checks = {"crc"}  BSizes = {0}
VIEW MCView
INVARIANTS TypeOK NotBad DecodableLeGiven NoEmptyBlock SeqAgrees
PROPERTY Contract
CHECK_DEADLOCK FALSE
