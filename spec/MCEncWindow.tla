----------------------------- MODULE MCEncWindow -----------------------------
EXTENDS EncWindow
\* deliberately wrong variants (non-vacuity): before_size left at OPTS for every dictionary size
BrokenBeforeSize == Opts
=============================================================================
