INIT Init
NEXT Next
CONSTANTS EopmLocalPerCall = FALSE  PickyAcceptsZero = FALSE  MemDictLimbHi = 752
