---------------------------- MODULE StarveGrammar ----------------------------
(* C04: field grammars of the stateless parsers.  TLC enumerates abstract     *)
(* inputs (one state each) and prints them; harness/pydrv/c04gen.py turns     *)
(* every item into bytes (CRC32s, VLIs and padding computed there) and calls  *)
(* the parser under ASan/UBSan with a counting allocator.  Where the format   *)
(* documents fix the verdict the item carries it (`expect`); otherwise only   *)
(* StarveDoc!Documented, memory safety and the ledger are checked.            *)
(*                                                                           *)
(*  vli     byte classes: "c" continuation with payload, "c0" continuation    *)
(*          0x80, "t" terminator with payload, "t0" terminator 0x00;          *)
(*          1..10 bytes incl. non-minimal, > 63 bits and cut short; decoded   *)
(*          in one call or in pieces (multi-call interface)                   *)
(*  sflags  Stream Header / Footer: magic, both flag bytes (every Check ID,   *)
(*          every reserved bit), CRC32, Backward Size                         *)
(*  bhdr    Block Header = a valid baseline (1..4 filters, optional sizes,    *)
(*          extra padding) + one deviation                                    *)
(*  fflags  Filter Flags: id class x size-of-properties class x truncation    *)
(*  props   lzma_properties_decode: every filter x every property size 0..6   *)
(*  index   Index = baseline (0..3 records) + one deviation x memory limit    *)
(*  str     filter strings: token sequences                                   *)
EXTENDS Naturals, Sequences, FiniteSets, TLC, Json

CONSTANTS Which,        \* which grammar to enumerate
          MaxTokens     \* str: length of the token sequences

VARIABLE item

\* ---------------------------------------------------------------- vli
VliClasses == {"c", "c0", "t", "t0"}
VliBytes == UNION {{[i \in 1..n |-> IF i < n THEN body ELSE last] : body \in {"c", "c0"}, last \in VliClasses} : n \in 1..10}
IsCont(b) == b \in {"c", "c0"}
\* vli_decoder.c / xz-file-format 1.2: at most 9 bytes, last byte may not be 0x00 unless it is the only one
RECURSIVE VliScan(_, _)
VliScan(bs, i) ==
    IF i > Len(bs) THEN [ret |-> "MORE", used |-> Len(bs)]
    ELSE IF ~IsCont(bs[i]) THEN (IF bs[i] = "t0" /\ i > 1 THEN [ret |-> "DATA_ERROR", used |-> i] ELSE [ret |-> "DONE", used |-> i])
    ELSE IF i = 9 THEN [ret |-> "DATA_ERROR", used |-> 9]
    ELSE VliScan(bs, i + 1)
VliItems == {[p |-> "vli", bytes |-> bs, cut |-> c,
              single |-> (LET r == VliScan(bs, 1) IN IF r.ret = "DONE" THEN "OK" ELSE "DATA_ERROR"),
              multi  |-> (LET r == VliScan(bs, 1) IN IF r.ret = "DONE" THEN "STREAM_END" ELSE IF r.ret = "MORE" THEN "OK" ELSE "DATA_ERROR"),
              used   |-> VliScan(bs, 1).used] : bs \in VliBytes, c \in {"whole", "bytewise", "half"}}

\* ---------------------------------------------------------------- Stream Header / Footer
SfExpect(magic, b0, b1, crcok) ==
    IF magic # "ok" THEN "FORMAT_ERROR" ELSE IF ~crcok THEN "DATA_ERROR"
    ELSE IF b0 # 0 \/ b1 >= 16 THEN "OPTIONS_ERROR" ELSE "OK"
SfItems == {[p |-> "sflags", footer |-> ft, magic |-> m, b0 |-> b0, b1 |-> b1, crcok |-> c, backward |-> bw,
             expect |-> SfExpect(m, b0, b1, c)] :
            ft \in BOOLEAN, m \in {"ok", "bad_first", "bad_last"}, b0 \in {0, 1, 128},
            b1 \in (0..15) \cup {16, 32, 64, 128, 255}, c \in BOOLEAN, bw \in {"0", "1", "max"}}

\* ---------------------------------------------------------------- Block Header
BhDev == {"none", "crc", "size_byte_small", "size_byte_big", "resv04", "resv08", "resv10", "resv20",
          "csize_zero", "csize_huge", "csize_nonminimal", "csize_overlong", "usize_max", "usize_nonminimal", "usize_overlong",
          "id_reserved", "id_unknown", "id_lzma1", "id_overlong", "psize_big", "psize_huge", "psize_zero", "psize_plus1",
          "props_bad", "padding_nonzero", "no_room", "lzma2_not_last", "delta_last", "five_filters_worth"}
BhExpect(dev, hasC, hasU) ==
    CASE dev \in {"none", "usize_max"} -> {"OK"}
      [] dev = "crc" -> {"DATA_ERROR"}
      [] dev \in {"size_byte_small", "size_byte_big"} -> {"PROG_ERROR", "DATA_ERROR"}   \* header_size is the caller's; CRC then fails
      [] dev \in {"resv04", "resv08", "resv10", "resv20"} -> {"OPTIONS_ERROR"}
      [] dev \in {"csize_zero", "csize_huge", "csize_nonminimal", "csize_overlong"} -> IF hasC THEN {"DATA_ERROR"} ELSE {"OK"}
      [] dev \in {"usize_nonminimal", "usize_overlong"} -> IF hasU THEN {"DATA_ERROR"} ELSE {"OK"}
      [] dev \in {"id_reserved", "id_overlong", "psize_big", "psize_huge", "no_room"} -> {"DATA_ERROR"}
      [] dev \in {"id_unknown", "psize_zero", "psize_plus1", "props_bad", "padding_nonzero"} -> {"OPTIONS_ERROR"}
      [] dev = "id_lzma1" -> {"DATA_ERROR"}   \* the LZMA1 ID lies in the range reserved for custom IDs (>= 2^62)
      \* chain rules are not the Block Header parser's business (the raw decoder rejects them at init)
      [] dev \in {"lzma2_not_last", "delta_last", "five_filters_worth"} -> {"OK", "OPTIONS_ERROR", "DATA_ERROR"}
BhItems == {[p |-> "bhdr", nf |-> nf, hasC |-> hc, hasU |-> hu, extra |-> ex, dev |-> d, check |-> ck,
             expect |-> BhExpect(d, hc, hu)] :
            nf \in 1..4, hc \in BOOLEAN, hu \in BOOLEAN, ex \in {0, 4}, d \in BhDev, ck \in {0, 1, 15}}

\* ---------------------------------------------------------------- Filter Flags
FfItems == {[p |-> "fflags", id |-> id, psize |-> ps, room |-> room] :
            id \in {"lzma2", "delta", "x86", "arm64", "riscv", "lzma1", "unknown", "reserved", "max", "nonminimal", "overlong", "cut"},
            ps \in {"exact", "zero", "plus1", "big", "huge", "nonminimal", "cut"},
            room \in {"exact", "more", "less"}}

\* ---------------------------------------------------------------- lzma_properties_decode
PrFilters == {"lzma1", "lzma1ext", "lzma2", "delta", "x86", "powerpc", "ia64", "arm", "armthumb", "sparc", "arm64", "riscv", "unknown"}
PrExpect(f, n, v) ==
    CASE f = "unknown" -> "OPTIONS_ERROR"
      [] f \in {"lzma1", "lzma1ext"} -> IF n = 5 /\ v = "good" THEN "OK" ELSE "OPTIONS_ERROR"
      [] f = "lzma2" -> IF n = 1 /\ v = "good" THEN "OK" ELSE "OPTIONS_ERROR"
      [] f = "delta" -> IF n = 1 THEN "OK" ELSE "OPTIONS_ERROR"
      [] OTHER -> IF n = 0 \/ n = 4 THEN "OK" ELSE "OPTIONS_ERROR"
PrItems == {[p |-> "props", filter |-> f, n |-> n, v |-> v, expect |-> PrExpect(f, n, v)] :
            f \in PrFilters, n \in 0..6, v \in {"good", "bad", "ff"}}

\* ---------------------------------------------------------------- Index
IxDev == {"none", "indicator", "count_more", "count_less", "count_huge", "count_nonminimal", "count_overlong",
          "unpadded_zero", "unpadded_4", "unpadded_max", "unpadded_nonminimal", "uncompressed_nonminimal", "uncompressed_overlong",
          "sum_overflow", "padding_nonzero", "padding_short", "padding_long", "crc", "cut_1", "cut_5", "cut_in_crc", "empty_input"}
IxExpect(dev, n, lim) ==
    IF dev = "none" THEN (IF lim = "tiny" THEN {"MEMLIMIT_ERROR"} ELSE {"OK"})
    ELSE IF dev = "unpadded_max" THEN {"OK", "DATA_ERROR", "MEMLIMIT_ERROR"}
    ELSE IF dev = "empty_input" THEN {"DATA_ERROR"}
    ELSE {"DATA_ERROR", "MEMLIMIT_ERROR"} \cup (IF dev \in {"count_huge"} THEN {"MEM_ERROR"} ELSE {})
IxItems == {[p |-> "index", n |-> n, dev |-> d, lim |-> lim, expect |-> IxExpect(d, n, lim)] :
            n \in 0..3, d \in IxDev, lim \in {"tiny", "ample"}}

\* ---------------------------------------------------------------- filter strings
Tokens == {"lzma2", "lzma1", "x86", "delta", "arm64", "riscv", "foo", "--", " ", ":", "=", ",", "-",
           "dict=4KiB", "dict=", "dict=99999GiB", "dict=4Kib", "lc=5", "lc=4,lp=1", "preset=9e", "preset=", "mode=fast", "mf=bt9",
           "dist=0", "dist=257", "start=3", "start=4096", "nice=1", "depth=4294967296", "6", "9e", "0e", "10", "6x", "xyz=1"}
RECURSIVE Seqs(_)
Seqs(n) == IF n = 0 THEN {<<>>} ELSE LET S == Seqs(n - 1) IN S \cup {Append(s, t) : s \in {x \in S : Len(x) = n - 1}, t \in Tokens}
StrItems == {[p |-> "str", toks |-> s, flags |-> fl] : s \in Seqs(MaxTokens), fl \in {0, 1}}

Items == CASE Which = "vli" -> VliItems [] Which = "sflags" -> SfItems [] Which = "bhdr" -> BhItems
           [] Which = "fflags" -> FfItems [] Which = "props" -> PrItems [] Which = "index" -> IxItems [] Which = "str" -> StrItems

Init == item \in Items
Next == FALSE /\ UNCHANGED item
Spec == Init /\ [][Next]_item
Emit == PrintT(<<"ITEM", ToJson(item)>>)
=============================================================================
