SPECIFICATION Spec
CONSTANTS MaxLen = 10 Variant = "ok"
VIEW GView
ACTION_CONSTRAINT Emit
CHECK_DEADLOCK FALSE
