SPECIFICATION Spec
CONSTANTS
 CrcSizes = {"2^31+k", "2^32-1", "2^32+k"}
 ShaSizes = {536870911, 536870912, 536879181}
ACTION_CONSTRAINT Emit
CHECK_DEADLOCK FALSE
