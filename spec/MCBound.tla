------------------------------- MODULE MCBound -------------------------------
(* (M) for C02: the bound functions dominate the worst case and make the       *)
(* single-call encoders succeed, for input sizes around every boundary of the  *)
(* arithmetic (0, 1, VLI length steps 2^7 2^14 2^21 2^28, LZMA2 chunk 2^16 and *)
(* its multiples, 2^21, k*2^21), every Check, filter chains of every header    *)
(* size, compressor outcomes (finishes early / just fits / one byte too many / *)
(* never finishes) and output sizes bound-5 .. bound+5.                         *)
EXTENDS Bound, TLC

CONSTANTS Centers, Deltas, FilterSizes, Slack

VARIABLES n, chk, fsz, osz, comp, kind, res
vars == <<n, chk, fsz, osz, comp, kind, res>>

MCDeltas == {-2, -1, 0, 1, 2}
MCSlack == {-5, -4, -3, -1, 0, 1, 3, 4, 7}
\* deliberately wrong bound (rounds the number of chunks down): used only by MCBoundBroken.cfg (non-vacuity)
BrokenLzma2Bound(x) == x + (x \div LZMA2_CHUNK_MAX) * LZMA2_HEADER_UNCOMPRESSED + 1
Sizes == {c + d : c \in Centers, d \in Deltas} \cap Nat
BoundOf(k, x) == IF k = "block" THEN BlockBufferBound(x) ELSE StreamBufferBound(x)

Init == /\ n \in Sizes /\ chk \in {0, 1, 4, 10} /\ fsz \in FilterSizes /\ kind \in {"block", "stream"}
        /\ osz \in {BoundOf(kind, n) + s : s \in Slack}
        /\ comp \in {-1, 1} \cup {Lzma2Bound(n) + d : d \in {-1, 0, 1}} \cup {n \div 2 + 1}
        /\ res = IF kind = "block" THEN BlockBufferEncode(n, osz, chk, fsz, comp)
                 ELSE StreamBufferEncode(n, osz, chk, fsz, comp)
Next == UNCHANGED vars
Spec == Init /\ [][Next]_vars

\* with the bound the encoder never runs out of space and never overruns what it was given
BoundSuffices == (osz >= BoundOf(kind, n)) => (res.ret = "OK" /\ res.total <= osz)
NeverOverruns == res.ret = "OK" => res.total <= osz
\* the bound dominates the worst case of the format
BoundDominates == /\ BlockBufferBound(n) >= WorstBlock(n, chk)
                  /\ StreamBufferBound(n) >= WorstStream(n, chk)
\* and the fallback really is that worst case
FallbackIsWorst == (res.ret = "OK" /\ res.path = "fallback") =>
                      res.total = (IF kind = "block" THEN WorstBlock(n, chk) ELSE WorstStream(n, chk))
=============================================================================
