SPECIFICATION Spec
CONSTANTS
 CrcSizes = {"2^31-1", "2^31", "2^31+k", "2^32-64", "2^32-1", "2^32", "2^32+63", "2^32+64", "2^32+k", "2^33+k"}
 ShaSizes = {536870847, 536870911, 536870912, 536870913, 536870968, 536879181, 1073741824, 1073750017}
ACTION_CONSTRAINT Emit
CHECK_DEADLOCK FALSE
