SPECIFICATION MCSpec
CONSTANTS MaxOpts = 0  Wide = TRUE  DoFiles = TRUE  Cov = TRUE  Big = FALSE  Strict = "none"
INVARIANTS TypeOK ScanContract EarlyExitContract NoPatternContract StatusContract ReadContract NameContract LabelContract StrictInv
CHECK_DEADLOCK FALSE
