------------------------------- MODULE MCLzma2 -------------------------------
(* (M) for C03, LZMA2 layer: for every sequence of at most MaxChunks chunks   *)
(* drawn from all chunk kinds the control-byte machine of lzma2_decoder.c     *)
(* accepts exactly the declaratively valid streams and delivers exactly the   *)
(* declared data.  Variant breaks the machine on purpose (non-vacuity).       *)
EXTENDS Lzma2, TLC, Json
CONSTANTS MaxChunks, Variant
VARIABLES chunks, k, st
vars == <<chunks, k, st>>

Kinds == {[k |-> "end", reset |-> "none", props |-> "ok", pl |-> "ok"],
          [k |-> "bad", reset |-> "none", props |-> "ok", pl |-> "ok"]}
         \cup {[k |-> "unc", reset |-> x, props |-> "ok", pl |-> "ok"] : x \in {"dict", "none"}}
         \cup {[k |-> "lzma", reset |-> x, props |-> "ok", pl |-> p] : x \in {"none", "state"}, p \in {"ok", "err", "short", "long", "rcend"}}
         \cup {[k |-> "lzma", reset |-> x, props |-> q, pl |-> p] : x \in {"props", "all"}, q \in {"ok", "bad"}, p \in {"ok", "err", "short", "long", "rcend"}}
WithId(ch, i) == [k |-> ch.k, reset |-> ch.reset, props |-> ch.props, pl |-> ch.pl, id |-> i, n |-> i, c |-> 3 + i]

VStep(s, ch) ==
    CASE Variant = "no_need_props" ->
           L2Body(LET s0 == IF ch.k = "lzma" /\ ch.reset \in {"none", "state"} THEN [s EXCEPT !.needProps = FALSE] ELSE s
                  IN L2Control(s0, ch), ch)
      [] Variant = "no_need_dict" -> L2Body(L2Control([s EXCEPT !.needDict = FALSE], ch), ch)
      [] Variant = "unc_keeps_props" ->      \* forgets that control 0x01 also demands new properties
           LET s1 == L2Step(s, ch) IN IF ch.k = "unc" /\ s1.ret = "run" THEN [s1 EXCEPT !.needProps = s.needProps] ELSE s1
      [] OTHER -> L2Step(s, ch)

(* the chunk sequence is built one chunk at a time (every prefix is itself a - truncated - stream) *)
Init == chunks = <<>> /\ k = 0 /\ st = L2Init(FALSE)
Next == /\ st.ret = "run" /\ k < MaxChunks
        /\ \E kind \in Kinds :
              /\ chunks' = Append(chunks, kind)
              /\ k' = k + 1
              /\ st' = VStep(st, WithId(kind, k + 1))
Spec == Init /\ [][Next]_vars

Cs == [i \in 1..Len(chunks) |-> WithId(chunks[i], i)]
Finished == TRUE       \* every reachable state is the end of some input
AcceptIffValid == Finished => ((st.ret = "STREAM_END") <=> L2Valid(Cs))
MeaningExact == (Finished /\ st.ret = "STREAM_END") => (st.out = L2Meaning(Cs) /\ st.used = L2Size(Cs))
(* every output produced before an error is a prefix of the data of the chunks seen *)
PrefixOnError == \A i \in 1..Len(st.out) : st.out[i] = i
FunctionalAgrees == Finished => (Variant = "ok" => st = L2Run(Cs))
(* (G) plan emission: one line per chunk sequence when the machine stops *)
Emit == (st'.ret # "run" \/ k' = MaxChunks) =>
           PrintT(<<"PLAN", ToJson([chunks |-> chunks', ret |-> st'.ret, out |-> st'.out, nseen |-> k'])>>)
=============================================================================
