SPECIFICATION MCSpec
CONSTANTS MaxIn = 1  MaxOps = 4  MidRunChunks = TRUE  TinyInput = TRUE  Bugs = {"stream_update_in_block_header"}
 Encs = {"stream", "mt", "raw", "block"}  Grants = {"one"}  Checks = {"crc"}  BSizes = {0}
VIEW MCView
INVARIANTS TypeOK NotBad DecodableLeGiven NoEmptyBlock SeqAgrees
PROPERTY Contract
CHECK_DEADLOCK FALSE
