SPECIFICATION Spec
CONSTANTS
 AllLens <- Lens0to520
 EdgeLens <- Edges
 BigLens <- Big6
 ShaEvery = 1
 Reps = 3
ACTION_CONSTRAINT Emit
CHECK_DEADLOCK FALSE
