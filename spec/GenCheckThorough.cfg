SPECIFICATION Spec
CONSTANTS
 AllLens <- Lens0to700
 EdgeLens <- Edges
 BigLens <- Big6
 Reps = 8
ACTION_CONSTRAINT Emit
CHECK_DEADLOCK FALSE
