------------------------------ MODULE MCSuffix ------------------------------
(* Exhaustive check of SuffixContract over all names of length <= MaxLen    *)
(* over Alpha and all custom suffixes of length <= MaxSuf over SufAlpha.    *)
(* One TLC state per (name, custom suffix): names grow by one character, so *)
(* the work is spread over the TLC workers.                                 *)
EXTENDS SuffixContract, TLC, Json, IOUtils

CONSTANTS Alpha, SufAlpha, MaxLen, MaxSuf, ExtraCustoms
VARIABLES name, custom
vars == <<name, custom>>

RECURSIVE Strings(_, _)
Strings(A, k) == IF k = 0 THEN {<<>>}
                 ELSE LET S == Strings(A, k - 1) IN S \cup {Append(s, c) : s \in S, c \in A}
(* cfg: ExtraCustoms <- ExtraFromEnv reads further custom suffixes (one JSON array of characters per
   line of $C19_CUSTOMS); used for the seeded sample of longer suffixes in the quick tier *)
ExtraFromEnv == LET F == ndJsonDeserialize(IOEnv.C19_CUSTOMS) IN {F[i] : i \in 1..Len(F)}
Customs == Strings(SufAlpha, MaxSuf) \cup ExtraCustoms

Init == name = <<>> /\ custom \in Customs
Next == /\ Len(name) < MaxLen
        /\ (custom # NoCustom => SuffixSet(custom) = "ok")
        /\ \E c \in Alpha : name' = Append(name, c)
        /\ UNCHANGED custom
Spec == Init /\ [][Next]_vars

EncFormats == {"xz", "lzma", "raw"}
AllDecFormats == {"auto", "raw"}   \* suffix.c only distinguishes FORMAT_RAW

SuffixSetExact == (SuffixSet(custom) = "fatal") <=> (custom = <<>> \/ \E i \in 1..Len(custom) : custom[i] = "/")
EmptySuffixFatal == SuffixSet(<<>>) = "fatal"

CompressOK ==
    FileName(name) /\ (custom # NoCustom => SuffixSet(custom) = "ok") =>
        \A fmt \in EncFormats : ValidCfg(fmt, custom) => AllClauses(name, fmt, custom)
DecompressOK ==
    FileName(name) /\ (custom # NoCustom => SuffixSet(custom) = "ok") =>
        \A fmt \in AllDecFormats : ValidCfg(fmt, custom) => DecClauses(name, fmt, custom)

(* non-vacuity witnesses: each of these must be VIOLATED when checked alone *)
NeverSpells == ~(FileName(name) /\ \E fmt \in {"xz", "lzma"} : CustomSuffixSpellsBuiltin(name, fmt, custom))
NeverSkipsCompress == ~(FileName(name) /\ CompressedName(name, "xz", custom).kind = "skip")
NeverTar == ~(FileName(name) /\ UncompressedName(name, "auto", custom).kind = "name"
               /\ EndsWith(UncompressedName(name, "auto", custom).name, TAR))
=============================================================================
