-------------------------- MODULE LifecycleContract --------------------------
(* Property C10 stated over the ledger and the caller-visible results only.  *)
(* MCLifecycle checks Lifecycle (mechanism) => these invariants for all call  *)
(* histories and fault sites within the constants; TraceLifecycle checks them *)
(* again on every recorded execution of the real library.                     *)
EXTENDS Lifecycle

VARIABLE s

AtRest == s.call.pc = "idle"

\* every free returns a block that is live: no double free, no foreign pointer
NoBadFree == s.err = {}

\* the call containing the failed allocation reports it (threaded coders: that call or a later one,
\* and in any case before the stream is reported finished)
FailureReported ==
    /\ (AtRest /\ s.last.failed /\ ~s.last.thr /\ s.last.cls \notin {"End", "Async"}) => s.last.ret = "MEM_ERROR"
    /\ (AtRest /\ s.last.thr /\ s.last.ret = "STREAM_END") => ~s.pend /\ ~s.last.failed
    /\ (AtRest /\ s.last.cls = "Init" /\ s.last.failed) => s.last.ret = "MEM_ERROR"

\* a failed initialisation leaves nothing of the handle allocated
FailedInitClean ==
    (AtRest /\ s.last.cls = "Init" /\ s.last.ret # "OK") => (s.hids \cap s.live = {} /\ s.internal = 0)

\* after lzma_end every byte obtained for the handle has been returned, whatever happened before
EndClean == (AtRest /\ s.last.cls = "End") => s.hids \cap s.live = {}

\* the handle can always be ended or initialised again
HandleStillUsable ==
    AtRest => /\ BeginOK(s, [cls |-> "End", k |-> "none", tgt |-> "none", src |-> "none"])
              /\ \A k \in Kinds : BeginOK(s, [cls |-> "Init", k |-> k, tgt |-> "none", src |-> "none"])

\* (worker threads of a threaded coder may allocate for the handle meanwhile: those ids are not the call's)
NotHandle(ids) == ids \ s.hids
\* a failed call on caller-owned objects leaves them and the ledger as they were
CallerUnchanged ==
    (AtRest /\ s.last.cls \in ObjClasses /\ s.last.ret # "OK") => (s.objs = s.snap /\ NotHandle(s.live) = NotHandle(s.plive))
OneShotBalanced == (AtRest /\ s.last.cls = "OneShot") => NotHandle(s.live) = NotHandle(s.plive)
UpdateKeepsCaller == (AtRest /\ s.last.cls = "Update") => s.objs = s.snap

\* everything is returned once the handle is ended and the caller's objects are freed
AllReleased == (AtRest /\ s.internal = 0 /\ \A o \in Objs : ~s.objs[o].alive) => s.live = {}

\* no coder structure of one kind is ever driven by another kind's functions
KindMatch == (s.usable \/ s.call.pc = "code") => (s.coderKind = s.init /\ s.internal # 0 /\ s.base \in s.live)

\* auxiliary: the pointer view never refers to returned memory
PointersLive ==
    /\ s.coder \cup s.call.tofree \cup s.call.tmp \subseteq s.live
    /\ s.internal # 0 => (s.internal \in s.live \/ Bug = "double_end")
    /\ \A o \in Objs : s.objs[o].own \subseteq s.live
=============================================================================
