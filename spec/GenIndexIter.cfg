SPECIFICATION Spec
CONSTANTS
 BugDupChecks = FALSE  BugIterEmpty = FALSE  BugAppendTotal = FALSE
 NSlots = 2  MaxStreams = 2  MaxRecs = 2
 USizes <- OneU  VSizes <- TinyV  Pads <- NoValues  FlagSet <- NoValues
 Volume = FALSE
 MinSteps = 99  MaxSteps = 6
VIEW View
ACTION_CONSTRAINT EmitT
CHECK_DEADLOCK FALSE
