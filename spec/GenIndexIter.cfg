SPECIFICATION Spec
CONSTANTS
 BugDupChecks = FALSE  BugIterEmpty = FALSE  BugAppendTotal = FALSE
 NSlots = 1  MaxStreams = 1  MaxRecs = 3
 USizes <- OneU  VSizes <- TinyV  Pads <- NoValues  FlagSet <- NoValues
 CommonU <- NoValues  CommonV <- NoValues
 FamStreams <- NoValues  FamBase = 3  FamGroups <- NoValues
 ParkA <- NoValues  ParkB <- NoValues
 EncN <- NoValues
 HashU <- NoValues  HashV <- NoValues
 Volume = FALSE
 MinSteps = 99  MaxSteps = 8
VIEW View
ACTION_CONSTRAINT EmitT
CHECK_DEADLOCK FALSE
