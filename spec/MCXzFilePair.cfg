SPECIFICATION MCSpec
CONSTANTS MaxFaults = 1 MaxSigs = 1 Sigs = {"TERM"} AllFlagCombos = FALSE MaxFiles = 2
INVARIANTS TypeOK DataSafe FailureKeepsSource FailureCleansUp NoJunkLeft ExitZeroMeansDone FailureIsReported
           KeepNeverRemoves NoForeignLost NoOverwrite CleanBetweenFiles AbortDiesBySignal PendingHoleFresh
CHECK_DEADLOCK FALSE
