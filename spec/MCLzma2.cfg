SPECIFICATION Spec
CONSTANTS MaxChunks = 5 Variant = "ok"
INVARIANTS AcceptIffValid MeaningExact PrefixOnError FunctionalAgrees
CHECK_DEADLOCK FALSE
