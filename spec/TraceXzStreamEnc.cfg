SPECIFICATION TSpec
CONSTANTS MaxIn = 0  MaxOps = 0  MidRunChunks = TRUE  TinyInput = TRUE  Bugs = {}
CONSTRAINT TrackMax
POSTCONDITION TraceAccepted
CHECK_DEADLOCK FALSE
