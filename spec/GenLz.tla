-------------------------------- MODULE GenLz --------------------------------
(* (G) for C03, LZ layer.  Every symbol sequence of at most MaxSyms symbols   *)
(* (BFS, a path stops at the first invalid symbol) is printed with the        *)
(* predicted verdict, output, reps and state.  The concretiser range-encodes  *)
(* the symbols with the independent glue encoder into                         *)
(*   ctx "fresh": one LZMA2 chunk (control 0xE0) / a raw LZMA1 stream,        *)
(*   ctx "none":  a second LZMA2 chunk without any reset (control 0x80) after *)
(*                the fixed chunk Pre - reps, state and dictionary persist,   *)
(*   ctx "state": the same with a state reset (control 0xA0) - the dictionary *)
(*                persists (a match may be the first symbol), reps/state not  *)
(*   ctx "afterwrap": a chunk with a dictionary reset (control 0xE0) that     *)
(*                follows a chunk of MORE output than the dictionary holds -  *)
(*                declaratively the same as "fresh": a reset forgets all      *)
(* and the real decoders must return the predicted verdict and bytes.         *)
EXTENDS Lz, TLC, Json

CONSTANTS Bytes, MaxSyms, MaxDist, Lens, Ctxs, Known

VARIABLES st, path, ctx
vars == <<st, path, ctx>>

Pre == <<Lit(1), Lit(2), Match(1, 2)>>
ModeBig == [known |-> FALSE, left |-> 0, eopmOk |-> TRUE]
PreSt == RunH(Start(<<>>, <<0, 0, 0, 0>>, 0, ModeBig), Pre, ModeBig, EffDict)
Symbols == {Lit(b) : b \in Bytes} \cup {Match(d, n) : d \in 0..MaxDist, n \in Lens}
           \cup {Rep(i, n) : i \in 0..3, n \in Lens} \cup {ShortRep, Eopm}
(* LZMA2 chunk: size known, marker forbidden.  Raw LZMA1: size unknown, marker ends the stream *)
GMode == IF Known THEN [known |-> TRUE, left |-> 1000, eopmOk |-> FALSE] ELSE ModeBig

Init == /\ ctx \in Ctxs
        /\ path = <<>>
        /\ st = CASE ctx \in {"fresh", "afterwrap"} -> Start(<<>>, <<0, 0, 0, 0>>, 0, GMode)
                  [] ctx = "state" -> Start(PreSt.h, <<0, 0, 0, 0>>, 0, GMode)
                  [] OTHER         -> Start(PreSt.h, PreSt.r, PreSt.s, GMode)
Next == /\ st.v = "run" /\ Len(path) < MaxSyms
        /\ \E y \in Symbols :
              /\ path' = Append(path, y)
              /\ st' = RunH(st, <<y>>, GMode, EffDict)
              /\ ctx' = ctx
Spec == Init /\ [][Next]_vars
H0 == IF ctx \in {"fresh", "afterwrap"} THEN 0 ELSE Len(PreSt.h)
Emit == PrintT(<<"PLAN", ToJson([ctx |-> ctx, known |-> Known, syms |-> path', v |-> st'.v,
                                 out |-> SubSeq(st'.h, H0 + 1, Len(st'.h)), r |-> st'.r, s |-> st'.s])>>)
=============================================================================
