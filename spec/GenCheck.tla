------------------------------ MODULE GenCheck ------------------------------
(* (G) for C14: TLC chooses inputs (length x content class x initial value x *)
(* split into pieces), runs the check machine of Check.tla over the pieces   *)
(* and prints the value it reaches.  Every printed case is replayed into the *)
(* real lzma_crc32 / lzma_crc64 (dispatched, generic and CLMUL code) and the *)
(* lzma_check_* interface at every pointer alignment by harness/cdrv/c14_*.  *)
(* The seed comes from the environment (VERIF_SEED) so that the content of   *)
(* the pseudo-random classes differs between runs; lengths and classes are   *)
(* always the same.                                                          *)
EXTENDS Check, TLC, Json, IOUtils

CONSTANTS AllLens,      \* every length in this set gets pseudo-random content
          EdgeLens,     \* lengths that also get all-zero / all-FF / single-bit / walking-byte content
          BigLens,      \* a few long inputs (pseudo-random)
          Reps,         \* number of different pseudo-random contents per length
          ShaEvery      \* SHA-256 is fed in pieces for every ShaEvery-th length (always as a whole)

Seed == atoi(IOEnv.SEED) % 30011

\* constant sets for the cfg files (size classes of crc_x86_clmul.h: < 8, 8..15, 16..31, 32.., first 64-byte
\* folding round at 64, one more per 64 bytes; slice-by-8 / slice-by-4 prologue and tail lengths;
\* SHA-256 padding boundaries 55/56/63/64 and multiples)
Lens0to320 == 0..320
Lens0to520 == 0..520
Edges == {1, 7, 8, 9, 15, 16, 17, 31, 32, 33, 47, 48, 63, 64, 65, 79, 80, 111, 112, 119, 120, 127, 128, 129,
          191, 192, 193, 255, 256, 257, 319, 320}
Big3 == {4095, 4096, 4097}
Big6 == {4095, 4096, 4097, 8191, 8192, 12345}

VARIABLES c, data, k, st, out
vars == <<c, data, k, st, out>>

\* pseudo-random numbers derived from (seed, length, repetition)
Rnd(len, r, j) == LcgNext(LcgNext((Seed * 131 + len * 17 + r * 4099 + j * 271) % 65537))

Contents ==
    {[kind |-> "lcg", len |-> n, p |-> Rnd(n, r, 0)] : n \in AllLens \cup BigLens, r \in 1..Reps}
    \cup {[kind |-> kd, len |-> n, p |-> Rnd(n, 0, 1)] : kd \in {"zero", "ff", "bit", "walk"}, n \in EdgeLens \ {0}}

\* non-zero initial values (the zero one is always used too); every 8th is all-ones
Init32(x) == IF x.len % 8 = 5 THEN <<65535, 65535>> ELSE <<Rnd(x.len, 1, 2) % B16, Rnd(x.len, 2, 3) % B16>>
Init64(x) == IF x.len % 8 = 5 THEN <<65535, 65535, 65535, 65535>>
             ELSE <<Rnd(x.len, 1, 2) % B16, Rnd(x.len, 2, 3) % B16, Rnd(x.len, 3, 4) % B16, Rnd(x.len, 4, 5) % B16>>

\* ways of cutting n bytes into consecutive pieces (0-length pieces included on purpose)
Whole(n)     == {<<n>>}
Split2(n, p) == IF n >= 2 THEN {<<n - (p % n), p % n>>} ELSE {}
Split3(n, p) == IF n >= 3 THEN LET a == p % (n - 1) b == (p \div 3) % (n - a) IN {<<a, b, n - a - b>>, <<n - 1, 0, 1>>} ELSE {}
Ones(n)      == IF n >= 1 /\ n <= 24 THEN {[i \in 1..n |-> 1]} ELSE {}
\* pieces that end just before / at / after the 64-byte block boundaries of SHA-256
Blocky(n)    == (IF n >= 66 THEN {<<63, 2, n - 65>>, <<64, n - 64>>} ELSE {})
                \cup (IF n >= 130 THEN {<<1, 127, 1, n - 129>>} ELSE {})

\* <<type, initial value, pieces>>: CRCs with zero and non-zero initial value, whole and in pieces
Plans(x) ==
    LET n == x.len  p == x.p  i32 == Init32(x)  i64 == Init64(x)
    IN  {<<"crc32", <<0, 0>>, ps>> : ps \in Whole(n) \cup Split3(n, p)}
        \cup {<<"crc32", i32, ps>> : ps \in Whole(n) \cup Split2(n, p) \cup Ones(n)}
        \cup {<<"crc64", <<0, 0, 0, 0>>, ps>> : ps \in Whole(n) \cup Split3(n, p)}
        \cup {<<"crc64", i64, ps>> : ps \in Whole(n) \cup Split2(n, p) \cup Ones(n)}
        \cup {<<"sha256", <<>>, ps>> : ps \in Whole(n) \cup Ones(n)}
        \cup (IF n % ShaEvery = 0 \/ x.kind # "lcg"
              THEN {<<"sha256", <<>>, ps>> : ps \in Split2(n, p) \cup Split3(n, p) \cup Blocky(n)} ELSE {})
Offset(ps, j) == FoldLeft(LAMBDA a, i : a + ps[i], 0, Iota(j))

Init == \E x \in Contents :
          LET b == Content(x.kind, x.len, x.p)     \* expanded once per content
          IN \E ti \in Plans(x) :
               /\ c = [type |-> ti[1], init |-> ti[2], kind |-> x.kind, pieces |-> ti[3]]
               /\ data = b
               /\ k = 0
               /\ st = IF ti[1] = "sha256" THEN CkInit("sha256") ELSE [crc |-> ti[2]]
               /\ out = <<>>
Update == /\ k < Len(c.pieces)
          /\ LET off == Offset(c.pieces, k)
             IN st' = CkUpdate(c.type, st, SubSeq(data, off + 1, off + c.pieces[k + 1]))
          /\ k' = k + 1
          /\ UNCHANGED <<c, data, out>>
Finish == /\ k = Len(c.pieces) /\ out = <<>>
          /\ out' = CkFinish(c.type, st)
          /\ UNCHANGED <<c, data, k, st>>
Next == Update \/ Finish
Spec == Init /\ [][Next]_vars

Emit == (out = <<>> /\ out' # <<>>) =>
           PrintT(ToJson([type |-> c.type, init |-> c.init, kind |-> c.kind, bytes |-> data,
                          pieces |-> c.pieces, expect |-> out']))
=============================================================================
