SPECIFICATION Spec
CONSTANTS
 Centers = {0, 3, 128, 16384, 65536, 131072, 196608, 2097152, 4194304, 6291456, 268435456, 1073741824}
 Deltas <- MCDeltas
 FilterSizes = {3, 5, 6, 8, 11, 20}
 Slack <- MCSlack
INVARIANTS BoundSuffices NeverOverruns BoundDominates FallbackIsWorst
CHECK_DEADLOCK FALSE
