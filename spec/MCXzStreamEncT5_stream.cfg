SPECIFICATION MCSpec
CONSTANTS MaxIn = 1  MaxOps = 5  MidRunChunks = TRUE  TinyInput = TRUE  Bugs = {}
 Encs = {"stream"}  Grants = {"big"}  Checks = {"crc"}  BSizes = {0, 1}
VIEW MCView
INVARIANTS TypeOK NotBad DecodableLeGiven NoEmptyBlock SeqAgrees
PROPERTY Contract
CHECK_DEADLOCK FALSE
