SPECIFICATION Spec
CONSTANTS
 Alpha = {"a", ".", "-", "x", "z", "t", "l", "m", "r", "o"}
 MaxLen = 3
ACTION_CONSTRAINT Emit
CHECK_DEADLOCK FALSE
