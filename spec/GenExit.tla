------------------------------- MODULE GenExit -------------------------------
(* Replay direction of C19 (exit status): every sequence of per-file         *)
(* outcomes (ok / warn / error) of length <= MaxFiles x --no-warn x -q count *)
(* with the predicted exit code and whether anything is printed on stderr.   *)
EXTENDS ExitStatus, TLC, Json
CONSTANT MaxFiles
VARIABLES files, nowarn, quiet
vars == <<files, nowarn, quiet>>
Init == files = <<>> /\ nowarn \in BOOLEAN /\ quiet \in 0..2
Next == /\ Len(files) < MaxFiles
        /\ \E o \in {"ok", "warn", "error"} : files' = Append(files, o)
        /\ UNCHANGED <<nowarn, quiet>>
Spec == Init /\ [][Next]_vars
RECURSIVE Msgs(_)
Msgs(fs) == IF fs = <<>> THEN <<>> ELSE (IF Head(fs) = "ok" THEN <<>> ELSE <<Head(fs)>>) \o Msgs(Tail(fs))
Emit == PrintT(<<"PLAN", ToJson([files |-> files', nowarn |-> nowarn, quiet |-> quiet,
                                 exit |-> ExitCode(Msgs(files'), nowarn),
                                 stderr |-> StderrUsed(Msgs(files'), quiet)])>>)
=============================================================================
