SPECIFICATION Spec
CONSTANTS Which = "sflags" MaxTokens = 2
CONSTRAINT Emit
CHECK_DEADLOCK FALSE
