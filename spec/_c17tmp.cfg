SPECIFICATION MCSpec
CONSTANTS MaxFaults = 1 MaxSigs = 1 Sigs = {"TERM"} AllFlagCombos = TRUE
INVARIANTS TypeOK DataSafe FailureKeepsSource FailureCleansUp NoJunkLeft ExitZeroMeansDone FailureIsReported
           KeepNeverRemoves NoForeignLost NoOverwrite CleanBetweenFiles AbortDiesBySignal
CHECK_DEADLOCK FALSE
