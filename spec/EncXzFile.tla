------------------------------ MODULE EncXzFile ------------------------------
(* Field-level judge of what the encoders write (C02): "all stored metadata is *)
(* truthful".  Written from doc/xz-file-format.txt (and lzma-file-format.txt   *)
(* for the 13-byte .lzma header).  The input of the judge is the list of field *)
(* events of the independent parser (harness/glue/xz.py: name, offset, length, *)
(* value) plus facts measured by the independent decoder (decoded size and     *)
(* longest match distance per Block, reference CRC32/Check values computed by  *)
(* the glue's own CRC code over the byte ranges the format prescribes).        *)
(*                                                                             *)
(* One action per field; `st` is the field the grammar expects next, `pos` the *)
(* offset where it must start (fields tile the file without gaps).             *)
(*                                                                             *)
(*  Stream Header   magic FD 37 7A 58 5A 00, flags 00 0c (c = Check ID),       *)
(*                  CRC32(flags)                                               *)
(*  Block Header    size byte s: real size (s+1)*4 = distance to the end of    *)
(*                  its CRC32; flags: bits 0-1 number of filters - 1, bits 2-5 *)
(*                  zero, bit 6/7 = Compressed/Uncompressed Size present;      *)
(*                  stored sizes = measured sizes; filter flags = the chain    *)
(*                  that was configured (or, for the single-call encoders, the *)
(*                  documented fallback: LZMA2 with a 4 KiB dictionary and     *)
(*                  only uncompressed chunks); LZMA2 props byte = smallest     *)
(*                  code whose dictionary size is >= the configured one and    *)
(*                  >= every match distance used; padding zeros; CRC32         *)
(*  Block           data, padding = zeros up to a multiple of 4, Check of the  *)
(*                  configured type over the decoded bytes                     *)
(*  Index           0x00, count = number of Blocks, records = (unpadded,       *)
(*                  uncompressed) of the Blocks in order, padding, CRC32       *)
(*  Stream Footer   CRC32, Backward Size (real index size / 4 - 1), flags =    *)
(*                  header flags, magic 59 5A                                  *)
EXTENDS Integers, Sequences, FiniteSets

VARIABLES st,        \* expected field (see the actions)
          pos,       \* offset of the next field
          cfg,       \* Reset record: configuration and input facts
          sflags,    \* Stream Flags as written in the header (hex)
          blk,       \* Block under inspection (record)
          blocks,    \* completed Blocks: sequence of <<unpadded size, uncompressed size>>
          idx        \* Index under inspection (record)
xvars == <<st, pos, cfg, sflags, blk, blocks, idx>>

CheckSize(id) == CASE id = 0 -> 0 [] id = 1 -> 4 [] id = 4 -> 8 [] id = 10 -> 32 [] OTHER -> -1

\* xz-file-format.txt 5.3.1: dictionary size from the LZMA2 properties byte (b <= 37 keeps it below 2^31)
DictFromProps(b) == (2 + (b % 2)) * 2^((b \div 2) + 11)
LzmaPropsByte(lc, lp, pb) == (pb * 5 + lp) * 9 + lc
FILTER_LZMA2 == 33
FallbackDict == 4096
SingleCall == {"easy_buffer", "stream_buffer", "block_buffer", "index_enc"}   \* (index_enc: Blocks from block_buffer)

Pad4(n) == (4 - (n % 4)) % 4

NoBlk == [none |-> TRUE]
NoIdx == [none |-> TRUE]

XInit == /\ st = "idle" /\ pos = 0 /\ cfg = [fmt |-> "none"] /\ sflags = "" /\ blk = NoBlk /\ blocks = <<>> /\ idx = NoIdx

\* f: the field event [g, f, k, o, l, v, x, z, calc, usize, maxdist]
At(f, g, name) == f.g = g /\ f.f = name /\ f.o = pos

Adv(f) == pos' = pos + f.l

XReset(r) == /\ st' = (IF r.fmt = "xz" THEN "s.magic" ELSE "alone")
             /\ pos' = 0 /\ cfg' = r /\ sflags' = "" /\ blk' = NoBlk /\ blocks' = <<>> /\ idx' = NoIdx

\* ---------------------------------------------------------------- Stream Header
SMagic(f) == /\ st = "s.magic" /\ At(f, "sheader", "magic") /\ f.l = 6 /\ f.x = "fd377a585a00"
             /\ st' = "s.flags" /\ Adv(f) /\ UNCHANGED <<cfg, sflags, blk, blocks, idx>>
SFlags(f) == /\ st = "s.flags" /\ At(f, "sheader", "flags") /\ f.l = 2
             /\ f.b0 = 0 /\ f.b1 = cfg.check                       \* the Check that was asked for
             /\ sflags' = f.x
             /\ st' = "s.crc" /\ Adv(f) /\ UNCHANGED <<cfg, blk, blocks, idx>>
SCrc(f)   == /\ st = "s.crc" /\ At(f, "sheader", "crc32") /\ f.l = 4 /\ f.x = f.calc
             /\ st' = "blocks" /\ Adv(f) /\ UNCHANGED <<cfg, sflags, blk, blocks, idx>>

\* ---------------------------------------------------------------- Block Header
BSize(f) == /\ st = "blocks" /\ At(f, "bheader", "size") /\ f.l = 1 /\ f.v >= 1
            /\ blk' = [start |-> f.o, hsize |-> (f.v + 1) * 4, nf |-> 0, hasC |-> FALSE, hasU |-> FALSE,
                       storedC |-> -1, storedU |-> -1, mode |-> "?", k |-> 0, dict |-> 0, csize |-> 0, usize |-> 0]
            /\ st' = "b.flags" /\ Adv(f) /\ UNCHANGED <<cfg, sflags, blocks, idx>>

\* the chain this Block may declare: the configured one, or the uncompressed fallback of the single-call encoders
BFlags(f) == /\ st = "b.flags" /\ At(f, "bheader", "flags") /\ f.l = 1
             /\ (f.v \div 4) % 16 = 0                               \* reserved bits
             /\ \E m \in {"cfg", "fallback"} :
                  /\ m = "fallback" => cfg.entry \in SingleCall
                  /\ (f.v % 4) + 1 = (IF m = "cfg" THEN cfg.nfilters ELSE 1)
                  /\ blk' = [blk EXCEPT !.nf = (f.v % 4) + 1, !.hasC = ((f.v \div 64) % 2 = 1),
                                        !.hasU = (f.v \div 128 = 1), !.mode = m]
             /\ st' = (IF (f.v \div 64) % 2 = 1 THEN "b.csize" ELSE IF f.v \div 128 = 1 THEN "b.usize" ELSE "b.fid")
             /\ Adv(f) /\ UNCHANGED <<cfg, sflags, blocks, idx>>
BCSize(f) == /\ st = "b.csize" /\ At(f, "bheader", "compressed_size") /\ f.v >= 1
             /\ blk' = [blk EXCEPT !.storedC = f.v]
             /\ st' = (IF blk.hasU THEN "b.usize" ELSE "b.fid")
             /\ Adv(f) /\ UNCHANGED <<cfg, sflags, blocks, idx>>
BUSize(f) == /\ st = "b.usize" /\ At(f, "bheader", "uncompressed_size") /\ f.v >= 0
             /\ blk' = [blk EXCEPT !.storedU = f.v]
             /\ st' = "b.fid" /\ Adv(f) /\ UNCHANGED <<cfg, sflags, blocks, idx>>

ExpFid(k)   == IF blk.mode = "cfg" THEN cfg.fids[k + 1] ELSE FILTER_LZMA2
BFid(f)   == /\ st = "b.fid" /\ At(f, "bheader", "fid") /\ f.k = blk.k
             /\ f.v = ExpFid(blk.k)
             /\ st' = "b.fpsize" /\ Adv(f) /\ UNCHANGED <<cfg, sflags, blk, blocks, idx>>
BFpsize(f) == /\ st = "b.fpsize" /\ At(f, "bheader", "fpsize") /\ f.k = blk.k
              /\ f.v = (IF ExpFid(blk.k) = FILTER_LZMA2 THEN 1
                        ELSE IF blk.mode = "cfg" THEN cfg.fpsizes[blk.k + 1] ELSE 0)
              /\ st' = "b.fprops" /\ Adv(f) /\ UNCHANGED <<cfg, sflags, blk, blocks, idx>>
BFprops(f) ==
    /\ st = "b.fprops" /\ At(f, "bheader", "fprops") /\ f.k = blk.k
    /\ IF ExpFid(blk.k) = FILTER_LZMA2
       THEN LET want == IF blk.mode = "cfg" THEN cfg.dict ELSE FallbackDict IN
            /\ f.l = 1 /\ f.b0 \in 0..37
            /\ DictFromProps(f.b0) >= want                                  \* declared dictionary covers the configured one
            /\ (f.b0 = 0 \/ DictFromProps(f.b0 - 1) < want)                 \* ... and is the smallest such code
            /\ blk' = [blk EXCEPT !.dict = DictFromProps(f.b0), !.k = @ + 1]
       ELSE /\ f.x = cfg.fprops[blk.k + 1]                                  \* delta distance - 1 / no BCJ start offset
            /\ blk' = [blk EXCEPT !.k = @ + 1]
    /\ st' = (IF blk.k + 1 = blk.nf THEN "b.pad" ELSE "b.fid")
    /\ Adv(f) /\ UNCHANGED <<cfg, sflags, blocks, idx>>
BPad(f) == /\ st = "b.pad" /\ At(f, "bheader", "padding")
           /\ f.z                                                            \* zeros
           /\ f.o + f.l + 4 = blk.start + blk.hsize                         \* the size byte tells the real header length
           /\ st' = "b.crc" /\ Adv(f) /\ UNCHANGED <<cfg, sflags, blk, blocks, idx>>
BCrc(f) == /\ st = "b.crc" /\ At(f, "bheader", "crc32") /\ f.l = 4 /\ f.x = f.calc
           /\ f.o + 4 = blk.start + blk.hsize
           /\ st' = "b.data" /\ Adv(f) /\ UNCHANGED <<cfg, sflags, blk, blocks, idx>>

\* ---------------------------------------------------------------- Block body
BData(f) == /\ st = "b.data" /\ At(f, "block", "data") /\ f.l >= 1
            /\ blk.hasC => blk.storedC = f.l                                \* stored Compressed Size = measured
            /\ blk.hasU => blk.storedU = f.usize                            \* stored Uncompressed Size = measured
            /\ f.maxdist <= blk.dict                                        \* no match reaches beyond the declared dictionary
            /\ (blk.mode = "fallback") => f.maxdist = 0                     \* fallback = uncompressed chunks only
            /\ blk' = [blk EXCEPT !.csize = f.l, !.usize = f.usize]
            /\ st' = "b.bpad" /\ Adv(f) /\ UNCHANGED <<cfg, sflags, blocks, idx>>
BBPad(f) == /\ st = "b.bpad" /\ At(f, "block", "padding")
            /\ f.l = Pad4(blk.hsize + blk.csize) /\ f.z
            /\ st' = "b.check" /\ Adv(f) /\ UNCHANGED <<cfg, sflags, blk, blocks, idx>>
BCheck(f) == /\ st = "b.check" /\ At(f, "block", "check")
             /\ f.l = CheckSize(cfg.check)
             /\ f.x = f.calc                                                \* Check of the decoded bytes
             /\ blocks' = Append(blocks, <<blk.hsize + blk.csize + f.l, blk.usize>>)
             /\ blk' = NoBlk
             /\ st' = "blocks" /\ Adv(f) /\ UNCHANGED <<cfg, sflags, idx>>

\* ---------------------------------------------------------------- Index
IIndicator(f) == /\ st = "blocks" /\ At(f, "index", "indicator") /\ f.l = 1 /\ f.v = 0
                 /\ idx' = [start |-> f.o, n |-> 0, size |-> 0]
                 /\ st' = "i.count" /\ Adv(f) /\ UNCHANGED <<cfg, sflags, blk, blocks>>
ICount(f) == /\ st = "i.count" /\ At(f, "index", "count") /\ f.v = Len(blocks)
             /\ st' = (IF Len(blocks) = 0 THEN "i.pad" ELSE "i.unpadded")
             /\ Adv(f) /\ UNCHANGED <<cfg, sflags, blk, blocks, idx>>
IUnpadded(f) == /\ st = "i.unpadded" /\ At(f, "index", "unpadded") /\ f.k = idx.n
                /\ f.v = blocks[idx.n + 1][1]
                /\ st' = "i.uncompressed" /\ Adv(f) /\ UNCHANGED <<cfg, sflags, blk, blocks, idx>>
IUncompressed(f) == /\ st = "i.uncompressed" /\ At(f, "index", "uncompressed") /\ f.k = idx.n
                    /\ f.v = blocks[idx.n + 1][2]
                    /\ idx' = [idx EXCEPT !.n = @ + 1]
                    /\ st' = (IF idx.n + 1 = Len(blocks) THEN "i.pad" ELSE "i.unpadded")
                    /\ Adv(f) /\ UNCHANGED <<cfg, sflags, blk, blocks>>
IPad(f) == /\ st = "i.pad" /\ At(f, "index", "padding")
           /\ f.l = Pad4(f.o - idx.start) /\ f.z
           /\ st' = "i.crc" /\ Adv(f) /\ UNCHANGED <<cfg, sflags, blk, blocks, idx>>
ICrc(f) == /\ st = "i.crc" /\ At(f, "index", "crc32") /\ f.l = 4 /\ f.x = f.calc
           /\ idx' = [idx EXCEPT !.size = f.o + 4 - idx.start]
           /\ st' = "f.crc" /\ Adv(f) /\ UNCHANGED <<cfg, sflags, blk, blocks>>

\* ---------------------------------------------------------------- Stream Footer
FCrc(f) == /\ st = "f.crc" /\ At(f, "footer", "crc32") /\ f.l = 4 /\ f.x = f.calc
           /\ st' = "f.backward" /\ Adv(f) /\ UNCHANGED <<cfg, sflags, blk, blocks, idx>>
FBackward(f) == /\ st = "f.backward" /\ At(f, "footer", "backward_size") /\ f.l = 4
                /\ (f.v + 1) * 4 = idx.size                                  \* Backward Size = real size of the Index
                /\ st' = "f.flags" /\ Adv(f) /\ UNCHANGED <<cfg, sflags, blk, blocks, idx>>
FFlags(f) == /\ st = "f.flags" /\ At(f, "footer", "flags") /\ f.l = 2 /\ f.x = sflags
             /\ st' = "f.magic" /\ Adv(f) /\ UNCHANGED <<cfg, sflags, blk, blocks, idx>>
FMagic(f) == /\ st = "f.magic" /\ At(f, "footer", "magic") /\ f.l = 2 /\ f.x = "595a"
             /\ st' = "s.end" /\ Adv(f) /\ UNCHANGED <<cfg, sflags, blk, blocks, idx>>

\* ---------------------------------------------------------------- end of file
SumU(bs) == LET RECURSIVE S(_) S(k) == IF k = 0 THEN 0 ELSE bs[k][2] + S(k - 1) IN S(Len(bs))
XEof(e) == /\ st = "s.end"
           /\ pos = cfg.flen                                                 \* nothing after the Stream
           /\ e.verdict = "ok" /\ e.consumed = cfg.flen                      \* the independent decoder accepts the file
           /\ e.outlen = cfg.inlen /\ e.outdig = cfg.indig                   \* ... and recovers the input
           /\ SumU(blocks) = cfg.inlen                                       \* the Index accounts for every input byte
           /\ st' = "idle" /\ UNCHANGED <<pos, cfg, sflags, blk, blocks, idx>>

\* ---------------------------------------------------------------- .lzma header (lzma-file-format.txt)
\* Properties byte, Dictionary Size (u32), Uncompressed Size (u64, all ones = unknown -> end marker required)
AloneDictForm(d) == \E n \in 12..30 : d = 2^n \/ d = 2^n + 2^(n - 1)
XAlone(h) == /\ st = "alone"
             /\ h.props = LzmaPropsByte(cfg.lc, cfg.lp, cfg.pb)              \* truthful lc/lp/pb
             /\ LET d == h.dicthi * 65536 + h.dictlo IN
                /\ h.dicthi < 32768
                /\ d >= cfg.dict                                             \* covers the configured dictionary
                /\ AloneDictForm(d)                                          \* 2^n or 2^n + 2^(n-1) (what liblzma's own decoder accepts)
                /\ \A n \in 12..30 : (2^n >= cfg.dict => d <= 2^n) /\ (2^n + 2^(n - 1) >= cfg.dict => d <= 2^n + 2^(n - 1))
                /\ h.maxdist <= d                                            \* no match reaches beyond it
             /\ h.usize = "ffffffffffffffff" /\ h.eopm                       \* unknown size <=> end marker present
             /\ h.verdict = "ok" /\ h.consumed = cfg.flen
             /\ h.outlen = cfg.inlen /\ h.outdig = h.indig
             /\ st' = "idle" /\ UNCHANGED <<pos, cfg, sflags, blk, blocks, idx>>
=============================================================================
