SPECIFICATION MCSpec
CONSTANT Strict = TRUE
INVARIANTS StrictInv
CHECK_DEADLOCK FALSE
