SPECIFICATION MCSpec
CONSTANTS Strict = TRUE  Big = FALSE
INVARIANTS StrictInv
CHECK_DEADLOCK FALSE
