SPECIFICATION ESpec
CONSTANTS After = 1 Look = 3
 Datas <- MCDatas
INVARIANT EncIndependent
CHECK_DEADLOCK FALSE
