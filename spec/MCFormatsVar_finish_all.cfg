SPECIFICATION Spec
CONSTANTS
 EopmLocalPerCall = FALSE  PickyAcceptsZero = FALSE  AutoFinishAll = TRUE
 MemDictLimbHi = 752
 ChunkSizes = {0, 1}  Profile = "quick"  Sweep = "small"
 Formats = {"lzip"}
INVARIANTS MeetsContract NeverUnspecified StopsAtFirstStream Bounded
CHECK_DEADLOCK FALSE
