SPECIFICATION Spec
CONSTANTS
 Copies = 1  Pad = 0  Concat = FALSE
 OutOvh = 1
 EarlyTailError = FALSE
 MaxReinit = 0 MemStop = 1000000 MaxRaise = 0 MayFailMain = FALSE Tell = "none"
 CountCalls = TRUE
 NW = 3  HdrSz = 2  TailSz = 2  TailOk = TRUE  Chunk = 2
 Blocks <- B_sim4
 FileLen = 16
 Timeout = TRUE  FailFast = FALSE  Spurious = TRUE  MemT = 9
 Gives = {0, 1, 3, 100}  Spaces = {0, 1, 2, 100}
 MaxCalls = 30
CONSTRAINT CallBound
INVARIANTS OutputIsPrefix TerminalEquivalence BufErrorOnlyWhenStarved NoUseAfterFree FailedWorkerNotReused QueueOk DocumentedCodes EndJoinsAll MemlimitEquivalence TellOncePerStream
CHECK_DEADLOCK FALSE
