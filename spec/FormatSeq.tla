------------------------------ MODULE FormatSeq -------------------------------
(* Re-use of one lzma_stream for several files: after a file is finished the   *)
(* application calls the decoder's initialisation function again on the SAME   *)
(* handle (no lzma_end()) - what xz, xzdec and lzmadec do for every further    *)
(* file operand, and what lzma_auto_decoder does with its inner decoder.       *)
(* Reinit = the initialisation function: a re-initialised decoder is a fresh   *)
(* one, so every file of the sequence must meet the contract on its own        *)
(* (MeetsContract is checked at the end of each file).                          *)
(* ReinitStale = TRUE is a deliberately broken variant: the .lzma decoder's     *)
(* uncompressed_size survives the re-initialisation and the header parser ORs   *)
(* the next file's bytes into it.                                               *)
EXTENDS FormatFamilies, Json

CONSTANT ReinitStale, SeqLevel        \* SeqLevel "core" | "all"
VARIABLES queue, hist
svars == <<vars, queue, hist>>
SView == <<vars, queue>>          \* model checking: the history is not part of the behaviour

Reinited(old) ==
    IF ReinitStale /\ api = "alone" THEN [ApiInit(api, flags) EXCEPT !.us = old.us]
    ELSE ApiInit(api, flags)

Kinds == LET t == FullTokens(fd) IN [j \in 1..Len(t) |-> t[j].k]
Result == [fd |-> fd, kinds |-> Kinds, len |-> Len(file), rets |-> rets, out |-> tout, tin |-> tin,
           exp |-> Expect(fd, api, flags)]

SCall == Call /\ UNCHANGED <<queue, hist>>
Reinit ==
    /\ done /\ queue # <<>>
    /\ fd' = Head(queue) /\ file' = Tokens(Head(queue)) /\ queue' = Tail(queue)
    /\ cst' = Reinited(cst)
    /\ tin' = 0 /\ tout' = 0 /\ offered' = 0 /\ allowBuf' = FALSE /\ rets' = <<>> /\ done' = FALSE
    /\ hist' = Append(hist, Result)
    /\ UNCHANGED <<api, flags, mode>>

(* ------------------------------------------------------------ sequences *)
A(u, e, t) == AloneDesc(P0, D16, u, 2, e, t, 0)
AloneSeqFiles == IF SeqLevel = "core"
    THEN {A("exact", FALSE, 0), A("unknown", TRUE, 0), A("exact", TRUE, 0), A("small", FALSE, 0)}
    ELSE {A("exact", FALSE, 0), A("unknown", TRUE, 0), A("exact", TRUE, 0), A("small", FALSE, 0), A("big", TRUE, 0),
          A("exact", FALSE, 3), A("m38", TRUE, 0), AloneDesc(225, D16, "exact", 2, FALSE, 0, 0),
          AloneDesc(P0, D16, "exact", 2, FALSE, 0, 4), AloneDesc(P0, D16, "unknown", 2, TRUE, 0, 20)}
LzSeqFiles == IF SeqLevel = "core"
    THEN {LzipDesc(<<M1>>, <<>>, 0), LzipDesc(<<M0, M1>>, <<76, 90>>, 0), LzipDesc(<<[M1 EXCEPT !.crc = 1]>>, <<>>, 0)}
    ELSE {LzipDesc(<<M1>>, <<>>, 0), LzipDesc(<<M0, M1>>, <<76, 90>>, 0), LzipDesc(<<[M1 EXCEPT !.crc = 1]>>, <<>>, 0),
          LzipDesc(<<M0>>, <<88>>, 0), LzipDesc(<<[M1 EXCEPT !.ver = 2]>>, <<>>, 0), LzipDesc(<<M1>>, <<>>, 9),
          LzipDesc(<<[M1 EXCEPT !.msz = 1]>>, <<>>, 0), LzipDesc(<<M1, M0>>, <<>>, 25)}
XzSeqFiles == IF SeqLevel = "core"
    THEN {XzDesc(<<S(1, 0)>>, <<>>, 0), XzDesc(<<S(0, 4), S(1, 0)>>, <<>>, 0), XzDesc(<<S(1, 3)>>, <<>>, 0)}
    ELSE {XzDesc(<<S(1, 0)>>, <<>>, 0), XzDesc(<<S(0, 4), S(1, 0)>>, <<>>, 0), XzDesc(<<S(1, 3)>>, <<>>, 0),
          XzDesc(<<S(2, 0)>>, <<>>, 0), XzDesc(<<[S(1, 0) EXCEPT !.cbad = TRUE]>>, <<>>, 0), XzDesc(<<S(1, 0)>>, <<>>, 15),
          XzDesc(<<[S(1, 0) EXCEPT !.hdr = 1]>>, <<>>, 0), XzDesc(<<S(1, 2), S(1, 0)>>, <<>>, 0)}
Pairs(fs) == {<<a, b>> : a \in fs, b \in fs}
Triples(fs) == {<<a, b, c>> : a \in fs, b \in fs, c \in fs}
Mixed == LET a == A("exact", FALSE, 0)  l == LzipDesc(<<M1>>, <<>>, 0)  x == XzDesc(<<S(1, 0)>>, <<>>, 0)
             l2 == LzipDesc(<<M0>>, <<88>>, 0)  a2 == A("unknown", TRUE, 0)  x2 == XzDesc(<<S(2, 4), S(1, 0)>>, <<>>, 0)
             at == A("exact", FALSE, 3)  at2 == A("unknown", TRUE, 1)     \* .lzma followed by foreign bytes
         IN {<<l, at>>, <<l2, at2, a>>, <<x, at>>, <<l, at2, l>>, <<at, l>>,
             <<a, l, x>>, <<x, a, l>>, <<l, x, a>>, <<a2, a, l2>>, <<x2, l2, a2>>, <<l, a, a2>>, <<a, x2, a2>>, <<a2, x, a>>}
FCatCli == FCat \cup {{"CONCATENATED", "TELL_UNSUPPORTED_CHECK"}}
SeqCases ==
    Cases(Pairs(AloneSeqFiles), {"alone"}, F0) \cup Cases(Pairs(AloneSeqFiles), {"auto"}, FCat)
    \cup Cases(Pairs(LzSeqFiles), {"lzip", "auto"}, FCat \cup {{"TELL_ANY_CHECK", "CONCATENATED"}})
    \cup Cases(Pairs(XzSeqFiles), {"stream", "auto"}, FCatCli)
    \cup Cases(Mixed, {"auto"}, FCatCli \cup {{"TELL_NO_CHECK", "TELL_ANY_CHECK"}})
    \cup Cases(Triples({A("exact", FALSE, 0), A("unknown", TRUE, 0), A("exact", TRUE, 0)}), {"alone"}, F0)
    \cup Cases(Triples({A("exact", FALSE, 0), A("unknown", TRUE, 0)}), {"auto"}, {{"CONCATENATED"}})

SInit == \E c \in SeqCases : \E m \in Modes :
            /\ InitWith(c[1][1], c[2], c[3], m) /\ queue = Tail(c[1]) /\ hist = <<>>
SNext == SCall \/ Reinit
SSpec == SInit /\ [][SNext]_svars

SeqPlan == [api |-> api, flags |-> flags, mode |-> mode, files |-> Append(hist, Result)]
EmitSeq == (done /\ queue = <<>>) => PrintT(<<"PLAN", ToJson(SeqPlan)>>)
=============================================================================
