------------------------------- MODULE Check -------------------------------
(* C14: the integrity checks of the .xz format as *definitions*, and the     *)
(* init / update* / finish state machine of liblzma's check interface.       *)
(*                                                                           *)
(*  - CrcDef: CRC with a reflected polynomial, one message bit at a time     *)
(*    (IEEE 802.3: 0xEDB88320, ECMA-182: 0xC96C5795D7870F42), initial value  *)
(*    and final value complemented, `init` = CRC of the preceding bytes.     *)
(*  - CrcTab: the same through a byte table that is *derived* from CrcBit    *)
(*    (MCCheck checks CrcTab = CrcDef); used for long inputs.                *)
(*  - Sha256Def: FIPS 180-4 section 6.2 (pad, parse, schedule, 64 rounds).   *)
(*  - Ck*: transcription of check.c / sha256.c: lzma_check_state with the    *)
(*    running crc32 / crc64 or SHA-256 state[8] + size + 64-byte buffer.     *)
(* Words are tuples of 16-bit limbs (Limbs16), bytes are 0..255.             *)
EXTENDS Naturals, Sequences, SequencesExt, Bitwise, Limbs16

Poly32 == <<\h8320, \hEDB8>>                       \* 0xEDB88320
Poly64 == <<\h0F42, \hD787, \h5795, \hC96C>>       \* 0xC96C5795D7870F42

\* ------------------------------------------------------------------ CRC
\* one step of the reflected bit-serial division
CrcBit(poly, c) == IF WOdd(c) THEN WXor(WShr(c, 1), poly) ELSE WShr(c, 1)
CrcBits8(poly, c) == FoldLeft(LAMBDA x, i : CrcBit(poly, x), c, <<1, 2, 3, 4, 5, 6, 7, 8>>)
XorLowByte(c, b) == [c EXCEPT ![1] = c[1] ^^ b]
CrcByteDef(poly, c, b) == CrcBits8(poly, XorLowByte(c, b))
\* `init` is the CRC of the data that precedes `bytes` (0 for none)
CrcDef(poly, bytes, init) ==
    WNot(FoldLeft(LAMBDA c, b : CrcByteDef(poly, c, b), WNot(init), bytes))

CrcTable(poly) == [i \in 0..255 |-> CrcBits8(poly, [k \in 1..Len(poly) |-> IF k = 1 THEN i ELSE 0])]
Table32 == CrcTable(Poly32)
Table64 == CrcTable(Poly64)
\* shift right by one byte
WShr8(c) == [i \in DOMAIN c |-> (c[i] \div 256) + (IF i < Len(c) THEN (c[i + 1] % 256) * 256 ELSE 0)]
CrcByteTab(tab, c, b) == WXor(tab[(c[1] ^^ b) % 256], WShr8(c))
CrcTab(tab, bytes, init) ==
    WNot(FoldLeft(LAMBDA c, b : CrcByteTab(tab, c, b), WNot(init), bytes))

\* the two tables specialised to explicit tuples (this is what the generators evaluate on long inputs;
\* MCCheck checks Crc32 = Crc32Def and Crc64 = Crc64Def)
Crc32Step(c, b) == LET t == Table32[(c[1] % 256) ^^ b]
                   IN <<t[1] ^^ ((c[1] \div 256) + (c[2] % 256) * 256), t[2] ^^ (c[2] \div 256)>>
Crc64Step(c, b) == LET t == Table64[(c[1] % 256) ^^ b]
                   IN <<t[1] ^^ ((c[1] \div 256) + (c[2] % 256) * 256), t[2] ^^ ((c[2] \div 256) + (c[3] % 256) * 256),
                        t[3] ^^ ((c[3] \div 256) + (c[4] % 256) * 256), t[4] ^^ (c[4] \div 256)>>
Crc32(bytes, init) ==
    LET r == FoldLeft(Crc32Step, <<65535 - init[1], 65535 - init[2]>>, bytes) IN <<65535 - r[1], 65535 - r[2]>>
Crc64(bytes, init) ==
    LET r == FoldLeft(Crc64Step, <<65535 - init[1], 65535 - init[2], 65535 - init[3], 65535 - init[4]>>, bytes)
    IN <<65535 - r[1], 65535 - r[2], 65535 - r[3], 65535 - r[4]>>
Crc32Def(bytes, init) == CrcDef(Poly32, bytes, init)
Crc64Def(bytes, init) == CrcDef(Poly64, bytes, init)

\* ------------------------------------------------------------------ long runs of zero bytes (closed form)
\* The CRC register is a polynomial over GF(2) (reflected: the most significant bit is x^0); shifting in one
\* zero bit multiplies it by x modulo the generator, which is CrcBit.  n zero bytes multiply it by x^(8n), and
\* x^(8n) is obtained by square-and-multiply over the binary digits of n (n given as 16-bit limbs, least
\* significant first), so inputs of many GiB are within reach.  MCCheck checks ZeroRun = CrcDef on short runs.
Mat(w) == SubSeq(w, 1, Len(w))                    \* evaluated copy (TLC keeps function constructors lazy)
WBit(a, k) == (a[(k \div 16) + 1] \div Pow2(k % 16)) % 2
PolyOne(nl) == [i \in 1..nl |-> IF i = nl THEN 32768 ELSE 0]
PolyMul(poly, a, b) ==
    LET W == 16 * Len(poly)
    IN FoldLeft(LAMBDA st, i : <<IF WBit(a, W - 1 - i) = 1 THEN Mat(WXor(st[1], st[2])) ELSE st[1], Mat(CrcBit(poly, st[2]))>>,
                <<Mat(WConst(Len(poly), 0)), Mat(b)>>, [k \in 1..W |-> k - 1])[1]
PolyX8(poly) == Mat(CrcBits8(poly, PolyOne(Len(poly))))
\* (x^8)^n, n = sum of nlimbs[i] * 65536^(i-1)
PolyX8Pow(poly, nlimbs) ==
    FoldLeft(LAMBDA st, k : <<IF WBit(nlimbs, k) = 1 THEN PolyMul(poly, st[1], st[2]) ELSE st[1], PolyMul(poly, st[2], st[2])>>,
             <<Mat(PolyOne(Len(poly))), PolyX8(poly)>>, [k \in 1..(16 * Len(nlimbs)) |-> k - 1])[1]
\* CRC of n zero bytes that follow data whose CRC is init
ZeroRun(poly, nlimbs, init) == Mat(WNot(PolyMul(poly, Mat(WNot(init)), PolyX8Pow(poly, nlimbs))))

\* ------------------------------------------------------------------ SHA-256 (FIPS 180-4)
K == <<<<\h2F98, \h428A>>, <<\h4491, \h7137>>, <<\hFBCF, \hB5C0>>, <<\hDBA5, \hE9B5>>,
  <<\hC25B, \h3956>>, <<\h11F1, \h59F1>>, <<\h82A4, \h923F>>, <<\h5ED5, \hAB1C>>,
  <<\hAA98, \hD807>>, <<\h5B01, \h1283>>, <<\h85BE, \h2431>>, <<\h7DC3, \h550C>>,
  <<\h5D74, \h72BE>>, <<\hB1FE, \h80DE>>, <<\h06A7, \h9BDC>>, <<\hF174, \hC19B>>,
  <<\h69C1, \hE49B>>, <<\h4786, \hEFBE>>, <<\h9DC6, \h0FC1>>, <<\hA1CC, \h240C>>,
  <<\h2C6F, \h2DE9>>, <<\h84AA, \h4A74>>, <<\hA9DC, \h5CB0>>, <<\h88DA, \h76F9>>,
  <<\h5152, \h983E>>, <<\hC66D, \hA831>>, <<\h27C8, \hB003>>, <<\h7FC7, \hBF59>>,
  <<\h0BF3, \hC6E0>>, <<\h9147, \hD5A7>>, <<\h6351, \h06CA>>, <<\h2967, \h1429>>,
  <<\h0A85, \h27B7>>, <<\h2138, \h2E1B>>, <<\h6DFC, \h4D2C>>, <<\h0D13, \h5338>>,
  <<\h7354, \h650A>>, <<\h0ABB, \h766A>>, <<\hC92E, \h81C2>>, <<\h2C85, \h9272>>,
  <<\hE8A1, \hA2BF>>, <<\h664B, \hA81A>>, <<\h8B70, \hC24B>>, <<\h51A3, \hC76C>>,
  <<\hE819, \hD192>>, <<\h0624, \hD699>>, <<\h3585, \hF40E>>, <<\hA070, \h106A>>,
  <<\hC116, \h19A4>>, <<\h6C08, \h1E37>>, <<\h774C, \h2748>>, <<\hBCB5, \h34B0>>,
  <<\h0CB3, \h391C>>, <<\hAA4A, \h4ED8>>, <<\hCA4F, \h5B9C>>, <<\h6FF3, \h682E>>,
  <<\h82EE, \h748F>>, <<\h636F, \h78A5>>, <<\h7814, \h84C8>>, <<\h0208, \h8CC7>>,
  <<\hFFFA, \h90BE>>, <<\h6CEB, \hA450>>, <<\hA3F7, \hBEF9>>, <<\h78F2, \hC671>>>>
H0 == <<<<\hE667, \h6A09>>, <<\hAE85, \hBB67>>, <<\hF372, \h3C6E>>, <<\hF53A, \hA54F>>,
        <<\h527F, \h510E>>, <<\h688C, \h9B05>>, <<\hD9AB, \h1F83>>, <<\hCD19, \h5BE0>>>>

Ch(x, y, z)  == Xor32(And32(x, y), And32(Not32(x), z))
Maj(x, y, z) == Xor32(Xor32(And32(x, y), And32(x, z)), And32(y, z))
BSig0(x) == Xor32(Xor32(Rotr32(x, 2), Rotr32(x, 13)), Rotr32(x, 22))
BSig1(x) == Xor32(Xor32(Rotr32(x, 6), Rotr32(x, 11)), Rotr32(x, 25))
SSig0(x) == Xor32(Xor32(Rotr32(x, 7), Rotr32(x, 18)), Shr32(x, 3))
SSig1(x) == Xor32(Xor32(Rotr32(x, 17), Rotr32(x, 19)), Shr32(x, 10))

Iota(n) == [i \in 1..n |-> i]
\* block: 64 bytes; big-endian words
BlockWords(block) == [t \in 1..16 |-> FromBytes32(block[4 * t], block[4 * t - 1], block[4 * t - 2], block[4 * t - 3])]
Schedule(block) ==
    FoldLeft(LAMBDA w, t : Append(w, Add32(Add32(SSig1(w[t - 2]), w[t - 7]), Add32(SSig0(w[t - 15]), w[t - 16]))),
             BlockWords(block), [i \in 1..48 |-> i + 16])
Round(s, kt, wt) ==
    LET T1 == Add32(Add32(Add32(s[8], BSig1(s[5])), Add32(Ch(s[5], s[6], s[7]), kt)), wt)
        T2 == Add32(BSig0(s[1]), Maj(s[1], s[2], s[3]))
    IN <<Add32(T1, T2), s[1], s[2], s[3], Add32(s[4], T1), s[5], s[6], s[7]>>
Compress(H, block) ==
    LET w == Schedule(block)
        r == FoldLeft(LAMBDA s, t : Round(s, K[t], w[t]), H, Iota(64))
    IN <<Add32(H[1], r[1]), Add32(H[2], r[2]), Add32(H[3], r[3]), Add32(H[4], r[4]),
         Add32(H[5], r[5]), Add32(H[6], r[6]), Add32(H[7], r[7]), Add32(H[8], r[8])>>

Zeros(n) == [i \in 1..n |-> 0]
\* message length in bits (8 * n) as 8 big-endian bytes, for n < 2^31 bytes: the 64-bit value in 16-bit limbs
\* is <<(n mod 2^13) * 8, (n div 2^13) mod 2^16, n div 2^29, 0>> (least significant first)
BitLenBE(n) == LET l0 == (n % 8192) * 8  l1 == (n \div 8192) % 65536  l2 == n \div 536870912
               IN <<0, 0, l2 \div 256, l2 % 256, l1 \div 256, l1 % 256, l0 \div 256, l0 % 256>>
Pad(msg) == msg \o <<128>> \o Zeros((119 - (Len(msg) % 64)) % 64) \o BitLenBE(Len(msg))
DigestBytes(H) == BytesBE32(H[1]) \o BytesBE32(H[2]) \o BytesBE32(H[3]) \o BytesBE32(H[4])
               \o BytesBE32(H[5]) \o BytesBE32(H[6]) \o BytesBE32(H[7]) \o BytesBE32(H[8])
Sha256Def(msg) ==
    LET p == Pad(msg)
    IN DigestBytes(FoldLeft(LAMBDA H, i : Compress(H, SubSeq(p, 64 * i - 63, 64 * i)), H0, Iota(Len(p) \div 64)))

\* ------------------------------------------------------------------ check interface (check.c, sha256.c)
Types == {"crc32", "crc64", "sha256"}
CheckSize(type) == CASE type = "crc32" -> 4 [] type = "crc64" -> 8 [] type = "sha256" -> 32

\* lzma_check_init(): state.crc32 = 0 / state.crc64 = 0 / lzma_sha256_init().  The buffer is not
\* initialised by the code; its stale content must not matter (modelled as `junk`).
CkInitJ(type, junk) ==
    CASE type = "crc32" -> [crc |-> <<0, 0>>]
      [] type = "crc64" -> [crc |-> <<0, 0, 0, 0>>]
      [] type = "sha256" -> [h |-> H0, size |-> 0, buf |-> [i \in 1..64 |-> junk]]
CkInit(type) == CkInitJ(type, 0)

\* lzma_sha256_update(): the code copies into buffer[size & 63 ..] and calls process() whenever size becomes a
\* multiple of 64.  Stated without the loop: V = the `start` buffered bytes followed by the new data; every
\* complete 64-byte block of V is compressed in order; the rest of V stays at the front of the buffer and the
\* positions behind it keep what the last copy left there (bytes of the previous block, or older content).
ShaUpdate(s, data) ==
    LET start == s.size % 64
        V     == SubSeq(s.buf, 1, start) \o data
        total == start + Len(data)
        nb    == total \div 64
        rem   == total % 64
        h2    == FoldLeft(LAMBDA h, i : Compress(h, SubSeq(V, 64 * i - 63, 64 * i)), s.h, Iota(nb))
        buf2  == IF nb = 0 THEN V \o SubSeq(s.buf, total + 1, 64)
                 ELSE SubSeq(V, 64 * nb + 1, total) \o SubSeq(V, 64 * (nb - 1) + rem + 1, 64 * nb)
    IN [h |-> h2, size |-> s.size + Len(data), buf |-> buf2]

\* lzma_sha256_finish(): 0x80, zeros up to byte 56 (through an extra block if needed), bit count, process
ShaFinish(s) ==
    LET pos  == s.size % 64
        len8 == BitLenBE(s.size)
        b1   == [j \in 1..64 |-> IF j = pos + 1 THEN 128 ELSE IF j > pos + 1 THEN 0 ELSE s.buf[j]]
        tail(b) == [j \in 1..64 |-> IF j > 56 THEN len8[j - 56] ELSE b[j]]
    IN IF pos + 1 <= 56
       THEN DigestBytes(Compress(s.h, tail(b1)))
       ELSE LET hmid == Compress(s.h, b1)
                b2   == [j \in 1..64 |-> IF j <= 56 THEN 0 ELSE b1[j]]
            IN DigestBytes(Compress(hmid, tail(b2)))

CkUpdate(type, s, data) ==
    CASE type = "crc32" -> [crc |-> Crc32(data, s.crc)]
      [] type = "crc64" -> [crc |-> Crc64(data, s.crc)]
      [] type = "sha256" -> ShaUpdate(s, data)
\* the bytes stored in the Check field
CkFinish(type, s) ==
    CASE type = "crc32" -> WBytesLE(s.crc)
      [] type = "crc64" -> WBytesLE(s.crc)
      [] type = "sha256" -> ShaFinish(s)
\* what the format demands of the Check field for the whole data
CkDef(type, data) ==
    CASE type = "crc32" -> WBytesLE(Crc32Def(data, <<0, 0>>))
      [] type = "crc64" -> WBytesLE(Crc64Def(data, <<0, 0, 0, 0>>))
      [] type = "sha256" -> Sha256Def(data)

\* ------------------------------------------------------------------ input contents (for the generators)
\* small LCG (x' = 75 x + 74 mod 65537) so that every product stays below 2^31
LcgNext(x) == (75 * x + 74) % 65537
LcgBytes(seed, n) ==
    FoldLeft(LAMBDA acc, i : <<Append(acc[1], (acc[2] \div 5) % 256), LcgNext(acc[2])>>,
             <<<<>>, LcgNext(seed % 65537)>>, Iota(n))[1]
Content(kind, n, p) ==
    CASE kind = "zero" -> Zeros(n)
      [] kind = "ff"   -> [i \in 1..n |-> 255]
      [] kind = "bit"  -> [i \in 1..n |-> IF i = (p % n) + 1 THEN Pow2((p \div 7) % 8) ELSE 0]
      [] kind = "walk" -> [i \in 1..n |-> (i + p) % 256]
      [] kind = "lcg"  -> LcgBytes(p, n)
=============================================================================
