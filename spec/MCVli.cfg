SPECIFICATION Spec
CONSTANTS MaxLen = 10 Variant = "ok"
INVARIANTS MultiAgrees SingleAgrees
CHECK_DEADLOCK FALSE
